import PdtVerif.Lemmas.CheckpointRounding
import PdtVerif.Lemmas.CheckpointOrder
/-!
# C16 — a crash during an epoch update never loses the last or best checkpoint

Model: `Model/Checkpoint.lean` (the mutating calls of `update_for_epoch` in the order the code
makes them — every `f.write` of a history line is a call of its own; `Quirks.fixed` = the tree with
`fixes/C16-*.diff` applied, `Quirks.pinned` = the pinned tree). Spec: `Spec/Recoverable.lean` (`Rec`,
`RecAt`, `ExactLB`, `AllLoadable`, `RecAll`, `Inj`, `SafeAt`, `SafeFmt`, `Sep`). Proofs:
`Lemmas/Checkpoint.lean`, `Lemmas/CheckpointFormats.lean`, `Lemmas/CheckpointLr.lean`,
`Lemmas/CheckpointRounding.lean`, `Lemmas/CheckpointOrder.lean` (this file states the property theorems and
instantiates them).

`SafeAt P vals k`: the update of epoch `k+1` is checkpoint-first (does not refuse, `save_info_first`
is `False`) — a condition on the two file-name formats and the metric history. `SafeFmt P vals`: all
updates of the history are. `Sep P vals k`: the last and the best epoch have different file names.
`Inj P`: the two formats are injective in the epoch (they contain `{epoch}`); it implies the others.
`U tr e`: the state an uninterrupted run saves for epoch `e` — model state and optimizer state, the
optimizer's learning rate INCLUDED (`Opt.lr`): `tr.fit` = any deterministic training, `tr.red e` = the
learning rate `update_for_epoch(e)` writes into the optimizer before it saves (`none`: no reduction);
`U tr (e+1) = tr.step (e+1) (U tr e)`, `lrAt tr e = (U tr e).2.lr`. "Exactly the parameters saved for
epoch e" therefore covers the hyper-parameter the controller itself rewrites (last section).
`vals`: the metric column that decides "best" (`deciding bestIsTrain ms`) — the values `get_best_epoch`
COMPARES. Section "metrics as recorded": the raw metrics handed to `update_for_epoch` are `raw`, the
history file records `fileVals R raw`, a controller started with `k0` recorded epochs compares
`memVals R raw k0`; `best` of the spec is the first minimum of the recorded column.
-/
namespace PdtVerif.Checkpoint

/-! ## which formats are covered -/

/-- Formats with the `{epoch}` field are checkpoint-first for EVERY metric history, and keep the
names of the last and the best epoch apart. -/
theorem C16_inj_safe {P : Params} (hi : Inj P) (vals : List (Option Int)) :
    SafeFmt P vals ∧ ∀ k, SafeAt P vals k ∧ Sep P vals k :=
  ⟨hi.safeFmt vals, fun k => ⟨hi.safeAt vals k, hi.sep vals k⟩⟩

/-- A checkpoint-first update never refuses (no `ValueError`).
(Audit: DEFINITIONAL — `SafeAt` contains `refuses … = false` and `planUpdate` is `if refuses then error else ok`.
Kept as a reading aid, NOT counted as an obligation.) -/
theorem C16_never_refuses {P : Params} {vals : List (Option Int)} {k : Nat} (hs : SafeAt P vals k)
    (Q : Quirks) (d : Disk) (s : St) : ∃ main cl, planUpdate Q P vals k d s = .ok (main, cl) :=
  c16_never_refuses hs Q d s

/-! ## crash safety, call by call -/

/-- **Every single mutating call of every update preserves recoverability.** `d` is any disk on
which a new controller recovers (`Rec`: garbage allowed, so `d` may be the result of any number of
earlier crashes); the controller has `k` epochs recorded and saves the state `U tr (k+1)`; the
update is checkpoint-first and the last and best epoch have different names (both hold for formats
with `{epoch}`: `C16_inj_safe`); the clean-up may run in any order and over any part `cl'` of the
planned set; the process may be killed after any number `i` of the mutating calls — `open(csv)`,
the write of the header line and the write of the data row are three separate calls. -/
theorem C16_rec_step {P : Params} (vals : List (Option Int)) (tr : Train) (d : Disk)
    (hrec : Rec P vals tr d) (k : Nat) (hk : recorded d = some k) (hlt : k < vals.length)
    (hs : SafeAt P vals k) (hsep : Sep P vals k)
    (main : List FsOp) (cl : List Path)
    (hplan : planUpdate Quirks.fixed P vals k d (tr.step (k + 1) (U tr k)) = .ok (main, cl))
    (cl' : List Path) (hcl : ∀ p ∈ cl', p ∈ cl) (i : Nat) :
    Rec P vals tr (exec d ((opsOf main cl').take i)) :=
  c16_rec_step vals tr d hrec k hk hlt hs hsep main cl hplan cl' hcl i

/-- The same when call `i` itself is executed half-way (`tear`: a `torch.save` into the temp file
stops anywhere; `makedirs`, `NamedTemporaryFile`, `os.replace`, `open`, `os.remove` and the header
line are atomic in the model), under the explicit ATOMICITY HYPOTHESIS `hat`: call `i` is not the
write of a history data row — a row reaches the file whole or not at all. -/
theorem C16_rec_step_torn {P : Params} (vals : List (Option Int)) (tr : Train) (d : Disk)
    (hrec : Rec P vals tr d) (k : Nat) (hk : recorded d = some k) (hlt : k < vals.length)
    (hs : SafeAt P vals k) (hsep : Sep P vals k)
    (main : List FsOp) (cl : List Path)
    (hplan : planUpdate Quirks.fixed P vals k d (tr.step (k + 1) (U tr k)) = .ok (main, cl))
    (cl' : List Path) (hcl : ∀ p ∈ cl', p ∈ cl) (i : Nat)
    (hat : ∀ e, (opsOf main cl')[i]? ≠ some (.hwrite (.row e))) :
    Rec P vals tr (tornDisk tear d (opsOf main cl') i) :=
  c16_rec_step_torn vals tr d hrec k hk hlt hs hsep main cl hplan cl' hcl i hat

/-- **The atomicity hypothesis is needed** (known finding `C16.history.torn_row`). In the
checkpoint-first update of ANY recoverable disk, call number `8 + histOps.length - 1` is the write
of the data row; when it stops half-way, every later controller raises while reading the history
(`recorded = none`, so `Rec` fails) although both checkpoints are in place. -/
theorem C16_torn_row_window {P : Params} {vals : List (Option Int)} {tr : Train} {d : Disk} {k : Nat}
    (hrec : RecAt P vals tr d k) (s : St) (cl : List Path) :
    (opsOf (saveOps P d (k + 1) s ++ histOps Quirks.fixed d (k + 1)) cl)[8 +
        (histOps Quirks.fixed d (k + 1)).length - 1]? = some (.hwrite (.row (k + 1))) ∧
    recorded (tornDisk tear d (opsOf (saveOps P d (k + 1) s ++ histOps Quirks.fixed d (k + 1)) cl)
      (8 + (histOps Quirks.fixed d (k + 1)).length - 1)) = none ∧
    ¬ Rec P vals tr (tornDisk tear d (opsOf (saveOps P d (k + 1) s ++ histOps Quirks.fixed d (k + 1)) cl)
      (8 + (histOps Quirks.fixed d (k + 1)).length - 1)) := by
  obtain ⟨h1, h2⟩ := c16_torn_row hrec s cl
  refine ⟨h1, h2, ?_⟩
  rintro ⟨k', hk', _⟩
  rw [h2] at hk'
  cases hk'

/-- The same for a complete update: afterwards `k+1` epochs are recorded. -/
theorem C16_rec_full {P : Params} (vals : List (Option Int)) (tr : Train) (d : Disk)
    (k : Nat) (hrec : RecAt P vals tr d k) (hlt : k < vals.length)
    (hs : SafeAt P vals k) (hsep : Sep P vals k)
    (main : List FsOp) (cl : List Path)
    (hplan : planUpdate Quirks.fixed P vals k d (tr.step (k + 1) (U tr k)) = .ok (main, cl))
    (cl' : List Path) (hcl : ∀ p ∈ cl', p ∈ cl) :
    RecAt P vals tr (exec d (opsOf main cl')) (k + 1) :=
  c16_rec_full vals tr d k hrec hlt hs hsep main cl hplan cl' hcl

/-! ## which updates are crash safe: any pair of formats -/

/-- **History row first ⇒ window.** When the history row is appended before the checkpoint is
written (`save_info_first`), the disk right after the row names epoch `k+1` while the files under
its names are what they were before: unless they already hold the state to be saved, the disk is
not recoverable. Any formats, any recoverable disk, any metric history. -/
theorem C16_infofirst_window {P : Params} {vals : List (Option Int)} {tr : Train} {d : Disk} {k : Nat}
    (hrec : RecAt P vals tr d k) (hne : loadState P d (k + 1) ≠ some (U tr (k + 1)))
    (s : St) (cl : List Path) :
    ¬ Rec P vals tr (exec d ((opsOf (histOps Quirks.fixed d (k + 1) ++ saveOps P d (k + 1) s) cl).take
      (histOps Quirks.fixed d (k + 1)).length)) :=
  c16_infofirst_window hrec hne s cl

/-- **Characterisation of the crash-safe updates**, for ANY pair of file-name formats (constant,
injective in the epoch, depending on a metric, …): from a recoverable disk with `k` epochs recorded,
an update that does not refuse and whose new paths do not already hold the state to be saved keeps
the disk recoverable at every crash point, for every part and order of the clean-up, **iff** the
code's `save_info_first` is `False` — i.e. iff the new names differ from those of the last and of
the last-best epoch (keep-last-and-best) / of every recorded epoch (keep-everything). -/
theorem C16_rec_step_iff {P : Params} {vals : List (Option Int)} {tr : Train} {d : Disk} {k : Nat}
    (hrec : RecAt P vals tr d k) (hk : k < vals.length) (hr : refuses P vals k = false)
    (hsep : Sep P vals k) (hne : loadState P d (k + 1) ≠ some (U tr (k + 1))) :
    (∀ cl', (∀ p ∈ cl', p ∈ cleanSet P vals k d) → ∀ i,
        Rec P vals tr (exec d ((opsOf (mainOps Quirks.fixed P vals k d (U tr (k + 1))) cl').take i))) ↔
      infoFirst Quirks.fixed P vals k d = false :=
  c16_rec_step_iff hrec hk hr hsep hne

/-- **Names formatted from the metric only** (`"model_{val_met:.3f}.pt"`; `g` = the formatted metric,
injective), keep-last-and-best: the update of epoch `k+1` is checkpoint-first iff (it is the new
best, or its metric differs from the best one's) and (the best is epoch `k`, or its metric differs
from epoch `k`'s and from the previous best's). -/
theorem C16_metric_format_safeAt_iff (g : Option Int → Nat) (hg : ∀ a b, g a = g b → a = b)
    (vals : List (Option Int)) (k : Nat) :
    SafeAt (metricP true g vals) vals k ↔
      ((bestOf (vals.take (k + 1)) = k + 1 ∨
          metricAt vals (k + 1) ≠ metricAt vals (bestOf (vals.take (k + 1)))) ∧
        (bestOf (vals.take (k + 1)) = k ∨
          (metricAt vals (k + 1) ≠ metricAt vals k ∧
            metricAt vals (k + 1) ≠ metricAt vals (bestOf (vals.take k))))) :=
  metricP_safeAt_iff g hg vals k

/-- … and over a whole history: every update is checkpoint-first (hence every theorem of this file
that assumes `SafeFmt` applies) iff every epoch that is NOT a new best has a metric different from
the best one's (otherwise `update_for_epoch` raises) and — unless the best is the epoch just before
it — different from that of the epoch just before it (otherwise the row goes first:
`C16_infofirst_window`). A new best epoch is always safe (`get_best_epoch` keeps the first strict
minimum). -/
theorem C16_metric_format_iff (g : Option Int → Nat) (hg : ∀ a b, g a = g b → a = b)
    (vals : List (Option Int)) :
    SafeFmt (metricP true g vals) vals ↔
      ∀ k, k < vals.length → bestOf (vals.take (k + 1)) ≠ k + 1 →
        metricAt vals (k + 1) ≠ metricAt vals (bestOf (vals.take k)) ∧
          (bestOf (vals.take k) = k ∨ metricAt vals (k + 1) ≠ metricAt vals k) :=
  metricP_safeFmt_iff g hg vals

/-! ## sessions: any sequence of crashes and restarts -/

/-- A session (new controller, load last epoch, `j` complete updates, `i` mutating calls of the
next update, killed — `torn`: inside call `i`, a `torch.save`) leaves a recoverable disk. -/
theorem C16_rec_crashSession {P : Params} (vals : List (Option Int)) (hs : SafeFmt P vals) (tr : Train)
    (d : Disk) (hrec : Rec P vals tr d) (j i : Nat) (torn : Bool) :
    Rec P vals tr (crashSession Quirks.fixed P vals tr d j i torn) :=
  c16_rec_crashSession vals hs tr d hrec j i torn

/-- **Resume.** Any number of sessions, each killed after any number of completed updates and any
number of mutating calls of the next one, followed by a session that runs to the end: the disk is
recoverable and all `vals.length` epochs are recorded. -/
theorem C16_resume {P : Params} (vals : List (Option Int)) (hs : SafeFmt P vals) (tr : Train) (d : Disk)
    (hrec : Rec P vals tr d) (sched : List (Nat × Nat × Bool)) :
    RecAt P vals tr (faulty Quirks.fixed P vals tr d sched) vals.length :=
  c16_resume vals hs tr d hrec sched

/-- The history file after any crash/restart sequence equals the uninterrupted run's. -/
theorem C16_resume_history {P : Params} (vals : List (Option Int)) (hs : SafeFmt P vals) (tr : Train)
    (hn : 0 < vals.length) (sched : List (Nat × Nat × Bool)) :
    (faulty Quirks.fixed P vals tr Disk.blank sched).csv =
      (runToEnd Quirks.fixed P vals tr Disk.blank).csv :=
  c16_resume_history vals hs tr hn sched

/-- **`best_is_train`.** Everything above is parametric in the metric column that decides "best":
for a history of (train, val) pairs and either value of `best_is_train`, any crash schedule ends
with all epochs recorded, last and best-by-the-chosen-column loadable with their own states.
(Audit: `C16_resume` at `vals := deciding bestIsTrain ms` and `List.length_map`, nothing else — that
`best_is_train` enters ONLY through the choice of the column is a modelling decision validated by correspondence,
not something this proves. Kept as a reading aid, NOT counted as an obligation.) -/
theorem C16_best_is_train {P : Params} (bestIsTrain : Bool) (ms : List (Option Int × Option Int))
    (hs : SafeFmt P (deciding bestIsTrain ms)) (tr : Train) (sched : List (Nat × Nat × Bool)) :
    RecAt P (deciding bestIsTrain ms) tr
      (faulty Quirks.fixed P (deciding bestIsTrain ms) tr Disk.blank sched) ms.length := by
  have := c16_resume (deciding bestIsTrain ms) hs tr Disk.blank (Rec_blank P _ tr).rec sched
  simpa [deciding] using this

/-! ### non-vacuity: a concrete run -/

def exP : Params := ⟨true, fun e => e, fun e => e⟩
/-- training that leaves the learning rate alone; the plateau rule fires in the update of epoch 2 -/
def exTr : Train := ⟨fun e s => (3 * s.1 + e, ⟨5 * s.2.t + e, s.2.lr⟩), fun e => if e = 2 then some 1 else none⟩
def exVals : List (Option Int) := [some 500, some 400, some 450]

theorem exP_inj : Inj exP := ⟨fun _ _ h => h, fun _ _ h => h⟩

/-- killed between the two renames of epoch 2, then killed during the clean-up of epoch 2 -/
example : recOk exP exVals exTr (crashSession Quirks.fixed exP exVals exTr Disk.blank 1 7) = true := by decide
example : recOk exP exVals exTr
    (crashSession Quirks.fixed exP exVals exTr (crashSession Quirks.fixed exP exVals exTr Disk.blank 1 7) 0 11)
    = true := by decide
example : (faulty Quirks.fixed exP exVals exTr Disk.blank [(1, 7, false), (0, 11, false)]).csv =
    some [.header, .row 1, .row 2, .row 3] := by decide

/-- interrupted between the header line and the row of the first update (10 calls: save, open,
header): the file holds the header only, a new controller sees no epoch, and the continued run
writes no second header -/
example : (crashSession Quirks.fixed exP exVals exTr Disk.blank 0 10).csv = some [.header] ∧
    recOk exP exVals exTr (crashSession Quirks.fixed exP exVals exTr Disk.blank 0 10) = true ∧
    (faulty Quirks.fixed exP exVals exTr Disk.blank [(0, 10, false)]).csv =
      some [.header, .row 1, .row 2, .row 3] := by decide

/-- the hypotheses of `C16_rec_step` hold on a concrete disk: first update of an empty directory,
killed after 7 of its mutating calls (between the two renames) -/
example : Rec exP exVals exTr
    (exec Disk.blank ((opsOf (saveOps exP Disk.blank 1 (1, ⟨1, 0⟩) ++ histOps Quirks.fixed Disk.blank 1) []).take 7)) :=
  C16_rec_step exVals exTr Disk.blank (Rec_blank exP exVals exTr).rec 0 rfl (by decide)
    (exP_inj.safeAt exVals 0) (exP_inj.sep exVals 0)
    (saveOps exP Disk.blank 1 (1, ⟨1, 0⟩) ++ histOps Quirks.fixed Disk.blank 1) [] rfl [] (fun _ h => h) 7

/-- … and in the middle of a run, on a disk with leftovers of an earlier crash (a temp file and
the superseded checkpoint of epoch 1): `Rec` holds there (`decide`), so the theorem applies. -/
example : recOk exP exVals exTr (crashSession Quirks.fixed exP exVals exTr
    (crashSession Quirks.fixed exP exVals exTr Disk.blank 0 3) 1 10) = true := by decide

/-- a torn `torch.save` (call 2 of epoch 2) and the atomicity hypothesis of `C16_rec_step_torn`:
call 2 is not a history write -/
example : recOk exP exVals exTr (crashSession Quirks.fixed exP exVals exTr Disk.blank 1 2 true) = true ∧
    (crashSession Quirks.fixed exP exVals exTr Disk.blank 1 2 true).files.get (.tmp 0) = some .torn := by
  decide

/-- the torn data row on a concrete disk: epoch 2's row (call 9) stops half-way -/
example : (let d := (runLoop Quirks.fixed exP exVals exTr 1 0 St.init Disk.blank).2.2
    let ops := opsOf (saveOps exP d 2 (U exTr 2) ++ histOps Quirks.fixed d 2) []
    (tornDisk tear d ops 9).csv = some [.header, .row 1, .torn] ∧
      recorded (tornDisk tear d ops 9) = none ∧
      loadState exP (tornDisk tear d ops 9) 2 = some (U exTr 2)) := by decide

/-- `best_is_train`: train and val columns disagree about the best epoch; the hypothesis of
`C16_best_is_train` holds for `exP` (`C16_inj_safe`) -/
def exMs : List (Option Int × Option Int) := [(some 500, some 400), (some 400, some 500), (some 450, some 450)]

example : bestOf (deciding true exMs) = 2 ∧ bestOf (deciding false exMs) = 1 ∧
    recOk exP (deciding true exMs) exTr
      (faulty Quirks.fixed exP (deciding true exMs) exTr Disk.blank [(1, 7, false)]) = true := by decide

/-! ## exactness of the directory in crash-free runs (keep last and best only) -/

/-- One complete update, clean-up in any order: if the directory held exactly the files of the
last and best epoch before, it does so afterwards. -/
theorem C16_exact_step {P : Params} (hi : Inj P) (hkeep : P.keepLB = true) (vals : List (Option Int))
    (tr : Train) (d : Disk) (k : Nat) (hex : ExactLB P vals d k) (hk : k < vals.length)
    (main : List FsOp) (cl : List Path)
    (hplan : planUpdate Quirks.fixed P vals k d (tr.step (k + 1) (U tr k)) = .ok (main, cl))
    (cl' : List Path) (hcl : ∀ p, p ∈ cl' ↔ p ∈ cl) :
    ExactLB P vals (exec d (opsOf main cl')) (k + 1) :=
  c16_exact_step hi hkeep vals tr d k hex hk main cl hplan cl' hcl

/-- **Last-and-best only, no crash:** after every completed update `j` of a run that starts on an
empty directory, the directory holds exactly the files of the last and of the best epoch (and the
disk is recoverable). -/
theorem C16_exact_nocrash {P : Params} (hi : Inj P) (hkeep : P.keepLB = true) (vals : List (Option Int))
    (tr : Train) (j : Nat) (hj : j ≤ vals.length) :
    ∃ d, runLoop Quirks.fixed P vals tr j 0 (U tr 0) Disk.blank = (j, U tr j, d) ∧
      ExactLB P vals d j ∧ RecAt P vals tr d j :=
  c16_exact_nocrash hi hkeep vals tr j hj

example : exactLBOk exP exVals (runLoop Quirks.fixed exP exVals exTr 3 0 St.init Disk.blank).2.2 3 = true := by
  decide

/-! ## keep everything: every recorded epoch stays loadable — with or without crashes -/

/-- Every single mutating call of a keep-everything update preserves `RecAll` (= `RecAt` and every
recorded epoch loadable with exactly its state). -/
theorem C16_keepall_step {P : Params} (hi : Inj P) (hkeep : P.keepLB = false) (vals : List (Option Int))
    (tr : Train) (d : Disk) (k : Nat) (h : RecAll P vals tr d k) (hlt : k < vals.length)
    (main : List FsOp) (cl : List Path)
    (hplan : planUpdate Quirks.fixed P vals k d (tr.step (k + 1) (U tr k)) = .ok (main, cl)) (i : Nat) :
    ∃ k', RecAll P vals tr (exec d ((opsOf main cl).take i)) k' :=
  c16_keepall_step hi hkeep vals tr d k h hlt main cl hplan i

/-- **Keep everything:** after any number of killed sessions and a final one that runs to the end,
every epoch `1..n` is loadable with exactly the state saved for it. -/
theorem C16_keepall_loadable {P : Params} (hi : Inj P) (hkeep : P.keepLB = false) (vals : List (Option Int))
    (tr : Train) (sched : List (Nat × Nat × Bool)) :
    AllLoadable P tr (faulty Quirks.fixed P vals tr Disk.blank sched) vals.length :=
  c16_keepall_loadable hi hkeep vals tr sched

def exPall : Params := ⟨false, fun e => e, fun e => e⟩

example : Inj exPall ∧ exPall.keepLB = false := ⟨⟨fun _ _ h => h, fun _ _ h => h⟩, rfl⟩
example : (List.range' 1 3).all (fun j => decide (loadState exPall
    (faulty Quirks.fixed exPall exVals exTr Disk.blank [(1, 7, false), (0, 2, true)]) j = some (U exTr j))) = true := by
  decide

/-! ## the optimizer's learning rate is part of what is saved

`update_for_epoch(e)` rewrites the optimizer's `param_groups[*]["lr"]` when the plateau rule fires
(`tr.red e = some l`) and only then saves. `Content.optim` carries the learning rate, `U tr e` is
the state AFTER that write, so every theorem above already speaks about it; the statements below
make that explicit. -/

/-- **What `Rec` says about the files.** On a recoverable disk the optimizer file of the last recorded
epoch and that of the best recorded epoch hold the uninterrupted run's optimizer state — per-parameter
state and learning rate; when the update of that epoch reduced the learning rate to `l`, the file
has `l` (the value written into the optimizer BEFORE the checkpoint was taken).
(Audit: this UNPACKS the definition of `RecAt` — `loadState … = some (U tr e)` read file by file, `lrAt` and
`U` unfolded; the content is that `Rec` is PRESERVED with the learning rate inside `U` (`C16_rec_step`,
`C16_crash_lr`, `C16_lr_order_necessary`). Kept as a reading aid, NOT counted as an obligation.) -/
theorem C16_saved_lr {P : Params} {vals : List (Option Int)} {tr : Train} {d : Disk} {k : Nat}
    (h : RecAt P vals tr d k) (e : Nat) (he : e = k ∨ e = bestOf (vals.take k)) (h1 : 1 ≤ e) :
    ∃ o, d.files.get (P.opath e) = some (.optim o) ∧ o = (U tr e).2 ∧ o.lr = lrAt tr e ∧
      (∀ l, tr.red e = some l → o.lr = l) :=
  c16_saved_lr h e he h1

/-- When the user's training leaves the learning rate alone, the learning rate of the state saved
for epoch `e` is the learning-rate column of the history (`lrSched`: the value of the last
reduction up to `e`, the initial one before the first). -/
theorem C16_lr_closed_form {tr : Train} (hf : FitKeepsLr tr) (e : Nat) :
    lrAt tr e = lrSched tr.red e :=
  lrAt_eq_sched hf e

/-- **At every crash point** of a checkpoint-first update of a recoverable disk (hypotheses of
`C16_rec_step`), the optimizer a new controller loads for the last recorded epoch and for the best
one carries the learning rate the uninterrupted run had at that epoch — in particular, killed
anywhere in the update that FOLLOWS a reduction, the restart does not fall back to the old rate. -/
theorem C16_crash_lr {P : Params} (vals : List (Option Int)) (tr : Train) (d : Disk)
    (hrec : Rec P vals tr d) (k : Nat) (hk : recorded d = some k) (hlt : k < vals.length)
    (hs : SafeAt P vals k) (hsep : Sep P vals k)
    (main : List FsOp) (cl : List Path)
    (hplan : planUpdate Quirks.fixed P vals k d (tr.step (k + 1) (U tr k)) = .ok (main, cl))
    (cl' : List Path) (hcl : ∀ p ∈ cl', p ∈ cl) (i : Nat) :
    ∃ k', recorded (exec d ((opsOf main cl').take i)) = some k' ∧
      ∀ e, (e = k' ∨ e = bestOf (vals.take k')) → 1 ≤ e →
        ∃ o, (exec d ((opsOf main cl').take i)).files.get (P.opath e) = some (.optim o) ∧
          o.lr = lrAt tr e ∧ o.t = (U tr e).2.t := by
  obtain ⟨k', hk'⟩ := c16_rec_step vals tr d hrec k hk hlt hs hsep main cl hplan cl' hcl i
  refine ⟨k', hk'.1, fun e he h1 => ?_⟩
  obtain ⟨o, ho, hou, hlr, _⟩ := c16_saved_lr hk' e he h1
  exact ⟨o, ho, hlr, by rw [hou]⟩

/-- **Resume, in memory.** After any number of killed sessions the final session holds, right after
`load_model_and_optimizer_for_epoch`, exactly the state the uninterrupted run had after the last
recorded epoch `k`, and when it has run to the end exactly the uninterrupted run's final state
(model, per-parameter optimizer state, learning rate): training continues as if nothing had
happened. -/
theorem C16_resume_state {P : Params} (vals : List (Option Int)) (hs : SafeFmt P vals) (tr : Train)
    (d : Disk) (hrec : Rec P vals tr d) (sched : List (Nat × Nat × Bool)) :
    ∃ k d', k ≤ vals.length ∧
      startSession P (afterCrashes Quirks.fixed P vals tr d sched) = some (k, U tr k) ∧
      runLoop Quirks.fixed P vals tr (vals.length - k) k (U tr k)
        (afterCrashes Quirks.fixed P vals tr d sched) = (vals.length, U tr vals.length, d') ∧
      faulty Quirks.fixed P vals tr d sched = d' ∧ RecAt P vals tr d' vals.length := by
  obtain ⟨k, d', h1, h2, h3, h4, h5⟩ := c16_resume_memory vals hs tr _
    (rec_afterCrashes vals hs tr d hrec sched)
  exact ⟨k, d', h1, h2, h3, by rw [faulty_eq_runToEnd]; exact h4, h5⟩

/-- `exTr` leaves the learning rate to the controller; the update of epoch 2 reduces it, epoch 3
keeps the reduced one; killed in the update that follows the reduction (2 complete updates, 3 calls
of epoch 3's), then restarted: the optimizer loaded for epoch 2 has the new learning rate, and the
run ends in the uninterrupted final state. -/
example : FitKeepsLr exTr := fun _ _ => rfl
example : lrAt exTr 1 = 0 ∧ lrAt exTr 2 = 1 ∧ lrAt exTr 3 = 1 ∧ lrSched exTr.red 3 = 1 := by decide
example : (let d := crashSession Quirks.fixed exP exVals exTr Disk.blank 2 3
    startSession exP d = some (2, U exTr 2) ∧ (U exTr 2).2.lr = 1 ∧
      d.files.get (.optim 2) = some (.optim ⟨7, 1⟩) ∧
      loadState exP (faulty Quirks.fixed exP exVals exTr Disk.blank [(2, 3, false)]) 3 = some (U exTr 3)) := by
  decide

/-- **The order is necessary.** In a checkpoint-first update of a recoverable disk in which the
plateau rule fires (a real change of the learning rate), writing the learning rate into the
optimizer only AFTER checkpoint and history row (`updateLrLate`) leaves the process with the right
state in memory and `k+1` epochs recorded — an uninterrupted run shows nothing —, but the optimizer
saved for epoch `k+1` still has the old learning rate: the disk is not recoverable in the sense of
`Rec`, a restart from that epoch trains on with the wrong rate. -/
theorem C16_lr_order_necessary {P : Params} {vals : List (Option Int)} {tr : Train} {d : Disk} {k : Nat}
    (hrec : RecAt P vals tr d k) (hlt : k < vals.length) (hs : SafeAt P vals k) (hsep : Sep P vals k)
    {l : Nat} (hred : tr.red (k + 1) = some l) (hne : (tr.fit (k + 1) (U tr k)).2.lr ≠ l) :
    ∃ d', updateLrLate Quirks.fixed P vals tr k (U tr k) d = .ok (d', U tr (k + 1)) ∧
      recorded d' = some (k + 1) ∧
      loadState P d' (k + 1) = some (tr.fit (k + 1) (U tr k)) ∧
      ¬ Rec P vals tr d' :=
  c16_lr_order_necessary hrec hlt hs hsep hred hne

/-- … on the concrete run: epoch 1 saved as the code does, epoch 2 (the reduction) in the other
order. In memory the state is the uninterrupted one; the optimizer file of epoch 2 has learning
rate 0 instead of 1; a run resumed from it ends with a different final state. -/
theorem C16_lr_order_counterexample :
    (let d1 := (runLoop Quirks.fixed exP exVals exTr 1 0 St.init Disk.blank).2.2
     ∃ d2, updateLrLate Quirks.fixed exP exVals exTr 1 (U exTr 1) d1 = .ok (d2, U exTr 2) ∧
       recorded d2 = some 2 ∧ loadState exP d2 2 = some (5, ⟨7, 0⟩) ∧ U exTr 2 = (5, ⟨7, 1⟩) ∧
       recOk exP exVals exTr d2 = false ∧
       loadState exP (runToEnd Quirks.fixed exP exVals exTr d2) 3 = some (18, ⟨38, 0⟩) ∧
       U exTr 3 = (18, ⟨38, 1⟩)) := by
  refine ⟨_, rfl, ?_⟩
  decide

/-! ## metrics as recorded: `best` is the first minimum of the history file's column

`R : Rounding` = (what the history file's format makes of a metric, what `get_best_epoch` makes of a
cached value before comparing). `R.Consistent`: the same idempotent function at both places (the code:
`float("{:.4e}".format(x))`, 5 significant digits). The spec (`Rec`, `ExactLB`) is stated on the history
AS RECORDED, `fileVals R raw` — what every controller started later sees; the update is the one planned
by a controller that was started when `k0` epochs were recorded, whatever `k0` (it knows the earlier
epochs as recorded and its own as raw floats: `memVals R raw k0`). -/

/-- **Whenever it was started, a controller with a consistent rounding compares the recorded column**
— raw metrics of any magnitude, on or off the grid of the recorded digits. -/
theorem C16_rounding_consistent {R : Rounding} (hc : R.Consistent) (raw : List (Option Int)) (k0 : Nat) :
    memVals R raw k0 = fileVals R raw ∧ recVals R raw = fileVals R raw :=
  ⟨memVals_eq_fileVals hc raw k0, recVals_eq_fileVals hc raw⟩

/-- `C16_rec_step` for any rounding applied consistently in memory and on file: every single mutating
call of the update planned by a controller started at `k0` keeps the disk recoverable, where "best
epoch" is the first minimum of the RECORDED values. -/
theorem C16_rec_step_rounded {P : Params} {R : Rounding} (hc : R.Consistent) (raw : List (Option Int))
    (k0 : Nat) (tr : Train) (d : Disk)
    (hrec : Rec P (fileVals R raw) tr d) (k : Nat) (hk : recorded d = some k) (hlt : k < raw.length)
    (hs : SafeAt P (fileVals R raw) k) (hsep : Sep P (fileVals R raw) k)
    (main : List FsOp) (cl : List Path)
    (hplan : planUpdate Quirks.fixed P (memVals R raw k0) k d (tr.step (k + 1) (U tr k)) = .ok (main, cl))
    (cl' : List Path) (hcl : ∀ p ∈ cl', p ∈ cl) (i : Nat) :
    Rec P (fileVals R raw) tr (exec d ((opsOf main cl').take i)) := by
  rw [memVals_eq_fileVals hc] at hplan
  exact c16_rec_step _ tr d hrec k hk (by rw [fileVals_length]; exact hlt) hs hsep main cl hplan cl' hcl i

/-- `C16_exact_nocrash` likewise: the uninterrupted keep-last-and-best run (its controller started on
nothing, so it compares raw values, rounded) holds after every completed update exactly the files of
the last and of the best RECORDED epoch. -/
theorem C16_exact_nocrash_rounded {P : Params} (hi : Inj P) (hkeep : P.keepLB = true) {R : Rounding}
    (hc : R.Consistent) (raw : List (Option Int)) (tr : Train) (j : Nat) (hj : j ≤ raw.length) :
    ∃ d, runLoop Quirks.fixed P (memVals R raw 0) tr j 0 (U tr 0) Disk.blank = (j, U tr j, d) ∧
      ExactLB P (fileVals R raw) d j ∧ RecAt P (fileVals R raw) tr d j := by
  rw [memVals_eq_fileVals hc]
  exact c16_exact_nocrash hi hkeep _ tr j (by rw [fileVals_length]; exact hj)

/-- `C16_resume` likewise, for the sessions of the real controller (`faultyR`: every session fixes
the list it compares when its controller is constructed): after any crash schedule all epochs are
recorded, last and best-as-recorded loadable with their states, and the history file is the
uninterrupted run's. -/
theorem C16_resume_rounded {P : Params} {R : Rounding} (hc : R.Consistent) (raw : List (Option Int))
    (hs : SafeFmt P (fileVals R raw)) (tr : Train) (d : Disk) (hrec : Rec P (fileVals R raw) tr d)
    (sched : List (Nat × Nat × Bool)) :
    RecAt P (fileVals R raw) tr (faultyR Quirks.fixed P R raw tr d sched) raw.length ∧
      (0 < raw.length → (faultyR Quirks.fixed P R raw tr Disk.blank sched).csv =
        (runToEndR Quirks.fixed P R raw tr Disk.blank).csv) := by
  rw [faultyR_eq hc, faultyR_eq hc, runToEndR_eq hc]
  refine ⟨?_, fun hn => ?_⟩
  · have := c16_resume (fileVals R raw) hs tr d hrec sched
    rwa [fileVals_length] at this
  · exact c16_resume_history (fileVals R raw) hs tr (by rw [fileVals_length]; exact hn) sched

/-- metrics as 6-digit integers (unit 1e-4 of a metric between 10 and 100): five significant digits -/
def sig5 (x : Int) : Int := (x + 5) / 10 * 10

example : sig5 123461 = 123460 ∧ sig5 123456 = 123460 ∧ sig5 (sig5 123456) = sig5 123456 := by decide

/-- `sig5` is idempotent, so used at both places it is a consistent rounding. -/
theorem sig5_idem (x : Int) : sig5 (sig5 x) = sig5 x := by
  unfold sig5; omega

def exRaw : List (Option Int) := [some 123461, some 123456, some 130000]

/-- the hypotheses of the three theorems hold on a history whose second epoch is lower than the first
only beyond the recorded digits: the recorded best is epoch 1 at every length -/
example : fileVals (Rounding.both sig5) exRaw = [some 123460, some 123460, some 130000] ∧
    bestOf ((fileVals (Rounding.both sig5) exRaw).take 2) = 1 ∧ bestOf (exRaw.take 2) = 2 := by decide

example := C16_rec_step_rounded (P := exP) (Rounding.both_consistent sig5_idem) exRaw 0 exTr Disk.blank
  (Rec_blank exP _ exTr).rec 0 rfl (by decide) (exP_inj.safeAt _ 0) (exP_inj.sep _ 0)
  (saveOps exP Disk.blank 1 (1, ⟨1, 0⟩) ++ histOps Quirks.fixed Disk.blank 1) [] rfl [] (fun _ h => h) 7

example : exactLBOk exP (fileVals (Rounding.both sig5) exRaw)
    (runLoop Quirks.fixed exP (memVals (Rounding.both sig5) exRaw 0) exTr 2 0 St.init Disk.blank).2.2 2 = true ∧
    recOk exP (fileVals (Rounding.both sig5) exRaw) exTr
      (faultyR Quirks.fixed exP (Rounding.both sig5) exRaw exTr Disk.blank [(1, 7, false), (0, 11, false)]) = true := by
  decide

/-! ## what is false of the code -/

/-- **Exactness after a crash is false** (known finding `C16.leak.tmp_or_superseded_after_crash`).
(1) killed after `torch.save` into the first temp file of epoch 1, restarted, run to the end: the
disk is recoverable, but a temp file stays. (2) killed after the history row of epoch 2 and before
the clean-up: the superseded checkpoint of epoch 1 stays for ever. -/
theorem C16_exact_after_crash_counterexample :
    (let d := faulty Quirks.fixed exP [some 500] exTr Disk.blank [(0, 3, false)]
     recOk exP [some 500] exTr d = true ∧ exactLBOk exP [some 500] d 1 = false ∧
       d.files.get (.tmp 0) = some (.model 1)) ∧
    (let d := faulty Quirks.fixed exP exVals exTr Disk.blank [(1, 10, false)]
     recOk exP exVals exTr d = true ∧ exactLBOk exP exVals d 3 = false ∧
       d.files.get (.model 1) = some (.model 1) ∧ bestOf exVals = 2) := by
  decide

/-- **Formats without the epoch field** (known finding `C16.format_without_epoch.window`).
(a) keep-last-and-best: as soon as the new epoch is not the best the update refuses (on any disk);
(b) when it is the best, the history row goes first: killed after 2 mutating calls the history
names epoch 2 while the checkpoint is still that of epoch 1 — not recoverable;
(c) killed between the two renames: model of epoch 2 with optimizer of epoch 1;
(d) keep-everything has the same window. -/
theorem C16_collision_counterexample :
    (∀ d s, planUpdate Quirks.fixed (constP true) [some 400, some 500] 1 d s = .error .wouldOverwriteBest) ∧
    (let d := crashSession Quirks.fixed (constP true) [some 500, some 400] exTr Disk.blank 1 2
     recorded d = some 2 ∧ loadState (constP true) d 2 = some (U exTr 1) ∧
       recOk (constP true) [some 500, some 400] exTr d = false) ∧
    (let d := crashSession Quirks.fixed (constP true) [some 500, some 400] exTr Disk.blank 1 9
     recorded d = some 2 ∧ loadState (constP true) d 2 = some ((U exTr 2).1, (U exTr 1).2)) ∧
    (let d := crashSession Quirks.fixed (constP false) [some 500, some 400] exTr Disk.blank 1 2
     recOk (constP false) [some 500, some 400] exTr d = false) := by
  refine ⟨fun d s => rfl, ?_, ?_, ?_⟩ <;> decide

/-- **General form of the window.** In every state the colliding update can start from (any
recoverable disk with `k ≥ 1` recorded epochs, any metric history, either keep mode) it either refuses
or — killed after its second mutating call — leaves a history that names an epoch whose checkpoint
paths still hold the previous epoch's state. -/
theorem C16_collision_window (keep : Bool) (vals : List (Option Int)) (tr : Train) (d : Disk) (k : Nat)
    (hk1 : 1 ≤ k) (hrec : RecAt (constP keep) vals tr d k)
    (hU : U tr (k + 1) ≠ U tr k) :
    (∃ e, planUpdate Quirks.fixed (constP keep) vals k d (U tr (k + 1)) = .error e) ∨
    (∃ main cl, planUpdate Quirks.fixed (constP keep) vals k d (U tr (k + 1)) = .ok (main, cl) ∧
      ¬ Rec (constP keep) vals tr (exec d ((opsOf main cl).take 2))) :=
  c16_collision_window keep vals tr d k hk1 hrec hU

/-- its hypotheses are satisfiable: the disk after epoch 1 of a constant-format run -/
example : recOk (constP false) [some 500, some 400] exTr
    (runLoop Quirks.fixed (constP false) [some 500, some 400] exTr 1 0 St.init Disk.blank).2.2 = true ∧
    U exTr 2 ≠ U exTr 1 := by decide

/-- A metric as a file key: injective. -/
def exG : Option Int → Nat
  | none => 0
  | some (.ofNat n) => 2 * n + 1
  | some (.negSucc n) => 2 * n + 2

theorem exG_inj : ∀ a b, exG a = exG b → a = b := by
  intro a b h
  cases a with
  | none => cases b with
    | none => rfl
    | some y => cases y <;> simp [exG] at h <;> omega
  | some x => cases b with
    | none => cases x <;> simp [exG] at h <;> omega
    | some y =>
      cases x <;> cases y <;> simp only [exG] at h
      · congr 2; omega
      · omega
      · omega
      · congr 2; omega

/-- **Names formatted from the metric** (same known finding: a format without `{epoch}`).
(a) metrics 500, 600, 600, keep-last-and-best: epoch 3 repeats epoch 2's metric and is not the
best, so its row goes first; killed after 2 calls the history names epoch 3, the file under its
name holds epoch 2's state; `C16_metric_format_iff` says so (`SafeFmt` fails);
(b) metrics 500, 600, 500: epoch 3 ties with the best epoch 1 and would overwrite it: refused;
(c) metrics 500, 400, 450, 300: all different — `SafeFmt` holds, every theorem above applies, e.g.
a crash schedule ends with the uninterrupted history. -/
theorem C16_metric_format_counterexample :
    (let vals := [some 500, some 600, some 600]
     let P := metricP true exG vals
     let d := crashSession Quirks.fixed P vals exTr Disk.blank 2 2
     recorded d = some 3 ∧ loadState P d 3 = some (U exTr 2) ∧ recOk P vals exTr d = false ∧
       ¬ SafeFmt P vals) ∧
    (let vals := [some 500, some 600, some 500]
     ∀ d s, planUpdate Quirks.fixed (metricP true exG vals) vals 2 d s = .error .wouldOverwriteBest) ∧
    (let vals := [some 500, some 400, some 450, some 300]
     let P := metricP true exG vals
     SafeFmt P vals ∧
       (faulty Quirks.fixed P vals exTr Disk.blank [(1, 7, false), (0, 12, false), (1, 9, true)]).csv =
         some [.header, .row 1, .row 2, .row 3, .row 4]) := by
  refine ⟨⟨by decide, by decide, by decide, ?_⟩, fun d s => rfl, ?_, by decide⟩
  · intro h
    have := (h 2 (by decide)).2
    revert this
    decide
  · rw [metricP_safeFmt_iff exG exG_inj]
    intro k hk
    have hk' : k < 4 := hk
    have : k = 0 ∨ k = 1 ∨ k = 2 ∨ k = 3 := by omega
    rcases this with rfl | rfl | rfl | rfl <;> decide

/-- `best_is_train=True` keeps the best epoch BY THE TRAINING METRIC: the best by validation metric
(what `load_model_for_epoch(model)` loads by default) is deleted like any other superseded epoch —
callers have to pass the same flag when loading. -/
theorem C16_best_is_train_counterexample :
    (let d := faulty Quirks.fixed exP (deciding true exMs) exTr Disk.blank []
     bestOf (deciding false exMs) = 1 ∧ loadState exP d 1 = none ∧
       loadState exP d (bestOf (deciding true exMs)) = some (U exTr 2)) := by
  decide

/-- **The consistency of the two roundings is needed** (seed C16-d1: `get_best_epoch` rounding to five
DECIMAL PLACES, the file recording five SIGNIFICANT DIGITS). (1) memory finer than the file — metrics
≥ 10: 12.3461 then 12.3456, both recorded as 1.2346e+01. The running controller sees a new best at
epoch 2 and deletes epoch 1; every controller started later reads a tie, calls epoch 1 the best and
cannot load it: the disk after the COMPLETED, crash-free update is not recoverable and the directory
is not the one of the last and best recorded epochs. (2) memory coarser than the file — metrics below
1e-5: 3e-6, 2e-6, 5e-6 are all recorded, all 0 to five decimals: the running controller keeps epoch 1
as best and deletes epoch 2, the lowest recorded one. With one rounding at both places both runs are
fine. -/
theorem C16_rounding_mismatch_counterexample :
    (¬ (⟨sig5, id⟩ : Rounding).Consistent ∧
      (let R : Rounding := ⟨sig5, id⟩
       let d := (runLoop Quirks.fixed exP (memVals R exRaw 0) exTr 2 0 St.init Disk.blank).2.2
       recorded d = some 2 ∧ bestOf ((memVals R exRaw 0).take 2) = 2 ∧ bestOf ((fileVals R exRaw).take 2) = 1 ∧
         bestOf ((recVals R exRaw).take 2) = 1 ∧ loadState exP d 1 = none ∧
         recOk exP (fileVals R exRaw) exTr d = false ∧ exactLBOk exP (fileVals R exRaw) d 2 = false)) ∧
    (¬ (⟨id, fun x => x / 10 * 10⟩ : Rounding).Consistent ∧
      (let R : Rounding := ⟨id, fun x => x / 10 * 10⟩
       let raw : List (Option Int) := [some 3, some 2, some 5]
       let d := (runLoop Quirks.fixed exP (memVals R raw 0) exTr 3 0 St.init Disk.blank).2.2
       recorded d = some 3 ∧ bestOf (memVals R raw 0) = 1 ∧ bestOf (fileVals R raw) = 2 ∧
         loadState exP d 2 = none ∧ recOk exP (fileVals R raw) exTr d = false)) ∧
    (let R := Rounding.both sig5
     let d := (runLoop Quirks.fixed exP (memVals R exRaw 0) exTr 2 0 St.init Disk.blank).2.2
     recOk exP (fileVals R exRaw) exTr d = true ∧ exactLBOk exP (fileVals R exRaw) d 2 = true) := by
  refine ⟨⟨fun h => absurd (h.same 123461) (by decide), by decide⟩,
    ⟨fun h => absurd (h.same 3) (by decide), by decide⟩, by decide⟩

/-! ## the two defects of the pinned tree that `fixes/C16-*.diff` repair -/

/-- Pinned `write_header = not exists(csv)`: killed between `open(csv, "a")` and the write of the
header line of the first update (9 mutating calls), restarted: the header is never written and the
next controller cannot be constructed. The repaired variant recovers. -/
theorem C16_pinned_header_counterexample :
    (let d := faulty Quirks.pinned exP [some 500, some 400] exTr Disk.blank [(0, 9, false)]
     d.csv = some [.row 1, .row 2] ∧ recorded d = none) ∧
    (let d := faulty Quirks.fixed exP [some 500, some 400] exTr Disk.blank [(0, 9, false)]
     d.csv = some [.header, .row 1, .row 2] ∧ recOk exP [some 500, some 400] exTr d = true) := by
  decide

/-- Pinned keep-everything branch (`save_info_first = exists(...)`): killed between the two renames
of epoch 2, restarted, killed after the history row that is now written first: the history names
epoch 2, its optimizer file does not exist. The repaired variant recovers. -/
theorem C16_pinned_keepall_counterexample :
    (let P : Params := ⟨false, fun e => e, fun e => e⟩
     let d := crashSession Quirks.pinned P exVals exTr (crashSession Quirks.pinned P exVals exTr Disk.blank 1 7) 0 2
     recorded d = some 2 ∧ loadState P d 2 = none ∧ recOk P exVals exTr d = false) ∧
    (let P : Params := ⟨false, fun e => e, fun e => e⟩
     let d := crashSession Quirks.fixed P exVals exTr (crashSession Quirks.fixed P exVals exTr Disk.blank 1 7) 0 2
     recorded d = some 1 ∧ recOk P exVals exTr d = true) := by
  decide

/-! ## audit: every theorem with several hypotheses applied once with ALL of them, on instances where
something happens (garbage of an earlier crash on the disk, a clean-up that removes files in the reverse
order, a best epoch that changes, colliding names) -/

/-- `recOk` (what the driver and the `decide` examples evaluate) implies `Rec`. -/
theorem recOk_sound {P : Params} {vals : List (Option Int)} {tr : Train} {d : Disk}
    (h : recOk P vals tr d = true) : Rec P vals tr d := by
  unfold recOk at h
  cases hr : recorded d with
  | none => simp [hr] at h
  | some k =>
    simp only [hr, Bool.and_eq_true, decide_eq_true_eq] at h
    exact ⟨k, hr, h.1.1.1, h.1.1.2, h.1.2, h.2⟩

theorem recAt_of_recOk {P : Params} {vals : List (Option Int)} {tr : Train} {d : Disk} {k : Nat}
    (h : recOk P vals tr d = true) (hk : recorded d = some k) : RecAt P vals tr d k := by
  obtain ⟨k', hk', rest⟩ := recOk_sound h
  rw [hk] at hk'; cases hk'
  exact ⟨hk, rest⟩

/-- the disk after epoch 1 of the example run, plus leftovers of an earlier crash -/
def exD1 : Disk := crashSession Quirks.fixed exP exVals exTr (crashSession Quirks.fixed exP exVals exTr Disk.blank 0 3) 1 0

example : exD1.files.get (.tmp 0) = some (.model 1) ∧ recorded exD1 = some 1 := by decide

theorem exD1_rec : Rec exP exVals exTr exD1 := recOk_sound (by decide)

/-- `C16_rec_step` where things happen: the update of epoch 2 (the new best) on `exD1`; the clean-up set is
`{model 1, optim 1}`, taken in the REVERSE order, killed after the first removal (call 12 of 13). -/
example : Rec exP exVals exTr (exec exD1 ((opsOf
    (saveOps exP exD1 2 (U exTr 2) ++ histOps Quirks.fixed exD1 2) [.optim 1, .model 1]).take 12)) :=
  C16_rec_step exVals exTr exD1 exD1_rec 1 (by decide) (by decide)
    (exP_inj.safeAt exVals 1) (exP_inj.sep exVals 1)
    (saveOps exP exD1 2 (U exTr 2) ++ histOps Quirks.fixed exD1 2) [.model 1, .optim 1] rfl
    [.optim 1, .model 1] (by decide) 12

example : (exec exD1 ((opsOf (saveOps exP exD1 2 (U exTr 2) ++ histOps Quirks.fixed exD1 2)
    [.optim 1, .model 1]).take 12)).files.get (.optim 1) = none := by decide

/-- `C16_rec_step_torn` with all hypotheses: the second `torch.save` (call 5) of that update stops half-way -/
example : Rec exP exVals exTr (tornDisk tear exD1 (opsOf
    (saveOps exP exD1 2 (U exTr 2) ++ histOps Quirks.fixed exD1 2) [.model 1, .optim 1]) 5) :=
  C16_rec_step_torn exVals exTr exD1 exD1_rec 1 (by decide) (by decide)
    (exP_inj.safeAt exVals 1) (exP_inj.sep exVals 1)
    (saveOps exP exD1 2 (U exTr 2) ++ histOps Quirks.fixed exD1 2) [.model 1, .optim 1] rfl
    [.model 1, .optim 1] (by decide) 5 (by intro e h; simp [opsOf, saveOps] at h)

/-- `C16_rec_full` on `exD1` -/
example : RecAt exP exVals exTr (exec exD1 (opsOf
    (saveOps exP exD1 2 (U exTr 2) ++ histOps Quirks.fixed exD1 2) [.optim 1, .model 1])) 2 :=
  C16_rec_full exVals exTr exD1 1 (recAt_of_recOk (by decide) (by decide)) (by decide)
    (exP_inj.safeAt exVals 1) (exP_inj.sep exVals 1) _ [.model 1, .optim 1] rfl [.optim 1, .model 1] (by decide)

/-- constant file names, keep everything, the disk after epoch 1 -/
def exDc : Disk := (runLoop Quirks.fixed (constP false) [some 500, some 400] exTr 1 0 St.init Disk.blank).2.2
theorem exDc_recAt : RecAt (constP false) [some 500, some 400] exTr exDc 1 :=
  recAt_of_recOk (by decide) (by decide)

/-- `C16_infofirst_window`, hypotheses together -/
example := C16_infofirst_window (P := constP false) (vals := [some 500, some 400]) (tr := exTr) exDc_recAt
  (by decide) (U exTr 2) []

/-- `C16_rec_step_iff`, both sides: colliding names (row first: not safe) … -/
example : ¬ (∀ cl', (∀ p ∈ cl', p ∈ cleanSet (constP false) [some 500, some 400] 1 exDc) → ∀ i,
    Rec (constP false) [some 500, some 400] exTr
      (exec exDc ((opsOf (mainOps Quirks.fixed (constP false) [some 500, some 400] 1 exDc (U exTr 2)) cl').take i))) := by
  rw [C16_rec_step_iff exDc_recAt (by decide) (by decide) (by intro h; cases h) (by decide)]
  decide

/-- … and names with the epoch (checkpoint first: safe at every call) -/
example : ∀ cl', (∀ p ∈ cl', p ∈ cleanSet exP exVals 1 exD1) → ∀ i,
    Rec exP exVals exTr (exec exD1 ((opsOf (mainOps Quirks.fixed exP exVals 1 exD1 (U exTr 2)) cl').take i)) :=
  (C16_rec_step_iff (recAt_of_recOk (by decide) (by decide)) (by decide) (by decide) (exP_inj.sep exVals 1)
    (by decide)).2 (by decide)

/-- `C16_resume` / `C16_resume_state` from a disk with garbage, two killed sessions (one torn) -/
example : RecAt exP exVals exTr (faulty Quirks.fixed exP exVals exTr exD1 [(0, 7, false), (1, 2, true)]) 3 :=
  C16_resume exVals (exP_inj.safeFmt exVals) exTr exD1 exD1_rec _

example := C16_resume_state exVals (exP_inj.safeFmt exVals) exTr exD1 exD1_rec [(0, 7, false), (1, 2, true)]

/-- `C16_lr_order_necessary` applied: epoch 2 of `exTr` is the reduction (0 → 1) -/
example := C16_lr_order_necessary (P := exP) (vals := exVals) (tr := exTr) (d := exD1) (k := 1) (l := 1)
  (recAt_of_recOk (by decide) (by decide)) (by decide) (exP_inj.safeAt exVals 1) (exP_inj.sep exVals 1) rfl (by decide)

/-- `C16_keepall_step`: keep everything, the disk after epoch 1, killed between the renames of epoch 2 -/
def exDa : Disk := (runLoop Quirks.fixed exPall exVals exTr 1 0 St.init Disk.blank).2.2
example := C16_keepall_step (P := exPall) ⟨fun _ _ h => h, fun _ _ h => h⟩ rfl exVals exTr exDa 1
  ⟨recAt_of_recOk (by decide) (by decide), by intro j h1 h2; have : j = 1 := by omega
                                              subst this; decide⟩
  (by decide) _ _ rfl 7

/-! ## crash safety does not depend on the order of the eight calls of the save

`save_model_and_optimizer_with_info` is two pipelines — `makedirs`, create a temp file next to the destination,
write the state dict into it, `os.replace` it onto the checkpoint path — `pipeM` for the model, `pipeO` for the
optimizer. The pinned code runs them as `saveOps` (both temp files complete, then the two renames).
`Shuffle (pipeM …) (pipeO …) sv`: `sv` is ANY interleaving of the two (each pipeline in its own order): the
model's checkpoint in place before the optimizer's temp file exists, both temp files created first, the
optimizer first, … `saveOrders` enumerates them, `updateOrders` adds the history lines and the clean-up (any
order), `crashMatch` is the matcher the correspondence driver runs on what an implementation was seen to do. -/

/-- `saveOrders` is exactly the set of interleavings, and the pinned order is one of them. -/
theorem C16_save_orders (P : Params) (d : Disk) (e : Nat) (s : St) (sv : List FsOp) :
    (sv ∈ saveOrders P d e s ↔ Shuffle (pipeM P d e s) (pipeO P d e s) sv) ∧
      saveOps P d e s ∈ saveOrders P d e s :=
  ⟨mem_shuffles_iff _ _ _, saveOps_mem_saveOrders P d e s⟩

/-- **The order does not matter for what is on disk afterwards**: from ANY disk, every interleaving of the two
pipelines leaves the same file under every path and the same history as the pinned order. -/
theorem C16_save_any_order_same_disk {P : Params} {d0 : Disk} {e : Nat} {s : St} {sv : List FsOp}
    (hsh : Shuffle (pipeM P d0 e s) (pipeO P d0 e s) sv) (d : Disk) :
    (∀ q, (exec d sv).files.get q = (exec d (saveOps P d0 e s)).files.get q) ∧
      (exec d sv).csv = (exec d (saveOps P d0 e s)).csv :=
  save_any_eqv hsh d

/-- **`C16_rec_step` for every order of the save**: from any recoverable disk, after ANY prefix of the calls of
a checkpoint-first update — the eight calls of the save in any interleaving of the two pipelines, then
`open(csv)`, header line, data row, then any part of the clean-up in any order — a new controller reads a
prefix of the uninterrupted history and loads exactly the states saved for the last and the best epoch. -/
theorem C16_rec_step_any_order {P : Params} (vals : List (Option Int)) (tr : Train) (d : Disk)
    (hrec : Rec P vals tr d) (k : Nat) (hk : recorded d = some k) (hlt : k < vals.length)
    (hs : SafeAt P vals k) (hsep : Sep P vals k) (sv : List FsOp)
    (hsh : Shuffle (pipeM P d (k + 1) (U tr (k + 1))) (pipeO P d (k + 1) (U tr (k + 1))) sv)
    (cl' : List Path) (hcl : ∀ p ∈ cl', p ∈ cleanSet P vals k d) (i : Nat) :
    Rec P vals tr (exec d ((opsOf (sv ++ histOps Quirks.fixed d (k + 1)) cl').take i)) :=
  c16_rec_step_any_order vals tr d hrec k hk hlt hs hsep sv hsh cl' hcl i

/-- … also when call `i` is executed half-way and is not the write of a history data row (`hat`). -/
theorem C16_rec_step_torn_any_order {P : Params} (vals : List (Option Int)) (tr : Train) (d : Disk)
    (hrec : Rec P vals tr d) (k : Nat) (hk : recorded d = some k) (hlt : k < vals.length)
    (hs : SafeAt P vals k) (hsep : Sep P vals k) (sv : List FsOp)
    (hsh : Shuffle (pipeM P d (k + 1) (U tr (k + 1))) (pipeO P d (k + 1) (U tr (k + 1))) sv)
    (cl' : List Path) (hcl : ∀ p ∈ cl', p ∈ cleanSet P vals k d) (i : Nat)
    (hat : ∀ e, (opsOf (sv ++ histOps Quirks.fixed d (k + 1)) cl')[i]? ≠ some (.hwrite (.row e))) :
    Rec P vals tr (tornDisk tear d (opsOf (sv ++ histOps Quirks.fixed d (k + 1)) cl') i) :=
  c16_rec_step_torn_any_order vals tr d hrec k hk hlt hs hsep sv hsh cl' hcl i hat

/-- The complete update in any order: `k+1` epochs recorded, recoverable, and the disk is the pinned order's
(same file under every path, same history). -/
theorem C16_rec_full_any_order {P : Params} (vals : List (Option Int)) (tr : Train) (d : Disk)
    (k : Nat) (hrec : RecAt P vals tr d k) (hlt : k < vals.length)
    (hs : SafeAt P vals k) (hsep : Sep P vals k) (sv : List FsOp)
    (hsh : Shuffle (pipeM P d (k + 1) (U tr (k + 1))) (pipeO P d (k + 1) (U tr (k + 1))) sv)
    (cl' : List Path) (hcl : ∀ p ∈ cl', p ∈ cleanSet P vals k d) :
    RecAt P vals tr (exec d (opsOf (sv ++ histOps Quirks.fixed d (k + 1)) cl')) (k + 1) ∧
    (exec d (opsOf (sv ++ histOps Quirks.fixed d (k + 1)) cl')).Eqv
      (exec d (opsOf (saveOps P d (k + 1) (U tr (k + 1)) ++ histOps Quirks.fixed d (k + 1)) cl')) :=
  c16_rec_full_any_order vals tr d k hrec hlt hs hsep sv hsh cl' hcl

/-- Keep-last-and-best, formats with `{epoch}`: a complete update in any order of the save, the whole clean-up
in any order, keeps "exactly the files of the last and the best epoch". -/
theorem C16_exact_step_any_order {P : Params} (hi : Inj P) (hkeep : P.keepLB = true) (vals : List (Option Int))
    (tr : Train) (d : Disk) (k : Nat) (hex : ExactLB P vals d k) (hk : k < vals.length) (sv : List FsOp)
    (hsh : Shuffle (pipeM P d (k + 1) (U tr (k + 1))) (pipeO P d (k + 1) (U tr (k + 1))) sv)
    (cl' : List Path) (hcl : ∀ p, p ∈ cl' ↔ p ∈ cleanSet P vals k d) :
    ExactLB P vals (exec d (opsOf (sv ++ histOps Quirks.fixed d (k + 1)) cl')) (k + 1) :=
  c16_exact_step_any_order hi hkeep vals tr d k hex hk sv hsh cl' hcl

/-- Keep-everything, formats with `{epoch}`: every single call of an update in any order of the save keeps every
recorded epoch loadable with its own state. -/
theorem C16_keepall_step_any_order {P : Params} (hi : Inj P) (hkeep : P.keepLB = false)
    (vals : List (Option Int)) (tr : Train) (d : Disk) (k : Nat) (h : RecAll P vals tr d k)
    (hlt : k < vals.length) (sv : List FsOp)
    (hsh : Shuffle (pipeM P d (k + 1) (U tr (k + 1))) (pipeO P d (k + 1) (U tr (k + 1))) sv) (i : Nat) :
    ∃ k', RecAll P vals tr (exec d ((opsOf (sv ++ histOps Quirks.fixed d (k + 1)) []).take i)) k' :=
  c16_keepall_step_any_order hi hkeep vals tr d k h hlt sv hsh i

/-- **What the correspondence harness relies on.** The file-system changes an implementation was seen to make
before it was killed inside an update (`obs`: no-op calls — `makedirs`, `open` of an existing history file —
dropped; `tornOp`: the half-written temp file it died in, if any, NOT a half-written history row; `unwind`:
temp files it removed again while the interrupt unwound) are accepted by `crashMatch` only if they are the
beginning of an order the model admits, and then the disk the driver reports (`crashDisk`) is recoverable. The
judgement is on what is on disk, never on which call made it. -/
theorem C16_crashMatch_rec {P : Params} (vals : List (Option Int)) (tr : Train) (d : Disk)
    (hrec : Rec P vals tr d) (k : Nat) (hk : recorded d = some k) (hlt : k < vals.length)
    (hs : SafeAt P vals k) (hsep : Sep P vals k) (rm : List Path) (obs : List FsOp) (tornOp : Option FsOp)
    (L : List FsOp)
    (hm : crashMatch (updateOrders Quirks.fixed P vals k d (U tr (k + 1)) rm) d obs tornOp = some L)
    (hat : tornOp ≠ some (.hwrite .torn)) (unwind : List FsOp) (hu : unwindOk unwind = true) :
    Rec P vals tr (exec (crashDisk d L obs tornOp) unwind) :=
  c16_crashMatch_rec vals tr d hrec k hk hlt hs hsep rm obs tornOp L hm hat unwind hu

/-- **The same for a COMPLETED update** (audit F: the `trace_ok` of a completed update is `fullMatch`, about which
nothing was proved). The effective file-system changes an implementation was seen to make in a completed
checkpoint-first update of a recoverable disk are accepted by `fullMatch` only if they leave `k+1` epochs recorded
and recoverable, and a disk no controller can tell from the one the driver computes and goes on with
(`exec d (opsOf main cl)`: the pinned order of the save, the clean-up in the planned order). -/
theorem C16_fullMatch_rec {P : Params} (vals : List (Option Int)) (tr : Train) (d : Disk) (k : Nat)
    (hrec : RecAt P vals tr d k) (hlt : k < vals.length) (hs : SafeAt P vals k) (hsep : Sep P vals k)
    (rm : List Path) (obs : List FsOp)
    (hm : fullMatch (updateOrders Quirks.fixed P vals k d (U tr (k + 1)) rm) d obs = true) :
    RecAt P vals tr (exec d obs) (k + 1) ∧
      (exec d obs).Eqv
        (exec d (opsOf (mainOps Quirks.fixed P vals k d (U tr (k + 1))) (cleanSet P vals k d))) :=
  c16_fullMatch_rec vals tr d k hrec hlt hs hsep rm obs hm

/-- A process lifetime that ends in a kill — new controller, load, any number of complete updates, any number
of calls of the next one (possibly inside a `torch.save`), EVERY update in any admitted order — leaves a
recoverable disk. -/
theorem C16_rec_killed_any_order {P : Params} (vals : List (Option Int)) (hs : SafeFmt P vals) (tr : Train)
    (d d' : Disk) (hrec : Rec P vals tr d) (hk : KilledAny Quirks.fixed P vals tr d d') :
    Rec P vals tr d' :=
  c16_rec_killed_any_order vals hs tr d d' hrec hk

/-- **Resume, any order.** From the blank disk: any number of such lifetimes, then one that completes all the
remaining updates, every update of every lifetime in any admitted order: all epochs recorded, last and best
loadable with the uninterrupted run's states, the process ends holding the uninterrupted final state, the
history file is the one of the uninterrupted run of the pinned order. -/
theorem C16_resume_any_order {P : Params} (vals : List (Option Int)) (hs : SafeFmt P vals) (tr : Train)
    (hn : 0 < vals.length) (d : Disk) (hch : CrashesAny Quirks.fixed P vals tr Disk.blank d)
    (k : Nat) (s s' : St) (d' : Disk) (hst : startSession P d = some (k, s))
    (hrun : RunsAny Quirks.fixed P vals tr k s d vals.length s' d') :
    RecAt P vals tr d' vals.length ∧ s' = U tr vals.length ∧
      d'.csv = (runToEnd Quirks.fixed P vals tr Disk.blank).csv :=
  c16_resume_any_order vals hs tr hn d hch k s s' d' hst hrun

/-! ### non-vacuity: orders other than the pinned one, on the disk with garbage `exD1`, all hypotheses -/

/-- the optimizer's pipeline completely before the model's (what the pinned code never does) -/
def exSvO : List FsOp := pipeO exP exD1 2 (U exTr 2) ++ pipeM exP exD1 2 (U exTr 2)
theorem exSvO_shuffle : Shuffle (pipeM exP exD1 2 (U exTr 2)) (pipeO exP exD1 2 (U exTr 2)) exSvO :=
  Shuffle.append_swap _ _

/-- both temp files created, then both written, then optimizer renamed before the model -/
def exSvX : List FsOp :=
  [.mkdirs, .mktemp 1, .mkdirs, .mktemp 2, .write 1 (.model 5), .write 2 (.optim ⟨7, 1⟩),
   .replace 2 (.optim 2), .replace 1 (.model 2)]
theorem exSvX_shuffle : Shuffle (pipeM exP exD1 2 (U exTr 2)) (pipeO exP exD1 2 (U exTr 2)) exSvX :=
  .left (.left (.right (.right (.left (.right (.right (.left .nil)))))))

example : exSvO ≠ saveOps exP exD1 2 (U exTr 2) ∧ exSvX ≠ saveOps exP exD1 2 (U exTr 2) := by decide

/-- killed between the two renames of `exSvX` (call 7): the optimizer of epoch 2 is in place, the model is not,
the history still records 1 epoch -/
example : Rec exP exVals exTr (exec exD1 ((opsOf (exSvX ++ histOps Quirks.fixed exD1 2) [.optim 1, .model 1]).take 7)) :=
  C16_rec_step_any_order exVals exTr exD1 exD1_rec 1 (by decide) (by decide)
    (exP_inj.safeAt exVals 1) (exP_inj.sep exVals 1) exSvX exSvX_shuffle [.optim 1, .model 1] (by decide) 7

example : (exec exD1 ((opsOf (exSvX ++ histOps Quirks.fixed exD1 2) [.optim 1, .model 1]).take 7)).files.get (.optim 2)
    = some (.optim ⟨7, 1⟩) ∧
  (exec exD1 ((opsOf (exSvX ++ histOps Quirks.fixed exD1 2) [.optim 1, .model 1]).take 7)).files.get (.model 2)
    = none := by decide

/-- the optimizer-first order, the model's `torch.save` (call 6 of it) torn -/
example : Rec exP exVals exTr (tornDisk tear exD1 (opsOf (exSvO ++ histOps Quirks.fixed exD1 2) [.model 1, .optim 1]) 6) :=
  C16_rec_step_torn_any_order exVals exTr exD1 exD1_rec 1 (by decide) (by decide)
    (exP_inj.safeAt exVals 1) (exP_inj.sep exVals 1) exSvO exSvO_shuffle [.model 1, .optim 1] (by decide) 6
    (by intro e h; simp [opsOf, exSvO, pipeO, pipeM] at h)

example := C16_rec_full_any_order exVals exTr exD1 1 (recAt_of_recOk (by decide) (by decide)) (by decide)
  (exP_inj.safeAt exVals 1) (exP_inj.sep exVals 1) exSvO exSvO_shuffle [.optim 1, .model 1] (by decide)

/-- the matcher on an observation as the harness makes it: no-op calls dropped, the model's temp file created
and written, the optimizer's created and half-written, both removed again while the interrupt unwinds -/
theorem exMatch_isSome : (crashMatch (updateOrders Quirks.fixed exP exVals 1 exD1 (U exTr 2) []) exD1
    [.mktemp 1, .write 1 (.model 5), .mktemp 2] (some (.write 2 .torn))).isSome = true := by
  simp [crashMatch, updateOrders, planUpdate, mainOrders, saveOrders, shuffles, pipeM, pipeO, effective, FsOp.noop,
    opsOf, histOps, histLines, reorder]
  decide

/-- `C16_crashMatch_rec` with all its hypotheses on that observation: whatever order the matcher settles on, the
disk the driver reports — the half-written temp file included, both temp files removed again while the
interrupt unwinds — is recoverable -/
example (L : List FsOp)
    (hm : crashMatch (updateOrders Quirks.fixed exP exVals 1 exD1 (U exTr 2) []) exD1
      [.mktemp 1, .write 1 (.model 5), .mktemp 2] (some (.write 2 .torn)) = some L) :
    Rec exP exVals exTr (exec (crashDisk exD1 L [.mktemp 1, .write 1 (.model 5), .mktemp 2] (some (.write 2 .torn)))
      [.remove (.tmp 2), .remove (.tmp 1)]) :=
  C16_crashMatch_rec exVals exTr exD1 exD1_rec 1 (by decide) (by decide) (exP_inj.safeAt exVals 1)
    (exP_inj.sep exVals 1) [] _ _ L hm (by decide) _ (by decide)

/-- a lifetime on `exD1` (leftover temp file, 1 epoch recorded) killed after 7 calls of the update of epoch 2 made
in the order `exSvX`, and the run resumed from the blank disk through two such lifetimes -/
theorem exKilled : KilledAny Quirks.fixed exP exVals exTr exD1
    (exec exD1 ((opsOf (exSvX ++ histOps Quirks.fixed exD1 2) (reorder (cleanSet exP exVals 1 exD1) [.optim 1])).take 7)) :=
  KilledAny.mk (k := 1) (s := U exTr 1) (k' := 1) (s' := U exTr 1) (d1 := exD1) [.optim 1] _ 7 false
    (by decide) (RunsAny.refl _ _ _) (by decide)
    (mem_updateOrders_of_shuffle (exP_inj.safeAt exVals 1) exD1 (U exTr 2) [.optim 1] exSvX_shuffle)

example := C16_rec_killed_any_order exVals (exP_inj.safeFmt exVals) exTr exD1 _ exD1_rec exKilled

/-- the update of epoch `k+1` on disk `d` with the optimizer's pipeline completely before the model's -/
def oFirst (d : Disk) (k : Nat) : List FsOp :=
  opsOf ((pipeO exP d (k + 1) (U exTr (k + 1)) ++ pipeM exP d (k + 1) (U exTr (k + 1))) ++
    histOps Quirks.fixed d (k + 1)) (reorder (cleanSet exP exVals k d) [])
theorem oFirst_mem (d : Disk) (k : Nat) :
    oFirst d k ∈ updateOrders Quirks.fixed exP exVals k d (U exTr (k + 1)) [] :=
  mem_updateOrders_of_shuffle (exP_inj.safeAt exVals k) d _ [] (Shuffle.append_swap _ _)

/-- from the blank disk: a first lifetime killed after 6 calls of the first update (optimizer first: its checkpoint
is in place, the model's temp file is created and still empty), then a lifetime that makes all three updates, optimizer
first every time -/
def exK1 : Disk := exec Disk.blank ((oFirst Disk.blank 0).take 6)
theorem exK1_killed : KilledAny Quirks.fixed exP exVals exTr Disk.blank exK1 :=
  KilledAny.mk (k := 0) (s := St.init) (k' := 0) (s' := St.init) (d1 := Disk.blank) [] _ 6 false
    (by decide) (RunsAny.refl _ _ _) (by decide) (oFirst_mem Disk.blank 0)
def exR1 : Disk := exec exK1 (oFirst exK1 0)
def exR2 : Disk := exec exR1 (oFirst exR1 1)
def exR3 : Disk := exec exR2 (oFirst exR2 2)
theorem exRuns : RunsAny Quirks.fixed exP exVals exTr 0 St.init exK1 3 (U exTr 3) exR3 :=
  .step [] (oFirst exK1 0) (by decide) (oFirst_mem exK1 0)
    (.step [] (oFirst exR1 1) (by decide) (oFirst_mem exR1 1)
      (.step [] (oFirst exR2 2) (by decide) (oFirst_mem exR2 2) (.refl _ _ _)))

example := C16_resume_any_order exVals (exP_inj.safeFmt exVals) exTr (by decide) exK1
  (.cons exK1_killed (.nil _)) 0 St.init (U exTr 3) exR3 (by decide) exRuns

example : exK1.files.get (.optim 1) = some (.optim ⟨1, 0⟩) ∧ exK1.files.get (.model 1) = none ∧
    exK1.files.get (.tmp 0) = some .empty ∧ exK1.csv = none ∧
    exR3.csv = some [.header, .row 1, .row 2, .row 3] ∧ recOk exP exVals exTr exR3 = true := by decide

/-! ## audit F: the theorems of improvement rounds 3 and 4 applied with ALL their hypotheses together

Before: `C16_crashMatch_rec` was only applied under the ASSUMPTION that the matcher accepts (`hm` a hypothesis of
the example, next to a separate `isSome` evaluation); `C16_exact_step`, `C16_exact_step_any_order`,
`C16_keepall_step_any_order`, `C16_save_orders`, `C16_save_any_order_same_disk`, `C16_rounding_consistent`,
`C16_exact_nocrash_rounded`, `C16_resume_rounded` had `decide`-evaluations of the model next to them but no
application of the theorem. -/

/-- the matcher accepts AND the theorem applies: the observation above (a half-written optimizer temp file,
both temp files removed while the interrupt unwinds) -/
example : ∃ L, crashMatch (updateOrders Quirks.fixed exP exVals 1 exD1 (U exTr 2) []) exD1
      [.mktemp 1, .write 1 (.model 5), .mktemp 2] (some (.write 2 .torn)) = some L ∧
    Rec exP exVals exTr (exec (crashDisk exD1 L [.mktemp 1, .write 1 (.model 5), .mktemp 2] (some (.write 2 .torn)))
      [.remove (.tmp 2), .remove (.tmp 1)]) := by
  obtain ⟨L, hL⟩ := Option.isSome_iff_exists.1 exMatch_isSome
  exact ⟨L, hL, C16_crashMatch_rec exVals exTr exD1 exD1_rec 1 (by decide) (by decide) (exP_inj.safeAt exVals 1)
    (exP_inj.sep exVals 1) [] _ _ L hL (by decide) _ (by decide)⟩

/-- a kill with no torn call, inside the clean-up: the save seen in the order `exSvX` (no-op calls dropped), the
history row, the removals in the reverse of the planned order -/
def exObsC : List FsOp :=
  [.mktemp 1, .mktemp 2, .write 1 (.model 5), .write 2 (.optim ⟨7, 1⟩), .replace 2 (.optim 2), .replace 1 (.model 2),
   .hwrite (.row 2), .remove (.optim 1)]

theorem exMatchC_isSome : (crashMatch (updateOrders Quirks.fixed exP exVals 1 exD1 (U exTr 2) [.optim 1]) exD1
    exObsC none).isSome = true := by
  simp [crashMatch, updateOrders, planUpdate, mainOrders, saveOrders, shuffles, pipeM, pipeO, effective, FsOp.noop,
    opsOf, histOps, histLines, reorder, exObsC]
  decide

example : ∃ L, crashMatch (updateOrders Quirks.fixed exP exVals 1 exD1 (U exTr 2) [.optim 1]) exD1 exObsC none = some L ∧
    Rec exP exVals exTr (exec (crashDisk exD1 L exObsC none) []) ∧
    crashDisk exD1 L exObsC none = exec exD1 exObsC ∧ recorded (exec exD1 exObsC) = some 2 ∧
    (exec exD1 exObsC).files.get (.optim 1) = none ∧
    (exec exD1 exObsC).files.get (.model 1) = some (.model 1) := by
  obtain ⟨L, hL⟩ := Option.isSome_iff_exists.1 exMatchC_isSome
  exact ⟨L, hL, C16_crashMatch_rec exVals exTr exD1 exD1_rec 1 (by decide) (by decide) (exP_inj.safeAt exVals 1)
    (exP_inj.sep exVals 1) _ _ _ L hL (by decide) _ (by decide), rfl, by decide, by decide, by decide⟩

/-- `C16_fullMatch_rec`: the completed update seen the same way (both removals, reverse order) -/
def exObsF : List FsOp := exObsC ++ [.remove (.model 1)]

example : RecAt exP exVals exTr (exec exD1 exObsF) 2 :=
  (C16_fullMatch_rec exVals exTr exD1 1 (recAt_of_recOk (by decide) (by decide)) (by decide)
    (exP_inj.safeAt exVals 1) (exP_inj.sep exVals 1) [.optim 1, .model 1] exObsF (by
      simp [fullMatch, updateOrders, planUpdate, mainOrders, saveOrders, shuffles, pipeM, pipeO, effective, FsOp.noop,
        opsOf, histOps, histLines, reorder, exObsF, exObsC]
      decide)).1

/-- `C16_save_orders` / `C16_save_any_order_same_disk` on an order that is not the pinned one, on the disk with
garbage: `exSvX` is enumerated, and leaves what the pinned order leaves -/
example : exSvX ∈ saveOrders exP exD1 2 (U exTr 2) := (C16_save_orders exP exD1 2 (U exTr 2) exSvX).1.2 exSvX_shuffle
example := C16_save_any_order_same_disk exSvX_shuffle exD1
example : (exec exD1 exSvX).files.get (.model 2) = some (.model 5) ∧
    (exec exD1 exSvX).files.get (.optim 2) = some (.optim ⟨7, 1⟩) ∧ (exec exD1 exSvX).files.get (.tmp 1) = none := by
  decide

/-- the disk after epoch 1 of the crash-free keep-last-and-best run: exactly the files of epoch 1 -/
def exDe : Disk := (runLoop Quirks.fixed exP exVals exTr 1 0 St.init Disk.blank).2.2

theorem exDe_exact : ExactLB exP exVals exDe 1 := by
  obtain ⟨d, h, hex, _⟩ := C16_exact_nocrash exP_inj rfl exVals exTr 1 (by decide)
  have h' : runLoop Quirks.fixed exP exVals exTr 1 0 St.init Disk.blank = (1, U exTr 1, d) := h
  have : exDe = d := by unfold exDe; rw [h']
  rw [this]; exact hex

theorem exDe_clean : cleanSet exP exVals 1 exDe = [.model 1, .optim 1] := by decide

/-- `C16_exact_step` with all hypotheses where the clean-up removes something: epoch 2 is the new best, the files
of epoch 1 go, in the reverse of the planned order -/
example : ExactLB exP exVals (exec exDe (opsOf
    (saveOps exP exDe 2 (U exTr 2) ++ histOps Quirks.fixed exDe 2) [.optim 1, .model 1])) 2 :=
  C16_exact_step exP_inj rfl exVals exTr exDe 1 exDe_exact (by decide) _ [.model 1, .optim 1] rfl
    [.optim 1, .model 1] (fun p => by simp only [List.mem_cons, List.not_mem_nil, or_false]; exact or_comm)

/-- `C16_exact_step_any_order` likewise, the optimizer's pipeline completely before the model's -/
example : ExactLB exP exVals (exec exDe (opsOf
    ((pipeO exP exDe 2 (U exTr 2) ++ pipeM exP exDe 2 (U exTr 2)) ++ histOps Quirks.fixed exDe 2)
    [.optim 1, .model 1])) 2 :=
  C16_exact_step_any_order exP_inj rfl exVals exTr exDe 1 exDe_exact (by decide) _ (Shuffle.append_swap _ _)
    [.optim 1, .model 1] (fun p => by
      rw [exDe_clean]; simp only [List.mem_cons, List.not_mem_nil, or_false]; exact or_comm)

example : (exec exDe (opsOf ((pipeO exP exDe 2 (U exTr 2) ++ pipeM exP exDe 2 (U exTr 2)) ++
    histOps Quirks.fixed exDe 2) [.optim 1, .model 1])).files.get (.model 1) = none ∧ bestOf (exVals.take 2) = 2 := by
  decide

/-- `C16_keepall_step_any_order`: keep everything, the disk after epoch 1, optimizer first, killed after the
optimizer's rename and before the model's temp file is written (call 6) -/
example := C16_keepall_step_any_order (P := exPall) ⟨fun _ _ h => h, fun _ _ h => h⟩ rfl exVals exTr exDa 1
  ⟨recAt_of_recOk (by decide) (by decide), by intro j h1 h2; have : j = 1 := by omega
                                              subst this; decide⟩
  (by decide) (pipeO exPall exDa 2 (U exTr 2) ++ pipeM exPall exDa 2 (U exTr 2)) (Shuffle.append_swap _ _) 6

/-- the `_rounded` theorems applied, on the history whose second epoch is lower than the first only beyond the
recorded digits (a controller started after epoch 1 caches something else than one started after epoch 2, and
neither caches the raw column); `C16_resume_rounded` from the disk with garbage, two killed sessions, one torn -/
example := C16_rounding_consistent (Rounding.both_consistent sig5_idem) exRaw 1
example : memVals (Rounding.both sig5) exRaw 1 ≠ exRaw ∧ cacheVals (Rounding.both sig5) exRaw 1 ≠
    cacheVals (Rounding.both sig5) exRaw 2 := by decide
example := C16_exact_nocrash_rounded exP_inj rfl (Rounding.both_consistent sig5_idem) exRaw exTr 2 (by decide)
example := C16_resume_rounded (P := exP) (Rounding.both_consistent sig5_idem) exRaw (exP_inj.safeFmt _) exTr exD1
  (recOk_sound (by decide)) [(0, 7, false), (1, 2, true)]

/-- `C16_rec_step_rounded` where the rounding decides (its earlier instance was the first update of the blank disk):
the update of epoch 2 on the disk with garbage `exD1`, planned by a controller started after epoch 1. Epoch 2's raw
metric is lower than epoch 1's, the recorded ones tie: the best stays epoch 1 and nothing is cleaned up — on the raw
values the plan would remove epoch 1's files. Killed after the data row (call 10 of 10). -/
example : Rec exP (fileVals (Rounding.both sig5) exRaw) exTr (exec exD1 ((opsOf
    (saveOps exP exD1 2 (U exTr 2) ++ histOps Quirks.fixed exD1 2) []).take 10)) :=
  C16_rec_step_rounded (P := exP) (Rounding.both_consistent sig5_idem) exRaw 1 exTr exD1
    (recOk_sound (by decide)) 1 (by decide) (by decide) (exP_inj.safeAt _ 1) (exP_inj.sep _ 1)
    (saveOps exP exD1 2 (U exTr 2) ++ histOps Quirks.fixed exD1 2) [] rfl [] (fun _ h => h) 10

example : cleanSet exP (memVals (Rounding.both sig5) exRaw 1) 1 exD1 = [] ∧
    cleanSet exP exRaw 1 exD1 = [.model 1, .optim 1] ∧
    recorded (exec exD1 ((opsOf (saveOps exP exD1 2 (U exTr 2) ++ histOps Quirks.fixed exD1 2) []).take 10)) = some 2 := by
  decide

end PdtVerif.Checkpoint
