import PdtVerif.Lemmas.PadChunk
import PdtVerif.Lemmas.PadChunkTensor
import PdtVerif.Lemmas.PadChunkRounding
import PdtVerif.Lemmas.PadChunkOrder
import PdtVerif.Lemmas.PadChunkFloat
/-!
# C09 — variable-length padding and chunking equal per-sequence pad-and-slice

Property theorems only (helper lemmas: `Lemmas/PadChunk.lean`). The model
(`Model/PadChunk.lean`) selects and scatters through ONE row-major buffer for the whole
batch, like `_pad.py`; the spec (`Spec/PadSlice.lean`) talks about one sequence at a time.
All statements hold for every batch size, time dimension, frame type `α`, lengths, pads
and slices (no bounds).
-/
namespace PdtVerif.PadChunk
open PdtVerif.PadSlice
variable {α : Type}

/-! ## the lemma everything rests on -/

/-- **scatter_row_aligned** (DESIGN appendix A6). `rows` is the batch; `selMask`, `x`, `dstMask`,
`dst` give each row's select mask, data, scatter mask and destination row. If every row's two
masks have the same number of true cells, then `masked_select` into one flat buffer followed by
`masked_scatter` out of it moves row `n` to row `n`: the result is the row-local scatter of the
row-local selection, no element crosses a row boundary, and torch's size check passes. -/
theorem scatter_row_aligned {ι : Type} (rows : List ι) (selMask dstMask : ι → List Bool)
    (x dst : ι → List α)
    (hx : ∀ r ∈ rows, (selMask r).length ≤ (x r).length)
    (hd : ∀ r ∈ rows, (dstMask r).length ≤ (dst r).length)
    (hcount : ∀ r ∈ rows, (selMask r).count true = (dstMask r).count true) :
    maskedScatter (rows.map dst) (rows.map dstMask) (maskedSelect (rows.map selMask) (rows.map x))
      = .ok (rows.map (fun r => (scatRow (dstMask r) (dst r) (selRow (selMask r) (x r))).1)) := by
  rw [maskedSelect_map]
  exact maskedScatter_aligned rows dstMask dst (fun r => selRow (selMask r) (x r))
    (fun r hr => ⟨hd r hr, by rw [selRow_length _ _ (hx r hr), hcount r hr]⟩)

/-- What the row-local scatter means: reading the new row back through the mask returns the
source, in order … -/
theorem scatter_row_reads_back (m : List Bool) (d s : List α) (hlen : m.length ≤ d.length)
    (hs : s.length = m.count true) : selRow m (scatRow m d s).1 = s := by
  induction m generalizing d s with
  | nil =>
    have : s = [] := by simpa using hs
    simp [this]
  | cons b m ih =>
    cases d with
    | nil => simp at hlen
    | cons y d =>
      simp at hlen
      cases b with
      | false =>
        have hs' : s.length = m.count true := by simpa using hs
        simp [scatRow, selRow, ih d s hlen hs']
      | true =>
        cases s with
        | nil => simp at hs
        | cons s0 s =>
          have hs' : s.length = m.count true := by simpa using hs
          simp [scatRow, selRow, ih d s hlen hs']

/-- … and the cells outside the mask keep their old value. -/
theorem scatter_row_keeps_rest (m : List Bool) (d s : List α) :
    selRow (m.map not) (scatRow m d s).1 = selRow (m.map not) d := by
  induction m generalizing d s with
  | nil => simp
  | cons b m ih =>
    cases d with
    | nil => simp
    | cons y d =>
      cases b with
      | false => simp [scatRow, selRow, ih]
      | true => cases s <;> simp [scatRow, selRow, ih]

example : maskedScatter [[0, 0, 0], [0, 0, 0]] [[false, true, true], [true, false, false]]
    (maskedSelect [[true, true, false], [false, false, true]] [[1, 2, 3], [4, 5, 6]])
    = .ok [[0, 1, 2], [6, 0, 0]] := by decide

/-- Non-vacuity of `scatter_row_aligned`: its three hypotheses hold together on a two-row batch whose rows
move different numbers of cells (2 and 1) to different places, and the theorem then yields the concrete
result computed above. -/
theorem scatter_row_aligned_nonvacuous :
    maskedScatter [[0, 0, 0], [0, 0, 0]] [[false, true, true], [true, false, false]]
      (maskedSelect [[true, true, false], [false, false, true]] [[(1 : Int), 2, 3], [4, 5, 6]])
      = .ok [[0, 1, 2], [6, 0, 0]] := by
  have h := scatter_row_aligned (α := Int) [0, 1]
    (fun i : Nat => if i = 0 then [true, true, false] else [false, false, true])
    (fun i => if i = 0 then [false, true, true] else [true, false, false])
    (fun i => if i = 0 then [1, 2, 3] else [4, 5, 6]) (fun _ => [0, 0, 0])
    (by decide) (by decide) (by decide)
  simpa [scatRow, selRow] using h

-- `scatter_row_reads_back` / `scatter_row_keeps_rest` on a row where something is scattered and something kept
example : selRow [false, true, true] (scatRow [false, true, true] [(0 : Int), 0, 0] [1, 2]).1 = [1, 2] :=
  scatter_row_reads_back _ _ _ (by decide) (by decide)
example : selRow [true, false, false] (scatRow [false, true, true] [(7 : Int), 8, 9] [1, 2]).1 = [7] :=
  scatter_row_keeps_rest [false, true, true] [7, 8, 9] [1, 2]

/-- The side condition is needed: with unequal per-row counts (row 0 selects two cells but
only one is scattered back) row 1 receives row 0's data. -/
theorem scatter_misaligned_counterexample :
    maskedScatter [[0, 0, 0], [0, 0, 0]] [[false, true, false], [true, false, false]]
      (maskedSelect [[true, true, false], [false, false, true]] [[1, 2, 3], [4, 5, 6]])
      = .ok [[0, 1, 0], [2, 0, 0]] := by decide

/-! ## pad_variable -/

/-- **C09_pad** (whole tensor). On every legal request (non-empty batch, rectangular `(N, T, ·)`
input, `len ≤ T`, pads legal for the mode: any for constant, any with `len ≥ 1` for replicate,
`< len` for reflect) `pad_variable` succeeds, and row `n` of its output is the per-sequence
`padSeq` of `x[n, :len]` followed by the pad value up to the common width `max (len + l + r)`. -/
theorem C09_pad (mode : Mode) (value : α) (T : Nat) (rows : List (PadRow α))
    (hne : rows ≠ []) (h : ∀ p ∈ rows, p.Legal mode T) :
    padVariable false mode value T rows
      = .ok (rows.map (fun p => padSeq mode value p.l p.r (p.x.take p.len)
              ++ List.replicate (maxOf (rows.map PadRow.newLen) - p.newLen) value)) :=
  padVariable_eq mode value T rows hne h

/-- **C09_pad**, as the property words it: row `n` up to `len + l + r` is `padSeq` of the
sequence alone; that many cells exist (the valid lengths `len + l + r` are exact). -/
theorem C09_pad_rows (mode : Mode) (value : α) (T : Nat) (rows : List (PadRow α))
    (hne : rows ≠ []) (h : ∀ p ∈ rows, p.Legal mode T) :
    ∃ out, padVariable false mode value T rows = .ok out ∧ out.length = rows.length ∧
      ∀ (n : Nat) (hn : n < rows.length) (hn' : n < out.length),
        (out[n]).take (rows[n]).newLen
            = padSeq mode value (rows[n]).l (rows[n]).r ((rows[n]).x.take (rows[n]).len)
          ∧ (rows[n]).newLen ≤ (out[n]).length
          ∧ (padSeq mode value (rows[n]).l (rows[n]).r ((rows[n]).x.take (rows[n]).len)).length
              = (rows[n]).newLen := by
  refine ⟨_, C09_pad mode value T rows hne h, by simp, ?_⟩
  intro n hn hn'
  have hp := h rows[n] (List.getElem_mem hn)
  have hlen : (padSeq mode value (rows[n]).l (rows[n]).r ((rows[n]).x.take (rows[n]).len)).length
      = (rows[n]).newLen := by
    rw [padSeq_eq]
    simp [PadRow.newLen, Nat.min_eq_left (hp.1 ▸ hp.2.1)]
    omega
  simp only [List.getElem_map]
  refine ⟨?_, ?_, hlen⟩
  · rw [List.take_left' hlen]
  · simp [hlen]

example : padVariable false .reflect (0 : Int) 5
    [⟨[0, 1, 2, 3, 4], 3, 0, 2⟩, ⟨[5, 6, 7, 8, 9], 4, 1, 3⟩]
    = .ok [[0, 1, 2, 1, 0, 0, 0, 0], [6, 5, 6, 7, 8, 7, 6, 5]] := by decide

example : ∀ p ∈ [(⟨[0, 1, 2, 3, 4], 3, 0, 2⟩ : PadRow Int), ⟨[5, 6, 7, 8, 9], 4, 1, 3⟩],
    p.Legal .reflect 5 := by
  intro p hp
  simp at hp
  rcases hp with rfl | rfl <;> simp [PadRow.Legal, legalPad]

/-- Non-vacuity of `C09_pad` / `C09_pad_rows`: a two-row replicate batch with pads LARGER than the time
dimension `T = 2` (3 on the left of row 0, 4 on the right of row 1, whose length 1 is below `T`) satisfies
every hypothesis; the theorem's right-hand side evaluates to the rows one expects, and `C09_pad_rows` applies. -/
theorem C09_pad_nonvacuous :
    (∀ p ∈ [(⟨[1, 2], 2, 3, 0⟩ : PadRow Int), ⟨[3, 4], 1, 0, 4⟩], p.Legal .replicate 2)
    ∧ padVariable false .replicate (0 : Int) 2 [⟨[1, 2], 2, 3, 0⟩, ⟨[3, 4], 1, 0, 4⟩]
        = .ok [[1, 1, 1, 1, 2], [3, 3, 3, 3, 3]]
    ∧ ∃ out, padVariable false .replicate (0 : Int) 2 [⟨[1, 2], 2, 3, 0⟩, ⟨[3, 4], 1, 0, 4⟩] = .ok out
        ∧ out.length = 2 := by
  have hleg : ∀ p ∈ [(⟨[1, 2], 2, 3, 0⟩ : PadRow Int), ⟨[3, 4], 1, 0, 4⟩], p.Legal .replicate 2 := by
    intro p hp
    simp at hp
    rcases hp with rfl | rfl <;> simp [PadRow.Legal, legalPad]
  refine ⟨hleg, ?_, ?_⟩
  · rw [C09_pad .replicate 0 2 _ (by simp) hleg]
    decide
  · obtain ⟨out, h1, h2, _⟩ := C09_pad_rows .replicate (0 : Int) 2 _ (by simp) hleg
    exact ⟨out, h1, h2⟩

-- constant mode with an EMPTY sequence (len 0) next to a padded one: legal, and the theorem applies
example : padVariable false .constant (-1 : Int) 2 [⟨[1, 2], 0, 1, 2⟩, ⟨[3, 4], 2, 0, 1⟩]
    = .ok [[-1, -1, -1], [3, 4, -1]] := by
  rw [C09_pad .constant (-1) 2 _ (by simp) (by
    intro p hp
    simp at hp
    rcases hp with rfl | rfl <;> simp [PadRow.Legal, legalPad])]
  decide

/-! ### the pinned tree's replicate buffers (`fixes/C09-replicate-pad-gt-T.diff`) -/

/-- Pinned tree, replicate mode, a pad larger than the time dimension `T = 2`: the masks are cut
from `arange(T)` and the request fails with a RuntimeError although it is legal … -/
theorem C09_replicate_pad_gt_T_counterexample :
    padVariable true .replicate (0 : Int) 2 [⟨[1, 2], 2, 3, 0⟩] = .error .runtime
    ∧ padVariable false .replicate (0 : Int) 2 [⟨[1, 2], 2, 3, 0⟩] = .ok [[1, 1, 1, 1, 2]] := by
  decide

/-- … and with `T = 1` the `(N, 1, F)` mask is silently broadcast along the time axis: every row
with a non-zero pad contributes `max pad = 2` elements, although row 0 only has one cell to fill.
The flattened scatter hands row 0's surplus element `7` to row 1 — the violated side condition of
`scatter_row_aligned`. No error is raised. -/
theorem C09_replicate_pad_gt_T_silent_counterexample :
    padVariable true .replicate (0 : Int) 1 [⟨[7], 1, 1, 0⟩, ⟨[8], 1, 2, 0⟩]
      = .ok [[7, 7, 0], [7, 8, 8]]
    ∧ padVariable false .replicate (0 : Int) 1 [⟨[7], 1, 1, 0⟩, ⟨[8], 1, 2, 0⟩]
      = .ok [[7, 7, 0], [8, 8, 8]] := by
  decide

/-! ## pad_masked_sequence -/

/-- **C09_masked** (batch-first layout): per row, the selected elements in order, then the pad
value up to `T`; the reported length is the number of selected elements. -/
theorem C09_masked (value : α) (T : Nat) (rows : List (MaskRow α)) (h : ∀ r ∈ rows, r.Wf T) :
    padMaskedCore value T rows
      = .ok (rows.map (fun r => compact r.mask r.x
                ++ List.replicate (T - (compact r.mask r.x).length) value),
             rows.map (fun r => (compact r.mask r.x).length)) :=
  padMaskedCore_eq value T rows h

/-- the reported length is the number of true mask cells -/
theorem C09_masked_count (T : Nat) (r : MaskRow α) (h : r.Wf T) :
    (compact r.mask r.x).length = r.mask.count true :=
  compact_length _ _ (Nat.le_of_eq (h.2.trans h.1.symm))

example : padMaskedCore (-1 : Int) 4 [⟨[0, 3, 6, 9], [true, false, true, true]⟩, ⟨[1, 2, 4, 5], [false, false, false, true]⟩]
    = .ok ([[0, 6, 9, -1], [5, -1, -1, -1]], [3, 1]) := by decide

/-- Non-vacuity of `C09_masked` / `C09_masked_count`: a two-row batch with mixed masks is well formed, the
theorem's right-hand side is the expected compaction, and the count lemma applies to its rows. -/
theorem C09_masked_nonvacuous :
    (∀ r ∈ [(⟨[0, 3, 6, 9], [true, false, true, true]⟩ : MaskRow Int), ⟨[1, 2, 4, 5], [false, false, false, true]⟩],
      r.Wf 4)
    ∧ padMaskedCore (-1 : Int) 4 [⟨[0, 3, 6, 9], [true, false, true, true]⟩, ⟨[1, 2, 4, 5], [false, false, false, true]⟩]
        = .ok ([[0, 6, 9, -1], [5, -1, -1, -1]], [3, 1])
    ∧ (compact [true, false, true, true] [(0 : Int), 3, 6, 9]).length = 3 := by
  have hwf : ∀ r ∈ [(⟨[0, 3, 6, 9], [true, false, true, true]⟩ : MaskRow Int),
      ⟨[1, 2, 4, 5], [false, false, false, true]⟩], r.Wf 4 := by
    intro r hr
    simp at hr
    rcases hr with rfl | rfl <;> simp [MaskRow.Wf]
  refine ⟨hwf, ?_, ?_⟩
  · rw [C09_masked (-1) 4 _ hwf]
    decide
  · exact C09_masked_count 4 ⟨[0, 3, 6, 9], [true, false, true, true]⟩ (hwf _ (by simp))

/-! ### the compaction keeps the order, and is stable under masked-out additions -/

/-- **C09_masked_positions** (a statement about the SPEC function `trueIdx` alone — no model in it; it is what
gives the index clause of `C09_masked_order` its meaning, and it pins `trueIdx` down uniquely: a strictly
increasing list with this membership is unique): `trueIdx mask` lists exactly the positions of the true cells, each once, in
strictly increasing order; there are `count true` of them. (What "the `j`-th true cell" means below.) -/
theorem C09_masked_positions (mask : List Bool) :
    (trueIdx mask).Pairwise (· < ·) ∧ (trueIdx mask).length = mask.count true
      ∧ ∀ k, k ∈ trueIdx mask ↔ mask[k]? = some true := by
  refine ⟨trueIdxFrom_pairwise 0 mask, trueIdxFrom_length 0 mask, ?_⟩
  intro k
  simpa [trueIdx] using mem_trueIdxFrom 0 mask k

/-- **C09_masked_order** — "the selected elements IN ORDER". For every batch of `(T)`-long rows and masks
(any `N`, any `T`), `pad_masked_sequence` succeeds and for every row `n`:
* the reported length is the number of true cells, at most `T`, and the row keeps its length `T`;
* the valid prefix `out[n][:lens[n]]` is literally `filter` by the mask (on the zipped list) — and therefore
* a SUBLIST of `x[n]`: its elements are elements of `x[n]` in their original relative order (an output whose
  selected elements are permuted — an unstable sort of the mask — is not a sublist when the elements differ);
* element-wise, the documentation's wording: `out[n][j] = x[n][i]` for `i` the position of the `j`-th true
  cell (`trueIdx`, strictly increasing by `C09_masked_positions`);
* every cell from `lens[n]` on holds the pad value. -/
theorem C09_masked_order (value : α) (T : Nat) (rows : List (MaskRow α)) (h : ∀ r ∈ rows, r.Wf T) :
    ∃ out lens, padMaskedCore value T rows = .ok (out, lens)
      ∧ out.length = rows.length ∧ lens.length = rows.length
      ∧ ∀ (n : Nat) (hn : n < rows.length) (ho : n < out.length) (hl : n < lens.length),
          lens[n] = (rows[n]).mask.count true ∧ lens[n] ≤ T ∧ (out[n]).length = T
          ∧ (out[n]).take lens[n]
              = (((rows[n]).mask.zip (rows[n]).x).filter (fun p => p.1)).map (fun p => p.2)
          ∧ ((out[n]).take lens[n]).Sublist (rows[n]).x
          ∧ (∀ j, j < lens[n] →
              (out[n])[j]? = ((trueIdx (rows[n]).mask)[j]?).bind (fun i => (rows[n]).x[i]?))
          ∧ (∀ j, lens[n] ≤ j → j < T → (out[n])[j]? = some value) := by
  refine ⟨_, _, C09_masked value T rows h, by simp, by simp, ?_⟩
  intro n hn ho hl
  obtain ⟨hx, hm⟩ := h rows[n] (List.getElem_mem hn)
  have hc : (compact (rows[n]).mask (rows[n]).x).length = (rows[n]).mask.count true :=
    compact_length _ _ (by omega)
  have hcT : (rows[n]).mask.count true ≤ T := by rw [← hm]; exact List.count_le_length
  simp only [List.getElem_map]
  have htake : (compact (rows[n]).mask (rows[n]).x
      ++ List.replicate (T - (compact (rows[n]).mask (rows[n]).x).length) value).take
        (compact (rows[n]).mask (rows[n]).x).length = compact (rows[n]).mask (rows[n]).x :=
    List.take_left' rfl
  refine ⟨hc, by omega, by simp; omega, ?_, ?_, ?_, ?_⟩
  · rw [htake]; rfl
  · rw [htake]; exact compact_sublist _ _
  · intro j hj
    rw [List.getElem?_append_left hj]
    have := compact_getElem?_from 0 (rows[n]).mask (rows[n]).x (by omega) j
    simpa [trueIdx] using this
  · intro j hj hjT
    rw [List.getElem?_append_right hj, List.getElem?_replicate]
    simp
    omega

/-- **C09_masked_concat**: compaction is a homomorphism for aligned concatenation along the sequence
dimension. If every row is the concatenation of a `T1`-long part and a `T2`-long part (data and mask cut
at the same place), the output row is the compaction of the first part, then the compaction of the second
part, then the pad value; the reported length is the sum. -/
theorem C09_masked_concat (value : α) (T1 T2 : Nat) (rows : List (MaskRow α × MaskRow α))
    (h1 : ∀ p ∈ rows, p.1.Wf T1) (h2 : ∀ p ∈ rows, p.2.Wf T2) :
    padMaskedCore value (T1 + T2) (rows.map (fun p => ⟨p.1.x ++ p.2.x, p.1.mask ++ p.2.mask⟩))
      = .ok (rows.map (fun p => compact p.1.mask p.1.x ++ compact p.2.mask p.2.x
                ++ List.replicate
                    (T1 + T2 - ((compact p.1.mask p.1.x).length + (compact p.2.mask p.2.x).length)) value),
             rows.map (fun p => (compact p.1.mask p.1.x).length + (compact p.2.mask p.2.x).length)) := by
  rw [C09_masked value (T1 + T2)]
  · simp only [List.map_map]
    congr 2
    · apply List.map_congr_left
      intro p hp
      obtain ⟨hx1, hm1⟩ := h1 p hp
      simp only [Function.comp, compact_append _ _ _ _ (hm1.trans hx1.symm), List.length_append]
    · apply List.map_congr_left
      intro p hp
      obtain ⟨hx1, hm1⟩ := h1 p hp
      simp only [Function.comp, compact_append _ _ _ _ (hm1.trans hx1.symm), List.length_append]
  · intro r hr
    simp only [List.mem_map] at hr
    obtain ⟨p, hp, rfl⟩ := hr
    obtain ⟨hx1, hm1⟩ := h1 p hp
    obtain ⟨hx2, hm2⟩ := h2 p hp
    simp [MaskRow.Wf, hx1, hm1, hx2, hm2]

/-- **C09_masked_stable**: compaction commutes with appending masked-out elements. Lengthen every sequence
by `k` further elements (`ext r`, anything) whose mask cells are false: the call on the lengthened batch
returns the old output rows, each followed by `k` more pad values, and the same lengths. (With
`C09_masked_concat` the same holds for masked-out elements put in front or in between: a part whose mask is
all false compacts to nothing, `compact_replicate_false`.) -/
theorem C09_masked_stable (value : α) (T k : Nat) (rows : List (MaskRow α)) (ext : MaskRow α → List α)
    (h : ∀ r ∈ rows, r.Wf T) (hext : ∀ r ∈ rows, (ext r).length = k) :
    padMaskedCore value (T + k) (rows.map (fun r => ⟨r.x ++ ext r, r.mask ++ List.replicate k false⟩))
      = (padMaskedCore value T rows).map
          (fun p => (p.1.map (fun row => row ++ List.replicate k value), p.2)) := by
  rw [C09_masked value T rows h, C09_masked value (T + k)]
  · simp only [Except.map, List.map_map]
    congr 2
    · apply List.map_congr_left
      intro r hr
      obtain ⟨hx, hm⟩ := h r hr
      have hc : (compact r.mask r.x).length ≤ T := by
        rw [compact_length _ _ (by omega), ← hm]; exact List.count_le_length
      simp only [Function.comp, compact_append _ _ _ _ (hm.trans hx.symm), compact_replicate_false,
        List.append_nil, List.append_assoc, List.append_cancel_left_eq]
      rw [← List.replicate_add]
      congr 1
      omega
    · apply List.map_congr_left
      intro r hr
      obtain ⟨hx, hm⟩ := h r hr
      simp only [Function.comp, compact_append _ _ _ _ (hm.trans hx.symm), compact_replicate_false,
        List.append_nil]
  · intro r hr
    simp only [List.mem_map] at hr
    obtain ⟨r0, hr0, rfl⟩ := hr
    obtain ⟨hx, hm⟩ := h r0 hr0
    simp [MaskRow.Wf, hx, hm, hext r0 hr0]

/-- Non-vacuity of the order / stability theorems on a two-row batch with mixed masks: the hypotheses hold,
`C09_masked_order` yields the positions `[0, 2, 3]` / `[3]` and a sublist, and appending two masked-out
elements (`[70, 71]` / `[80, 81]`) changes nothing but the width. An output with the selected elements of
row 0 permuted (`[6, 0, 9]`) is NOT a sublist of the row. -/
theorem C09_masked_order_nonvacuous :
    trueIdx [true, false, true, true] = [0, 2, 3]
    ∧ (∃ out lens, padMaskedCore (-1 : Int) 4
          [⟨[0, 3, 6, 9], [true, false, true, true]⟩, ⟨[1, 2, 4, 5], [false, false, false, true]⟩] = .ok (out, lens)
        ∧ out = [[0, 6, 9, -1], [5, -1, -1, -1]] ∧ lens = [3, 1])
    ∧ ¬ ([(6 : Int), 0, 9]).Sublist [0, 3, 6, 9]
    ∧ padMaskedCore (-1 : Int) 6
          [⟨[0, 3, 6, 9, 70, 71], [true, false, true, true, false, false]⟩,
           ⟨[1, 2, 4, 5, 80, 81], [false, false, false, true, false, false]⟩]
        = .ok ([[0, 6, 9, -1, -1, -1], [5, -1, -1, -1, -1, -1]], [3, 1]) := by
  have hwf : ∀ r ∈ [(⟨[0, 3, 6, 9], [true, false, true, true]⟩ : MaskRow Int),
      ⟨[1, 2, 4, 5], [false, false, false, true]⟩], r.Wf 4 := by
    intro r hr
    simp at hr
    rcases hr with rfl | rfl <;> simp [MaskRow.Wf]
  refine ⟨by decide, ?_, by decide, ?_⟩
  · obtain ⟨out, lens, h, _⟩ := C09_masked_order (-1 : Int) 4 _ hwf
    refine ⟨out, lens, h, ?_⟩
    have h' : padMaskedCore (-1 : Int) 4
        [⟨[0, 3, 6, 9], [true, false, true, true]⟩, ⟨[1, 2, 4, 5], [false, false, false, true]⟩]
        = .ok ([[0, 6, 9, -1], [5, -1, -1, -1]], [3, 1]) := by decide
    rw [h'] at h
    cases h
    exact ⟨rfl, rfl⟩
  · have hs := C09_masked_stable (-1 : Int) 4 2
      [⟨[0, 3, 6, 9], [true, false, true, true]⟩, ⟨[1, 2, 4, 5], [false, false, false, true]⟩]
      (fun r => if r.x.head? = some 0 then [70, 71] else [80, 81]) hwf (by
        intro r hr
        simp at hr
        rcases hr with rfl | rfl <;> simp)
    simpa [C09_masked (-1 : Int) 4 _ hwf, Except.map, compact] using hs

/-- Non-vacuity, THROUGH the per-row clauses of `C09_masked_order` (audit round E: the witness above only used
the theorem's first conjunct). On the batch above the theorem itself yields, for row 0: length 3, valid
prefix `[0, 6, 9]`, a sublist of `[0, 3, 6, 9]`, cell 1 is `x[2] = 6` (the position of the second true cell),
cell 3 is the pad value. The mask drops an element in the MIDDLE of the row. -/
theorem C09_masked_order_rows_nonvacuous :
    ∃ out lens, padMaskedCore (-1 : Int) 4
        [⟨[0, 3, 6, 9], [true, false, true, true]⟩, ⟨[1, 2, 4, 5], [false, false, false, true]⟩] = .ok (out, lens)
      ∧ ∃ (ho : 0 < out.length) (hl : 0 < lens.length),
          lens[0] = 3 ∧ (out[0]).take 3 = [0, 6, 9] ∧ ((out[0]).take 3).Sublist [0, 3, 6, 9]
          ∧ (out[0])[1]? = some 6 ∧ (out[0])[3]? = some (-1) ∧ (out[0]).length = 4 := by
  have hwf : ∀ r ∈ [(⟨[0, 3, 6, 9], [true, false, true, true]⟩ : MaskRow Int),
      ⟨[1, 2, 4, 5], [false, false, false, true]⟩], r.Wf 4 := by
    intro r hr
    simp at hr
    rcases hr with rfl | rfl <;> simp [MaskRow.Wf]
  obtain ⟨out, lens, h, ho, hl, hrows⟩ := C09_masked_order (-1 : Int) 4 _ hwf
  refine ⟨out, lens, h, by rw [ho]; decide, by rw [hl]; decide, ?_⟩
  obtain ⟨c1, _, c3, c4, c5, c6, c7⟩ := hrows 0 (by decide) (by rw [ho]; decide) (by rw [hl]; decide)
  have e : lens[0]'(by rw [hl]; decide) = 3 := c1.trans (by decide)
  rw [e] at c4 c5 c6 c7
  exact ⟨e, c4.trans (by decide), c5, (c6 1 (by decide)).trans (by decide), c7 3 (by decide) (by decide), c3⟩

/-- Non-vacuity of `C09_masked_concat` (audit round E: it had no witness): two rows, each the concatenation of
a 2-long and a 3-long part, masks that drop elements in BOTH parts; both well-formedness hypotheses hold
together, the theorem applies, and its right-hand side is the expected compaction with lengths `[3, 1]`. -/
theorem C09_masked_concat_nonvacuous :
    padMaskedCore (-1 : Int) 5
        [⟨[0, 3, 6, 9, 12], [true, false, false, true, true]⟩, ⟨[1, 2, 4, 5, 7], [false, false, true, false, false]⟩]
      = .ok ([[0, 9, 12, -1, -1], [4, -1, -1, -1, -1]], [3, 1]) := by
  have h1 : ∀ p ∈ [((⟨[0, 3], [true, false]⟩, ⟨[6, 9, 12], [false, true, true]⟩) : MaskRow Int × MaskRow Int),
      (⟨[1, 2], [false, false]⟩, ⟨[4, 5, 7], [true, false, false]⟩)], p.1.Wf 2 := by
    intro p hp
    simp at hp
    rcases hp with rfl | rfl <;> simp [MaskRow.Wf]
  have h2 : ∀ p ∈ [((⟨[0, 3], [true, false]⟩, ⟨[6, 9, 12], [false, true, true]⟩) : MaskRow Int × MaskRow Int),
      (⟨[1, 2], [false, false]⟩, ⟨[4, 5, 7], [true, false, false]⟩)], p.2.Wf 3 := by
    intro p hp
    simp at hp
    rcases hp with rfl | rfl <;> simp [MaskRow.Wf]
  exact (C09_masked_concat (-1 : Int) 2 3 _ h1 h2).trans (by decide)

/-! ### pad_masked_sequence on whole tensors: both layouts, broadcastable masks -/

/-- **C09_masked_batch_first**: the tensor-level entry with `batch_first=True` on an `(N, T, ·)` input and
an `(N, T)` mask: row `n` of the output is the compaction of row `n`, then the pad value up to `T`;
`lens[n]` is the count. (`C09_masked` through the shape handling of the entry point.) -/
theorem C09_masked_batch_first (value dflt : α) (N T : Nat) (x : List (List α)) (mask : List (List Bool))
    (hx : ∀ r ∈ x, r.length = T) (hm : ∀ r ∈ mask, r.length = T) :
    padMaskedSequence true value N T x N T mask dflt
      = .ok (List.zipWith (fun xs m => compact m xs ++ List.replicate (T - (compact m xs).length) value) x mask,
             List.zipWith (fun xs m => (compact m xs).length) x mask) :=
  padMaskedSequence_batchFirst value dflt N T x mask hx hm

/-- **C09_masked_seq_first**: the default layout, `x` of shape `(T, N, ·)` and `mask` of shape `(T, N)`
(`batch_first=False`). Sequence `n` is COLUMN `n`. The call succeeds; `lens[n]` is the number of
selected elements of column `n`; and reading the output at `[t][n]` gives element `t` of "the selected
elements of column `n` in order, followed by the pad value" — the documentation's
`x_[j, n] = x[i, n]` for the `j`-th true cell `i`, pad value below. Proved by composing the batch-first
theorem with two transpositions (`padMaskedSequence_seqFirst`). -/
theorem C09_masked_seq_first (value dflt : α) (T N : Nat) (x : List (List α)) (mask : List (List Bool))
    (hx : x.length = T) (hm : mask.length = T) :
    ∃ out lens, padMaskedSequence false value T N x T N mask dflt = .ok (out, lens) ∧
      out.length = T ∧ lens.length = N ∧
      ∀ (n : Nat), n < N →
        lens[n]? = some (compact (col mask n false) (col x n dflt)).length
        ∧ (compact (col mask n false) (col x n dflt)
            ++ List.replicate (T - (compact (col mask n false) (col x n dflt)).length) value).length = T
        ∧ ∀ (t : Nat), t < T →
            (out[t]?).bind (fun row => row[n]?)
              = (compact (col mask n false) (col x n dflt)
                  ++ List.replicate (T - (compact (col mask n false) (col x n dflt)).length) value)[t]? := by
  refine ⟨_, _, padMaskedSequence_seqFirst value dflt T N x mask hx hm, by simp, by simp, ?_⟩
  intro n hn
  have hlen := maskedRowOut_length value T (col x n dflt) (col mask n false) (by simp [hm]) (by simp [hx])
  refine ⟨by simp [hn], hlen, ?_⟩
  intro t ht
  have hlen' : t < (maskedRowOut value T (col x n dflt) (col mask n false)).length := by omega
  simp only [transpose, col, List.getElem?_map, List.getElem?_range ht, Option.map_some, Option.bind_some,
    List.getElem?_range hn]
  simp only [maskedRowOut, col] at hlen' ⊢
  rw [List.getD_eq_getElem?_getD, List.getElem?_eq_getElem hlen']
  rfl

-- T = 3 time steps, N = 2 sequences; column 0 = [1, 3, 5] keeps [1, 5], column 1 = [2, 4, 6] keeps [4]
example : padMaskedSequence false (-1 : Int) 3 2 [[1, 2], [3, 4], [5, 6]] 3 2
    [[true, false], [false, true], [true, false]] 0 = .ok ([[1, 4], [5, -1], [-1, -1]], [2, 1]) := by decide

/-- **C09_masked_broadcast**: a mask given in a broadcastable shape (`(N, 1)`, `(1, T)`, `(1, 1)`:
"broadcasts with the first two dimensions of `x`") gives exactly what its expansion gives. (The code
before `fixes/C09-masked-broadcast-mask.diff` counted the lengths on the unexpanded mask.) -/
theorem C09_masked_broadcast (value dflt : α) (N T m0 m1 : Nat) (x : List (List α))
    (mask full : List (List Bool)) (h : expand2 N T m0 m1 mask = .ok full) :
    padMaskedSequence true value N T x m0 m1 mask dflt
      = padMaskedSequence true value N T x N T full dflt :=
  padMaskedSequence_broadcast value dflt N T m0 m1 x mask full h

-- a (2, 1) mask on a (2, 3) input: row 0 is kept whole, row 1 is dropped whole
example : expand2 2 3 2 1 [[true], [false]] = .ok [[true, true, true], [false, false, false]]
    ∧ padMaskedSequence true (-1 : Int) 2 3 [[1, 2, 3], [4, 5, 6]] 2 1 [[true], [false]] 0
      = .ok ([[1, 2, 3], [-1, -1, -1]], [3, 0]) := by decide

/-- **C09_masked_broadcast_rows**: the broadcasting clause against a DECLARATIVE rule instead of the model's
own `expand2`. `x` of shape `(N, T, ·)`, `mask` a nested list of the shape `(m0, m1)` it is declared with,
each size equal to the corresponding one of `x` or 1. Then row `n` of the output is the compaction of
`x[n]` by the mask row whose cell `t` is `mask[n or 0][t or 0]` (`0` along a size-1 dimension —
`bcastMask`), followed by the pad value, and `lens[n]` is its count.
(`expand2_eq_bcastMask`, `C09_masked_broadcast`, `C09_masked_batch_first` composed.) -/
theorem C09_masked_broadcast_rows (value dflt : α) (N T m0 m1 : Nat) (x : List (List α))
    (mask : List (List Bool)) (hx : ∀ r ∈ x, r.length = T)
    (hm0 : mask.length = m0) (hm : ∀ r ∈ mask, r.length = m1)
    (hb0 : m0 = N ∨ m0 = 1) (hb1 : m1 = T ∨ m1 = 1) :
    padMaskedSequence true value N T x m0 m1 mask dflt
      = .ok (List.zipWith (fun xs m => compact m xs ++ List.replicate (T - (compact m xs).length) value)
               x (bcastMask N T m0 m1 mask),
             List.zipWith (fun xs m => (compact m xs).length) x (bcastMask N T m0 m1 mask)) := by
  rw [C09_masked_broadcast value dflt N T m0 m1 x mask _ (expand2_eq_bcastMask N T m0 m1 mask hm0 hm hb0 hb1)]
  exact C09_masked_batch_first value dflt N T x _ hx (bcastMask_row_length N T m0 m1 mask)

-- a (1, 3) mask against a (2, 3) input: both rows are filtered by the one mask row; a (2, 1) mask: whole rows
example : bcastMask 2 3 1 3 [[true, false, true]] = [[true, false, true], [true, false, true]]
    ∧ bcastMask 2 3 2 1 [[true], [false]] = [[true, true, true], [false, false, false]]
    ∧ padMaskedSequence true (-1 : Int) 2 3 [[1, 2, 3], [4, 5, 6]] 1 3 [[true, false, true]] 0
      = .ok ([[1, 3, -1], [4, 6, -1]], [2, 2]) := by
  refine ⟨by decide, by decide, ?_⟩
  rw [C09_masked_broadcast_rows (-1) 0 2 3 1 3 _ _ (by decide) rfl (by decide) (Or.inr rfl) (Or.inl rfl)]
  decide

/-- Non-vacuity of the three tensor-level `pad_masked_sequence` theorems on consistent shapes: batch-first
`(2, 3)`, sequence-first `(3, 2)` (hypotheses discharged, conclusions applied), and a `(2, 1)` mask whose
expansion exists. -/
theorem C09_masked_tensor_nonvacuous :
    padMaskedSequence true (-1 : Int) 2 3 [[1, 2, 3], [4, 5, 6]] 2 3
        [[true, false, true], [false, true, false]] 0 = .ok ([[1, 3, -1], [5, -1, -1]], [2, 1])
    ∧ (∃ out lens, padMaskedSequence false (-1 : Int) 3 2 [[1, 2], [3, 4], [5, 6]] 3 2
        [[true, false], [false, true], [true, false]] 0 = .ok (out, lens) ∧ out.length = 3 ∧ lens.length = 2)
    ∧ padMaskedSequence true (-1 : Int) 2 3 [[1, 2, 3], [4, 5, 6]] 2 1 [[true], [false]] 0
        = padMaskedSequence true (-1 : Int) 2 3 [[1, 2, 3], [4, 5, 6]] 2 3
            [[true, true, true], [false, false, false]] 0 := by
  refine ⟨?_, ?_, ?_⟩
  · rw [C09_masked_batch_first (-1) 0 2 3 _ _ (by decide) (by decide)]
    decide
  · obtain ⟨out, lens, h, h1, h2, _⟩ := C09_masked_seq_first (-1 : Int) 0 3 2 [[1, 2], [3, 4], [5, 6]]
      [[true, false], [false, true], [true, false]] rfl rfl
    exact ⟨out, lens, h, h1, h2⟩
  · exact C09_masked_broadcast (-1) 0 2 3 2 1 _ _ _ (by decide)

/-! ## chunk_by_slices (constant and replicate) -/

/-- **C09_chunk** (constant / replicate; whole tensor). On every legal request (non-empty batch,
rectangular input, `len ≤ T`, `len ≥ 1` for replicate; ANY slice bounds: negative starts, ends
beyond the length, slices wholly in the padding, empty, inverted) `chunk_by_slices` succeeds and
reports exactly the requested lengths `max (stop - start) 0`. -/
theorem C09_chunk_lens (mode : Mode) (hmode : mode ≠ .reflect) (value : α) (T : Nat)
    (rows : List (ChunkRow α)) (hne : rows ≠ []) (h : ∀ c ∈ rows, c.Legal mode T) :
    ∃ out, chunkBySlices false mode value T rows
        = .ok (out, rows.map (fun c => chunkLen c.start c.stop)) ∧ out.length = rows.length :=
  ⟨_, chunkBySlices_eq mode hmode value T rows hne h, by simp⟩

/-- **C09_chunk**: row `n` up to the reported length is "the sequence alone, padded, then
sliced", and that many cells exist. -/
theorem C09_chunk (mode : Mode) (hmode : mode ≠ .reflect) (value : α) (T : Nat)
    (rows : List (ChunkRow α)) (hne : rows ≠ []) (h : ∀ c ∈ rows, c.Legal mode T) :
    ∃ out lens, chunkBySlices false mode value T rows = .ok (out, lens) ∧
      out.length = rows.length ∧ lens.length = rows.length ∧
      ∀ (n : Nat) (hn : n < rows.length) (ho : n < out.length) (hl : n < lens.length),
        lens[n] = chunkLen (rows[n]).start (rows[n]).stop
        ∧ (out[n]).take lens[n]
            = chunkSeq mode value ((rows[n]).x.take (rows[n]).len) (rows[n]).start (rows[n]).stop
        ∧ (chunkSeq mode value ((rows[n]).x.take (rows[n]).len) (rows[n]).start (rows[n]).stop).length
            = lens[n] := by
  refine ⟨_, _, chunkBySlices_eq mode hmode value T rows hne h, by simp, by simp, ?_⟩
  intro n hn ho hl
  obtain ⟨hx, hlen, _⟩ := h rows[n] (List.getElem_mem hn)
  have hv := chunkRowOut_valid mode hmode value T (chunkTp rows) rows[n] hx hlen
  have hcl : (rows[n]).chunkLen = chunkLen (rows[n]).start (rows[n]).stop := rfl
  simp only [List.getElem_map]
  refine ⟨hcl, hv, ?_⟩
  rw [← hv, List.length_take]
  have h1 := chunk_total_le_Tp rows rows[n] (List.getElem_mem hn)
  have h2 : (chunkRowOut mode value (chunkTp rows) rows[n]).length = chunkTp rows := by
    simp [chunkRowOut, sliceLen_le _ T hx hlen]
    omega
  have h3 : (rows[n]).chunkLen ≤ chunkTp rows := by
    have : (rows[n]).chunkLen ≤ maxOf (rows.map ChunkRow.chunkLen) :=
      le_maxOf (List.mem_map.2 ⟨_, List.getElem_mem hn, rfl⟩)
    unfold chunkTp; omega
  omega

-- slices: into the left padding, wholly right of the (length-2) sequence, inverted
example : chunkBySlices false .replicate (0 : Int) 4
    [⟨[1, 2, 3, 4], 3, -2, 2⟩, ⟨[5, 6, 7, 8], 2, 3, 5⟩, ⟨[9, 10, 11, 12], 4, 3, 1⟩]
    = .ok ([[1, 1, 1, 2], [6, 6, 6, 0], [0, 0, 0, 0]], [4, 2, 0]) := by decide

example : ∀ c ∈ [(⟨[1, 2, 3, 4], 3, -2, 2⟩ : ChunkRow Int), ⟨[5, 6, 7, 8], 2, 3, 5⟩, ⟨[9, 10, 11, 12], 4, 3, 1⟩],
    c.Legal .replicate 4 := by
  intro c hc
  simp at hc
  rcases hc with rfl | rfl | rfl <;> simp [ChunkRow.Legal, legalPad]

/-- Non-vacuity of `C09_chunk_lens` / `C09_chunk`: the three-row replicate batch above (a slice into the left
padding, one wholly right of a length-2 sequence, an inverted one) satisfies every hypothesis and both
theorems apply to it; the lengths they report are `[4, 2, 0]`. -/
theorem C09_chunk_nonvacuous :
    (∀ c ∈ [(⟨[1, 2, 3, 4], 3, -2, 2⟩ : ChunkRow Int), ⟨[5, 6, 7, 8], 2, 3, 5⟩, ⟨[9, 10, 11, 12], 4, 3, 1⟩],
      c.Legal .replicate 4)
    ∧ (∃ out, chunkBySlices false .replicate (0 : Int) 4
        [⟨[1, 2, 3, 4], 3, -2, 2⟩, ⟨[5, 6, 7, 8], 2, 3, 5⟩, ⟨[9, 10, 11, 12], 4, 3, 1⟩] = .ok (out, [4, 2, 0]))
    ∧ chunkSeq .replicate (0 : Int) [5, 6] 3 5 = [6, 6] := by
  have hleg : ∀ c ∈ [(⟨[1, 2, 3, 4], 3, -2, 2⟩ : ChunkRow Int), ⟨[5, 6, 7, 8], 2, 3, 5⟩,
      ⟨[9, 10, 11, 12], 4, 3, 1⟩], c.Legal .replicate 4 := by
    intro c hc
    simp at hc
    rcases hc with rfl | rfl | rfl <;> simp [ChunkRow.Legal, legalPad]
  refine ⟨hleg, ?_, by decide⟩
  obtain ⟨out, h, _⟩ := C09_chunk_lens .replicate (by decide) (0 : Int) 4 _ (by simp) hleg
  obtain ⟨out', lens', h', _⟩ := C09_chunk .replicate (by decide) (0 : Int) 4 _ (by simp) hleg
  exact ⟨out, h⟩

/-! ### reflect -/

/-- **C09_chunk_reflect**: reflect mode, every slice shape, INCLUDING slices that start strictly
beyond the end of their sequence, where `chunk_by_slices` re-reads the right padding it has just
written (`chunks[right_mask]`) and scatters it back shifted by `offset = start - len` — a second
batch-flattened select→scatter whose per-row counts (`right_pad - offset` on both sides) agree.
Legal = each needed pad `< len` (hence `len ≥ 1`). (Audit: the third conjunct — the per-sequence chunk has
exactly the reported length, so that many cells of the output row exist — was missing for reflect.) -/
theorem C09_chunk_reflect (value : α) (T : Nat)
    (rows : List (ChunkRow α)) (hne : rows ≠ []) (h : ∀ c ∈ rows, c.Legal .reflect T) :
    ∃ out lens, chunkBySlices false .reflect value T rows = .ok (out, lens) ∧
      out.length = rows.length ∧ lens.length = rows.length ∧
      ∀ (n : Nat) (hn : n < rows.length) (ho : n < out.length) (hl : n < lens.length),
        lens[n] = chunkLen (rows[n]).start (rows[n]).stop
        ∧ (out[n]).take lens[n]
            = chunkSeq .reflect value ((rows[n]).x.take (rows[n]).len) (rows[n]).start (rows[n]).stop
        ∧ (chunkSeq .reflect value ((rows[n]).x.take (rows[n]).len) (rows[n]).start (rows[n]).stop).length
            = lens[n] := by
  refine ⟨_, _, chunkBySlices_reflect_full value T rows hne h, by simp, by simp, ?_⟩
  intro n hn ho hl
  obtain ⟨hx, hlen, _⟩ := h rows[n] (List.getElem_mem hn)
  have hv := chunkRowOutReflect_valid value T (chunkTp rows) rows[n] hx hlen
  simp only [List.getElem_map]
  exact ⟨rfl, hv, chunkSeq_length _ _ _ _ _⟩

-- reflect special case: row 0 (length 3) is sliced at [4, 5), one cell into its right padding;
-- row 1 is padded on both sides. padSeq of row 0 = [1, 2, 3, 2, 1], cell 4 = 1.
example : chunkBySlices false .reflect (0 : Int) 4 [⟨[1, 2, 3, 4], 3, 4, 5⟩, ⟨[5, 6, 7, 8], 4, -2, 6⟩]
      = .ok ([[1, 1, 0, 0, 0, 0, 0, 0], [7, 6, 5, 6, 7, 8, 7, 6]], [1, 8])
    ∧ chunkSeq .reflect (0 : Int) [1, 2, 3] 4 5 = [1]
    ∧ chunkSeq .reflect (0 : Int) [5, 6, 7, 8] (-2) 6 = [7, 6, 5, 6, 7, 8, 7, 6] := by decide

example : ∀ c ∈ [(⟨[1, 2, 3, 4], 3, 4, 5⟩ : ChunkRow Int), ⟨[5, 6, 7, 8], 4, -2, 6⟩], c.Legal .reflect 4 := by
  intro c hc
  simp at hc
  rcases hc with rfl | rfl <;>
    simp [ChunkRow.Legal, legalPad, ChunkRow.leftPad, ChunkRow.rightPad, ChunkRow.chunkLen]

/-- Non-vacuity of `C09_chunk_reflect` ON THE SPECIAL CASE: row 0 starts strictly beyond the end of its
sequence (`offset = 1 > 0`), row 1 reaches into both paddings; the batch is legal, the theorem applies,
and its reported lengths are `[1, 8]`. -/
theorem C09_chunk_reflect_nonvacuous :
    (∀ c ∈ [(⟨[1, 2, 3, 4], 3, 4, 5⟩ : ChunkRow Int), ⟨[5, 6, 7, 8], 4, -2, 6⟩], c.Legal .reflect 4)
    ∧ (⟨[1, 2, 3, 4], 3, 4, 5⟩ : ChunkRow Int).offset = 1
    ∧ ∃ out lens, chunkBySlices false .reflect (0 : Int) 4 [⟨[1, 2, 3, 4], 3, 4, 5⟩, ⟨[5, 6, 7, 8], 4, -2, 6⟩]
        = .ok (out, lens) ∧ lens = [1, 8]
        ∧ out.map (fun r => r.take 1) = [chunkSeq .reflect (0 : Int) [1, 2, 3] 4 5, [7]] := by
  have hleg : ∀ c ∈ [(⟨[1, 2, 3, 4], 3, 4, 5⟩ : ChunkRow Int), ⟨[5, 6, 7, 8], 4, -2, 6⟩],
      c.Legal .reflect 4 := by
    intro c hc
    simp at hc
    rcases hc with rfl | rfl <;>
      simp [ChunkRow.Legal, legalPad, ChunkRow.leftPad, ChunkRow.rightPad, ChunkRow.chunkLen]
  refine ⟨hleg, by decide, ?_⟩
  obtain ⟨out, lens, h, _⟩ := C09_chunk_reflect (0 : Int) 4 _ (by simp) hleg
  refine ⟨out, lens, h, ?_⟩
  have hc : chunkBySlices false .reflect (0 : Int) 4 [⟨[1, 2, 3, 4], 3, 4, 5⟩, ⟨[5, 6, 7, 8], 4, -2, 6⟩]
      = .ok ([[1, 1, 0, 0, 0, 0, 0, 0], [7, 6, 5, 6, 7, 8, 7, 6]], [1, 8]) := by decide
  rw [hc] at h
  injection h with h
  injection h with h1 h2
  subst h1 h2
  decide

/-- Pinned tree, empty time dimension, constant mode: the early return reports length 0 for a
slice that asks for three pad values (`fixes/C09-chunk-empty-time.diff`). -/
theorem C09_chunk_empty_time_counterexample :
    chunkBySlices true .constant (0 : Int) 0 [⟨[], 0, -1, 2⟩] = .ok ([[]], [0])
    ∧ chunkBySlices false .constant (0 : Int) 0 [⟨[], 0, -1, 2⟩] = .ok ([[0, 0, 0]], [3])
    ∧ chunkSeq .constant (0 : Int) [] (-1) 2 = [0, 0, 0] := by
  decide

/-- Pinned tree, replicate mode: a slice needing more padding than `T` fails although legal. -/
theorem C09_chunk_replicate_pad_gt_T_counterexample :
    chunkBySlices true .replicate (0 : Int) 2 [⟨[1, 2], 2, -3, 1⟩] = .error .runtime
    ∧ chunkBySlices false .replicate (0 : Int) 2 [⟨[1, 2], 2, -3, 1⟩] = .ok ([[1, 1, 1, 1]], [4]) := by
  decide

/-! ## the pinned tree: what does hold there -/

/-- **C09_pad_pinned_partial**: on the pinned tree `pad_variable` equals the repaired one — and
therefore satisfies `C09_pad` — as long as no pad exceeds the time dimension `T`. (For constant and
reflect mode the hypothesis is not needed: the two coincide by definition.) -/
theorem C09_pad_pinned_partial (mode : Mode) (value : α) (T : Nat) (rows : List (PadRow α))
    (hpad : ∀ p ∈ rows, p.l ≤ T ∧ p.r ≤ T) :
    padVariable true mode value T rows = padVariable false mode value T rows := by
  unfold padVariable
  rw [paddingBuffers_pinned_eq mode value T (rows.map PadRow.buf) (by
    intro b hb
    obtain ⟨p, hp, rfl⟩ := List.mem_map.1 hb
    exact hpad p hp)]

/-- **C09_chunk_pinned_partial**: likewise for `chunk_by_slices` when `T > 0` and no slice needs
more than `T` cells of padding on a side — in particular ALSO for slices starting at or beyond the
end of the sequence (the design phase suspected a second defect there; there is none). -/
theorem C09_chunk_pinned_partial (mode : Mode) (value : α) (T : Nat) (hT : T ≠ 0)
    (rows : List (ChunkRow α)) (hpad : ∀ c ∈ rows, c.leftPad ≤ T ∧ c.rightPad ≤ T) :
    chunkBySlices true mode value T rows = chunkBySlices false mode value T rows := by
  unfold chunkBySlices
  rw [paddingBuffers_pinned_eq mode value T (rows.map ChunkRow.buf) (by
    intro b hb
    obtain ⟨c, hc, rfl⟩ := List.mem_map.1 hb
    exact hpad c hc)]
  simp [hT]

example : (∀ c ∈ [(⟨[5, 6, 7, 8], 2, 3, 5⟩ : ChunkRow Int)], c.leftPad ≤ 4 ∧ c.rightPad ≤ 4)
    ∧ chunkBySlices true .replicate (0 : Int) 4 [⟨[5, 6, 7, 8], 2, 3, 5⟩] = .ok ([[6, 6, 6]], [2]) := by
  decide

/-- Non-vacuity of the two `_pinned_partial` theorems on requests that DO pad (pads up to `T`, replicate
mode, also `T = 1` where the pinned code broadcasts its mask). -/
theorem C09_pinned_partial_nonvacuous :
    padVariable true .replicate (0 : Int) 2 [⟨[1, 2], 2, 2, 0⟩, ⟨[3, 4], 1, 1, 2⟩]
      = padVariable false .replicate (0 : Int) 2 [⟨[1, 2], 2, 2, 0⟩, ⟨[3, 4], 1, 1, 2⟩]
    ∧ padVariable true .replicate (0 : Int) 1 [⟨[7], 1, 1, 0⟩, ⟨[8], 1, 1, 1⟩] = .ok [[7, 7, 0], [8, 8, 8]]
    ∧ chunkBySlices true .replicate (0 : Int) 4 [⟨[5, 6, 7, 8], 2, 3, 5⟩, ⟨[1, 2, 3, 4], 4, -4, 2⟩]
      = chunkBySlices false .replicate (0 : Int) 4 [⟨[5, 6, 7, 8], 2, 3, 5⟩, ⟨[1, 2, 3, 4], 4, -4, 2⟩] := by
  refine ⟨C09_pad_pinned_partial _ _ _ _ (by decide), ?_, C09_chunk_pinned_partial _ _ _ (by decide) _ (by decide)⟩
  rw [C09_pad_pinned_partial _ _ _ _ (by decide)]
  decide

/-! ## random_shift -/

/-- **C09_shift**, evaluation mode: the identity (and no draw is used).
DEFINITIONAL (audit): the model's evaluation branch is a transcription of the code's `else: return input,
in_lens`, and this statement is that branch unfolded (`rfl`). It is kept as documentation of what the model
does and is NOT counted as an obligation; that the layer is the identity in evaluation mode rests on the
correspondence runs (same object returned, no draw made, module / parent-module / toggled flags). -/
theorem C09_shift_eval (pinned : Bool) (mode : Mode) (value : α) (T : Nat) (p0 p1 : Rat)
    (rows : List (ShiftRow α)) :
    randomShift pinned mode value T p0 p1 false rows = .ok (rows.map (·.x), rows.map (·.len)) := rfl

/-- **C09_shift**, amounts: a whole number (it is a `Nat`, hence `≥ 0`) of added elements per side,
not exceeding `prop · len`, for any draw in `[0, 1]`. Real arithmetic: the float32 rounding of
`prop * len * u` is not modelled. -/
theorem C09_shift_amount (p : Rat) (len : Nat) (u : Rat) (hp : 0 ≤ p) (hu0 : 0 ≤ u) (hu1 : u ≤ 1) :
    ((shiftAmount p len u : Nat) : Rat) ≤ p * (len : Rat) :=
  shiftAmount_le p len u hp hu0 hu1

/-- With `prop ≤ 1` and draws `< 1` the amount is `< len`: the reflect request is always legal. -/
theorem C09_shift_amount_reflect (p : Rat) (len : Nat) (u : Rat) (hp : p ≤ 1) (hu0 : 0 ≤ u)
    (hu1 : u < 1) (hlen : 0 < len) : shiftAmount p len u < len :=
  shiftAmount_lt p len u hp hu0 hu1 hlen

-- both amount theorems on an instance where something IS added: prop = 3/4, len = 7, u = 15/16:
-- floor(315/64) = 4 ≤ 21/4 and 4 < 7
example : shiftAmount (3 / 4) 7 (15 / 16) = 4
    ∧ ((shiftAmount (3 / 4) 7 (15 / 16) : Nat) : Rat) ≤ (3 / 4 : Rat) * ((7 : Nat) : Rat)
    ∧ shiftAmount (3 / 4) 7 (15 / 16) < 7 :=
  ⟨by decide +kernel,
   C09_shift_amount (3 / 4) 7 (15 / 16) (by decide +kernel) (by decide +kernel) (by decide +kernel),
   C09_shift_amount_reflect (3 / 4) 7 (15 / 16) (by decide +kernel) (by decide +kernel) (by decide +kernel)
     (by decide)⟩

/-- **C09_shift**, training mode: each output row is `l` padding elements, the original sequence
unchanged, `r` padding elements (then filler), with `l, r` the amounts above, and the reported
lengths are `len + l + r`. -/
theorem C09_shift_train (mode : Mode) (value : α) (T : Nat) (p0 p1 : Rat) (rows : List (ShiftRow α))
    (hne : rows ≠ []) (h : ∀ s ∈ rows, (s.toPad p0 p1).Legal mode T) :
    ∃ out, randomShift false mode value T p0 p1 true rows
        = .ok (out, rows.map (fun s => s.len + (shiftAmount p0 s.len s.u0 + shiftAmount p1 s.len s.u1)))
      ∧ out = rows.map (fun s =>
          padSeq mode value (shiftAmount p0 s.len s.u0) (shiftAmount p1 s.len s.u1) (s.x.take s.len)
            ++ List.replicate (maxOf ((rows.map (ShiftRow.toPad p0 p1)).map PadRow.newLen)
                - (s.toPad p0 p1).newLen) value) := by
  exact ⟨_, randomShiftWith_train shiftAmount mode value T p0 p1 rows hne h, rfl⟩

/-- the original sequence sits unchanged between the two paddings -/
theorem C09_shift_embeds (mode : Mode) (value : α) (l r : Nat) (xs : List α) :
    ((padSeq mode value l r xs).drop l).take xs.length = xs
    ∧ (padSeq mode value l r xs).length = l + xs.length + r :=
  padSeq_embeds mode value l r xs

/-- **C09_shift_train_embeds**: the random-shift clause in the property's wording, on the MODEL's output
(not on the spec alone): in training mode, on a legal request, row `n` of the output holds, up to the
reported length `len + l + r`, exactly the per-sequence padding of `x[n, :len]` by the two amounts, and the
original sequence sits unchanged at offset `l` (`C09_shift_train` composed with `C09_shift_embeds`). -/
theorem C09_shift_train_embeds (mode : Mode) (value : α) (T : Nat) (p0 p1 : Rat) (rows : List (ShiftRow α))
    (hne : rows ≠ []) (h : ∀ s ∈ rows, (s.toPad p0 p1).Legal mode T) :
    ∃ out lens, randomShift false mode value T p0 p1 true rows = .ok (out, lens) ∧
      out.length = rows.length ∧ lens.length = rows.length ∧
      ∀ (n : Nat) (hn : n < rows.length) (ho : n < out.length) (hl : n < lens.length),
        lens[n] = (rows[n]).len
            + (shiftAmount p0 (rows[n]).len (rows[n]).u0 + shiftAmount p1 (rows[n]).len (rows[n]).u1)
        ∧ (out[n]).take lens[n]
            = padSeq mode value (shiftAmount p0 (rows[n]).len (rows[n]).u0)
                (shiftAmount p1 (rows[n]).len (rows[n]).u1) ((rows[n]).x.take (rows[n]).len)
        ∧ ((out[n]).drop (shiftAmount p0 (rows[n]).len (rows[n]).u0)).take (rows[n]).len
            = (rows[n]).x.take (rows[n]).len :=
  randomShiftWith_rows shiftAmount mode value T p0 p1 rows hne h

-- prop = (1/2, 1), len = 4, draws (3/4, 1/2): floor(1.5) = 1 left, floor(2) = 2 right
example : randomShift false .replicate (0 : Int) 4 (1/2) 1 true [⟨[1, 2, 3, 4], 4, 3/4, 1/2⟩]
    = .ok ([[1, 1, 2, 3, 4, 4, 4]], [7]) := by decide +kernel

example : ∀ s ∈ [(⟨[1, 2, 3, 4], 4, 3/4, 1/2⟩ : ShiftRow Int)], (s.toPad (1/2) 1).Legal .replicate 4 := by
  intro s hs
  simp at hs
  subst hs
  simp [PadRow.Legal, ShiftRow.toPad, ShiftRow.toPadWith, legalPad]

/-- Non-vacuity of `C09_shift_train` / `C09_shift_train_embeds`: a two-row replicate batch with different
lengths, proportions and draws that add elements on both sides is legal and both theorems apply. -/
theorem C09_shift_train_nonvacuous :
    (∀ s ∈ [(⟨[1, 2, 3, 4], 4, 3/4, 1/2⟩ : ShiftRow Int), ⟨[5, 6, 7, 8], 2, 1/2, 15/16⟩],
      (s.toPad (1/2) 1).Legal .replicate 4)
    ∧ randomShift false .replicate (0 : Int) 4 (1/2) 1 true
        [⟨[1, 2, 3, 4], 4, 3/4, 1/2⟩, ⟨[5, 6, 7, 8], 2, 1/2, 15/16⟩]
        = .ok ([[1, 1, 2, 3, 4, 4, 4], [5, 6, 6, 0, 0, 0, 0]], [7, 3])
    ∧ ∃ out lens, randomShift false .replicate (0 : Int) 4 (1/2) 1 true
        [⟨[1, 2, 3, 4], 4, 3/4, 1/2⟩, ⟨[5, 6, 7, 8], 2, 1/2, 15/16⟩] = .ok (out, lens)
        ∧ out.length = 2 ∧ lens.length = 2 := by
  have hleg : ∀ s ∈ [(⟨[1, 2, 3, 4], 4, 3/4, 1/2⟩ : ShiftRow Int), ⟨[5, 6, 7, 8], 2, 1/2, 15/16⟩],
      (s.toPad (1/2) 1).Legal .replicate 4 := by
    intro s hs
    simp at hs
    rcases hs with rfl | rfl <;> simp [PadRow.Legal, ShiftRow.toPad, ShiftRow.toPadWith, legalPad]
  refine ⟨hleg, by decide +kernel, ?_⟩
  obtain ⟨out, lens, h, h1, h2, _⟩ := C09_shift_train_embeds .replicate (0 : Int) 4 (1/2) 1 _ (by simp) hleg
  exact ⟨out, lens, h, h1, h2⟩

/-! ### random_shift under floating-point rounding -/

/-- **C09_shift_amount_rounded**: the code computes `trunc (rnd (rnd (prop * len) * u))`. For ANY rounding
`rnd` that is monotone, idempotent, exact on the natural numbers up to `B` and, in the normal range
`rnd z ≥ 1`, never rounds `rnd z * u` (`u < 1` representable) back up to `rnd z` (`Rounding B rnd`; IEEE
round-to-nearest with `p` significant bits has the four for `B = 2^p`), `prop` a number of the working
precision and `prop * len ≤ B`, the added amount is `≤ prop * len` — and `< prop * len`, the documented
EXCLUSIVE bound, as soon as `prop * len > 0`. This is the repaired code (double precision, `prop` is a
double, `B = 2^53`). The code before `fixes/C09-random-shift-float32-bound.diff` multiplied `rnd32 prop`
instead of `prop`, which is why it could exceed `prop * len` (next theorem). `Rounding B rnd` is a
hypothesis of THIS theorem; `C09_rounding_float` proves it of the binary floating-point model `roundBits p`
(`B = 2^p`), and `C09_shift_amount_float64` is the instance for the repaired double-precision code.

Audit: the first version of this theorem assumed exactness on ALL naturals and the no-round-up clause for
ALL positive `rnd z`; no floating-point format satisfies the former (nor IEEE subnormals the latter), so
the theorem was only applicable to exact arithmetic. It is now stated with the bounded hypotheses and the
side condition `prop * len ≤ B`, and its strict clause was strengthened from `0 < rnd (prop * len)` to
`0 < prop * len`. -/
theorem C09_shift_amount_rounded (B : Nat) (rnd : Rat → Rat) (h : Rounding B rnd) (p : Rat) (len : Nat)
    (u : Rat) (hp : 0 ≤ p) (hB : p * (len : Rat) ≤ (B : Rat)) (hu0 : 0 ≤ u) (hu1 : u < 1) (hu : rnd u = u) :
    ((shiftAmountR rnd p len u : Nat) : Rat) ≤ p * (len : Rat)
      ∧ (0 < p * (len : Rat) → ((shiftAmountR rnd p len u : Nat) : Rat) < p * (len : Rat)) :=
  shiftAmountR_le B rnd h p len u hp hB hu0 hu1 hu

/-- **C09_shift_float32_counterexample**: the code before `fixes/C09-random-shift-float32-bound.diff`, as the
float32 model `shiftAmountF32` (round-to-nearest-even to 24 bits, `prop` rounded first). `prop = 1/7` is
the double `0.14285714285714285` (just below 1/7), `len = 21`, the draw is the largest float32 below 1:
three elements are added although `prop * len < 3`. The double-precision model of the repaired code
adds two, like exact arithmetic. The witness was replayed on the library (`corpus/C09/14`). -/
theorem C09_shift_float32_counterexample :
    shiftAmountF32 (2573485501354569 / 18014398509481984) 21 (16777215 / 16777216) = 3
    ∧ (2573485501354569 / 18014398509481984 : Rat) * 21 < 3
    ∧ shiftAmountF64 (2573485501354569 / 18014398509481984) 21 (16777215 / 16777216) = 2
    ∧ shiftAmount (2573485501354569 / 18014398509481984) 21 (16777215 / 16777216) = 2 := by
  decide +kernel

-- the hypothesis is satisfiable: exact arithmetic is a rounding (for every bound), and then shiftAmountR
-- is shiftAmount
example : Rounding (2 ^ 53) (fun q : Rat => q) := rounding_id _
example (p : Rat) (len : Nat) (u : Rat) : shiftAmountR (fun q => q) p len u = shiftAmount p len u := rfl

/-- Non-vacuity of `C09_shift_amount_rounded` BEYOND exact arithmetic: fixed-point round-to-nearest with 4
fractional bits (`roundFix 4`, sixteenths; `rounding_roundFix`) is a `Rounding`, it really rounds
(`7/3 ↦ 37/16`), the draw `15/16` is representable, and the theorem gives the exclusive bound for the
amount this lossy arithmetic computes (2, below `prop * len = 7/3`). -/
theorem C09_shift_amount_rounded_lossy_nonvacuous :
    roundFix 4 (7 / 3) = 37 / 16
    ∧ shiftAmountR (roundFix 4) (1 / 3) 7 (15 / 16) = 2
    ∧ (((shiftAmountR (roundFix 4) (1 / 3) 7 (15 / 16) : Nat) : Rat) < (1 / 3 : Rat) * ((7 : Nat) : Rat)) :=
  ⟨by decide +kernel, by decide +kernel,
   (C09_shift_amount_rounded (2 ^ 53) (roundFix 4) (rounding_roundFix 4 _) (1 / 3) 7 (15 / 16)
      (by decide +kernel) (by decide +kernel) (by decide +kernel) (by decide +kernel) (by decide +kernel)).2
      (by decide +kernel)⟩

/-- Non-vacuity of `C09_shift_amount_rounded`: every hypothesis holds for exact arithmetic with the double
bound `B = 2^53`, `prop = 1/2`, `len = 5`, the largest float32 draw below 1; the amount is 2 and
`2 < 5/2` is the exclusive bound. -/
theorem C09_shift_amount_rounded_nonvacuous :
    shiftAmountR (fun q => q) (1 / 2) 5 (16777215 / 16777216) = 2
    ∧ (((shiftAmountR (fun q => q) (1 / 2) 5 (16777215 / 16777216) : Nat) : Rat) < (1 / 2 : Rat) * ((5 : Nat) : Rat)) :=
  ⟨by decide +kernel,
   (C09_shift_amount_rounded (2 ^ 53) (fun q => q) (rounding_id _) (1 / 2) 5 (16777215 / 16777216)
      (by decide +kernel) (by decide +kernel) (by decide +kernel) (by decide +kernel) rfl).2
      (by decide +kernel)⟩

/-- **C09_rounding_float**: the hypothesis of `C09_shift_amount_rounded` is a THEOREM for binary floating
point. `roundBits p` — round to nearest, ties to even, `p ≥ 1` significant bits, unbounded exponent; the
executable model the driver evaluates and every run cross-checks against numpy float32 (`p = 24`) and Python
doubles (`p = 53`) — is monotone, idempotent, exact on the naturals up to `2^p`, and a product of a rounded
`a ≥ 1` with a representable `u < 1` never rounds back up to `a` (`a (1 - u) ≥ a 2^-p ≥ ulp(a)/2`, with
equality only for `a` a power of two, where the spacing below `a` halves and the product is itself
representable). Proof: `Lemmas/PadChunkFloat.lean` (binade of a rational from `Nat.log2`, `rne`). -/
theorem C09_rounding_float (p : Nat) (hp : 1 ≤ p) : Rounding (2 ^ p) (roundBits p) :=
  rounding_roundBits p hp

-- `roundBits` is not the identity, and the bound `B = 2^p` of `nat_exact` is tight: 1/3 is not a double,
-- 2^24 is a float32 but 2^24 + 1 is not (it rounds to the even neighbour 2^24)
example : roundBits 53 (1 / 3) ≠ 1 / 3 ∧ roundBits 24 16777216 = 16777216 ∧ roundBits 24 16777217 = 16777216 := by
  decide +kernel

/-- **C09_shift_amount_float64**: the bound for the double-precision model of the REPAIRED code with no
hypothesis about rounding left. `prop ≥ 0` the configured proportion, `prop * len ≤ 2^53`, the draw `u` a
float32 in `[0, 1)` (the code keeps the draws in float32: `roundBits 24 u = u`). Then the number of added
elements `trunc (fl64 (fl64 (prop * len) * u))` is `≤ prop * len`, and `< prop * len` — the documented
exclusive bound — whenever `prop * len > 0`. (`C09_shift_float32_counterexample` shows the float32 code had
no such bound.) -/
theorem C09_shift_amount_float64 (prop : Rat) (len : Nat) (u : Rat) (hp : 0 ≤ prop)
    (hB : prop * (len : Rat) ≤ ((2 ^ 53 : Nat) : Rat)) (hu0 : 0 ≤ u) (hu1 : u < 1)
    (hu : roundBits 24 u = u) :
    ((shiftAmountF64 prop len u : Nat) : Rat) ≤ prop * (len : Rat)
      ∧ (0 < prop * (len : Rat) → ((shiftAmountF64 prop len u : Nat) : Rat) < prop * (len : Rat)) :=
  shiftAmountF64_bound prop len u hp hB hu0 hu1 hu

/-- Non-vacuity of `C09_shift_amount_float64` on the witness of the float32 defect: `prop` the double just
below `1/7`, `len = 21`, the largest float32 draw below 1 — every hypothesis holds, double arithmetic adds
2 elements and `2 < prop * len` (float32 arithmetic added 3). -/
theorem C09_shift_amount_float64_nonvacuous :
    roundBits 24 (16777215 / 16777216) = 16777215 / 16777216
    ∧ shiftAmountF64 (2573485501354569 / 18014398509481984) 21 (16777215 / 16777216) = 2
    ∧ ((shiftAmountF64 (2573485501354569 / 18014398509481984) 21 (16777215 / 16777216) : Nat) : Rat)
        < (2573485501354569 / 18014398509481984 : Rat) * ((21 : Nat) : Rat) :=
  ⟨by decide +kernel, by decide +kernel,
   (C09_shift_amount_float64 (2573485501354569 / 18014398509481984) 21 (16777215 / 16777216)
      (by decide +kernel) (by decide +kernel) (by decide +kernel) (by decide +kernel) (by decide +kernel)).2
      (by decide +kernel)⟩

/-- **C09_shift_float64** (audit round E) — the random-shift clause END TO END for the arithmetic the repaired
code really uses. `randomShiftF64` is `random_shift` with the amounts computed in double precision
(`trunc (fl64 (fl64 (prop * len) * u))`, `u` the float32 draw); it differs from the exact-arithmetic model
`randomShift` whenever a product lands within an ulp of an integer (`prop = 2/3` as a double, `len = 3`,
`u = 1/2`: double arithmetic adds 1 element, exact arithmetic 0 — the example below), and it is what the
library returns there. For a non-empty batch of rows that are `Ok64` (rectangular, `len ≤ T`,
`prop * len ≤ 2^53`, draws float32 numbers in `[0, 1)`; replicate: `len ≥ 1`; reflect: `len ≥ 1` and
`prop ≤ 1`, as `RandomShift.__init__` demands — NOTHING is assumed about the amounts or about the legality
of the `pad_variable` request, both are derived) and `prop ≥ 0`:
the call succeeds, and for every row there are whole numbers `l, r` with `l ≤ p0 * len`, `r ≤ p1 * len`
(strictly below — the documented EXCLUSIVE bound — when the product is positive), the reported length is
`len + l + r`, the valid part of the output row is the per-sequence padding by `(l, r)`, and the original
sequence sits unchanged at offset `l`. -/
theorem C09_shift_float64 (mode : Mode) (value : α) (T : Nat) (p0 p1 : Rat) (hp0 : 0 ≤ p0) (hp1 : 0 ≤ p1)
    (rows : List (ShiftRow α)) (hne : rows ≠ []) (h : ∀ s ∈ rows, s.Ok64 mode T p0 p1) :
    ∃ out lens, randomShiftF64 false mode value T p0 p1 true rows = .ok (out, lens) ∧
      out.length = rows.length ∧ lens.length = rows.length ∧
      ∀ (n : Nat) (hn : n < rows.length) (ho : n < out.length) (hl : n < lens.length),
        ∃ l r : Nat,
          ((l : Rat) ≤ p0 * ((rows[n]).len : Rat)
            ∧ (0 < p0 * ((rows[n]).len : Rat) → (l : Rat) < p0 * ((rows[n]).len : Rat)))
          ∧ ((r : Rat) ≤ p1 * ((rows[n]).len : Rat)
            ∧ (0 < p1 * ((rows[n]).len : Rat) → (r : Rat) < p1 * ((rows[n]).len : Rat)))
          ∧ lens[n] = (rows[n]).len + (l + r)
          ∧ (out[n]).take lens[n] = padSeq mode value l r ((rows[n]).x.take (rows[n]).len)
          ∧ ((out[n]).drop l).take (rows[n]).len = (rows[n]).x.take (rows[n]).len := by
  obtain ⟨out, lens, hrun, h1, h2, hrows⟩ :=
    randomShiftWith_rows shiftAmountF64 mode value T p0 p1 rows hne (fun s hs => (h s hs).legal hp0 hp1)
  refine ⟨out, lens, hrun, h1, h2, ?_⟩
  intro n hn ho hl
  obtain ⟨_, _, hB0, hB1, ⟨a0, a1, a2⟩, ⟨b0, b1, b2⟩, _, _⟩ := h rows[n] (List.getElem_mem hn)
  obtain ⟨e1, e2, e3⟩ := hrows n hn ho hl
  exact ⟨_, _, shiftAmountF64_bound p0 _ _ hp0 hB0 a0 a1 a2, shiftAmountF64_bound p1 _ _ hp1 hB1 b0 b1 b2,
    e1, e2, e3⟩

-- the two arithmetics DIFFER: prop = the double nearest 2/3 (just below it), len = 3, u = 1/2.
-- fl64 (prop * 3) = 2 exactly, times 1/2 = 1: one element; exactly, prop * 3 / 2 < 1: none.
example : shiftAmountF64 (6004799503160661 / 9007199254740992) 3 (1 / 2) = 1
    ∧ shiftAmount (6004799503160661 / 9007199254740992) 3 (1 / 2) = 0
    ∧ (6004799503160661 / 9007199254740992 : Rat) * 3 < 2 := by decide +kernel

/-- Non-vacuity of `C09_shift_float64` ON A ROUNDING TIE, reflect mode, pads on both sides: `p0` the double
nearest `2/3`, `p1 = 1/2`, rows of lengths 3 and 2 in a `T = 3` batch. Every row is `Ok64` (all hypotheses
together), the theorem applies, and the output it speaks about is `[[2, 1, 2, 3, 2], [5, 4, 5, 0, 0]]`
with lengths `[5, 3]`: row 0 gets ONE element on the left (exact arithmetic would give none) and one on
the right, row 1 one on the left. -/
theorem C09_shift_float64_nonvacuous :
    (∀ s ∈ [(⟨[1, 2, 3], 3, 1/2, 3/4⟩ : ShiftRow Int), ⟨[4, 5, 6], 2, 15/16, 1/2⟩],
      s.Ok64 .reflect 3 (6004799503160661 / 9007199254740992) (1/2))
    ∧ randomShiftF64 false .reflect (0 : Int) 3 (6004799503160661 / 9007199254740992) (1/2) true
        [⟨[1, 2, 3], 3, 1/2, 3/4⟩, ⟨[4, 5, 6], 2, 15/16, 1/2⟩]
        = .ok ([[2, 1, 2, 3, 2], [5, 4, 5, 0, 0]], [5, 3])
    ∧ randomShift false .reflect (0 : Int) 3 (6004799503160661 / 9007199254740992) (1/2) true
        [⟨[1, 2, 3], 3, 1/2, 3/4⟩, ⟨[4, 5, 6], 2, 15/16, 1/2⟩]
        = .ok ([[1, 2, 3, 2], [5, 4, 5, 0]], [4, 3])
    ∧ ∃ out lens, randomShiftF64 false .reflect (0 : Int) 3 (6004799503160661 / 9007199254740992) (1/2) true
        [⟨[1, 2, 3], 3, 1/2, 3/4⟩, ⟨[4, 5, 6], 2, 15/16, 1/2⟩] = .ok (out, lens)
        ∧ out.length = 2 ∧ lens.length = 2 := by
  have hok : ∀ s ∈ [(⟨[1, 2, 3], 3, 1/2, 3/4⟩ : ShiftRow Int), ⟨[4, 5, 6], 2, 15/16, 1/2⟩],
      s.Ok64 .reflect 3 (6004799503160661 / 9007199254740992) (1/2) := by
    intro s hs
    simp only [List.mem_cons, List.not_mem_nil, or_false] at hs
    rcases hs with rfl | rfl
    · exact ⟨rfl, by decide, by decide +kernel, by decide +kernel,
        ⟨by decide +kernel, by decide +kernel, by decide +kernel⟩,
        ⟨by decide +kernel, by decide +kernel, by decide +kernel⟩,
        (fun h => by cases h), fun _ => ⟨by decide, by decide +kernel, by decide +kernel⟩⟩
    · exact ⟨rfl, by decide, by decide +kernel, by decide +kernel,
        ⟨by decide +kernel, by decide +kernel, by decide +kernel⟩,
        ⟨by decide +kernel, by decide +kernel, by decide +kernel⟩,
        (fun h => by cases h), fun _ => ⟨by decide, by decide +kernel, by decide +kernel⟩⟩
  refine ⟨hok, by decide +kernel, by decide +kernel, ?_⟩
  obtain ⟨out, lens, h, h1, h2, _⟩ := C09_shift_float64 .reflect (0 : Int) 3
    (6004799503160661 / 9007199254740992) (1/2) (by decide +kernel) (by decide +kernel) _ (by simp) hok
  exact ⟨out, lens, h, h1, h2⟩

/-! ## shapes: every entry point accepts exactly the documented shapes -/

/-- **C09_shapes_pad**: `pad_variable` accepts `x : (N, T, *)`, `lens : (N,)`, `pad : (2, N)` and nothing else;
every refusal is a ValueError. -/
theorem C09_shapes_pad (x lens pad : Shape) :
    (padVariableShapes x lens pad = .ok () ↔ ∃ N T rest, x = N :: T :: rest ∧ lens = [N] ∧ pad = [2, N])
    ∧ (∀ e, padVariableShapes x lens pad = .error e → e = .value) := by
  unfold padVariableShapes
  constructor
  · constructor
    · intro h
      split at h
      · rename_i N T rest
        split at h
        · simp at h
        · split at h
          · simp at h
          · exact ⟨N, _, _, rfl, by simp_all, by simp_all⟩
      · simp at h
    · rintro ⟨N, T, rest, rfl, rfl, rfl⟩
      simp
  · intro e h
    repeat' split at h
    all_goals simp_all

/-- **C09_shapes_chunk**: `chunk_by_slices` accepts `x : (N, T, *)` with `lens` absent or of shape `(N,)`
(and anything for `lens` where it returns early: empty batch, or empty time dimension in a non-constant
mode); every refusal is a RuntimeError. -/
theorem C09_shapes_chunk (mode : Mode) (x : Shape) (lens : Option Shape) :
    (chunkBySlicesShapes mode x lens = .ok () ↔
      ∃ N T rest, x = N :: T :: rest ∧
        (N = 0 ∨ (T = 0 ∧ mode ≠ .constant) ∨ lens = none ∨ lens = some [N]))
    ∧ (∀ e, chunkBySlicesShapes mode x lens = .error e → e = .runtime) := by
  unfold chunkBySlicesShapes
  constructor
  · constructor
    · intro h
      split at h
      · rename_i N T rest
        refine ⟨N, T, rest, rfl, ?_⟩
        split at h
        · rename_i h'
          rcases h' with h' | h'
          · exact Or.inl h'
          · exact Or.inr (Or.inl h')
        · split at h
          · exact Or.inr (Or.inr (Or.inl rfl))
          · split at h
            · simp at h
            · rename_i l hl
              exact Or.inr (Or.inr (Or.inr (by simp_all)))
      · simp at h
    · rintro ⟨N, T, rest, rfl, h⟩
      simp only []
      split
      · rfl
      · rename_i h'
        rcases h with h | h | h | h
        · exact absurd (Or.inl h) h'
        · exact absurd (Or.inr h) h'
        · subst h; rfl
        · subst h; simp
  · intro e h
    repeat' split at h
    all_goals simp_all

/-- **C09_shapes_masked**: `pad_masked_sequence` accepts `x` with at least two dimensions `(d0, d1, *)` and
a two-dimensional mask each of whose sizes equals the corresponding one of `x` or is 1; every refusal
is a RuntimeError. -/
theorem C09_shapes_masked (x mask : Shape) :
    (padMaskedShapes x mask = .ok () ↔
      ∃ d0 d1 rest m0 m1, x = d0 :: d1 :: rest ∧ mask = [m0, m1] ∧ (m0 = d0 ∨ m0 = 1) ∧ (m1 = d1 ∨ m1 = 1))
    ∧ (∀ e, padMaskedShapes x mask = .error e → e = .runtime) := by
  unfold padMaskedShapes
  constructor
  · constructor
    · intro h
      split at h
      · rename_i d0 d1 rest m0 m1
        split at h
        · rename_i h'
          exact ⟨d0, d1, rest, m0, m1, rfl, rfl, h'.1, h'.2⟩
        · simp at h
      · simp at h
    · rintro ⟨d0, d1, rest, m0, m1, rfl, rfl, h0, h1⟩
      simp [h0, h1]
  · intro e h
    repeat' split at h
    all_goals simp_all

/-- **C09_shapes_shift**: `random_shift` accepts `input : (N, T, *)` with `in_lens : (N,)` and nothing else,
in training and evaluation mode alike; every refusal is a RuntimeError. -/
theorem C09_shapes_shift (x lens : Shape) :
    (randomShiftShapes x lens = .ok () ↔ ∃ N T rest, x = N :: T :: rest ∧ lens = [N])
    ∧ (∀ e, randomShiftShapes x lens = .error e → e = .runtime) := by
  unfold randomShiftShapes
  constructor
  · constructor
    · intro h
      split at h
      · rename_i N T rest
        split at h
        · simp at h
        · exact ⟨N, T, rest, rfl, by simp_all⟩
      · simp at h
    · rintro ⟨N, T, rest, rfl, rfl⟩
      simp
  · intro e h
    repeat' split at h
    all_goals simp_all

example : padVariableShapes [2, 5, 3] [2] [2, 2] = .ok () ∧ padVariableShapes [2, 5, 3] [2, 1] [2, 2] = .error .value
    ∧ chunkBySlicesShapes .reflect [2, 5] (some [3]) = .error .runtime
    ∧ padMaskedShapes [4, 3, 2] [1, 3] = .ok () ∧ padMaskedShapes [4, 3, 2] [2, 3] = .error .runtime
    ∧ randomShiftShapes [3] [3] = .error .runtime := by decide

/-- **C09_pad_tensor**: `pad_variable` on whole tensors — parallel `x`, `lens`, `pad[0]`, `pad[1]` of the
documented shapes, legal for the mode — in the property's wording, indexed by the batch index `n`. -/
theorem C09_pad_tensor (mode : Mode) (value : α) (T : Nat) (x : List (List α)) (lens pad0 pad1 : List Nat)
    (hne : x ≠ []) (hl : lens.length = x.length) (h0 : pad0.length = x.length) (h1 : pad1.length = x.length)
    (hleg : ∀ (n : Nat) (hn : n < x.length), (x[n]).length = T ∧ lens[n] ≤ T
      ∧ legalPad mode lens[n] pad0[n] pad1[n] = true) :
    ∃ out, padVariableT false mode value T x lens pad0 pad1 = .ok out ∧ out.length = x.length ∧
      ∀ (n : Nat) (hn : n < x.length) (ho : n < out.length),
        (out[n]).take (lens[n] + (pad0[n] + pad1[n]))
          = padSeq mode value pad0[n] pad1[n] ((x[n]).take lens[n]) := by
  rw [padVariableT_ok false mode value T x lens pad0 pad1 hl h0 h1]
  have hlen := zipRows_length x lens pad0 pad1 hl h0 h1
  generalize hR : List.zipWith (fun (xl : List α × Nat) (p : Nat × Nat) => (⟨xl.1, xl.2, p.1, p.2⟩ : PadRow α))
      (x.zip lens) (pad0.zip pad1) = rows at hlen
  have hget : ∀ (n : Nat) (hn : n < rows.length) (hx : n < x.length) (hl' : n < lens.length)
      (h0' : n < pad0.length) (h1' : n < pad1.length), rows[n] = ⟨x[n], lens[n], pad0[n], pad1[n]⟩ := by
    intro n hn hx hl' h0' h1'
    subst hR
    exact zipRows_getElem x lens pad0 pad1 n hn hx hl' h0' h1'
  have hrne : rows ≠ [] := by
    intro hnil
    rw [hnil] at hlen
    exact hne (List.length_eq_zero_iff.1 hlen.symm)
  have hrleg : ∀ p ∈ rows, p.Legal mode T := by
    intro p hp
    obtain ⟨n, hn, rfl⟩ := List.getElem_of_mem hp
    have hn' : n < x.length := hlen ▸ hn
    rw [hget n hn hn' (by omega) (by omega) (by omega)]
    exact hleg n hn'
  obtain ⟨out, hout, holen, hrows⟩ := C09_pad_rows mode value T rows hrne hrleg
  refine ⟨out, hout, by omega, ?_⟩
  intro n hn ho
  have hn' : n < rows.length := by omega
  have := (hrows n hn' ho).1
  rw [hget n hn' hn (by omega) (by omega) (by omega)] at this
  exact this

/-- **C09_pad_tensor_refuses**: any other combination of shapes is a ValueError.
DEFINITIONAL (audit round E): the hypothesis is the negation of the two guards of `padVariableT` and the proof
unfolds them (`unfold; split; rfl`). Kept as documentation of the model, NOT counted as an obligation; that
the library refuses exactly the undocumented shapes with ValueError is `C09_shapes_pad` (shape model) plus
the shape stream of the harness. -/
theorem C09_pad_tensor_refuses (pinned : Bool) (mode : Mode) (value : α) (T : Nat) (x : List (List α))
    (lens pad0 pad1 : List Nat) (padOuter : Nat)
    (h : ¬ (lens.length = x.length ∧ padOuter = 2 ∧ pad0.length = x.length ∧ pad1.length = x.length)) :
    padVariableT pinned mode value T x lens pad0 pad1 padOuter = .error .value :=
  padVariableT_value pinned mode value T x lens pad0 pad1 padOuter h

/-- Non-vacuity of `C09_pad_tensor` (parallel tensors of the documented shapes, replicate pads beyond `T`)
and of `C09_pad_tensor_refuses` (a `lens` with one entry too many; a `pad` with three rows). -/
theorem C09_pad_tensor_nonvacuous :
    (∃ out, padVariableT false .replicate (0 : Int) 2 [[1, 2], [3, 4]] [2, 1] [3, 0] [0, 4] = .ok out
      ∧ out.length = 2)
    ∧ padVariableT false .replicate (0 : Int) 2 [[1, 2], [3, 4]] [2, 1] [3, 0] [0, 4]
        = .ok [[1, 1, 1, 1, 2], [3, 3, 3, 3, 3]]
    ∧ padVariableT false .replicate (0 : Int) 2 [[1, 2], [3, 4]] [2, 1, 1] [3, 0] [0, 4] = .error .value
    ∧ padVariableT false .replicate (0 : Int) 2 [[1, 2], [3, 4]] [2, 1] [3, 0] [0, 4] 3 = .error .value := by
  refine ⟨?_, by decide, C09_pad_tensor_refuses _ _ _ _ _ _ _ _ _ (by decide),
    C09_pad_tensor_refuses _ _ _ _ _ _ _ _ _ (by decide)⟩
  obtain ⟨out, h, hl, _⟩ := C09_pad_tensor .replicate (0 : Int) 2 [[1, 2], [3, 4]] [2, 1] [3, 0] [0, 4]
    (by simp) rfl rfl rfl (by decide)
  exact ⟨out, h, hl⟩

/-- **C09_chunk_tensor**: `chunk_by_slices` on whole tensors with `lens` absent (every sequence has length
`T`) or of shape `(N,)` is the row-level function of `C09_chunk` / `C09_chunk_reflect` on the zipped
rows; a `lens` of any other shape is a RuntimeError.
DEFINITIONAL (audit round E): both conjuncts are `chunkBySlicesT` unfolded past its guards (`unfold; simp`);
NOT counted as an obligation any more, kept because `C09_chunk_tensor_rows` is proved through it.
BRIDGE (audit): the second conjunct is the definition of the tensor-level model unfolded past its guards;
the statement about the per-sequence spec is `C09_chunk_tensor_rows` below. It holds for `slices` of any
length only because the MODEL zips (truncates); the code does not check the shape of `slices` either, but
there it broadcasts a `(1, 2)` tensor and raises on other mismatches — outside the documented `(N, 2)` the
model does not follow the code, and `C09_chunk_tensor_rows` is stated under `slices.length = N`. -/
theorem C09_chunk_tensor (mode : Mode) (value : α) (T : Nat) (x : List (List α))
    (slices : List (Int × Int)) (lens : Option (List Nat)) (hne : x ≠ [])
    (hT : T ≠ 0 ∨ mode = .constant) :
    (∀ l, lens = some l → l.length ≠ x.length →
      chunkBySlicesT false mode value T x slices lens = .error .runtime)
    ∧ ((∀ l, lens = some l → l.length = x.length) →
      chunkBySlicesT false mode value T x slices lens
        = chunkBySlices false mode value T
            (List.zipWith (fun (xl : List α × Nat) (s : Int × Int) => ⟨xl.1, xl.2, s.1, s.2⟩)
              (x.zip (lens.getD (x.map (fun _ => T)))) slices)) := by
  have hT' : ¬ (T = 0 ∧ (false = true ∨ mode ≠ .constant)) := by
    rintro ⟨h0, h | h⟩
    · cases h
    · rcases hT with hT | hT
      · exact hT h0
      · exact h hT
  constructor
  · intro l hl hlen
    subst hl
    exact chunkBySlicesT_lens_shape false mode value T x slices l hne hT' hlen
  · intro hl
    exact chunkBySlicesT_ok false mode value T x slices lens hne hT' hl

/-- **C09_chunk_tensor_rows**: `chunk_by_slices` on whole tensors in the property's wording, indexed by the
batch index `n`: parallel `x : (N, T, ·)`, `slices : (N, 2)`, `lens` absent (then every length is `T`) or of
shape `(N,)`, every row legal for the mode (ANY mode, reflect and its special case included). The call
succeeds, reports exactly `max (end - start) 0`, row `n` up to that length is "sequence `n` alone, padded,
then sliced", and that many cells exist. (`C09_chunk_tensor` composed with `C09_chunk` / `C09_chunk_reflect`.) -/
theorem C09_chunk_tensor_rows (mode : Mode) (value : α) (T : Nat) (x : List (List α))
    (slices : List (Int × Int)) (lens : Option (List Nat)) (L : List Nat)
    (hL : L = lens.getD (x.map (fun _ => T)))
    (hne : x ≠ []) (hT : T ≠ 0 ∨ mode = .constant)
    (hs : slices.length = x.length) (hl : L.length = x.length)
    (hleg : ∀ (n : Nat) (hn : n < x.length),
      (⟨x[n], L[n], (slices[n]).1, (slices[n]).2⟩ : ChunkRow α).Legal mode T) :
    ∃ out ls, chunkBySlicesT false mode value T x slices lens = .ok (out, ls) ∧
      out.length = x.length ∧ ls.length = x.length ∧
      ∀ (n : Nat) (hn : n < x.length) (ho : n < out.length) (hls : n < ls.length),
        ls[n] = chunkLen (slices[n]).1 (slices[n]).2
        ∧ (out[n]).take ls[n] = chunkSeq mode value ((x[n]).take L[n]) (slices[n]).1 (slices[n]).2
        ∧ (chunkSeq mode value ((x[n]).take L[n]) (slices[n]).1 (slices[n]).2).length = ls[n] := by
  have hlens : ∀ l, lens = some l → l.length = x.length := by
    intro l hl'
    subst hl'
    simpa [hL] using hl
  rw [(C09_chunk_tensor mode value T x slices lens hne hT).2 hlens, ← hL]
  have hlen := zipChunkRows_length x L slices hl hs
  generalize hR : List.zipWith (fun (xl : List α × Nat) (s : Int × Int) => (⟨xl.1, xl.2, s.1, s.2⟩ : ChunkRow α))
      (x.zip L) slices = rows at hlen
  have hget : ∀ (n : Nat) (hn : n < rows.length) (hx : n < x.length) (hl' : n < L.length)
      (hs' : n < slices.length), rows[n] = ⟨x[n], L[n], (slices[n]).1, (slices[n]).2⟩ := by
    intro n hn hx hl' hs'
    subst hR
    exact zipChunkRows_getElem x L slices n hn hx hl' hs'
  have hrne : rows ≠ [] := by
    intro hnil
    rw [hnil] at hlen
    exact hne (List.length_eq_zero_iff.1 hlen.symm)
  have hrleg : ∀ c ∈ rows, c.Legal mode T := by
    intro c hc
    obtain ⟨n, hn, rfl⟩ := List.getElem_of_mem hc
    have hn' : n < x.length := hlen ▸ hn
    rw [hget n hn hn' (by omega) (by omega)]
    exact hleg n hn'
  have key : ∃ out ls, chunkBySlices false mode value T rows = .ok (out, ls) ∧
      out.length = rows.length ∧ ls.length = rows.length ∧
      ∀ (n : Nat) (hn : n < rows.length) (ho : n < out.length) (hls : n < ls.length),
        ls[n] = chunkLen (rows[n]).start (rows[n]).stop
        ∧ (out[n]).take ls[n]
            = chunkSeq mode value ((rows[n]).x.take (rows[n]).len) (rows[n]).start (rows[n]).stop
        ∧ (chunkSeq mode value ((rows[n]).x.take (rows[n]).len) (rows[n]).start (rows[n]).stop).length
            = ls[n] := by
    by_cases hm : mode = .reflect
    · subst hm
      exact C09_chunk_reflect value T rows hrne hrleg
    · exact C09_chunk mode hm value T rows hrne hrleg
  obtain ⟨out, ls, hrun, holen, hlslen, hrows⟩ := key
  refine ⟨out, ls, hrun, by omega, by omega, ?_⟩
  intro n hn ho hls
  have hn' : n < rows.length := by omega
  have := hrows n hn' ho hls
  rw [hget n hn' hn (by omega) (by omega)] at this
  exact this

/-- Non-vacuity of `C09_chunk_tensor` / `C09_chunk_tensor_rows`: `lens` absent, reflect mode, row 0 sliced
one cell into its right padding, row 1 on both sides; and a `lens` of the wrong shape is a RuntimeError. -/
theorem C09_chunk_tensor_nonvacuous :
    (∃ out ls, chunkBySlicesT false .reflect (0 : Int) 4 [[1, 2, 3, 4], [5, 6, 7, 8]] [(3, 6), (-2, 6)] none
        = .ok (out, ls) ∧ out.length = 2 ∧ ls.length = 2)
    ∧ chunkBySlicesT false .reflect (0 : Int) 4 [[1, 2, 3, 4], [5, 6, 7, 8]] [(3, 6), (-2, 6)] none
        = .ok ([[4, 3, 2, 0, 0, 0, 0, 0], [7, 6, 5, 6, 7, 8, 7, 6]], [3, 8])
    ∧ chunkBySlicesT false .reflect (0 : Int) 4 [[1, 2, 3, 4], [5, 6, 7, 8]] [(3, 6), (-2, 6)] (some [4])
        = .error .runtime := by
  refine ⟨?_, by decide, ?_⟩
  · obtain ⟨out, ls, h, h1, h2, _⟩ := C09_chunk_tensor_rows .reflect (0 : Int) 4 [[1, 2, 3, 4], [5, 6, 7, 8]]
      [(3, 6), (-2, 6)] none [4, 4] rfl (by simp) (Or.inl (by decide)) rfl rfl (by
        intro n hn
        have : n = 0 ∨ n = 1 := by simp at hn; omega
        rcases this with rfl | rfl <;>
          simp [ChunkRow.Legal, legalPad, ChunkRow.leftPad, ChunkRow.rightPad, ChunkRow.chunkLen])
    exact ⟨out, ls, h, h1, h2⟩
  · exact (C09_chunk_tensor .reflect (0 : Int) 4 _ _ (some [4]) (by simp) (Or.inl (by decide))).1 [4] rfl
      (by decide)

end PdtVerif.PadChunk
