import PdtVerif.Lemmas.PadChunk
/-!
# C09 — variable-length padding and chunking equal per-sequence pad-and-slice

Property theorems only (helper lemmas: `Lemmas/PadChunk.lean`). The model
(`Model/PadChunk.lean`) selects and scatters through ONE row-major buffer for the whole
batch, like `_pad.py`; the spec (`Spec/PadSlice.lean`) talks about one sequence at a time.
All statements hold for every batch size, time dimension, frame type `α`, lengths, pads
and slices (no bounds).
-/
namespace PdtVerif.PadChunk
open PdtVerif.PadSlice
variable {α : Type}

/-! ## the lemma everything rests on -/

/-- **scatter_row_aligned** (DESIGN appendix A6). `rows` is the batch; `selMask`, `x`, `dstMask`,
`dst` give each row's select mask, data, scatter mask and destination row. If every row's two
masks have the same number of true cells, then `masked_select` into one flat buffer followed by
`masked_scatter` out of it moves row `n` to row `n`: the result is the row-local scatter of the
row-local selection, no element crosses a row boundary, and torch's size check passes. -/
theorem scatter_row_aligned {ι : Type} (rows : List ι) (selMask dstMask : ι → List Bool)
    (x dst : ι → List α)
    (hx : ∀ r ∈ rows, (selMask r).length ≤ (x r).length)
    (hd : ∀ r ∈ rows, (dstMask r).length ≤ (dst r).length)
    (hcount : ∀ r ∈ rows, (selMask r).count true = (dstMask r).count true) :
    maskedScatter (rows.map dst) (rows.map dstMask) (maskedSelect (rows.map selMask) (rows.map x))
      = .ok (rows.map (fun r => (scatRow (dstMask r) (dst r) (selRow (selMask r) (x r))).1)) := by
  rw [maskedSelect_map]
  exact maskedScatter_aligned rows dstMask dst (fun r => selRow (selMask r) (x r))
    (fun r hr => ⟨hd r hr, by rw [selRow_length _ _ (hx r hr), hcount r hr]⟩)

/-- What the row-local scatter means: reading the new row back through the mask returns the
source, in order … -/
theorem scatter_row_reads_back (m : List Bool) (d s : List α) (hlen : m.length ≤ d.length)
    (hs : s.length = m.count true) : selRow m (scatRow m d s).1 = s := by
  induction m generalizing d s with
  | nil =>
    have : s = [] := by simpa using hs
    simp [this]
  | cons b m ih =>
    cases d with
    | nil => simp at hlen
    | cons y d =>
      simp at hlen
      cases b with
      | false =>
        have hs' : s.length = m.count true := by simpa using hs
        simp [scatRow, selRow, ih d s hlen hs']
      | true =>
        cases s with
        | nil => simp at hs
        | cons s0 s =>
          have hs' : s.length = m.count true := by simpa using hs
          simp [scatRow, selRow, ih d s hlen hs']

/-- … and the cells outside the mask keep their old value. -/
theorem scatter_row_keeps_rest (m : List Bool) (d s : List α) :
    selRow (m.map not) (scatRow m d s).1 = selRow (m.map not) d := by
  induction m generalizing d s with
  | nil => simp
  | cons b m ih =>
    cases d with
    | nil => simp
    | cons y d =>
      cases b with
      | false => simp [scatRow, selRow, ih]
      | true => cases s <;> simp [scatRow, selRow, ih]

example : maskedScatter [[0, 0, 0], [0, 0, 0]] [[false, true, true], [true, false, false]]
    (maskedSelect [[true, true, false], [false, false, true]] [[1, 2, 3], [4, 5, 6]])
    = .ok [[0, 1, 2], [6, 0, 0]] := by decide

/-- The side condition is needed: with unequal per-row counts (row 0 selects two cells but
only one is scattered back) row 1 receives row 0's data. -/
theorem scatter_misaligned_counterexample :
    maskedScatter [[0, 0, 0], [0, 0, 0]] [[false, true, false], [true, false, false]]
      (maskedSelect [[true, true, false], [false, false, true]] [[1, 2, 3], [4, 5, 6]])
      = .ok [[0, 1, 0], [2, 0, 0]] := by decide

/-! ## pad_variable -/

/-- **C09_pad** (whole tensor). On every legal request (non-empty batch, rectangular `(N, T, ·)`
input, `len ≤ T`, pads legal for the mode: any for constant, any with `len ≥ 1` for replicate,
`< len` for reflect) `pad_variable` succeeds, and row `n` of its output is the per-sequence
`padSeq` of `x[n, :len]` followed by the pad value up to the common width `max (len + l + r)`. -/
theorem C09_pad (mode : Mode) (value : α) (T : Nat) (rows : List (PadRow α))
    (hne : rows ≠ []) (h : ∀ p ∈ rows, p.Legal mode T) :
    padVariable false mode value T rows
      = .ok (rows.map (fun p => padSeq mode value p.l p.r (p.x.take p.len)
              ++ List.replicate (maxOf (rows.map PadRow.newLen) - p.newLen) value)) :=
  padVariable_eq mode value T rows hne h

/-- **C09_pad**, as the property words it: row `n` up to `len + l + r` is `padSeq` of the
sequence alone; that many cells exist (the valid lengths `len + l + r` are exact). -/
theorem C09_pad_rows (mode : Mode) (value : α) (T : Nat) (rows : List (PadRow α))
    (hne : rows ≠ []) (h : ∀ p ∈ rows, p.Legal mode T) :
    ∃ out, padVariable false mode value T rows = .ok out ∧ out.length = rows.length ∧
      ∀ (n : Nat) (hn : n < rows.length) (hn' : n < out.length),
        (out[n]).take (rows[n]).newLen
            = padSeq mode value (rows[n]).l (rows[n]).r ((rows[n]).x.take (rows[n]).len)
          ∧ (rows[n]).newLen ≤ (out[n]).length
          ∧ (padSeq mode value (rows[n]).l (rows[n]).r ((rows[n]).x.take (rows[n]).len)).length
              = (rows[n]).newLen := by
  refine ⟨_, C09_pad mode value T rows hne h, by simp, ?_⟩
  intro n hn hn'
  have hp := h rows[n] (List.getElem_mem hn)
  have hlen : (padSeq mode value (rows[n]).l (rows[n]).r ((rows[n]).x.take (rows[n]).len)).length
      = (rows[n]).newLen := by
    rw [padSeq_eq]
    simp [PadRow.newLen, Nat.min_eq_left (hp.1 ▸ hp.2.1)]
    omega
  simp only [List.getElem_map]
  refine ⟨?_, ?_, hlen⟩
  · rw [List.take_left' hlen]
  · simp [hlen]

example : padVariable false .reflect (0 : Int) 5
    [⟨[0, 1, 2, 3, 4], 3, 0, 2⟩, ⟨[5, 6, 7, 8, 9], 4, 1, 3⟩]
    = .ok [[0, 1, 2, 1, 0, 0, 0, 0], [6, 5, 6, 7, 8, 7, 6, 5]] := by decide

example : ∀ p ∈ [(⟨[0, 1, 2, 3, 4], 3, 0, 2⟩ : PadRow Int), ⟨[5, 6, 7, 8, 9], 4, 1, 3⟩],
    p.Legal .reflect 5 := by
  intro p hp
  simp at hp
  rcases hp with rfl | rfl <;> simp [PadRow.Legal, legalPad]

/-! ### the pinned tree's replicate buffers (`fixes/C09-replicate-pad-gt-T.diff`) -/

/-- Pinned tree, replicate mode, a pad larger than the time dimension `T = 2`: the masks are cut
from `arange(T)` and the request fails with a RuntimeError although it is legal … -/
theorem C09_replicate_pad_gt_T_counterexample :
    padVariable true .replicate (0 : Int) 2 [⟨[1, 2], 2, 3, 0⟩] = .error .runtime
    ∧ padVariable false .replicate (0 : Int) 2 [⟨[1, 2], 2, 3, 0⟩] = .ok [[1, 1, 1, 1, 2]] := by
  decide

/-- … and with `T = 1` the `(N, 1, F)` mask is silently broadcast along the time axis: every row
with a non-zero pad contributes `max pad = 2` elements, although row 0 only has one cell to fill.
The flattened scatter hands row 0's surplus element `7` to row 1 — the violated side condition of
`scatter_row_aligned`. No error is raised. -/
theorem C09_replicate_pad_gt_T_silent_counterexample :
    padVariable true .replicate (0 : Int) 1 [⟨[7], 1, 1, 0⟩, ⟨[8], 1, 2, 0⟩]
      = .ok [[7, 7, 0], [7, 8, 8]]
    ∧ padVariable false .replicate (0 : Int) 1 [⟨[7], 1, 1, 0⟩, ⟨[8], 1, 2, 0⟩]
      = .ok [[7, 7, 0], [8, 8, 8]] := by
  decide

/-! ## pad_masked_sequence -/

/-- **C09_masked** (batch-first layout): per row, the selected elements in order, then the pad
value up to `T`; the reported length is the number of selected elements. -/
theorem C09_masked (value : α) (T : Nat) (rows : List (MaskRow α)) (h : ∀ r ∈ rows, r.Wf T) :
    padMaskedCore value T rows
      = .ok (rows.map (fun r => compact r.mask r.x
                ++ List.replicate (T - (compact r.mask r.x).length) value),
             rows.map (fun r => (compact r.mask r.x).length)) :=
  padMaskedCore_eq value T rows h

/-- the reported length is the number of true mask cells -/
theorem C09_masked_count (T : Nat) (r : MaskRow α) (h : r.Wf T) :
    (compact r.mask r.x).length = r.mask.count true :=
  compact_length _ _ (by rw [h.1, h.2]; exact Nat.le_refl _)

example : padMaskedCore (-1 : Int) 4 [⟨[0, 3, 6, 9], [true, false, true, true]⟩, ⟨[1, 2, 4, 5], [false, false, false, true]⟩]
    = .ok ([[0, 6, 9, -1], [5, -1, -1, -1]], [3, 1]) := by decide

/-! ## chunk_by_slices (constant and replicate) -/

/-- **C09_chunk** (constant / replicate; whole tensor). On every legal request (non-empty batch,
rectangular input, `len ≤ T`, `len ≥ 1` for replicate; ANY slice bounds: negative starts, ends
beyond the length, slices wholly in the padding, empty, inverted) `chunk_by_slices` succeeds and
reports exactly the requested lengths `max (stop - start) 0`. -/
theorem C09_chunk_lens (mode : Mode) (hmode : mode ≠ .reflect) (value : α) (T : Nat)
    (rows : List (ChunkRow α)) (hne : rows ≠ []) (h : ∀ c ∈ rows, c.Legal mode T) :
    ∃ out, chunkBySlices false mode value T rows
        = .ok (out, rows.map (fun c => chunkLen c.start c.stop)) ∧ out.length = rows.length :=
  ⟨_, chunkBySlices_eq mode hmode value T rows hne h, by simp⟩

/-- **C09_chunk**: row `n` up to the reported length is "the sequence alone, padded, then
sliced", and that many cells exist. -/
theorem C09_chunk (mode : Mode) (hmode : mode ≠ .reflect) (value : α) (T : Nat)
    (rows : List (ChunkRow α)) (hne : rows ≠ []) (h : ∀ c ∈ rows, c.Legal mode T) :
    ∃ out lens, chunkBySlices false mode value T rows = .ok (out, lens) ∧
      out.length = rows.length ∧ lens.length = rows.length ∧
      ∀ (n : Nat) (hn : n < rows.length) (ho : n < out.length) (hl : n < lens.length),
        lens[n] = chunkLen (rows[n]).start (rows[n]).stop
        ∧ (out[n]).take lens[n]
            = chunkSeq mode value ((rows[n]).x.take (rows[n]).len) (rows[n]).start (rows[n]).stop
        ∧ (chunkSeq mode value ((rows[n]).x.take (rows[n]).len) (rows[n]).start (rows[n]).stop).length
            = lens[n] := by
  refine ⟨_, _, chunkBySlices_eq mode hmode value T rows hne h, by simp, by simp, ?_⟩
  intro n hn ho hl
  obtain ⟨hx, hlen, _⟩ := h rows[n] (List.getElem_mem hn)
  have hv := chunkRowOut_valid mode hmode value T (chunkTp rows) rows[n] hx hlen
  have hcl : (rows[n]).chunkLen = chunkLen (rows[n]).start (rows[n]).stop := rfl
  simp only [List.getElem_map]
  refine ⟨hcl, hv, ?_⟩
  rw [← hv, List.length_take]
  have h1 := chunk_total_le_Tp rows rows[n] (List.getElem_mem hn)
  have h2 : (chunkRowOut mode value (chunkTp rows) rows[n]).length = chunkTp rows := by
    simp [chunkRowOut, sliceLen_le _ T hx hlen]
    omega
  have h3 : (rows[n]).chunkLen ≤ chunkTp rows := by
    have : (rows[n]).chunkLen ≤ maxOf (rows.map ChunkRow.chunkLen) :=
      le_maxOf (List.mem_map.2 ⟨_, List.getElem_mem hn, rfl⟩)
    unfold chunkTp; omega
  omega

-- slices: into the left padding, wholly right of the (length-2) sequence, inverted
example : chunkBySlices false .replicate (0 : Int) 4
    [⟨[1, 2, 3, 4], 3, -2, 2⟩, ⟨[5, 6, 7, 8], 2, 3, 5⟩, ⟨[9, 10, 11, 12], 4, 3, 1⟩]
    = .ok ([[1, 1, 1, 2], [6, 6, 6, 0], [0, 0, 0, 0]], [4, 2, 0]) := by decide

example : ∀ c ∈ [(⟨[1, 2, 3, 4], 3, -2, 2⟩ : ChunkRow Int), ⟨[5, 6, 7, 8], 2, 3, 5⟩, ⟨[9, 10, 11, 12], 4, 3, 1⟩],
    c.Legal .replicate 4 := by
  intro c hc
  simp at hc
  rcases hc with rfl | rfl | rfl <;> simp [ChunkRow.Legal, legalPad]

/-! ### reflect -/

/-- **C09_chunk_reflect**: reflect mode, every slice shape, INCLUDING slices that start strictly
beyond the end of their sequence, where `chunk_by_slices` re-reads the right padding it has just
written (`chunks[right_mask]`) and scatters it back shifted by `offset = start - len` — a second
batch-flattened select→scatter whose per-row counts (`right_pad - offset` on both sides) agree.
Legal = each needed pad `< len` (hence `len ≥ 1`). -/
theorem C09_chunk_reflect (value : α) (T : Nat)
    (rows : List (ChunkRow α)) (hne : rows ≠ []) (h : ∀ c ∈ rows, c.Legal .reflect T) :
    ∃ out lens, chunkBySlices false .reflect value T rows = .ok (out, lens) ∧
      out.length = rows.length ∧ lens.length = rows.length ∧
      ∀ (n : Nat) (hn : n < rows.length) (ho : n < out.length) (hl : n < lens.length),
        lens[n] = chunkLen (rows[n]).start (rows[n]).stop
        ∧ (out[n]).take lens[n]
            = chunkSeq .reflect value ((rows[n]).x.take (rows[n]).len) (rows[n]).start (rows[n]).stop := by
  refine ⟨_, _, chunkBySlices_reflect_full value T rows hne h, by simp, by simp, ?_⟩
  intro n hn ho hl
  obtain ⟨hx, hlen, _⟩ := h rows[n] (List.getElem_mem hn)
  have hv := chunkRowOutReflect_valid value T (chunkTp rows) rows[n] hx hlen
  simp only [List.getElem_map]
  exact ⟨rfl, hv⟩

-- reflect special case: row 0 (length 3) is sliced at [4, 5), one cell into its right padding;
-- row 1 is padded on both sides. padSeq of row 0 = [1, 2, 3, 2, 1], cell 4 = 1.
example : chunkBySlices false .reflect (0 : Int) 4 [⟨[1, 2, 3, 4], 3, 4, 5⟩, ⟨[5, 6, 7, 8], 4, -2, 6⟩]
      = .ok ([[1, 1, 0, 0, 0, 0, 0, 0], [7, 6, 5, 6, 7, 8, 7, 6]], [1, 8])
    ∧ chunkSeq .reflect (0 : Int) [1, 2, 3] 4 5 = [1]
    ∧ chunkSeq .reflect (0 : Int) [5, 6, 7, 8] (-2) 6 = [7, 6, 5, 6, 7, 8, 7, 6] := by decide

example : ∀ c ∈ [(⟨[1, 2, 3, 4], 3, 4, 5⟩ : ChunkRow Int), ⟨[5, 6, 7, 8], 4, -2, 6⟩], c.Legal .reflect 4 := by
  intro c hc
  simp at hc
  rcases hc with rfl | rfl <;>
    simp [ChunkRow.Legal, legalPad, ChunkRow.leftPad, ChunkRow.rightPad, ChunkRow.chunkLen]

/-- Pinned tree, empty time dimension, constant mode: the early return reports length 0 for a
slice that asks for three pad values (`fixes/C09-chunk-empty-time.diff`). -/
theorem C09_chunk_empty_time_counterexample :
    chunkBySlices true .constant (0 : Int) 0 [⟨[], 0, -1, 2⟩] = .ok ([[]], [0])
    ∧ chunkBySlices false .constant (0 : Int) 0 [⟨[], 0, -1, 2⟩] = .ok ([[0, 0, 0]], [3])
    ∧ chunkSeq .constant (0 : Int) [] (-1) 2 = [0, 0, 0] := by
  decide

/-- Pinned tree, replicate mode: a slice needing more padding than `T` fails although legal. -/
theorem C09_chunk_replicate_pad_gt_T_counterexample :
    chunkBySlices true .replicate (0 : Int) 2 [⟨[1, 2], 2, -3, 1⟩] = .error .runtime
    ∧ chunkBySlices false .replicate (0 : Int) 2 [⟨[1, 2], 2, -3, 1⟩] = .ok ([[1, 1, 1, 1]], [4]) := by
  decide

/-! ## the pinned tree: what does hold there -/

/-- **C09_pad_pinned_partial**: on the pinned tree `pad_variable` equals the repaired one — and
therefore satisfies `C09_pad` — as long as no pad exceeds the time dimension `T`. (For constant and
reflect mode the hypothesis is not needed: the two coincide by definition.) -/
theorem C09_pad_pinned_partial (mode : Mode) (value : α) (T : Nat) (rows : List (PadRow α))
    (hpad : ∀ p ∈ rows, p.l ≤ T ∧ p.r ≤ T) :
    padVariable true mode value T rows = padVariable false mode value T rows := by
  unfold padVariable
  rw [paddingBuffers_pinned_eq mode value T (rows.map PadRow.buf) (by
    intro b hb
    obtain ⟨p, hp, rfl⟩ := List.mem_map.1 hb
    exact hpad p hp)]

/-- **C09_chunk_pinned_partial**: likewise for `chunk_by_slices` when `T > 0` and no slice needs
more than `T` cells of padding on a side — in particular ALSO for slices starting at or beyond the
end of the sequence (the design phase suspected a second defect there; there is none). -/
theorem C09_chunk_pinned_partial (mode : Mode) (value : α) (T : Nat) (hT : T ≠ 0)
    (rows : List (ChunkRow α)) (hpad : ∀ c ∈ rows, c.leftPad ≤ T ∧ c.rightPad ≤ T) :
    chunkBySlices true mode value T rows = chunkBySlices false mode value T rows := by
  unfold chunkBySlices
  rw [paddingBuffers_pinned_eq mode value T (rows.map ChunkRow.buf) (by
    intro b hb
    obtain ⟨c, hc, rfl⟩ := List.mem_map.1 hb
    exact hpad c hc)]
  simp [hT]

example : (∀ c ∈ [(⟨[5, 6, 7, 8], 2, 3, 5⟩ : ChunkRow Int)], c.leftPad ≤ 4 ∧ c.rightPad ≤ 4)
    ∧ chunkBySlices true .replicate (0 : Int) 4 [⟨[5, 6, 7, 8], 2, 3, 5⟩] = .ok ([[6, 6, 6]], [2]) := by
  decide

/-! ## random_shift -/

/-- **C09_shift**, evaluation mode: the identity (and no draw is used). -/
theorem C09_shift_eval (pinned : Bool) (mode : Mode) (value : α) (T : Nat) (p0 p1 : Rat)
    (rows : List (ShiftRow α)) :
    randomShift pinned mode value T p0 p1 false rows = .ok (rows.map (·.x), rows.map (·.len)) := rfl

/-- **C09_shift**, amounts: a whole number (it is a `Nat`, hence `≥ 0`) of added elements per side,
not exceeding `prop · len`, for any draw in `[0, 1]`. Real arithmetic: the float32 rounding of
`prop * len * u` is not modelled. -/
theorem C09_shift_amount (p : Rat) (len : Nat) (u : Rat) (hp : 0 ≤ p) (hu0 : 0 ≤ u) (hu1 : u ≤ 1) :
    ((shiftAmount p len u : Nat) : Rat) ≤ p * (len : Rat) :=
  shiftAmount_le p len u hp hu0 hu1

/-- With `prop ≤ 1` and draws `< 1` the amount is `< len`: the reflect request is always legal. -/
theorem C09_shift_amount_reflect (p : Rat) (len : Nat) (u : Rat) (hp : p ≤ 1) (hu0 : 0 ≤ u)
    (hu1 : u < 1) (hlen : 0 < len) : shiftAmount p len u < len :=
  shiftAmount_lt p len u hp hu0 hu1 hlen

/-- **C09_shift**, training mode: each output row is `l` padding elements, the original sequence
unchanged, `r` padding elements (then filler), with `l, r` the amounts above, and the reported
lengths are `len + l + r`. -/
theorem C09_shift_train (mode : Mode) (value : α) (T : Nat) (p0 p1 : Rat) (rows : List (ShiftRow α))
    (hne : rows ≠ []) (h : ∀ s ∈ rows, (s.toPad p0 p1).Legal mode T) :
    ∃ out, randomShift false mode value T p0 p1 true rows
        = .ok (out, rows.map (fun s => s.len + (shiftAmount p0 s.len s.u0 + shiftAmount p1 s.len s.u1)))
      ∧ out = rows.map (fun s =>
          padSeq mode value (shiftAmount p0 s.len s.u0) (shiftAmount p1 s.len s.u1) (s.x.take s.len)
            ++ List.replicate (maxOf ((rows.map (ShiftRow.toPad p0 p1)).map PadRow.newLen)
                - (s.toPad p0 p1).newLen) value) := by
  have := C09_pad mode value T (rows.map (ShiftRow.toPad p0 p1)) (by simpa using hne) (by
    intro p hp
    obtain ⟨s, hs, rfl⟩ := List.mem_map.1 hp
    exact h s hs)
  refine ⟨_, ?_, rfl⟩
  simp only [randomShift, if_true, this, List.map_map]
  rfl

/-- the original sequence sits unchanged between the two paddings -/
theorem C09_shift_embeds (mode : Mode) (value : α) (l r : Nat) (xs : List α) :
    ((padSeq mode value l r xs).drop l).take xs.length = xs
    ∧ (padSeq mode value l r xs).length = l + xs.length + r := by
  rw [padSeq_eq]
  constructor
  · rw [List.append_assoc, List.drop_left' (leftPart_length mode value l xs), List.take_left' rfl]
  · simp only [List.length_append, leftPart_length, rightPart_length]

-- prop = (1/2, 1), len = 4, draws (3/4, 1/2): floor(1.5) = 1 left, floor(2) = 2 right
example : randomShift false .replicate (0 : Int) 4 (1/2) 1 true [⟨[1, 2, 3, 4], 4, 3/4, 1/2⟩]
    = .ok ([[1, 1, 2, 3, 4, 4, 4]], [7]) := by decide +kernel

example : ∀ s ∈ [(⟨[1, 2, 3, 4], 4, 3/4, 1/2⟩ : ShiftRow Int)], (s.toPad (1/2) 1).Legal .replicate 4 := by
  intro s hs
  simp at hs
  subst hs
  simp [PadRow.Legal, ShiftRow.toPad, legalPad]

end PdtVerif.PadChunk
