import PdtVerif.Lemmas.SpecAugmentThinPlate
/-!
# C08 — SpecAugment draws stay within bounds; masking touches only masked cells

Property theorems only (helper lemmas live in `Lemmas/SpecAugment.lean`).  Every statement
is for all lengths, sizes, configurations and all uniform draws `u ∈ [0,1)`, in exact
(rational) arithmetic; float32 rounding is not modelled.
-/
namespace PdtVerif.SpecAugment

/-- What `SpecAugment.__init__` enforces (`is_closed01`, non-negative), plus `0 ≤ eps ≤ 1`
(`eps` is a machine epsilon). -/
structure Cfg.Valid (c : Cfg) : Prop where
  eps_nonneg : 0 ≤ c.eps
  eps_le_one : c.eps ≤ 1
  tprop_nonneg : 0 ≤ c.maxTimeMaskProp
  tprop_le_one : c.maxTimeMaskProp ≤ 1

/-- `torch.rand` returns values in `[0, 1)`. -/
def Unit01 (u : Rat) : Prop := 0 ≤ u ∧ u < 1

structure Draws.Valid (d : Draws) : Prop where
  uw0 : Unit01 d.uw0
  uw : Unit01 d.uw
  uv0 : Unit01 d.uv0
  uv : Unit01 d.uv
  ut : ∀ u ∈ d.ut, Unit01 u
  ut0 : ∀ u ∈ d.ut0, Unit01 u
  uf : ∀ u ∈ d.uf, Unit01 u
  uf0 : ∀ u ∈ d.uf0, Unit01 u

theorem getD_unit01 {l : List Rat} (h : ∀ u ∈ l, Unit01 u) (j : Nat) : Unit01 (l.getD j 0) := by
  rw [List.getD_eq_getElem?_getD]
  by_cases hj : j < l.length
  · rw [List.getElem?_eq_getElem hj]; exact h _ (List.getElem_mem hj)
  · rw [List.getElem?_eq_none (by omega)]; exact ⟨le_refl _, by norm_num⟩

/-! ## mask bounds -/

/-- **C08_mask_bounds** (time): every drawn time mask has `0 ≤ width ≤ min(max_time_mask,
⌊len · prop⌋)`, `0 ≤ start`, `start + width ≤ len`; masks past the per-length count
`min(num_time_mask, ⌊len · num_prop⌋)` have width 0; at most `num_time_mask` masks. -/
theorem C08_mask_bounds (c : Cfg) (F len : Nat) (d : Draws) (hc : c.Valid) (hd : d.Valid) :
    (∀ m ∈ (drawParams c F len d).tmasks,
        MaskOK len c.maxTimeMask (propFloor len c.maxTimeMaskProp) m) ∧
    (∀ j, (h : j < (drawParams c F len d).tmasks.length) →
        min (propFloor len c.numTimeMaskProp) (c.numTimeMask : Int) ≤ (j : Int) →
        ((drawParams c F len d).tmasks[j]).2 = 0) ∧
    (drawParams c F len d).tmasks.length ≤ c.numTimeMask := by
  simp only [drawParams]
  split
  · refine ⟨?_, ?_, by simp⟩
    · intro m hm
      obtain ⟨j, _, rfl⟩ := List.mem_map.mp hm
      have a := getD_unit01 hd.ut j
      have b := getD_unit01 hd.ut0 j
      exact timeMask_ok hc.eps_nonneg hc.eps_le_one hc.tprop_nonneg hc.tprop_le_one a.1 a.2 b.1 b.2
    · intro j h hj
      simp only [List.getElem_map, List.getElem_range]
      exact timeMask_past_count hj
  · simp

/-- **C08_mask_bounds** (frequency): `0 ≤ width ≤ min(max_freq_mask, F)`, `0 ≤ start`,
`start + width ≤ F`; at most `num_freq_mask` masks. -/
theorem C08_mask_bounds_freq (c : Cfg) (F len : Nat) (d : Draws) (hc : c.Valid) (hd : d.Valid) :
    (∀ m ∈ (drawParams c F len d).fmasks, MaskOK F c.maxFreqMask (F : Int) m) ∧
    (drawParams c F len d).fmasks.length ≤ c.numFreqMask := by
  simp only [drawParams]
  split
  · refine ⟨?_, by simp⟩
    intro m hm
    obtain ⟨j, _, rfl⟩ := List.mem_map.mp hm
    have a := getD_unit01 hd.uf j
    have b := getD_unit01 hd.uf0 j
    exact freqMask_ok hc.eps_nonneg hc.eps_le_one a.1 a.2 b.1 b.2
  · simp

/-- The hypotheses are satisfiable: the module's default configuration and the extreme draws. -/
example : (⟨80, 0, 100, 27, 1/25, 20, 1/25, 2, 1/8388608⟩ : Cfg).Valid := by
  constructor <;> norm_num
example : (⟨0, 16777215/16777216, 0, 1/2, [0, 16777215/16777216], [1/16777216, 0], [1/2], [0]⟩ : Draws).Valid := by
  constructor <;> simp [Unit01] <;> norm_num

/-- (audit) One instance with **all eight limits non-zero** (float32 `eps`), used by the
`…_nonvacuous` statements below: `max_time_warp = 2`, `max_freq_warp = 1`, `max_time_mask = 3`,
`max_freq_mask = 2`, `max_time_mask_proportion = 1/2`, `num_time_mask = 3`,
`num_time_mask_proportion = 1/4`, `num_freq_mask = 2`; run on `T = len = 8`, `F = 4`. -/
def C08_exCfg : Cfg := ⟨2, 1, 3, 2, 1/2, 3, 1/4, 2, 1/8388608⟩
/-- (audit) Draws for `C08_exCfg`, among them the largest float32 `torch.rand` can return (for the
mask the per-length count zeroes).  Every truncated product is `k + 1/2 − O(eps)` or `k + 5/8 − O(eps)`,
i.e. far from an integer, so float32 and exact arithmetic agree: the real code returns these very
parameters (corpus `audit-signed-masks-half-warp-pairs.json`, compared on every run). -/
def C08_exDraws : Draws :=
  ⟨1/2, 3/4, 1/4, 7/8, [7/8, 3/8, 16777215/16777216], [3/8, 15/16, 1/2], [7/8, 0], [7/8, 1/2]⟩

theorem C08_exCfg_valid : C08_exCfg.Valid := by constructor <;> norm_num [C08_exCfg]
theorem C08_exDraws_valid : C08_exDraws.Valid := by
  constructor <;> simp [C08_exDraws, Unit01] <;> norm_num

/-- (audit) `C08_mask_bounds`/`C08_mask_bounds_freq` with **all** hypotheses instantiated together on
the output of the real model: three time masks, the first of the full width `min(3, ⌊8/2⌋) = 3`,
the second ending exactly on `len` (`7 + 1 = 8`), the third zeroed because the per-length count is
`min(3, ⌊8/4⌋) = 2`; two frequency masks, one of the full width `min(2, 4) = 2` ending on `F`. -/
theorem C08_mask_bounds_nonvacuous :
    (drawParams C08_exCfg 4 8 C08_exDraws).tmasks = [(2, 3), (7, 1), (4, 0)] ∧
    (drawParams C08_exCfg 4 8 C08_exDraws).fmasks = [(2, 2), (2, 0)] ∧
    min (propFloor 8 C08_exCfg.numTimeMaskProp) (C08_exCfg.numTimeMask : Int) ≤ ((2 : Nat) : Int) ∧
    (∀ m ∈ (drawParams C08_exCfg 4 8 C08_exDraws).tmasks,
        MaskOK 8 C08_exCfg.maxTimeMask (propFloor 8 C08_exCfg.maxTimeMaskProp) m) ∧
    (∀ m ∈ (drawParams C08_exCfg 4 8 C08_exDraws).fmasks, MaskOK 4 C08_exCfg.maxFreqMask ((4 : Nat) : Int) m) :=
  ⟨by decide +kernel, by decide +kernel, by decide +kernel,
    (C08_mask_bounds C08_exCfg 4 8 C08_exDraws C08_exCfg_valid C08_exDraws_valid).1,
    (C08_mask_bounds_freq C08_exCfg 4 8 C08_exDraws C08_exCfg_valid C08_exDraws_valid).1⟩

/-! ## warp bounds -/

/-- **C08_warp_bounds**: for `eps > 0` the half-window `W = clamp(len/2 - eps, 0, max_warp)`
satisfies `0 ≤ W ≤ max_warp`, `W < len/2`; the centre `W ≤ w0 < len - W`; the shift
`-W ≤ w ≤ W`; so the destination `0 ≤ w0 + w < len`.  Time axis with the sequence length,
frequency axis with `F`. -/
theorem C08_warp_bounds (c : Cfg) (F len : Nat) (d : Draws) (hl : 1 ≤ len) (hF : 1 ≤ F)
    (he : 0 < c.eps) (hwt : 0 ≤ c.maxTimeWarp) (hwf : 0 ≤ c.maxFreqWarp) (hd : d.Valid) :
    (∀ w0 w, (drawParams c F len d).warpT = some (w0, w) →
        WarpOK len c.maxTimeWarp (warpW c.eps c.maxTimeWarp len) w0 w) ∧
    (∀ v0 v, (drawParams c F len d).warpF = some (v0, v) →
        WarpOK F c.maxFreqWarp (warpW c.eps c.maxFreqWarp F) v0 v) := by
  simp only [drawParams]
  constructor
  · intro w0 w h
    split at h
    · cases h
      exact warp_ok hl he hwt hd.uw0.1 hd.uw0.2 hd.uw.1 hd.uw.2
    · cases h
  · intro v0 v h
    split at h
    · cases h
      exact warp_ok hF he hwf hd.uv0.1 hd.uv0.2 hd.uv.1 hd.uv.2
    · cases h

/-- Companion for the value float32 gives `len/2 - eps` once `len ≥ 4` (`eps` is rounded
away, the window may close): the destination still lies in `[0, len)`. -/
theorem C08_warp_dest_eps0 {maxWarp : Rat} {len : Nat} {u u' : Rat} (hl : 1 ≤ len) (hm : 0 < maxWarp)
    (hu : Unit01 u) (hu' : Unit01 u') :
    0 ≤ warpCentre 0 maxWarp len u + warpShift 0 maxWarp len u' ∧
      warpCentre 0 maxWarp len u + warpShift 0 maxWarp len u' < (len : Rat) :=
  warp_dest_eps0 hl hm hu.1 hu.2 hu'.1 hu'.2

example : WarpOK 10 3 (warpW (1/8388608) 3 10) (warpCentre (1/8388608) 3 10 0) (warpShift (1/8388608) 3 10 0) :=
  warp_ok (by norm_num) (by norm_num) (by norm_num) (le_refl _) (by norm_num) (le_refl _) (by norm_num)

/-- (audit) `C08_warp_bounds` with all hypotheses together on the output of the real model
(`C08_exCfg`, `len = 8`, `F = 4`): an actual time warp (centre 4, shift +1, window `W = 2`) and an
actual frequency warp (centre 3/2, shift +3/4, window `V = 1`). -/
theorem C08_warp_bounds_nonvacuous :
    (drawParams C08_exCfg 4 8 C08_exDraws).warpT = some (4, 1) ∧
    (drawParams C08_exCfg 4 8 C08_exDraws).warpF = some (3/2, 3/4) ∧
    warpW C08_exCfg.eps C08_exCfg.maxTimeWarp 8 = 2 ∧ warpW C08_exCfg.eps C08_exCfg.maxFreqWarp 4 = 1 ∧
    WarpOK 8 C08_exCfg.maxTimeWarp (warpW C08_exCfg.eps C08_exCfg.maxTimeWarp 8) 4 1 ∧
    WarpOK 4 C08_exCfg.maxFreqWarp (warpW C08_exCfg.eps C08_exCfg.maxFreqWarp 4) (3/2) (3/4) := by
  have h := C08_warp_bounds C08_exCfg 4 8 C08_exDraws (by norm_num) (by norm_num)
    (by norm_num [C08_exCfg]) (by norm_num [C08_exCfg]) (by norm_num [C08_exCfg]) C08_exDraws_valid
  exact ⟨by decide +kernel, by decide +kernel, by decide +kernel, by decide +kernel,
    h.1 4 1 (by decide +kernel), h.2 (3/2) (3/4) (by decide +kernel)⟩

/-- (audit) The window limited by the length rather than by `max_time_warp` (the module default 80
on a 3-frame element): `W = 3/2 − eps`, strictly below `len/2`; extreme draws. -/
example : warpW (1/8388608) 80 3 = 3/2 - 1/8388608 ∧
    WarpOK 3 80 (warpW (1/8388608) 80 3) (warpCentre (1/8388608) 80 3 (16777215/16777216))
      (warpShift (1/8388608) 80 3 (16777215/16777216)) :=
  ⟨by decide +kernel,
    warp_ok (by norm_num) (by norm_num) (by norm_num) (by norm_num) (by norm_num) (by norm_num) (by norm_num)⟩

/-- (audit) `C08_warp_dest_eps0` on the case it is for: `eps` rounded away, the window closed
(`W = len/2 = 2`, every centre is `2`), the largest draws: the destination is `4·(1 − 2⁻²⁴) < 4`. -/
example : warpW 0 80 4 = 2 ∧
    0 ≤ warpCentre 0 80 4 (16777215/16777216) + warpShift 0 80 4 (16777215/16777216) ∧
    warpCentre 0 80 4 (16777215/16777216) + warpShift 0 80 4 (16777215/16777216) < ((4 : Nat) : Rat) :=
  ⟨by decide +kernel,
    C08_warp_dest_eps0 (by norm_num) (by norm_num) ⟨by norm_num, by norm_num⟩ ⟨by norm_num, by norm_num⟩⟩

/-! ## applying masks -/

/-- **C08_apply_masks**: with no warp drawn, `spec_augment_apply_parameters` returns the
input with exactly the masked bands zeroed: same shape, `0` on every masked cell, and the
*same value* (hence bit-identical) on every other cell. -/
theorem C08_apply_masks (epsG : Rat) (x : List (List Rat)) (T F len : Nat) (p : Params)
    (ht : p.warpT = none) (hf : p.warpF = none) :
    MaskedImage x p.tmasks p.fmasks (applyParams epsG x T F len p) := by
  have : applyParams epsG x T F len p = applyMasks x p.tmasks p.fmasks := by
    simp [applyParams, ht, hf]
  rw [this]
  exact applyMasks_masked x p.tmasks p.fmasks

/-- Masks are applied on top of whatever the warp produced: the output is the warp-only
output with exactly the masked bands zeroed. -/
theorem C08_apply_masks_after_warp (epsG : Rat) (x : List (List Rat)) (T F len : Nat) (p : Params) :
    MaskedImage (applyParams epsG x T F len { p with tmasks := [], fmasks := [] }) p.tmasks p.fmasks
      (applyParams epsG x T F len p) := by
  have h0 : ∀ y : List (List Rat), applyMasks y [] [] = y := by
    intro y
    apply List.ext_getElem (by simp [applyMasks])
    intro j h1 h2
    apply List.ext_getElem (by simp [applyMasks])
    intro k h3 h4
    simp [applyMasks, inMask]
  simp only [applyParams, h0]
  exact applyMasks_masked _ p.tmasks p.fmasks

/-- The output always has the input's shape `T × F` (here: when a warp is drawn; without a
warp `C08_apply_masks` gives `rows`/`cols`). -/
theorem C08_shape_warp (epsG : Rat) (x : List (List Rat)) (T F len : Nat) (p : Params)
    (hw : (p.warpT.isSome || p.warpF.isSome) = true) :
    (applyParams epsG x T F len p).length = T ∧ ∀ r ∈ applyParams epsG x T F len p, r.length = F := by
  have hg : ∀ (eps : Rat) (n m : Nat) (a b : Rat), (warpGrid eps n m a b).length = n := by
    intro eps n m a b; simp [warpGrid, warpGridWith]
  have hi : ∀ n, (idGrid n).length = n := by intro n; simp [idGrid]
  simp only [applyParams, hw, if_true]
  constructor
  · simp only [applyMasks, gridSample, List.length_mapIdx, List.length_map]
    cases p.warpT with
    | none => exact hi T
    | some w => exact hg _ _ _ _ _
  · intro r hr
    simp only [applyMasks, gridSample] at hr
    obtain ⟨j, hj, rfl⟩ := List.mem_iff_getElem.mp hr
    simp only [List.getElem_mapIdx, List.getElem_map, List.length_mapIdx, List.length_map]
    cases p.warpF with
    | none => exact hi F
    | some w => exact hg _ _ _ _ _

/-- In evaluation mode the input is returned unchanged.
**Definitional** (audit): this is the first branch of `specAugment` unfolded (`rfl`); it documents
the model and is *not* counted as an obligation.  That the implementation returns its input in
evaluation mode is checked bit-wise by the harness (`eval_same`, `retrain_same`). -/
theorem C08_eval_identity (c : Cfg) (epsG : Rat) (x : List (List Rat)) (T F len : Nat) (d : Draws) :
    specAugment false c epsG x T F len d = x := rfl

/-- In training mode `spec_augment` is `apply_parameters ∘ draw_parameters`.
**Definitional** (audit): the second branch of `specAugment` unfolded (`rfl`); not counted as an
obligation.  Its content-bearing consequences are `C08_train_masks_only` and `C08_shape` below. -/
theorem C08_train_eq (c : Cfg) (epsG : Rat) (x : List (List Rat)) (T F len : Nat) (d : Draws) :
    specAugment true c epsG x T F len d = applyParams epsG x T F len (drawParams c F len d) := rfl

/-- **C08_shape** (audit): for an input that really is `T × F`, the output of `spec_augment` is
`T × F` in every mode and every branch (evaluation, masks only, any warp).  `C08_shape_warp` alone
says "`T × F`" even when `x` is *not* `T × F` (the model pads missing cells with `0`, which the
real code cannot do); this is the statement under the guard. -/
theorem C08_shape (training : Bool) (c : Cfg) (epsG : Rat) (x : List (List Rat)) (T F len : Nat) (d : Draws)
    (hx : x.length = T) (hr : ∀ r ∈ x, r.length = F) :
    (specAugment training c epsG x T F len d).length = T ∧
      ∀ r ∈ specAugment training c epsG x T F len d, r.length = F := by
  cases training with
  | false => exact ⟨hx, hr⟩
  | true =>
    show (applyParams epsG x T F len (drawParams c F len d)).length = T ∧
      ∀ r ∈ applyParams epsG x T F len (drawParams c F len d), r.length = F
    generalize drawParams c F len d = p
    by_cases hw : (p.warpT.isSome || p.warpF.isSome) = true
    · exact C08_shape_warp epsG x T F len p hw
    · rw [applyParams_nowarp epsG x T F len p hw]
      have M := applyMasks_masked x p.tmasks p.fmasks
      refine ⟨by rw [M.rows, hx], ?_⟩
      intro r hr'
      obtain ⟨j, hj, rfl⟩ := List.mem_iff_getElem.mp hr'
      have hjx : j < x.length := by rw [← M.rows]; exact hj
      rw [M.cols j hj hjx]
      exact hr _ (List.getElem_mem hjx)

/-- **C08_train_masks_only** (audit; the end-to-end statement for a configuration without warps):
in training mode, for every valid configuration with both warp limits `0` and all draws in
`[0, 1)`, the output of `spec_augment` is the input with exactly the drawn bands zeroed and every
other cell the same value, and every drawn band obeys all its caps and lies inside the valid
frames / coefficients.  (Draw and application composed; replaces the definitional `C08_train_eq`.) -/
theorem C08_train_masks_only (c : Cfg) (epsG : Rat) (x : List (List Rat)) (T F len : Nat) (d : Draws)
    (hc : c.Valid) (hd : d.Valid) (hwt : c.maxTimeWarp = 0) (hwf : c.maxFreqWarp = 0) :
    MaskedImage x (drawParams c F len d).tmasks (drawParams c F len d).fmasks
        (specAugment true c epsG x T F len d) ∧
      (∀ m ∈ (drawParams c F len d).tmasks, MaskOK len c.maxTimeMask (propFloor len c.maxTimeMaskProp) m) ∧
      (∀ m ∈ (drawParams c F len d).fmasks, MaskOK F c.maxFreqMask (F : Int) m) := by
  refine ⟨?_, (C08_mask_bounds c F len d hc hd).1, (C08_mask_bounds_freq c F len d hc hd).1⟩
  show MaskedImage x _ _ (applyParams epsG x T F len (drawParams c F len d))
  apply C08_apply_masks
  · simp [drawParams, hwt]
  · simp [drawParams, hwf]

example : Masked [(1, 2)] [] 2 0 := Or.inl ⟨(1, 2), by simp, by norm_num, by norm_num⟩
example : ¬ Masked [(1, 2)] [] 3 0 := by
  simp [Masked, Covered]

/-- (audit) An `8 × 4` image with 32 distinct non-zero entries `1 … 32`. -/
def C08_exImg : List (List Rat) :=
  (List.range 8).map (fun j => (List.range 4).map (fun k => ((4 * j + k + 1 : Nat) : Rat)))

/-- (audit) `C08_train_masks_only` / `C08_apply_masks` with all hypotheses together, on an actual
draw: `C08_exCfg` with the two warps switched off, the bands `[2,5) ∪ [7,8)` in time and `[2,4)` in
frequency are zeroed, the other 8 cells keep their values. -/
theorem C08_train_masks_only_nonvacuous :
    specAugment true { C08_exCfg with maxTimeWarp := 0, maxFreqWarp := 0 } (1/8388608) C08_exImg 8 4 8 C08_exDraws
      = [[1, 2, 0, 0], [5, 6, 0, 0], [0, 0, 0, 0], [0, 0, 0, 0], [0, 0, 0, 0], [21, 22, 0, 0], [25, 26, 0, 0],
         [0, 0, 0, 0]] ∧
    MaskedImage C08_exImg [(2, 3), (7, 1), (4, 0)] [(2, 2), (2, 0)]
      (specAugment true { C08_exCfg with maxTimeWarp := 0, maxFreqWarp := 0 } (1/8388608) C08_exImg 8 4 8 C08_exDraws) := by
  refine ⟨by decide +kernel, ?_⟩
  have h := (C08_train_masks_only { C08_exCfg with maxTimeWarp := 0, maxFreqWarp := 0 } (1/8388608) C08_exImg 8 4 8
    C08_exDraws (by constructor <;> norm_num [C08_exCfg]) C08_exDraws_valid rfl rfl).1
  have e1 : (drawParams { C08_exCfg with maxTimeWarp := 0, maxFreqWarp := 0 } 4 8 C08_exDraws).tmasks
      = [(2, 3), (7, 1), (4, 0)] := by decide +kernel
  have e2 : (drawParams { C08_exCfg with maxTimeWarp := 0, maxFreqWarp := 0 } 4 8 C08_exDraws).fmasks
      = [(2, 2), (2, 0)] := by decide +kernel
  rw [e1, e2] at h
  exact h

/-- (audit) `C08_apply_masks_after_warp`, `C08_shape_warp`, `C08_shape` on an actual warp **and**
actual masks: the full `C08_exCfg` (time warp 4 → 5, frequency warp 3/2 → 9/4, the masks above).
Frame 0 column 0 is pinned (`1`), the other surviving cells are genuinely interpolated. -/
theorem C08_apply_masks_after_warp_nonvacuous :
    specAugment true C08_exCfg (1/8388608) C08_exImg 8 4 8 C08_exDraws
      = [[1, 12582913 / 7549748, 0, 0], [44040193 / 10485761, 385268924284929 / 79164853138228, 0, 0],
         [0, 0, 0, 0], [0, 0, 0, 0], [0, 0, 0, 0], [17, 133378881 / 7549748, 0, 0],
         [96469013 / 4194305, 749427367084049 / 31665945785140, 0, 0], [0, 0, 0, 0]] ∧
    MaskedImage
      (applyParams (1/8388608) C08_exImg 8 4 8 { drawParams C08_exCfg 4 8 C08_exDraws with tmasks := [], fmasks := [] })
      (drawParams C08_exCfg 4 8 C08_exDraws).tmasks (drawParams C08_exCfg 4 8 C08_exDraws).fmasks
      (applyParams (1/8388608) C08_exImg 8 4 8 (drawParams C08_exCfg 4 8 C08_exDraws)) ∧
    (specAugment true C08_exCfg (1/8388608) C08_exImg 8 4 8 C08_exDraws).length = 8 :=
  ⟨by decide +kernel,
    C08_apply_masks_after_warp (1/8388608) C08_exImg 8 4 8 (drawParams C08_exCfg 4 8 C08_exDraws),
    (C08_shape true C08_exCfg (1/8388608) C08_exImg 8 4 8 C08_exDraws (by decide +kernel) (by decide +kernel)).1⟩

/-! ## the linear warp -/

/-- **C08_linear_warp** (i): any `x ↦ Σ wᵢ |x − cᵢ| + v₁ x + v₀` that solves the system
`polyharmonic_spline(order = 1)` sets up for the three knots of `warp_1d_grid` (interpolation
rows and the two orthogonality rows) *is* the closed-form piecewise-linear map the repaired
code evaluates: identity outside the pinned ends, linear between consecutive knots. -/
theorem C08_linear_warp_spline {eps mu : Rat} {T len : Nat} (hT : 1 ≤ T) (hl : 1 ≤ len) (he : 0 < eps)
    (hm0 : 0 ≤ mu) (hm1 : mu ≤ 1) (src flow : Rat) {w1 w2 w3 v1 v0 : Rat}
    (S : SplineSystem (warpKnots eps mu T len src flow) w1 w2 w3 v1 v0) (x : Rat) :
    splineEval (warpKnots eps mu T len src flow).c1 (warpKnots eps mu T len src flow).c2
        (warpKnots eps mu T len src flow).c3 w1 w2 w3 v1 v0 x
      = pwl (warpKnots eps mu T len src flow) x := by
  have ho := (warpKnots_facts hT hl (le_of_lt he) hm0 hm1 src flow).ordered he
  exact spline_eq_pwl ho.h12 ho.h23 S x

/-- The system is solvable for ordered knots (so `C08_linear_warp_spline` is not vacuous). -/
theorem C08_linear_warp_exists {k : Knots} (h12 : k.c1 < k.c2) (h23 : k.c2 < k.c3) :
    ∃ w1 w2 w3 v1 v0, SplineSystem k w1 w2 w3 v1 v0 := by
  have hd1 : k.c2 - k.c1 ≠ 0 := by intro h; linarith
  have hd2 : k.c3 - k.c2 ≠ 0 := by intro h; linarith
  refine ⟨((k.y2 - k.c1) / (k.c2 - k.c1) - 1) / 2,
    ((k.c3 - k.y2) / (k.c3 - k.c2) - (k.y2 - k.c1) / (k.c2 - k.c1)) / 2,
    (1 - (k.c3 - k.y2) / (k.c3 - k.c2)) / 2, 1, 0, ?_, ?_, ?_, ?_, ?_⟩
  · unfold splineEval
    rw [rabs_of_nonneg (show (0 : Rat) ≤ k.c1 - k.c1 by linarith),
      rabs_of_nonpos (show k.c1 - k.c2 ≤ 0 by linarith),
      rabs_of_nonpos (show k.c1 - k.c3 ≤ 0 by linarith)]
    field_simp; ring
  · unfold splineEval
    rw [rabs_of_nonneg (show (0 : Rat) ≤ k.c2 - k.c1 by linarith),
      rabs_of_nonneg (show (0 : Rat) ≤ k.c2 - k.c2 by linarith),
      rabs_of_nonpos (show k.c2 - k.c3 ≤ 0 by linarith)]
    field_simp; ring
  · unfold splineEval
    rw [rabs_of_nonneg (show (0 : Rat) ≤ k.c3 - k.c1 by linarith),
      rabs_of_nonneg (show (0 : Rat) ≤ k.c3 - k.c2 by linarith),
      rabs_of_nonneg (show (0 : Rat) ≤ k.c3 - k.c3 by linarith)]
    field_simp; ring
  · field_simp; ring
  · field_simp; ring
/-- **C08_linear_warp** (ii): the grid is non-decreasing over all `T` frames — the frames are
read in non-decreasing order — for every source point and flow, any knot margin in `[0,1]`
(`0`: the knots of the pinned commit; `2 eps T`: the repaired code). -/
theorem C08_linear_warp_monotone {eps mu : Rat} {T len : Nat} (hT : 1 ≤ T) (hl : 1 ≤ len) (he : 0 < eps)
    (hm0 : 0 ≤ mu) (hm1 : mu ≤ 1) (src flow : Rat) :
    Monotone (warpGridWith eps mu T len src flow) :=
  warpGrid_monotone hT hl he hm0 hm1 src flow

/-- **C08_linear_warp** (iii): every valid frame `j < len` reads between the pinned ends, i.e.
inside the valid frames (up to `eps`). -/
theorem C08_linear_warp_valid {eps mu : Rat} {T len : Nat} (hT : 1 ≤ T) (hl : 1 ≤ len) (he : 0 < eps)
    (hm0 : 0 ≤ mu) (hm1 : mu ≤ 1) (src flow : Rat) (j : Nat) (hj : j < len) :
    lowerPin eps T ≤ pwl (warpKnots eps mu T len src flow) (norm T (j : Rat)) ∧
      pwl (warpKnots eps mu T len src flow) (norm T (j : Rat)) ≤ upperPin eps T len := by
  have hf := warpKnots_facts hT hl (le_of_lt he) hm0 hm1 src flow
  have h0 : norm T 0 ≤ norm T (j : Rat) := norm_mono hT (by exact_mod_cast Nat.zero_le j)
  have h1 : norm T (j : Rat) ≤ norm T ((len : Rat) - 1) := norm_mono hT (by
    have : ((j + 1 : Nat) : Rat) ≤ (len : Rat) := by exact_mod_cast hj
    push_cast at this; linarith)
  rw [norm_zero_eq eps] at h0
  rw [norm_last_eq eps] at h1
  exact pwl_inside (hf.ordered he) (by simp only [warpKnots]; linarith) (by simp only [warpKnots]; linarith)

/-- **C08_linear_warp** (iv): with a knot margin `mu ≥ eps · T` the first and the last valid
frame read within `1/T` — half a frame, a frame being `2/T` wide in grid coordinates — of
their own centres. -/
theorem C08_linear_warp_ends {eps mu : Rat} {T len : Nat} (hT : 1 ≤ T) (hl : 1 ≤ len) (he : 0 < eps)
    (hm : eps * (T : Rat) ≤ mu) (hm1 : mu ≤ 1) (src flow : Rat) :
    let k := warpKnots eps mu T len src flow
    (norm T 0 - 1 / (T : Rat) ≤ pwl k (norm T 0) ∧ pwl k (norm T 0) ≤ norm T 0 + 1 / (T : Rat)) ∧
    (norm T ((len : Rat) - 1) - 1 / (T : Rat) ≤ pwl k (norm T ((len : Rat) - 1)) ∧
      pwl k (norm T ((len : Rat) - 1)) ≤ norm T ((len : Rat) - 1) + 1 / (T : Rat)) := by
  intro k
  have hTr : (0 : Rat) < (T : Rat) := by exact_mod_cast hT
  have hmu : 0 < mu := lt_of_lt_of_le (mul_pos he hTr) hm
  have hf := warpKnots_facts hT hl (le_of_lt he) (le_of_lt hmu) hm1 src flow
  have hq : eps / mu ≤ 1 / (T : Rat) := by
    rw [div_le_div_iff₀ hmu hTr]; linarith
  have heT : eps ≤ 1 / (T : Rat) := by
    rw [le_div_iff₀ hTr]; linarith
  have f := pwl_first hf he hmu
  have l := pwl_last hf he hmu
  have e0 : norm T 0 = k.c1 + eps := norm_zero_eq eps T
  have e1 : norm T ((len : Rat) - 1) = k.c3 - eps := norm_last_eq eps T len
  rw [e0, e1]
  refine ⟨⟨by linarith [f.1], by linarith [f.2]⟩, ⟨by linarith [l.1], by linarith [l.2]⟩⟩

/-- The repaired code's margin `2 eps T` qualifies whenever `2 eps T ≤ 1` (`T ≤ 2²²` frames
for float32): the end frames then move by at most a quarter of a frame. -/
theorem C08_linear_warp_ends_repaired {eps : Rat} {T len : Nat} (hT : 1 ≤ T) (hl : 1 ≤ len) (he : 0 < eps)
    (hT2 : 2 * eps * (T : Rat) ≤ 1) (src flow : Rat) :
    let k := warpKnots eps (knotMargin eps T) T len src flow
    (norm T 0 - 1 / (T : Rat) ≤ pwl k (norm T 0) ∧ pwl k (norm T 0) ≤ norm T 0 + 1 / (T : Rat)) ∧
    (norm T ((len : Rat) - 1) - 1 / (T : Rat) ≤ pwl k (norm T ((len : Rat) - 1)) ∧
      pwl k (norm T ((len : Rat) - 1)) ≤ norm T ((len : Rat) - 1) + 1 / (T : Rat)) := by
  have hTr : (0 : Rat) < (T : Rat) := by exact_mod_cast hT
  exact C08_linear_warp_ends hT hl he (by unfold knotMargin; nlinarith) (by unfold knotMargin; linarith) src flow

/-- **C08_linear_warp_ends_quarter** (audit): what the outward claim says about the repaired code —
with its margin `2·eps·T` the first and the last valid frame read within `1/(2T)`, a *quarter* of a
frame, of their own centres.  (`C08_linear_warp_ends_repaired` only states the half-frame bound the
property asks for; the meta text named the quarter as proved before this theorem existed.) -/
theorem C08_linear_warp_ends_quarter {eps : Rat} {T len : Nat} (hT : 1 ≤ T) (hl : 1 ≤ len) (he : 0 < eps)
    (hT2 : 2 * eps * (T : Rat) ≤ 1) (src flow : Rat) :
    let k := warpKnots eps (knotMargin eps T) T len src flow
    (norm T 0 - 1 / (2 * (T : Rat)) ≤ pwl k (norm T 0) ∧
      pwl k (norm T 0) ≤ norm T 0 + 1 / (2 * (T : Rat))) ∧
    (norm T ((len : Rat) - 1) - 1 / (2 * (T : Rat)) ≤ pwl k (norm T ((len : Rat) - 1)) ∧
      pwl k (norm T ((len : Rat) - 1)) ≤ norm T ((len : Rat) - 1) + 1 / (2 * (T : Rat))) := by
  intro k
  have hTr : (0 : Rat) < (T : Rat) := by exact_mod_cast hT
  obtain ⟨m0, m1⟩ := knotMargin_bounds he hT2
  have hmu : 0 < knotMargin eps T := by unfold knotMargin; positivity
  have hf := warpKnots_facts hT hl (le_of_lt he) m0 m1 src flow
  have hq : eps / knotMargin eps T = 1 / (2 * (T : Rat)) := by
    unfold knotMargin
    have : eps ≠ 0 := ne_of_gt he
    have : (T : Rat) ≠ 0 := ne_of_gt hTr
    field_simp
  have heT : eps ≤ 1 / (2 * (T : Rat)) := by
    rw [le_div_iff₀ (by positivity)]; linarith
  have f := pwl_first hf he hmu
  have l := pwl_last hf he hmu
  rw [hq] at f l
  have e0 : norm T 0 = k.c1 + eps := norm_zero_eq eps T
  have e1 : norm T ((len : Rat) - 1) = k.c3 - eps := norm_last_eq eps T len
  rw [e0, e1]
  refine ⟨⟨by linarith [f.1], by linarith [f.2]⟩, ⟨by linarith [l.1], by linarith [l.2]⟩⟩

/-- (audit) `C08_linear_warp_spline` is not vacuous **on the knots it is about**: for every size,
length, source point and flow the system for the knots of `warp_1d_grid` has a solution (the
hypothesis `S`), and that solution is `pwl` everywhere.  (`C08_linear_warp_exists` alone is about
abstract ordered knots.) -/
theorem C08_linear_warp_spline_nonvacuous {eps mu : Rat} {T len : Nat} (hT : 1 ≤ T) (hl : 1 ≤ len)
    (he : 0 < eps) (hm0 : 0 ≤ mu) (hm1 : mu ≤ 1) (src flow : Rat) :
    ∃ w1 w2 w3 v1 v0, SplineSystem (warpKnots eps mu T len src flow) w1 w2 w3 v1 v0 ∧
      ∀ x, splineEval (warpKnots eps mu T len src flow).c1 (warpKnots eps mu T len src flow).c2
          (warpKnots eps mu T len src flow).c3 w1 w2 w3 v1 v0 x = pwl (warpKnots eps mu T len src flow) x := by
  have ho := (warpKnots_facts hT hl (le_of_lt he) hm0 hm1 src flow).ordered he
  obtain ⟨w1, w2, w3, v1, v0, S⟩ := C08_linear_warp_exists ho.h12 ho.h23
  exact ⟨w1, w2, w3, v1, v0, S, fun x => C08_linear_warp_spline hT hl he hm0 hm1 src flow S x⟩

/-- **Counterexample for the pinned commit** (knot margin `0`): whenever the destination
`src + flow` reaches the last valid frame (it is then clamped onto it, `eps` from the pinned
end) the last valid frame reads the *source knot*, however far away that is — the half of the
sequence behind it is never read.  With the default configuration and `len ≤ 160` this
happens with probability `≈ 1/len` per sequence. -/
theorem C08_linear_warp_pinned_counterexample {eps : Rat} {T len : Nat} (hT : 1 ≤ T) (hl : 1 ≤ len)
    (he : 0 < eps) (src flow : Rat) (hclamp : (len : Rat) - 1 ≤ clampSrc len src + flow) :
    pwl (warpKnots eps 0 T len src flow) (norm T ((len : Rat) - 1)) = norm T (clampSrc len src) := by
  have hf := warpKnots_facts hT hl (le_of_lt he) (le_refl 0) (by norm_num) src flow
  have ho := hf.ordered he
  have hlr : (1 : Rat) ≤ (len : Rat) := by exact_mod_cast hl
  have hd : clampDst len src flow = (len : Rat) - 1 := by
    unfold clampDst
    have : rmin (clampSrc len src + flow) ((len : Rat) - 1) = (len : Rat) - 1 := by
      unfold rmin; split
      · linarith
      · rfl
    rw [this]; unfold rmax; split
    · have : (len : Rat) - 1 = 0 := by linarith
      linarith
    · rfl
  have hc2 : (warpKnots eps 0 T len src flow).c2 = norm T ((len : Rat) - 1) := by
    have h1 := hf.c2_lo
    have h2 := hf.c2_hi
    simp only [warpKnots, hd, zero_mul, add_zero, sub_zero] at h1 h2 ⊢
    have e := norm_last_eq eps T len
    have a : rmax (norm T ((len : Rat) - 1)) (lowerPin eps T) = norm T ((len : Rat) - 1) := by
      unfold rmax; split
      · have := norm_mono hT (show (0 : Rat) ≤ (len : Rat) - 1 by linarith)
        rw [norm_zero_eq eps] at this
        linarith
      · rfl
    rw [a]
    unfold rmin; split
    · rfl
    · linarith
  rw [← hc2]
  rcases pwl_cases (warpKnots eps 0 T len src flow) (warpKnots eps 0 T len src flow).c2 with
    ⟨a, _⟩ | ⟨a, _⟩ | ⟨_, _, _, e⟩ | ⟨_, a, _, _⟩
  · linarith [ho.h12]
  · linarith [ho.h23]
  · rw [e, segL_c2 ho.h12]; rfl
  · linarith

/-- A concrete instance: `T = len = 100`, source frame 50, flow +49.5: the last frame (99)
reads frame 50. -/
example : pwl (warpKnots (1/8388608) 0 100 100 50 (99/2)) (norm 100 99) = norm 100 50 := by
  have := C08_linear_warp_pinned_counterexample (eps := 1/8388608) (T := 100) (len := 100)
    (by norm_num) (by norm_num) (by norm_num) 50 (99/2)
    (by unfold clampSrc rmin rmax; norm_num)
  have e : clampSrc 100 50 = 50 := by unfold clampSrc rmin rmax; norm_num
  have e2 : (((100 : Nat) : Rat) - 1) = 99 := by norm_num
  rw [e, e2] at this
  exact this

/-! ## the float-stable evaluation the repaired code uses -/

/-- **C08_linear_warp_stable_eq**: the literal arithmetic of the repaired order-1 branch of
`warp_1d_grid` (`warpGridStable`/`stableAt`: every quantity an offset from the nearer pinned end,
both offsets of the moved knot clamped separately, the two-sided branch test
`t_lo ≤ dst_lo ∧ t_up ≥ dst_up`, the identity past the upper pinned end) equals, in exact
arithmetic, the closed-form piecewise-linear map of the model (`warpGrid`), for every size,
length, source point and flow, whenever `2·eps·T ≤ 1`.  So `C08_linear_warp_monotone/_valid/
_ends_repaired/_spline` are statements about what the code computes, up to float rounding. -/
theorem C08_linear_warp_stable_eq {eps : Rat} {T len : Nat} (hT : 1 ≤ T) (hl : 1 ≤ len) (he : 0 < eps)
    (hT2 : 2 * eps * (T : Rat) ≤ 1) (src flow : Rat) :
    warpGridStable eps T len src flow = warpGrid eps T len src flow := by
  unfold warpGridStable warpGrid warpGridWith
  apply List.map_congr_left
  intro j _
  exact stableAt_eq_pwl hT hl he hT2 src flow j

/-- The hypotheses hold for float32 and any realistic size; a concrete evaluation. -/
example : warpGridStable (1/8388608) 4 3 1 (1/2) = warpGrid (1/8388608) 4 3 1 (1/2) :=
  C08_linear_warp_stable_eq (by norm_num) (by norm_num) (by norm_num) (by norm_num) 1 (1/2)

/-- (audit) `C08_linear_warp_monotone/_valid/_ends_repaired/_ends_quarter/_stable_eq` on an actual
warp: the time grid of the drawn warp of `C08_exCfg` (`T = len = 8`, frame 4 moved to 5) is *not*
the identity grid, the moved knot sits at `(2·5+1)/8 − 1 = 3/8` and maps to the centre of frame 4,
and all five theorems apply to it (`2·eps·T = 2⁻¹⁹ ≤ 1`). -/
theorem C08_linear_warp_nonvacuous :
    warpGrid (1/8388608) 8 8 4 1 ≠ idGrid 8 ∧
    (warpKnots (1/8388608) (knotMargin (1/8388608) 8) 8 8 4 1).c2 = 3/8 ∧
    (warpKnots (1/8388608) (knotMargin (1/8388608) 8) 8 8 4 1).y2 = 1/8 ∧
    Monotone (warpGrid (1/8388608) 8 8 4 1) ∧
    warpGridStable (1/8388608) 8 8 4 1 = warpGrid (1/8388608) 8 8 4 1 ∧
    (∀ j : Nat, j < 8 → lowerPin (1/8388608) 8 ≤ pwl (warpKnots (1/8388608) (knotMargin (1/8388608) 8) 8 8 4 1) (norm 8 (j : Rat))) := by
  have m := knotMargin_bounds (eps := 1/8388608) (T := 8) (by norm_num) (by norm_num)
  have h1 : warpGrid (1/8388608) 8 8 4 1 ≠ idGrid 8 := by decide +kernel
  have h2 : (warpKnots (1/8388608) (knotMargin (1/8388608) 8) 8 8 4 1).c2 = 3/8 := by decide +kernel
  have h3 : (warpKnots (1/8388608) (knotMargin (1/8388608) 8) 8 8 4 1).y2 = 1/8 := by decide +kernel
  have h4 : Monotone (warpGrid (1/8388608) 8 8 4 1) :=
    C08_linear_warp_monotone (by norm_num) (by norm_num) (by norm_num) m.1 m.2 4 1
  have h5 : warpGridStable (1/8388608) 8 8 4 1 = warpGrid (1/8388608) 8 8 4 1 :=
    C08_linear_warp_stable_eq (by norm_num) (by norm_num) (by norm_num) (by norm_num) 4 1
  refine ⟨h1, h2, h3, h4, h5, ?_⟩
  intro j hj
  exact (C08_linear_warp_valid (by norm_num) (by norm_num) (by norm_num) m.1 m.2 4 1 j hj).1

/-- (audit) The same for a padded element (`len = 6 < T = 8`): frames 6 and 7 (padding) read
themselves, the valid frames are warped. -/
example : (warpGrid (1/8388608) 8 6 4 1).drop 6 = (idGrid 8).drop 6 ∧
    (warpGrid (1/8388608) 8 6 4 1).take 6 ≠ (idGrid 8).take 6 ∧
    Monotone (warpGrid (1/8388608) 8 6 4 1) := by
  have m := knotMargin_bounds (eps := 1/8388608) (T := 8) (by norm_num) (by norm_num)
  have h1 : (warpGrid (1/8388608) 8 6 4 1).drop 6 = (idGrid 8).drop 6 := by decide +kernel
  have h2 : (warpGrid (1/8388608) 8 6 4 1).take 6 ≠ (idGrid 8).take 6 := by decide +kernel
  have h3 : Monotone (warpGrid (1/8388608) 8 6 4 1) :=
    C08_linear_warp_monotone (by norm_num) (by norm_num) (by norm_num) m.1 m.2 4 1
  exact ⟨h1, h2, h3⟩

/-- (audit) `C08_linear_warp_ends`, `_ends_repaired`, `_ends_quarter` applied to that warp. -/
example :=
  And.intro
    (C08_linear_warp_ends_repaired (eps := 1/8388608) (T := 8) (len := 8) (by norm_num) (by norm_num)
      (by norm_num) (by norm_num) 4 1)
    (And.intro
      (C08_linear_warp_ends_quarter (eps := 1/8388608) (T := 8) (len := 8) (by norm_num) (by norm_num)
        (by norm_num) (by norm_num) 4 1)
      (C08_linear_warp_ends (eps := 1/8388608) (mu := 1/2) (T := 8) (len := 8) (by norm_num) (by norm_num)
        (by norm_num) (by norm_num) (by norm_num) 4 1))

/-! ## the frequency warp: the same grid code with the axes swapped -/

/-- **C08_apply_warp_grids**: whenever a warp is present, `spec_augment_apply_parameters` is
`grid_sample` on the pair (time grid, frequency grid) followed by the masks; the frequency grid
is `warp_1d_grid(v_0, v, F, F)` — the code of the time warp with `F` as size *and* length — and
the axis without a warp gets the identity grid.
**Definitional** (audit): `timeGridOf`/`freqGridOf` are the two `match` expressions of `applyParams`
given names, the proof is a case split and `rfl`.  Kept as the glue that makes `C08_freq_warp`,
`C08_apply_freq_only/_time_only` and `C08_apply_in_range` statements about `applyParams`; not
counted as an obligation. -/
theorem C08_apply_warp_grids (epsG : Rat) (x : List (List Rat)) (T F len : Nat) (p : Params)
    (hw : (p.warpT.isSome || p.warpF.isSome) = true) :
    applyParams epsG x T F len p
      = applyMasks (gridSample x T F (timeGridOf epsG T len p) (freqGridOf epsG F p)) p.tmasks p.fmasks :=
  applyParams_warp epsG x T F len p hw

/-- **C08_freq_warp**: for a drawn / supplied frequency warp `(v0, v)` the frequency grid is
non-decreasing over all `F` coefficients, every coefficient reads between the pinned ends
(inside `[0, F-1]` up to `eps`), the first and the last coefficient read within half a
coefficient (`1/F` in grid units) of themselves, and the grid is what the float-stable code
evaluates.  All of it for every `F ≥ 1` with `2·eps·F ≤ 1`. -/
theorem C08_freq_warp {epsG : Rat} {F : Nat} (hF : 1 ≤ F) (he : 0 < epsG) (hF2 : 2 * epsG * (F : Rat) ≤ 1)
    (p : Params) (v0 v : Rat) (hp : p.warpF = some (v0, v)) :
    freqGridOf epsG F p = warpGrid epsG F F v0 v ∧
    freqGridOf epsG F p = warpGridStable epsG F F v0 v ∧
    Monotone (freqGridOf epsG F p) ∧
    (∀ k, (h : k < (freqGridOf epsG F p).length) →
      lowerPin epsG F ≤ (freqGridOf epsG F p)[k] ∧ (freqGridOf epsG F p)[k] ≤ upperPin epsG F F) ∧
    (let kn := warpKnots epsG (knotMargin epsG F) F F v0 v
     (norm F 0 - 1 / (F : Rat) ≤ pwl kn (norm F 0) ∧ pwl kn (norm F 0) ≤ norm F 0 + 1 / (F : Rat)) ∧
     (norm F ((F : Rat) - 1) - 1 / (F : Rat) ≤ pwl kn (norm F ((F : Rat) - 1)) ∧
       pwl kn (norm F ((F : Rat) - 1)) ≤ norm F ((F : Rat) - 1) + 1 / (F : Rat))) := by
  obtain ⟨m0, m1⟩ := knotMargin_bounds he hF2
  have hg : freqGridOf epsG F p = warpGrid epsG F F v0 v := by unfold freqGridOf; rw [hp]
  refine ⟨hg, ?_, ?_, ?_, C08_linear_warp_ends_repaired hF hF he hF2 v0 v⟩
  · rw [hg]; exact (C08_linear_warp_stable_eq hF hF he hF2 v0 v).symm
  · rw [hg]; exact C08_linear_warp_monotone hF hF he m0 m1 v0 v
  · intro k h
    have hk : k < F := by
      have : (freqGridOf epsG F p).length = F := by rw [hg]; simp [warpGrid, warpGridWith]
      omega
    have e : (freqGridOf epsG F p)[k] = pwl (warpKnots epsG (knotMargin epsG F) F F v0 v) (norm F (k : Rat)) := by
      simp [hg, warpGrid, warpGridWith]
    rw [e]
    exact C08_linear_warp_valid hF hF he m0 m1 v0 v k hk

/-- **C08_freq_warp_rowwise**: a frequency-only warp never mixes frames — with the identity time
grid, output cell `(j, k)` is the 1-D linear interpolation of input row `j` at the frequency
coordinate `fg[k]`.  (`grid_sample`'s coordinate pair is `(freq, time)`; this is the statement
that the swapped axes end up where they should.) -/
theorem C08_freq_warp_rowwise (x : List (List Rat)) (T F : Nat) (fg : List Rat) (j k : Nat)
    (hj : j < (gridSample x T F (idGrid T) fg).length)
    (hk : k < ((gridSample x T F (idGrid T) fg)[j]).length) (hkf : k < fg.length) :
    ((gridSample x T F (idGrid T) fg)[j])[k] = rowInterp x T F j fg[k] := by
  have hjT : j < T := by simpa [gridSample, idGrid] using hj
  simp only [gridSample, idGrid, List.getElem_map, List.getElem_range]
  exact bilinear_idrow x hjT _

/-- **C08_time_warp_colwise**: symmetrically, a time-only warp never mixes coefficients. -/
theorem C08_time_warp_colwise (x : List (List Rat)) (T F : Nat) (tg : List Rat) (j k : Nat)
    (hj : j < (gridSample x T F tg (idGrid F)).length)
    (hk : k < ((gridSample x T F tg (idGrid F))[j]).length) (hjt : j < tg.length) :
    ((gridSample x T F tg (idGrid F))[j])[k] = colInterp x T F k tg[j] := by
  have hkF : k < F := by simpa [gridSample, idGrid] using hk
  simp only [gridSample, idGrid, List.getElem_map, List.getElem_range]
  exact bilinear_idcol x hkF _

example : freqGridOf (1/8388608) 3 ⟨none, some (1, 1/2), [], []⟩ = warpGrid (1/8388608) 3 3 1 (1/2) := rfl

/-- **C08_apply_freq_only** (audit; `C08_freq_warp_rowwise` carried through to
`spec_augment_apply_parameters`): with a frequency warp and no time warp, the output is — before
the masks — row by row the 1-D linear interpolation of the *same* input row at the positions of
`warp_1d_grid(v_0, v, F, F)`: frames are never mixed, whatever the length. -/
theorem C08_apply_freq_only (epsG : Rat) (x : List (List Rat)) (T F len : Nat) (p : Params) (v0 v : Rat)
    (ht : p.warpT = none) (hf : p.warpF = some (v0, v)) :
    applyParams epsG x T F len p
      = applyMasks ((List.range T).map (fun j => (warpGrid epsG F F v0 v).map (fun g => rowInterp x T F j g)))
          p.tmasks p.fmasks := by
  rw [C08_apply_warp_grids epsG x T F len p (by simp [hf])]
  congr 1
  simp only [timeGridOf, freqGridOf, ht, hf, gridSample, idGrid, List.map_map]
  apply List.map_congr_left
  intro j hj
  have hjT : j < T := List.mem_range.mp hj
  apply List.map_congr_left
  intro g _
  exact bilinear_idrow x hjT g

/-- **C08_apply_time_only** (audit): symmetrically, with a time warp and no frequency warp the
output is — before the masks — column by column the 1-D interpolation of the same input column at
the positions of `warp_1d_grid(w_0, w, len, T)`: coefficients are never mixed. -/
theorem C08_apply_time_only (epsG : Rat) (x : List (List Rat)) (T F len : Nat) (p : Params) (w0 w : Rat)
    (ht : p.warpT = some (w0, w)) (hf : p.warpF = none) :
    applyParams epsG x T F len p
      = applyMasks ((warpGrid epsG T len w0 w).map (fun g => (List.range F).map (fun k => colInterp x T F k g)))
          p.tmasks p.fmasks := by
  rw [C08_apply_warp_grids epsG x T F len p (by simp [ht])]
  congr 1
  simp only [timeGridOf, freqGridOf, ht, hf, gridSample, idGrid, List.map_map]
  apply List.map_congr_left
  intro g _
  apply List.map_congr_left
  intro k hk
  have hkF : k < F := List.mem_range.mp hk
  exact bilinear_idcol x hkF g

/-- (audit) `C08_freq_warp`, `C08_freq_warp_rowwise`, `C08_apply_freq_only` with all hypotheses
together on an actual frequency warp (`F = 3`, coefficient 1 moved to 3/2) of a `2 × 3` image: the
grid is not the identity, the middle column is genuinely interpolated (`2 ↦ 83886089/50331654`,
between 1 and 2), each output row is made of its own input row only. -/
theorem C08_freq_warp_nonvacuous :
    applyParams (1/8388608) [[1, 2, 4], [8, 16, 32]] 2 3 2 ⟨none, some (1, 1/2), [], []⟩
      = [[1, 83886089 / 50331654, 33554441 / 8388611], [8, 335544356 / 25165827, 268435528 / 8388611]] ∧
    freqGridOf (1/8388608) 3 ⟨none, some (1, 1/2), [], []⟩ ≠ idGrid 3 ∧
    Monotone (freqGridOf (1/8388608) 3 ⟨none, some (1, 1/2), [], []⟩) ∧
    freqGridOf (1/8388608) 3 ⟨none, some (1, 1/2), [], []⟩ = warpGridStable (1/8388608) 3 3 1 (1/2) := by
  have h := C08_freq_warp (epsG := 1/8388608) (F := 3) (by norm_num) (by norm_num) (by norm_num)
    ⟨none, some (1, 1/2), [], []⟩ 1 (1/2) rfl
  have h1 : applyParams (1/8388608) [[1, 2, 4], [8, 16, 32]] 2 3 2 ⟨none, some (1, 1/2), [], []⟩
      = [[1, 83886089 / 50331654, 33554441 / 8388611], [8, 335544356 / 25165827, 268435528 / 8388611]] := by
    decide +kernel
  have h2 : freqGridOf (1/8388608) 3 ⟨none, some (1, 1/2), [], []⟩ ≠ idGrid 3 := by decide +kernel
  exact ⟨h1, h2, h.2.2.1, h.2.1⟩

example :
    ((gridSample [[1, 2, 4], [8, 16, 32]] 2 3 (idGrid 2) (warpGrid (1/8388608) 3 3 1 (1/2)))[1]'(by decide +kernel))[1]'(by
        decide +kernel)
      = rowInterp [[1, 2, 4], [8, 16, 32]] 2 3 1 ((warpGrid (1/8388608) 3 3 1 (1/2))[1]'(by decide +kernel)) :=
  C08_freq_warp_rowwise _ 2 3 _ 1 1 _ _ _

example :
    ((gridSample [[1, 2, 4], [8, 16, 32]] 2 3 (warpGrid (1/8388608) 2 2 0 (1/2)) (idGrid 3))[1]'(by decide +kernel))[2]'(by
        decide +kernel)
      = colInterp [[1, 2, 4], [8, 16, 32]] 2 3 2 ((warpGrid (1/8388608) 2 2 0 (1/2))[1]'(by decide +kernel)) :=
  C08_time_warp_colwise _ 2 3 _ 1 2 _ _ _

example : applyParams (1/8388608) [[1, 2, 4], [8, 16, 32]] 2 3 2 ⟨none, some (1, 1/2), [(1, 1)], []⟩
    = applyMasks ((List.range 2).map (fun j => (warpGrid (1/8388608) 3 3 1 (1/2)).map
        (fun g => rowInterp [[1, 2, 4], [8, 16, 32]] 2 3 j g))) [(1, 1)] [] :=
  C08_apply_freq_only _ _ 2 3 2 _ 1 (1/2) rfl rfl

example : applyParams (1/8388608) [[1, 2, 4], [8, 16, 32]] 2 3 2 ⟨some (0, 1/2), none, [], [(0, 1)]⟩
    = applyMasks ((warpGrid (1/8388608) 2 2 0 (1/2)).map (fun g => (List.range 3).map
        (fun k => colInterp [[1, 2, 4], [8, 16, 32]] 2 3 k g))) [] [(0, 1)] :=
  C08_apply_time_only _ _ 2 3 2 _ 0 (1/2) rfl rfl

/-! ## orders 2 and 3: what exact arithmetic gives -/

/-- **C08_cubic_warp_exists_unique** (interpolation order 3, `φ(r) = r³`): for the three knots
`warp_1d_grid` builds (any margin in `[0,1]`, so also the pinned commit's), the linear system
`polyharmonic_spline(order = 3)` sets up has a solution and only one.  In exact arithmetic the
order-3 warp is therefore a well-defined (finite, rational) function of the frame position which
passes through the two pinned ends and the moved knot (rows `at1`–`at3`); what is *not* covered
is the conditioning of the float32 solve when the knot sits `eps` from an end
(`Q = 2a²b²(a+b)` with a gap of `eps`). -/
theorem C08_cubic_warp_exists_unique {eps mu : Rat} {T len : Nat} (hT : 1 ≤ T) (hl : 1 ≤ len)
    (he : 0 < eps) (hm0 : 0 ≤ mu) (hm1 : mu ≤ 1) (src flow : Rat) :
    (∃ w1 w2 w3 v1 v0, SplineSystemPhi phi3 (warpKnots eps mu T len src flow) w1 w2 w3 v1 v0) ∧
    (∀ w1 w2 w3 v1 v0 w1' w2' w3' v1' v0',
      SplineSystemPhi phi3 (warpKnots eps mu T len src flow) w1 w2 w3 v1 v0 →
      SplineSystemPhi phi3 (warpKnots eps mu T len src flow) w1' w2' w3' v1' v0' →
      w1 = w1' ∧ w2 = w2' ∧ w3 = w3' ∧ v1 = v1' ∧ v0 = v0') := by
  have ho := (warpKnots_facts hT hl (le_of_lt he) hm0 hm1 src flow).ordered he
  generalize warpKnots eps mu T len src flow = k at *
  have h12 := ho.h12
  have h23 := ho.h23
  have h0 : phi3 0 = 0 := by unfold phi3; ring
  have ha : 0 < k.c2 - k.c1 := by linarith
  have hb : 0 < k.c3 - k.c2 := by linarith
  have hQ := poly3Q_phi3 ha hb
  have hab : (k.c2 - k.c1) + (k.c3 - k.c2) ≠ 0 := by intro h; linarith
  constructor
  · obtain ⟨w1, w2, w3, v1, v0, S⟩ := Poly3Sys.exists k.c1 (k.c2 - k.c1) (k.c3 - k.c2) (phi3 (k.c2 - k.c1))
      (phi3 (k.c3 - k.c2)) (phi3 ((k.c2 - k.c1) + (k.c3 - k.c2))) k.c1 k.y2 k.c3 (by norm_num) hab hQ
    exact ⟨w1, w2, w3, v1, v0, (splineSystemPhi_iff h0 h12 h23 _ _ _ _ _).mpr S⟩
  · intro w1 w2 w3 v1 v0 w1' w2' w3' v1' v0' S S'
    exact Poly3Sys.unique (by norm_num) (ne_of_gt hb) hab hQ
      ((splineSystemPhi_iff h0 h12 h23 _ _ _ _ _).mp S) ((splineSystemPhi_iff h0 h12 h23 _ _ _ _ _).mp S')

/-- **C08_cubic_warp_model**: *every* solution of the order-3 system for the knots of
`warp_1d_grid`, evaluated at the frame centres, is the grid of the executable model
(`warpGrid3`, closed-form coefficients `cubicCoeffs`) — the order-3 analogue of
`C08_linear_warp_spline`.  The harness compares `warp_1d_grid(…, 3)` with `warpGrid3` on the
well-conditioned cases (knot at least a frame from both ends, `T ≤ 40`). -/
theorem C08_cubic_warp_model {eps : Rat} {T len : Nat} (hT : 1 ≤ T) (hl : 1 ≤ len) (he : 0 < eps)
    (src flow : Rat) {w1 w2 w3 v1 v0 : Rat}
    (S : SplineSystemPhi phi3 (warpKnots eps 0 T len src flow) w1 w2 w3 v1 v0) :
    (List.range T).map (fun (j : Nat) =>
        splineEvalPhi phi3 (warpKnots eps 0 T len src flow).c1 (warpKnots eps 0 T len src flow).c2
          (warpKnots eps 0 T len src flow).c3 w1 w2 w3 v1 v0 (norm T (j : Rat)))
      = warpGrid3 eps T len src flow := by
  have ho := (warpKnots_facts hT hl (le_of_lt he) (le_refl 0) (by norm_num) src flow).ordered he
  have M := cubicCoeffs_solves ho.h12 ho.h23
  obtain ⟨e1, e2, e3, e4, e5⟩ :=
    (C08_cubic_warp_exists_unique hT hl he (le_refl 0) (by norm_num) src flow).2 _ _ _ _ _ _ _ _ _ _ S M
  unfold warpGrid3
  apply List.map_congr_left
  intro j _
  rw [cubicEval_eq, e1, e2, e3, e4, e5]

/-- **C08_thinplate_warp_exists_unique** (interpolation order 2, `φ(r) = r² log max(r, eps)`,
over the reals because of the logarithm): for the knots of `warp_1d_grid` the system has exactly
one real solution — the second divided difference of the kernel is
`a b (a+b) ((a+b) log(a+b) − a log a − b log b) > 0` because both gaps are at least `eps`
(where the clamp inside `_phi` is inactive).  Same reading as for order 3: a well-defined finite
function through the three knots in exact arithmetic; float conditioning is not covered. -/
theorem C08_thinplate_warp_exists_unique {eps mu : Rat} {T len : Nat} (hT : 1 ≤ T) (hl : 1 ≤ len)
    (he : 0 < eps) (hm0 : 0 ≤ mu) (hm1 : mu ≤ 1) (src flow : Rat) :
    let k := warpKnots eps mu T len src flow
    (∃ w1 w2 w3 v1 v0 : ℝ, SplineSystemR (phi2 (eps : ℝ)) k.c1 k.c2 k.c3 k.y2 w1 w2 w3 v1 v0) ∧
    (∀ w1 w2 w3 v1 v0 w1' w2' w3' v1' v0' : ℝ,
      SplineSystemR (phi2 (eps : ℝ)) k.c1 k.c2 k.c3 k.y2 w1 w2 w3 v1 v0 →
      SplineSystemR (phi2 (eps : ℝ)) k.c1 k.c2 k.c3 k.y2 w1' w2' w3' v1' v0' →
      w1 = w1' ∧ w2 = w2' ∧ w3 = w3' ∧ v1 = v1' ∧ v0 = v0') := by
  intro k
  have hf := warpKnots_facts hT hl (le_of_lt he) hm0 hm1 src flow
  have heR : (0 : ℝ) < (eps : ℝ) := by exact_mod_cast he
  have ha : (eps : ℝ) ≤ (k.c2 : ℝ) - (k.c1 : ℝ) := by
    have := hf.c2_lo
    have h' : ((k.c1 + eps : Rat) : ℝ) ≤ ((k.c2 : Rat) : ℝ) := by exact_mod_cast this
    push_cast at h'; linarith
  have hb : (eps : ℝ) ≤ (k.c3 : ℝ) - (k.c2 : ℝ) := by
    have := hf.c2_hi
    have h' : ((k.c2 : Rat) : ℝ) ≤ ((k.c3 - eps : Rat) : ℝ) := by exact_mod_cast this
    push_cast at h'; linarith
  have h12 : (k.c1 : ℝ) < (k.c2 : ℝ) := by linarith
  have h23 : (k.c2 : ℝ) < (k.c3 : ℝ) := by linarith
  have h0 := phi2_zero (eps : ℝ)
  have hQ := poly3Q_phi2 heR ha hb
  have hab : ((k.c2 : ℝ) - (k.c1 : ℝ)) + ((k.c3 : ℝ) - (k.c2 : ℝ)) ≠ 0 := by intro h; linarith
  constructor
  · obtain ⟨w1, w2, w3, v1, v0, S⟩ := Poly3Sys.exists (k.c1 : ℝ) ((k.c2 : ℝ) - (k.c1 : ℝ))
      ((k.c3 : ℝ) - (k.c2 : ℝ)) (phi2 (eps : ℝ) ((k.c2 : ℝ) - (k.c1 : ℝ)))
      (phi2 (eps : ℝ) ((k.c3 : ℝ) - (k.c2 : ℝ)))
      (phi2 (eps : ℝ) (((k.c2 : ℝ) - (k.c1 : ℝ)) + ((k.c3 : ℝ) - (k.c2 : ℝ)))) (k.c1 : ℝ) (k.y2 : ℝ) (k.c3 : ℝ)
      (by norm_num) hab hQ
    exact ⟨w1, w2, w3, v1, v0, (splineSystemR_iff h0 h12 h23 _ _ _ _ _).mpr S⟩
  · intro w1 w2 w3 v1 v0 w1' w2' w3' v1' v0' S S'
    exact Poly3Sys.unique (by norm_num) (by intro h; linarith) hab hQ
      ((splineSystemR_iff h0 h12 h23 _ _ _ _ _).mp S) ((splineSystemR_iff h0 h12 h23 _ _ _ _ _).mp S')

/-- The hypotheses of both are those of `C08_linear_warp_spline` (satisfiable: float32, `T = len = 10`). -/
example : ∃ w1 w2 w3 v1 v0, SplineSystemPhi phi3 (warpKnots (1/8388608) 0 10 10 5 2) w1 w2 w3 v1 v0 :=
  (C08_cubic_warp_exists_unique (by norm_num) (by norm_num) (by norm_num) (le_refl _) (by norm_num) 5 2).1

/-- (audit) `C08_cubic_warp_model` is not vacuous: for every size, length, source point and flow
the order-3 system for the knots of `warp_1d_grid` has a solution (the hypothesis `S`), and its
values on the frame centres are `warpGrid3`. -/
theorem C08_cubic_warp_model_nonvacuous {eps : Rat} {T len : Nat} (hT : 1 ≤ T) (hl : 1 ≤ len) (he : 0 < eps)
    (src flow : Rat) :
    ∃ w1 w2 w3 v1 v0, SplineSystemPhi phi3 (warpKnots eps 0 T len src flow) w1 w2 w3 v1 v0 ∧
      (List.range T).map (fun (j : Nat) =>
        splineEvalPhi phi3 (warpKnots eps 0 T len src flow).c1 (warpKnots eps 0 T len src flow).c2
          (warpKnots eps 0 T len src flow).c3 w1 w2 w3 v1 v0 (norm T (j : Rat)))
      = warpGrid3 eps T len src flow := by
  obtain ⟨w1, w2, w3, v1, v0, S⟩ :=
    (C08_cubic_warp_exists_unique hT hl he (le_refl 0) (by norm_num) src flow).1
  exact ⟨w1, w2, w3, v1, v0, S, C08_cubic_warp_model hT hl he src flow S⟩

/-- (audit) An actual order-3 warp (`T = len = 5`, frame 2 moved to 3): the exact cubic grid is
neither the identity nor the order-1 grid; the moved knot (frame 3) reads the centre of frame 2
(grid value `0`). -/
example : warpGrid3 (1/8388608) 5 5 2 1 ≠ idGrid 5 ∧
    warpGrid3 (1/8388608) 5 5 2 1 ≠ warpGridWith (1/8388608) 0 5 5 2 1 ∧
    (warpGrid3 (1/8388608) 5 5 2 1)[3]? = some 0 := by
  have h1 : warpGrid3 (1/8388608) 5 5 2 1 ≠ idGrid 5 := by decide +kernel
  have h2 : warpGrid3 (1/8388608) 5 5 2 1 ≠ warpGridWith (1/8388608) 0 5 5 2 1 := by decide +kernel
  have h3 : (warpGrid3 (1/8388608) 5 5 2 1)[3]? = some 0 := by decide +kernel
  exact ⟨h1, h2, h3⟩

/-- (audit) `C08_thinplate_warp_exists_unique` applied to the same warp (all hypotheses together). -/
example := C08_thinplate_warp_exists_unique (eps := 1/8388608) (mu := 0) (T := 5) (len := 5)
  (by norm_num) (by norm_num) (by norm_num) (le_refl 0) (by norm_num) 2 1

/-! ## range -/

/-- **C08_in_range**: bilinear interpolation with border clamping is a convex combination of
input cells: for *any* (finite) grid coordinates every resampled value lies within the
range of the input image. -/
theorem C08_in_range {img : List (List Rat)} {T F : Nat} {lo hi : Rat} (hT : 1 ≤ T) (hF : 1 ≤ F)
    (H : CellsIn img T F lo hi) (tg fg : List Rat) :
    InRange lo hi (gridSample img T F tg fg) := by
  intro row hrow v hv
  simp only [gridSample] at hrow
  obtain ⟨gy, _, rfl⟩ := List.mem_map.mp hrow
  obtain ⟨gx, _, rfl⟩ := List.mem_map.mp hv
  exact bilinear_mem hT hF H gy gx

/-- Masking only introduces zeros: the range widens to the hull with `0`. -/
theorem C08_in_range_masks {x : List (List Rat)} {lo hi : Rat} (H : InRange lo hi x)
    (tm fm : List (Int × Int)) : InRange (rmin lo 0) (rmax hi 0) (applyMasks x tm fm) := by
  intro row hrow v hv
  simp only [applyMasks] at hrow
  obtain ⟨j, hj, rfl⟩ := List.mem_iff_getElem.mp hrow
  obtain ⟨k, hk, rfl⟩ := List.mem_iff_getElem.mp hv
  simp only [List.getElem_mapIdx]
  split
  · exact ⟨rmin_le_right _ _, le_rmax_right _ _⟩
  · simp only [List.length_mapIdx] at hj hk
    have := H _ (List.getElem_mem hj) _ (List.getElem_mem (by simpa using hk))
    exact ⟨le_trans (rmin_le_left _ _) this.1, le_trans this.2 (le_rmax_left _ _)⟩

/-- **C08_apply_in_range** (audit; `C08_in_range` + `C08_in_range_masks` carried through to
`spec_augment_apply_parameters`): for a `T × F` input whose entries lie in `[lo, hi]` and *any*
parameters — no warp, a time warp, a frequency warp, both, any masks, any length — every entry of
the output lies in the hull of `[lo, hi]` and `0`.  (Order 1; for orders ≥ 2 the same follows from
`C08_in_range` for any finite grid, the finiteness of the float32 grid is not proved.) -/
theorem C08_apply_in_range {x : List (List Rat)} {T F : Nat} {lo hi : Rat} (epsG : Rat) (len : Nat)
    (p : Params) (hT : 1 ≤ T) (hF : 1 ≤ F) (hx : x.length = T) (hr : ∀ r ∈ x, r.length = F)
    (H : CellsIn x T F lo hi) :
    InRange (rmin lo 0) (rmax hi 0) (applyParams epsG x T F len p) := by
  by_cases hw : (p.warpT.isSome || p.warpF.isSome) = true
  · rw [C08_apply_warp_grids epsG x T F len p hw]
    exact C08_in_range_masks (C08_in_range hT hF H _ _) _ _
  · rw [applyParams_nowarp epsG x T F len p hw]
    exact C08_in_range_masks (cellsIn_inRange hx hr H) _ _

theorem C08_exCells : CellsIn [[1, 2], [3, 4]] 2 2 1 4 := by
  intro j k hj hk
  have : j = 0 ∨ j = 1 := by omega
  have : k = 0 ∨ k = 1 := by omega
  rcases ‹j = 0 ∨ j = 1› with rfl | rfl <;> rcases ‹k = 0 ∨ k = 1› with rfl | rfl <;> norm_num

/-- (audit) `C08_in_range`, `C08_in_range_masks`, `C08_apply_in_range` with all hypotheses together on
actual grids (time: frame 0 moved to 1/2; frequency: coefficient 1 moved to 1/2): three of the four
cells are genuinely resampled, all stay in `[1, 4]`; with a mask on top in `[0, 4]`. -/
theorem C08_in_range_nonvacuous :
    gridSample [[1, 2], [3, 4]] 2 2 (warpGrid (1/8388608) 2 2 0 (1/2)) (warpGrid (1/8388608) 2 2 1 (-1/2))
      = [[8388611 / 8388610, 2], [25165829 / 8388610, 16777219 / 4194305]] ∧
    InRange 1 4
      (gridSample [[1, 2], [3, 4]] 2 2 (warpGrid (1/8388608) 2 2 0 (1/2)) (warpGrid (1/8388608) 2 2 1 (-1/2))) ∧
    InRange (rmin 1 0) (rmax 4 0)
      (applyParams (1/8388608) [[1, 2], [3, 4]] 2 2 2 ⟨some (0, 1/2), some (1, -1/2), [(1, 1)], []⟩) := by
  have h1 : gridSample [[1, 2], [3, 4]] 2 2 (warpGrid (1/8388608) 2 2 0 (1/2)) (warpGrid (1/8388608) 2 2 1 (-1/2))
      = [[8388611 / 8388610, 2], [25165829 / 8388610, 16777219 / 4194305]] := by decide +kernel
  exact ⟨h1, C08_in_range (by norm_num) (by norm_num) C08_exCells _ _,
    C08_apply_in_range (1/8388608) 2 _ (by norm_num) (by norm_num) rfl (by decide) C08_exCells⟩

end PdtVerif.SpecAugment
