import PdtVerif.Lemmas.ErrorRate
import PdtVerif.Lemmas.ErrorRateOracle
import PdtVerif.Lemmas.ErrorRateBatch
import PdtVerif.Lemmas.ErrorRateFast
import PdtVerif.Lemmas.ErrorRatePad
/-!
# C02 — error rate counts the edits of some minimum-cost alignment

Model: `Model/ErrorRate.lean` (the `return_mistakes` branch of `_string_matching` with its exact
tie-breaking, the uniform-cost shortcut, freezing, normalisation, prefix padding).
Spec: `Spec/Levenshtein.lean` (`Aligns`, `scriptCost`, `numEdits`, `lev`) and
`Spec/ErrorRate.lean` (`cut`, `IsOptimal`, `CountOfOptimal`, the enumeration oracle).

`ref`, `hyp` are whole padded columns of the batch; `cut … ref`, `cut … hyp` the transcripts
they stand for. All statements hold for **every** cost triple (no sign condition) unless a
hypothesis says otherwise, every column length and every token type with decidable equality.
-/
set_option linter.unusedSectionVars false

namespace PdtVerif.ErrorRate
open PdtVerif.Lev

variable {α : Type} [DecidableEq α]

/-- **Every cell of the paired table is realised.** After `k` iterations of the `hyp_idx` loop
(with freezing after `lim` steps: `lim = hypLen`, or `hypLen - 1` under `exclude_last`), cell
`j` of the table holds `(cost, m)` such that some edit script turns the reference prefix
`ref.take j` into the hypothesis prefix, costs exactly `cost`, makes exactly `m` edits, and
`cost` is the weighted Levenshtein distance — i.e. no script is cheaper. -/
theorem C02_realised (c : Costs) (ref hyp : List α) (hypLen : Nat) (excl : Bool) (k j : Nat)
    (hk : k ≤ (stepTokens hyp excl).length) (hj : j ≤ ref.length) :
    ∃ row cell s, (rowsP c ref hyp hypLen excl)[k]? = some row ∧ row[j]? = some cell ∧
      Aligns s (ref.take j) (hyp.take (min k (lim excl hypLen))) ∧
      scriptCost c s = cell.1 ∧ numEdits s = cell.2 ∧
      cell.1 = lev c (ref.take j) (hyp.take (min k (lim excl hypLen))) ∧
      ∀ s', Aligns s' (ref.take j) (hyp.take (min k (lim excl hypLen))) → cell.1 ≤ scriptCost c s' := by
  have hrow : (rowsP c ref hyp hypLen excl)[k]?
      = some (tableRow c ref (hyp.take (min k (lim excl hypLen)))) := by
    unfold rowsP
    rw [rows_eq, List.getElem?_map, List.getElem?_range (by omega)]
    simp only [Option.map_some]
    rw [stepTokens_take hyp excl _ (by omega)]
    rfl
  obtain ⟨cell, e, ⟨s, a, e1, e2⟩, elev⟩ :=
    (tableRow_ok c ref (hyp.take (min k (lim excl hypLen)))).getElem? j hj
  exact ⟨_, cell, s, hrow, e, a, e1, e2, elev, fun s' a' => by rw [elev]; exact lev_le_scriptCost c a'⟩

/-- **The reported error rate**: for every configuration and every pair of columns there is a
minimum-cost alignment of the two transcripts whose number of edits `m` is what `error_rate`
reports (before normalisation; `normScalar` is spelled out in `C02_norm_conventions`). -/
theorem C02_scalar (cfg : Config α) (ref hyp : List α) :
    ∃ m : Nat,
      CountOfOptimal cfg.costs (cut cfg.eos cfg.includeEos ref) (cut cfg.eos cfg.includeEos hyp) m ∧
      errorRateCol cfg ref hyp
        = normScalar cfg.norm (cut cfg.eos cfg.includeEos ref).length
            (cut cfg.eos cfg.includeEos hyp).length (m : Rat) := by
  rw [errorRateCol_eq, cut_length, cut_length, cut_eq_take, cut_eq_take]
  obtain ⟨⟨m, hv, hc⟩, _⟩ := valueAt_spec cfg.costs ref (seqLen cfg.eos cfg.includeEos ref)
    (seqLen_le _ _ _) (hyp.take (seqLen cfg.eos cfg.includeEos hyp))
  exact ⟨m, hc, by rw [hv]⟩

/-- **Bounds.** The un-normalised error rate never falls below the fewest nor exceeds the most
edits found among minimum-cost alignments of the two transcripts. -/
theorem C02_bounds (cfg : Config α) (hn : cfg.norm = false) (ref hyp : List α) (lo hi : Nat)
    (hlo : ∀ s, IsOptimal cfg.costs (cut cfg.eos cfg.includeEos ref) (cut cfg.eos cfg.includeEos hyp) s →
      lo ≤ numEdits s)
    (hhi : ∀ s, IsOptimal cfg.costs (cut cfg.eos cfg.includeEos ref) (cut cfg.eos cfg.includeEos hyp) s →
      numEdits s ≤ hi) :
    (lo : Rat) ≤ errorRateCol cfg ref hyp ∧ errorRateCol cfg ref hyp ≤ (hi : Rat) := by
  obtain ⟨m, ⟨s, hs, hm⟩, he⟩ := C02_scalar cfg ref hyp
  rw [he, hn]
  simp only [normScalar, Bool.false_eq_true, if_false]
  have h1 := hlo s hs
  have h2 := hhi s hs
  rw [hm] at h1 h2
  exact ⟨by exact_mod_cast h1, by exact_mod_cast h2⟩

/-- **Equal costs.** Whenever the three costs are equal and positive the un-normalised error
rate is the plain (unit-cost) Levenshtein distance of the two transcripts … -/
theorem C02_equal_costs (cfg : Config α) (h1 : cfg.costs.ins = cfg.costs.del)
    (h2 : cfg.costs.del = cfg.costs.sub) (h3 : 0 < cfg.costs.sub) (ref hyp : List α) :
    errorRateCol cfg ref hyp
      = normScalar cfg.norm (cut cfg.eos cfg.includeEos ref).length
          (cut cfg.eos cfg.includeEos hyp).length
          (lev unitCosts (cut cfg.eos cfg.includeEos ref) (cut cfg.eos cfg.includeEos hyp)) := by
  rw [errorRateCol_eq, cut_length, cut_length, cut_eq_take, cut_eq_take]
  have hs : useShortcut cfg.costs = true := (useShortcut_iff _).2 ⟨h1, h2, h3⟩
  rw [(valueAt_spec cfg.costs ref (seqLen cfg.eos cfg.includeEos ref) (seqLen_le _ _ _)
    (hyp.take (seqLen cfg.eos cfg.includeEos hyp))).2 hs]

/-- … which is the fewest edits of *any* script turning the reference into the hypothesis. -/
theorem C02_plain_levenshtein (r h : List α) :
    ∃ s : List (Edit α), Aligns s r h ∧ lev unitCosts r h = (numEdits s : Rat)
      ∧ ∀ s', Aligns s' r h → numEdits s ≤ numEdits s' :=
  lev_unit_eq_numEdits r h

/-- **Normalisation and the empty-reference conventions**, scalar and per-prefix form.
DEFINITIONAL (audit): `normScalar` / `normPrefix` are model functions and this is their definition read out case
by case; it says nothing about the code by itself and is NOT counted as an obligation. It is kept because
`C02_scalar`, `C02_equal_costs` and `C02_prefix` are stated in terms of these two functions: this is how to read
them (divide by `|ref'|`; empty reference: 0 for an empty hypothesis / prefix, 1 otherwise). -/
theorem C02_norm_conventions (rl hl k : Nat) (v : Rat) :
    normScalar false rl hl v = v ∧ normPrefix false rl k v = v
    ∧ (0 < rl → normScalar true rl hl v = v / (rl : Rat) ∧ normPrefix true rl k v = v / (rl : Rat))
    ∧ normScalar true 0 0 v = 0 ∧ (0 < hl → normScalar true 0 hl v = 1)
    ∧ normPrefix true 0 0 v = 0 ∧ (0 < k → normPrefix true 0 k v = 1) := by
  refine ⟨by simp [normScalar], by simp [normPrefix], fun h => ?_, by simp [normScalar],
    fun h => ?_, by simp [normPrefix], fun h => ?_⟩
  · have : rl ≠ 0 := by omega
    simp [normScalar, normPrefix, this]
  · simp [normScalar, h]
  · simp [normPrefix, h]

/-- **The per-prefix variant.** The column of `prefix_error_rates` has `H + 1` entries (`H` under
`exclude_last`). Entry `k` is the padding value past the hypothesis's own length
(`k > |hyp'|`, or `k ≥ |hyp'|` under `exclude_last`); otherwise it is the (normalised) number of
edits of a minimum-cost alignment of the reference with the length-`k` prefix of the hypothesis
(and the plain Levenshtein distance of that pair when the costs are equal and positive). -/
theorem C02_prefix (cfg : Config α) (ref hyp : List α) :
    let r' := cut cfg.eos cfg.includeEos ref
    let h' := cut cfg.eos cfg.includeEos hyp
    let out := prefixErrorRatesCol cfg ref hyp
    let e := if cfg.excludeLast then 0 else 1
    out.length = hyp.length + e ∧
    ∀ k, k < hyp.length + e →
      (h'.length + e ≤ k → out[k]? = some (cfg.padding : Rat)) ∧
      (k < h'.length + e →
        ∃ m : Nat, CountOfOptimal cfg.costs r' (h'.take k) m ∧
          out[k]? = some (normPrefix cfg.norm r'.length k (m : Rat)) ∧
          (cfg.costs.ins = cfg.costs.del → cfg.costs.del = cfg.costs.sub → 0 < cfg.costs.sub →
            (m : Rat) = lev unitCosts r' (h'.take k))) := by
  intro r' h' out e
  have hout : out = _ := prefixErrorRatesCol_eq cfg ref hyp
  have hlen : out.length = hyp.length + e := by rw [hout]; simp [prefixRows, e]
  refine ⟨hlen, fun k hk => ?_⟩
  have hget : out[k]? = some (if k ≥ seqLen cfg.eos cfg.includeEos hyp + e then (cfg.padding : Rat)
      else normPrefix cfg.norm (seqLen cfg.eos cfg.includeEos ref) k
        (valueAt cfg.costs ref (seqLen cfg.eos cfg.includeEos ref) (hyp.take k))) := by
    rw [hout, List.getElem?_map, List.getElem?_range (by simpa [prefixRows, e] using hk)]
    rfl
  have hh : h'.length = seqLen cfg.eos cfg.includeEos hyp := cut_length _ _ _
  constructor
  · intro hge
    rw [hget, if_pos (by omega)]
  · intro hlt
    rw [hget, if_neg (by omega)]
    obtain ⟨⟨m, hv, hc⟩, hsc⟩ := valueAt_spec cfg.costs ref (seqLen cfg.eos cfg.includeEos ref)
      (seqLen_le _ _ _) (hyp.take k)
    have htake : h'.take k = hyp.take k := by
      show (cut cfg.eos cfg.includeEos hyp).take k = hyp.take k
      rw [cut_eq_take, List.take_take]
      congr 1
      have : k ≤ seqLen cfg.eos cfg.includeEos hyp := by
        have : e ≤ 1 := by simp only [e]; split <;> omega
        omega
      omega
    refine ⟨m, ?_, ?_, ?_⟩
    · show CountOfOptimal cfg.costs (cut cfg.eos cfg.includeEos ref) (h'.take k) m
      rw [htake, cut_eq_take]; exact hc
    · show _ = some (normPrefix cfg.norm (cut cfg.eos cfg.includeEos ref).length k (m : Rat))
      rw [cut_length, hv]
    · intro h1 h2 h3
      show (m : Rat) = lev unitCosts (cut cfg.eos cfg.includeEos ref) (h'.take k)
      rw [htake, cut_eq_take, ← hv]
      exact hsc ((useShortcut_iff _).2 ⟨h1, h2, h3⟩)

/-- The code's length computation names exactly the transcript of the spec. -/
theorem C02_cut (eos : Option α) (inc : Bool) (col : List α) :
    cut eos inc col = col.take (seqLen eos inc col) ∧ seqLen eos inc col ≤ col.length :=
  ⟨cut_eq_take eos inc col, seqLen_le eos inc col⟩

/-- After the shortcut the code's vectorised step (`min`, then the `del_mat` minimum) equals the
sequential sweep `v[i] = min(v[i], v[i-1] + d)` of the shared Levenshtein row model. -/
theorem C02_delmat_eq_sweep (c : Costs) (ref : List α) (y : α) (row : List Rat) :
    stepPlain c ref y true row = stepRow c ref y row :=
  stepPlain_eq c ref y row

/-- **The enumeration oracle is exact**: the list the driver computes by brute force contains
exactly the edit counts of minimum-cost alignments (`allScripts` = all scripts with `Aligns`). -/
theorem C02_oracle (c : Costs) (r h : List α) (m : Nat) :
    m ∈ optimalEditCounts c r h ↔ CountOfOptimal c r h m :=
  mem_optimalEditCounts c r h m

/-- `C02_bounds` against the executable oracle `minEdits` / `maxEdits`. -/
theorem C02_bounds_oracle (cfg : Config α) (hn : cfg.norm = false) (ref hyp : List α) (lo hi : Nat)
    (hlo : minEdits cfg.costs (cut cfg.eos cfg.includeEos ref) (cut cfg.eos cfg.includeEos hyp) = some lo)
    (hhi : maxEdits cfg.costs (cut cfg.eos cfg.includeEos ref) (cut cfg.eos cfg.includeEos hyp) = some hi) :
    (lo : Rat) ≤ errorRateCol cfg ref hyp ∧ errorRateCol cfg ref hyp ≤ (hi : Rat) := by
  apply C02_bounds cfg hn ref hyp lo hi
  · intro s hs
    have hm := (C02_oracle cfg.costs _ _ (numEdits s)).2 ⟨s, hs, rfl⟩
    have := List.min?_getD_le_of_mem (k := 0) hm
    unfold minEdits at hlo
    rwa [hlo] at this
  · intro s hs
    have hm := (C02_oracle cfg.costs _ _ (numEdits s)).2 ⟨s, hs, rfl⟩
    have := List.le_max?_getD_of_mem (k := 0) hm
    unfold maxEdits at hhi
    rwa [hhi] at this

/-- **Minimum-error-rate loss, element `(n, m)`**: softmax weight (an input — softmax is a
trusted primitive) × (error rate of `hyp_{n,m}` against `ref_{n,m}` − mean over the `M` samples
of element `n` if `sub_avg`). The flattening of batch × samples to `N·M` columns (index
`n·M + m`) and the `view(N, M)` back agree for both layouts (`batch_first` or not). -/
theorem C02_mer (cfg : Config α) (subAvg bf : Bool) (N M : Nat)
    (ref hyp : List (List (List α))) (w : List (List Rat)) (dflt : α)
    (hr : WellShaped bf N M ref) (hh : WellShaped bf N M hyp)
    (hwN : w.length = N) (hwM : ∀ row ∈ w, row.length = M)
    (n m : Nat) (hn : n < N) (hm : m < M) :
    ((merElems cfg subAvg bf N M ref hyp w dflt).getD n []).getD m 0
      = (errorRateCol cfg (seqAt bf ref n m dflt) (seqAt bf hyp n m dflt)
          - (if subAvg then
              ((List.range M).map (fun m' =>
                errorRateCol cfg (seqAt bf ref n m' dflt) (seqAt bf hyp n m' dflt))).sum / (M : Rat)
             else 0))
        * ((w.getD n []).getD m 0) :=
  merElems_getD cfg subAvg bf N M ref hyp w dflt hr hh hwN hwM n m hn hm

/-- A 2-D reference is the same reference for every sample: `repeat` yields a well-shaped 3-D
tensor whose sequence `(n, m)` is `ref_n`. -/
theorem C02_mer_ref2 (bf : Bool) (N M : Nat) (ref2 : List (List α)) (dflt : α)
    (h2 : if bf then ref2.length = N else ∀ row ∈ ref2, row.length = N)
    (n m : Nat) (hn : n < N) (hm : m < M) :
    WellShaped bf N M (repeatRef bf M ref2) ∧
    seqAt bf (repeatRef bf M ref2) n m dflt
      = (if bf then ref2.getD n [] else ref2.map (fun row => row.getD n dflt)) := by
  cases bf with
  | true =>
    simp only [if_true] at h2
    refine ⟨?_, ?_⟩
    · simp only [WellShaped, repeatRef, if_true, List.length_map, List.mem_map]
      exact ⟨h2, by rintro p ⟨q, _, rfl⟩; simp⟩
    · have hn' : n < ref2.length := by omega
      simp [seqAt, repeatRef, List.getD_eq_getElem?_getD, List.getElem?_eq_getElem hn', hm]
  | false =>
    simp only [Bool.false_eq_true, if_false] at h2
    refine ⟨?_, ?_⟩
    · simp only [WellShaped, repeatRef, Bool.false_eq_true, if_false, List.mem_map]
      rintro p ⟨row, hrow, rfl⟩
      refine ⟨by simpa using h2 row hrow, ?_⟩
      intro r hr
      obtain ⟨tok, _, rfl⟩ := List.mem_map.1 hr
      simp
    · simp only [seqAt, repeatRef, Bool.false_eq_true, if_false, List.map_map]
      apply List.map_congr_left
      intro row hrow
      have hn' : n < row.length := by rw [h2 row hrow]; exact hn
      simp [List.getD_eq_getElem?_getD, List.getElem?_eq_getElem hn', hm]

/-- The reductions. DEFINITIONAL (audit): `rfl` three times — `reduce` is written like this; kept for
documentation, NOT counted as an obligation. That the code reduces this way is correspondence-only. -/
theorem C02_mer_reduce (l : List (List Rat)) :
    reduce .none l = .inl l ∧ reduce .sum l = .inr l.flatten.sum
      ∧ reduce .mean l = .inr (l.flatten.sum / (l.flatten.length : Rat)) :=
  ⟨rfl, rfl, rfl⟩

/-! ### The polynomial oracle is exact (improvement round) -/

/-- **The set-carrying DP `optCounts` is exact**: its cost is the weighted Levenshtein distance
and its count list has exactly the members of the brute-force enumeration `optimalEditCounts`
(which `C02_oracle` identifies with the edit counts of minimum-cost alignments). Every cost
triple, every pair of strings — so the oracle the harness uses for sequences too long to
enumerate is itself proved. -/
theorem C02_optCounts_exact (c : Costs) (r h : List α) :
    (optCounts c r h).1 = lev c r h ∧
      ∀ m, m ∈ (optCounts c r h).2 ↔ m ∈ optimalEditCounts c r h := by
  obtain ⟨e, hm⟩ := optCounts_ok c r h
  exact ⟨e, fun m => by rw [hm, mem_optimalEditCounts]⟩

/-- … hence the bounds the harness reads from it are those of the brute force. -/
theorem C02_optCounts_min_max (c : Costs) (r h : List α) :
    (optCounts c r h).2.min? = minEdits c r h ∧ (optCounts c r h).2.max? = maxEdits c r h :=
  ⟨min?_congr (C02_optCounts_exact c r h).2, max?_congr (C02_optCounts_exact c r h).2⟩

/-- The per-prefix oracle: `|h| + 1` entries, entry `k` exact for the hypothesis prefix
`h.take k`. -/
theorem C02_optCounts_prefixes (c : Costs) (r h : List α) :
    (optCountsPrefixes c r h).length = h.length + 1 ∧
    ∀ k, k ≤ h.length → ∃ cell, (optCountsPrefixes c r h)[k]? = some cell ∧
      cell.1 = lev c r (h.take k) ∧
      (∀ m, m ∈ cell.2 ↔ m ∈ optimalEditCounts c r (h.take k)) ∧
      cell.2.min? = minEdits c r (h.take k) ∧ cell.2.max? = maxEdits c r (h.take k) := by
  obtain ⟨hlen, hk⟩ := optCountsPrefixes_ok c r h
  refine ⟨hlen, fun k hkl => ?_⟩
  have hlt : k < (optCountsPrefixes c r h).length := by omega
  refine ⟨(optCountsPrefixes c r h)[k], List.getElem?_eq_getElem hlt, ?_⟩
  obtain ⟨e, hm⟩ := hk k _ (List.getElem?_eq_getElem hlt)
  have hmem : ∀ m, m ∈ ((optCountsPrefixes c r h)[k]).2 ↔ m ∈ optimalEditCounts c r (h.take k) :=
    fun m => by rw [hm, mem_optimalEditCounts]
  exact ⟨e, hmem, min?_congr hmem, max?_congr hmem⟩

/-- `C02_bounds` against the polynomial oracle (what the harness checks for long sequences). -/
theorem C02_bounds_fast_oracle (cfg : Config α) (hn : cfg.norm = false) (ref hyp : List α) (lo hi : Nat)
    (hlo : (optCounts cfg.costs (cut cfg.eos cfg.includeEos ref) (cut cfg.eos cfg.includeEos hyp)).2.min? = some lo)
    (hhi : (optCounts cfg.costs (cut cfg.eos cfg.includeEos ref) (cut cfg.eos cfg.includeEos hyp)).2.max? = some hi) :
    (lo : Rat) ≤ errorRateCol cfg ref hyp ∧ errorRateCol cfg ref hyp ≤ (hi : Rat) := by
  rw [(C02_optCounts_min_max _ _ _).1] at hlo
  rw [(C02_optCounts_min_max _ _ _).2] at hhi
  exact C02_bounds_oracle cfg hn ref hyp lo hi hlo hhi

/-- one substitution (1 edit) ties with insertion + deletion (2 edits) when `ins + del = sub` -/
example : optCounts (α := Int) ⟨1, 1, 2⟩ [0] [1] = (2, [1, 2]) := by decide +kernel
example : (optCountsPrefixes (α := Int) ⟨1, 2, 3⟩ [0, 1] [1, 0, 1]) = [(4, [2]), (2, [1]), (3, [2]), (1, [1])] := by
  decide +kernel

/-! ### Batches: independent columns, `batch_first` = transposition (improvement round) -/

/-- **A batch is its columns.** `error_rate` on a batch of `N` pairs returns `N` values and value
`n` is the per-pair function of sequence `n` of the two tensors (`column`: row `n` when
`batch_first`, column `n` otherwise) — nothing else of the batch enters. -/
theorem C02_batch_columns (cfg : Config α) (bf : Bool) (N : Nat) (ref hyp : List (List α)) (d : α)
    (hr : bf = true → ref.length = N) (hh : bf = true → hyp.length = N) :
    (errorRateBatch cfg bf N ref hyp d).length = N ∧
    ∀ n, n < N → (errorRateBatch cfg bf N ref hyp d)[n]?
      = some (errorRateCol cfg (column bf ref n d) (column bf hyp n d)) :=
  ⟨errorRateBatch_length cfg bf N ref hyp d hr hh,
   fun n hn => errorRateBatch_getElem? cfg bf N ref hyp d hr hh n hn⟩

/-- **Per-column independence**: two batches — of any sizes, in any layouts, with anything in
their other columns, with any padded lengths elsewhere — that hold the same pair of sequences at
positions `n` and `n'` report the same value there. -/
theorem C02_batch_independent (cfg : Config α) (bf bf' : Bool) (N N' : Nat)
    (ref hyp ref' hyp' : List (List α)) (d : α)
    (hr : bf = true → ref.length = N) (hh : bf = true → hyp.length = N)
    (hr' : bf' = true → ref'.length = N') (hh' : bf' = true → hyp'.length = N')
    (n n' : Nat) (hn : n < N) (hn' : n' < N')
    (er : column bf ref n d = column bf' ref' n' d) (eh : column bf hyp n d = column bf' hyp' n' d) :
    (errorRateBatch cfg bf N ref hyp d)[n]? = (errorRateBatch cfg bf' N' ref' hyp' d)[n']? := by
  rw [errorRateBatch_getElem? cfg bf N ref hyp d hr hh n hn,
    errorRateBatch_getElem? cfg bf' N' ref' hyp' d hr' hh' n' hn', er, eh]

/-- **`batch_first` is a transposition**: the batch-first call on the transposed tensors gives
the sequence-first result, and `transpose` is the index swap `t'[n][l] = t[l][n]`.
(Audit: the first conjunct is `rfl` — the batch model reads a sequence-first tensor through `transpose`; the
content is the second conjunct. The batch model `errorRateBatch` is per column BY CONSTRUCTION
(`zipWith errorRateCol` over the columns): `C02_batch_*` / `C02_prefix_batch*` establish the index bookkeeping of
that wrapper (which row / column / table entry belongs to pair `n`), not that the code's vectorised operations
keep the pairs apart — that is correspondence-only.) -/
theorem C02_batch_first_transpose (cfg : Config α) (N : Nat) (ref hyp : List (List α)) (d : α) :
    errorRateBatch cfg true N (transpose N ref d) (transpose N hyp d) d
      = errorRateBatch cfg false N ref hyp d ∧
    ∀ (t : List (List α)), (∀ row ∈ t, row.length = N) → ∀ n l : Nat, n < N →
      ((transpose N t d)[n]?).bind (fun seq => seq[l]?) = (t[l]?).bind (fun row => row[n]?) :=
  ⟨rfl, fun t hw n l hn => transpose_getElem? N t d hw n l hn⟩

/-- **The per-prefix table of a batch**: entry (element `n`, prefix `k`) — `out[n][k]` when
`batch_first`, `out[k][n]` otherwise — is entry `k` of the per-sequence table (`C02_prefix`) of
sequence `n`. -/
theorem C02_prefix_batch (cfg : Config α) (bf : Bool) (N : Nat) (ref hyp : List (List α)) (d : α)
    (hr : bf = true → ref.length = N) (hh : bf = true → hyp.length = N)
    (hq : bf = true → ∀ row ∈ hyp, row.length = seqDim true hyp)
    (n k : Nat) (hn : n < N) (hk : k < prefixRows (seqDim bf hyp) cfg.excludeLast) :
    entry bf (prefixErrorRatesBatch cfg bf N ref hyp d) n k
      = (prefixErrorRatesCol cfg (column bf ref n d) (column bf hyp n d))[k]? :=
  prefixErrorRatesBatch_entry cfg bf N ref hyp d hr hh hq n k hn hk

/-- … so the batch-first table of the transposed tensors is the transposed sequence-first table. -/
theorem C02_prefix_batch_first_transpose (cfg : Config α) (N : Nat) (ref hyp : List (List α)) (d : α)
    (n k : Nat) (hn : n < N) (hk : k < prefixRows hyp.length cfg.excludeLast) :
    entry true (prefixErrorRatesBatch cfg true N (transpose N ref d) (transpose N hyp d) d) n k
      = entry false (prefixErrorRatesBatch cfg false N ref hyp d) n k := by
  have hdim : seqDim true (transpose N hyp d) = hyp.length := by
    obtain ⟨N', rfl⟩ : ∃ N', N = N' + 1 := ⟨N - 1, by omega⟩
    simp [seqDim, transpose, List.range_succ_eq_map]
  have hq : ∀ row ∈ transpose N hyp d, row.length = seqDim true (transpose N hyp d) := by
    intro row hrow
    rw [hdim]
    obtain ⟨n', _, rfl⟩ := List.mem_map.1 hrow
    simp
  rw [prefixErrorRatesBatch_entry cfg true N _ _ d (fun _ => by simp [transpose])
      (fun _ => by simp [transpose]) (fun _ => hq) n k hn (by rw [hdim]; exact hk),
    prefixErrorRatesBatch_entry cfg false N ref hyp d (fun h => by cases h) (fun h => by cases h)
      (fun h => by cases h) n k hn (by simpa [seqDim] using hk),
    column_transpose N ref d n hn, column_transpose N hyp d n hn]

/-- a ragged batch in both layouts: columns `([1,2] , [2,1])` and `([3,0], [3,0])`, eos `0` -/
example : errorRateBatch (α := Int) ⟨some 0, false, false, ⟨1, 1, 2⟩, false, -100⟩ false 2
    [[1, 3], [2, 0]] [[2, 3], [1, 0]] 0 = [2, 0] := by decide +kernel
example : errorRateBatch (α := Int) ⟨some 0, false, false, ⟨1, 1, 2⟩, false, -100⟩ true 2
    [[1, 2], [3, 0]] [[2, 1], [3, 0]] 0 = [2, 0] := by decide +kernel
example : transpose (α := Int) 2 [[1, 3], [2, 0]] 0 = [[1, 2], [3, 0]] := by decide
example : prefixErrorRatesBatch (α := Int) ⟨some 0, false, false, ⟨1, 1, 1⟩, false, -7⟩ false 2
    [[1, 3], [2, 0]] [[2, 3], [1, 0]] 0 = [[2, 1], [1, 0], [2, -7]] := by decide +kernel
example : prefixErrorRatesBatch (α := Int) ⟨some 0, false, false, ⟨1, 1, 1⟩, false, -7⟩ true 2
    [[1, 2], [3, 0]] [[2, 1], [3, 0]] 0 = [[2, 1, 2], [1, 0, -7]] := by decide +kernel

/-! ### Argument validation (improvement round) -/

/-- **`error_rate` / `prefix_error_rates` accept exactly** two 2-D tensors with the same batch
size (everything else is the `RuntimeError` of the code, `none` in the model). -/
theorem C02_pair_shapes (bf : Bool) (ref hyp : List Nat) (N R H : Nat) :
    checkPairShapes bf ref hyp = some (N, R, H) ↔
      ref = (if bf then [N, R] else [R, N]) ∧ hyp = (if bf then [N, H] else [H, N]) :=
  checkPairShapes_iff bf ref hyp N R H

/-- **`minimum_error_rate_loss` accepts exactly** `(N, M)` log-probabilities, an `(H, N, M)`
hypothesis tensor (`(N, M, H)` when `batch_first`), an `(R, N)` or `(R, N, M)` reference
(`(N, R)`, `(N, M, R)`), at least two samples and one of the three reductions. -/
theorem C02_mer_shapes (bf : Bool) (lp ref hyp : List Nat) (red : String) (N M R H : Nat) :
    checkMerShapes bf lp ref hyp red = some (N, M, R, H) ↔
      lp = [N, M] ∧ hyp = (if bf then [N, M, H] else [H, N, M]) ∧
      (ref = (if bf then [N, R] else [R, N]) ∨ ref = (if bf then [N, M, R] else [R, N, M])) ∧
      2 ≤ M ∧ (red = "mean" ∨ red = "sum" ∨ red = "none") :=
  checkMerShapes_iff bf lp ref hyp red N M R H

example : checkMerShapes false [2, 3] [4, 2] [5, 2, 3] "sum" = some (2, 3, 4, 5) := by decide
example : checkMerShapes true [2, 3] [2, 3, 4] [2, 3, 5] "none" = some (2, 3, 4, 5) := by decide
example : checkMerShapes false [2, 1] [4, 2] [5, 2, 1] "sum" = none := by decide
example : checkPairShapes true [2, 4] [3, 5] = none := by decide

/-! ### Non-vacuity and concrete instances -/

example : WellShaped false 1 2 ([[[1, 2]], [[3, 4]]] : List (List (List Int))) := by
  simp [WellShaped]

example : merElems (α := Int) ⟨none, false, true, ⟨1, 1, 2⟩, false, -100⟩ true false 1 2
    [[[1, 1]], [[2, 2]]] [[[2, 1]], [[1, 3]]] [[1/4, 3/4]] 0 = [[1/16, -3/16]] := by
  decide +kernel


/-- a tie with different edit counts: `ins + del = sub`; ref `[1,2]`, hyp `[2,1]` -/
example : errorRateCol (α := Int) ⟨none, false, false, ⟨1, 1, 2⟩, false, -100⟩ [1, 2] [2, 1] = 2 := by
  decide +kernel

example : errorRateCol (α := Int) ⟨some 0, true, true, ⟨1, 1, 1⟩, false, -100⟩ [1, 2, 0, 5] [2, 0, 0] = 1 / 3 := by
  decide +kernel

example : prefixErrorRatesCol (α := Int) ⟨some 0, false, true, ⟨1, 2, 3⟩, false, -7⟩ [0, 1] [1, 0, 1]
    = [0, 1, -7, -7] := by
  decide +kernel

/-- hypotheses of `C02_equal_costs` are satisfiable -/
example : (⟨1/2, 1/2, 1/2⟩ : Costs).ins = (⟨1/2, 1/2, 1/2⟩ : Costs).del ∧ (0 : Rat) < 1/2 := by
  constructor <;> decide +kernel

/-- an optimal script exists for every pair, so the hypotheses of `C02_bounds` are not vacuous -/
example (c : Costs) (r h : List α) : ∃ s, IsOptimal c r h s := by
  obtain ⟨s, a, e⟩ := lev_attained c r h
  exact ⟨s, a, fun s' a' => by rw [e]; exact lev_le_scriptCost c a'⟩

/-- Outside the property's domain (costs must be positive): with all costs `0` every script is
optimal and the count need not be the plain Levenshtein distance — the reason
`C02_equal_costs` asks for `0 < sub`. -/
theorem C02_zero_costs_counterexample :
    errorRateCol (α := Int) ⟨none, false, false, ⟨0, 0, 0⟩, false, -100⟩ [1, 2, 3] [1, 3] = 2
      ∧ lev unitCosts ([1, 2, 3] : List Int) [1, 3] = 1 := by
  constructor
  · decide +kernel
  · simp [lev, subCost, unitCosts]

/-! ### Audit: every theorem above applied to ONE concrete non-trivial instance (all its hypotheses together)

`audCfg`: eos `9` (not counted), no norm, costs (1, 1, 2) — `ins + del = sub`, so minimum-cost alignments with
DIFFERENT edit counts exist and the tie-breaking of the code matters. Padded columns `ref = [0,5,9,3]`
(garbage after the eos), `hyp = [1,5,9]`: transcripts `[0,5]` and `[1,5]`, optimal alignments make 1 edit
(substitute) or 2 edits (delete + insert); the code reports 1. -/

def audCfg : Config Int := ⟨some 9, false, false, ⟨1, 1, 2⟩, false, -100⟩

example : cut audCfg.eos audCfg.includeEos [0, 5, 9, 3] = [0, 5] ∧ cut audCfg.eos audCfg.includeEos [1, 5, 9] = [1, 5] := by
  decide
-- the fewest / most edits among minimum-cost alignments really differ here …
example : optCounts audCfg.costs [0, 5] [1, 5] = (2, [1, 2]) := by decide +kernel
-- … and the model reports the lower one (substitution wins the tie against insertion)
example : errorRateCol audCfg [0, 5, 9, 3] [1, 5, 9] = 1 := by decide +kernel
-- C02_realised: row 2 (the last live row; row 3 is frozen), cell 2 — and the table itself
example := C02_realised audCfg.costs [(0 : Int), 5, 9, 3] [1, 5, 9] 2 false 3 2 (by decide) (by decide)
example : rowsP ⟨1, 1, 2⟩ [(0 : Int), 5, 9, 3] [1, 5, 9] 2 false
    = [[(0, 0), (1, 1), (2, 2), (3, 3), (4, 4)], [(1, 1), (2, 1), (3, 2), (4, 3), (5, 4)],
       [(2, 2), (3, 2), (2, 1), (3, 2), (4, 3)], [(2, 2), (3, 2), (2, 1), (3, 2), (4, 3)]] := by decide +kernel
-- C02_bounds_fast_oracle (hence C02_bounds_oracle, C02_bounds) with the TIGHT bounds lo = 1 < hi = 2
example : (1 : Rat) ≤ errorRateCol audCfg [0, 5, 9, 3] [1, 5, 9] ∧ errorRateCol audCfg [0, 5, 9, 3] [1, 5, 9] ≤ (2 : Rat) := by
  have h := C02_bounds_fast_oracle audCfg rfl [0, 5, 9, 3] [1, 5, 9] 1 2 (by decide +kernel) (by decide +kernel)
  exact_mod_cast h
-- the hypotheses of C02_bounds_oracle / C02_bounds for the same instance, obtained through the proved oracle
theorem aud_minEdits : minEdits audCfg.costs (cut audCfg.eos audCfg.includeEos [0, 5, 9, 3])
    (cut audCfg.eos audCfg.includeEos [1, 5, 9]) = some 1 := by
  rw [← (C02_optCounts_min_max _ _ _).1]; decide +kernel
theorem aud_maxEdits : maxEdits audCfg.costs (cut audCfg.eos audCfg.includeEos [0, 5, 9, 3])
    (cut audCfg.eos audCfg.includeEos [1, 5, 9]) = some 2 := by
  rw [← (C02_optCounts_min_max _ _ _).2]; decide +kernel
example := C02_bounds_oracle audCfg rfl [0, 5, 9, 3] [1, 5, 9] 1 2 aud_minEdits aud_maxEdits
-- C02_equal_costs: all three hypotheses together, costs (1/2, 1/2, 1/2), with norm and a counted eos
example := C02_equal_costs (α := Int) ⟨some 0, true, true, ⟨1/2, 1/2, 1/2⟩, false, -100⟩ rfl rfl (by decide +kernel)
  [1, 2, 0, 5] [2, 0, 0]
-- C02_prefix on the instance (with norm): live entries, then the padding
example := (C02_prefix { audCfg with norm := true } [0, 5, 9, 3] [1, 5, 9]).2 2 (by decide)
example : prefixErrorRatesCol { audCfg with norm := true } [0, 5, 9, 3] [1, 5, 9] = [1, 1, 1 / 2, -100] := by
  decide +kernel
example : prefixErrorRatesCol { audCfg with norm := true, excludeLast := true } [0, 5, 9, 3] [1, 5, 9] = [1, 1, -100] := by
  decide +kernel
-- C02_mer: N = 1, M = 2, sequence-first, sub_avg, all six hypotheses
example := C02_mer (α := Int) ⟨none, false, true, ⟨1, 1, 2⟩, false, -100⟩ true false 1 2
  [[[1, 1]], [[2, 2]]] [[[2, 1]], [[1, 3]]] [[1/4, 3/4]] 0
  (by simp [WellShaped]) (by simp [WellShaped]) rfl (by simp) 0 1 (by decide) (by decide)
-- … and batch-first (N = 2, M = 2)
example := C02_mer (α := Int) ⟨none, false, true, ⟨1, 1, 2⟩, false, -100⟩ false true 2 2
  [[[1, 2], [1, 2]], [[3, 4], [3, 4]]] [[[2, 1], [1, 3]], [[3, 4], [4, 4]]] [[1/4, 3/4], [1/2, 1/2]] 0
  (by simp [WellShaped]) (by simp [WellShaped]) rfl (by simp) 1 1 (by decide) (by decide)
-- C02_mer_ref2 in both layouts (the 2-D reference repeated per sample)
example := C02_mer_ref2 (α := Int) true 2 2 [[1, 2], [3, 4]] 0 (by simp) 1 1 (by decide) (by decide)
example := C02_mer_ref2 (α := Int) false 2 2 [[1, 2], [3, 4]] 0 (by simp) 1 1 (by decide) (by decide)
-- C02_batch_columns / C02_batch_independent / C02_prefix_batch with batch_first (their hypotheses are
-- conditional on it)
example := C02_batch_columns audCfg true 2 [[0, 5, 9, 3], [3, 9, 9, 9]] [[1, 5, 9], [3, 9, 1]] 0 (fun _ => rfl) (fun _ => rfl)
example := C02_batch_independent audCfg true false 2 1 [[0, 5, 9, 3], [3, 9, 9, 9]] [[1, 5, 9], [3, 9, 1]]
  [[0], [5], [9], [3]] [[1], [5], [9]] 0 (fun _ => rfl) (fun _ => rfl) (fun h => by cases h) (fun h => by cases h)
  0 0 (by decide) (by decide) (by decide) (by decide)
example := C02_prefix_batch (α := Int) ⟨some 0, false, false, ⟨1, 1, 1⟩, true, -7⟩ true 2 [[1, 2], [3, 0]] [[2, 1], [3, 0]] 0
  (fun _ => rfl) (fun _ => rfl) (fun _ => by simp [seqDim]) 1 1 (by decide) (by decide)
example : prefixErrorRatesBatch (α := Int) ⟨some 0, false, false, ⟨1, 1, 1⟩, true, -7⟩ true 2
    [[1, 2], [3, 0]] [[2, 1], [3, 0]] 0 = [[2, 1], [1, -7]] := by decide +kernel
example := C02_prefix_batch_first_transpose (α := Int) ⟨some 0, false, false, ⟨1, 1, 1⟩, false, -7⟩ 2
  [[1, 3], [2, 0]] [[2, 3], [1, 0]] 0 1 2 (by decide) (by decide)
-- C02_pair_shapes: an accepted pair
example : checkPairShapes true [2, 4] [2, 5] = some (2, 4, 5) := by decide

/-! ### One-pass evaluation of the model (improvement round 2)

The driver cannot run the literal model (`del_mat` minimum: cubic per step on lists; every row
of the frozen loop kept) on sequence dimensions of a few hundred positions. For those it runs
`Model/ErrorRateFast.lean`; these theorems say that this is the same function, for all inputs. -/

/-- One-pass `error_rate` (sweep instead of `del_mat`, un-frozen fold over the valid hypothesis
prefix) = the literal model, every column, every configuration. -/
theorem C02_fast_scalar (cfg : Config α) (ref hyp : List α) :
    errorRateColFast cfg ref hyp = errorRateCol cfg ref hyp :=
  errorRateColFast_eq cfg ref hyp

/-- One-pass `prefix_error_rates` (one scan for all prefixes) = the literal model. -/
theorem C02_fast_prefix (cfg : Config α) (ref hyp : List α) :
    prefixErrorRatesColFast cfg ref hyp = prefixErrorRatesCol cfg ref hyp :=
  prefixErrorRatesColFast_eq cfg ref hyp

/-- The same for whole batches (both layouts) and for the loss before reduction. -/
theorem C02_fast_batch (cfg : Config α) (bf : Bool) (N : Nat) (ref hyp : List (List α)) (d : α) :
    errorRateBatchFast cfg bf N ref hyp d = errorRateBatch cfg bf N ref hyp d ∧
    prefixErrorRatesBatchFast cfg bf N ref hyp d = prefixErrorRatesBatch cfg bf N ref hyp d :=
  ⟨errorRateBatchFast_eq cfg bf N ref hyp d, prefixErrorRatesBatchFast_eq cfg bf N ref hyp d⟩

theorem C02_fast_mer (cfg : Config α) (subAvg bf : Bool) (N M : Nat)
    (ref hyp : List (List (List α))) (w : List (List Rat)) (d : α) :
    merElemsFast cfg subAvg bf N M ref hyp w d = merElems cfg subAvg bf N M ref hyp w d :=
  merElemsFast_eq cfg subAvg bf N M ref hyp w d

example : errorRateColFast (α := Int) ⟨some 0, true, true, ⟨1, 1, 1⟩, false, -100⟩ [1, 2, 0, 5] [2, 0, 0] = 1 / 3 := by
  decide +kernel
example : prefixErrorRatesColFast (α := Int) ⟨some 0, false, true, ⟨1, 2, 3⟩, false, -7⟩ [0, 1] [1, 0, 1]
    = prefixErrorRatesCol ⟨some 0, false, true, ⟨1, 2, 3⟩, false, -7⟩ [0, 1] [1, 0, 1] := by
  decide +kernel

/-! ### Size independence (improvement round 2)

The result depends on the two padded columns only through the transcripts they name: not on the
sizes `R`, `H` of the tensors, not on what is stored behind the lengths, not on the eos
convention used to mark the lengths. -/

/-- **The table is causal in the reference.** Every row of the code's paired (cost, mistakes)
table — freezing, `ins_mask`, `exclude_last` included — restricted to the columns `0..|r|`
is the same whether the reference dimension holds `r` or `r ++ s`: nothing that follows
position `|r|` (an eos, filler, further padding rows of the tensor) can influence a cell at or
before `|r|`, in particular not the cell `gather(0, ref_lens)` reads, and not through
tie-breaking either. All cost triples. -/
theorem C02_table_causal (c : Costs) (r s hyp : List α) (hypLen : Nat) (excl : Bool) :
    (rowsP c (r ++ s) hyp hypLen excl).map (fun row => row.take (r.length + 1))
      = rowsP c r hyp hypLen excl := by
  unfold rowsP
  rw [rows_eq, rows_eq, List.map_map]
  apply List.map_congr_left
  intro k _
  exact tableRow_append_take c r s _

/-- **`error_rate` is a function of (`norm`, costs, the two transcripts).** Two calls — any two
padded column lengths, any contents behind the lengths, any two eos / `include_eos`
conventions — whose columns name the same transcripts report the same value. -/
theorem C02_size_independent (cfg₁ cfg₂ : Config α) (ref₁ ref₂ hyp₁ hyp₂ : List α)
    (hn : cfg₁.norm = cfg₂.norm) (hc : cfg₁.costs = cfg₂.costs)
    (hr : cut cfg₁.eos cfg₁.includeEos ref₁ = cut cfg₂.eos cfg₂.includeEos ref₂)
    (hh : cut cfg₁.eos cfg₁.includeEos hyp₁ = cut cfg₂.eos cfg₂.includeEos hyp₂) :
    errorRateCol cfg₁ ref₁ hyp₁ = errorRateCol cfg₂ ref₂ hyp₂ :=
  errorRateCol_congr_cut cfg₁ cfg₂ ref₁ ref₂ hyp₁ hyp₂ hn hc hr hh

/-- The per-prefix variant: every reported entry (prefix `k` up to the hypothesis' length) is a
function of (`norm`, costs, `exclude_last`, the two transcripts); the entries behind are
padding by `C02_prefix`. -/
theorem C02_size_independent_prefix (cfg₁ cfg₂ : Config α) (ref₁ ref₂ hyp₁ hyp₂ : List α)
    (hn : cfg₁.norm = cfg₂.norm) (hc : cfg₁.costs = cfg₂.costs)
    (hx : cfg₁.excludeLast = cfg₂.excludeLast)
    (hr : cut cfg₁.eos cfg₁.includeEos ref₁ = cut cfg₂.eos cfg₂.includeEos ref₂)
    (hh : cut cfg₁.eos cfg₁.includeEos hyp₁ = cut cfg₂.eos cfg₂.includeEos hyp₂)
    (k : Nat)
    (hk : k < (cut cfg₁.eos cfg₁.includeEos hyp₁).length + (if cfg₁.excludeLast then 0 else 1)) :
    (prefixErrorRatesCol cfg₁ ref₁ hyp₁)[k]? = (prefixErrorRatesCol cfg₂ ref₂ hyp₂)[k]? :=
  prefixErrorRatesCol_congr_cut cfg₁ cfg₂ ref₁ ref₂ hyp₁ hyp₂ hn hc hx hr hh k hk

/-- **Appending padding.** Whatever is appended behind a reference and a hypothesis column that
contain their eos leaves the error rate unchanged (a batch padded to a longer `R`, `H`). -/
theorem C02_append_padding (cfg : Config α) (e : α) (he : cfg.eos = some e) (ref hyp p q : List α)
    (hr : e ∈ ref) (hh : e ∈ hyp) :
    errorRateCol cfg (ref ++ p) (hyp ++ q) = errorRateCol cfg ref hyp := by
  apply C02_size_independent cfg cfg _ _ _ _ rfl rfl <;> rw [he]
  · exact cut_append_of_mem e _ ref p hr
  · exact cut_append_of_mem e _ hyp q hh

/-- The per-prefix table under the same padding: the old table followed by one padding entry per
appended hypothesis position. -/
theorem C02_append_padding_prefix (cfg : Config α) (e : α) (he : cfg.eos = some e)
    (ref hyp p q : List α) (hr : e ∈ ref) (hh : e ∈ hyp) :
    prefixErrorRatesCol cfg (ref ++ p) (hyp ++ q)
      = prefixErrorRatesCol cfg ref hyp ++ List.replicate q.length (cfg.padding : Rat) := by
  have hcr : cut cfg.eos cfg.includeEos (ref ++ p) = cut cfg.eos cfg.includeEos ref := by
    rw [he]; exact cut_append_of_mem e _ ref p hr
  have hch : cut cfg.eos cfg.includeEos (hyp ++ q) = cut cfg.eos cfg.includeEos hyp := by
    rw [he]; exact cut_append_of_mem e _ hyp q hh
  have hsl : seqLen cfg.eos cfg.includeEos (hyp ++ q) = seqLen cfg.eos cfg.includeEos hyp := by
    rw [← cut_length, ← cut_length, hch]
  have hle := seqLen_le cfg.eos cfg.includeEos hyp
  have hlen : ∀ r' h', (prefixErrorRatesCol cfg r' h').length
      = h'.length + (if cfg.excludeLast then 0 else 1) := by
    intro r' h'; rw [prefixErrorRatesCol_eq]; simp [prefixRows]
  apply List.ext_getElem?
  intro k
  by_cases hk : k < (cut cfg.eos cfg.includeEos hyp).length + (if cfg.excludeLast then 0 else 1)
  · -- a reported entry
    have hk' := hk
    rw [cut_length] at hk'
    rw [List.getElem?_append_left (by rw [hlen]; omega)]
    exact C02_size_independent_prefix cfg cfg _ _ _ _ rfl rfl rfl hcr hch k (by rw [hch]; exact hk)
  · -- padding on both sides (or out of range on both sides)
    rw [cut_length] at hk
    by_cases hin : k < (hyp ++ q).length + (if cfg.excludeLast then 0 else 1)
    · have hL : (prefixErrorRatesCol cfg (ref ++ p) (hyp ++ q))[k]? = some (cfg.padding : Rat) := by
        rw [prefixErrorRatesCol_eq, List.getElem?_map,
          List.getElem?_range (by simpa [prefixRows] using hin)]
        simp only [Option.map_some]
        rw [if_pos (by rw [hsl]; omega)]
      rw [hL]
      by_cases hin2 : k < hyp.length + (if cfg.excludeLast then 0 else 1)
      · rw [List.getElem?_append_left (by rw [hlen]; exact hin2), prefixErrorRatesCol_eq,
          List.getElem?_map, List.getElem?_range (by simpa [prefixRows] using hin2)]
        simp only [Option.map_some]
        rw [if_pos (by omega)]
      · rw [List.getElem?_append_right (by rw [hlen]; omega), List.getElem?_replicate]
        rw [if_pos]
        rw [hlen]; rw [List.length_append] at hin; omega
    · have h1 : (prefixErrorRatesCol cfg (ref ++ p) (hyp ++ q))[k]? = none := by
        rw [List.getElem?_eq_none_iff, hlen]; omega
      have h2 : (prefixErrorRatesCol cfg ref hyp ++ List.replicate q.length (cfg.padding : Rat))[k]?
          = none := by
        rw [List.getElem?_eq_none_iff, List.length_append, hlen, List.length_replicate]
        rw [List.length_append] at hin; omega
      rw [h1, h2]

/-- **A padded batch is the un-padded call.** A sequence without eos, stored as `seq ++ eos ::
anything` and read with `eos` set (`include_eos = false`), scores exactly like the bare
sequences scored with `eos` unset. -/
theorem C02_eos_padding_is_unpadded (cfg : Config α) (e : α) (ref hyp p q : List α)
    (hr : e ∉ ref) (hh : e ∉ hyp) :
    errorRateCol { cfg with eos := some e, includeEos := false } (ref ++ e :: p) (hyp ++ e :: q)
      = errorRateCol { cfg with eos := none } ref hyp := by
  refine C02_size_independent { cfg with eos := some e, includeEos := false } { cfg with eos := none }
    _ _ _ _ rfl rfl ?_ ?_
  · show cut (some e) false (ref ++ e :: p) = cut none cfg.includeEos ref
    rw [cut_append_eos e ref p hr]; rfl
  · show cut (some e) false (hyp ++ e :: q) = cut none cfg.includeEos hyp
    rw [cut_append_eos e hyp q hh]; rfl

/-- Batch level, sequence-first layout: padding rows appended to both tensors (`ref : (R, N)` →
`(R + P, N)`, `hyp : (H, N)` → `(H + Q, N)`) leave every error rate of the batch unchanged,
provided every sequence of the batch already contains its eos. -/
theorem C02_batch_append_padding (cfg : Config α) (e : α) (he : cfg.eos = some e) (N : Nat)
    (ref hyp pr ph : List (List α)) (d : α)
    (hr : ∀ n, n < N → e ∈ column false ref n d) (hh : ∀ n, n < N → e ∈ column false hyp n d) :
    errorRateBatch cfg false N (ref ++ pr) (hyp ++ ph) d = errorRateBatch cfg false N ref hyp d := by
  unfold errorRateBatch toColumns
  simp only [Bool.false_eq_true, if_false]
  rw [List.zipWith_map, List.zipWith_map, List.zipWith_self, List.zipWith_self]
  apply List.map_congr_left
  intro n hn
  have hn' := List.mem_range.1 hn
  rw [List.map_append, List.map_append]
  exact C02_append_padding cfg e he _ _ _ _ (hr n hn') (hh n hn')

example : cut (α := Int) (some 0) false ([1, 2, 0, 7] ++ [0, 0, 5]) = cut (some 0) false [1, 2, 0, 7] := by decide
example := C02_append_padding (α := Int) ⟨some 0, true, true, ⟨1, 1, 2⟩, false, -100⟩ 0 rfl
  [1, 2, 0, 7] [2, 0] [0, 0, 5] [3, 3] (by decide) (by decide)
example : errorRateCol (α := Int) ⟨some 0, true, true, ⟨1, 1, 2⟩, false, -100⟩ ([1, 2, 0, 7] ++ [0, 0, 5]) ([2, 0] ++ [3, 3])
    = 1 / 3 := by decide +kernel
example := C02_append_padding_prefix (α := Int) ⟨some 0, false, false, ⟨1, 2, 3⟩, false, -7⟩ 0 rfl
  [1, 0] [1, 0, 1] [4] [5, 6] (by decide) (by decide)
example : prefixErrorRatesCol (α := Int) ⟨some 0, false, false, ⟨1, 2, 3⟩, false, -7⟩ ([1, 0] ++ [4]) ([1, 0, 1] ++ [5, 6])
    = [1, 0, -7, -7, -7, -7] := by decide +kernel
example := C02_eos_padding_is_unpadded (α := Int) ⟨none, true, false, ⟨1, 1, 2⟩, false, -100⟩ 9
  [1, 2, 3] [2, 3] [9, 4] [] (by decide) (by decide)
-- (audit F: the instance given here before - eos 9 counted, columns `[1, 9, 5]` / `[2, 9]` - left the two
-- transcript hypotheses UNAPPLIED, and they were false on it (`[1, 2] ≠ [1, 9]`). All four hypotheses together:
-- two different eos conventions (eos 0 not counted / eos 2 counted), different padded sizes (4 vs 5, 2 vs 2),
-- different contents behind the lengths, same transcripts `[1, 2]` / `[2]`.)
example := C02_size_independent (α := Int) ⟨some 0, false, true, ⟨1, 1, 2⟩, false, -100⟩
  ⟨some 2, true, true, ⟨1, 1, 2⟩, false, -100⟩ [1, 2, 0, 7] [1, 2, 5, 5, 5] [2, 0] [2, 7] rfl rfl
  (by decide) (by decide)
example : errorRateCol (α := Int) ⟨some 0, false, true, ⟨1, 1, 2⟩, false, -100⟩ [1, 2, 0, 7] [2, 0] = 1 / 2
    ∧ errorRateCol (α := Int) ⟨some 2, true, true, ⟨1, 1, 2⟩, false, -100⟩ [1, 2, 5, 5, 5] [2, 7] = 1 / 2 := by
  decide +kernel
-- C02_size_independent_prefix, all six hypotheses: `exclude_last`, eos 0 not counted with filler behind it vs.
-- eos 9 counted but absent, padded sizes 4 / 4 vs 2 / 2, different padding values; entry k = 1 is reported
example := C02_size_independent_prefix (α := Int) ⟨some 0, false, true, ⟨1, 2, 3⟩, true, -7⟩
  ⟨some 9, true, true, ⟨1, 2, 3⟩, true, -9⟩ [1, 2, 0, 7] [1, 2] [2, 1, 0, 4] [2, 1] rfl rfl rfl
  (by decide) (by decide) 1 (by decide)
example : prefixErrorRatesCol (α := Int) ⟨some 0, false, true, ⟨1, 2, 3⟩, true, -7⟩ [1, 2, 0, 7] [2, 1, 0, 4]
      = [1, 1 / 2, -7, -7]
    ∧ prefixErrorRatesCol (α := Int) ⟨some 9, true, true, ⟨1, 2, 3⟩, true, -9⟩ [1, 2] [2, 1] = [1, 1 / 2] := by
  decide +kernel
example := C02_table_causal (α := Int) ⟨1, 1, 2⟩ [1, 2] [0, 7] [2, 0] 1 false
-- the instance is not degenerate: the longer table has two more columns, a live and a frozen row
example : rowsP (α := Int) ⟨1, 1, 2⟩ ([1, 2] ++ [0, 7]) [2, 0] 1 false
      = [[(0, 0), (1, 1), (2, 2), (3, 3), (4, 4)], [(1, 1), (2, 1), (1, 1), (2, 2), (3, 3)],
         [(1, 1), (2, 1), (1, 1), (2, 2), (3, 3)]]
    ∧ rowsP (α := Int) ⟨1, 1, 2⟩ [1, 2] [2, 0] 1 false
      = [[(0, 0), (1, 1), (2, 2)], [(1, 1), (2, 1), (1, 1)], [(1, 1), (2, 1), (1, 1)]] := by
  decide +kernel
-- C02_fast_batch / C02_fast_mer have no hypotheses; on the batch of C02_batch_append_padding:
example : errorRateBatchFast (α := Int) ⟨some 0, false, false, ⟨1, 1, 2⟩, false, -100⟩ false 2
    [[1, 3], [2, 0], [0, 5]] [[2, 0], [0, 1]] 0 = [1, 1] := by decide +kernel
example := C02_batch_append_padding (α := Int) ⟨some 0, false, false, ⟨1, 1, 2⟩, false, -100⟩ 0 rfl 2
  [[1, 3], [2, 0], [0, 5]] [[2, 0], [0, 1]] [[7, 7]] [[8, 8], [0, 0]] 0
  (by intro n hn; have : n = 0 ∨ n = 1 := by omega
      rcases this with rfl | rfl <;> decide)
  (by intro n hn; have : n = 0 ∨ n = 1 := by omega
      rcases this with rfl | rfl <;> decide)

end PdtVerif.ErrorRate
