import PdtVerif.Lemmas.ErrorRate
/-!
# C02 — error rate counts the edits of some minimum-cost alignment

Model: `Model/ErrorRate.lean` (the `return_mistakes` branch of `_string_matching` with its exact
tie-breaking, the uniform-cost shortcut, freezing, normalisation, prefix padding).
Spec: `Spec/Levenshtein.lean` (`Aligns`, `scriptCost`, `numEdits`, `lev`) and
`Spec/ErrorRate.lean` (`cut`, `IsOptimal`, `CountOfOptimal`, the enumeration oracle).

`ref`, `hyp` are whole padded columns of the batch; `cut … ref`, `cut … hyp` the transcripts
they stand for. All statements hold for **every** cost triple (no sign condition) unless a
hypothesis says otherwise, every column length and every token type with decidable equality.
-/
set_option linter.unusedSectionVars false

namespace PdtVerif.ErrorRate
open PdtVerif.Lev

variable {α : Type} [DecidableEq α]

/-- **Every cell of the paired table is realised.** After `k` iterations of the `hyp_idx` loop
(with freezing after `lim` steps: `lim = hypLen`, or `hypLen - 1` under `exclude_last`), cell
`j` of the table holds `(cost, m)` such that some edit script turns the reference prefix
`ref.take j` into the hypothesis prefix, costs exactly `cost`, makes exactly `m` edits, and
`cost` is the weighted Levenshtein distance — i.e. no script is cheaper. -/
theorem C02_realised (c : Costs) (ref hyp : List α) (hypLen : Nat) (excl : Bool) (k j : Nat)
    (hk : k ≤ (stepTokens hyp excl).length) (hj : j ≤ ref.length) :
    ∃ row cell s, (rowsP c ref hyp hypLen excl)[k]? = some row ∧ row[j]? = some cell ∧
      Aligns s (ref.take j) (hyp.take (min k (lim excl hypLen))) ∧
      scriptCost c s = cell.1 ∧ numEdits s = cell.2 ∧
      cell.1 = lev c (ref.take j) (hyp.take (min k (lim excl hypLen))) ∧
      ∀ s', Aligns s' (ref.take j) (hyp.take (min k (lim excl hypLen))) → cell.1 ≤ scriptCost c s' := by
  have hrow : (rowsP c ref hyp hypLen excl)[k]?
      = some (tableRow c ref (hyp.take (min k (lim excl hypLen)))) := by
    unfold rowsP
    rw [rows_eq, List.getElem?_map, List.getElem?_range (by omega)]
    simp only [Option.map_some]
    rw [stepTokens_take hyp excl _ (by omega)]
    rfl
  obtain ⟨cell, e, ⟨s, a, e1, e2⟩, elev⟩ :=
    (tableRow_ok c ref (hyp.take (min k (lim excl hypLen)))).getElem? j hj
  exact ⟨_, cell, s, hrow, e, a, e1, e2, elev, fun s' a' => by rw [elev]; exact lev_le_scriptCost c a'⟩

/-- **The reported error rate**: for every configuration and every pair of columns there is a
minimum-cost alignment of the two transcripts whose number of edits `m` is what `error_rate`
reports (before normalisation; `normScalar` is spelled out in `C02_norm_conventions`). -/
theorem C02_scalar (cfg : Config α) (ref hyp : List α) :
    ∃ m : Nat,
      CountOfOptimal cfg.costs (cut cfg.eos cfg.includeEos ref) (cut cfg.eos cfg.includeEos hyp) m ∧
      errorRateCol cfg ref hyp
        = normScalar cfg.norm (cut cfg.eos cfg.includeEos ref).length
            (cut cfg.eos cfg.includeEos hyp).length (m : Rat) := by
  rw [errorRateCol_eq, cut_length, cut_length, cut_eq_take, cut_eq_take]
  obtain ⟨⟨m, hv, hc⟩, _⟩ := valueAt_spec cfg.costs ref (seqLen cfg.eos cfg.includeEos ref)
    (seqLen_le _ _ _) (hyp.take (seqLen cfg.eos cfg.includeEos hyp))
  exact ⟨m, hc, by rw [hv]⟩

/-- **Bounds.** The un-normalised error rate never falls below the fewest nor exceeds the most
edits found among minimum-cost alignments of the two transcripts. -/
theorem C02_bounds (cfg : Config α) (hn : cfg.norm = false) (ref hyp : List α) (lo hi : Nat)
    (hlo : ∀ s, IsOptimal cfg.costs (cut cfg.eos cfg.includeEos ref) (cut cfg.eos cfg.includeEos hyp) s →
      lo ≤ numEdits s)
    (hhi : ∀ s, IsOptimal cfg.costs (cut cfg.eos cfg.includeEos ref) (cut cfg.eos cfg.includeEos hyp) s →
      numEdits s ≤ hi) :
    (lo : Rat) ≤ errorRateCol cfg ref hyp ∧ errorRateCol cfg ref hyp ≤ (hi : Rat) := by
  obtain ⟨m, ⟨s, hs, hm⟩, he⟩ := C02_scalar cfg ref hyp
  rw [he, hn]
  simp only [normScalar, Bool.false_eq_true, if_false]
  have h1 := hlo s hs
  have h2 := hhi s hs
  rw [hm] at h1 h2
  exact ⟨by exact_mod_cast h1, by exact_mod_cast h2⟩

/-- **Equal costs.** Whenever the three costs are equal and positive the un-normalised error
rate is the plain (unit-cost) Levenshtein distance of the two transcripts … -/
theorem C02_equal_costs (cfg : Config α) (h1 : cfg.costs.ins = cfg.costs.del)
    (h2 : cfg.costs.del = cfg.costs.sub) (h3 : 0 < cfg.costs.sub) (ref hyp : List α) :
    errorRateCol cfg ref hyp
      = normScalar cfg.norm (cut cfg.eos cfg.includeEos ref).length
          (cut cfg.eos cfg.includeEos hyp).length
          (lev unitCosts (cut cfg.eos cfg.includeEos ref) (cut cfg.eos cfg.includeEos hyp)) := by
  rw [errorRateCol_eq, cut_length, cut_length, cut_eq_take, cut_eq_take]
  have hs : useShortcut cfg.costs = true := (useShortcut_iff _).2 ⟨h1, h2, h3⟩
  rw [(valueAt_spec cfg.costs ref (seqLen cfg.eos cfg.includeEos ref) (seqLen_le _ _ _)
    (hyp.take (seqLen cfg.eos cfg.includeEos hyp))).2 hs]

/-- … which is the fewest edits of *any* script turning the reference into the hypothesis. -/
theorem C02_plain_levenshtein (r h : List α) :
    ∃ s : List (Edit α), Aligns s r h ∧ lev unitCosts r h = (numEdits s : Rat)
      ∧ ∀ s', Aligns s' r h → numEdits s ≤ numEdits s' :=
  lev_unit_eq_numEdits r h

/-- **Normalisation and the empty-reference conventions**, scalar and per-prefix form. -/
theorem C02_norm_conventions (rl hl k : Nat) (v : Rat) :
    normScalar false rl hl v = v ∧ normPrefix false rl k v = v
    ∧ (0 < rl → normScalar true rl hl v = v / (rl : Rat) ∧ normPrefix true rl k v = v / (rl : Rat))
    ∧ normScalar true 0 0 v = 0 ∧ (0 < hl → normScalar true 0 hl v = 1)
    ∧ normPrefix true 0 0 v = 0 ∧ (0 < k → normPrefix true 0 k v = 1) := by
  refine ⟨by simp [normScalar], by simp [normPrefix], fun h => ?_, by simp [normScalar],
    fun h => ?_, by simp [normPrefix], fun h => ?_⟩
  · have : rl ≠ 0 := by omega
    simp [normScalar, normPrefix, this]
  · simp [normScalar, h]
  · simp [normPrefix, h]

/-- **The per-prefix variant.** The column of `prefix_error_rates` has `H + 1` entries (`H` under
`exclude_last`). Entry `k` is the padding value past the hypothesis's own length
(`k > |hyp'|`, or `k ≥ |hyp'|` under `exclude_last`); otherwise it is the (normalised) number of
edits of a minimum-cost alignment of the reference with the length-`k` prefix of the hypothesis
(and the plain Levenshtein distance of that pair when the costs are equal and positive). -/
theorem C02_prefix (cfg : Config α) (ref hyp : List α) :
    let r' := cut cfg.eos cfg.includeEos ref
    let h' := cut cfg.eos cfg.includeEos hyp
    let out := prefixErrorRatesCol cfg ref hyp
    let e := if cfg.excludeLast then 0 else 1
    out.length = hyp.length + e ∧
    ∀ k, k < hyp.length + e →
      (h'.length + e ≤ k → out[k]? = some (cfg.padding : Rat)) ∧
      (k < h'.length + e →
        ∃ m : Nat, CountOfOptimal cfg.costs r' (h'.take k) m ∧
          out[k]? = some (normPrefix cfg.norm r'.length k (m : Rat)) ∧
          (cfg.costs.ins = cfg.costs.del → cfg.costs.del = cfg.costs.sub → 0 < cfg.costs.sub →
            (m : Rat) = lev unitCosts r' (h'.take k))) := by
  intro r' h' out e
  have hout : out = _ := prefixErrorRatesCol_eq cfg ref hyp
  have hlen : out.length = hyp.length + e := by rw [hout]; simp [prefixRows, e]
  refine ⟨hlen, fun k hk => ?_⟩
  have hget : out[k]? = some (if k ≥ seqLen cfg.eos cfg.includeEos hyp + e then (cfg.padding : Rat)
      else normPrefix cfg.norm (seqLen cfg.eos cfg.includeEos ref) k
        (valueAt cfg.costs ref (seqLen cfg.eos cfg.includeEos ref) (hyp.take k))) := by
    rw [hout, List.getElem?_map, List.getElem?_range (by simpa [prefixRows, e] using hk)]
    rfl
  have hh : h'.length = seqLen cfg.eos cfg.includeEos hyp := cut_length _ _ _
  constructor
  · intro hge
    rw [hget, if_pos (by omega)]
  · intro hlt
    rw [hget, if_neg (by omega)]
    obtain ⟨⟨m, hv, hc⟩, hsc⟩ := valueAt_spec cfg.costs ref (seqLen cfg.eos cfg.includeEos ref)
      (seqLen_le _ _ _) (hyp.take k)
    have htake : h'.take k = hyp.take k := by
      show (cut cfg.eos cfg.includeEos hyp).take k = hyp.take k
      rw [cut_eq_take, List.take_take]
      congr 1
      have : k ≤ seqLen cfg.eos cfg.includeEos hyp := by
        have : e ≤ 1 := by simp only [e]; split <;> omega
        omega
      omega
    refine ⟨m, ?_, ?_, ?_⟩
    · show CountOfOptimal cfg.costs (cut cfg.eos cfg.includeEos ref) (h'.take k) m
      rw [htake, cut_eq_take]; exact hc
    · show _ = some (normPrefix cfg.norm (cut cfg.eos cfg.includeEos ref).length k (m : Rat))
      rw [cut_length, hv]
    · intro h1 h2 h3
      show (m : Rat) = lev unitCosts (cut cfg.eos cfg.includeEos ref) (h'.take k)
      rw [htake, cut_eq_take, ← hv]
      exact hsc ((useShortcut_iff _).2 ⟨h1, h2, h3⟩)

/-- The code's length computation names exactly the transcript of the spec. -/
theorem C02_cut (eos : Option α) (inc : Bool) (col : List α) :
    cut eos inc col = col.take (seqLen eos inc col) ∧ seqLen eos inc col ≤ col.length :=
  ⟨cut_eq_take eos inc col, seqLen_le eos inc col⟩

/-- After the shortcut the code's vectorised step (`min`, then the `del_mat` minimum) equals the
sequential sweep `v[i] = min(v[i], v[i-1] + d)` of the shared Levenshtein row model. -/
theorem C02_delmat_eq_sweep (c : Costs) (ref : List α) (y : α) (row : List Rat) :
    stepPlain c ref y true row = stepRow c ref y row :=
  stepPlain_eq c ref y row

/-- **The enumeration oracle is exact**: the list the driver computes by brute force contains
exactly the edit counts of minimum-cost alignments (`allScripts` = all scripts with `Aligns`). -/
theorem C02_oracle (c : Costs) (r h : List α) (m : Nat) :
    m ∈ optimalEditCounts c r h ↔ CountOfOptimal c r h m :=
  mem_optimalEditCounts c r h m

/-- `C02_bounds` against the executable oracle `minEdits` / `maxEdits`. -/
theorem C02_bounds_oracle (cfg : Config α) (hn : cfg.norm = false) (ref hyp : List α) (lo hi : Nat)
    (hlo : minEdits cfg.costs (cut cfg.eos cfg.includeEos ref) (cut cfg.eos cfg.includeEos hyp) = some lo)
    (hhi : maxEdits cfg.costs (cut cfg.eos cfg.includeEos ref) (cut cfg.eos cfg.includeEos hyp) = some hi) :
    (lo : Rat) ≤ errorRateCol cfg ref hyp ∧ errorRateCol cfg ref hyp ≤ (hi : Rat) := by
  apply C02_bounds cfg hn ref hyp lo hi
  · intro s hs
    have hm := (C02_oracle cfg.costs _ _ (numEdits s)).2 ⟨s, hs, rfl⟩
    have := List.min?_getD_le_of_mem (k := 0) hm
    unfold minEdits at hlo
    rwa [hlo] at this
  · intro s hs
    have hm := (C02_oracle cfg.costs _ _ (numEdits s)).2 ⟨s, hs, rfl⟩
    have := List.le_max?_getD_of_mem (k := 0) hm
    unfold maxEdits at hhi
    rwa [hhi] at this

/-- **Minimum-error-rate loss, element `(n, m)`**: softmax weight (an input — softmax is a
trusted primitive) × (error rate of `hyp_{n,m}` against `ref_{n,m}` − mean over the `M` samples
of element `n` if `sub_avg`). The flattening of batch × samples to `N·M` columns (index
`n·M + m`) and the `view(N, M)` back agree for both layouts (`batch_first` or not). -/
theorem C02_mer (cfg : Config α) (subAvg bf : Bool) (N M : Nat)
    (ref hyp : List (List (List α))) (w : List (List Rat)) (dflt : α)
    (hr : WellShaped bf N M ref) (hh : WellShaped bf N M hyp)
    (hwN : w.length = N) (hwM : ∀ row ∈ w, row.length = M)
    (n m : Nat) (hn : n < N) (hm : m < M) :
    ((merElems cfg subAvg bf N M ref hyp w dflt).getD n []).getD m 0
      = (errorRateCol cfg (seqAt bf ref n m dflt) (seqAt bf hyp n m dflt)
          - (if subAvg then
              ((List.range M).map (fun m' =>
                errorRateCol cfg (seqAt bf ref n m' dflt) (seqAt bf hyp n m' dflt))).sum / (M : Rat)
             else 0))
        * ((w.getD n []).getD m 0) :=
  merElems_getD cfg subAvg bf N M ref hyp w dflt hr hh hwN hwM n m hn hm

/-- A 2-D reference is the same reference for every sample: `repeat` yields a well-shaped 3-D
tensor whose sequence `(n, m)` is `ref_n`. -/
theorem C02_mer_ref2 (bf : Bool) (N M : Nat) (ref2 : List (List α)) (dflt : α)
    (h2 : if bf then ref2.length = N else ∀ row ∈ ref2, row.length = N)
    (n m : Nat) (hn : n < N) (hm : m < M) :
    WellShaped bf N M (repeatRef bf M ref2) ∧
    seqAt bf (repeatRef bf M ref2) n m dflt
      = (if bf then ref2.getD n [] else ref2.map (fun row => row.getD n dflt)) := by
  cases bf with
  | true =>
    simp only [if_true] at h2
    refine ⟨?_, ?_⟩
    · simp only [WellShaped, repeatRef, if_true, List.length_map, List.mem_map]
      exact ⟨h2, by rintro p ⟨q, _, rfl⟩; simp⟩
    · have hn' : n < ref2.length := by omega
      simp [seqAt, repeatRef, List.getD_eq_getElem?_getD, List.getElem?_eq_getElem hn', hm]
  | false =>
    simp only [Bool.false_eq_true, if_false] at h2
    refine ⟨?_, ?_⟩
    · simp only [WellShaped, repeatRef, Bool.false_eq_true, if_false, List.mem_map]
      rintro p ⟨row, hrow, rfl⟩
      refine ⟨by simpa using h2 row hrow, ?_⟩
      intro r hr
      obtain ⟨tok, _, rfl⟩ := List.mem_map.1 hr
      simp
    · simp only [seqAt, repeatRef, Bool.false_eq_true, if_false, List.map_map]
      apply List.map_congr_left
      intro row hrow
      have hn' : n < row.length := by rw [h2 row hrow]; exact hn
      simp [List.getD_eq_getElem?_getD, List.getElem?_eq_getElem hn', hm]

/-- The reductions. -/
theorem C02_mer_reduce (l : List (List Rat)) :
    reduce .none l = .inl l ∧ reduce .sum l = .inr l.flatten.sum
      ∧ reduce .mean l = .inr (l.flatten.sum / (l.flatten.length : Rat)) :=
  ⟨rfl, rfl, rfl⟩

/-! ### Non-vacuity and concrete instances -/

example : WellShaped false 1 2 ([[[1, 2]], [[3, 4]]] : List (List (List Int))) := by
  simp [WellShaped]

example : merElems (α := Int) ⟨none, false, true, ⟨1, 1, 2⟩, false, -100⟩ true false 1 2
    [[[1, 1]], [[2, 2]]] [[[2, 1]], [[1, 3]]] [[1/4, 3/4]] 0 = [[1/16, -3/16]] := by
  decide +kernel


/-- a tie with different edit counts: `ins + del = sub`; ref `[1,2]`, hyp `[2,1]` -/
example : errorRateCol (α := Int) ⟨none, false, false, ⟨1, 1, 2⟩, false, -100⟩ [1, 2] [2, 1] = 2 := by
  decide +kernel

example : errorRateCol (α := Int) ⟨some 0, true, true, ⟨1, 1, 1⟩, false, -100⟩ [1, 2, 0, 5] [2, 0, 0] = 1 / 3 := by
  decide +kernel

example : prefixErrorRatesCol (α := Int) ⟨some 0, false, true, ⟨1, 2, 3⟩, false, -7⟩ [0, 1] [1, 0, 1]
    = [0, 1, -7, -7] := by
  decide +kernel

/-- hypotheses of `C02_equal_costs` are satisfiable -/
example : (⟨1/2, 1/2, 1/2⟩ : Costs).ins = (⟨1/2, 1/2, 1/2⟩ : Costs).del ∧ (0 : Rat) < 1/2 := by
  constructor <;> decide +kernel

/-- an optimal script exists for every pair, so the hypotheses of `C02_bounds` are not vacuous -/
example (c : Costs) (r h : List α) : ∃ s, IsOptimal c r h s := by
  obtain ⟨s, a, e⟩ := lev_attained c r h
  exact ⟨s, a, fun s' a' => by rw [e]; exact lev_le_scriptCost c a'⟩

/-- Outside the property's domain (costs must be positive): with all costs `0` every script is
optimal and the count need not be the plain Levenshtein distance — the reason
`C02_equal_costs` asks for `0 < sub`. -/
theorem C02_zero_costs_counterexample :
    errorRateCol (α := Int) ⟨none, false, false, ⟨0, 0, 0⟩, false, -100⟩ [1, 2, 3] [1, 3] = 2
      ∧ lev unitCosts ([1, 2, 3] : List Int) [1, 3] = 1 := by
  constructor
  · decide +kernel
  · simp [lev, subCost, unitCosts]

end PdtVerif.ErrorRate
