import PdtVerif.Lemmas.OptCompletion
import PdtVerif.Lemmas.OptCompletionBatch
/-!
# C03 — optimal-completion targets are exactly the distance-preserving next tokens

Property theorems only (helper lemmas: `Lemmas/OptCompletion.lean`; shared Levenshtein
foundation: `Lemmas/Levenshtein.lean`, `Lemmas/LevRow.lean`).

Notation of DESIGN.md appendix A4: `D[j] = lev c (ref.take j) p` (the column of the prefix `p`),
`best c ref p = min_j D[j]`.
-/
namespace PdtVerif.OptCompletion
open PdtVerif.Lev

/-! ## Spec level: all references, prefixes, tokens, costs -/

/-- (A4 i) For non-negative costs every entry of the next column `D'` (prefix `p ++ [t]`) is at
least the minimum of the current column. -/
theorem C03_row_lower (c : Costs) (hi : 0 ≤ c.ins) (hd : 0 ≤ c.del) (hs : 0 ≤ c.sub)
    (ref p : List Int) (t : Int) (j : Nat) (hj : j ≤ ref.length) :
    best c ref p ≤ lev c (ref.take j) (p ++ [t]) :=
  row_lower c hi hd hs ref p t j hj

example : (0 : Rat) ≤ (Costs.mk (1/2) 1 (3/2)).ins ∧ (2 : Nat) ≤ [1, 2, 2].length := by
  constructor
  · norm_num
  · decide

/-- **`best_completion`**: for non-negative costs the column minimum is the smallest edit distance
that any completion `p ++ cmpl` of the prefix can still reach — a lower bound for every completion,
attained by completing with the reference suffix after a minimal position. -/
theorem C03_best_completion (c : Costs) (hi : 0 ≤ c.ins) (hd : 0 ≤ c.del) (hs : 0 ≤ c.sub)
    (ref p : List Int) : IsBest c ref p (best c ref p) :=
  isBest_best c hi hd hs ref p

/-- …and the witness is explicit: `cmpl = ref.drop j` for every minimal position `j`. -/
theorem C03_best_completion_witness (c : Costs) (hi : 0 ≤ c.ins) (hd : 0 ≤ c.del) (hs : 0 ≤ c.sub)
    (ref p : List Int) (j : Nat) (hm : lev c (ref.take j) p = best c ref p) :
    lev c ref (p ++ ref.drop j) = best c ref p := by
  apply le_antisymm _ (best_le_completion c hi hd hs ref p _)
  have h := lev_append_same_le c (ref.take j) p (ref.drop j)
  rw [List.take_append_drop] at h
  rw [← hm]; exact h

/-- The executable oracle of the driver (`min` of the shared sweep-form DP row) is `best`. -/
theorem C03_best_dp (c : Costs) (ref p : List Int) : listMin (dpRow c ref p) = best c ref p := by
  rw [dpRow_eq, levRow_eq_prefixDists]; rfl

/-- `IsTarget` (stated with the column minimum) is the declarative notion: the smallest distance
reachable by completions is the same before and after appending `t`. -/
theorem C03_target_decl (c : Costs) (hi : 0 ≤ c.ins) (hd : 0 ≤ c.del) (hs : 0 ≤ c.sub)
    (ref p : List Int) (t : Int) : IsTarget c ref p t ↔ IsTargetDecl c ref p t := by
  constructor
  · intro h
    refine ⟨best c ref p, isBest_best c hi hd hs ref p, ?_⟩
    have := isBest_best c hi hd hs ref (p ++ [t])
    rwa [h] at this
  · rintro ⟨m, h1, h2⟩
    have e1 := (isBest_best c hi hd hs ref p).unique h1
    have e2 := (isBest_best c hi hd hs ref (p ++ [t])).unique h2
    unfold IsTarget
    rw [e1, e2]

/-- **`C03_targets`** (A4 iii+iv): for strictly positive costs, `t` is a target of the prefix `p`
iff `t` follows, in the reference, a position whose column entry is minimal. -/
theorem C03_targets (c : Costs) (hi : 0 < c.ins) (hd : 0 < c.del) (hs : 0 < c.sub)
    (ref p : List Int) (t : Int) :
    IsTarget c ref p t ↔
      ∃ j, ∃ hj : j < ref.length, lev c (ref.take j) p = best c ref p ∧ ref[j] = t := by
  constructor
  · exact pos_of_isTarget c hi hd hs ref p t
  · rintro ⟨j, hj, hm, rfl⟩
    exact isTarget_of_pos c hi.le hd.le hs.le ref p j hj hm

example : (0 : Rat) < (Costs.mk (1/4) 4 (3/2)).ins ∧ (0 : Rat) < (Costs.mk (1/4) 4 (3/2)).del
    ∧ (0 : Rat) < (Costs.mk (1/4) 4 (3/2)).sub := by
  refine ⟨?_, ?_, ?_⟩ <;> norm_num

/-- Positivity cannot be dropped: with a free substitution (`sub = 0`) the token `7` is a target
of the empty prefix against the reference `[5]` although it follows no position of the reference. -/
theorem C03_targets_zero_sub_counterexample :
    IsTarget ⟨1, 1, 0⟩ [5] [] 7 ∧
      ¬ ∃ j, ∃ hj : j < [(5 : Int)].length,
          lev ⟨1, 1, 0⟩ ([(5 : Int)].take j) [] = best ⟨1, 1, 0⟩ [5] [] ∧ [(5 : Int)][j] = 7 := by
  constructor
  · simp [IsTarget, best, prefixDists, listMin, lev, subCost, List.range_succ]
  · rintro ⟨j, hj, _, h⟩
    simp only [List.length_singleton, Nat.lt_one_iff] at hj
    subst hj
    simp at h

/-- The `ins == del == sub > 0` shortcut of `_string_matching` (unit costs) leaves the target
relation unchanged. -/
theorem C03_shortcut (c : Costs) (ref p : List Int) (t : Int) :
    IsTarget (effCosts c) ref p t ↔ IsTarget c ref p t :=
  isTarget_effCosts c ref p t

/-! ## Model level -/

/-- **`delmat_eq_sweep` on rows that may carry `+inf`** (the claim in the code's own comment):
the model's vectorised step — candidate row, then `(del_mat + row).min(1)` with
`del_mat[i][j] = (i-j)·d` below and `+inf` above the diagonal — equals the sequential sweep
`for i: v[i] = min(v[i], v[i-1] + d)`, for every row, reference and cost triple (no sign
condition). The shared Levenshtein lemmas are about the sweep form; this links them to the code's
form. -/
theorem C03_delmat (c : Costs) (ref : List Int) (y : Int) (last : List ERat) :
    stepRowDM c ref y last = stepRowE c ref y last :=
  stepRowDM_eq c ref y last

/-- What "cut" means in the theorems below: `toks.take (cutLen eos include_eos toks)` is everything
before the first `eos`, plus that `eos` when `include_eos` is set and an `eos` exists; the whole
column when `eos` is unset or does not occur. -/
theorem C03_cut (eos : Option Int) (ie : Bool) (toks : List Int) :
    toks.take (cutLen eos ie toks) =
      match eos with
      | none => toks
      | some e => if ie = true ∧ e ∈ toks then toks.takeWhile (· != e) ++ [e]
                  else toks.takeWhile (· != e) :=
  cut_spec eos ie toks

example : [1, 2, 0, 2, (0 : Int)].take (cutLen (some 0) true [1, 2, 0, 2, 0]) = [1, 2, 0] := by decide

/-- **The mask returned by `_string_matching(return_mask=True)`** for one padded column: entry
`(k, j)` is set iff row `k` is live (`k = 0` or `not_done`), `j` lies inside the cut reference and
`D[j]` is the minimum of the column of the prefix `hyp.take k` against the cut reference. Holds for
every padded length, every garbage after the cut, every cost triple with `del > 0`. -/
theorem C03_mask (c : Costs) (excl : Bool) (ref hyp : List Int) (refLen hypLen : Nat)
    (hdel : 0 < c.del) (hr : refLen ≤ ref.length) (hh : hypLen ≤ hyp.length)
    (k : Nat) (hk : k ≤ nIter excl hyp.length) (j : Nat) (hj : j < ref.length) :
    ((((colMasks c excl ref hyp refLen hypLen).getD k []).getD j false = true) ↔
      ((k = 0 ∨ k ≤ lastK excl hypLen) ∧ j < refLen ∧
        lev c ((ref.take refLen).take j) (hyp.take k) = best c (ref.take refLen) (hyp.take k))) :=
  colMasks_spec c excl ref hyp refLen hypLen hdel hr hh k hk j hj

example : (0 : Rat) < (Costs.mk 1 2 (1/2)).del ∧ cutLen (some 0) true [1, 2, 2, 3, 0, 2, 2] ≤ [1, 2, 2, 3, 0, 2, (2 : Int)].length
    ∧ cutLen (some 0) true [2, 1, 2, 0, 5] ≤ [2, 1, 2, 0, (5 : Int)].length := by
  refine ⟨by norm_num, by decide, by decide⟩

/-- **`optimal_completion`'s mask → list pipeline** (duplicate propagation over the whole padded
row, sort, neighbour comparison, select), for every token row and every mask: the list is strictly
increasing — so duplicate-free — and holds exactly the tokens of the marked positions. -/
theorem C03_select (ref : List Int) (mask : List Bool) :
    (selectTargets ref mask).Pairwise (· < ·) ∧
    ∀ t, t ∈ selectTargets ref mask ↔
      ∃ j, ∃ h : j < ref.length, mask.getD j false = true ∧ ref[j] = t := by
  obtain ⟨h1, h2⟩ := selectTargets_spec ref mask
  exact ⟨h1, fun t => (h2 t).trans (mem_zip_iff_getD ref mask t)⟩

/-- `torch.sort` leaves the order of equal keys open. Whatever token-sorted rearrangement of the
(token, flag) pairs it produces, neighbour comparison + select return the model's list. -/
theorem C03_select_any_sort (ref : List Int) (mask : List Bool) (L : List (Int × Bool))
    (hperm : L.Perm (ref.zip (propagate ref mask))) (hsorted : SortedFst L) :
    select (dropDup L) = selectTargets ref mask :=
  select_any_sort ref mask L hperm hsorted

example : SortedFst [((1 : Int), true), (2, false), (2, false)] := by
  simp [SortedFst]

/-- **`C03_model_targets`**: for strictly positive `ins`, `del`, `sub`, any eos / include_eos /
exclude_last setting, any padded column pair (garbage after the cut included) and any row `k` of
the output — outside the excluded point (no counted hypothesis token together with exclude_last):

* the model's list for row `k` is strictly increasing (each token once);
* if `k` is the length of a prefix of the cut hypothesis, the list holds exactly the tokens that
  can be appended to that prefix without raising the smallest reachable edit distance to the cut
  reference (with the TRUE costs, although the model may have taken the unit-cost shortcut);
* otherwise (prefixes past the hypothesis's end) the list is empty, i.e. the row is all padding. -/
theorem C03_model_targets (cfg : Cfg)
    (hi : 0 < cfg.costs.ins) (hd : 0 < cfg.costs.del) (hs : 0 < cfg.costs.sub)
    (ref hyp : List Int) (k : Nat) (hk : k ≤ nIter cfg.excludeLast hyp.length)
    (hdom : ¬ (cfg.excludeLast = true ∧ cutLen cfg.eos cfg.includeEos hyp = 0)) :
    ((colSelected cfg ref hyp).getD k []).Pairwise (· < ·) ∧
    (ValidPrefix cfg.excludeLast (cutLen cfg.eos cfg.includeEos hyp) k →
      ∀ t, t ∈ (colSelected cfg ref hyp).getD k [] ↔
        IsTarget cfg.costs (ref.take (cutLen cfg.eos cfg.includeEos ref))
          ((hyp.take (cutLen cfg.eos cfg.includeEos hyp)).take k) t) ∧
    (¬ ValidPrefix cfg.excludeLast (cutLen cfg.eos cfg.includeEos hyp) k →
      (colSelected cfg ref hyp).getD k [] = []) := by
  obtain ⟨pi, pd, ps⟩ := effCosts_pos cfg.costs hi hd hs
  have hr := cutLen_le cfg.eos cfg.includeEos ref
  have hh := cutLen_le cfg.eos cfg.includeEos hyp
  generalize hrl : cutLen cfg.eos cfg.includeEos ref = refLen at *
  generalize hhl : cutLen cfg.eos cfg.includeEos hyp = hypLen at *
  have hlen := colMasks_length (effCosts cfg.costs) cfg.excludeLast ref hyp refLen hypLen
  have hS : (colSelected cfg ref hyp).getD k []
      = selectTargets ref ((colMasks (effCosts cfg.costs) cfg.excludeLast ref hyp refLen hypLen).getD k []) := by
    unfold colSelected
    rw [hrl, hhl, List.getD_eq_getElem?_getD, List.getD_eq_getElem?_getD, List.getElem?_map,
      List.getElem?_eq_getElem (by omega)]
    rfl
  rw [hS]
  obtain ⟨hpw, hmem⟩ := C03_select ref
    ((colMasks (effCosts cfg.costs) cfg.excludeLast ref hyp refLen hypLen).getD k [])
  have hmask := fun j hj => C03_mask (effCosts cfg.costs) cfg.excludeLast ref hyp refLen hypLen pd hr hh
    k hk j hj
  have hvalid : ValidPrefix cfg.excludeLast hypLen k ↔ (k = 0 ∨ k ≤ lastK cfg.excludeLast hypLen) := by
    unfold ValidPrefix lastK
    cases he : cfg.excludeLast
    · simp; omega
    · have : hypLen ≠ 0 := fun h0 => hdom ⟨he, h0⟩
      simp; omega
  refine ⟨hpw, ?_, ?_⟩
  · intro hv t
    have hkl : k ≤ hypLen := by
      unfold ValidPrefix at hv
      cases he : cfg.excludeLast <;> simp [he] at hv <;> omega
    rw [List.take_take, Nat.min_eq_left hkl, ← C03_shortcut,
      C03_targets (effCosts cfg.costs) pi pd ps, hmem]
    have hrl' : (ref.take refLen).length = refLen := by simp [hr]
    constructor
    · rintro ⟨j, hj, hm, rfl⟩
      obtain ⟨_, hjr, hbest⟩ := (hmask j hj).mp hm
      exact ⟨j, by omega, hbest, by simp⟩
    · rintro ⟨j, hj, hbest, rfl⟩
      have hj' : j < refLen := by omega
      exact ⟨j, by omega, (hmask j (by omega)).mpr ⟨hvalid.mp hv, hj', hbest⟩, by simp⟩
  · intro hnv
    apply List.eq_nil_iff_forall_not_mem.mpr
    intro t ht
    obtain ⟨j, hj, hm, _⟩ := (hmem t).mp ht
    exact hnv (hvalid.mpr ((hmask j hj).mp hm).1)

example : ¬ ((true = true) ∧ cutLen (some 0) false [2, 1, 0, 5] = 0) := by decide
example : (2 : Nat) ≤ nIter true [2, 1, 0, 5].length ∧ ValidPrefix true (cutLen (some 0) false [2, 1, 0, 5]) 1 := by
  decide

/-- The model on the docstring-like example (reference `1 2 2 3 eos` + garbage `2 2`, hypothesis
`2 1 2 eos` + garbage `5`, unit costs, include_eos): the same six rows the real
`optimal_completion` returns (`[1] [1,2] [2] [2] [2,3] []`). -/
example : colSelected ⟨some 0, true, false, ⟨1, 1, 1⟩, -100⟩ [1, 2, 2, 3, 0, 2, 2] [2, 1, 2, 0, 5]
    = [[1], [1, 2], [2], [2], [2, 3], []] := by decide +kernel

/-- At the excluded point the code does list a token for prefix `0` although no prefix exists
(the property does not speak about this input; the model follows the code). -/
theorem C03_excluded_point_witness :
    (colSelected ⟨some 0, false, true, ⟨1, 1, 1⟩, -100⟩ [3, 4] [0, 5]).getD 0 [] = [3]
      ∧ ¬ ValidPrefix true (cutLen (some 0) false [0, 5]) 0 := by
  constructor <;> decide +kernel

/-- **Scatter**: `masked_select` into one flat buffer and `masked_scatter_` with
`counts > arange(C)` give every `(prefix, batch)` row its own list followed only by padding, and
every row has width `C = max count`. -/
theorem C03_scatter (cfg : Cfg) (refs hyps : List (List Int)) :
    (targetsBatch cfg refs hyps).2
      = (rowsKN cfg refs hyps).map
          (fun l => l ++ List.replicate ((targetsBatch cfg refs hyps).1 - l.length) cfg.padding) ∧
    ∀ row ∈ (targetsBatch cfg refs hyps).2, row.length = (targetsBatch cfg refs hyps).1 := by
  have h1 : (targetsBatch cfg refs hyps).2
      = (rowsKN cfg refs hyps).map
          (fun l => l ++ List.replicate ((targetsBatch cfg refs hyps).1 - l.length) cfg.padding) := by
    simp only [targetsBatch]
    exact scatterRows_eq _ _ _
  refine ⟨h1, ?_⟩
  intro row hrow
  rw [h1, List.mem_map] at hrow
  obtain ⟨l, hl, rfl⟩ := hrow
  have : l.length ≤ (targetsBatch cfg refs hyps).1 := by
    simp only [targetsBatch]
    exact (le_foldl_max _ 0).2 _ (List.mem_map.mpr ⟨l, hl, rfl⟩)
  simp only [List.length_append, List.length_replicate]
  omega

/-- **Batch layout**: row `k·N + n` of the `(H', N, C)` output (row-major) is the list of batch
column `n` for prefix `k`, followed only by padding — so `C03_model_targets` speaks about every row
of the padded tensor, and columns do not influence each other except through the common width. -/
theorem C03_batch_row (cfg : Cfg) (refs hyps : List (List Int)) (k n : Nat)
    (hk : k ≤ nIter cfg.excludeLast (hyps.headD []).length)
    (hn : n < (List.zipWith (colSelected cfg) refs hyps).length) :
    (targetsBatch cfg refs hyps).2[k * (List.zipWith (colSelected cfg) refs hyps).length + n]?
      = some (((List.zipWith (colSelected cfg) refs hyps)[n]).getD k [] ++
          List.replicate ((targetsBatch cfg refs hyps).1
            - (((List.zipWith (colSelected cfg) refs hyps)[n]).getD k []).length) cfg.padding) := by
  rw [(C03_scatter cfg refs hyps).1, List.getElem?_map, rowsKN_getElem? cfg refs hyps k n hk hn]
  rfl

example : (targetsBatch ⟨some 0, true, false, ⟨1, 1, 1⟩, -100⟩ [[1, 2, 2, 3, 0, 2, 2], [3, 0, 1, 1, 1, 1, 1]]
    [[2, 1, 2, 0, 5], [3, 3, 0, 0, 0]]).2[1 * 2 + 0]? = some [1, 2] := by decide +kernel

/-! ## The loss -/

/-- **`C03_loss`** (one prefix): on a padded target row `S ++ [ignore, …]` whose real tokens `S`
do not contain `ignore_index`, the loss cell is minus the average of `w s · lsm s` over `S`
(`w = 1` without class weights) and `0` when `S` is empty. -/
theorem C03_loss_cell (ignore : Int) (w lsm : Int → Rat) (S : List Int) (n : Nat)
    (h : ignore ∉ S) :
    lossCell ignore w lsm (S ++ List.replicate n ignore) = lossSpec w lsm S := by
  unfold lossCell lossSpec
  rw [filter_ne_padded ignore S n h, sum_terms_padded ignore w lsm S n h]
  by_cases hS : S = []
  · subst hS; simp
  · have : max S.length 1 = S.length := by
      have : 0 < S.length := List.length_pos_iff.mpr hS
      omega
    rw [if_neg hS, this]

/-- The prefixes counted by the `mean` reduction (`(~padding_mask).any(2)`) are exactly those with
a non-empty target set. -/
theorem C03_loss_counted (ignore : Int) (S : List Int) (n : Nat) (h : ignore ∉ S) :
    hasTarget ignore (S ++ List.replicate n ignore) = !S.isEmpty := by
  unfold hasTarget
  cases S with
  | nil =>
    simp only [List.nil_append, List.isEmpty_nil, Bool.not_true]
    rw [List.any_eq_false]
    intro x hx
    simp only [List.mem_replicate] at hx
    simp [hx.2]
  | cons a S =>
    have ha : a ≠ ignore := by rintro rfl; exact h List.mem_cons_self
    simp [ha]

example : (-2 : Int) ∉ [1, 3] := by decide

/-- **`C03_loss`** (one prefix of one column, end to end): let `S` be the model's target list of
row `k` (`exclude_last = True`, `padding = ignore_index`, as the loss calls `optimal_completion`).
If `ignore_index` is not a token of the cut reference then, whatever the width `|S| + n` of the
padded row: the loss cell is `-(1/|S|) Σ_{s ∈ S} w s · lsm s`, `0` for `S = ∅`; `S` lists each
target once; for a prefix of the cut hypothesis `S` is exactly the set of distance-preserving next
tokens; past the hypothesis's end the cell is `0` and is not counted by `mean`. -/
theorem C03_loss_prefix (cfg : Cfg) (hex : cfg.excludeLast = true)
    (hi : 0 < cfg.costs.ins) (hd : 0 < cfg.costs.del) (hs : 0 < cfg.costs.sub)
    (ref hyp : List Int) (k : Nat) (hk : k ≤ nIter cfg.excludeLast hyp.length)
    (hdom : cutLen cfg.eos cfg.includeEos hyp ≠ 0)
    (w lsm : Int → Rat) (n : Nat)
    (hign : cfg.padding ∉ ref.take (cutLen cfg.eos cfg.includeEos ref)) :
    lossCell cfg.padding w lsm ((colSelected cfg ref hyp).getD k [] ++ List.replicate n cfg.padding)
        = lossSpec w lsm ((colSelected cfg ref hyp).getD k []) ∧
    ((colSelected cfg ref hyp).getD k []).Pairwise (· < ·) ∧
    (k < cutLen cfg.eos cfg.includeEos hyp →
      ∀ t, t ∈ (colSelected cfg ref hyp).getD k [] ↔
        IsTarget cfg.costs (ref.take (cutLen cfg.eos cfg.includeEos ref))
          ((hyp.take (cutLen cfg.eos cfg.includeEos hyp)).take k) t) ∧
    (¬ k < cutLen cfg.eos cfg.includeEos hyp →
      lossCell cfg.padding w lsm ((colSelected cfg ref hyp).getD k [] ++ List.replicate n cfg.padding) = 0
      ∧ hasTarget cfg.padding ((colSelected cfg ref hyp).getD k [] ++ List.replicate n cfg.padding) = false) := by
  obtain ⟨hpw, hval, hinv⟩ := C03_model_targets cfg hi hd hs ref hyp k hk (fun h => hdom h.2)
  have hV : ValidPrefix cfg.excludeLast (cutLen cfg.eos cfg.includeEos hyp) k
      ↔ k < cutLen cfg.eos cfg.includeEos hyp := by
    unfold ValidPrefix; rw [hex]; simp
  -- every listed token is a token of the reference column
  have hsub : cfg.padding ∉ (colSelected cfg ref hyp).getD k [] := by
    intro hmem
    by_cases hlt : k < (colSelected cfg ref hyp).length
    · have hS : (colSelected cfg ref hyp).getD k []
          = selectTargets ref ((colMasks (effCosts cfg.costs) cfg.excludeLast ref hyp
              (cutLen cfg.eos cfg.includeEos ref) (cutLen cfg.eos cfg.includeEos hyp)).getD k []) := by
        unfold colSelected at hlt ⊢
        rw [List.length_map] at hlt
        rw [List.getD_eq_getElem?_getD, List.getD_eq_getElem?_getD, List.getElem?_map,
          List.getElem?_eq_getElem hlt]
        rfl
      rw [hS] at hmem
      obtain ⟨j, hj, hm, e⟩ := ((C03_select ref _).2 _).mp hmem
      have hjr := ((C03_mask (effCosts cfg.costs) cfg.excludeLast ref hyp _ _
        (effCosts_pos cfg.costs hi hd hs).2.1 (cutLen_le _ _ ref) (cutLen_le _ _ hyp) k hk j hj).mp hm).2.1
      apply hign
      rw [← e, List.mem_take_iff_getElem]
      exact ⟨j, by omega, rfl⟩
    · rw [List.getD_eq_getElem?_getD, List.getElem?_eq_none (by omega)] at hmem
      simp at hmem
  refine ⟨C03_loss_cell _ w lsm _ n hsub, hpw, fun h => hval (hV.mpr h), ?_⟩
  intro hnot
  have hnil := hinv (fun h => hnot (hV.mp h))
  rw [hnil]
  constructor
  · rw [C03_loss_cell _ w lsm [] n (by simp)]; simp [lossSpec]
  · rw [C03_loss_counted _ [] n (by simp)]; rfl

/-! ## Rows of the output: what is specified, and that the harness's judgements are exact -/

/-- **The harness's per-row judgement is sound and complete.** `rowCheck pad O row` — strip the
trailing padding, no padding value inside, no token twice, listed tokens = oracle tokens — holds
iff the row satisfies the property's statement about a row (`RowProp`) for the set `O`. -/
theorem C03_rowcheck (pad : Int) (O row : List Int) :
    rowCheck pad O row = true ↔ RowProp pad (· ∈ O) row := by
  unfold rowCheck RowProp
  simp only [Bool.and_eq_true, Bool.not_eq_true', List.all_eq_true, List.contains_iff_mem]
  constructor
  · rintro ⟨⟨⟨h1, h2⟩, h3⟩, h4⟩
    obtain ⟨m, hm⟩ := stripPad_spec pad row
    refine ⟨stripPad pad row, m, hm, ?_, (nodupB_iff _).mp h2, fun t => ⟨h3 t, h4 t⟩⟩
    intro hmem
    have := List.contains_iff_mem.mpr hmem
    rw [h1] at this
    exact Bool.false_ne_true this
  · rintro ⟨S, m, rfl, hp, hn, hmem⟩
    rw [stripPad_append_replicate pad S m hp]
    refine ⟨⟨⟨?_, (nodupB_iff _).mpr hn⟩, fun t ht => (hmem t).mp ht⟩, fun t ht => (hmem t).mpr ht⟩
    cases hc : S.contains pad
    · rfl
    · exact absurd (List.contains_iff_mem.mp hc) hp

example : rowCheck (-100) [2, 1] [1, 2, -100, -100] = true ∧ rowCheck (-100) [2, 1] [1, -100, 2] = false
    ∧ rowCheck (-100) [2, 1] [1, 1, 2] = false ∧ rowCheck (-100) [] [-100] = true := by decide

/-- **Order and width are the only freedom.** If one row satisfies the property's statement for
`P`, then another row satisfies it iff the two rows agree as multisets once their trailing padding
is stripped. So two outputs that both satisfy the property differ at most in the order of the
targets inside a row and in the number of padding entries (the width `C`), and every such
variation of a correct output is again correct. -/
theorem C03_row_freedom (pad : Int) (P : Int → Prop) (r1 r2 : List Int) (h1 : RowProp pad P r1) :
    RowProp pad P r2 ↔ (stripPad pad r2).Perm (stripPad pad r1) := by
  obtain ⟨S1, m1, rfl, hp1, hn1, hm1⟩ := h1
  rw [stripPad_append_replicate pad S1 m1 hp1]
  constructor
  · rintro ⟨S2, m2, rfl, hp2, hn2, hm2⟩
    rw [stripPad_append_replicate pad S2 m2 hp2]
    exact (List.perm_ext_iff_of_nodup hn2 hn1).mpr (fun a => (hm2 a).trans (hm1 a).symm)
  · intro hperm
    obtain ⟨m, hm⟩ := stripPad_spec pad r2
    refine ⟨stripPad pad r2, m, hm, fun h => hp1 (hperm.mem_iff.mp h), hperm.nodup_iff.mpr hn1, ?_⟩
    intro t
    rw [hperm.mem_iff]
    exact hm1 t

/-- Any reordering of the list and any number of padding entries is again a correct row. -/
theorem C03_row_any_order_width (pad : Int) (P : Int → Prop) (S S' : List Int) (m m' : Nat)
    (hp : pad ∉ S) (h : RowProp pad P (S ++ List.replicate m pad)) (hperm : S'.Perm S) :
    RowProp pad P (S' ++ List.replicate m' pad) := by
  have hp' : pad ∉ S' := fun hm => hp (hperm.mem_iff.mp hm)
  rw [C03_row_freedom pad P _ _ h, stripPad_append_replicate pad S m hp,
    stripPad_append_replicate pad S' m' hp']
  exact hperm

example : RowProp (-100) (fun t => t = 1 ∨ t = 2) ([1, 2] ++ List.replicate 1 (-100)) :=
  ⟨[1, 2], 1, rfl, by decide, by decide, fun t => by simp⟩

/-- **The harness's correspondence test is sound and complete**: given that the model's row
satisfies the property's statement, an implementation row satisfies it iff `rowAgree` (stripped
rows equal as multisets) accepts it. -/
theorem C03_rowagree (pad : Int) (P : Int → Prop) (modelRow implRow : List Int)
    (hm : RowProp pad P modelRow) :
    RowProp pad P implRow ↔ rowAgree pad modelRow implRow = true := by
  unfold rowAgree
  rw [List.isPerm_iff]
  exact C03_row_freedom pad P modelRow implRow hm

/-- **The executable oracle is the target set**: for strictly positive costs and a candidate list
that contains the tokens of the reference, `oracleTargets` lists each `t` with
`best (p ++ [t]) = best p` exactly once and nothing else. -/
theorem C03_oracle (c : Costs) (hi : 0 < c.ins) (hd : 0 < c.del) (hs : 0 < c.sub)
    (cands ref p : List Int) (hc : ∀ t ∈ ref, t ∈ cands) :
    (oracleTargets c cands ref p).Nodup ∧
    ∀ t, t ∈ oracleTargets c cands ref p ↔ IsTarget c ref p t :=
  oracleTargets_spec c hi hd hs cands ref p hc

example : oracleTargets ⟨1, 1, 1⟩ [1, 2, 2, 3, 7] [1, 2, 2, 3] [2] = [1, 2] := by decide +kernel

/-! ## Batch level: `batch_first`, the `(H', N, C)` layout -/

/-- **`C03_layout`**: for a non-empty batch whose two token tensors agree on the batch size,
`optimal_completion` succeeds; its result has shape `(H', N, C)` — `(N, H', C)` under `batch_first`
—; and the vector at (prefix `k`, sequence `n`) — `[k, n, :]`, resp. `[n, k, :]` — is the
per-column model's list for the `n`-th reference and hypothesis, read off the input tensors in the
layout of the call (`seqOf`), followed only by padding. Transposing the inputs (`.t()`), running the
columns through one flat `masked_select`/`masked_scatter_` buffer and transposing the result back
neither mixes sequences nor prefixes. -/
theorem C03_layout (cfg : Cfg) (bf : Bool) (ref hyp : Tens2 Int)
    (hN : batchOf bf ref = batchOf bf hyp) (hpos : 0 < batchOf bf ref) :
    ∃ out, optimalCompletionT cfg bf ref hyp = .ok out ∧
      out.d0 = (if bf then batchOf bf ref else 1 + nIter cfg.excludeLast (seqLen bf hyp)) ∧
      out.d1 = (if bf then 1 + nIter cfg.excludeLast (seqLen bf hyp) else batchOf bf ref) ∧
      ∀ k n, k ≤ nIter cfg.excludeLast (seqLen bf hyp) → n < batchOf bf ref →
        (targetList cfg bf ref hyp n k).length ≤ out.d2 ∧
        out.vec cfg.padding (if bf then n else k) (if bf then k else n)
          = targetList cfg bf ref hyp n k ++
              List.replicate (out.d2 - (targetList cfg bf ref hyp n k).length) cfg.padding :=
  optimalCompletionT_spec cfg bf ref hyp hN hpos

/-- The same batch handed over in the two layouts (`(R, N)`/`(H, N)` and, under `batch_first`,
`(N, R)`/`(N, H)`): same lists, result transposed. -/
example :
    (optimalCompletionT ⟨some 0, true, false, ⟨1, 1, 1⟩, -100⟩ false
        ⟨3, 2, [1, 3, 2, 0, 2, 1]⟩ ⟨2, 2, [2, 3, 1, 0]⟩).toOption.map (fun t => (t.d0, t.d1, t.d2, t.data))
      = some (3, 2, 2, [1, -100, 3, -100, 1, 2, 0, -100, 2, -100, -100, -100]) ∧
    (optimalCompletionT ⟨some 0, true, false, ⟨1, 1, 1⟩, -100⟩ true
        ⟨2, 3, [1, 2, 2, 3, 0, 1]⟩ ⟨2, 2, [2, 1, 3, 0]⟩).toOption.map (fun t => (t.d0, t.d1, t.d2, t.data))
      = some (2, 3, 2, [1, -100, 1, 2, 2, -100, 3, -100, 0, -100, -100, -100]) := by
  constructor <;> decide +kernel

/-- Outside the domain of `C03_layout` the model refuses like the code: different batch sizes, or an
empty batch (`counts.max()` of an empty tensor). -/
theorem C03_layout_rejects (cfg : Cfg) (bf : Bool) (ref hyp : Tens2 Int)
    (h : batchOf bf ref ≠ batchOf bf hyp ∨ batchOf bf ref = 0) :
    optimalCompletionT cfg bf ref hyp = .error "RuntimeError" := by
  unfold optimalCompletionT
  simp only [layout_d1]
  rcases h with h | h
  · rw [if_pos h]
  · by_cases h' : batchOf bf ref ≠ batchOf bf hyp
    · rw [if_pos h']
    · rw [if_neg h', if_pos h]

/-- **`C03_output_rows`** (the property for the whole output tensor): strictly positive costs, a
non-empty batch, no sequence at the excluded point, and a padding value that is no token of a cut
reference. Then every vector `[k, n, :]` (`[n, k, :]` under `batch_first`) of the model's output
satisfies the property's statement about a row for `TargetAt … n k`: it lists, once each and
followed only by padding, exactly the tokens that keep the smallest reachable distance of the
`k`-token prefix of the cut `n`-th hypothesis against the cut `n`-th reference — and nothing when
`k` is past the hypothesis's end. -/
theorem C03_output_rows (cfg : Cfg)
    (hi : 0 < cfg.costs.ins) (hd : 0 < cfg.costs.del) (hs : 0 < cfg.costs.sub)
    (bf : Bool) (ref hyp : Tens2 Int)
    (hN : batchOf bf ref = batchOf bf hyp) (hpos : 0 < batchOf bf ref)
    (hdom : ∀ n, n < batchOf bf ref →
      ¬ (cfg.excludeLast = true ∧ cutLen cfg.eos cfg.includeEos (seqOf bf hyp n) = 0))
    (hpad : ∀ n, n < batchOf bf ref →
      cfg.padding ∉ (seqOf bf ref n).take (cutLen cfg.eos cfg.includeEos (seqOf bf ref n))) :
    ∃ out, optimalCompletionT cfg bf ref hyp = .ok out ∧
      ∀ k n, k ≤ nIter cfg.excludeLast (seqLen bf hyp) → n < batchOf bf ref →
        RowProp cfg.padding (TargetAt cfg bf ref hyp n k)
          (out.vec cfg.padding (if bf then n else k) (if bf then k else n)) := by
  obtain ⟨out, hout, _, _, hrows⟩ := C03_layout cfg bf ref hyp hN hpos
  refine ⟨out, hout, fun k n hk hn => ?_⟩
  obtain ⟨_, hv⟩ := hrows k n hk hn
  rw [hv]
  have hk' : k ≤ nIter cfg.excludeLast (seqOf bf hyp n).length := by rw [seqOf_length]; exact hk
  obtain ⟨hpw, hval, hinv⟩ := C03_model_targets cfg hi hd hs (seqOf bf ref n) (seqOf bf hyp n) k hk'
    (hdom n hn)
  refine ⟨targetList cfg bf ref hyp n k, _, rfl, ?_, ?_, ?_⟩
  · exact fun hm => hpad n hn (colSelected_mem_cut cfg hi hd hs _ _ k _ hm)
  · exact hpw.imp (fun h => ne_of_lt h)
  · intro t
    unfold TargetAt
    by_cases hv : ValidPrefix cfg.excludeLast (cutLen cfg.eos cfg.includeEos (seqOf bf hyp n)) k
    · exact ⟨fun h => ⟨hv, (hval hv t).mp h⟩, fun h => (hval hv t).mpr h.2⟩
    · have hnil : targetList cfg bf ref hyp n k = [] := hinv hv
      rw [hnil]
      exact ⟨fun h => absurd h List.not_mem_nil, fun h => absurd h.1 hv⟩

/-- The hypotheses of `C03_output_rows` hold on a batch of two sequences handed over batch-first
(second reference `3 eos 1`: garbage after the eos; eos counted). -/
example :
    batchOf true (⟨2, 3, [1, 2, 2, 3, 0, 1]⟩ : Tens2 Int) = batchOf true (⟨2, 2, [2, 1, 3, 0]⟩ : Tens2 Int)
    ∧ 0 < batchOf true (⟨2, 3, [1, 2, 2, 3, 0, 1]⟩ : Tens2 Int)
    ∧ (∀ n, n < 2 → ¬ (false = true ∧ cutLen (some 0) true (seqOf true ⟨2, 2, [2, 1, 3, 0]⟩ n) = 0))
    ∧ (∀ n, n < 2 → (-100 : Int) ∉
        (seqOf true ⟨2, 3, [1, 2, 2, 3, 0, 1]⟩ n).take (cutLen (some 0) true (seqOf true ⟨2, 3, [1, 2, 2, 3, 0, 1]⟩ n))) := by
  decide

/-- The executable oracle of (sequence `n`, prefix `k`) is the property's predicate `TargetAt`. -/
theorem C03_oracle_at (cfg : Cfg)
    (hi : 0 < cfg.costs.ins) (hd : 0 < cfg.costs.del) (hs : 0 < cfg.costs.sub)
    (bf : Bool) (ref hyp : Tens2 Int) (n k : Nat) (t : Int) :
    t ∈ oracleAt cfg bf ref hyp n k ↔ TargetAt cfg bf ref hyp n k t := by
  unfold oracleAt TargetAt
  simp only
  by_cases hv : ValidPrefix cfg.excludeLast (cutLen cfg.eos cfg.includeEos (seqOf bf hyp n)) k
  · rw [if_pos hv]
    rw [(C03_oracle cfg.costs hi hd hs _ _ _ (fun t ht => by
      have := List.mem_of_mem_take ht
      simp only [List.mem_append]
      exact Or.inl (Or.inl this))).2 t]
    exact ⟨fun h => ⟨hv, h⟩, fun h => h.2⟩
  · rw [if_neg hv]
    exact ⟨fun h => absurd h List.not_mem_nil, fun h => absurd h.1 hv⟩

/-- **`C03_check_sound_complete`**: under the hypotheses of `C03_output_rows`, for ANY candidate row
`r` (e.g. the implementation's vector at (prefix `k`, sequence `n`)) the following are equivalent:
`r` satisfies the property's statement for that place; `r` agrees with the model's vector as a
multiset after stripping trailing padding (the harness's correspondence test `rowAgree`); the
harness's predicate `rowCheck` accepts `r` against the executable oracle `oracleAt`. -/
theorem C03_check_sound_complete (cfg : Cfg)
    (hi : 0 < cfg.costs.ins) (hd : 0 < cfg.costs.del) (hs : 0 < cfg.costs.sub)
    (bf : Bool) (ref hyp : Tens2 Int)
    (hN : batchOf bf ref = batchOf bf hyp) (hpos : 0 < batchOf bf ref)
    (hdom : ∀ n, n < batchOf bf ref →
      ¬ (cfg.excludeLast = true ∧ cutLen cfg.eos cfg.includeEos (seqOf bf hyp n) = 0))
    (hpad : ∀ n, n < batchOf bf ref →
      cfg.padding ∉ (seqOf bf ref n).take (cutLen cfg.eos cfg.includeEos (seqOf bf ref n)))
    (out : Tens3 Int) (hout : optimalCompletionT cfg bf ref hyp = .ok out)
    (k n : Nat) (hk : k ≤ nIter cfg.excludeLast (seqLen bf hyp)) (hn : n < batchOf bf ref)
    (r : List Int) :
    (RowProp cfg.padding (TargetAt cfg bf ref hyp n k) r ↔
      rowAgree cfg.padding (out.vec cfg.padding (if bf then n else k) (if bf then k else n)) r = true) ∧
    (RowProp cfg.padding (TargetAt cfg bf ref hyp n k) r ↔
      rowCheck cfg.padding (oracleAt cfg bf ref hyp n k) r = true) := by
  obtain ⟨out', hout', hrows⟩ := C03_output_rows cfg hi hd hs bf ref hyp hN hpos hdom hpad
  have e : out' = out := by
    rw [hout] at hout'
    exact (Except.ok.inj hout').symm
  subst e
  refine ⟨C03_rowagree _ _ _ _ (hrows k n hk hn), ?_⟩
  rw [C03_rowcheck]
  exact RowProp_congr _ _ _ (fun t => (C03_oracle_at cfg hi hd hs bf ref hyp n k t).symm) r

/-! ## The reductions of the loss -/

/-- **`C03_loss_reduce`**: `hard_optimal_completion_distillation_loss` on whole tensors, for
strictly positive costs, a non-empty batch with at least one hypothesis position, logits matching
`hyp`, an admissible eos, an `ignore_index` that is no token of a cut reference, and (`hcls`, added by the
audit — without it the code raises `IndexError`, see `C03_loss_rejects_class`) every token of a cut
reference a class index `0 ≤ t < V`. For either
value of `batch_first`:
* `reduction="none"` returns the matrix, in the layout of `hyp`, whose entry at (prefix `k`,
  sequence `n`) is `specCell … k n = lossSpec` (minus the average weighted log-probability) over
  the target list of that place;
* `reduction="sum"` returns `lossSumSpec`, the sum of these cells over all prefixes and sequences;
* `reduction="mean"` returns `lossMeanSpec`: per sequence the sum over its prefixes divided by the
  number of prefixes that have a target (1 if none), averaged over the sequences — the model
  reduces along `seq_dim = 1 if batch_first else 0`, the formula does not mention the layout. -/
theorem C03_loss_reduce (cfg : Cfg) (hex : cfg.excludeLast = true)
    (hi : 0 < cfg.costs.ins) (hd : 0 < cfg.costs.del) (hs : 0 < cfg.costs.sub)
    (bf : Bool) (w : Int → Rat) (lsm : Tens3 Rat) (ref hyp : Tens2 Int)
    (hN : batchOf bf ref = batchOf bf hyp) (hpos : 0 < batchOf bf ref) (hH : 0 < seqLen bf hyp)
    (hl0 : lsm.d0 = hyp.d0) (hl1 : lsm.d1 = hyp.d1)
    (heos : (cfg.includeEos && badEos cfg.eos cfg.padding lsm.d2) = false)
    (hpad : ∀ n, n < batchOf bf ref →
      cfg.padding ∉ (seqOf bf ref n).take (cutLen cfg.eos cfg.includeEos (seqOf bf ref n)))
    (hcls : ∀ n, n < batchOf bf ref →
      ∀ t ∈ (seqOf bf ref n).take (cutLen cfg.eos cfg.includeEos (seqOf bf ref n)), 0 ≤ t ∧ t < (lsm.d2 : Int)) :
    (∃ L, hardOCDLossT cfg bf .none w lsm ref hyp = .ok (.matrix L) ∧ L.d0 = hyp.d0 ∧ L.d1 = hyp.d1 ∧
        ∀ k n, k < seqLen bf hyp → n < batchOf bf ref →
          L.get 0 (if bf then n else k) (if bf then k else n) = specCell cfg bf w lsm ref hyp k n) ∧
    hardOCDLossT cfg bf .sum w lsm ref hyp
      = .ok (.scalar (lossSumSpec (seqLen bf hyp) (batchOf bf ref) (specCell cfg bf w lsm ref hyp))) ∧
    hardOCDLossT cfg bf .mean w lsm ref hyp
      = .ok (.scalar (lossMeanSpec (seqLen bf hyp) (batchOf bf ref) (specCell cfg bf w lsm ref hyp)
          (specHas cfg bf ref hyp))) :=
  hardOCDLossT_spec cfg hex bf w lsm ref hyp hN hpos hH hl0 hl1 heos
    (fun n k hn hm => hpad n hn (colSelected_mem_cut cfg hi hd hs _ _ k _ hm))
    (fun n k hn t ht => hcls n hn t (colSelected_mem_cut cfg hi hd hs _ _ k _ ht))

/-- **`C03_loss_rejects_class`** (the guard `hcls` of `C03_loss_reduce` is needed, and the model does not
paper over it): under the other preconditions, if some place (prefix `k`, sequence `n`) has a target `t`
(`TargetAt`: a distance-preserving next token of a prefix of the cut hypothesis) that is not `ignore_index`
and is no class index (`t < 0` or `t ≥ V`), the model raises `IndexError` for every reduction — as
`cross_entropy` does (`Target … is out of bounds`). Before the audit the model read the log-probability
at a clamped index there (class 0 for a negative token, 0 for a token `≥ V`) and `C03_loss_reduce` held
for a loss the code never returns. -/
theorem C03_loss_rejects_class (cfg : Cfg) (hex : cfg.excludeLast = true)
    (hi : 0 < cfg.costs.ins) (hd : 0 < cfg.costs.del) (hs : 0 < cfg.costs.sub)
    (bf : Bool) (red : Reduction) (w : Int → Rat) (lsm : Tens3 Rat) (ref hyp : Tens2 Int)
    (hN : batchOf bf ref = batchOf bf hyp) (hpos : 0 < batchOf bf ref) (hH : 0 < seqLen bf hyp)
    (hl0 : lsm.d0 = hyp.d0) (hl1 : lsm.d1 = hyp.d1)
    (heos : (cfg.includeEos && badEos cfg.eos cfg.padding lsm.d2) = false)
    (k n : Nat) (hk : k < seqLen bf hyp) (hn : n < batchOf bf ref) (t : Int)
    (ht : TargetAt cfg bf ref hyp n k t) (htp : t ≠ cfg.padding) (hbad : t < 0 ∨ (lsm.d2 : Int) ≤ t) :
    hardOCDLossT cfg bf red w lsm ref hyp = .error "IndexError" := by
  obtain ⟨hv, hT⟩ := ht
  have hk' : k ≤ nIter cfg.excludeLast (seqOf bf hyp n).length := by
    rw [seqOf_length, hex]; unfold nIter; simp; omega
  have hdom : ¬ (cfg.excludeLast = true ∧ cutLen cfg.eos cfg.includeEos (seqOf bf hyp n) = 0) := by
    rintro ⟨_, h0⟩
    unfold ValidPrefix at hv
    rw [hex, h0] at hv
    simp at hv
  obtain ⟨_, hval, _⟩ := C03_model_targets cfg hi hd hs (seqOf bf ref n) (seqOf bf hyp n) k hk' hdom
  exact hardOCDLossT_rejects_target cfg hex bf red w lsm ref hyp hN hpos hH hl0 hl1 heos k n hk hn t
    ((hval hv t).mpr hT) htp hbad

/-- The hypotheses of `C03_loss_reduce` hold on the literal of the next example. -/
example :
    batchOf true (⟨2, 2, [1, 2, 2, 0]⟩ : Tens2 Int) = batchOf true (⟨2, 2, [2, 1, 1, 0]⟩ : Tens2 Int)
    ∧ 0 < seqLen true (⟨2, 2, [2, 1, 1, 0]⟩ : Tens2 Int)
    ∧ (false && badEos (some 0) (-2) 3) = false
    ∧ (∀ n, n < 2 → (-2 : Int) ∉
        (seqOf true ⟨2, 2, [1, 2, 2, 0]⟩ n).take (cutLen (some 0) false (seqOf true ⟨2, 2, [1, 2, 2, 0]⟩ n)))
    ∧ (∀ n, n < 2 → ∀ t ∈
        (seqOf true ⟨2, 2, [1, 2, 2, 0]⟩ n).take (cutLen (some 0) false (seqOf true ⟨2, 2, [1, 2, 2, 0]⟩ n)),
          0 ≤ t ∧ t < ((3 : Nat) : Int)) := by
  decide

/-- seed-like check of the statement on a literal: two sequences of different lengths, eos 0 not
counted, `batch_first`; the `mean` of the model is `lossMeanSpec` of the declarative cells. -/
example :
    (match hardOCDLossT ⟨some 0, false, true, ⟨1, 1, 1⟩, -2⟩ true .mean (fun _ => 1)
        ⟨2, 2, 3, [-1, -2, -3, -1, -1, -4, -2, -2, -2, -5, -1, -1]⟩ ⟨2, 2, [1, 2, 2, 0]⟩ ⟨2, 2, [2, 1, 1, 0]⟩ with
      | .ok (.scalar q) => some q
      | _ => none)
    = some (lossMeanSpec 2 2
        (specCell ⟨some 0, false, true, ⟨1, 1, 1⟩, -2⟩ true (fun _ => 1)
          ⟨2, 2, 3, [-1, -2, -3, -1, -1, -4, -2, -2, -2, -5, -1, -1]⟩ ⟨2, 2, [1, 2, 2, 0]⟩ ⟨2, 2, [2, 1, 1, 0]⟩)
        (specHas ⟨some 0, false, true, ⟨1, 1, 1⟩, -2⟩ true ⟨2, 2, [1, 2, 2, 0]⟩ ⟨2, 2, [2, 1, 1, 0]⟩)) := by
  decide +kernel

/-! ## Audit: every theorem above applied to ONE concrete non-trivial instance (all its hypotheses together)

Column instance (the docstring-like one): padded reference `1 2 2 3 eos 2 2` (repeated token, garbage after
the eos that repeats a valid token), padded hypothesis `2 1 2 eos 5`, eos `0` counted, costs (1/4, 4, 3/2)
(no shortcut; all positive). -/

def audCfg : Cfg := ⟨some 0, true, false, ⟨1/4, 4, 3/2⟩, -100⟩

example := C03_row_lower ⟨1/4, 4, 3/2⟩ (by norm_num) (by norm_num) (by norm_num) [1, 2, 2, 3] [2] 1 2 (by decide)
example := C03_best_completion ⟨1/4, 4, 3/2⟩ (by norm_num) (by norm_num) (by norm_num) [1, 2, 2, 3] [2, 1]
-- C03_best_completion_witness: position j = 1 of the reference `1 2 3` is minimal for the prefix `1`
example : lev unitCosts ([(1 : Int), 2, 3] ++ []) ([1] ++ [(1 : Int), 2, 3].drop 1) = best unitCosts [(1 : Int), 2, 3] [1] := by
  have h := C03_best_completion_witness unitCosts (by norm_num [unitCosts]) (by norm_num [unitCosts])
    (by norm_num [unitCosts]) [(1 : Int), 2, 3] [1] 1
    (by simp [best, prefixDists, listMin, lev, subCost, unitCosts, List.range_succ])
  simpa using h
example := C03_target_decl ⟨1/4, 4, 3/2⟩ (by norm_num) (by norm_num) (by norm_num) [1, 2, 2, 3] [2] 2
example := C03_targets ⟨1/4, 4, 3/2⟩ (by norm_num) (by norm_num) (by norm_num) [1, 2, 2, 3] [2] 2
-- C03_mask: all five hypotheses (row 2 is live, position 1 is the marked one)
example := C03_mask ⟨1/4, 4, 3/2⟩ false [1, 2, 2, 3, 0, 2, 2] [2, 1, 2, 0, 5] 5 4 (by norm_num) (by decide) (by decide)
  2 (by decide) 1 (by decide)
example : colMasks ⟨1/4, 4, 3/2⟩ false [1, 2, 2, 3, 0, 2, 2] [2, 1, 2, 0, 5] 5 4
    = [[true, false, false, false, false, false, false], [true, false, false, false, false, false, false],
       [false, true, false, false, false, false, false], [false, false, true, false, false, false, false],
       [false, false, true, false, false, false, false], [false, false, false, false, false, false, false]] := by
  decide +kernel
-- C03_select_any_sort: both hypotheses — a token-sorted rearrangement of the (token, flag) pairs of the row
-- `2 1 2` with position 0 marked (the duplicate at position 2 is marked by propagation)
example : select (dropDup [((1 : Int), false), (2, true), (2, true)]) = selectTargets [2, 1, 2] [true, false, false] :=
  C03_select_any_sort [2, 1, 2] [true, false, false] [(1, false), (2, true), (2, true)] (by decide) (by simp [SortedFst])
-- C03_model_targets: all hypotheses; a valid prefix (k = 1) and a row past the end (k = 5)
example := C03_model_targets audCfg (by norm_num [audCfg]) (by norm_num [audCfg]) (by norm_num [audCfg])
  [1, 2, 2, 3, 0, 2, 2] [2, 1, 2, 0, 5] 1 (by decide) (by decide)
example : ValidPrefix audCfg.excludeLast (cutLen audCfg.eos audCfg.includeEos [2, 1, 2, 0, 5]) 1
    ∧ ¬ ValidPrefix audCfg.excludeLast (cutLen audCfg.eos audCfg.includeEos [2, 1, 2, 0, 5]) 5 := by decide
example : colSelected audCfg [1, 2, 2, 3, 0, 2, 2] [2, 1, 2, 0, 5] = [[1], [1], [2], [2], [2], []] := by decide +kernel
-- with exclude_last (the last valid prefix is dropped)
example := C03_model_targets { audCfg with excludeLast := true } (by norm_num [audCfg]) (by norm_num [audCfg])
  (by norm_num [audCfg]) [1, 2, 2, 3, 0, 2, 2] [2, 1, 2, 0, 5] 3 (by decide) (by decide)
-- C03_batch_row: two columns
example := C03_batch_row audCfg [[1, 2, 2, 3, 0, 2, 2], [3, 0, 1, 1, 1, 1, 1]] [[2, 1, 2, 0, 5], [3, 3, 0, 0, 0]] 1 1
  (by decide) (by decide)
-- C03_loss_cell / C03_loss_counted / C03_loss_prefix
example := C03_loss_cell (-2) (fun _ => 1) (fun s => -(s : Rat)) [1, 3] 2 (by decide)
example := C03_loss_counted (-2) [1, 3] 2 (by decide)
example := C03_loss_prefix { audCfg with excludeLast := true, padding := -2 } rfl (by norm_num [audCfg])
  (by norm_num [audCfg]) (by norm_num [audCfg]) [1, 2, 2, 3, 0, 2, 2] [2, 1, 2, 0, 5] 1 (by decide) (by decide)
  (fun _ => 1) (fun s => -(s : Rat)) 3 (by decide)
-- C03_row_freedom / C03_row_any_order_width / C03_rowagree
theorem aud_rowprop : RowProp (-100) (fun t => t = 1 ∨ t = 2) ([1, 2] ++ List.replicate 1 (-100)) :=
  ⟨[1, 2], 1, rfl, by decide, by decide, fun t => by simp⟩
example := C03_row_freedom (-100) _ _ [2, 1, -100, -100, -100] aud_rowprop
example := C03_row_any_order_width (-100) _ [1, 2] [2, 1] 1 3 (by decide) aud_rowprop (by decide)
example := C03_rowagree (-100) _ _ [2, 1] aud_rowprop
-- C03_oracle: the candidate list holds the reference tokens
example := C03_oracle ⟨1/4, 4, 3/2⟩ (by norm_num) (by norm_num) (by norm_num) [1, 2, 2, 3, 7] [1, 2, 2, 3] [2] (by decide)

/-- The batch instance of the `C03_layout` / `C03_output_rows` / `C03_check_sound_complete` hypotheses:
two sequences handed over batch-first, second reference `3 eos 1` (garbage after the eos), eos counted. -/
def audRef : Tens2 Int := ⟨2, 3, [1, 2, 2, 3, 0, 1]⟩
def audHyp : Tens2 Int := ⟨2, 2, [2, 1, 3, 0]⟩
def audCfgB : Cfg := ⟨some 0, true, false, ⟨1, 1, 1⟩, -100⟩

example := C03_layout audCfgB true audRef audHyp rfl (by decide)
example := C03_layout_rejects audCfgB true audRef ⟨3, 2, [2, 1, 3, 0, 1, 1]⟩ (Or.inl (by decide))
example := C03_output_rows audCfgB (by norm_num [audCfgB]) (by norm_num [audCfgB]) (by norm_num [audCfgB]) true audRef audHyp
  rfl (by decide) (by decide) (by decide)
example (r : List Int) : True := by
  obtain ⟨out, hout, _⟩ := C03_output_rows audCfgB (by norm_num [audCfgB]) (by norm_num [audCfgB])
    (by norm_num [audCfgB]) true audRef audHyp rfl (by decide) (by decide) (by decide)
  have := C03_check_sound_complete audCfgB (by norm_num [audCfgB]) (by norm_num [audCfgB]) (by norm_num [audCfgB])
    true audRef audHyp rfl (by decide) (by decide) (by decide) out hout 1 0 (by decide) (by decide) r
  trivial

/-- The loss instance: eos `0` not counted, `ignore_index = -2`, `V = 3` classes, batch-first. -/
def audCfgL : Cfg := ⟨some 0, false, true, ⟨1, 1, 1⟩, -2⟩
def audLsm : Tens3 Rat := ⟨2, 2, 3, [-1, -2, -3, -1, -1, -4, -2, -2, -2, -5, -1, -1]⟩

example := C03_loss_reduce audCfgL rfl (by norm_num [audCfgL]) (by norm_num [audCfgL]) (by norm_num [audCfgL]) true
  (fun _ => 1) audLsm ⟨2, 2, [1, 2, 2, 0]⟩ ⟨2, 2, [2, 1, 1, 0]⟩ rfl (by decide) (by decide) rfl rfl (by decide)
  (by decide) (by decide)
-- C03_loss_rejects_class: the first reference starts with the token 7 (no class: V = 3); it is a target of
-- the empty prefix, and the model raises IndexError like cross_entropy
example : hardOCDLossT audCfgL true .mean (fun _ => 1) audLsm ⟨2, 2, [7, 2, 2, 0]⟩ ⟨2, 2, [2, 1, 1, 0]⟩
    = .error "IndexError" :=
  C03_loss_rejects_class audCfgL rfl (by norm_num [audCfgL]) (by norm_num [audCfgL]) (by norm_num [audCfgL]) true
    .mean (fun _ => 1) audLsm ⟨2, 2, [7, 2, 2, 0]⟩ ⟨2, 2, [2, 1, 1, 0]⟩ rfl (by decide) (by decide) rfl rfl (by decide)
    0 0 (by decide) (by decide) 7
    ((C03_oracle_at audCfgL (by norm_num [audCfgL]) (by norm_num [audCfgL]) (by norm_num [audCfgL]) true _ _ 0 0 7).mp
      (by decide +kernel))
    (by decide) (Or.inr (by decide))
-- a negative token is rejected too (it used to be read as class 0)
example : (match hardOCDLossT audCfgL true .none (fun _ => 1) audLsm ⟨2, 2, [-1, 2, 2, 0]⟩ ⟨2, 2, [2, 1, 1, 0]⟩ with
    | .error e => e | _ => "ok") = "IndexError" := by decide +kernel

end PdtVerif.OptCompletion
