import PdtVerif.Lemmas.Beam
import PdtVerif.Lemmas.BeamRun
import PdtVerif.Lemmas.BeamComplete
import PdtVerif.Lemmas.BeamStable
import PdtVerif.Lemmas.BeamLength
/-!
# C04 — beam search returns distinct, correctly scored, best-first paths per element

Property theorems only (helper lemmas: `Lemmas/Beam.lean`; model: `Model/Beam.lean`;
spec: `Spec/Beam.lean`).

Every theorem is for **all** vocabulary sizes, widths, eos settings, `finish_all_paths`,
pad values, step limits, batches of initial states, language models (any state type, any
function; contract `LMOK`) and **every** selection function that meets the `topk` contract
`SelOK` (any maximal-`K` selection, best first, ties broken arbitrarily). The first group speaks
about the value `search` returns (`.ok out`); that `search` always returns a value under the
repaired finishing rule is `C04_no_error` (second group, together with `C04_batch` and
`C04_complete`).

Common hypotheses:
* `hsel : SelOK sel` — `topk` returns `K` distinct in-range indices, maximal, best first;
* `hlm : LMOK cfg.V lm spec Rep` — the language model (after `log_softmax` and the hook)
  returns a row of `V` scores, and whenever its state represents the history `h` and the
  history tensor starts with `h`, the row is `spec h` and the returned state represents
  `h ++ [v]` for every next token `v`;
* `hinit` — every initial state represents the empty history;
* `0 < cfg.V`, `0 < cfg.width` (enforced by the constructors).
-/
namespace PdtVerif.Beam

variable {σ : Type} {cfg : Cfg} {lm : LM σ} {spec : List Int → List Score}
  {Rep : List Int → σ → Prop} {sel : Sel}

/-- **C04_score**: a returned slot with a finite score carries the language model's own chained
log-probability of exactly its counted tokens `col.take len`. -/
theorem C04_score (hsel : SelOK sel) (hlm : LMOK cfg.V lm spec Rep) (hV : 0 < cfg.V)
    (hw : 0 < cfg.width) (dflt : σ) {inits : List σ} (hinit : ∀ s ∈ inits, Rep [] s)
    {maxIters : Nat} {out : List (List Slot)}
    (h : search sel cfg lm dflt inits maxIters = .ok out) :
    ∀ beam ∈ out, ∀ s ∈ beam, s.score ≠ none → s.score = chain spec (s.col.take s.len) := by
  intro beam hb s hs hf
  obtain ⟨S, hst, -⟩ := search_static hsel hlm hV hw dflt hinit h beam hb
  exact (hst.ok s hs hf).score

/-- **C04_distinct**: within one beam, slots with finite scores hold pairwise different token
sequences. -/
theorem C04_distinct (hsel : SelOK sel) (hlm : LMOK cfg.V lm spec Rep) (hV : 0 < cfg.V)
    (hw : 0 < cfg.width) (dflt : σ) {inits : List σ} (hinit : ∀ s ∈ inits, Rep [] s)
    {maxIters : Nat} {out : List (List Slot)}
    (h : search sel cfg lm dflt inits maxIters = .ok out) :
    ∀ beam ∈ out, beam.Pairwise fun a b =>
      a.score ≠ none → b.score ≠ none → a.col.take a.len ≠ b.col.take b.len := by
  intro beam hb
  obtain ⟨S, hst, -⟩ := search_static hsel hlm hV hw dflt hinit h beam hb
  exact hst.distinct

/-- **C04_eos**: in a slot with a finite score, eos (when set) occurs at most as the last
counted token — the path stops at its first eos, which is counted in its length; and all
counted tokens are in the vocabulary. -/
theorem C04_eos (hsel : SelOK sel) (hlm : LMOK cfg.V lm spec Rep) (hV : 0 < cfg.V)
    (hw : 0 < cfg.width) (dflt : σ) {inits : List σ} (hinit : ∀ s ∈ inits, Rep [] s)
    {maxIters : Nat} {out : List (List Slot)}
    (h : search sel cfg lm dflt inits maxIters = .ok out) :
    ∀ beam ∈ out, ∀ s ∈ beam, s.score ≠ none →
      (∀ e, cfg.eos = some e → e ∉ (s.col.take s.len).dropLast) ∧
      (∀ x ∈ s.col.take s.len, 0 ≤ x ∧ x < (cfg.V : Int)) ∧ s.len ≤ s.col.length := by
  intro beam hb s hs hf
  obtain ⟨S, hst, -⟩ := search_static hsel hlm hV hw dflt hinit h beam hb
  refine ⟨(hst.ok s hs hf).eos, (hst.ok s hs hf).range, ?_⟩
  rw [hst.colLen s hs]; exact hst.lenLe s hs

/-- **C04_sorted**: every beam has exactly `width` slots, scores are non-increasing, and (since
`-inf ≤ x` only) every `-inf` slot is followed by `-inf` slots only. -/
theorem C04_sorted (hsel : SelOK sel) (hlm : LMOK cfg.V lm spec Rep) (hV : 0 < cfg.V)
    (hw : 0 < cfg.width) (dflt : σ) {inits : List σ} (hinit : ∀ s ∈ inits, Rep [] s)
    {maxIters : Nat} {out : List (List Slot)}
    (h : search sel cfg lm dflt inits maxIters = .ok out) :
    ∀ beam ∈ out, beam.length = cfg.width ∧
      (beam.map (·.score)).Pairwise fun a b => Score.le b a = true := by
  intro beam hb
  obtain ⟨S, hst, hlen⟩ := search_static hsel hlm hV hw dflt hinit h beam hb
  exact ⟨hlen, hst.sorted⟩

/-- `-inf` slots come last: nothing finite follows a `-inf` entry. -/
theorem C04_neginf_last {l : List Score} (h : l.Pairwise fun a b => Score.le b a = true) :
    l.Pairwise fun a b => a = none → b = none := by
  refine h.imp ?_
  intro a b hab ha
  subst ha
  cases b with
  | none => rfl
  | some x => simp [Score.le] at hab

/-- **C04_state_follows**: when the loop stops at step `t`, in every batch element that is still
live the language-model state stored for a slot (threaded through `in_next` and the
batch-flattened `extract_by_src` gather) represents exactly that slot's own path, for every
unfinished slot with a finite score; and such a slot has length `t`. -/
theorem C04_state_follows (hsel : SelOK sel) (hlm : LMOK cfg.V lm spec Rep) (hV : 0 < cfg.V)
    (hw : 0 < cfg.width) (dflt : σ) {inits : List σ} (hinit : ∀ s ∈ inits, Rep [] s)
    {maxIters S : Nat} {elems : List (Elem σ)}
    (h : loop sel cfg lm dflt maxIters 0 0 1 (inits.map initElem) = .ok (S, elems)) :
    ∃ t, ∀ e ∈ elems, elemDone cfg t e = false →
      ∀ (k : Nat) s st, e.slots[k]? = some s → e.sts[k]? = some st → s.score ≠ none →
        lastIsEos cfg.eos s = false → s.len = t ∧ Rep (s.col.take s.len) st := by
  obtain ⟨t, Kp, hinv⟩ := loop_inv hsel hlm hV hw dflt maxIters (init_inv hinit) h
  refine ⟨t, ?_⟩
  intro e he hnd k s st hk hst hf hne
  exact ((hinv.elem e he).2.2.2 hnd k s st hk hst hf).2 hne

/-- **C04_length**: where a returned path may stop. A returned slot with a finite score either ends in
eos or is exactly as long as the step limit `maxIters` - every slot when eos is unset or all paths are run
to completion (`finish_all_paths`), the best slot (index 0) otherwise (its element counts as finished only
when that path has ended). For every selection meeting the `topk` contract (any tie-breaking): the loop
stops only because the step limit is used up or because every element is finished (`loop_inv_exit`). This is
the predicate `C04.length` the harness evaluates on the implementation's output in every case, tie or not
(round f: a change that caps the number of steps, or lets the exit test look at part of the batch only,
shows here even where the model comparison is suspended by a tie). -/
theorem C04_length (hsel : SelOK sel) (hlm : LMOK cfg.V lm spec Rep) (hV : 0 < cfg.V)
    (hw : 0 < cfg.width) (dflt : σ) {inits : List σ} (hinit : ∀ s ∈ inits, Rep [] s)
    {maxIters : Nat} {out : List (List Slot)}
    (h : search sel cfg lm dflt inits maxIters = .ok out) :
    ∀ beam ∈ out, ∀ (k : Nat) (s : Slot), beam[k]? = some s → s.score ≠ none →
      (cfg.eos = none ∨ cfg.finishAll = true ∨ k = 0) →
      lastIsEos cfg.eos s = true ∨ s.len = maxIters :=
  search_length hsel hlm hV hw dflt hinit h

/-- `BeamSearch.__init__` normalises an accepted eos into the vocabulary. -/
theorem C04_normEos_range {V : Nat} {eos : Option Int} {e : Int}
    (h : normEos V eos = some (some e)) : 0 ≤ e ∧ e < (V : Int) := by
  unfold normEos at h
  cases eos with
  | none => simp at h
  | some x =>
    simp only at h
    split at h
    · rename_i hx
      simp only [Option.some.injEq] at h
      subst h
      have hV : (0 : Int) < V := by omega
      exact ⟨Int.emod_nonneg _ (by omega), Int.emod_lt_of_pos _ hV⟩
    · simp at h

/-! ## Non-vacuity: the hypotheses hold for a concrete stateful language model, and the search
returns a value on it -/

/-- A language model whose state counts its calls; the row depends on the depth. -/
def exLM : LM Nat :=
  ⟨fun _ _ n => ([some (-(n : Int) - 1 : Rat), some (-2), some (-(3 : Rat) / 2)], n + 1)⟩

def exSpec (h : List Int) : List Score :=
  [some (-(h.length : Int) - 1 : Rat), some (-2), some (-(3 : Rat) / 2)]

def exCfg : Cfg := ⟨3, 2, some 1, true, -1, 0, false⟩

theorem exLM_ok : LMOK exCfg.V exLM exSpec (fun h n => n = h.length) := by
  refine ⟨fun _ _ _ => rfl, ?_⟩
  intro h st col hrep _
  subst hrep
  exact ⟨rfl, fun v => by simp [exLM]⟩

/-- The driver's selection (`selDet`, merge sort) and the kernel-reducible one used below
(`selIns`, insertion sort) both meet the `topk` contract, so `SelOK` is satisfiable. -/
theorem C04_selDet_ok : SelOK selDet := selDet_ok

theorem C04_selIns_ok : SelOK selIns := selIns_ok

example : (search selIns exCfg exLM 0 [0] 3).toOption
    = some [[⟨[0, 2, 2], 3, some (-4)⟩, ⟨[0, 2, 1], 3, some (-(9 : Rat) / 2)⟩]] := by decide +kernel

theorem exSearch_ok : search selIns exCfg exLM 0 [0] 3
    = .ok [[⟨[0, 2, 2], 3, some (-4)⟩, ⟨[0, 2, 1], 3, some (-(9 : Rat) / 2)⟩]] := by
  have h : (search selIns exCfg exLM 0 [0] 3).toOption
      = some [[⟨[0, 2, 2], 3, some (-4)⟩, ⟨[0, 2, 1], 3, some (-(9 : Rat) / 2)⟩]] := by
    decide +kernel
  cases hs : search selIns exCfg exLM 0 [0] 3 with
  | error e => rw [hs] at h; simp [Except.toOption] at h
  | ok v => rw [hs] at h; simp [Except.toOption] at h; rw [h]

/-- All hypotheses of the theorems above hold for this instance. -/
example : ∀ beam ∈ [[(⟨[0, 2, 2], 3, some (-4)⟩ : Slot), ⟨[0, 2, 1], 3, some (-(9 : Rat) / 2)⟩]],
    ∀ s ∈ beam, s.score ≠ none → s.score = chain exSpec (s.col.take s.len) :=
  C04_score (cfg := exCfg) C04_selIns_ok exLM_ok (by decide) (by decide) 0
    (inits := [0]) (by simp) (maxIters := 3) (out := [[⟨[0, 2, 2], 3, some (-4)⟩,
      ⟨[0, 2, 1], 3, some (-(9 : Rat) / 2)⟩]]) exSearch_ok

/-! ## The pinned tree's finishing rule: a concrete counterexample

On the pinned tree `done_mask = eos_mask.all(1)` also waits for slots whose score is `-inf`.
With a language model that has hard zeros, a width larger than the number of complete
sequences and `finish_all_paths=True`, every usable path has ended, the `-inf` slots have
not, the history tensor stops growing while `t` keeps counting, and the language model is
asked for index `t > hist.size(0)`. Whether this happens depends on how `topk` orders the
`-inf` candidates; `selRev` (score descending, index *descending*) is one order allowed by the
contract under which it does. With the repaired rule (`waitNegInf := false`) the same search
returns the two complete sequences. The same input is replayed on the implementation
(`corpus/C04/neginf_slots_block_finish.json`, `fixes/C04-neginf-slots-block-finish.md`). -/

def selRev : Sel := fun c K =>
  ((isort (fun a b => Score.le b.1 a.1) c.zipIdx.reverse).map (·.2)).take K

theorem selRev_ok : SelOK selRev := by
  intro c K hK
  unfold selRev
  exact isTopK_of_sorted_perm ((isort_perm _ _).trans (List.reverse_perm _))
    (isort_pairwise (le := fun (a b : Score × Nat) => Score.le b.1 a.1)
      (fun a b c h1 h2 => Score.le_trans' h2 h1)
      (fun (a b : Score × Nat) => Score.le_total' b.1 a.1) _) hK

/-- start: `P(0) = 0`, `P(1 = eos) = e^{-1/4}`, `P(2)`; afterwards only eos is possible. -/
def cxLM : LM Unit :=
  ⟨fun t _ _ => (if t = 0 then [none, some (-(1 : Rat) / 4), some (-(3 : Rat) / 2)]
    else [none, some 0, none], ())⟩

def cxCfg (pinned : Bool) : Cfg := ⟨3, 5, some 1, true, -1, 0, pinned⟩

theorem C04_pinned_done_rule_counterexample :
    (match search selRev (cxCfg true) cxLM () [()] 6 with
      | .error e => e == "lm index"
      | .ok _ => false) = true := by decide +kernel

theorem C04_repaired_done_rule_example :
    ((search selRev (cxCfg false) cxLM () [()] 6).toOption.map fun out =>
        out.map fun beam => (beam.filter (·.score.isSome)).map fun s => (s.col.take s.len, s.score))
      = some [[([1], some (-(1 : Rat) / 4)), ([2, 1], some (-(3 : Rat) / 2))]] := by decide +kernel

/-! ## The search never raises, batching is transparent, nothing is lost when nothing must be pruned

From here on every batch element may follow its **own** distribution: the language model is
given a family `specs i` / `Reps i` (`i : ι`) of specifications, each satisfying `LMOK`, and
every initial state represents the empty history for some member of the family (the language
model conditions on batched input through its state). Elements with different distributions
finish at different steps.

Additional hypotheses:
* `hrule : cfg.waitNegInf = false` — the repaired finishing rule
  (`fixes/C04-neginf-slots-block-finish.diff`, applied to the tree);
* `hL : Waits cfg ∨ ∀ i, SpecLive cfg.V (specs i)` — either `eos` is set and
  `finish_all_paths=True`, or every score row has a finite entry (what `log_softmax` returns).
  Without it the modelled code *can* raise: `C04_dead_rows_counterexample`. -/

section family
variable {ι : Type} {specs : ι → List Int → List Score} {Reps : ι → List Int → σ → Prop}

/-- **C04_no_error**: under the repaired finishing rule neither of the two failure modes of the
modelled loop (`.error "lm index"`: the language model asked for an index beyond the history
tensor; `.error "shape"`: `torch.where` of `S + 1` rows against `S`) is reachable — the history
tensor grows at every step. All theorems conditional on `search … = .ok out` therefore apply
to every run. -/
theorem C04_no_error (hsel : SelOK sel) (hlm : ∀ i, LMOK cfg.V lm (specs i) (Reps i))
    (hV : 0 < cfg.V) (hw : 0 < cfg.width) (dflt : σ) (hrule : cfg.waitNegInf = false)
    (hL : Waits cfg ∨ ∀ i, SpecLive cfg.V (specs i)) {inits : List σ}
    (hinit : ∀ s ∈ inits, ∃ i, Reps i [] s) (hne : inits ≠ []) (maxIters : Nat) :
    ∃ out, search sel cfg lm dflt inits maxIters = .ok out :=
  search_ok hsel hlm hV hw dflt hrule hL hinit hne maxIters

/-- **C04_batch**: what a joint run returns for batch element `n` shows exactly (counted tokens
and score of every slot, in order) what the search of element `n` alone returns — whatever the
other elements do and however early or late they finish. `sel` is one function of the
candidate list, as `topk` is. -/
theorem C04_batch (hsel : SelOK sel) (hlm : ∀ i, LMOK cfg.V lm (specs i) (Reps i))
    (hV : 0 < cfg.V) (hw : 0 < cfg.width) (dflt : σ) (hrule : cfg.waitNegInf = false)
    (hL : Waits cfg ∨ ∀ i, SpecLive cfg.V (specs i)) {inits : List σ}
    (hinit : ∀ s ∈ inits, ∃ i, Reps i [] s) (maxIters : Nat) {out : List (List Slot)}
    (h : search sel cfg lm dflt inits maxIters = .ok out) (n : Nat) (s : σ)
    (hn : inits[n]? = some s) :
    ∃ beam beamN, search sel cfg lm dflt [s] maxIters = .ok [beam] ∧ out[n]? = some beamN ∧
      beamN.map (fun x => (x.col.take x.len, x.score))
        = beam.map (fun x => (x.col.take x.len, x.score)) :=
  search_batch hsel hlm hV hw dflt hrule hL hinit maxIters h n s hn

/-- **C04_score_per_element**: in a batch whose elements follow different distributions, the
finite-score slots of element `n` carry the chained log-probability under *that element's*
distribution (`C04_batch` + `C04_score` on the element alone). -/
theorem C04_score_per_element (hsel : SelOK sel) (hlm : ∀ i, LMOK cfg.V lm (specs i) (Reps i))
    (hV : 0 < cfg.V) (hw : 0 < cfg.width) (dflt : σ) (hrule : cfg.waitNegInf = false)
    (hL : Waits cfg ∨ ∀ i, SpecLive cfg.V (specs i)) {inits : List σ}
    (hinit : ∀ s ∈ inits, ∃ i, Reps i [] s) (maxIters : Nat) {out : List (List Slot)}
    (h : search sel cfg lm dflt inits maxIters = .ok out) (n : Nat) (s : σ)
    (hn : inits[n]? = some s) (i : ι) (hi : Reps i [] s) :
    ∃ beamN, out[n]? = some beamN ∧
      ∀ x ∈ beamN, x.score ≠ none → x.score = chain (specs i) (x.col.take x.len) := by
  obtain ⟨beam, beamN, h1, h2, h3⟩ := search_batch hsel hlm hV hw dflt hrule hL hinit maxIters h n s hn
  refine ⟨beamN, h2, ?_⟩
  intro x hx hf
  obtain ⟨x', hx', hp, hsc⟩ := beamView_mem h3 hx
  have := C04_score (cfg := cfg) hsel (hlm i) hV hw dflt (inits := [s])
    (by intro y hy; simp at hy; subst hy; exact hi) h1 beam (by simp) x' hx' (by rw [hsc]; exact hf)
  rw [← hsc, this]
  exact congrArg _ hp

/-- **C04_complete**: if every set of complete sequences up to the step limit fits into the beam
(`hwid`) and all paths are run to completion (`eos` unset, or `finish_all_paths=True`), the
finite-score slots returned for element `n` are **exactly** the complete sequences of that
element's distribution — every member of `completeFrom … maxIters []` is the counted path of a
finite-score slot and vice versa — each with its chained score (and, by `C04_distinct`, once). -/
theorem C04_complete (hsel : SelOK sel) (hlm : ∀ i, LMOK cfg.V lm (specs i) (Reps i))
    (hV : 0 < cfg.V) (hw : 0 < cfg.width) (dflt : σ) (hrule : cfg.waitNegInf = false)
    (hL : Waits cfg ∨ ∀ i, SpecLive cfg.V (specs i))
    (hfa : cfg.eos = none ∨ cfg.finishAll = true) {inits : List σ}
    (hinit : ∀ s ∈ inits, ∃ i, Reps i [] s) (maxIters : Nat) {out : List (List Slot)}
    (h : search sel cfg lm dflt inits maxIters = .ok out) (n : Nat) (s : σ)
    (hn : inits[n]? = some s) (i : ι) (hi : Reps i [] s)
    (hwid : ∀ t', t' ≤ maxIters →
      (completeFrom (specs i) cfg.V cfg.eos t' []).length ≤ cfg.width) :
    ∃ beamN, out[n]? = some beamN ∧
      (∀ q, q ∈ completeFrom (specs i) cfg.V cfg.eos maxIters [] ↔
        ∃ x ∈ beamN, x.score ≠ none ∧ x.col.take x.len = q) ∧
      (∀ x ∈ beamN, x.score ≠ none → x.score = chain (specs i) (x.col.take x.len)) := by
  obtain ⟨beam, beamN, h1, h2, h3⟩ := search_batch hsel hlm hV hw dflt hrule hL hinit maxIters h n s hn
  obtain ⟨beam', h1', hc⟩ := search_single_complete hsel (hlm i) hV hw dflt hrule
    (hL.imp id fun hh => hh i) hfa hi maxIters hwid
  rw [h1] at h1'
  simp only [Except.ok.injEq, List.cons.injEq, and_true] at h1'
  subst h1'
  have hcN : CInv cfg (specs i) maxIters beamN := cinv_of_view (Eq.symm h3) hc
  obtain ⟨_, h2', hscore⟩ := C04_score_per_element hsel hlm hV hw dflt hrule hL hinit maxIters h n s
    hn i hi
  rw [h2] at h2'
  simp only [Option.some.injEq] at h2'
  subst h2'
  exact ⟨beamN, h2, fun q => ⟨fun hq => hcN.cov q hq, fun ⟨x, hx, hf, hp⟩ => hp ▸ hcN.snd x hx hf⟩,
    hscore⟩

/-- The width condition in its stated form: when every score row has a finite entry the sets
of complete sequences never shrink, so it is enough that the final one fits. -/
theorem C04_complete_of_live (hsel : SelOK sel) (hlm : ∀ i, LMOK cfg.V lm (specs i) (Reps i))
    (hV : 0 < cfg.V) (hw : 0 < cfg.width) (dflt : σ) (hrule : cfg.waitNegInf = false)
    (hL : ∀ i, SpecLive cfg.V (specs i))
    (hfa : cfg.eos = none ∨ cfg.finishAll = true) {inits : List σ}
    (hinit : ∀ s ∈ inits, ∃ i, Reps i [] s) (maxIters : Nat) {out : List (List Slot)}
    (h : search sel cfg lm dflt inits maxIters = .ok out) (n : Nat) (s : σ)
    (hn : inits[n]? = some s) (i : ι) (hi : Reps i [] s)
    (hwid : (completeFrom (specs i) cfg.V cfg.eos maxIters []).length ≤ cfg.width) :
    ∃ beamN, out[n]? = some beamN ∧
      (∀ q, q ∈ completeFrom (specs i) cfg.V cfg.eos maxIters [] ↔
        ∃ x ∈ beamN, x.score ≠ none ∧ x.col.take x.len = q) ∧
      (∀ x ∈ beamN, x.score ≠ none → x.score = chain (specs i) (x.col.take x.len)) :=
  C04_complete hsel hlm hV hw dflt hrule (Or.inr hL) hfa hinit maxIters h n s hn i hi
    (frontier_le_of_live (hL i) hwid)

end family

/-! ### Non-vacuity and necessity of the extra hypotheses -/

theorem exSpec_live : SpecLive exCfg.V exSpec := by
  intro h
  exact ⟨1, by decide, by simp [exSpec]⟩

/-- The hypotheses of `C04_no_error` / `C04_batch` / `C04_complete` hold for the stateful example
model with a two-element batch; the width condition holds for width 9 and two steps. -/
def exCfgWide : Cfg := ⟨3, 9, some 1, true, -1, 0, false⟩

example : ∃ out, search selIns exCfgWide exLM 0 [0, 0] 2 = .ok out :=
  C04_no_error (cfg := exCfgWide) (ι := Unit) (specs := fun _ => exSpec)
    (Reps := fun _ h n => n = h.length)
    C04_selIns_ok (fun _ => exLM_ok) (by decide) (by decide) 0 rfl (Or.inr fun _ => exSpec_live)
    (by intro s hs; simp at hs; subst hs; exact ⟨(), rfl⟩) (by simp) 2

example : ∀ t', t' ≤ 2 → (completeFrom exSpec exCfgWide.V exCfgWide.eos t' []).length
    ≤ exCfgWide.width := by decide +kernel

/-- Without a finite entry in every score row (and without `finish_all_paths`) the modelled code
can raise even under the repaired rule: all paths die at the second step, the beam holds only
`-inf` slots of lagging lengths, the history tensor stops growing while `t` keeps counting. A
row without a finite entry cannot come out of `log_softmax` (it would be NaN), so this is a
limit of the model's domain, not a defect of the code. -/
def deadLM : LM Unit :=
  ⟨fun t _ _ => (if t = 0 then [some (-(1 : Rat)), some (-(2 : Rat))] else [none, none], ())⟩

theorem C04_dead_rows_counterexample :
    (match search selRev ⟨2, 4, none, false, -1, 0, false⟩ deadLM () [()] 6 with
      | .error e => e == "lm index"
      | .ok _ => false) = true := by decide +kernel

/-! ## Audit: the contract hypotheses hold for a language model whose scores depend on the TOKENS of the
history through threaded state, and every theorem above applied to concrete non-trivial runs

`exLM` above only counts its calls. `hLM` is what the property's quantifier asks for ("language models whose
next-token scores depend on the whole history through threaded state"): its state is the history consumed so
far, the newest token is read off the history tensor at `hist[idx - 1]` (as a recurrent
`calc_idx_log_probs` does), and the score of token 0 depends on the SUM of the history's tokens — two
histories of the same length get different rows, so a state that followed the wrong path would be visible. -/

def hLM : LM (List Int) :=
  ⟨fun t col st =>
    let h := if t = 0 then [] else st ++ [col.getD (t - 1) 0]
    ([some (-(h.sum : Rat) - 1), some (-2), some (-(3 : Rat) / 2)], h)⟩

def hSpec (h : List Int) : List Score := [some (-(h.sum : Rat) - 1), some (-2), some (-(3 : Rat) / 2)]

/-- `Rep h st`: the state has consumed everything but the newest token. -/
def hRep (h : List Int) (st : List Int) : Prop := st = h.dropLast

theorem hLM_ok : LMOK 3 hLM hSpec hRep := by
  refine ⟨fun _ _ _ => rfl, ?_⟩
  intro h st col hrep htake
  have hh : (if h.length = 0 then [] else st ++ [col.getD (h.length - 1) 0]) = h := by
    by_cases h0 : h.length = 0
    · rw [if_pos h0, List.eq_nil_of_length_eq_zero h0]
    · rw [if_neg h0, hrep]
      have hne : h ≠ [] := fun e => h0 (by rw [e]; rfl)
      have hl : col.getD (h.length - 1) 0 = h.getLast hne := by
        have hlt : h.length - 1 < h.length := by omega
        have : (col.take h.length)[h.length - 1]? = col[h.length - 1]? := by
          rw [List.getElem?_take]; simp [hlt]
        rw [htake] at this
        rw [List.getD_eq_getElem?_getD, ← this, List.getLast_eq_getElem, List.getElem?_eq_getElem hlt]
        rfl
      rw [hl]; exact List.dropLast_append_getLast hne
  refine ⟨?_, fun v => ?_⟩
  · show [some (-((if h.length = 0 then [] else st ++ [col.getD (h.length - 1) 0] : List Int).sum : Rat) - 1),
        some (-2), some (-(3 : Rat) / 2)] = hSpec h
    rw [hh]; rfl
  · show (if h.length = 0 then [] else st ++ [col.getD (h.length - 1) 0]) = (h ++ [v]).dropLast
    rw [hh]; simp

theorem hSpec_live : SpecLive 3 hSpec := fun _ => ⟨1, by decide, by simp [hSpec]⟩

/-- width 2 < V = 3 (pruning at every step), eos = 1, `finish_all_paths`. -/
def hCfg : Cfg := ⟨3, 2, some 1, true, -1, 0, false⟩

/-- The run: pruning happens at every step (3, then 6 candidates for 2 slots) and the rows differ between
the two surviving paths (`[0]`: token 0 scores -1; `[2]`: token 0 scores -3). -/
theorem hSearch_ok : search selIns hCfg hLM [] [[]] 3
    = .ok [[⟨[0, 0, 0], 3, some (-3)⟩, ⟨[0, 0, 2], 3, some (-(7 : Rat) / 2)⟩]] := by
  have h : (search selIns hCfg hLM [] [[]] 3).toOption
      = some [[⟨[0, 0, 0], 3, some (-3)⟩, ⟨[0, 0, 2], 3, some (-(7 : Rat) / 2)⟩]] := by decide +kernel
  cases hs : search selIns hCfg hLM [] [[]] 3 with
  | error e => rw [hs] at h; simp [Except.toOption] at h
  | ok v => rw [hs] at h; simp [Except.toOption] at h; rw [h]

-- C04_score / C04_distinct / C04_eos / C04_sorted (+ C04_neginf_last) on this run: ALL hypotheses together
example := C04_score (cfg := hCfg) C04_selIns_ok hLM_ok (by decide) (by decide) [] (inits := [[]])
  (by intro s hs; simp at hs; subst hs; rfl) hSearch_ok
example := C04_distinct (cfg := hCfg) C04_selIns_ok hLM_ok (by decide) (by decide) [] (inits := [[]])
  (by intro s hs; simp at hs; subst hs; rfl) hSearch_ok
example := C04_eos (cfg := hCfg) C04_selIns_ok hLM_ok (by decide) (by decide) [] (inits := [[]])
  (by intro s hs; simp at hs; subst hs; rfl) hSearch_ok
example := C04_length (cfg := hCfg) C04_selIns_ok hLM_ok (by decide) (by decide) [] (inits := [[]])
  (by intro s hs; simp at hs; subst hs; rfl) hSearch_ok
example := fun beam hb => C04_neginf_last ((C04_sorted (cfg := hCfg) C04_selIns_ok hLM_ok (by decide) (by decide) []
  (inits := [[]]) (by intro s hs; simp at hs; subst hs; rfl) hSearch_ok beam hb).2)

/-- C04_state_follows: the loop stopped after two steps; the stored states `[0]`, `[0]` are the consumed parts
of the two live paths `[0,0]`, `[0,2]`. -/
theorem hLoop_ok : loop selIns hCfg hLM [] 2 0 0 1 ([[]].map initElem)
    = .ok (2, [⟨[⟨[0, 0], 2, some (-2)⟩, ⟨[0, 2], 2, some (-(5 : Rat) / 2)⟩], [[0], [0]]⟩]) := by
  have h : ((loop selIns hCfg hLM [] 2 0 0 1 ([[]].map initElem)).toOption.map
        fun x => (x.1, x.2.map fun e => (e.slots, e.sts)))
      = some (2, [([⟨[0, 0], 2, some (-2)⟩, ⟨[0, 2], 2, some (-(5 : Rat) / 2)⟩], [[0], [0]])]) := by decide +kernel
  cases hs : loop selIns hCfg hLM [] 2 0 0 1 ([[]].map initElem) with
  | error e => rw [hs] at h; simp [Except.toOption] at h
  | ok v =>
    rw [hs] at h
    obtain ⟨S, elems⟩ := v
    simp only [Except.toOption, Option.map_some, Option.some.injEq, Prod.mk.injEq] at h
    obtain ⟨rfl, h2⟩ := h
    match elems, h2 with
    | [⟨sl, st⟩], h2 =>
      simp only [List.map_cons, List.map_nil, List.cons.injEq, Prod.mk.injEq, and_true] at h2
      obtain ⟨rfl, rfl⟩ := h2
      rfl
example := C04_state_follows (cfg := hCfg) C04_selIns_ok hLM_ok (by decide) (by decide) [] (inits := [[]])
  (by intro s hs; simp at hs; subst hs; rfl) hLoop_ok

/-! ### A batch whose elements follow DIFFERENT distributions

`exLM` counts its calls; started from `0` and from `5` it is two different distributions
(`exSpecs 0`, `exSpecs 5`). -/

def exSpecs (i : Nat) (h : List Int) : List Score :=
  [some (-((h.length + i : Nat) : Int) - 1 : Rat), some (-2), some (-(3 : Rat) / 2)]

theorem exLM_family_ok (i : Nat) : LMOK 3 exLM (exSpecs i) (fun h n => n = h.length + i) := by
  refine ⟨fun _ _ _ => rfl, ?_⟩
  intro h st col hrep _
  subst hrep
  refine ⟨rfl, fun v => ?_⟩
  simp [exLM]; omega

theorem exSpecs_live (i : Nat) : SpecLive 3 (exSpecs i) := fun _ => ⟨1, by decide, by simp [exSpecs]⟩

/-- The joint run with width 9 ≥ number of complete sequences of two steps (7): the two elements return
different sets of scores; `[1]` (eos) finished after one step in both. -/
theorem exBatch_ok : ∃ out, search selIns exCfgWide exLM 0 [0, 5] 2 = .ok out :=
  C04_no_error (cfg := exCfgWide) (specs := exSpecs) (Reps := fun i h n => n = h.length + i)
    C04_selIns_ok exLM_family_ok (by decide) (by decide) 0 rfl (Or.inr exSpecs_live)
    (by
      intro s hs
      simp only [List.mem_cons, List.mem_nil_iff, or_false] at hs
      rcases hs with rfl | rfl
      · exact ⟨0, rfl⟩
      · exact ⟨5, rfl⟩) (by simp) 2

example : ((search selIns exCfgWide exLM 0 [0, 5] 2).toOption.map fun out =>
      out.map fun beam => (beam.filter (·.score.isSome)).map fun s => (s.col.take s.len, s.score))
    = some [[([1], some (-2)), ([0, 2], some (-(5 : Rat) / 2)), ([0, 0], some (-3)), ([0, 1], some (-3)),
             ([2, 2], some (-3)), ([2, 0], some (-(7 : Rat) / 2)), ([2, 1], some (-(7 : Rat) / 2))],
            [([1], some (-2)), ([2, 2], some (-3)), ([2, 1], some (-(7 : Rat) / 2)), ([0, 2], some (-(15 : Rat) / 2)),
             ([0, 1], some (-8)), ([2, 0], some (-(17 : Rat) / 2)), ([0, 0], some (-13))]] := by decide +kernel

-- C04_batch, C04_score_per_element, C04_complete, C04_complete_of_live on element 1 (distribution 5) of it
example : True := by
  obtain ⟨out, hout⟩ := exBatch_ok
  have hinit : ∀ s ∈ [0, 5], ∃ i, (fun i (h : List Int) (n : Nat) => n = h.length + i) i [] s := by
    intro s hs
    simp only [List.mem_cons, List.mem_nil_iff, or_false] at hs
    rcases hs with rfl | rfl
    · exact ⟨0, rfl⟩
    · exact ⟨5, rfl⟩
  have hb := C04_batch (cfg := exCfgWide) (specs := exSpecs) (Reps := fun i h n => n = h.length + i)
    C04_selIns_ok exLM_family_ok (by decide) (by decide) 0 rfl (Or.inr exSpecs_live) hinit 2 hout 1 5 rfl
  have hs := C04_score_per_element (cfg := exCfgWide) (specs := exSpecs) (Reps := fun i h n => n = h.length + i)
    C04_selIns_ok exLM_family_ok (by decide) (by decide) 0 rfl (Or.inr exSpecs_live) hinit 2 hout 1 5 rfl 5 rfl
  have hc := C04_complete (cfg := exCfgWide) (specs := exSpecs) (Reps := fun i h n => n = h.length + i)
    C04_selIns_ok exLM_family_ok (by decide) (by decide) 0 rfl (Or.inr exSpecs_live) (Or.inr rfl) hinit 2 hout 1 5 rfl
    5 rfl (by decide +kernel)
  have hc' := C04_complete_of_live (cfg := exCfgWide) (specs := exSpecs) (Reps := fun i h n => n = h.length + i)
    C04_selIns_ok exLM_family_ok (by decide) (by decide) 0 rfl exSpecs_live (Or.inr rfl) hinit 2 hout 1 5 rfl
    5 rfl (by decide +kernel)
  trivial

-- the width condition is NOT trivially true: the 7 complete sequences would not fit into width 6
example : (completeFrom (exSpecs 5) 3 (some 1) 2 []).length = 7 := by decide +kernel

-- C04_normEos_range: eos = -2 with V = 3 is normalised to 1
example : normEos 3 (some (-2)) = some (some 1) := by decide

/-! ## The skeleton of the search does not depend on the arithmetic of the scores

`BeamSearch` accumulates the scores in whatever floating dtype torch's promotion yields (the
float32 start score with the language model's dtype). Two such computations of "the same" search
differ in the values of the candidate scores only: each candidate of the one is a slightly
perturbed candidate of the other. The theorems below compare two runs of the model that differ in
*everything the property leaves open*: the selection function (how `topk` breaks ties), the
language-model object and its state type, and the score rows, which may differ entrywise by up to
`ε` (with the same tokens impossible) - a rounding error of the accumulated sum is such a
perturbation, because it is a function of the history the sum belongs to. As long as every
selection the first run makes is decided by a margin of more than `2 (t + 1) ε` at step `t`
(`tieFree (margin ε)`, executable), both runs return the same counted tokens in the same slots,
and their scores differ by at most `len · ε`. This is the rule the float-mode correspondence uses
(paths are compared when the model's margins exceed the tolerance, scores within the tolerance).

`accErr ε n = n · ε` (`C04_accErr_eq`); `Score.Close ε a b`: both `-inf`, or both finite and
`|a - b| ≤ ε`; `SpecClose ε spec spec'`: every entry of every row is `Score.Close ε`. -/

theorem C04_accErr_eq (ε : Rat) (n : Nat) : accErr ε n = (n : Rat) * ε := by
  induction n with
  | zero => simp [accErr]
  | succ n ih => simp only [accErr, ih]; grind

/-- The margin demanded of the selection at step `t`: twice the error `t + 1` perturbed rows can
add up to. -/
def margin (ε : Rat) (t : Nat) : Rat := accErr ε (t + 1) + accErr ε (t + 1)

/-- **C04_topk_stable**: `topk` of a perturbed candidate vector. If every finite candidate the
selection `inds` of `c` picked is more than `m ≥ 2ε` away from every other candidate, then ANY
selection `inds'` (any tie-breaking) of ANY vector `c'` that is entrywise `ε`-close to `c` picks,
position by position, the same finite candidates, and a `-inf` candidate wherever `inds` had to
pick one. -/
theorem C04_topk_stable {m ε : Rat} (hε : 0 ≤ ε) (hm : ε + ε ≤ m) {c c' : List Score} {K : Nat}
    {inds inds' : List Nat} (hlen : c.length = c'.length)
    (hclose : ∀ i, Score.Close ε (c.getD i none) (c'.getD i none))
    (h : IsTopK c K inds) (h' : IsTopK c' K inds') (hsep : sepB m c inds = true) :
    ∀ (k i : Nat), inds[k]? = some i →
      (c.getD i none ≠ none → inds'[k]? = some i) ∧
      (c.getD i none = none → ∀ i', inds'[k]? = some i' → c'.getD i' none = none) :=
  fun k i hk =>
    ⟨topk_stable_fin hε hm ⟨hlen, hclose⟩ h h' hsep k i hk,
     fun hn i' hk' => topk_stable_none hε hm ⟨hlen, hclose⟩ h h' hsep k i i' hk hk' hn⟩

section stable
variable {σ' : Type} {lm' : LM σ'} {spec' : List Int → List Score} {Rep' : List Int → σ' → Prop}
  {sel' : Sel}

/-- **C04_skeleton_stable** (one element): two runs with different `topk` tie-breaking, different
language-model objects / state types and `ε`-close score rows both return a value, and slot by
slot either both slots are unusable (`-inf`) or both are usable, hold the same counted tokens and
scores at most `len · ε` apart - provided every selection of the first run has a margin of more
than `2 (t + 1) ε`. -/
theorem C04_skeleton_stable {ε : Rat} (hε : 0 ≤ ε) (hsel : SelOK sel) (hsel' : SelOK sel')
    (hlm : LMOK cfg.V lm spec Rep) (hlm' : LMOK cfg.V lm' spec' Rep')
    (hclose : SpecClose ε spec spec') (hV : 0 < cfg.V) (hw : 0 < cfg.width)
    (hrule : cfg.waitNegInf = false) (hL : Waits cfg ∨ SpecLive cfg.V spec) (dflt : σ) (dflt' : σ')
    {s : σ} {s' : σ'} (hinit : Rep [] s) (hinit' : Rep' [] s') (maxIters : Nat)
    (hmargin : tieFree (margin ε) sel cfg lm dflt maxIters 0 (initElem s) = true) :
    ∃ beam beam', search sel cfg lm dflt [s] maxIters = .ok [beam] ∧
      search sel' cfg lm' dflt' [s'] maxIters = .ok [beam'] ∧ beam.length = beam'.length ∧
      ∀ (k : Nat) (x x' : Slot), beam[k]? = some x → beam'[k]? = some x' →
        (x.score = none ↔ x'.score = none) ∧
        (x.score ≠ none → x.col.take x.len = x'.col.take x'.len ∧
          Score.Close (accErr ε (x.col.take x.len).length) x.score x'.score) := by
  obtain ⟨beam, beam', h1, h2, hsame⟩ := search_single_stable hε (m := margin ε) (fun _ => Rat.le_refl)
    hsel hsel' hlm hlm' hclose hV hw hrule hL dflt dflt' hinit hinit' maxIters hmargin
  refine ⟨beam, beam', h1, h2, hsame.1, ?_⟩
  intro k x x' hx hx'
  obtain ⟨hiff, hpath⟩ := hsame.2 k x x' hx hx'
  refine ⟨hiff, fun hf => ?_⟩
  have hf' : x'.score ≠ none := fun h => hf (hiff.mpr h)
  have hp : x.col.take x.len = x'.col.take x'.len := hpath hf
  have e1 := C04_score (cfg := cfg) hsel hlm hV hw dflt (inits := [s])
    (by intro y hy; simp at hy; subst hy; exact hinit) h1 beam (by simp) x (List.mem_of_getElem? hx) hf
  have e2 := C04_score (cfg := cfg) hsel' hlm' hV hw dflt' (inits := [s'])
    (by intro y hy; simp at hy; subst hy; exact hinit') h2 beam' (by simp) x'
    (List.mem_of_getElem? hx') hf'
  refine ⟨hp, ?_⟩
  rw [e1, e2, ← hp]
  exact chain_close hclose _

end stable

section stableFamily
variable {ι σ' : Type} {specs specs' : ι → List Int → List Score} {Reps : ι → List Int → σ → Prop}
  {Reps' : ι → List Int → σ' → Prop} {lm' : LM σ'} {sel' : Sel}

theorem view_idx {a b : List Slot}
    (h : a.map (fun x => (x.col.take x.len, x.score)) = b.map (fun x => (x.col.take x.len, x.score)))
    {k : Nat} {x : Slot} (hx : a[k]? = some x) :
    ∃ y, b[k]? = some y ∧ y.col.take y.len = x.col.take x.len ∧ y.score = x.score := by
  have := congrArg (fun l => l[k]?) h
  simp only [List.getElem?_map, hx, Option.map_some] at this
  cases hb : b[k]? with
  | none => rw [hb] at this; simp at this
  | some y =>
    rw [hb] at this
    simp only [Option.map_some, Option.some.injEq, Prod.mk.injEq] at this
    exact ⟨y, rfl, this.1.symm, this.2.symm⟩

/-- **C04_skeleton_stable_batch**: the same for element `n` of two joint runs over batches whose
elements follow different distributions (`specs i` against `specs' i`, entrywise `ε`-close):
whatever the other elements do, element `n` shows the same counted tokens in the same slots in
both runs, scores at most `len · ε` apart, provided the selections of element `n`'s own search
have the margin. -/
theorem C04_skeleton_stable_batch {ε : Rat} (hε : 0 ≤ ε) (hsel : SelOK sel) (hsel' : SelOK sel')
    (hlm : ∀ i, LMOK cfg.V lm (specs i) (Reps i)) (hlm' : ∀ i, LMOK cfg.V lm' (specs' i) (Reps' i))
    (hclose : ∀ i, SpecClose ε (specs i) (specs' i)) (hV : 0 < cfg.V) (hw : 0 < cfg.width)
    (hrule : cfg.waitNegInf = false) (hL : Waits cfg ∨ ∀ i, SpecLive cfg.V (specs i))
    (dflt : σ) (dflt' : σ') {inits : List σ} {inits' : List σ'}
    (hinit : ∀ s ∈ inits, ∃ i, Reps i [] s) (hinit' : ∀ s ∈ inits', ∃ i, Reps' i [] s)
    (maxIters : Nat) {out out' : List (List Slot)}
    (h : search sel cfg lm dflt inits maxIters = .ok out)
    (h' : search sel' cfg lm' dflt' inits' maxIters = .ok out')
    (n : Nat) (s : σ) (s' : σ') (hn : inits[n]? = some s) (hn' : inits'[n]? = some s')
    (i : ι) (hi : Reps i [] s) (hi' : Reps' i [] s')
    (hmargin : tieFree (margin ε) sel cfg lm dflt maxIters 0 (initElem s) = true) :
    ∃ beamN beamN', out[n]? = some beamN ∧ out'[n]? = some beamN' ∧
      beamN.length = beamN'.length ∧
      ∀ (k : Nat) (x x' : Slot), beamN[k]? = some x → beamN'[k]? = some x' →
        (x.score = none ↔ x'.score = none) ∧
        (x.score ≠ none → x.col.take x.len = x'.col.take x'.len ∧
          Score.Close (accErr ε (x.col.take x.len).length) x.score x'.score) := by
  have hL' : Waits cfg ∨ ∀ i, SpecLive cfg.V (specs' i) :=
    hL.imp id fun hh i => specLive_of_close (hclose i) (hh i)
  obtain ⟨b1, bN, s1, o1, v1⟩ := C04_batch hsel hlm hV hw dflt hrule hL hinit maxIters h n s hn
  obtain ⟨b2, bN', s2, o2, v2⟩ := C04_batch hsel' hlm' hV hw dflt' hrule hL' hinit' maxIters h' n s' hn'
  obtain ⟨c1, c2, t1, t2, hlen, hall⟩ := C04_skeleton_stable hε hsel hsel' (hlm i) (hlm' i) (hclose i)
    hV hw hrule (hL.imp id fun hh => hh i) dflt dflt' hi hi' maxIters hmargin
  rw [s1] at t1
  rw [s2] at t2
  simp only [Except.ok.injEq, List.cons.injEq, and_true] at t1 t2
  subst t1 t2
  have l1 := congrArg List.length v1
  have l2 := congrArg List.length v2
  simp only [List.length_map] at l1 l2
  refine ⟨bN, bN', o1, o2, by omega, ?_⟩
  intro k x x' hx hx'
  obtain ⟨y, hy, yp, ys⟩ := view_idx v1 hx
  obtain ⟨y', hy', yp', ys'⟩ := view_idx v2 hx'
  obtain ⟨a1, a2⟩ := hall k y y' hy hy'
  rw [ys, ys', yp, yp'] at *
  exact ⟨a1, a2⟩

end stableFamily

/-- **C04_margin_rule**: what the driver evaluates on every float case is `sepB m` with ONE margin `m` on
every selection of the trajectory (`tieFree (fun _ => m)`). That implies the step-dependent hypothesis of
`C04_skeleton_stable` for every `ε` whose largest demanded margin - `2 · maxIters · ε`, at the last step -
does not exceed `m` (monotonicity of `sepB` / `tieFree` in the margin). -/
theorem C04_margin_rule {ε m : Rat} (hε : 0 ≤ ε) (sel : Sel) (cfg : Cfg) (lm : LM σ) (dflt : σ)
    (maxIters : Nat) (e : Elem σ) (hm : margin ε (maxIters - 1) ≤ m)
    (h : tieFree (fun _ => m) sel cfg lm dflt maxIters 0 e = true) :
    tieFree (margin ε) sel cfg lm dflt maxIters 0 e = true := by
  refine tieFree_mono sel cfg lm dflt maxIters 0 e ?_ h
  intro t' _ h2
  have h3 : accErr ε (t' + 1) ≤ accErr ε (maxIters - 1 + 1) := accErr_mono hε (by omega)
  unfold margin at hm ⊢
  grind

/-- **C04_sepFast_eq**: the driver does not run `sepB` itself (it looks every candidate up by position -
quadratic on lists, minutes for the candidate counts of the size classes) but the one-pass `sepFast`
(`Spec/Beam.lean`); on every margin, candidate vector and selection the two are the same Boolean. What the
driver reports as `sep` therefore IS the hypothesis `sepB` of `C04_topk_stable` / `tieFree`. -/
theorem C04_sepFast_eq (m : Rat) (c : List Score) (inds : List Nat) :
    sepFast m c inds = sepB m c inds := sepFast_eq m c inds

/-! ### Non-vacuity of the stability theorems, and the margin cannot be dropped

Second run: a language model with a different state type (the running SUM of the consumed tokens,
an `Int`, instead of the consumed history), rows perturbed by up to 1/100, and the selection
`selRev` (ties broken towards the larger index) instead of `selIns`. -/

def pLM : LM Int :=
  ⟨fun t col st =>
    let a : Int := if t = 0 then 0 else st + col.getD (t - 1) 0
    ([some (-(a : Rat) - 1 + 1 / 100), some (-2 - 1 / 100), some (-(3 : Rat) / 2 + 1 / 200)], a)⟩

def pSpec (h : List Int) : List Score :=
  [some (-(h.sum : Rat) - 1 + 1 / 100), some (-2 - 1 / 100), some (-(3 : Rat) / 2 + 1 / 200)]

/-- the state has summed everything but the newest token -/
def pRep (h : List Int) (st : Int) : Prop := st = h.dropLast.sum

theorem pLM_ok : LMOK 3 pLM pSpec pRep := by
  refine ⟨fun _ _ _ => rfl, ?_⟩
  intro h st col hrep htake
  have hh : (if h.length = 0 then (0 : Int) else st + col.getD (h.length - 1) 0) = h.sum := by
    by_cases h0 : h.length = 0
    · rw [if_pos h0, List.eq_nil_of_length_eq_zero h0]; rfl
    · rw [if_neg h0, hrep]
      have hne : h ≠ [] := fun e => h0 (by rw [e]; rfl)
      have hl : col.getD (h.length - 1) 0 = h.getLast hne := by
        have hlt : h.length - 1 < h.length := by omega
        have : (col.take h.length)[h.length - 1]? = col[h.length - 1]? := by
          rw [List.getElem?_take]; simp [hlt]
        rw [htake] at this
        rw [List.getD_eq_getElem?_getD, ← this, List.getLast_eq_getElem, List.getElem?_eq_getElem hlt]
        rfl
      rw [hl]
      conv => rhs; rw [← List.dropLast_append_getLast hne]
      simp
  refine ⟨?_, fun v => ?_⟩
  · show [some (-((if h.length = 0 then (0 : Int) else st + col.getD (h.length - 1) 0 : Int) : Rat) - 1
        + 1 / 100), some (-2 - 1 / 100), some (-(3 : Rat) / 2 + 1 / 200)] = pSpec h
    rw [hh]; rfl
  · show (if h.length = 0 then (0 : Int) else st + col.getD (h.length - 1) 0) = (h ++ [v]).dropLast.sum
    rw [hh]; simp

theorem pSpec_close : SpecClose (1 / 100) hSpec pSpec := by
  intro h v
  match v with
  | 0 => simp only [hSpec, pSpec, List.getD_cons_zero, Score.Close]; constructor <;> grind
  | 1 => simp only [hSpec, pSpec, List.getD_cons_succ, List.getD_cons_zero, Score.Close]
         constructor <;> grind
  | 2 => simp only [hSpec, pSpec, List.getD_cons_succ, List.getD_cons_zero, Score.Close]
         constructor <;> grind
  | n + 3 => simp [hSpec, pSpec, Score.Close]

/-- every selection of the exact run (`hSearch_ok`: pruning at every step) has the margin -/
theorem hSearch_tieFree : tieFree (margin (1 / 100)) selIns hCfg hLM [] 3 0 (initElem []) = true := by
  decide +kernel

-- C04_skeleton_stable on this pair of runs: ALL hypotheses together
example := C04_skeleton_stable (ε := 1 / 100) (cfg := hCfg) (by decide +kernel) C04_selIns_ok selRev_ok hLM_ok pLM_ok
  pSpec_close (by decide) (by decide) rfl (Or.inr hSpec_live) [] 0 (s := []) (s' := 0) rfl rfl 3
  hSearch_tieFree

-- and the perturbed run indeed returns different scores for the same two paths
example : ((search selRev hCfg pLM 0 [0] 3).toOption.map fun out =>
      out.map fun beam => beam.map fun x => (x.col.take x.len, x.score))
    = some [[([0, 0, 0], some (-3 + 3 / 100)), ([0, 0, 2], some (-(7 : Rat) / 2 + 1 / 40))]] := by
  decide +kernel

-- C04_skeleton_stable_batch on two joint runs over a batch of two elements: ALL hypotheses together
example : True := by
  have hi : ∀ s ∈ [([] : List Int), []], ∃ _i : Unit, hRep [] s := by
    intro s hs; simp at hs; subst hs; exact ⟨(), rfl⟩
  have hi' : ∀ s ∈ [(0 : Int), 0], ∃ _i : Unit, pRep [] s := by
    intro s hs; simp at hs; subst hs; exact ⟨(), rfl⟩
  obtain ⟨out, hout⟩ := C04_no_error (cfg := hCfg) (specs := fun _ : Unit => hSpec)
    (Reps := fun _ => hRep) C04_selIns_ok (fun _ => hLM_ok) (by decide) (by decide) [] rfl
    (Or.inr fun _ => hSpec_live) hi (by simp) 3
  obtain ⟨out', hout'⟩ := C04_no_error (cfg := hCfg) (specs := fun _ : Unit => pSpec)
    (Reps := fun _ => pRep) selRev_ok (fun _ => pLM_ok) (by decide) (by decide) 0 rfl
    (Or.inr fun _ => specLive_of_close pSpec_close hSpec_live) hi' (by simp) 3
  have := C04_skeleton_stable_batch (ε := 1 / 100) (cfg := hCfg) (specs := fun _ : Unit => hSpec)
    (specs' := fun _ => pSpec) (Reps := fun _ => hRep) (Reps' := fun _ => pRep) (by decide +kernel)
    C04_selIns_ok selRev_ok (fun _ => hLM_ok) (fun _ => pLM_ok) (fun _ => pSpec_close) (by decide)
    (by decide) rfl (Or.inr fun _ => hSpec_live) [] 0 hi hi' 3 hout hout' 1 [] 0 rfl rfl () rfl rfl
    hSearch_tieFree
  trivial

/-- two rows that are 1/100-close but order the two tokens differently -/
def nearA : LM Unit := ⟨fun _ _ _ => ([some 0, some (-(1 : Rat) / 100)], ())⟩
def nearB : LM Unit := ⟨fun _ _ _ => ([some (-(1 : Rat) / 100), some 0], ())⟩

/-- **The margin hypothesis cannot be dropped**: two language models whose rows are 1/100-close,
width 1, one step - the first run keeps token 0, the second token 1; the selection of the first
run is decided by a margin of 1/100 only, below `2ε`. -/
theorem C04_margin_needed_counterexample :
    (∀ v : Nat, Score.Close (1 / 100) ([some 0, some (-(1 : Rat) / 100)].getD v none)
        ([some (-(1 : Rat) / 100), some 0].getD v none)) ∧
    ((search selIns ⟨2, 1, none, false, -1, 0, false⟩ nearA () [()] 1).toOption.map fun out =>
        out.map fun beam => beam.map fun x => x.col.take x.len) = some [[[0]]] ∧
    ((search selIns ⟨2, 1, none, false, -1, 0, false⟩ nearB () [()] 1).toOption.map fun out =>
        out.map fun beam => beam.map fun x => x.col.take x.len) = some [[[1]]] ∧
    tieFree (margin (1 / 100)) selIns ⟨2, 1, none, false, -1, 0, false⟩ nearA () 1 0 (initElem ())
      = false := by
  refine ⟨?_, by decide +kernel, by decide +kernel, by decide +kernel⟩
  intro v
  match v with
  | 0 => simp only [List.getD_cons_zero, Score.Close]; constructor <;> grind
  | 1 => simp only [List.getD_cons_succ, List.getD_cons_zero, Score.Close]; constructor <;> grind
  | n + 2 => simp [Score.Close]

/-! #### Audit (round e): `C04_topk_stable` and `C04_margin_rule` on concrete instances

Five candidates, `K = 3`: two are left out, one of them finite (pruning); the exact vector is selected by
`selIns` (ties towards the smaller index), the perturbed one (entries up to 1/10 off) by `selRev`; every
selected candidate is more than 1/2 away from every other one. -/

def tkC : List Score := [some 0, some (-2), none, some (-1), some (-4)]
def tkC' : List Score :=
  [some (-(1 : Rat) / 10), some (-2 + 1 / 10), none, some (-1 - 1 / 10), some (-4)]

example : selIns tkC 3 = [0, 3, 1] ∧ selRev tkC' 3 = [0, 3, 1]
    ∧ sepB (1 / 2) tkC (selIns tkC 3) = true := by decide +kernel

theorem tkClose : ∀ i, Score.Close (1 / 10) (tkC.getD i none) (tkC'.getD i none) := by
  intro i
  match i with
  | 0 => simp only [tkC, tkC', List.getD_cons_zero, Score.Close]; constructor <;> grind
  | 1 => simp only [tkC, tkC', List.getD_cons_succ, List.getD_cons_zero, Score.Close]; constructor <;> grind
  | 2 => simp [tkC, tkC', Score.Close]
  | 3 => simp only [tkC, tkC', List.getD_cons_succ, List.getD_cons_zero, Score.Close]; constructor <;> grind
  | 4 => simp only [tkC, tkC', List.getD_cons_succ, List.getD_cons_zero, Score.Close]; constructor <;> grind
  | n + 5 => simp [tkC, tkC', Score.Close]

-- C04_topk_stable: ALL hypotheses together (pruning happens: candidates 2 and 4 are left out)
example := C04_topk_stable (m := 1 / 2) (ε := 1 / 10) (by decide +kernel) (by decide +kernel)
  (c := tkC) (c' := tkC') (K := 3) rfl tkClose (C04_selIns_ok tkC 3 (by decide))
  (selRev_ok tkC' 3 (by decide)) (by decide +kernel)

/-- the `-inf` clause: two finite candidates for `K = 3`; the exact selection has to take a `-inf`
candidate (index 1), the perturbed one takes another `-inf` candidate (index 3) at that position -/
def tkD : List Score := [some 0, none, some (-1), none]
def tkD' : List Score := [some (1 / 10), none, some (-1), none]

theorem tkDClose : ∀ i, Score.Close (1 / 10) (tkD.getD i none) (tkD'.getD i none) := by
  intro i
  match i with
  | 0 => simp only [tkD, tkD', List.getD_cons_zero, Score.Close]; constructor <;> grind
  | 1 => simp [tkD, tkD', Score.Close]
  | 2 => simp only [tkD, tkD', List.getD_cons_succ, List.getD_cons_zero, Score.Close]; constructor <;> grind
  | 3 => simp [tkD, tkD', Score.Close]
  | n + 4 => simp [tkD, tkD', Score.Close]

example : selIns tkD 3 = [0, 2, 1] ∧ selRev tkD' 3 = [0, 2, 3] := by decide +kernel
example := C04_topk_stable (m := 1 / 2) (ε := 1 / 10) (by decide +kernel) (by decide +kernel)
  (c := tkD) (c' := tkD') (K := 3) rfl tkDClose (C04_selIns_ok tkD 3 (by decide))
  (selRev_ok tkD' 3 (by decide)) (by decide +kernel)

/-- C04_margin_rule on the run of `hSearch_ok`: every selection has a margin of more than 1/4 (constant),
which covers `ε = 1/100` for three steps (largest demanded margin 6/100); the result is the hypothesis
`hSearch_tieFree` of the stability examples above. -/
example : tieFree (margin (1 / 100)) selIns hCfg hLM [] 3 0 (initElem []) = true :=
  C04_margin_rule (ε := 1 / 100) (m := 1 / 4) (by decide +kernel) selIns hCfg hLM [] 3 (initElem [])
    (by decide +kernel) (by decide +kernel)

end PdtVerif.Beam
