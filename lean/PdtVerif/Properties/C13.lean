import PdtVerif.Lemmas.EpochSampler
/-!
# C13 — epoch samplers are reproducible and split data exactly across processes

Property theorems only (helper lemmas live in `Lemmas/EpochSampler.lean`).
All statements are for every data-set size, world size, rank, mode, permutation source
and number of previously consumed epochs.
-/
namespace PdtVerif.EpochSampler

/-- The per-epoch ordering is a genuine ordering of the `N` indices. -/
def IsOrdering (N : Nat) (p : List Nat) : Prop := p.Perm (List.range N)

theorem IsOrdering.length {N p} (h : IsOrdering N p) : p.length = N := by
  simpa using h.length_eq

/-- Configurations `init` can produce in a distributed group. -/
def Config.Wf (c : Config) : Prop := 0 < c.world ∧ c.rank < c.world ∧ c.eff ≤ c.total

theorem init_wf {N mode dist c} (h : init N mode dist = some c)
    (hd : ∀ r w, dist = some (r, w) → r < w) : c.Wf ∧ c.total = N := by
  unfold init at h
  split at h
  · cases h; simp [Config.Wf]
  · cases h; simp [Config.Wf]
  all_goals
    rename_i r w
    have := hd r w rfl
    first
      | (split at h <;> cases h <;> simp [Config.Wf] <;> omega)
      | (cases h; simp [Config.Wf]; omega)

/-- **C13_len**: `__len__` is the number of indices the sampler yields. -/
theorem C13_len (c : Config) (perm : List Nat) (hc : c.Wf) (hp : perm.length = c.total) :
    ((samples c perm).length : Int) = len c := by
  obtain ⟨hw, hr, he⟩ := hc
  unfold samples len
  rw [islice_length _ _ _ _ hw, hp, Nat.min_eq_left he]
  by_cases h : c.rank ≤ c.eff
  · have : ((c.eff : Int) - c.rank + c.world - 1) = ((c.eff - c.rank + c.world - 1 : Nat) : Int) := by
      omega
    rw [this]; exact Int.natCast_ediv _ _
  · have h1 : c.eff - c.rank + c.world - 1 = c.world - 1 := by omega
    rw [h1, Nat.div_eq_of_lt (by omega)]
    symm
    apply Int.ediv_eq_zero_of_lt <;> omega

/-- Ranks `0..world-1` with everything else shared. -/
def withRank (c : Config) (r : Nat) : Config := { c with rank := r }

/-- **C13_partition**: concatenating the per-rank lists gives a rearrangement of the
first `eff` entries of the epoch's ordering: every one of them appears exactly once
across the group. -/
theorem C13_partition (c : Config) (perm : List Nat) (hw : 0 < c.world)
    (he : c.eff ≤ perm.length) :
    ((List.range c.world).flatMap (fun r => samples (withRank c r) perm)).Perm
      (perm.take c.eff) := by
  have h1 : ∀ r, samples (withRank c r) perm
      = (idxs c.eff r c.world).map (fun i => perm.getD i 0) := by
    intro r
    unfold samples withRank
    simp only
    rw [islice_eq_map _ _ _ _ hw, Nat.min_eq_left he]
  simp only [h1]
  rw [← List.map_flatMap]
  have h2 : perm.take c.eff = (List.range c.eff).map (fun i => perm.getD i 0) := by
    apply List.ext_getElem?
    intro k
    simp only [List.getElem?_take, List.getElem?_map]
    by_cases hk : k < c.eff
    · have : k < perm.length := by omega
      simp [hk, this, List.getD_eq_getElem?_getD]
    · simp [hk]
  rw [h2]
  exact (idxs_partition c.eff c.world hw).map _

/-- Pairwise disjointness, stated directly: no index is yielded by two different ranks. -/
theorem C13_disjoint (c : Config) (perm : List Nat) (hw : 0 < c.world)
    (he : c.eff ≤ perm.length) (hn : perm.Nodup) (r₁ r₂ : Nat)
    (h₁ : r₁ < c.world) (h₂ : r₂ < c.world) (hne : r₁ ≠ r₂) (x : Nat)
    (hx₁ : x ∈ samples (withRank c r₁) perm) : x ∉ samples (withRank c r₂) perm := by
  intro hx₂
  have h1 : ∀ r, samples (withRank c r) perm
      = (idxs c.eff r c.world).map (fun i => perm.getD i 0) := by
    intro r
    unfold samples withRank
    simp only
    rw [islice_eq_map _ _ _ _ hw, Nat.min_eq_left he]
  rw [h1, List.mem_map] at hx₁ hx₂
  obtain ⟨i, hi, rfl⟩ := hx₁
  obtain ⟨j, hj, hij⟩ := hx₂
  have hi' : i < perm.length := by have := ((mem_idxs hw i).1 hi).1; omega
  have hj' : j < perm.length := by have := ((mem_idxs hw j).1 hj).1; omega
  simp only [List.getD_eq_getElem?_getD, List.getElem?_eq_getElem hi',
    List.getElem?_eq_getElem hj', Option.getD_some] at hij
  have : j = i := (List.Nodup.getElem_inj_iff hn).1 hij
  subst this
  exact idxs_disjoint hw h₁ h₂ hne hi hj

/-- Under `uneven` (and under `raise`/`drop` when `world` divides `N`) all `N` indices are
covered; under `drop` exactly the first `N - N % world` positions of the ordering are. -/
theorem C13_cover_all (c : Config) (perm : List Nat) (hw : 0 < c.world)
    (he : c.eff = perm.length) :
    ((List.range c.world).flatMap (fun r => samples (withRank c r) perm)).Perm perm := by
  have := C13_partition c perm hw (by omega)
  rwa [he, List.take_length] at this

/-- **drop**: every rank gets exactly `N / world` indices. -/
theorem C13_drop_equal (N r w : Nat) (hr : r < w) (perm : List Nat) (hp : perm.length = N)
    (c : Config) (hc : init N .drop (some (r, w)) = some c) :
    (samples c perm).length = N / w := by
  have hw : 0 < w := by omega
  unfold init at hc
  simp only at hc
  have hc' : c = ⟨N, N - N % w, r, w⟩ := by
    split at hc
    · cases hc; rfl
    · rename_i h
      have h0 : N % w = 0 := by simpa using h
      cases hc; simp [h0]
  subst hc'
  unfold samples
  simp only
  rw [islice_length _ _ _ _ hw, hp]
  have h1 : min (N - N % w) N = N - N % w := by omega
  rw [h1]
  have h2 : N - N % w = w * (N / w) := by have := Nat.mod_add_div N w; omega
  rw [h2]
  apply Nat.div_eq_of_lt_le
  · have : N / w * w = w * (N / w) := Nat.mul_comm _ _
    omega
  · rw [Nat.add_mul]
    have : N / w * w = w * (N / w) := Nat.mul_comm _ _
    omega

/-- **C13_modes** (strict): an indivisible size raises. -/
theorem C13_raise (N r w : Nat) (h : N % w ≠ 0) : init N .raise (some (r, w)) = none := by
  simp [init, h]

/-- **C13_modes** (strict, divisible): accepted with the whole epoch split. -/
theorem C13_raise_ok (N r w : Nat) (h : N % w = 0) :
    init N .raise (some (r, w)) = some ⟨N, N, r, w⟩ := by
  simp [init, h]

/-- **C13_modes** (ignore): every rank gets the full epoch, whatever the group. -/
theorem C13_ignore (N : Nat) (dist : Option (Nat × Nat)) (perm : List Nat)
    (hp : perm.length = N) :
    ∃ c, init N .ignore dist = some c ∧ samples c perm = perm := by
  refine ⟨⟨N, N, 0, 1⟩, by simp [init], ?_⟩
  apply List.ext_getElem?
  intro k
  unfold samples
  rw [islice_getElem? _ _ _ _ Nat.one_pos]
  simp only [Nat.zero_add, Nat.mul_one]
  split
  · rfl
  · rename_i h
    have : perm.length ≤ k := by omega
    simp [this]

/-- Outside a distributed group every mode yields the full epoch. -/
theorem C13_nodist (N : Nat) (mode : Mode) (perm : List Nat) (hp : perm.length = N) :
    ∃ c, init N mode none = some c ∧ samples c perm = perm := by
  obtain ⟨c, hc, hs⟩ := C13_ignore N none perm hp
  refine ⟨c, ?_, hs⟩
  cases mode <;> simpa [init] using hc

/-- State after `k` consumed epochs. -/
theorem iterMany_state (perm : Nat → List Nat) (k : Nat) (s : State) :
    (iterMany perm k s).2 = { s with epoch := s.epoch + k } := by
  induction k generalizing s with
  | zero => rfl
  | succ k ih =>
    simp only [iterMany, iter]
    rw [ih]
    simp only [State.mk.injEq, true_and]
    omega

/-- **C13_history**: what is yielded for epoch `e₀ + k` is the same whether the sampler
was built at `e₀` and iterated `k` times, or built directly at `e₀ + k`; and it is a
function of the epoch's ordering alone. -/
theorem C13_history (perm : Nat → List Nat) (cfg : Config) (e₀ k : Nat) :
    (iter perm (iterMany perm k ⟨cfg, e₀⟩).2).1 = (iter perm ⟨cfg, e₀ + k⟩).1
    ∧ (iter perm ⟨cfg, e₀ + k⟩).1 = samples cfg (perm (e₀ + k)) := by
  rw [iterMany_state]
  exact ⟨rfl, rfl⟩

/-- The `j`-th list yielded by a sampler started at `e₀` is epoch `e₀ + j`'s. -/
theorem C13_history_lists (perm : Nat → List Nat) (cfg : Config) (e₀ k : Nat) :
    (iterMany perm k ⟨cfg, e₀⟩).1 = (List.range k).map (fun j => samples cfg (perm (e₀ + j))) := by
  induction k generalizing e₀ with
  | zero => rfl
  | succ k ih =>
    simp only [iterMany, iter]
    rw [ih (e₀ + 1), List.range_succ_eq_map]
    simp only [List.map_cons, List.map_map, Nat.add_zero]
    congr 1
    apply List.map_congr_left
    intro j _
    simp only [Function.comp]
    congr 2
    omega

/-! ## Non-vacuity: the hypotheses are met by concrete, non-trivial configurations. -/

example : (⟨7, 6, 1, 3⟩ : Config).Wf := by simp [Config.Wf]
example : init 7 .drop (some (1, 3)) = some ⟨7, 6, 1, 3⟩ := by decide
example : IsOrdering 7 [3, 0, 6, 2, 5, 1, 4] := by unfold IsOrdering; decide
example : samples ⟨7, 6, 1, 3⟩ [3, 0, 6, 2, 5, 1, 4] = [0, 5] := by
  simp [samples, islice, everyNth]
example : samples ⟨7, 7, 0, 3⟩ [3, 0, 6, 2, 5, 1, 4] = [3, 2, 4] := by
  simp [samples, islice, everyNth]
example : len ⟨7, 7, 0, 3⟩ = 3 := by decide

end PdtVerif.EpochSampler
