import PdtVerif.Lemmas.EpochSampler
/-!
# C13 — epoch samplers are reproducible and split data exactly across processes

Property theorems only (helper lemmas live in `Lemmas/EpochSampler.lean`).
All statements are for every data-set size, world size, rank, mode, permutation source
and number of previously consumed epochs.
-/
namespace PdtVerif.EpochSampler

/-- The per-epoch ordering is a genuine ordering of the `N` indices. -/
def IsOrdering (N : Nat) (p : List Nat) : Prop := p.Perm (List.range N)

theorem IsOrdering.length {N p} (h : IsOrdering N p) : p.length = N := by
  simpa using h.length_eq

/-- Configurations `init` can produce in a distributed group. -/
def Config.Wf (c : Config) : Prop := 0 < c.world ∧ c.rank < c.world ∧ c.eff ≤ c.total

theorem init_wf {N mode dist c} (h : init N mode dist = some c)
    (hd : ∀ r w, dist = some (r, w) → r < w) : c.Wf ∧ c.total = N := by
  unfold init at h
  split at h
  · cases h; simp [Config.Wf]
  · cases h; simp [Config.Wf]
  all_goals
    rename_i r w
    have := hd r w rfl
    first
      | (split at h <;> cases h <;> simp [Config.Wf] <;> omega)
      | (cases h; simp [Config.Wf]; omega)

/-- **C13_len**: `__len__` is the number of indices the sampler yields. -/
theorem C13_len (c : Config) (perm : List Nat) (hc : c.Wf) (hp : perm.length = c.total) :
    ((samples c perm).length : Int) = len c := by
  obtain ⟨hw, hr, he⟩ := hc
  unfold samples len
  rw [islice_length _ _ _ _ hw, hp, Nat.min_eq_left he]
  by_cases h : c.rank ≤ c.eff
  · have : ((c.eff : Int) - c.rank + c.world - 1) = ((c.eff - c.rank + c.world - 1 : Nat) : Int) := by
      omega
    rw [this]; exact Int.natCast_ediv _ _
  · have h1 : c.eff - c.rank + c.world - 1 = c.world - 1 := by omega
    rw [h1, Nat.div_eq_of_lt (by omega)]
    symm
    apply Int.ediv_eq_zero_of_lt <;> omega

/-- Ranks `0..world-1` with everything else shared. -/
def withRank (c : Config) (r : Nat) : Config := { c with rank := r }

/-- **C13_partition**: concatenating the per-rank lists gives a rearrangement of the
first `eff` entries of the epoch's ordering: every one of them appears exactly once
across the group. -/
theorem C13_partition (c : Config) (perm : List Nat) (hw : 0 < c.world)
    (he : c.eff ≤ perm.length) :
    ((List.range c.world).flatMap (fun r => samples (withRank c r) perm)).Perm
      (perm.take c.eff) := by
  have h1 : ∀ r, samples (withRank c r) perm
      = (idxs c.eff r c.world).map (fun i => perm.getD i 0) := by
    intro r
    unfold samples withRank
    simp only
    rw [islice_eq_map _ _ _ _ hw, Nat.min_eq_left he]
  simp only [h1]
  rw [← List.map_flatMap]
  have h2 : perm.take c.eff = (List.range c.eff).map (fun i => perm.getD i 0) := by
    apply List.ext_getElem?
    intro k
    simp only [List.getElem?_take, List.getElem?_map]
    by_cases hk : k < c.eff
    · have : k < perm.length := by omega
      simp [hk, this, List.getD_eq_getElem?_getD]
    · simp [hk]
  rw [h2]
  exact (idxs_partition c.eff c.world hw).map _

/-- Pairwise disjointness, stated directly: no index is yielded by two different ranks. -/
theorem C13_disjoint (c : Config) (perm : List Nat) (hw : 0 < c.world)
    (he : c.eff ≤ perm.length) (hn : perm.Nodup) (r₁ r₂ : Nat)
    (h₁ : r₁ < c.world) (h₂ : r₂ < c.world) (hne : r₁ ≠ r₂) (x : Nat)
    (hx₁ : x ∈ samples (withRank c r₁) perm) : x ∉ samples (withRank c r₂) perm := by
  intro hx₂
  have h1 : ∀ r, samples (withRank c r) perm
      = (idxs c.eff r c.world).map (fun i => perm.getD i 0) := by
    intro r
    unfold samples withRank
    simp only
    rw [islice_eq_map _ _ _ _ hw, Nat.min_eq_left he]
  rw [h1, List.mem_map] at hx₁ hx₂
  obtain ⟨i, hi, rfl⟩ := hx₁
  obtain ⟨j, hj, hij⟩ := hx₂
  have hi' : i < perm.length := by have := ((mem_idxs hw i).1 hi).1; omega
  have hj' : j < perm.length := by have := ((mem_idxs hw j).1 hj).1; omega
  simp only [List.getD_eq_getElem?_getD, List.getElem?_eq_getElem hi',
    List.getElem?_eq_getElem hj', Option.getD_some] at hij
  have : j = i := (List.Nodup.getElem_inj_iff hn).1 hij
  subst this
  exact idxs_disjoint hw h₁ h₂ hne hi hj

/-- Under `uneven` (and under `raise`/`drop` when `world` divides `N`) all `N` indices are
covered; under `drop` exactly the first `N - N % world` positions of the ordering are. -/
theorem C13_cover_all (c : Config) (perm : List Nat) (hw : 0 < c.world)
    (he : c.eff = perm.length) :
    ((List.range c.world).flatMap (fun r => samples (withRank c r) perm)).Perm perm := by
  have := C13_partition c perm hw (by omega)
  rwa [he, List.take_length] at this

/-- **drop**: every rank gets exactly `N / world` indices. -/
theorem C13_drop_equal (N r w : Nat) (hr : r < w) (perm : List Nat) (hp : perm.length = N)
    (c : Config) (hc : init N .drop (some (r, w)) = some c) :
    (samples c perm).length = N / w := by
  have hw : 0 < w := by omega
  unfold init at hc
  simp only at hc
  have hc' : c = ⟨N, N - N % w, r, w⟩ := by
    split at hc
    · cases hc; rfl
    · rename_i h
      have h0 : N % w = 0 := by simpa using h
      cases hc; simp [h0]
  subst hc'
  unfold samples
  simp only
  rw [islice_length _ _ _ _ hw, hp]
  have h1 : min (N - N % w) N = N - N % w := by omega
  rw [h1]
  have h2 : N - N % w = w * (N / w) := by have := Nat.mod_add_div N w; omega
  rw [h2]
  apply Nat.div_eq_of_lt_le
  · have : N / w * w = w * (N / w) := Nat.mul_comm _ _
    omega
  · rw [Nat.add_mul]
    have : N / w * w = w * (N / w) := Nat.mul_comm _ _
    omega

/-- **C13_modes** (strict): an indivisible size raises. -/
theorem C13_raise (N r w : Nat) (_hw : 0 < w) (h : N % w ≠ 0) :
    init N .raise (some (r, w)) = none := by
  simp [init, h]

/-- **C13_modes** (strict, divisible): accepted with the whole epoch split. -/
theorem C13_raise_ok (N r w : Nat) (_hw : 0 < w) (h : N % w = 0) :
    init N .raise (some (r, w)) = some ⟨N, N, r, w⟩ := by
  simp [init, h]

/-! ### The modes tied to the partition statements (audit addition)

`C13_partition` / `C13_disjoint` / `C13_cover_all` speak about an arbitrary `Config`; the
theorems below say which `Config`s `__init__` really produces for the ranks of one process
group and restate the partition for exactly those. -/

/-- What `__init__` stores inside a process group, for every mode other than `ignore`:
the rank and world size of the group, and `effective_total = N - N % world` under `drop`,
`N` otherwise. -/
theorem C13_init_shape {N : Nat} {mode : Mode} {r w : Nat} {c : Config} (hm : mode ≠ .ignore)
    (h : init N mode (some (r, w)) = some c) :
    c = ⟨N, if mode = .drop then N - N % w else N, r, w⟩ := by
  cases mode with
  | ignore => exact absurd rfl hm
  | raise =>
    simp only [init] at h
    split at h
    · cases h
    · cases h; simp
  | drop =>
    simp only [init] at h
    split at h
    · cases h; simp
    · rename_i h0
      have h0 : N % w = 0 := by simpa using h0
      cases h; simp [h0]
  | uneven =>
    simp only [init] at h
    cases h; simp

/-- **Group partition**: if `__init__` succeeds on every rank of a group of `w` processes
(same data-set size, same mode ≠ `ignore`), the concatenation of what the ranks yield for an
epoch is a rearrangement of the first `N - N % w` (drop) / all `N` (raise, uneven) entries of
that epoch's ordering. -/
theorem C13_group_partition (N w : Nat) (mode : Mode) (hm : mode ≠ .ignore) (hw : 0 < w)
    (perm : List Nat) (hp : perm.length = N) (cfg : Nat → Config)
    (h : ∀ r, r < w → init N mode (some (r, w)) = some (cfg r)) :
    ((List.range w).flatMap (fun r => samples (cfg r) perm)).Perm
      (perm.take (if mode = .drop then N - N % w else N)) := by
  let c0 : Config := ⟨N, if mode = .drop then N - N % w else N, 0, w⟩
  have hcfg : ∀ r, r ∈ List.range w → samples (cfg r) perm = samples (withRank c0 r) perm := by
    intro r hr
    rw [C13_init_shape hm (h r (List.mem_range.1 hr))]
    rfl
  have he : c0.eff ≤ perm.length := by
    show (if mode = .drop then N - N % w else N) ≤ perm.length
    split <;> omega
  have := C13_partition c0 perm hw he
  rw [List.flatMap_congr hcfg]
  exact this

/-- **Exactly once**: with a genuine ordering of `range N` and a mode that drops nothing
(`uneven`, or `raise` — whose `__init__` only succeeds for divisible sizes), the ranks
together yield every index `0..N-1` exactly once. -/
theorem C13_group_cover (N w : Nat) (mode : Mode) (hm : mode ≠ .ignore) (hd : mode ≠ .drop)
    (hw : 0 < w) (perm : List Nat) (ho : IsOrdering N perm) (cfg : Nat → Config)
    (h : ∀ r, r < w → init N mode (some (r, w)) = some (cfg r)) :
    ((List.range w).flatMap (fun r => samples (cfg r) perm)).Perm (List.range N) := by
  have := C13_group_partition N w mode hm hw perm ho.length cfg h
  rw [if_neg hd] at this
  have hl : perm.take N = perm := by rw [← ho.length, List.take_length]
  rw [hl] at this
  exact this.trans ho

/-- No index is yielded twice across the group, in any mode other than `ignore`. -/
theorem C13_group_nodup (N w : Nat) (mode : Mode) (hm : mode ≠ .ignore)
    (hw : 0 < w) (perm : List Nat) (ho : IsOrdering N perm) (cfg : Nat → Config)
    (h : ∀ r, r < w → init N mode (some (r, w)) = some (cfg r)) :
    ((List.range w).flatMap (fun r => samples (cfg r) perm)).Nodup := by
  have hp := C13_group_partition N w mode hm hw perm ho.length cfg h
  have hn : perm.Nodup := ho.nodup_iff.2 List.nodup_range
  exact hp.nodup_iff.2 (hn.sublist (List.take_sublist _ _))

/-- **C13_modes** (ignore): every rank gets the full epoch, whatever the group. -/
theorem C13_ignore (N : Nat) (dist : Option (Nat × Nat)) (perm : List Nat)
    (hp : perm.length = N) :
    ∃ c, init N .ignore dist = some c ∧ samples c perm = perm := by
  refine ⟨⟨N, N, 0, 1⟩, by simp [init], ?_⟩
  apply List.ext_getElem?
  intro k
  unfold samples
  rw [islice_getElem? _ _ _ _ Nat.one_pos]
  simp only [Nat.zero_add, Nat.mul_one]
  split
  · rfl
  · rename_i h
    have : perm.length ≤ k := by omega
    simp [this]

/-- Outside a distributed group every mode yields the full epoch. -/
theorem C13_nodist (N : Nat) (mode : Mode) (perm : List Nat) (hp : perm.length = N) :
    ∃ c, init N mode none = some c ∧ samples c perm = perm := by
  obtain ⟨c, hc, hs⟩ := C13_ignore N none perm hp
  refine ⟨c, ?_, hs⟩
  cases mode <;> simpa [init] using hc

/-- State after `k` consumed epochs. -/
theorem iterMany_state (perm : Nat → List Nat) (k : Nat) (s : State) :
    (iterMany perm k s).2 = { s with epoch := s.epoch + k } := by
  induction k generalizing s with
  | zero => rfl
  | succ k ih =>
    simp only [iterMany, iter]
    rw [ih]
    simp only [State.mk.injEq, true_and]
    omega

/-- **C13_history**: what is yielded for epoch `e₀ + k` is the same whether the sampler
was built at `e₀` and iterated `k` times, or built directly at `e₀ + k`; and it is a
function of the epoch's ordering alone. -/
theorem C13_history (perm : Nat → List Nat) (cfg : Config) (e₀ k : Nat) :
    (iter perm (iterMany perm k ⟨cfg, e₀⟩).2).1 = (iter perm ⟨cfg, e₀ + k⟩).1
    ∧ (iter perm ⟨cfg, e₀ + k⟩).1 = samples cfg (perm (e₀ + k)) := by
  rw [iterMany_state]
  exact ⟨rfl, rfl⟩

/-- The `j`-th list yielded by a sampler started at `e₀` is epoch `e₀ + j`'s. -/
theorem C13_history_lists (perm : Nat → List Nat) (cfg : Config) (e₀ k : Nat) :
    (iterMany perm k ⟨cfg, e₀⟩).1 = (List.range k).map (fun j => samples cfg (perm (e₀ + j))) := by
  induction k generalizing e₀ with
  | zero => rfl
  | succ k ih =>
    simp only [iterMany, iter]
    rw [ih (e₀ + 1), List.range_succ_eq_map]
    simp only [List.map_cons, List.map_map, Nat.add_zero]
    congr 1
    apply List.map_congr_left
    intro j _
    simp only [Function.comp]
    congr 2
    omega

/-! ## Non-vacuity: the hypotheses are met by concrete, non-trivial configurations. -/

example : (⟨7, 6, 1, 3⟩ : Config).Wf := by simp [Config.Wf]
example : init 7 .drop (some (1, 3)) = some ⟨7, 6, 1, 3⟩ := by decide
example : IsOrdering 7 [3, 0, 6, 2, 5, 1, 4] := by unfold IsOrdering; decide
example : samples ⟨7, 6, 1, 3⟩ [3, 0, 6, 2, 5, 1, 4] = [0, 5] := by
  simp [samples, islice, everyNth]
example : samples ⟨7, 7, 0, 3⟩ [3, 0, 6, 2, 5, 1, 4] = [3, 2, 4] := by
  simp [samples, islice, everyNth]
example : len ⟨7, 7, 0, 3⟩ = 3 := by decide

/-! ### Audit: every theorem's hypotheses instantiated TOGETHER on one non-trivial group

`N = 7`, `world = 3` (indivisible: `drop` really drops index `4`, the last entry of the
ordering; `uneven` really gives rank 0 one more index than ranks 1, 2), ordering
`p7 = [3, 0, 6, 2, 5, 1, 4]`. -/

/-- The ordering used by the instances below. -/
def p7 : List Nat := [3, 0, 6, 2, 5, 1, 4]

theorem p7_ordering : IsOrdering 7 p7 := by unfold IsOrdering p7; decide

/-- What the three ranks yield under `drop`: two each, index `4` dropped. -/
theorem C13_drop_instance :
    (List.range 3).map (fun r => samples ⟨7, 6, r, 3⟩ p7) = [[3, 2], [0, 5], [6, 1]] := by
  simp [samples, islice, everyNth, p7, List.range, List.range.loop]

/-- What the three ranks yield under `uneven`: 3 + 2 + 2. -/
theorem C13_uneven_instance :
    (List.range 3).map (fun r => samples ⟨7, 7, r, 3⟩ p7) = [[3, 2, 4], [0, 5], [6, 1]] := by
  simp [samples, islice, everyNth, p7, List.range, List.range.loop]

/-- `init_wf`: both hypotheses hold for rank 1 of 3 under `drop`. -/
theorem C13_init_wf_nonvacuous : (⟨7, 6, 1, 3⟩ : Config).Wf ∧ (⟨7, 6, 1, 3⟩ : Config).total = 7 :=
  init_wf (N := 7) (mode := .drop) (dist := some (1, 3)) (by decide)
    (by intro r w h; cases h; decide)

/-- `C13_len` (hypotheses `Wf` and `perm.length = total`) on the dropping configuration. -/
theorem C13_len_nonvacuous : ((samples ⟨7, 6, 1, 3⟩ p7).length : Int) = len ⟨7, 6, 1, 3⟩ :=
  C13_len ⟨7, 6, 1, 3⟩ p7 C13_init_wf_nonvacuous.1 (by decide)

/-- ... and on a rank beyond the effective total (`N = 1`, rank 1 of 2: yields nothing). -/
theorem C13_len_nonvacuous_empty_rank : ((samples ⟨1, 1, 1, 2⟩ [0]).length : Int) = len ⟨1, 1, 1, 2⟩ :=
  C13_len ⟨1, 1, 1, 2⟩ [0] (by simp [Config.Wf]) (by decide)

/-- `C13_partition` with `eff < length` (something really is dropped). -/
theorem C13_partition_nonvacuous :
    ((List.range 3).flatMap (fun r => samples (withRank ⟨7, 6, 0, 3⟩ r) p7)).Perm (p7.take 6) :=
  C13_partition ⟨7, 6, 0, 3⟩ p7 (by decide) (by decide)

/-- `C13_disjoint`: all of `0 < world`, `eff ≤ length`, `Nodup`, two different ranks `< world`
and a witness `x = 0 ∈` rank 1's list. -/
theorem C13_disjoint_nonvacuous : 0 ∉ samples (withRank ⟨7, 6, 0, 3⟩ 2) p7 :=
  C13_disjoint ⟨7, 6, 0, 3⟩ p7 (by decide) (by decide) (by unfold p7; decide) 1 2
    (by decide) (by decide) (by decide) 0
    (by simp [samples, islice, everyNth, p7, withRank])

/-- `C13_cover_all` (`eff = length`) on the uneven configuration. -/
theorem C13_cover_all_nonvacuous :
    ((List.range 3).flatMap (fun r => samples (withRank ⟨7, 7, 0, 3⟩ r) p7)).Perm p7 :=
  C13_cover_all ⟨7, 7, 0, 3⟩ p7 (by decide) (by decide)

/-- `C13_drop_equal`: `init` really returns the dropping configuration and every rank gets `7 / 3 = 2`. -/
theorem C13_drop_equal_nonvacuous : (samples ⟨7, 6, 1, 3⟩ p7).length = 7 / 3 :=
  C13_drop_equal 7 1 3 (by decide) p7 (by decide) ⟨7, 6, 1, 3⟩ (by decide)

theorem C13_raise_nonvacuous : init 7 .raise (some (1, 3)) = none :=
  C13_raise 7 1 3 (by decide) (by decide)

theorem C13_raise_ok_nonvacuous : init 6 .raise (some (1, 3)) = some ⟨6, 6, 1, 3⟩ :=
  C13_raise_ok 6 1 3 (by decide) (by decide)

/-- `C13_ignore` inside a group of 3: rank 1 still gets the whole epoch. -/
theorem C13_ignore_nonvacuous :
    ∃ c, init 7 .ignore (some (1, 3)) = some c ∧ samples c p7 = p7 :=
  C13_ignore 7 (some (1, 3)) p7 (by decide)

/-- The group theorems: the family of configurations `init` returns for ranks 0, 1, 2 under
`drop` / `uneven` satisfies the `∀ r < w` hypothesis. -/
theorem C13_group_partition_nonvacuous :
    ((List.range 3).flatMap (fun r => samples ⟨7, 6, r, 3⟩ p7)).Perm (p7.take (7 - 7 % 3)) :=
  C13_group_partition 7 3 .drop (by decide) (by decide) p7 (by decide) (fun r => ⟨7, 6, r, 3⟩)
    (by intro r _; simp [init])

theorem C13_group_cover_nonvacuous :
    ((List.range 3).flatMap (fun r => samples ⟨7, 7, r, 3⟩ p7)).Perm (List.range 7) :=
  C13_group_cover 7 3 .uneven (by decide) (by decide) (by decide) p7 p7_ordering
    (fun r => ⟨7, 7, r, 3⟩) (by intro r _; simp [init])

/-- `raise` on a divisible size (`N = 6`, 3 ranks): the `∀ r < w, init … = some _` premise of
`C13_group_cover` is satisfiable for `raise` too. -/
theorem C13_group_cover_nonvacuous_raise :
    ((List.range 3).flatMap (fun r => samples ⟨6, 6, r, 3⟩ [3, 0, 2, 5, 1, 4])).Perm (List.range 6) :=
  C13_group_cover 6 3 .raise (by decide) (by decide) (by decide) _
    (by unfold IsOrdering; decide) (fun r => ⟨6, 6, r, 3⟩) (by intro r _; simp [init])

theorem C13_group_nodup_nonvacuous :
    ((List.range 3).flatMap (fun r => samples ⟨7, 6, r, 3⟩ p7)).Nodup :=
  C13_group_nodup 7 3 .drop (by decide) (by decide) p7 p7_ordering (fun r => ⟨7, 6, r, 3⟩)
    (by intro r _; simp [init])

/-- `C13_history_lists` / `C13_history` on a sampler built at epoch 3 and iterated twice with
an ordering that really changes with the epoch (rotation by the epoch number). -/
example :
    (iterMany (fun e => p7.rotate e) 2 ⟨⟨7, 6, 1, 3⟩, 3⟩).1 = [[5, 3], [1, 0]] := by
  rw [C13_history_lists]
  simp [samples, islice, everyNth, p7, List.range, List.range.loop, List.rotate]

end PdtVerif.EpochSampler
