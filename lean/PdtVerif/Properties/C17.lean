import PdtVerif.Lemmas.CommandLine
import PdtVerif.Lemmas.CommandLineTimed
import PdtVerif.Lemmas.CommandLineCosts
import PdtVerif.Lemmas.CommandLineAudit
import PdtVerif.Lemmas.CommandLineEos
import PdtVerif.Lemmas.CommandLineSubset
import PdtVerif.Properties.C11
/-!
# C17 — command-line conversions invert each other and ignore worker count

Property theorems only (helper lemmas: `Lemmas/CommandLine.lean`; model of the code:
`Model/CommandLine.lean`; declarative side: `Spec/CommandLine.lean`).

All statements hold for every prefix, suffix, utterance id, alignment, token table, batch
size `≥ 1`, delivery order of the worker pool and number of utterances.
-/
set_option linter.unusedSectionVars false
namespace PdtVerif.CommandLine

/-! ## File names (`--file-prefix`, `--file-suffix`) -/
section Names
variable {α : Type} [DecidableEq α]

/-- **C17_names** (1): `utt ↦ file ↦ utt` is the identity and the file is selected, for every
prefix and suffix (empty ones included). -/
theorem C17_names_roundtrip (p s u : List α) :
    selects p s (fileName p s u) = true ∧ uttOf p s (fileName p s u) = u :=
  ⟨selects_fileName p s u, uttOf_fileName p s u⟩

/-- **C17_names** (2): the selected names (of at least `|prefix| + |suffix|` characters) are
exactly the files of utterances. -/
theorem C17_names_selects_iff (p s f : List α) :
    (selects p s f = true ∧ p.length + s.length ≤ f.length) ↔ IsFileOf p s f :=
  selects_iff p s f

/-- **C17_names** (3): two utterances never share a file. -/
theorem C17_names_injective (p s u u' : List α) (h : fileName p s u = fileName p s u') : u = u' :=
  fileName_injective p s h

/-- **C17_names** (4): `file ↦ utt ↦ file` is the identity on everything the directory
listing selects, so a command reading `prefix + utt + suffix` back opens exactly the
selected files, in the directory's order. -/
theorem C17_names (p s : List α) (files : List (List α))
    (hl : ∀ f ∈ files, selects p s f = true → p.length + s.length ≤ f.length) :
    (listedUtts p s files).map (fileName p s) = files.filter (selects p s) :=
  listedUtts_rebuild p s files hl

/-- **C17_names** (5): a directory holding the files of `utts` plus names that do not match
lists exactly `utts`. -/
theorem C17_names_listing (p s : List α) (utts : List (List α)) (junk : List (List α))
    (hj : ∀ f ∈ junk, selects p s f = false) :
    listedUtts p s (utts.map (fileName p s) ++ junk) = utts := by
  rw [listedUtts_append, listedUtts_fileNames, listedUtts_junk p s junk hj, List.append_nil]

/-- The TextGrid commands cut only the suffix: `prefix+utt+tg_suffix ↦ prefix+utt+suffix`. -/
theorem C17_names_textgrid (p s tg u : List α) :
    stemOf tg (fileName p tg u) ++ s = fileName p s u := by
  unfold fileName; rw [stemOf_append]

example : selects "p_".toList ".pt".toList "p_u1.pt".toList = true ∧
    uttOf "p_".toList ".pt".toList "p_u1.pt".toList = "u1".toList := by decide
example : listedUtts "".toList "".toList ["a".toList, "".toList] = ["a".toList, "".toList] := by decide

/-- Non-vacuity of `C17_names_selects_iff`, `C17_names` and `C17_names_listing` on a directory with
a non-empty prefix and suffix, the file of the empty utterance id and junk. -/
example : IsFileOf "p_".toList ".pt".toList "p_u1.pt".toList :=
  (C17_names_selects_iff _ _ _).1 (by decide)
example : (listedUtts "p_".toList ".pt".toList
      ["p_u1.pt".toList, "notes.txt".toList, "p_.pt".toList, "q_u2.pt".toList]).map
      (fileName "p_".toList ".pt".toList) = ["p_u1.pt".toList, "p_.pt".toList] := by
  rw [C17_names _ _ _ (by decide)]; decide
example : listedUtts "p_".toList ".pt".toList
    (["u1".toList, "".toList].map (fileName "p_".toList ".pt".toList) ++
      ["notes.txt".toList, "p_x.txt".toList]) = ["u1".toList, "".toList] :=
  C17_names_listing _ _ _ _ (by decide)

/-- **C17_names_counterexample** — the pinned filter of the two ali<->token commands
(`startswith(prefix) and endswith(prefix)`): a file of utterance `u1` under prefix `p_` is NOT
selected, and under the default empty prefix a `.txt` file IS selected although the suffix
is `.pt`. Replayed on the implementation by `corpus/C17/prefix-selects-nothing.json` and
`default-prefix-ignores-suffix.json`. -/
theorem C17_names_counterexample :
    selectsPinned "p_".toList ".pt".toList (fileName "p_".toList ".pt".toList "u1".toList) = false ∧
    selectsPinned "".toList ".pt".toList "b.txt".toList = true ∧
    selects "".toList ".pt".toList "b.txt".toList = false := by decide

/-- With the empty prefix the pinned filter selects every file. -/
theorem C17_names_pinned_empty_prefix (s f : List α) : selectsPinned [] s f = true := by
  simp [selectsPinned, List.isPrefixOf, List.isSuffixOf]

/-- What the pinned filter does get right (`_partial`): whenever the suffix equals the prefix
(both empty, or e.g. `--file-prefix _s --file-suffix _s`) it agrees with the intended one.
Definitional (`rfl`): the pinned filter IS the intended one with the suffix replaced by the
prefix; kept as the statement of where the pinned commands were right. -/
theorem C17_names_pinned_partial (p f : List α) : selectsPinned p p f = selects p p f := rfl

example : selectsPinned "_s".toList "_s".toList "_su1_s".toList = true ∧
    selects "_s".toList "_s".toList "_su1_s".toList = true := by decide

/-- **C17_names_overlap_counterexample** — the length hypothesis of `C17_names_selects_iff`
is needed: `aba` starts with `ab` and ends with `ba` but is no `ab ++ u ++ ba`; the listing
reports utterance `""`, whose file `abba` does not exist
(`corpus/C17/overlapping-prefix-suffix.json`, known finding). -/
theorem C17_names_overlap_counterexample :
    selects "ab".toList "ba".toList "aba".toList = true ∧
    ¬ IsFileOf "ab".toList "ba".toList "aba".toList ∧
    fileName "ab".toList "ba".toList (uttOf "ab".toList "ba".toList "aba".toList) = "abba".toList := by
  refine ⟨by decide, ?_, by decide⟩
  rintro ⟨u, hu⟩
  have := congrArg List.length hu
  simp at this

end Names

/-! ## Run-length coding: alignments <-> (token, start, end) segments -/
section Rle
variable {τ : Type} [DecidableEq τ]

/-- **C17_rle** (1): expanding the runs of an alignment gives the alignment back — for EVERY
alignment, the empty one included. -/
theorem C17_rle_expand (ali : List τ) : expand (lensOf (encode ali)) = ali := by
  unfold encode; rw [lensOf_segsFrom, expand_runs]

/-- **C17_rle** (2): `ali -> token dir -> ali` is the identity on every non-empty alignment,
with or without the frame-count check of `--feat-dir`. -/
theorem C17_rle (ali : List τ) (h : ali ≠ []) :
    decode true (encode ali) none = .ok ali ∧
      decode true (encode ali) (some (ali.length : Int)) = .ok ali :=
  decode_encode ali h

/-- **C17_rle** (3): a zero-frame alignment becomes a token tensor with `R = 0` rows, which the
inverse command refuses (`ValueError`, "invalid size"; the documentation asks for `R ≥ 1`). -/
theorem C17_rle_empty (T : Option Int) :
    decode true (encode ([] : List τ)) T = .error .invalidSize := rfl

/-- **C17_rle** (4): what `token dir -> ali` accepts and produces: exactly the non-empty
segment lists that tile `[0, T)`; the result repeats each token over its segment. -/
theorem C17_rle_decode (ref : List (Seg τ)) (T : Option Int) (ali : List τ) :
    decode true ref T = .ok ali ↔
      (ref ≠ [] ∧ Tiles 0 ref ∧ framesMismatch ref T = false ∧ ali = expand (lensOf ref)) :=
  decode_eq_ok_iff ref T ali

/-- **C17_rle** (5): `token dir -> ali -> token dir` reproduces the segments iff adjacent
tokens differ and no segment is empty (tiling is what `decode` checked). -/
theorem C17_rle_encode_decode (ref : List (Seg τ)) (T : Option Int) (ali : List τ)
    (h : decode true ref T = .ok ali) : encode ali = ref ↔ SegCanon ref :=
  encode_decode_iff h

/-- The segments written by `ali -> token dir` are always of that kind. -/
theorem C17_rle_encode_canon (ali : List τ) : SegCanon (encode ali) ∧ Tiles 0 (encode ali) := by
  refine ⟨?_, tiles_segsFrom 0 _⟩
  rw [← canon_lensOf]; unfold encode; rw [lensOf_segsFrom]; exact runs_canon ali

example : encode [1, 1, 2, 2, 2, 3] = [⟨1, 0, 2⟩, ⟨2, 2, 5⟩, ⟨3, 5, 6⟩] := by decide
example : decode true [⟨1, 0, 2⟩, ⟨1, 2, 3⟩, ⟨2, 3, 3⟩] (some 3) = .ok [(1 : Int), 1, 1] ∧
    encode [(1 : Int), 1, 1] = [(⟨1, 0, 3⟩ : Seg Int)] := ⟨rfl, by decide⟩
example : decode true [⟨(1 : Int), 0, 2⟩, ⟨2, 2, 1⟩] none = .error .negativeRepeat := rfl

/-- `C17_rle` applied (three runs, with and without the frame count of `--feat-dir`), and the
positive direction of `C17_rle_encode_decode` on canonical segments. -/
example : decode true (encode [(1 : Int), 1, 2, 2, 2, 3]) none = .ok [1, 1, 2, 2, 2, 3] :=
  (C17_rle _ (by decide)).1
example : decode true (encode [(1 : Int), 1, 2, 2, 2, 3]) (some 6) = .ok [1, 1, 2, 2, 2, 3] :=
  (C17_rle [(1 : Int), 1, 2, 2, 2, 3] (by decide)).2
example : encode [(1 : Int), 1, 2] = [⟨1, 0, 2⟩, ⟨2, 2, 3⟩] :=
  (C17_rle_encode_decode [⟨1, 0, 2⟩, ⟨2, 2, 3⟩] (some 3) [1, 1, 2] rfl).2 (by simp [SegCanon])

end Rle

/-! ## Whole directories: ali dir -> token dir -> ali dir -/
section Alignments
variable {α τ : Type} [DecidableEq α] [DecidableEq τ]

/-- **C17_alignments**: for every prefix and suffix, every directory (distinct names) whose
selected alignments are non-empty, and every order in which the two pools handle the files:
`torch-ali-data-dir-to-torch-token-data-dir` followed by its inverse succeeds, and the final
directory holds under each selected name exactly the original alignment and nothing under
any other name. (Names + run-length coding + order independence in one statement; the
repaired filter.) -/
theorem C17_alignments (p s : List α) (dir : Dir (List α) (List τ))
    (hn : (dir.map (·.1)).Nodup) (hne : ∀ e ∈ selectedEntries p s dir, e.2 ≠ [])
    (delivered₁ : List (List α × List τ)) (h₁ : delivered₁.Perm (selectedEntries p s dir))
    (delivered₂ : List (List α × List (Seg τ)))
    (h₂ : delivered₂.Perm (selectedEntries p s (aliToTokCmd delivered₁))) :
    ∃ out, tokToAliCmd delivered₂ = .ok out ∧
      ∀ n, out.get n = (selectedEntries p s dir).get n :=
  alidir_roundtrip p s dir hn hne delivered₁ h₁ delivered₂ h₂

example : tokToAliCmd (selectedEntries "p_".toList ".pt".toList
    (aliToTokCmd [("p_u.pt".toList, [(1 : Int), 1, 2])])) = .ok [("p_u.pt".toList, [1, 1, 2])] := rfl

/-- All hypotheses of `C17_alignments` together: prefix `p_`, suffix `.pt`, two selected files
and one that is not, the first pool delivers in reverse order, the second in yet another. -/
example : ∃ out, tokToAliCmd [("p_b.pt".toList, encode [(3 : Int), 3]),
      ("p_a.pt".toList, encode [1, 1, 2])] = .ok out ∧
    ∀ n, out.get n = (selectedEntries "p_".toList ".pt".toList
      [("p_a.pt".toList, [(1 : Int), 1, 2]), ("notes.txt".toList, [7]),
        ("p_b.pt".toList, [3, 3])]).get n :=
  C17_alignments "p_".toList ".pt".toList _ (by decide) (by decide)
    [("p_b.pt".toList, [3, 3]), ("p_a.pt".toList, [1, 1, 2])] (List.Perm.swap _ _ _) _
    (List.Perm.swap _ _ _)

end Alignments

/-! ## The worker pattern: any delivery order gives the same result -/
section Perm
variable {ι ρ κ ν : Type} [DecidableEq κ]

/-- **C17_perm** (1): whatever order the pool delivers in, the multiset of results is that
of the serial run. (That `imap_unordered` delivers each item exactly once is trusted.)
Definitional (`List.Perm.map` on `poolResults = map`): documentation of the trusted assumption,
NOT counted as an obligation. -/
theorem C17_perm_results (doWork : ι → ρ) (items delivered : List ι) (h : delivered.Perm items) :
    (poolResults doWork delivered).Perm (poolResults doWork items) :=
  h.map doWork

/-- **C17_perm** (2): every file of the output directory has the same content whatever the
delivery order, provided no two items write the same file (guaranteed for distinct
utterances by `C17_names_injective`). -/
theorem C17_perm (d : Dir κ ν) (writes delivered : List (κ × ν)) (h : delivered.Perm writes)
    (hn : (writes.map (·.1)).Nodup) (k : κ) :
    (d.writeAll delivered).get k = (d.writeAll writes).get k := by
  have hn' : (delivered.map (·.1)).Nodup := (h.map _).nodup_iff.2 hn
  rw [get_writeAll d delivered hn', get_writeAll d writes hn, lookup_perm h hn']

/-- Content of the output directory after a run with distinct file names. -/
theorem C17_perm_content (d : Dir κ ν) (writes : List (κ × ν)) (hn : (writes.map (·.1)).Nodup)
    (k : κ) : (d.writeAll writes).get k =
      match writes.lookup k with
      | some v => some v
      | none => d.get k :=
  get_writeAll d writes hn k

/-- File names of distinct utterances are distinct, so the hypothesis of `C17_perm` holds
for every command that writes `prefix + utt + suffix`. -/
theorem C17_perm_names_nodup {α : Type} [DecidableEq α] (p s : List α) (utts : List (List α))
    (h : utts.Nodup) : (utts.map (fileName p s)).Nodup :=
  List.pairwise_map.2 (h.imp (fun hne e => hne (fileName_injective p s e)))

/-- The order matters when two items write the same file (duplicate utterance ids in a trn
file): the hypothesis cannot be dropped. -/
theorem C17_perm_needs_distinct :
    (Dir.writeAll ([] : Dir Nat Nat) [(0, 1), (0, 2)]).get 0 ≠
      (Dir.writeAll ([] : Dir Nat Nat) [(0, 2), (0, 1)]).get 0 := by decide

example : (Dir.writeAll ([] : Dir Nat Nat) [(0, 1), (5, 2)]).get 5 =
    (Dir.writeAll ([] : Dir Nat Nat) [(5, 2), (0, 1)]).get 5 := by decide

/-- `C17_perm` applied: three writes into a directory that already holds a file, delivered in a
rotated order. -/
example : (Dir.writeAll ([(9, 9)] : Dir Nat Nat) [(7, 3), (0, 1), (5, 2)]).get 5 =
    (Dir.writeAll [(9, 9)] [(0, 1), (5, 2), (7, 3)]).get 5 :=
  C17_perm _ [(0, 1), (5, 2), (7, 3)] [(7, 3), (0, 1), (5, 2)] (by decide) (by decide) 5

end Perm

/-! ## Pooled moments -/
section Moments

/-- **C17_moments** (1): `(s, ss, c)` do not depend on the order in which per-file results
arrive. -/
theorem C17_moments (rs delivered : List Mom) (h : delivered.Perm rs) :
    sumMoms delivered = sumMoms rs :=
  foldl_perm Mom.add Mom.add_right_comm h Mom.zero

/-- **C17_moments** (2): the accumulated `(s, ss, c)` are the moments of all lengths of all
files taken together. -/
theorem C17_moments_pooled (lens : List (List Int)) :
    sumMoms (lens.map momOf) = momOf lens.flatten := by
  unfold sumMoms
  rw [foldl_add_momOf]
  simp [Mom.add, Mom.zero, momOf]

/-- **C17_moments** (3): the printed mean is `Σx / n` and the printed variance `Σx²/n − mean²`
(times `n/(n−1)` with `--bessel`) of the pooled sample; "n/a" for an empty sample. This restates
the formula of `_do_mv_printing` (the model unfolded; NOT counted as an obligation); that the
formula is the variance is `C17_moments_variance`. -/
theorem C17_moments_print (bessel : Bool) (xs : List Int) :
    mvPrint bessel (momOf xs) =
      if xs.length = 0 then none
      else
        let n : Rat := xs.length
        let mean : Rat := ((xs.sum : Int) : Rat) / n
        let var : Rat := (((xs.map (fun x => x * x)).sum : Int) : Rat) / n - mean * mean
        if bessel ∧ xs.length = 1 then some (mean, none)
        else some (mean, some (if bessel then var * (n / (n - 1)) else var)) := by
  unfold mvPrint momOf
  by_cases h0 : xs.length = 0
  · simp [h0]
  · by_cases h1 : xs.length = 1 <;> cases bessel <;> simp [h0, h1]

/-- **C17_moments_variance** — `C17_moments_print` restates the formula of the code; this is what
the formula MEANS: without `--bessel` the printed variance of a non-empty pooled sample is the
mean squared deviation from the printed mean, `Σ (x − mean)² / n`; with `--bessel` (and `n ≥ 2`)
it is `Σ (x − mean)² / (n − 1)`. -/
theorem C17_moments_variance (bessel : Bool) (xs : List Int) (h : (if bessel then 2 else 1) ≤ xs.length) :
    let n : Rat := xs.length
    let mean : Rat := ((xs.sum : Int) : Rat) / n
    mvPrint bessel (momOf xs) = some (mean, some
      ((xs.map (fun (x : Int) => ((x : Rat) - mean) * ((x : Rat) - mean))).sum
        / (if bessel then n - 1 else n))) := by
  intro n mean
  have hn1 : 1 ≤ xs.length := by cases bessel <;> simp at h <;> omega
  have hn0 : (n : Rat) ≠ 0 := by
    have : (0 : Rat) < n := by
      show (0 : Rat) < ((xs.length : Nat) : Rat)
      exact_mod_cast hn1
    exact ne_of_gt this
  rw [C17_moments_print, sum_sq_shift mean xs]
  have hl0 : ¬ xs.length = 0 := by omega
  cases bessel with
  | false =>
    simp only [hl0, if_false, Bool.false_eq_true, false_and]
    congr 3
    show _ = (_ - 2 * mean * _ + n * mean * mean) / n
    have hm : ((xs.sum : Int) : Rat) = mean * n := by
      show _ = ((xs.sum : Int) : Rat) / n * n
      field_simp
    rw [hm]
    field_simp
    ring
  | true =>
    have h2 : 2 ≤ xs.length := by simpa using h
    have hl1 : ¬ xs.length = 1 := by omega
    have hn1' : (n : Rat) - 1 ≠ 0 := by
      have : (1 : Rat) < n := by
        show (1 : Rat) < ((xs.length : Nat) : Rat)
        exact_mod_cast h2
      linarith
    simp only [hl0, hl1, if_false, if_true, and_false]
    congr 3
    show _ = (_ - 2 * mean * _ + n * mean * mean) / (n - 1)
    have hm : ((xs.sum : Int) : Rat) = mean * n := by
      show _ = ((xs.sum : Int) : Rat) / n * n
      field_simp
    rw [hm]
    simp only [show ((xs.length : Nat) : Rat) = n from rfl]
    field_simp
    ring

example : mvPrint false (momOf [1, 2, 6]) = some (3, some (14 / 3)) ∧
    mvPrint true (momOf [1, 2, 6]) = some (3, some 7) := by decide +kernel

/-- Per-file moments of the ali command: run lengths of the runs that are not excluded. -/
theorem C17_moments_ali (excl : List Int) (alis delivered : List (List Int))
    (h : delivered.Perm alis) :
    sumMoms (delivered.map (fun a => momOf (aliLens excl a))) =
      momOf (alis.flatMap (aliLens excl)) := by
  rw [C17_moments _ _ (h.map _)]
  have : alis.map (fun a => momOf (aliLens excl a)) = (alis.map (aliLens excl)).map momOf := by
    rw [List.map_map]; rfl
  rw [this, C17_moments_pooled, List.flatMap_def]

/-- Same for the ref command: lengths `end - start` of the valid, not excluded rows. -/
theorem C17_moments_ref (excl : List Int) (refs delivered : List (List (Seg Int)))
    (h : delivered.Perm refs) :
    sumMoms (delivered.map (fun r => momOf (refLens excl r).1)) =
      momOf (refs.flatMap (fun r => (refLens excl r).1)) := by
  rw [C17_moments _ _ (h.map _)]
  have : refs.map (fun r => momOf (refLens excl r).1) =
      (refs.map (fun r => (refLens excl r).1)).map momOf := by
    rw [List.map_map]; rfl
  rw [this, C17_moments_pooled, List.flatMap_def]

/-- MVN statistics: accumulating file after file is accumulating all their feature vectors
at once (count, per-coordinate sum and sum of squares are pooled). -/
theorem C17_mvn_pooled (m : Option VMom) (v₁ v₂ : List (List Rat)) (F : Nat) :
    VMom.accumulate (some (VMom.accumulate m v₁ F)) v₂ F = VMom.accumulate m (v₁ ++ v₂) F := by
  simp [VMom.accumulate, List.foldl_append]

example : sumMoms [momOf [1, 2], momOf [3]] = ⟨6, 14, 3⟩ := by decide
example : aliLens [2] [1, 1, 2, 2, 2, 3] = [2, 1] := by decide

/-- `C17_moments` / `C17_moments_ali` applied to two files delivered in the other order, one run
excluded. -/
example : sumMoms [momOf [3], momOf [1, 2]] = sumMoms [momOf [1, 2], momOf [3]] :=
  C17_moments _ _ (List.Perm.swap _ _ _)
example : sumMoms ([[1, 1, 2], [2, 2, 2, 3]].map (fun a => momOf (aliLens [3] a))) = ⟨6, 14, 3⟩ := by
  rw [C17_moments_ali [3] [[2, 2, 2, 3], [1, 1, 2]] _ (List.Perm.swap _ _ _)]; decide

end Moments

/-! ## Error rates -/
section ErrorRates
variable {τ υ : Type} [DecidableEq τ]

/-- **C17_er_total** (1): replace-then-ignore is `map` then `filter`. -/
theorem C17_er_prep (rep : List (τ × τ)) (ign tr : List τ) :
    prep rep ign tr = (tr.map (replaceTok rep)).filter (fun t => !ign.contains t) :=
  prep_eq rep ign tr

/-- **C17_er_total** (2): the repaired command writes `Σ edits / Σ |ref|` (or
`Σ edits / #utts`, or the per-utterance lines) — `erSpec`, in which no batch size occurs —
for every batch size `≥ 1`. `er` is `error_rate` on the interned ids, `er'` the same count
on the tokens (`Relabels`: the count does not depend on the numbering of the tokens). -/
theorem C17_er_total (er : List Nat → List Nat → Nat) (er' : List τ → List τ → Nat)
    (hrel : Relabels er er') (distances perUtt : Bool) (batchSize : Nat) (hb : 1 ≤ batchSize)
    (pairs : List (Pair υ τ)) :
    erCommand er distances perUtt batchSize pairs = erSpec er' distances perUtt pairs := by
  unfold erCommand report erSpec
  rw [accAll_eq er er' hrel _ batchSize hb pairs]
  cases perUtt <;> cases distances <;> simp only [Bool.true_and, Bool.false_and, Bool.not_false,
    Bool.not_true, Bool.and_false, Bool.false_eq_true, if_false, if_true, List.length_map] <;> rfl

/-- Batch-size independence, stated on its own. -/
theorem C17_er_batch (er : List Nat → List Nat → Nat) (er' : List τ → List τ → Nat)
    (hrel : Relabels er er') (distances perUtt : Bool) (b₁ b₂ : Nat) (h₁ : 1 ≤ b₁) (h₂ : 1 ≤ b₂)
    (pairs : List (Pair υ τ)) :
    erCommand er distances perUtt b₁ pairs = erCommand er distances perUtt b₂ pairs := by
  rw [C17_er_total er er' hrel _ _ _ h₁, C17_er_total er er' hrel _ _ _ h₂]

/-- **C17_er_total_partial** — the pinned command: it agrees with the spec unless a reference
is empty and `--distances` is off; then it raises whatever the mode. -/
theorem C17_er_total_partial (er : List Nat → List Nat → Nat) (er' : List τ → List τ → Nat)
    (hrel : Relabels er er') (distances perUtt : Bool) (batchSize : Nat) (hb : 1 ≤ batchSize)
    (pairs : List (Pair υ τ)) :
    erCommandPinned er distances perUtt batchSize pairs =
      if !distances && pairs.any (fun p => p.2.1.length == 0) then .zeroDiv
      else erSpec er' distances perUtt pairs := by
  unfold erCommandPinned report erSpec
  rw [accAll_eq er er' hrel _ batchSize hb pairs]
  cases perUtt <;> cases distances <;> simp

/-- When both directories hold the same utterances the merge pairs them position by position
(with or without `--warn-missing`), so `erFromDirs` is `erCommand` on the prepared pairs.
(General case: `C17_er_missing`.) -/
theorem C17_er_missing_none {β : Type} (lt : υ → υ → Bool) (hirr : ∀ a, lt a a = false) (warn : Bool)
    (refs hyps : List (υ × β)) (h : refs.map (·.1) = hyps.map (·.1)) :
    alignPairs lt warn (refs.length + hyps.length + 1) refs hyps =
      some (List.zipWith (fun r h => (r.1, r.2, h.2)) refs hyps) :=
  alignPairs_same lt hirr warn refs hyps h _ (by omega)

/-- **C17_er_missing**: with `--warn-missing` the merge keeps exactly the utterances present in
both directories (ids strictly sorted, as `_DirectoryDataset` lists them; `lt` a strict total
order). Without the flag a missing utterance is a `ValueError` (`alignPairs_missing_raises`). -/
theorem C17_er_missing {β : Type} (lt : υ → υ → Bool) (hirr : ∀ a, lt a a = false)
    (htrans : ∀ a b c, lt a b = true → lt b c = true → lt a c = true)
    (htri : ∀ a b, lt a b = false → lt b a = false → a = b)
    (refs hyps : List (υ × β)) (hr : StrictSorted lt refs) (hh : StrictSorted lt hyps) :
    ∃ out, alignPairs lt true (refs.length + hyps.length + 1) refs hyps = some out ∧
      ∀ u r h, (u, r, h) ∈ out ↔ ((u, r) ∈ refs ∧ (u, h) ∈ hyps) :=
  alignPairs_common lt hirr htrans htri _ refs hyps hr hh (Nat.le_refl _)

/-- **C17_er_command**: the whole (repaired) command from two loaded directories with
`--warn-missing`: the figure written is `erSpec` — `Σ edits / Σ |ref|` resp. its variants —
over exactly the common utterances, after replace-then-ignore on both sides, for every
batch size. -/
theorem C17_er_command (lt : υ → υ → Bool) (hirr : ∀ a, lt a a = false)
    (htrans : ∀ a b c, lt a b = true → lt b c = true → lt a c = true)
    (htri : ∀ a b, lt a b = false → lt b a = false → a = b)
    (er : List Nat → List Nat → Nat) (er' : List τ → List τ → Nat) (hrel : Relabels er er')
    (rep : List (τ × τ)) (ign : List τ) (distances perUtt : Bool) (batchSize : Nat)
    (hb : 1 ≤ batchSize) (refs hyps : List (υ × List τ))
    (hr : StrictSorted lt refs) (hh : StrictSorted lt hyps) :
    ∃ common : List (υ × List τ × List τ),
      (∀ u r h, (u, r, h) ∈ common ↔ ((u, r) ∈ refs ∧ (u, h) ∈ hyps)) ∧
      erFromDirs lt er rep ign true distances perUtt false batchSize refs hyps =
        some (erSpec er' distances perUtt
          (common.map (fun (u, r, h) => (u, prep rep ign r, prep rep ign h)))) := by
  obtain ⟨out, ho, hm⟩ := C17_er_missing lt hirr htrans htri refs hyps hr hh
  refine ⟨out, hm, ?_⟩
  unfold erFromDirs
  rw [ho]
  simp only [Option.map_some, Bool.false_eq_true, if_false]
  rw [C17_er_total er er' hrel distances perUtt batchSize hb]

/-- The tokens of a run are numbered injectively: two tokens get the same id iff they are
the same token (the `defaultdict` never reuses an id). -/
theorem C17_er_intern_injective (ls : List (List τ)) (a b : τ)
    (ha : ∃ l ∈ ls, a ∈ l)
    (h : (internMany [] ls).2.idxOf a = (internMany [] ls).2.idxOf b) : a = b := by
  obtain ⟨_, _, h3, _⟩ := internMany_spec [] ls List.nodup_nil
  obtain ⟨l, hl, hal⟩ := ha
  exact idxOf_inj_of_mem (h3 l hl a hal) h

end ErrorRates

/-! ## The `eos` / `padding` sentinels of the error-rate command -/
section Sentinels
variable {τ υ : Type} [DecidableEq τ]

/-- **C17_er_intern_sentinels** — the renumbering makes the two local sentinels of the command
(`eos = -1`, `padding = -2`) unreachable, for tokens of ANY type — stored ids of either sign, `-1`,
`-2`, `-100`, the ends of `int64`, or strings after `--id2token`: every id the `defaultdict` hands
out (from any table reached so far, `st.Nodup`) is a position of the table afterwards, so as a tensor
entry it is neither `eos` nor `padding`. (Injectivity of the renumbering: `C17_er_intern_injective`,
also for every token type.) -/
theorem C17_er_intern_sentinels (st : List τ) (hn : st.Nodup) (ls : List (List τ)) :
    ∀ is ∈ (internMany st ls).1, ∀ i ∈ is,
      i < (internMany st ls).2.length ∧ Int.ofNat i ≠ erEos ∧ Int.ofNat i ≠ erPad :=
  fun is his i hi => ⟨internMany_lt st ls hn is his i hi, ofNat_ne_sentinels i⟩

/-- **C17_er_column_read** — a column `seq + [eos]` padded with `padding` is read back by
`error_rate(eos=-1, include_eos=False)` as `seq` IF AND ONLY IF `seq` does not contain `-1`: the
sequence is cut at its first `-1` otherwise. (Whatever the height `T`; `-2` inside `seq` is harmless.) -/
theorem C17_er_column_read (T : Nat) (ids : List Int) :
    erRead (erColumn T ids) = ids ↔ ∀ i ∈ ids, i ≠ erEos :=
  erRead_erColumn_iff T ids

/-- **C17_er_tensor_read** — one pass of the loop, tokens of any type and sign: what `error_rate`
reads from the columns of `ref` and of `hyp` are exactly the renumbered references and hypotheses of
the batch (the lists `accBatch` applies `er` to), in order, and the table carried to the next batch is
`accBatch`'s. So no stored id can end a sequence early or pass for padding. -/
theorem C17_er_tensor_read (table : List τ) (batch : List (Pair υ τ)) :
    (batchTensors table batch).1.1.map erRead =
        (internMany table (batch.map (·.2.1))).1.map (·.map Int.ofNat) ∧
      (batchTensors table batch).1.2.map erRead =
        (internMany (internMany table (batch.map (·.2.1))).2 (batch.map (·.2.2))).1.map
          (·.map Int.ofNat) ∧
      (batchTensors table batch).2 =
        (internMany (internMany table (batch.map (·.2.1))).2 (batch.map (·.2.2))).2 :=
  batchTensors_read table batch

end Sentinels

/-- **C17_er_raw_ids_counterexample** — the renumbering is necessary: with the stored ids themselves in
the tensor, reference `[3, -1, 2]` and hypothesis `[3, -1, 1]` (one substitution) are both read as
`[3]` (0 edits), and `[-1]` against the empty reference is read as `[]`; renumbered, the same
reference is `[0, 1, 2]` and reads back whole. -/
theorem C17_er_raw_ids_counterexample :
    erRead (erColumn 4 [3, -1, 2]) = [3] ∧ erRead (erColumn 4 [3, -1, 1]) = [3] ∧
      erRead (erColumn 2 [-1]) = [] ∧
      erRead (erColumn 4 ((internSeq ([] : List Int) [3, -1, 2]).1.map Int.ofNat)) = [0, 1, 2] := by
  decide

/-- Negative ids, all hypotheses of `C17_er_intern_sentinels` / `C17_er_intern_injective` at once: a table
that already holds `-1` and `7`, then the sequences `[-2, -1, -100]` and `[7, -2]`. -/
example : (internMany ([-1, 7] : List Int) [[-2, -1, -100], [7, -2]]).1 = [[2, 0, 3], [1, 2]] := by decide
example : ∀ is ∈ (internMany ([-1, 7] : List Int) [[-2, -1, -100], [7, -2]]).1, ∀ i ∈ is,
    i < (internMany ([-1, 7] : List Int) [[-2, -1, -100], [7, -2]]).2.length ∧
      Int.ofNat i ≠ erEos ∧ Int.ofNat i ≠ erPad :=
  C17_er_intern_sentinels _ (by decide) _
example : (batchTensors ([] : List Int) [((0 : Nat), [3, -1, 2], [3, -1, 1]), (1, [-2], [])]).1 =
    ([[0, 1, 2, -1], [3, -1, -2, -2]], [[0, 1, 4, -1], [-1, -2, -2, -2]]) := by decide


/-- A count that only looks at which tokens are equal satisfies `Relabels`; the simplest
non-trivial instance (0 if the sequences are equal, else 1). An instance, not a clause of the
property: NOT counted as an obligation. -/
theorem relabels_example : Relabels (τ := Nat) (fun r h => if r = h then 0 else 1)
    (fun r h => if r = h then 0 else 1) := by
  intro f r h hinj
  have key : ∀ (r h : List Nat), (∀ a ∈ r ++ h, ∀ b ∈ r ++ h, f a = f b → a = b) →
      (r.map f = h.map f ↔ r = h) := by
    intro r
    induction r with
    | nil => intro h _; cases h <;> simp
    | cons x xs ih =>
      intro h hinj
      cases h with
      | nil => simp
      | cons y ys =>
        simp only [List.map_cons, List.cons.injEq]
        have hxy : f x = f y ↔ x = y :=
          ⟨hinj x (by simp) y (by simp), fun e => by rw [e]⟩
        rw [hxy, ih ys (fun a ha b hb => hinj a (by
          rcases List.mem_append.1 ha with h | h <;> simp [h]) b (by
          rcases List.mem_append.1 hb with h | h <;> simp [h]))]
  by_cases e : r = h
  · simp [e]
  · have : ¬ r.map f = h.map f := fun e' => e ((key r h hinj).1 e')
    simp [e, this]

/-- The unit-cost Levenshtein distance (the oracle the driver uses for the default costs)
satisfies `Relabels`: the hypothesis of `C17_er_total` holds for the count the command
really uses. For other costs `error_rate` is C02's subject; the harness re-derives its value
pair by pair. -/
theorem C17_er_relabels_lev (c : PdtVerif.Lev.Costs) {τ : Type} [DecidableEq τ] :
    Relabels (τ := τ) (fun r h => (PdtVerif.Lev.lev c r h).floor.toNat)
      (fun r h => (PdtVerif.Lev.lev c r h).floor.toNat) := by
  intro f r h hinj
  simp only [lev_map_injOn c f r h hinj]

/-- **C17_er_relabels_costs**: for EVERY cost triple, the count C02's model of
`error_rate(norm=False, ins_cost, del_cost, sub_cost)` returns for a pair (paired cost/mistakes
table with the code's tie-breaking, or the uniform-cost shortcut) does not depend on how the
command numbered the tokens: the hypothesis `Relabels` of `C17_er_total` / `C17_er_batch` /
`C17_er_command` holds for the count the command really adds up, non-unit costs included. -/
theorem C17_er_relabels_costs (c : PdtVerif.Lev.Costs) {τ : Type} [DecidableEq τ] :
    Relabels (τ := τ) (erC02 c) (erC02 c) := by
  intro f r h hinj
  unfold erC02
  rw [errorRateCol_plain, errorRateCol_plain, valueAt_map c f r h hinj]

/-- What that count is (C02): the number of edits of some minimum-cost alignment of the two
token sequences; the plain Levenshtein distance when the three costs are equal and positive. -/
theorem C17_er_costs_count (c : PdtVerif.Lev.Costs) {τ : Type} [DecidableEq τ] (r h : List τ) :
    PdtVerif.ErrorRate.CountOfOptimal c r h (erC02 c r h) ∧
      (c.ins = c.del → c.del = c.sub → 0 < c.sub →
        ((erC02 c r h : Nat) : Rat) = PdtVerif.Lev.lev PdtVerif.Lev.unitCosts r h) := by
  obtain ⟨⟨m, hv, hc⟩, hs⟩ := PdtVerif.ErrorRate.valueAt_spec c r r.length (le_refl _) h
  rw [List.take_length] at hc hs
  have e : erC02 c r h = m := by
    unfold erC02
    rw [errorRateCol_plain, hv]
    have : ((m : Nat) : Rat) = ((m : Int) : Rat) := by push_cast; rfl
    rw [this, Rat.floor_intCast]; simp
  rw [e]
  refine ⟨hc, fun h1 h2 h3 => ?_⟩
  rw [← hv]
  exact hs ((PdtVerif.ErrorRate.useShortcut_iff c).2 ⟨h1, h2, h3⟩)

/-- **C17_er_total_costs**: the (repaired) error-rate command with `--costs i d s` (any triple)
writes `erSpec` — `Σ edits / Σ |ref|`, `Σ edits / #utts` with `--distances`, or the per-utterance
lines — where the edits of a pair are C02's count on the TOKENS of the pair: the number of edits
of a minimum-cost alignment, for every batch size `≥ 1`, whatever ids the interning handed out. -/
theorem C17_er_total_costs {τ υ : Type} [DecidableEq τ] (c : PdtVerif.Lev.Costs)
    (distances perUtt : Bool) (batchSize : Nat) (hb : 1 ≤ batchSize) (pairs : List (Pair υ τ)) :
    erCommand (erC02 c) distances perUtt batchSize pairs = erSpec (erC02 c) distances perUtt pairs ∧
      ∀ p ∈ pairs, PdtVerif.ErrorRate.CountOfOptimal c p.2.1 p.2.2 (erC02 c p.2.1 p.2.2) :=
  ⟨C17_er_total (erC02 c) (erC02 c) (C17_er_relabels_costs c) distances perUtt batchSize hb pairs,
    fun p _ => (C17_er_costs_count c p.2.1 p.2.2).1⟩

/-- Non-unit costs on a concrete pair: insertions and deletions at 1, substitutions at 3 — the
cheapest way from `[1, 2]` to `[1, 3]` is a deletion and an insertion (2 edits, cost 2), not the
substitution (1 edit, cost 3). -/
example : erC02 ⟨1, 1, 3⟩ [1, 2] [1, 3] = 2 ∧ erC02 ⟨1, 1, 1⟩ [1, 2] [1, 3] = 1 := by decide +kernel

deriving instance DecidableEq for ErOut

/-- All hypotheses of `C17_er_total` / `C17_er_batch` together (`Relabels` for C02's count, batch
sizes 1 and 2 on three utterances that share tokens across batches): the theorem applied, and the
value both sides have — 2 edits over 6 reference tokens. -/
example : erCommand (erC02 ⟨1, 1, 1⟩) false false 2
      [((1 : Nat), [(7 : Nat), 8, 9], [7, 9]), (2, [8], [8, 8]), (3, [9, 7], [9, 7])] =
    erSpec (erC02 ⟨1, 1, 1⟩) false false
      [((1 : Nat), [(7 : Nat), 8, 9], [7, 9]), (2, [8], [8, 8]), (3, [9, 7], [9, 7])] :=
  C17_er_total _ _ (C17_er_relabels_costs _) _ _ 2 (by decide) _
example :
    erCommand (erC02 ⟨1, 1, 1⟩) false false 2
      [((1 : Nat), [(7 : Nat), 8, 9], [7, 9]), (2, [8], [8, 8]), (3, [9, 7], [9, 7])] = .total (1 / 3) ∧
    erCommand (erC02 ⟨1, 1, 1⟩) false false 1
      [((1 : Nat), [(7 : Nat), 8, 9], [7, 9]), (2, [8], [8, 8]), (3, [9, 7], [9, 7])] = .total (1 / 3) ∧
    erCommand (erC02 ⟨1, 1, 1⟩) false true 2
      [((1 : Nat), [(7 : Nat), 8, 9], [7, 9]), (2, [8], [8, 8]), (3, [9, 7], [9, 7])] =
        .perUtt [(1, 1 / 3), (2, 1), (3, 0)] := by decide +kernel

/-- All hypotheses of `C17_er_missing` / `C17_er_command` together: utterance 2 only among the
hypotheses, a `--replace` line, an ignored token, batch size 2; and `C17_er_missing_none`. -/
example : ∃ common : List (Nat × List Nat × List Nat),
    (∀ u r h, (u, r, h) ∈ common ↔
      ((u, r) ∈ [(1, [1, 2]), (3, [2, 9])] ∧ (u, h) ∈ [(1, [1]), (2, [5]), (3, [2])])) ∧
    erFromDirs (fun a b : Nat => decide (a < b)) (erC02 ⟨1, 1, 1⟩) [(2, 1)] [9] true false false false 2
        [(1, [1, 2]), (3, [2, 9])] [(1, [1]), (2, [5]), (3, [2])] =
      some (erSpec (erC02 ⟨1, 1, 1⟩) false false
        (common.map (fun (u, r, h) => (u, prep [(2, 1)] [9] r, prep [(2, 1)] [9] h)))) :=
  C17_er_command (fun a b : Nat => decide (a < b)) (by simp)
    (by intro a b c; simp only [decide_eq_true_eq]; omega)
    (by intro a b; simp only [decide_eq_false_iff_not]; omega)
    (erC02 ⟨1, 1, 1⟩) (erC02 ⟨1, 1, 1⟩) (C17_er_relabels_costs _) [(2, 1)] [9] false false 2
    (by decide) _ _ (by simp [StrictSorted]) (by simp [StrictSorted])
example : alignPairs (fun a b : Nat => decide (a < b)) false 5 [(1, 'x'), (2, 'y')] [(1, 'p'), (2, 'q')] =
    some [(1, 'x', 'p'), (2, 'y', 'q')] :=
  C17_er_missing_none (fun a b : Nat => decide (a < b)) (by simp) false
    [(1, 'x'), (2, 'y')] [(1, 'p'), (2, 'q')] rfl

/-- **C17_er_counterexample** — on the pinned tree, total mode with one empty reference:
the command raises although `Σ edits / Σ |ref| = 1/3` is defined
(`corpus/C17/er-total-empty-reference.json`). -/
theorem C17_er_counterexample :
    let er : List Nat → List Nat → Nat := fun r h => if r = h then 0 else 1
    let pairs : List (Pair Nat Nat) := [(0, [1, 2, 3], [1, 3]), (1, [], [4])]
    (accAll er true 100 pairs).zdiv = true ∧ (accAll er false 100 pairs).zdiv = false ∧
      totalRef pairs = 3 ∧ totalEdits (fun r h => if r = h then 0 else 1) pairs = 2 := by
  decide

/-! ## Subsetting -/
section Subset
variable {υ : Type} [DecidableEq υ]

/-- **C17_subset** (1): `--first-n`, `--first-ratio` extract the first utterances by id,
`--last-*` the last ones, `--shortest-*` and `--longest-*` the first by (length, id) resp.
(minus length, id): in each case the selection is "`n` first elements" (`IsFirstN`: right size,
duplicate-free part of what is available, everything selected precedes everything left
out) of the available utterances in the respective order. `le` is any total preorder
(Python's `<=` on `str`). -/
theorem C17_subset (le : υ → υ → Bool)
    (htrans : ∀ a b c, le a b = true → le b c = true → le a c = true)
    (htotal : ∀ a b, (le a b || le b a) = true) (avail : List (Nat × υ)) (c : Crit υ) :
    match c with
    | .firstN _ | .firstR _ =>
        IsFirstN le (subsetCount avail.length c) (avail.map (·.2)) (subsetSelect le avail c)
    | .lastN _ | .lastR _ =>
        IsFirstN (fun a b => le b a) (subsetCount avail.length c) (avail.map (·.2))
          (subsetSelect le avail c)
    | .shortestN _ | .shortestR _ =>
        ∃ sel, IsFirstN (leShort le) (subsetCount avail.length c) avail sel ∧
          subsetSelect le avail c = sel.map (·.2)
    | .longestN _ | .longestR _ =>
        ∃ sel, IsFirstN (leLong le) (subsetCount avail.length c) avail sel ∧
          subsetSelect le avail c = sel.map (·.2)
    | .uttList l => subsetSelect le avail c = l.filter (fun u => u ∈ avail.map (·.2)) := by
  have hflipT : ∀ a b c, le b a = true → le c b = true → le c a = true :=
    fun a b c h1 h2 => htrans c b a h2 h1
  have hflipTot : ∀ a b, (le b a || le a b) = true := fun a b => htotal b a
  have hlen : (avail.map (·.2)).length = avail.length := by simp
  cases c with
  | firstN n =>
    have := isFirstN_take_mergeSort le htrans htotal n (avail.map (·.2))
    simpa [subsetSelect, subsetOrder, subsetCount] using this
  | firstR q =>
    have := isFirstN_take_mergeSort le htrans htotal (ratioCount avail.length q) (avail.map (·.2))
    simpa [subsetSelect, subsetOrder, subsetCount] using this
  | lastN n =>
    have := isFirstN_take_mergeSort (fun a b => le b a) hflipT hflipTot n (avail.map (·.2))
    simpa [subsetSelect, subsetOrder, subsetCount] using this
  | lastR q =>
    have := isFirstN_take_mergeSort (fun a b => le b a) hflipT hflipTot
      (ratioCount avail.length q) (avail.map (·.2))
    simpa [subsetSelect, subsetOrder, subsetCount] using this
  | shortestN n =>
    exact ⟨_, isFirstN_take_mergeSort (leShort le) (leShort_trans le htrans)
      (leShort_total le htotal) n avail, by simp [subsetSelect, subsetOrder, subsetCount, List.map_take]⟩
  | shortestR q =>
    exact ⟨_, isFirstN_take_mergeSort (leShort le) (leShort_trans le htrans)
      (leShort_total le htotal) _ avail, by simp [subsetSelect, subsetOrder, subsetCount, List.map_take]⟩
  | longestN n =>
    exact ⟨_, isFirstN_take_mergeSort (leLong le) (leLong_trans le htrans)
      (leLong_total le htotal) n avail, by simp [subsetSelect, subsetOrder, subsetCount, List.map_take]⟩
  | longestR q =>
    exact ⟨_, isFirstN_take_mergeSort (leLong le) (leLong_trans le htrans)
      (leLong_total le htotal) _ avail, by simp [subsetSelect, subsetOrder, subsetCount, List.map_take]⟩
  | uttList l => simp [subsetSelect]

/-- **C17_subset** (2), declarative side: `copySubset` — dest holds exactly the source entries of
the existing sub-directories whose name belongs to a selected utterance, each with the content it
has in src. Definitional (`copySubset` IS this filter; NOT counted as an obligation): what the
copy LOOP of the code does is `C17_subset_copy_cmd` / `C17_subset_copy_dup` below. -/
theorem C17_subset_copy {σ κ ν : Type} [DecidableEq σ] [DecidableEq κ]
    (subdirs : List σ) (names : List κ) (src : List (σ × κ × ν)) (e : σ × κ × ν) :
    e ∈ copySubset subdirs names src ↔ (e ∈ src ∧ e.1 ∈ subdirs ∧ e.2.1 ∈ names) := by
  simp [copySubset, List.mem_filter]

/-- **C17_subset_copy_cmd** — the copy LOOP as the code runs it (`copyCmd`: names in the order
selected, sub-directories in the order feat, ali, ref, `os.path.exists`, then `cp`): when no
utterance is listed twice (always the case for `--first-n` … `--longest-ratio`, `IsFirstN` is
duplicate-free; for `--utt-list` only if the user's list is) or with `--copy`, the command
succeeds in every copy mode and `dest` holds exactly the existing source files of the existing
sub-directories whose name belongs to a selected utterance — the declarative `copySubset` of
`C17_subset_copy`. -/
theorem C17_subset_copy_cmd {σ κ : Type} [DecidableEq σ] [DecidableEq κ] (linkMode : Bool)
    (subdirs : List σ) (src : List (σ × κ)) (names : List κ) (hs : subdirs.Nodup)
    (hn : names.Nodup ∨ linkMode = false) :
    ∃ d, copyCmd linkMode subdirs src names = .ok d ∧
      ∀ k, k ∈ d ↔ (k ∈ src ∧ k.1 ∈ subdirs ∧ k.2 ∈ names) := by
  rcases hn with hn | rfl
  · refine ⟨copyTargets subdirs src names, ?_, mem_copyTargets subdirs src names⟩
    unfold copyCmd
    rw [copyRun_nodup linkMode [] _ (by simpa using nodup_copyTargets subdirs src names hs hn)]
    simp
  · obtain ⟨d, h1, h2⟩ := copyRun_copy ([] : List (σ × κ)) (copyTargets subdirs src names)
    refine ⟨d, h1, fun k => ?_⟩
    rw [h2 k, ← mem_copyTargets]
    simp

/-- **C17_subset_copy_dup** — with hard links (the default) or `--symlink` the command raises
`FileExistsError` exactly when some target is visited twice, i.e. when an utterance that has a
file is listed twice in `--utt-list` / `--utt-list-file` (known finding
`C17.subset.duplicate_utt_list`; the same list succeeds with `--copy`, `C17_subset_copy_cmd`). -/
theorem C17_subset_copy_dup {σ κ : Type} [DecidableEq σ] [DecidableEq κ]
    (subdirs : List σ) (src : List (σ × κ)) (names : List κ) :
    copyCmd true subdirs src names = .error () ↔ ¬ (copyTargets subdirs src names).Nodup := by
  unfold copyCmd
  constructor
  · intro h hnd
    rw [copyRun_nodup true [] _ (by simpa using hnd)] at h
    cases h
  · intro h
    exact copyRun_link_error [] _ List.nodup_nil (by simpa using h)

/-- The hypotheses of `C17_subset_copy_cmd` hold on a corpus with three sub-directories, a file
missing in one of them and a name that does not exist; and the duplicate of `C17_subset_copy_dup`:
`--utt-list a a` fails with links and succeeds with `--copy`. -/
example : ∃ d, copyCmd true ["feat", "ali", "ref"]
      [("feat", "a"), ("feat", "b"), ("ali", "a"), ("ref", "b"), ("ref", "c")] ["b", "a"] = .ok d ∧
    ∀ k, k ∈ d ↔ (k ∈ [("feat", "a"), ("feat", "b"), ("ali", "a"), ("ref", "b"), ("ref", "c")] ∧
      k.1 ∈ ["feat", "ali", "ref"] ∧ k.2 ∈ ["b", "a"]) :=
  C17_subset_copy_cmd true _ _ _ (by decide) (.inl (by decide))

theorem C17_subset_copy_dup_counterexample :
    copyCmd true ["feat"] [("feat", "a"), ("feat", "b")] ["a", "a"] = .error () ∧
    copyCmd false ["feat"] [("feat", "a"), ("feat", "b")] ["a", "a"] = .ok [("feat", "a")] ∧
    copyCmd true ["feat"] [("feat", "a"), ("feat", "b")] ["a", "zz", "b"]
      = .ok [("feat", "a"), ("feat", "b")] := by decide

/-- `"Ratios are rounded down"`: never more than the ratio asks for, never a whole
utterance less. -/
theorem C17_subset_ratio (N : Nat) (q : Rat) (h0 : 0 ≤ q) :
    ((ratioCount N q : Int) : Rat) ≤ N * q ∧ (N : Rat) * q < ((ratioCount N q + 1 : Int) : Rat) := by
  unfold ratioCount
  have hnn : ((0 : Int) : Rat) ≤ (N : Rat) * q := by
    have : (0 : Rat) ≤ (N : Rat) := by exact_mod_cast Nat.zero_le N
    simpa using Rat.mul_nonneg this h0
  have hfl : 0 ≤ ((N : Rat) * q).floor := Rat.le_floor_iff.2 hnn
  rw [Int.toNat_of_nonneg hfl]
  exact ⟨Rat.floor_le _, Rat.lt_floor_add_one _⟩

/-- The hypotheses of `C17_subset` are satisfiable: `≤` on `Nat` is a total preorder. -/
example (avail : List (Nat × Nat)) (n : Nat) :
    ∃ sel, IsFirstN (leShort (fun a b : Nat => decide (a ≤ b))) n avail sel ∧
      subsetSelect (fun a b : Nat => decide (a ≤ b)) avail (.shortestN n) = sel.map (·.2) :=
  C17_subset (fun a b : Nat => decide (a ≤ b)) (by intro a b c; simp; omega)
    (by intro a b; simp; omega) avail (.shortestN n)

end Subset

/-! ## Subsetting a whole source tree: `dest` is the restriction of every sub-directory of `src`
to the selected utterances OF `feat/` — for every tree, consistent or not -/
section SubsetDir
variable {σ α : Type} [DecidableEq σ] [DecidableEq α]

/-- **C17_subset_dir** — the whole command (`subsetCmd`: listing of `feat/`, criterion, `basenames`,
copy loop) on ANY source tree: files of utterances that exist in only some of `feat/`, `ali/`,
`ref/`, names that do not match prefix / suffix, sub-directories the command does not know. When
the selection has no duplicate (or with `--copy`) the command succeeds and `dest` is the
restriction (`IsRestriction`) of the sub-directories `feat`, and `ali` / `ref` where they exist, to
the selected utterances; every selected utterance is an utterance of `feat/` whatever the
criterion; and for `--utt-list` / `--utt-list-file` the selected utterances are exactly the
requested ones that `feat/` has. -/
theorem C17_subset_dir (le : List α → List α → Bool) (p s : List α) (featSub : σ)
    (otherSubs : List σ) (len : List α → Nat) (tree : List (σ × List α)) (c : Crit (List α))
    (linkMode : Bool) (hs : (featSub :: otherSubs).Nodup)
    (hn : (subsetSel le p s featSub len tree c).Nodup ∨ linkMode = false) :
    (∃ d, subsetCmd le p s featSub otherSubs len tree c linkMode = .ok d ∧
      IsRestriction p s (featSub :: otherSubs) tree (subsetSel le p s featSub len tree c) d) ∧
    (∀ u ∈ subsetSel le p s featSub len tree c, u ∈ featIds p s featSub tree) ∧
    (∀ l, c = .uttList l → ∀ u, u ∈ subsetSel le p s featSub len tree c ↔
      (u ∈ l ∧ u ∈ featIds p s featSub tree)) := by
  refine ⟨?_, subsetSel_subset le p s featSub len tree c, ?_⟩
  · have hn' : ((subsetSel le p s featSub len tree c).map (fileName p s)).Nodup ∨ linkMode = false :=
      hn.imp (fun h => h.map (fun a b hab => fileName_injective p s hab)) id
    obtain ⟨d, h1, h2⟩ := C17_subset_copy_cmd linkMode (featSub :: otherSubs) tree _ hs hn'
    refine ⟨d, h1, fun sub f => ?_⟩
    rw [h2 (sub, f)]
    simp only [List.mem_map, fileName]
    constructor
    · rintro ⟨a, b, u, hu, rfl⟩
      exact ⟨a, b, u, hu, rfl⟩
    · rintro ⟨a, b, u, hu, rfl⟩
      exact ⟨a, b, u, hu, rfl⟩
  · rintro l rfl u
    unfold subsetSel
    rw [mem_subsetSelect_list, subsetAvail_ids]

/-- **C17_subset_dir_list** — `--utt-list` / `--utt-list-file` on any source tree (the headline
form): with a duplicate-free request (or `--copy`) the command succeeds and a file is in `dest`
exactly when it is a file of `src`, in `feat/` or an existing `ali/` / `ref/`, and is the file
`prefix + u + suffix` of an utterance `u` that was requested AND is an utterance of `feat/`. -/
theorem C17_subset_dir_list (le : List α → List α → Bool) (p s : List α) (featSub : σ)
    (otherSubs : List σ) (len : List α → Nat) (tree : List (σ × List α)) (l : List (List α))
    (linkMode : Bool) (hs : (featSub :: otherSubs).Nodup) (hn : l.Nodup ∨ linkMode = false) :
    ∃ d, subsetCmd le p s featSub otherSubs len tree (.uttList l) linkMode = .ok d ∧
      ∀ sub f, (sub, f) ∈ d ↔ ((sub, f) ∈ tree ∧ sub ∈ featSub :: otherSubs ∧
        ∃ u, u ∈ l ∧ u ∈ featIds p s featSub tree ∧ f = fileName p s u) := by
  have hn' : (subsetSel le p s featSub len tree (.uttList l)).Nodup ∨ linkMode = false :=
    hn.imp (fun h => by unfold subsetSel subsetSelect; exact h.filter _) id
  obtain ⟨⟨d, h1, h2⟩, _, h3⟩ := C17_subset_dir le p s featSub otherSubs len tree (.uttList l) linkMode hs hn'
  refine ⟨d, h1, fun sub f => ?_⟩
  rw [h2 sub f]
  constructor
  · rintro ⟨a, b, u, hu, rfl⟩
    exact ⟨a, b, u, ((h3 l rfl u).1 hu).1, ((h3 l rfl u).1 hu).2, rfl⟩
  · rintro ⟨a, b, u, hu1, hu2, rfl⟩
    exact ⟨a, b, u, (h3 l rfl u).2 ⟨hu1, hu2⟩, rfl⟩

/-- **C17_subset_dir_stray** — no hypothesis at all (any tree, any criterion, any copy mode, lists
with duplicates): whenever the command succeeds, every file of `dest` is a file of `src` in a known
sub-directory and is the file of a selected utterance of `feat/`; in particular the file of an
utterance that `feat/` does not have is NEVER in `dest`, in no sub-directory — although `ali/` or
`ref/` of `src` may well hold it. -/
theorem C17_subset_dir_stray (le : List α → List α → Bool) (p s : List α) (featSub : σ)
    (otherSubs : List σ) (len : List α → Nat) (tree : List (σ × List α)) (c : Crit (List α))
    (linkMode : Bool) (d : List (σ × List α))
    (h : subsetCmd le p s featSub otherSubs len tree c linkMode = .ok d) :
    (∀ k ∈ d, k ∈ tree ∧ k.1 ∈ featSub :: otherSubs ∧
      ∃ u ∈ featIds p s featSub tree, k.2 = fileName p s u) ∧
    (∀ u, u ∉ featIds p s featSub tree → ∀ sub, (sub, fileName p s u) ∉ d) := by
  have key : ∀ k ∈ d, k ∈ tree ∧ k.1 ∈ featSub :: otherSubs ∧
      ∃ u ∈ featIds p s featSub tree, k.2 = fileName p s u := by
    intro k hk
    rcases copyRun_ok_subset linkMode [] _ d h k hk with h0 | h0
    · cases h0
    · obtain ⟨h1, h2, h3⟩ := (mem_copyTargets _ _ _ k).1 h0
      obtain ⟨u, hu, hfu⟩ := List.mem_map.1 h3
      exact ⟨h1, h2, u, subsetSel_subset le p s featSub len tree c u hu, hfu.symm⟩
  refine ⟨key, fun u hu sub hmem => ?_⟩
  obtain ⟨_, _, u', hu', he⟩ := key _ hmem
  exact hu (fileName_injective p s he ▸ hu')

/-- **C17_subset_dir_ids** — the same restriction read through the directory listing: when the
selected names of `src` are not overlaps of prefix and suffix (`|prefix| + |suffix| ≤ |name|`, the
hypothesis of `C17_names`), a file is in `dest` exactly when it is a file of `src` in a known
sub-directory whose name is selected and whose utterance id (as `_DirectoryDataset` /
`SpectDataSet` would list it) is a selected utterance; and `dest/feat` lists exactly the selected
utterances — none is lost. -/
theorem C17_subset_dir_ids (p s : List α) (featSub : σ) (otherSubs : List σ)
    (tree : List (σ × List α)) (sel : List (List α)) (d : List (σ × List α))
    (hd : IsRestriction p s (featSub :: otherSubs) tree sel d)
    (hsel : ∀ u ∈ sel, u ∈ featIds p s featSub tree)
    (hl : ∀ e ∈ tree, selects p s e.2 = true → p.length + s.length ≤ e.2.length) :
    (∀ sub f, (sub, f) ∈ d ↔ ((sub, f) ∈ tree ∧ sub ∈ featSub :: otherSubs ∧
      selects p s f = true ∧ uttOf p s f ∈ sel)) ∧
    (∀ u, u ∈ featIds p s featSub d ↔ u ∈ sel) := by
  have h1 : ∀ sub f, (sub, f) ∈ d ↔ ((sub, f) ∈ tree ∧ sub ∈ featSub :: otherSubs ∧
      selects p s f = true ∧ uttOf p s f ∈ sel) := by
    intro sub f
    rw [hd sub f]
    constructor
    · rintro ⟨a, b, u, hu, rfl⟩
      have e : uttOf p s (p ++ u ++ s) = u := uttOf_fileName p s u
      exact ⟨a, b, selects_fileName p s u, e.symm ▸ hu⟩
    · rintro ⟨a, b, hsf, hu⟩
      exact ⟨a, b, uttOf p s f, hu, (fileName_uttOf p s f hsf (hl _ a hsf)).symm⟩
  refine ⟨h1, fun u => ?_⟩
  rw [mem_featIds]
  constructor
  · rintro ⟨f, hf, _, rfl⟩
    exact ((h1 featSub f).1 hf).2.2.2
  · intro hu
    obtain ⟨f, hf, hsf, rfl⟩ := (mem_featIds p s featSub tree u).1 (hsel u hu)
    exact ⟨f, (h1 featSub f).2 ⟨hf, List.mem_cons_self .., hsf, hu⟩, hsf, rfl⟩

/-- **C17_subset_dir_nodup** — the side condition of `C17_subset_dir` holds on every real
directory: distinct entries and no prefix/suffix overlap among the selected names of `feat/` give
distinct utterance ids, hence a duplicate-free selection for every criterion (for `--utt-list`
when the request itself has no duplicate). -/
theorem C17_subset_dir_nodup (le : List α → List α → Bool) (p s : List α) (featSub : σ)
    (len : List α → Nat) (tree : List (σ × List α)) (c : Crit (List α)) (ht : tree.Nodup)
    (hl : ∀ e ∈ tree, e.1 = featSub → selects p s e.2 = true → p.length + s.length ≤ e.2.length)
    (hc : ∀ l, c = .uttList l → l.Nodup) :
    (subsetSel le p s featSub len tree c).Nodup := by
  unfold subsetSel
  refine subsetSelect_nodup le _ c ?_ hc
  rw [subsetAvail_ids]
  exact featIds_nodup p s featSub tree ht (fun f hf h => hl (featSub, f) hf rfl h)

/-- An inconsistent tree, evaluated: prefix `p_`, suffix `.pt`; `feat/` has `a`, `b` and a name that
does not match; `ali/` has `a` and the stray `z` (no feature file); `ref/` has `b`, `z`, an
unmatched name and `c`; `hyp/` is a sub-directory the command does not know. Requesting
`z, a, nowhere, b` extracts `a` and `b` only — from every sub-directory. -/
example :
    let n : String → List Char := fun u => fileName "p_".toList ".pt".toList u.toList
    let tree : List (String × List Char) :=
      [("feat", n "a"), ("feat", n "b"), ("feat", "notes".toList), ("ali", n "a"), ("ali", n "z"),
       ("ref", n "b"), ("ref", n "z"), ("ref", "p_a.txt".toList), ("ref", n "c"), ("hyp", n "a")]
    subsetCmd (fun a b => decide (a ≤ b)) "p_".toList ".pt".toList "feat" ["ali", "ref"]
        (fun _ => 1) tree (.uttList ["z".toList, "a".toList, "nowhere".toList, "b".toList]) true
      = .ok [("feat", n "a"), ("ali", n "a"), ("feat", n "b"), ("ref", n "b")] := by
  decide

/-- The hypotheses of `C17_subset_dir_list`, `C17_subset_dir_nodup` and `C17_subset_dir_ids` hold
together on such a tree (a stray in `ali/`, a request for it and for an id that exists nowhere). -/
example : ∃ d, subsetCmd (fun a b => decide (a ≤ b)) "p_".toList ".pt".toList "feat" ["ali"]
      (fun _ => 1) [("feat", "p_a.pt".toList), ("ali", "p_a.pt".toList), ("ali", "p_z.pt".toList)]
      (.uttList ["z".toList, "a".toList, "q".toList]) true = .ok d ∧
    ∀ sub f, (sub, f) ∈ d ↔ ((sub, f) ∈ [("feat", "p_a.pt".toList), ("ali", "p_a.pt".toList),
        ("ali", "p_z.pt".toList)] ∧ sub ∈ ["feat", "ali"] ∧
      ∃ u, u ∈ ["z".toList, "a".toList, "q".toList] ∧
        u ∈ featIds "p_".toList ".pt".toList "feat"
          [("feat", "p_a.pt".toList), ("ali", "p_a.pt".toList), ("ali", "p_z.pt".toList)] ∧
        f = fileName "p_".toList ".pt".toList u) :=
  C17_subset_dir_list _ _ _ _ _ _ _ _ _ (by decide) (.inl (by decide))

example : (subsetSel (fun a b => decide (a ≤ b)) "p_".toList ".pt".toList "feat" (fun _ => 1)
    [("feat", "p_a.pt".toList), ("feat", "p_b.pt".toList), ("ali", "p_z.pt".toList)]
    (.lastN 1)).Nodup :=
  C17_subset_dir_nodup _ _ _ _ _ _ _ (by decide) (by decide) (by intro l h; cases h)

/-! Audit E: the remaining round-3 theorems applied with ALL their hypotheses on an inconsistent tree
(`feat/` has `a`, `b` and a name that does not match; `ali/` has `a` and the stray `z`; `ref/` has `b`
and `z`; `hyp/` is unknown to the command). -/
def exTree : List (String × List Char) :=
  [("feat", "p_a.pt".toList), ("feat", "p_b.pt".toList), ("feat", "notes".toList),
   ("ali", "p_a.pt".toList), ("ali", "p_z.pt".toList), ("ref", "p_b.pt".toList),
   ("ref", "p_z.pt".toList), ("hyp", "p_a.pt".toList)]

/-- `C17_subset_dir` with a criterion that is NOT a list (`--last-n 1`, hard links): the side
condition comes from `C17_subset_dir_nodup` (sorting does not reduce under `decide`). -/
example := C17_subset_dir (fun a b => decide (a ≤ b)) "p_".toList ".pt".toList "feat" ["ali", "ref"]
  (fun _ => 1) exTree (.lastN 1) true (by decide)
  (.inl (C17_subset_dir_nodup _ _ _ _ _ _ _ (by decide) (by decide) (by intro l h; cases h)))

/-- `C17_subset_dir_stray`: a successful run with the stray `z` REQUESTED (and `a` listed twice, `--copy`). -/
example := C17_subset_dir_stray (fun a b => decide (a ≤ b)) "p_".toList ".pt".toList "feat" ["ali", "ref"]
  (fun _ => 1) exTree (.uttList ["z".toList, "a".toList, "a".toList, "b".toList]) false
  [("feat", "p_a.pt".toList), ("ali", "p_a.pt".toList), ("feat", "p_b.pt".toList), ("ref", "p_b.pt".toList)]
  (by decide)

/-- `C17_subset_dir_ids` fed by `C17_subset_dir_list`: whatever `dest` the command leaves for the request
`z, a, nowhere`, its `feat/` lists exactly `a` - the requested utterance that `feat/` of `src` has. -/
example : ∃ d, subsetCmd (fun a b => decide (a ≤ b)) "p_".toList ".pt".toList "feat" ["ali", "ref"]
      (fun _ => 1) exTree (.uttList ["z".toList, "a".toList, "nowhere".toList]) true = .ok d ∧
    ∀ u, u ∈ featIds "p_".toList ".pt".toList "feat" d ↔ u = "a".toList := by
  obtain ⟨⟨d, h1, h2⟩, h3, h4⟩ := C17_subset_dir (fun a b => decide (a ≤ b)) "p_".toList ".pt".toList
    "feat" ["ali", "ref"] (fun _ => 1) exTree (.uttList ["z".toList, "a".toList, "nowhere".toList]) true
    (by decide) (.inl (by decide))
  refine ⟨d, h1, fun u => ?_⟩
  rw [(C17_subset_dir_ids "p_".toList ".pt".toList "feat" ["ali", "ref"] exTree _ d h2 h3 (by decide)).2 u]
  have hsel : subsetSel (fun a b => decide (a ≤ b)) "p_".toList ".pt".toList "feat" (fun _ => 1) exTree
      (.uttList ["z".toList, "a".toList, "nowhere".toList]) = ["a".toList] := by decide
  rw [hsel]
  simp

/-- **C17_dataset_ids** — the utterances `chunk-torch-spect-data-dir` and
`get-torch-spect-data-dir-info` walk (`SpectDataSet.find_utt_ids`, model `dataSetIds`) on any tree:
exactly the utterances of `feat/` that every one of `ali/`, `ref/` which counts (exists and holds
at least one selected name: `has_ali` / `has_ref`) lists as well; an utterance missing in one of
them, or present only outside `feat/`, is not walked; a sub-directory without any selected name
removes nothing. DEFINITIONAL (audit E): the proof is `List.mem_filter` / `List.all_eq_true` /
`List.any_eq_true` on `dataSetIds` / `dataSetSubs` - the model's filter read as a formula, the same
class as `C17_subset_copy`. Kept as documentation of the model, NOT counted as an obligation; that
`SpectDataSet.find_utt_ids` computes this set is correspondence (`datadir` cases). -/
theorem C17_dataset_ids (p s : List α) (featSub : σ) (otherSubs : List σ)
    (tree : List (σ × List α)) (u : List α) :
    u ∈ dataSetIds p s featSub otherSubs tree ↔
      (u ∈ featIds p s featSub tree ∧
        ∀ sub ∈ otherSubs, (∃ f, (sub, f) ∈ tree ∧ selects p s f = true) → u ∈ featIds p s sub tree) :=
  mem_dataSetIds p s featSub otherSubs tree u

example : dataSetIds "".toList ".pt".toList "feat" ["ali", "ref"]
    [("feat", "a.pt".toList), ("feat", "b.pt".toList), ("feat", "c.pt".toList), ("ali", "a.pt".toList),
     ("ali", "z.pt".toList), ("ali", "c.pt".toList), ("ref", "c.pt".toList), ("ref", "a.pt".toList),
     ("ref", "a.txt".toList), ("hyp", "b.pt".toList)] = ["a".toList, "c".toList] := by decide
/-- An `ali/` with no selected name does not count: both utterances of `feat/` are walked. -/
example : dataSetIds "".toList ".pt".toList "feat" ["ali", "ref"]
    [("feat", "a.pt".toList), ("feat", "b.pt".toList), ("ali", "a.txt".toList)] =
      ["a".toList, "b".toList] := by decide

end SubsetDir

/-! ## Transcripts -/
section Transcripts
variable {α τ : Type} [DecidableEq α] [DecidableEq τ]

/-- **C17_transcripts**: `trn -> token dir -> trn` returns the original transcripts, sorted by
utterance id, for every prefix/suffix and every order in which the pool wrote the files —
provided utterance ids are distinct, the `token2id` table is unambiguous (distinct tokens,
distinct ids; `id2token` is the same table read the other way) and covers every token. `le`
is any total preorder (Python's `<=` on `str`). -/
theorem C17_transcripts (le : List α → List α → Bool)
    (htrans : ∀ a b c, le a b = true → le b c = true → le a c = true)
    (htotal : ∀ a b, (le a b || le b a) = true)
    (p s : List α) (t2i : List (τ × Int))
    (hk : (t2i.map (·.1)).Nodup) (hv : (t2i.map (·.2)).Nodup)
    (corpus delivered : List (List α × List τ)) (hperm : delivered.Perm corpus)
    (hutts : (corpus.map (·.1)).Nodup)
    (hvocab : ∀ e ∈ corpus, ∀ t ∈ e.2, t ∈ t2i.map (·.1)) :
    ∃ d out, trnToDir p s t2i none delivered = some d ∧
      dirToTrn le p s (t2i.map (fun e => (e.2, e.1))) d = some out ∧
      out.Perm corpus ∧ (out.map (·.1)).Pairwise (fun a b => le a b = true) :=
  trn_roundtrip le htrans htotal p s t2i hk hv corpus delivered hperm hutts hvocab

/-- A token without id and no `--unk-symbol`: the command fails (nothing is silently
dropped). -/
theorem C17_transcripts_oov (p s : List α) (t2i : List (τ × Int)) (u : List α) (t : τ)
    (h : t ∉ t2i.map (·.1)) : trnToDir p s t2i none [(u, [t])] = none := by
  have : t2i.reverse.lookup t = none := by
    rw [List.lookup_eq_none_iff]
    intro e he
    have he' := List.mem_reverse.1 he
    have : e.1 ≠ t := fun heq => h (List.mem_map.2 ⟨e, he', heq⟩)
    simpa using fun heq => this heq.symm
  simp [trnToDir, tokenId, this, optAll]

example : trnToDir "p".toList ".pt".toList [("a", 1), ("b", 2)] none
    [("u2".toList, ["a", "b"]), ("u1".toList, ["b"])] =
    some [("pu1.pt".toList, [2]), ("pu2.pt".toList, [1, 2])] := by decide

/-- All hypotheses of `C17_transcripts` together: prefix `p`, suffix `.pt`, a two-token
vocabulary, two utterances, the pool delivers them in the other order. -/
example : ∃ d out,
    trnToDir "p".toList ".pt".toList [((10 : Nat), (1 : Int)), (20, 2)] none
      [("u2".toList, [10, 20]), ("u1".toList, [20])] = some d ∧
    dirToTrn (fun a b => decide (a ≤ b)) "p".toList ".pt".toList
      ([((10 : Nat), (1 : Int)), (20, 2)].map (fun e => (e.2, e.1))) d = some out ∧
    out.Perm [("u1".toList, [20]), ("u2".toList, [10, 20])] ∧
    (out.map (·.1)).Pairwise (fun a b => decide (a ≤ b) = true) :=
  C17_transcripts (fun a b => decide (a ≤ b))
    (by intro a b c h1 h2; simp only [decide_eq_true_eq] at *; exact le_trans h1 h2)
    (by intro a b; simp only [Bool.or_eq_true, decide_eq_true_eq]; exact le_total a b)
    "p".toList ".pt".toList [((10 : Nat), (1 : Int)), (20, 2)] (by decide) (by decide)
    [("u1".toList, [20]), ("u2".toList, [10, 20])] [("u2".toList, [10, 20]), ("u1".toList, [20])]
    (List.Perm.swap _ _ _) (by decide) (by decide)

end Transcripts

/-! ## ctm -> token dir -> ctm at the level of the two commands ("times within one frame") -/
section Ctm
open PdtVerif.Transcripts (Timed Transcripts Tok Utt2Wc timedOk timedLe specCtm readCtm writeCtm
  C11_ctm C11_ctm_spec_mem C11_ctm_spec_order)

/-- The utterances of a parsed ctm file as the pool of `ctm_to_torch_token_data_dir` receives
them: `(utterance id, transcript)`; the file written is `prefix + utt + suffix`. -/
def ctmItems (ts : Transcripts) : List (List Char × List Timed) :=
  ts.map (fun ut => (ut.1.toList, ut.2))

/-- **C17_ctm**: `ctm-to-torch-token-data-dir` followed by `torch-token-data-dir-to-ctm`, for
every prefix and suffix, every frame shift `f > 0` ms, every vocabulary whose `id2token` inverts
`token2id` on the tokens present, every `unk` setting, every `utt ↦ (wfn, chan)` mapping that
`wc2utt` inverts (any injective mapping, or a channel), every order in which the pool writes the
files, and all transcripts `ts` (what `read_ctm` returned for the input file: distinct utterance
ids, times `0 ≤ start ≤ end`): both commands succeed; the transcripts handed to `write_ctm` are
those of `ts` with every entry replaced by its frame round trip `frameBack` (utterances in sorted
order); `write_ctm` succeeds, and reading the written ctm back gives exactly `specCtm` of them
(C11_ctm composed). Every `frameBack` entry is within one frame of the original. -/
theorem C17_ctm (le : List Char → List Char → Bool)
    (htrans : ∀ a b c, le a b = true → le b c = true → le a c = true)
    (htotal : ∀ a b, (le a b || le b a) = true)
    (p s : List Char) (t2i : List (Tok × Int)) (i2t : List (Int × Tok)) (unk : Option Tok)
    (f : Rat) (hf : 0 < f)
    (m : Utt2Wc) (w2u : Option (String × String → Option String)) (wc : String → String × String)
    (ts delivered : Transcripts) (hperm : delivered.Perm ts)
    (hnd : (ts.map (·.1)).Nodup)
    (hvocab : ∀ ut ∈ ts, ∀ x ∈ ut.2,
      ∃ id, t2i.lookup (.s x.1) = some id ∧ i2t.lookup id = some (.s x.1))
    (hok : ∀ ut ∈ ts, ∀ x ∈ ut.2, timedOk x = true)
    (hwc : ∀ ut ∈ ts, m.get ut.1 = some (wc ut.1))
    (hinv : ∀ ut ∈ ts,
      (match w2u with | none => some (wc ut.1).1 | some g => g (wc ut.1)) = some ut.1) :
    ∃ d mid lines,
      timedToDir p s t2i f unk (ctmItems delivered) = .ok d ∧
      dirToTimed le p s i2t f d = some mid ∧
      mid.Perm (ts.map (fun ut => (ut.1, ut.2.map (frameBack f)))) ∧
      writeCtm m mid = .ok lines ∧
      readCtm w2u lines = .ok (specCtm wc mid) ∧
      ∀ ut ∈ ts, ∀ x ∈ ut.2, CloseT (f / 1000) x (frameBack f x) := by
  have hcn : ((ctmItems ts).map (·.1)).Nodup := by
    have e : (ctmItems ts).map (·.1) = (ts.map (·.1)).map String.toList := by
      simp [ctmItems, List.map_map, Function.comp_def]
    rw [e]
    exact List.pairwise_map.2 (hnd.imp (fun hne e => hne (String.toList_inj.1 e)))
  obtain ⟨d, mid, h1, h2, h3, _⟩ := timed_roundtrip le htrans htotal p s t2i i2t unk f hf
    (ctmItems ts) (ctmItems delivered) (hperm.map _) hcn
    (by
      intro e he x hx
      obtain ⟨ut, hut, rfl⟩ := List.mem_map.1 he
      exact hvocab ut hut x hx)
    (by
      intro e he x hx
      obtain ⟨ut, hut, rfl⟩ := List.mem_map.1 he
      exact hok ut hut x hx)
  have e3 : (ctmItems ts).map (fun e => (String.ofList e.1, e.2.map (frameBack f)))
      = ts.map (fun ut => (ut.1, ut.2.map (frameBack f))) := by
    simp [ctmItems, List.map_map, Function.comp_def, String.ofList_toList]
  rw [e3] at h3
  have hmem : ∀ um ∈ mid, ∃ ut ∈ ts, um = (ut.1, ut.2.map (frameBack f)) := by
    intro um hum
    obtain ⟨ut, hut, rfl⟩ := List.mem_map.1 (h3.mem_iff.1 hum)
    exact ⟨ut, hut, rfl⟩
  obtain ⟨lines, hw, hr⟩ := C11_ctm m w2u mid wc
    (by
      intro um hum
      obtain ⟨ut, hut, rfl⟩ := hmem um hum
      exact hwc ut hut)
    (by
      intro um hum
      obtain ⟨ut, hut, rfl⟩ := hmem um hum
      exact hinv ut hut)
    (by
      have := (h3.map (·.1)).nodup_iff.2 (by simpa [List.map_map, Function.comp_def] using hnd)
      exact this)
    (by
      intro um hum x hx
      obtain ⟨ut, hut, rfl⟩ := hmem um hum
      obtain ⟨x0, hx0, rfl⟩ := List.mem_map.1 hx
      exact frameBack_ok f hf x0 (hok ut hut x0 hx0))
  exact ⟨d, mid, lines, h1, h2, h3, hw, hr,
    fun ut hut x hx => frameBack_close f hf x (hok ut hut x hx)⟩

/-- **C17_ctm_times**: what the round trip of `C17_ctm` means entry by entry. Every utterance
read back from the final ctm is an utterance of the original that has tokens, and its entries
are — up to the order `write_ctm` mandates (by start, end, token) — the original entries with
the same tokens and every start in `(start − shift, start]`, every end in
`(end − shift, end + shift)`, `shift = f / 1000` s: "times within one frame". No utterance that
has tokens is lost. -/
theorem C17_ctm_times (f : Rat) (wc : String → String × String) (ts mid : Transcripts)
    (hmid : mid.Perm (ts.map (fun ut => (ut.1, ut.2.map (frameBack f)))))
    (hclose : ∀ ut ∈ ts, ∀ x ∈ ut.2, CloseT (f / 1000) x (frameBack f x)) :
    (∀ ut' ∈ specCtm wc mid, ∃ ut ∈ ts, ut'.1 = ut.1 ∧ ut.2 ≠ [] ∧
      ∃ l, ut'.2.Perm l ∧ List.Forall₂ (CloseT (f / 1000)) ut.2 l) ∧
    ((specCtm wc mid).map (·.1)).Perm ((ts.filter (fun ut => !ut.2.isEmpty)).map (·.1)) := by
  constructor
  · intro ut' h'
    obtain ⟨um, hum, e1, hp, hne, _⟩ := C11_ctm_spec_mem wc mid ut' h'
    obtain ⟨ut, hut, rfl⟩ := List.mem_map.1 (hmid.mem_iff.1 hum)
    refine ⟨ut, hut, e1, ?_, ut.2.map (frameBack f), hp, ?_⟩
    · intro h0; apply hne; simp [h0]
    · rw [List.forall₂_map_right_iff, List.forall₂_same]
      exact fun x hx => hclose ut hut x hx
  · refine (C11_ctm_spec_order wc mid).1.trans ?_
    have h1 := (hmid.filter (fun ut => !ut.2.isEmpty)).map (·.1)
    refine h1.trans ?_
    apply List.Perm.of_eq
    rw [List.filter_map, List.map_map]
    have : ((fun (ut : String × List Timed) => !ut.2.isEmpty) ∘
        fun (ut : String × List Timed) => (ut.1, ut.2.map (frameBack f)))
        = fun ut => !ut.2.isEmpty := by
      funext ut; simp
    rw [this]
    rfl

/-- The hypotheses of `C17_ctm_times` are satisfiable (they are conclusions of `C17_ctm`). -/
example : ∀ ut' ∈ specCtm (fun u => (u, "A"))
      ([("u", [("a", (1/4 : Rat), (1/2 : Rat))])].map (fun ut => (ut.1, ut.2.map (frameBack 10)))),
    ∃ ut ∈ [("u", [("a", (1/4 : Rat), (1/2 : Rat))])], ut'.1 = ut.1 ∧ ut.2 ≠ [] ∧
      ∃ l, ut'.2.Perm l ∧ List.Forall₂ (CloseT (10 / 1000)) ut.2 l :=
  (C17_ctm_times 10 _ _ _ (List.Perm.refl _) (fun ut hut x hx => by
    apply frameBack_close 10 (by norm_num)
    simp only [List.mem_cons, List.not_mem_nil, or_false] at hut
    subst hut
    simp only [List.mem_cons, List.not_mem_nil, or_false] at hx
    subst hx
    simp [timedOk]; norm_num)).1

/-- The hypotheses of `C17_ctm` are satisfiable: two utterances, a zero-length token, 10 ms. -/
example : ∃ d mid lines,
    timedToDir "p_".toList ".pt".toList [(.s "a", 3), (.s "b", 5)] 10 none
      (ctmItems [("u2", [("b", 1/2, 1/2)]), ("u1", [("a", 1/64, 1/32), ("b", 1/4, 1/2)])]) = .ok d ∧
    dirToTimed (fun a b => decide (a ≤ b)) "p_".toList ".pt".toList [(3, .s "a"), (5, .s "b")] 10 d
      = some mid ∧
    mid.Perm ([("u1", [("a", 1/64, 1/32), ("b", 1/4, 1/2)]), ("u2", [("b", 1/2, 1/2)])].map
      (fun ut => (ut.1, ut.2.map (frameBack 10)))) ∧
    writeCtm (.chan "A") mid = .ok lines ∧
    readCtm none lines = .ok (specCtm (fun u => (u, "A")) mid) ∧
    ∀ ut ∈ [("u1", [("a", (1/64 : Rat), (1/32 : Rat)), ("b", 1/4, 1/2)]), ("u2", [("b", 1/2, 1/2)])],
      ∀ x ∈ ut.2, CloseT (10 / 1000) x (frameBack 10 x) := by
  apply C17_ctm (fun a b => decide (a ≤ b))
    (by intro a b c h1 h2; simp only [decide_eq_true_eq] at *; exact le_trans h1 h2)
    (by intro a b; simp only [Bool.or_eq_true, decide_eq_true_eq]; exact le_total a b)
    _ _ _ _ none 10 (by norm_num) (.chan "A") none (fun u => (u, "A"))
  · exact List.Perm.swap _ _ _
  · decide
  · intro ut hut x hx
    simp only [List.mem_cons, List.not_mem_nil, or_false] at hut
    rcases hut with rfl | rfl <;> simp only [List.mem_cons, List.not_mem_nil, or_false] at hx
    · rcases hx with rfl | rfl
      · exact ⟨3, by decide, by decide⟩
      · exact ⟨5, by decide, by decide⟩
    · subst hx; exact ⟨5, by decide, by decide⟩
  · intro ut hut x hx
    simp only [List.mem_cons, List.not_mem_nil, or_false] at hut
    rcases hut with rfl | rfl <;> simp only [List.mem_cons, List.not_mem_nil, or_false] at hx
    · rcases hx with rfl | rfl <;> simp [timedOk] <;> norm_num
    · subst hx; simp [timedOk]
  · intro ut _; rfl
  · intro ut _; rfl

end Ctm

/-! ## TextGrid -> token dir -> TextGrid, one file through the two commands -/
section TextGrid
open PdtVerif.Transcripts (Timed Tok TierId TgSort TgWriteOpts timedOk readTextGrid writeTextGrid
  writeTextGridVia isPointTier readBack fmt minList maxList tgForwarded C11_textgrid_roundtrip
  C11_textgrid)

/-- **C17_textgrid**: one utterance through `textgrids-to-torch-token-data-dir` and
`torch-token-data-dir-to-textgrids --infer` (file naming: `C17_names_textgrid`; independence of
the pool's order: `C17_perm`). `t` is what `read_textgrid` returned for the input file — a
non-empty interval tier in tier order, `0 ≤ start < end` — for every frame shift `f > 0` ms,
every vocabulary whose `id2token` inverts `token2id` on the tokens present, every `unk` setting,
tier name and print precision: the rows are written; they pass the test of method 1 (interval
tier); the inferred length `T = max frame · f / 1000` is accepted as `end_time` and `0.0` as
`start_time`; `write_textgrid` (through its path branch, which drops `point_tier`) succeeds; and
reading the written TextGrid (by index 0, −1 or by the tier's name) returns, in the same order,
the entries `frameBack f x` rounded to the print precision. Each `frameBack f x` is within one
frame of `x` (same token, start in `(start − shift, start]`, end in `(end − shift, end + shift)`),
and the print rounding moves a time by at most half a unit of the last printed digit:
"times within one frame" (+ print rounding). -/
theorem C17_textgrid (t2i : List (Tok × Int)) (i2t : List (Int × Tok)) (unk : Option Tok)
    (f : Rat) (hf : 0 < f) (tierName : String) (prec : Nat) (tier : TierId)
    (t : List Timed) (hne : t ≠ [])
    (hsorted : t.Pairwise (fun a b => a.2.1 ≤ b.2.1))
    (hpos : ∀ x ∈ t, 0 ≤ x.2.1 ∧ x.2.1 < x.2.2)
    (hvocab : ∀ x ∈ t, ∃ id, t2i.lookup (.s x.1) = some id ∧ i2t.lookup id = some (.s x.1))
    (htier : tier = .idx 0 ∨ tier = .idx (-1) ∨ tier = .name tierName) :
    ∃ rows g,
      saveRows t2i f unk t = .ok rows ∧
      tokToTextGrid tgForwarded i2t f tierName prec rows = .ok g ∧
      readTextGrid .byStart g tier none = .ok
        ((t.map (frameBack f)).map
            (readBack prec (isPointTier (t.map (frameBack f)) { precision := prec })),
          (fmt prec (minList ((t.map (frameBack f)).map (·.2.1)))).val,
          (fmt prec (maxList ((t.map (frameBack f)).map (·.2.2)))).val) ∧
      ∀ x ∈ t, CloseT (f / 1000) x (frameBack f x) ∧
        (let y := readBack prec (isPointTier (t.map (frameBack f)) { precision := prec })
            (frameBack f x)
         y.1 = x.1 ∧
         (frameBack f x).2.1 - (1/2) / ((10 ^ prec : Nat) : Rat) ≤ y.2.1 ∧
         y.2.1 ≤ (frameBack f x).2.1 + (1/2) / ((10 ^ prec : Nat) : Rat) ∧
         (frameBack f x).2.2 - (1/2) / ((10 ^ prec : Nat) : Rat) ≤ y.2.2 ∧
         y.2.2 ≤ (frameBack f x).2.2 + (1/2) / ((10 ^ prec : Nat) : Rat)) := by
  have hokx : ∀ x ∈ t, timedOk x = true :=
    fun x hx => (timedOk_iff x).2 ⟨(hpos x hx).1, (hpos x hx).2.le⟩
  set t2 := t.map (frameBack f) with ht2
  set rows := t.map (rowF t2i f) with hrows
  let o : TgWriteOpts :=
    ⟨some 0, some (tgLength f rows), tierName, none, prec⟩
  have hne2 : t2 ≠ [] := by
    intro h; apply hne; simpa [ht2] using h
  have hsorted2 : t2.Pairwise (fun a b => a.2.1 ≤ b.2.1) := by
    rw [ht2, List.pairwise_map]
    exact hsorted.imp (fun h => frameBack_start_mono f hf _ _ h)
  have hst : ∀ s0, o.startTime = some s0 → s0 ≤ minList (t2.map (·.2.1)) := by
    intro s0 hs0
    have : s0 = 0 := by
      have := Option.some.inj hs0; exact this.symm
    subst this
    apply le_minList
    · intro h; apply hne2; simpa using h
    · intro y hy
      obtain ⟨x2, hx2, rfl⟩ := List.mem_map.1 hy
      obtain ⟨x, hx, rfl⟩ := List.mem_map.1 hx2
      exact ((timedOk_iff _).1 (frameBack_ok f hf x (hokx x hx))).1
  have hen : ∀ e0, o.endTime = some e0 → maxList (t2.map (·.2.2)) ≤ e0 := by
    intro e0 he0
    have : e0 = tgLength f rows := (Option.some.inj he0).symm
    subst this
    apply maxList_le
    · intro h; apply hne2; simpa using h
    · intro y hy
      obtain ⟨x2, hx2, rfl⟩ := List.mem_map.1 hy
      obtain ⟨x, hx, rfl⟩ := List.mem_map.1 hx2
      have hmem : rowF t2i f x ∈ rows := List.mem_map.2 ⟨x, hx, rfl⟩
      have hle := (le_maxFrame rows _ hmem).2
      have hc : (((rowF t2i f x).2.2 : Int) : Rat) ≤ ((maxFrame rows : Int) : Rat) := by
        exact_mod_cast hle
      have := mul_le_mul_of_nonneg_right hc hf.le
      exact div_le_div_of_nonneg_right this (by norm_num)
  obtain ⟨g, hw, _, hread⟩ := C11_textgrid_roundtrip t2 o tier hne2 hsorted2 hst hen htier
  have hvia : writeTextGridVia tgForwarded t2 (tgOpts (tgLength f rows) tierName false prec)
      = writeTextGrid t2 o := rfl
  refine ⟨rows, g, saveRows_ok t2i f unk t (fun x hx => by
    obtain ⟨id, h, _⟩ := hvocab x hx
    exact ⟨id, h⟩), ?_, hread, ?_⟩
  · have hm1 : tgMethod1 rows = true := rowF_method1 t2i f hf t hpos
    have hback : backTimed i2t f rows = some t2 := backTimed_ok t2i i2t f hf t hvocab hokx
    have hnr : rows.isEmpty = false := by
      cases t with
      | nil => exact absurd rfl hne
      | cons _ _ => simp [hrows]
    simp only [tokToTextGrid, hnr, hm1, Bool.not_true, Bool.false_eq_true, if_false, hback, hvia, hw]
  · intro x hx
    refine ⟨frameBack_close f hf x (hokx x hx), ?_⟩
    have := C11_textgrid t2 o (by intro h; exact absurd h (by simp [o]))
      (frameBack f x) (List.mem_map.2 ⟨x, hx, rfl⟩)
    exact this

/-- The hypotheses of `C17_textgrid` are satisfiable: two adjacent intervals, 10 ms frames. -/
example : ∃ rows g,
    saveRows [(.s "a", 3), (.s "b", 5)] 10 none [("a", 1/64, 1/8), ("b", 1/8, 1/2)] = .ok rows ∧
    tokToTextGrid tgForwarded [(3, .s "a"), (5, .s "b")] 10 "transcript" 3 rows = .ok g := by
  obtain ⟨rows, g, h1, h2, _, _⟩ := C17_textgrid [(.s "a", 3), (.s "b", 5)]
    [(3, .s "a"), (5, .s "b")] none 10 (by norm_num) "transcript" 3 (.idx 0)
    [("a", 1/64, 1/8), ("b", 1/8, 1/2)] (by simp) (by simp; norm_num)
    (by
      intro x hx
      simp only [List.mem_cons, List.not_mem_nil, or_false] at hx
      rcases hx with rfl | rfl <;> norm_num)
    (by
      intro x hx
      simp only [List.mem_cons, List.not_mem_nil, or_false] at hx
      rcases hx with rfl | rfl
      · exact ⟨3, by decide, by decide⟩
      · exact ⟨5, by decide, by decide⟩)
    (.inl rfl)
  exact ⟨rows, g, h1, h2⟩

/-- **C17_textgrid_empty** — the hypothesis `t ≠ []` of `C17_textgrid` is necessary. A TextGrid
whose tier has no interval (which `read_textgrid` accepts) is stored by
`textgrids-to-torch-token-data-dir` as a tensor without rows, and the inverse command refuses it:
`ref[..., 1:].max()` on an empty tensor is a `RuntimeError` (and `write_textgrid` refuses an empty
transcript anyway), whatever the vocabulary, frame shift, tier name and precision. Modelled as a
refusal, like the empty alignment (`C17_rle_empty`); replayed on the implementation by the
`empty_tier` cases of the textgrid generator and `corpus/C17/textgrid-empty-tier.json`. -/
theorem C17_textgrid_empty (fwd : List String) (t2i : List (Tok × Int)) (i2t : List (Int × Tok))
    (unk : Option Tok) (f : Rat) (tierName : String) (prec : Nat) :
    saveRows t2i f unk [] = .ok [] ∧
      tokToTextGrid fwd i2t f tierName prec [] = .error .emptyMax :=
  ⟨rfl, rfl⟩

end TextGrid

end PdtVerif.CommandLine
