import PdtVerif.Lemmas.CtcAlign
import PdtVerif.Lemmas.CtcPrefix
import PdtVerif.Lemmas.CtcRefine
import PdtVerif.Lemmas.CtcTopK
import PdtVerif.Lemmas.CtcModule
import PdtVerif.Lemmas.CtcFusion
import PdtVerif.Lemmas.CtcNorm
import PdtVerif.Lemmas.CtcNormArray
import PdtVerif.Model.CtcFast
/-!
# C05 — CTC prefix search reports true prefix mass, never more, never NaN

Property theorems only.  Three layers:

* `Ctc.mass` — the true mass of a prefix: sum over all alignments that collapse to it;
* `Ctc.beamRun` — the standard prefix-beam recursion on a finite map, pruned per frame to a
  set of survivors (`IsTopK` = "a legitimate best-`width` choice");
* `CtcPrefix.advance` / `search` — the array code of `ctc_prefix_search_advance` and the
  module loop (`fix = false`: pinned; `fix = true`: with `fixes/C05-inert-invalid-slots.diff`).

Proved for all inputs: the map recursion never exceeds the true mass (`C05_sub`), equals it
when nothing is pruned (`C05_exact_unpruned`), the forward variables are the alignment
sums (`C05_forward_eq_mass`), the shape clauses (`C05_shape`), frames beyond an element's
length do not change its result (`C05_batch`), filler sits behind with mass `-inf`
(`C05_filler`).  The pinned array code violates "never NaN" and "slots without a prefix are
inert": `C05_nan_counterexample`, `C05_poison_counterexample` (both replayed on the
implementation, `corpus/C05/`).  The repaired array code never produces NaN or `+inf` (`C05_no_nan`), keeps its prefix matrix
correct (`C05_isprefix_inv`) and computes exactly the map recursion (`C05_refines_step`,
`C05_refines`), hence reports at most the true mass and exactly the true mass when nothing is
pruned (`C05_array_sub`, `C05_array_exact_unpruned`).
-/

namespace PdtVerif.Ctc

/-- **C05_forward_eq_mass** (appendix A5): for every vocabulary size, every sequence of
frames (with or without fused extension scores) and every prefix, the forward variables
`NB_T p + B_T p` equal the sum over all alignments of length `T` that collapse to `p`. -/
theorem C05_forward_eq_mass (V : Nat) (frames : List Frame) (p : List Nat) :
    (exact V frames p).1 + (exact V frames p).2 = mass V frames p :=
  exact_eq_mass V frames p

/-- **C05_alignments**: the sum in `mass` ranges over exactly the alignments of length `T` over
the symbols `0 … V` (tokens and blank), each exactly once. -/
theorem C05_alignments (V T : Nat) :
    (∀ a, a ∈ allAlign V T ↔ a.length = T ∧ ∀ s ∈ a, s ≤ V) ∧ (allAlign V T).Nodup ∧
      (allAlign V T).length = (V + 1) ^ T :=
  ⟨fun _ => mem_allAlign, nodup_allAlign V T, length_allAlign V T⟩

/-- **C05_mass_collapse**: `mass p` is the sum of the path weights of the alignments whose
textbook collapse (merge adjacent repeats, then drop blanks) is `p`. -/
theorem C05_mass_collapse (V : Nat) (frames : List Frame) (p : List Nat) :
    mass V frames p =
      ((allAlign V frames.length).map (fun a =>
        if collapse V a = p then (runAlign V frames a).w else 0)).sum :=
  mass_eq_collapse_sum V frames p

/-- **C05_sub**: whatever survivors are chosen at each frame (any width, any tie-breaking,
any pruning whatsoever), the mass the prefix-beam recursion reports for a prefix is
non-negative and never more than the prefix's true mass. -/
theorem C05_sub (V : Nat) (frames : List Frame) (keeps : List (List (List Nat)))
    (hf : ∀ f ∈ frames, f.Nonneg) (hlen : keeps.length = frames.length) (p : List Nat) :
    0 ≤ (beamRun V frames keeps beamInit).total p ∧
    (beamRun V frames keeps beamInit).total p ≤ mass V frames p := by
  have h0 : NonnegFn beamInit.get := by
    intro q
    by_cases h : q = []
    · subst h; simp [Beam.get, beamInit, List.lookup]
    · have : (q == []) = false := by simpa using h
      simp [Beam.get, beamInit, List.lookup, this]
  have hle : LeFn beamInit.get exactInit := by
    intro q
    by_cases h : q = []
    · subst h; simp [Beam.get, beamInit, List.lookup, exactInit]
    · have : (q == []) = false := by simpa using h
      simp [Beam.get, beamInit, List.lookup, this, exactInit, h]
  have hmain := beamRun_le V frames keeps beamInit exactInit hf hlen h0 hle p
  have hnn := beamRun_nonneg V frames keeps beamInit hf h0 p
  rw [← exact_eq_mass]
  unfold Beam.total exact
  exact ⟨add_nonneg hnn.1 hnn.2, add_le_add hmain.1 hmain.2⟩

/-- **C05_exact_unpruned**: when every candidate of every frame survives (the width never
forces a prefix out), the reported mass of every prefix is exactly its true mass. -/
theorem C05_exact_unpruned (V : Nat) (frames : List Frame) (keeps : List (List (List Nat)))
    (hu : Unpruned V frames keeps beamInit) (p : List Nat) :
    (beamRun V frames keeps beamInit).total p = mass V frames p := by
  have hinit : ∀ q, beamInit.get q = exactInit q := by
    intro q
    by_cases h : q = []
    · subst h; simp [Beam.get, beamInit, List.lookup, exactInit]
    · have : (q == []) = false := by simpa using h
      simp [Beam.get, beamInit, List.lookup, this, exactInit, h]
  have := beamRun_eq V frames keeps beamInit exactInit hu hinit p
  rw [← exact_eq_mass]
  unfold Beam.total exact
  rw [this]

/-- **C05_shape**: with a legitimate best-`width` choice at every frame, the surviving
prefixes are pairwise distinct, contain only tokens `< V` (no blank), are no longer than the
number of frames, are listed by non-increasing mass, and there are at most `width` of them. -/
theorem C05_shape (V width : Nat) (hw : 0 < width) (frames : List Frame)
    (keeps : List (List (List Nat))) (h : ValidRun V width frames keeps beamInit) :
    let out := beamRun V frames keeps beamInit
    out.keys.Nodup ∧
    (∀ p ∈ out.keys, p.length ≤ frames.length ∧ ∀ x ∈ p, x < V) ∧
    out.Pairwise (fun e₁ e₂ => e₂.2.1 + e₂.2.2 ≤ e₁.2.1 + e₁.2.2) ∧
    out.length ≤ width := by
  have hinv : BeamInv V 0 beamInit := by
    refine ⟨by simp [Beam.keys, beamInit], ?_⟩
    intro p hp
    have : p = [] := by simpa [Beam.keys, beamInit] using hp
    subst this
    simp
  have hs : BeamSorted beamInit := by simp [BeamSorted, beamInit]
  have hl : beamInit.length ≤ width := by simp only [beamInit, List.length_singleton]; omega
  obtain ⟨⟨a, b⟩, c, d⟩ := shape_run V width frames keeps beamInit 0 h hinv hs hl
  exact ⟨a, by simpa using b, c, d⟩

/-- The reported entries are the forward recursion of the previous map at the kept
prefixes — in particular the order of the output is the order of the selection.
(Audit: a statement about the SPECIFICATION recursion `beamStep` only — it reads its definition out
pointwise, `stepFn` being the textbook forward step; it says nothing about the array code. The link to the
code is `C05_refines_step`.) -/
theorem C05_step_values (V : Nat) (f : Frame) (keep : List (List Nat)) (bm : Beam) (p : List Nat) :
    (beamStep V f keep bm).get p =
      if p ∈ keep ∧ p ∈ cands V bm then stepFn V f bm.get p else (0, 0) :=
  get_beamStep V f keep bm p

/-! Non-vacuity: two frames over one token, all probabilities 1/2, width 2. -/
def exFrame : Frame := { blank := 1/2, tok := fun _ => 1/2, ext := fun _ _ => 1/2 }

theorem half_nonneg : (0 : Rat) ≤ 1 / 2 := by decide +kernel
example : exFrame.Nonneg := ⟨half_nonneg, fun _ => half_nonneg, fun _ _ => half_nonneg⟩

example : mass 1 [exFrame, exFrame] [0] = 3/4 := by decide +kernel
example : mass 1 [exFrame, exFrame] [] = 1/4 := by decide +kernel
example : (beamRun 1 [exFrame, exFrame] [[[0], []], [[0], []]] beamInit).total [0] = 3/4 := by
  decide +kernel
/-- a run that prunes (`[0,0]` is dropped at the second frame) and a run that does not -/
example : isTopKB 1 exFrame 2 beamInit [[0], []] = true := by decide +kernel
example : isTopKB 1 exFrame 2 (beamStep 1 exFrame [[0], []] beamInit) [[0], []] = true := by
  decide +kernel
/-- `ValidRun` / `IsTopK` are satisfiable: one frame, width 2, both candidates kept -/
example : ValidRun 1 2 [exFrame] [[[0], []]] beamInit :=
  ⟨⟨by decide +kernel, by decide +kernel, by decide +kernel, by decide +kernel, by decide +kernel⟩, trivial⟩
/-- width 1 prunes: only one of the two candidates (tied at 1/2) survives -/
example : ValidRun 1 1 [exFrame] [[[0]]] beamInit :=
  ⟨⟨by decide +kernel, by decide +kernel, by decide +kernel, by decide +kernel, by decide +kernel⟩, trivial⟩
example : Unpruned 1 [exFrame] [[[0], []]] beamInit := by
  refine ⟨?_, trivial⟩
  intro p hp
  have : p ∈ [[], [0]] := by simpa [cands, Beam.keys, beamInit] using hp
  rcases List.mem_cons.1 this with rfl | h
  · simp
  · have : p = [0] := by simpa using h
    subst this; simp

/-! ## Normalisation and monotonicity of prefix masses (improvement round 3) -/

/-- **C05_total_mass** (normalisation): if every frame is sub-stochastic — non-negative weights and, from
every reading state `(prefix, symbol just read)`, `blank + Σ_v (repeat weight of v if v was just read, else
the weight of extending the prefix by v) ≤ 1`, see `outW` — then the true masses of ANY pairwise distinct
prefixes add up to at most one (and each is non-negative).  Frames without fusion (`ext q v = tok v`) are
sub-stochastic as soon as `blank + Σ_v tok v ≤ 1` (`subStoch_plain`): the softmax frames of the search. -/
theorem C05_total_mass (V : Nat) (frames : List Frame) (hf : ∀ f ∈ frames, f.SubStoch V)
    (ps : List (List Nat)) (hnd : ps.Nodup) :
    (∀ p, 0 ≤ mass V frames p) ∧ (ps.map (mass V frames)).sum ≤ 1 :=
  ⟨mass_nonneg V frames (fun f h => (hf f h).nonneg),
   le_trans (sum_mass_le_total V frames (fun f h => (hf f h).nonneg) ps hnd) (totalW_le_one V frames hf)⟩

/-- **C05_total_mass_eq**: with stochastic frames (outgoing weight exactly one from every state: frames of
probabilities without fusion, `stoch_plain`) the masses of pairwise distinct prefixes that cover the
collapse of every alignment add up to exactly one: `mass` is a probability distribution over prefixes. -/
theorem C05_total_mass_eq (V : Nat) (frames : List Frame) (hf : ∀ f ∈ frames, f.Stoch V)
    (ps : List (List Nat)) (hnd : ps.Nodup)
    (hall : ∀ a ∈ allAlign V frames.length, collapse V a ∈ ps) :
    (ps.map (mass V frames)).sum = 1 := by
  rw [sum_mass_eq_total V frames ps hnd, totalW_eq_one V frames hf]
  intro st hst
  simp only [finals, List.mem_map] at hst
  obtain ⟨a, ha, rfl⟩ := hst
  rw [runAlign_pre V frames a (length_of_mem_allAlign ha)]
  exact hall a ha

/-- **C05_prefix_mass** — `prefixMass p` is Graves' prefix probability: the total weight of the alignments
whose textbook collapse STARTS with `p`. -/
theorem C05_prefix_mass (V : Nat) (frames : List Frame) (p : List Nat) :
    prefixMass V frames p =
      ((allAlign V frames.length).map (fun a =>
        if p <+: collapse V a then (runAlign V frames a).w else 0)).sum := by
  rw [prefixMass_eq]
  unfold finals
  rw [List.map_map]
  congr 1
  apply List.map_congr_left
  intro a ha
  simp only [Function.comp]
  rw [runAlign_pre V frames a (length_of_mem_allAlign ha)]

/-- **C05_prefix_split** (monotonicity): for all frames (with or without fusion, any weights) and every
prefix, the prefix probability of `p` is the mass of `p` itself plus the prefix probabilities of its `V`
one-token extensions.  With non-negative weights therefore: the one-token extensions of a prefix together
never outweigh it, a prefix's own mass never exceeds its prefix probability, a longer prefix is never more
probable than a shorter one it starts with, and nothing outweighs the empty prefix, whose prefix
probability is the total weight of all alignments (at most one for sub-stochastic frames). -/
theorem C05_prefix_split (V : Nat) (frames : List Frame) (p : List Nat) :
    prefixMass V frames p
      = mass V frames p + ((List.range V).map (fun v => prefixMass V frames (p ++ [v]))).sum ∧
    ((∀ f ∈ frames, f.Nonneg) →
      ((List.range V).map (fun v => prefixMass V frames (p ++ [v]))).sum ≤ prefixMass V frames p ∧
      mass V frames p ≤ prefixMass V frames p ∧
      (∀ q, p <+: q → prefixMass V frames q ≤ prefixMass V frames p) ∧
      prefixMass V frames p ≤ prefixMass V frames []) ∧
    ((∀ f ∈ frames, f.SubStoch V) → prefixMass V frames [] ≤ 1) := by
  have hs := prefixMass_split V frames p
  refine ⟨hs, ?_, ?_⟩
  · intro hf
    have h1 := mass_nonneg V frames hf p
    have h2 : 0 ≤ ((List.range V).map (fun v => prefixMass V frames (p ++ [v]))).sum :=
      sum_map_nonneg _ _ (fun v _ => prefixMass_nonneg V frames hf _)
    refine ⟨by linarith, by linarith, fun q hq => prefixMass_mono V frames hf hq,
      prefixMass_mono V frames hf List.nil_prefix⟩
  · intro hf
    rw [prefixMass_nil]
    exact totalW_le_one V frames hf

/-! Non-vacuity: the two-token frame of the audit (`blank = 1/4`, `tok = (1/2, 1/4)`, no fusion) -/
def nmFrame : Frame :=
  { blank := 1/4, tok := fun v => if v = 0 then 1/2 else 1/4, ext := fun _ v => if v = 0 then 1/2 else 1/4 }

theorem nmFrame_stoch : nmFrame.Stoch 2 := by
  refine stoch_plain ⟨by decide +kernel, fun v => ?_, fun _ v => ?_⟩ (fun _ _ => rfl) (by decide +kernel)
  all_goals (simp only [nmFrame]; split <;> decide +kernel)

example : ([[], [0], [1], [0, 1], [1, 0], [0, 0], [1, 1]].map (mass 2 [nmFrame, nmFrame])).sum = 1 := by
  decide +kernel
/-- `5/8 = 1/2 + (0 + 1/8)`: the prefix probability of `[0]`, its own mass, its extensions `[0,0]`, `[0,1]` -/
example : prefixMass 2 [nmFrame, nmFrame] [0] = 5/8 ∧ mass 2 [nmFrame, nmFrame] [0] = 1/2 ∧
    prefixMass 2 [nmFrame, nmFrame] [0, 0] = 0 ∧ prefixMass 2 [nmFrame, nmFrame] [0, 1] = 1/8 := by
  decide +kernel

/-! Audit (round e): the four theorems above APPLIED to this instance, all hypotheses together (the two
`example`s above only evaluate the sums). -/

theorem nmFrames_stoch : ∀ f ∈ [nmFrame, nmFrame], f.Stoch 2 := by
  intro f hf
  simp only [List.mem_cons, List.mem_nil_iff, or_false, or_self] at hf
  subst hf; exact nmFrame_stoch

-- C05_total_mass on three distinct prefixes (not all of them): 1/2 + 3/16 + 1/8 = 13/16 ≤ 1
example : (∀ p, 0 ≤ mass 2 [nmFrame, nmFrame] p) ∧
    ([[0], [1], [0, 1]].map (mass 2 [nmFrame, nmFrame])).sum ≤ 1 :=
  C05_total_mass 2 [nmFrame, nmFrame] (fun f hf => (nmFrames_stoch f hf).sub) [[0], [1], [0, 1]] (by decide)
example : ([[0], [1], [0, 1]].map (mass 2 [nmFrame, nmFrame])).sum = 13/16 := by decide +kernel

-- C05_total_mass_eq: the seven prefixes cover the collapse of each of the nine alignments (`hall` by evaluation)
example : ([[], [0], [1], [0, 1], [1, 0], [0, 0], [1, 1]].map (mass 2 [nmFrame, nmFrame])).sum = 1 :=
  C05_total_mass_eq 2 [nmFrame, nmFrame] nmFrames_stoch _ (by decide) (by decide +kernel)

-- C05_prefix_mass: the right-hand side (sum over the nine alignments whose collapse starts with `[0]`) is 5/8
example := C05_prefix_mass 2 [nmFrame, nmFrame] [0]
example : ((allAlign 2 2).map (fun a =>
    if ([0] : List Nat).isPrefixOf (collapse 2 a) then (runAlign 2 [nmFrame, nmFrame] a).w else 0)).sum = 5/8 := by
  decide +kernel

-- C05_prefix_split: both conditional parts with their premises discharged
example := (C05_prefix_split 2 [nmFrame, nmFrame] [0]).2.1 (fun f hf => (nmFrames_stoch f hf).nonneg)
example := (C05_prefix_split 2 [nmFrame, nmFrame] [0]).2.2 (fun f hf => (nmFrames_stoch f hf).sub)

/-- The limits of the normalisation theorem: the VALID-MIXTURE fusion formula of the module
(`(1-β)·tok + β·lm·(1-blank)`, here `β = 1` and a language model that forbids repeating token 0) does not
give sub-stochastic frames — after reading token 0 the outgoing weight is `blank + tok 0 + ext [0] 1 = 3/2`,
because a repeat is weighted by the CTC probability and an extension by the fused one.  The "true mass" the
property speaks about is the sum over alignments of these weights; it is not a probability then. -/
def vmFrame : Frame :=
  { blank := 1/4, tok := fun v => if v = 0 then 1/2 else 1/4,
    ext := fun q v => if q.getLast? = some 0 then (if v = 0 then 0 else 3/4) else (if v = 0 then 1/2 else 1/4) }

example : outW 2 vmFrame [0] (some 0) = 3/2 := by decide +kernel
example : ¬ vmFrame.SubStoch 2 := fun h => absurd (h.out [0] (some 0)) (by decide +kernel)

/-! ### Size classes (improvement round f): true mass of a reported prefix without enumerating alignments -/

/-- **C05_closed_survivors**: run the prefix-beam recursion with the SAME survivors `Q` at every frame, `Q`
closed under taking the parent (`dropLast`).  Then every member of `Q` carries exactly its TRUE mass — the sum
over all `(V+1)^T` alignments that collapse to it — for every vocabulary, every number of frames, every frame
(fused or not; no sign condition), however little of the total mass `Q` holds.  This is what the driver's
`massDP` computes for the prefixes a wide-beam / large-vocabulary case reports (`Q` = all prefixes of the
reported prefixes): the oracle of "never more than the true mass" where `(V+1)^T` alignments cannot be
enumerated (e.g. `18^4`, `258^3`). -/
theorem C05_closed_survivors (V : Nat) (frames : List Frame) (Q : List (List Nat))
    (hQ : ∀ q ∈ Q, q.dropLast ∈ Q) (q : List Nat) (hq : q ∈ Q) :
    (beamRun V frames (List.replicate frames.length Q) beamInit).total q = mass V frames q := by
  have hinit : ∀ q ∈ Q, beamInit.get q = exactInit q := by
    intro q _
    by_cases h : q = []
    · subst h; simp [Beam.get, beamInit, exactInit]
    · have : (q == []) = false := by simpa using h
      simp [Beam.get, beamInit, List.lookup, this, exactInit, h]
  have := beamRun_closed V Q hQ frames beamInit exactInit hinit q hq
  rw [← exact_eq_mass]
  unfold Beam.total exact
  rw [this]

/-! Non-vacuity: `Q = {[], [0], [0,1]}` (closed; 3 of the 7 prefixes two frames can produce, holding
`1/16 + 1/2 + 1/8` of the mass) on the two-token frames of the audit; the value is the enumeration's. -/
example : (beamRun 2 [nmFrame, nmFrame] (List.replicate 2 [[], [0], [0, 1]]) beamInit).total [0, 1]
    = mass 2 [nmFrame, nmFrame] [0, 1] :=
  C05_closed_survivors 2 [nmFrame, nmFrame] [[], [0], [0, 1]] (by decide) [0, 1] (by decide)
example : mass 2 [nmFrame, nmFrame] [0, 1] = 1/8 ∧ mass 2 [nmFrame, nmFrame] [0] = 1/2 ∧
    mass 2 [nmFrame, nmFrame] [] = 1/16 := by decide +kernel
/-- the hypothesis matters: with the parent `[0]` missing from the survivors, `[0,1]` is left with nothing -/
example : (beamRun 2 [nmFrame, nmFrame] (List.replicate 2 [[], [0, 1]]) beamInit).total [0, 1] = 0 := by
  decide +kernel

end PdtVerif.Ctc

namespace PdtVerif.CtcPrefix

/-! ## The array code -/

def q4 : XR := .fin (1/4)
def h2 : XR := .fin (1/2)

/-- Two frames over two tokens (token probabilities 1/4, blank 1/2), width 9.  The
selections are the ones `torch.topk` returned on the pinned tree
(`corpus/C05/nan_width_exceeds_live.json`); 7 candidates are alive at the second frame. -/
def nanFrames : List FrameIn := [
  { ext := [[q4, q4]], nonext := [q4, q4], blank := h2, sel := some [2, 0, 1] },
  { ext := List.replicate 9 [q4, q4], nonext := [q4, q4], blank := h2,
    sel := some [20, 19, 18, 3, 4, 5, 2, 16, 17] }]

/-- **C05_nan_counterexample** (pinned code): every selection is a legitimate `topk` answer,
no probability is zero, and yet the result contains NaN — `b_nonext.gather(src) *
next_is_nonext` is `-inf * 0` for an extension candidate of a filler slot. -/
theorem C05_nan_counterexample :
    ((search false 2 9 2 nanFrames).2.all
        (fun o => isTopK o.cand (min 9 o.cand.length) o.sel)) = true ∧
    (search false 2 9 2 nanFrames).1.probs.any XR.isNan = true := by
  decide +kernel

/-- With the repair the same run (same selections, still legitimate) is NaN-free and
reports the seven real prefixes with their exact masses, filler behind. -/
theorem C05_nan_repaired :
    ((search true 2 9 2 nanFrames).2.all
        (fun o => isTopK o.cand (min 9 o.cand.length) o.sel)) = true ∧
    (search true 2 9 2 nanFrames).1.probs =
      [.fin (5/16), .fin (5/16), .fin (1/4), .fin (1/16), .fin (1/16), .fin 0, .fin 0,
       .negInf, .negInf] := by
  decide +kernel

/-- Five frames over one token, all probabilities 1/2, width 7 (six prefixes are
reachable, so nothing needs pruning).  Selections as returned by `torch.topk` on the pinned
tree (`corpus/C05/poison_neginf_duplicate.json`). -/
def poisonSels : List (List Nat) :=
  [[0, 1], [7, 8, 0, 9, 13, 12, 11], [7, 8, 9, 2, 11, 12, 0], [7, 9, 8, 3, 10, 11, 13],
   [8, 7, 9, 3, 10, 11, 13]]

def poisonFrames (sels : List (Option (List Nat))) : List FrameIn :=
  sels.zipIdx.map (fun (s, i) =>
    { ext := List.replicate (if i = 0 then 1 else 7) [h2], nonext := [h2], blank := h2, sel := s })

def halfFrame : Ctc.Frame := { blank := 1/2, tok := fun _ => 1/2, ext := fun _ _ => 1/2 }

/-- **C05_poison_counterexample** (pinned code): all selections legitimate, the beam is wider
than the set of reachable prefixes, prefix `(0,0,0)` has true mass 1/32 — and the search
reports `-inf` for it: the `-inf` copy of a merged extension stayed in the prefix matrix and
its `-inf` extension was added into the real prefix. -/
theorem C05_poison_counterexample :
    let r := search false 1 7 5 (poisonFrames (poisonSels.map some))
    (r.2.all (fun o => isTopK o.cand (min 7 o.cand.length) o.sel)) = true ∧
    Ctc.mass 1 (List.replicate 5 halfFrame) [0, 0, 0] = 1/32 ∧
    (∀ k, k < 7 → r.1.prefixes.getD k [] = [0, 0, 0] → getX r.1.probs k = XR.negInf) ∧
    r.1.prefixes.getD 5 [] = [0, 0, 0] := by
  decide +kernel

/-- The repaired code on the same frames (its own deterministic selection): all six
reachable prefixes with their true masses. -/
theorem C05_poison_repaired :
    let r := search true 1 7 5 (poisonFrames (List.replicate 5 none))
    r.1.prefixes = [[0], [0, 0], [], [0, 0, 0], [0, 0, 0, 0, 0], [0, 0, 0, 0], [0, 0]] ∧
    r.1.probs = [.fin (15/32), .fin (15/32), .fin (1/32), .fin (1/32), .fin 0, .fin 0, .negInf] ∧
    (List.range 6).map (fun n => Ctc.mass 1 (List.replicate 5 halfFrame) (List.replicate n 0))
      = [1/32, 15/32, 15/32, 1/32, 0, 0] := by
  decide +kernel

/-- **C05_no_nan** (repaired code, `fix = true`): for every vocabulary size, width, element
length, number of frames and every `topk` answer whatsoever — as long as the probabilities
handed to the step function are finite numbers (zeros allowed) — every reported probability
is a rational number or `-inf`: never NaN, never `+inf`.
(The pinned code violates this: `C05_nan_counterexample`.) -/
theorem C05_no_nan (V width len : Nat) (frames : List FrameIn) (hf : ∀ f ∈ frames, FrameFin f) :
    ∀ x ∈ (search true V width len frames).1.probs, (∃ q, x = XR.fin q) ∨ x = XR.negInf := by
  intro x hx
  have := search_clean V width len frames hf x hx
  cases x with
  | fin q => exact Or.inl ⟨q, rfl⟩
  | negInf => exact Or.inr rfl
  | posInf => simp [XR.clean] at this
  | nan => simp [XR.clean] at this

/-- one call of the repaired step function: non-blank and blank masses stay rational or `-inf` -/
theorem C05_no_nan_step (V width : Nat) (ext : List (List XR)) (nonext : List XR)
    (blank : XR) (st : State) (sel : Option (List Nat))
    (hnb : ∀ x ∈ st.nb, x.clean = true) (hb : ∀ x ∈ st.b, x.clean = true)
    (hext : ∀ r ∈ ext, ∀ x ∈ r, x.isFin = true) (hne : ∀ x ∈ nonext, x.isFin = true)
    (hbl : blank.isFin = true) :
    let o := (advance true V width ext nonext blank st sel).st
    (∀ x ∈ o.nb, x.clean = true) ∧ (∀ x ∈ o.b, x.clean = true) :=
  advance_clean V width ext nonext blank st sel hnb hb hext hne hbl

example : ∀ f ∈ nanFrames, FrameFin f := by
  intro f hf
  simp only [nanFrames, List.mem_cons, List.mem_nil_iff, or_false] at hf
  rcases hf with rfl | rfl <;> refine ⟨?_, ?_, rfl⟩ <;> simp [q4, h2, XR.isFin]

/-- **C05_slot_total** (repaired code): the total mass `nb + b` of output slot `j` is exactly the
candidate total that `topk` selected for it (so `-inf` candidates give `-inf` slots, and
nothing else does). -/
theorem C05_slot_total (V width : Nat) (ext : List (List XR)) (nonext : List XR)
    (blank : XR) (st : State) (s : List Nat)
    (hnb : ∀ x ∈ st.nb, x.clean = true) (hb : ∀ x ∈ st.b, x.clean = true)
    (hbl : blank.isFin = true)
    (j : Nat) (hj : j < min width (st.nb.length * (V + 1)))
    (hs : getN s j < st.nb.length * V + st.nb.length) :
    let o := advance true V width ext nonext blank st (some s)
    getX o.st.nb j + getX o.st.b j = getX o.cand (getN s j) :=
  advance_total V width ext nonext blank st s hnb hb hbl j hj hs

/-- **C05_sorted_step** (repaired code): with a legitimate `topk` answer the total masses of the
`width` output slots are non-increasing in torch's order (`-inf` last): real prefixes are
ordered by non-increasing probability and the slots without a prefix sit behind them. -/
theorem C05_sorted_step (V width : Nat) (ext : List (List XR)) (nonext : List XR)
    (blank : XR) (st : State) (s : List Nat)
    (hnb : ∀ x ∈ st.nb, x.clean = true) (hb : ∀ x ∈ st.b, x.clean = true)
    (hbl : blank.isFin = true)
    (hk : isTopK (advance true V width ext nonext blank st (some s)).cand
            (min width (st.nb.length * (V + 1))) s = true) :
    let o := advance true V width ext nonext blank st (some s)
    nonIncr ((List.range width).map (fun j => getX o.st.nb j + getX o.st.b j)) = true :=
  advance_sorted V width ext nonext blank st s hnb hb hbl hk

/-- **C05_sorted_array** (repaired code, module level): for an element all of whose frames are
valid, with finite probabilities and a legitimate last `topk` answer, the reported
probabilities are non-increasing. -/
theorem C05_sorted_array (V width : Nat) (fs : List FrameIn) (f : FrameIn) (s : List Nat)
    (hfs : ∀ g ∈ fs, FrameFin g) (hf : FrameFin f) (hsel : f.sel = some s)
    (hk : isTopK (advance true V width f.ext f.nonext f.blank
              (loop true V width (fs.length + 1) 0 initState fs).1 (some s)).cand
            (min width ((loop true V width (fs.length + 1) 0 initState fs).1.nb.length * (V + 1))) s = true) :
    nonIncr (search true V width (fs.length + 1) (fs ++ [f])).1.probs = true :=
  search_sorted V width fs f s hfs hf hsel hk

/-- the hypotheses are satisfiable: the second frame of `nanFrames` after the first -/
example :
    isTopK (advance true 2 9 (List.replicate 9 [q4, q4]) [q4, q4] h2
              (loop true 2 9 2 0 initState (nanFrames.take 1)).1
              (some [20, 19, 18, 3, 4, 5, 2, 16, 17])).cand
      (min 9 ((loop true 2 9 2 0 initState (nanFrames.take 1)).1.nb.length * (2 + 1)))
      [20, 19, 18, 3, 4, 5, 2, 16, 17] = true := by decide +kernel

/-- **C05_batch**: frames at or beyond the element's own length (the padding of a batch) change
neither its tokens, nor its lengths, nor its masses: the result of the padded run is the
result of the run on the element's own frames — for every element length, including 0, and
for the pinned and the repaired code alike. -/
theorem C05_batch (fix : Bool) (V width : Nat) (hw : 0 < width) (own extra : List FrameIn) :
    (search fix V width own.length (own ++ extra)).1 = (search fix V width own.length own).1 := by
  by_cases hne : own = []
  · subst hne
    exact search_len0 fix V width hw extra
  · exact search_append_frozen fix V width own.length own extra rfl hne

/-- the length-0 case on a concrete instance: two frozen frames, width 3 -/
example :
    (search true 1 3 0
      [{ ext := [[h2]], nonext := [h2], blank := h2, sel := none },
       { ext := List.replicate 3 [h2], nonext := [h2], blank := h2, sel := none }]).1
      = (search true 1 3 0 []).1 := by decide +kernel

example : (search true 1 3 0 []).1.probs = [.fin 1, .negInf, .negInf] := by decide +kernel

/-- **C05_filler**: when the width exceeds the number of candidates `Kp·(V+1)`, the slots
beyond the candidates are appended at the end with masses `-inf` and length 0, and are
prefixes of nothing. -/
theorem C05_filler (fix : Bool) (V width : Nat) (ext : List (List XR)) (nonext : List XR)
    (blank : XR) (st : State) (sel : Option (List Nat)) (k : Nat)
    (hk1 : min width (st.nb.length * (V + 1)) ≤ k) (hk2 : k < width) :
    let o := (advance fix V width ext nonext blank st sel).st
    getX o.nb k = XR.negInf ∧ getX o.b k = XR.negInf ∧ getN o.lens k = 0 ∧
    (∀ k', get2B o.isPrefix k k' = false) :=
  advance_filler fix V width ext nonext blank st sel k hk1 hk2


/-! ## The array code computes the map recursion (repaired code)

`WF V st`: the real slots (total mass not `-inf`) of `st` hold pairwise distinct prefixes over
tokens `< V`, the prefix matrix says exactly which real slot is a prefix of which, `y_prev_last`
is the last token, the empty prefix has no non-blank mass.  `Rep bm st`: the finite map `bm` is
the map `prefix ↦ (nb, b)` of the real slots.  `GoodRun`: at every frame the probabilities are
finite, they are those of the specification frame (`ext[k][v]` = the fused score of `v` after
the prefix of slot `k`), and the `topk` answer is legitimate (`isTopK`).  `keepsOf`: the
survivors the array code chose = the prefixes of its real slots after each frame. -/

/-- **C05_isprefix_inv** (with the other slot invariants): a step of the repaired code with a
legitimate `topk` answer keeps the state well-formed — in particular the new prefix matrix
`next_is_prefix[j][j']` holds exactly when the prefix of real slot `j` is a prefix of that of
real slot `j'`, and the real slots keep pairwise distinct prefixes. -/
theorem C05_isprefix_inv {V : Nat} (hV : 0 < V) (width : Nat) {f : Ctc.Frame} {ext : List (List XR)}
    {nonext : List XR} {blank : XR} {st : State} (h : WF V st)
    (hf : FrameLink V f ext nonext blank st) (s : List Nat)
    (hk : isTopK (advance true V width ext nonext blank st (some s)).cand
            (min width (st.nb.length * (V + 1))) s = true)
    (hext : ∀ r ∈ ext, ∀ x ∈ r, x.isFin = true) (hne : ∀ x ∈ nonext, x.isFin = true) :
    WF V (advance true V width ext nonext blank st (some s)).st :=
  wf_advance hV width h hf s hk hext hne

/-- **C05_refines_step**: one call of the repaired step function on a well-formed state computes
one frame of the map-based prefix-beam recursion, pruned to the prefixes of the real output
slots: candidate construction, merging of an extension into an identical existing prefix,
masking of merged / invalid candidates and selection together give, for every prefix, exactly
`beamStep`'s `(nb, b)`. -/
theorem C05_refines_step {V : Nat} (hV : 0 < V) (width : Nat) {f : Ctc.Frame} {ext : List (List XR)}
    {nonext : List XR} {blank : XR} {st : State} (h : WF V st)
    (hf : FrameLink V f ext nonext blank st) (s : List Nat)
    (hk : isTopK (advance true V width ext nonext blank st (some s)).cand
            (min width (st.nb.length * (V + 1))) s = true)
    (hext : ∀ r ∈ ext, ∀ x ∈ r, x.isFin = true) (hne : ∀ x ∈ nonext, x.isFin = true)
    {bm : Ctc.Beam} (hr : Rep bm st) :
    Rep (Ctc.beamStep V f (validPrefixes (advance true V width ext nonext blank st (some s)).st) bm)
      (advance true V width ext nonext blank st (some s)).st :=
  rep_step hV width h hf s hk hext hne hr

/-- **C05_refines**: a whole run of the repaired array code (any number of frames, any width, any
legitimate `topk` answers, with or without fused extension scores) stands, after every frame,
for the map the prefix-beam recursion computes with the same survivors; and the final state is
well-formed. -/
theorem C05_refines {V : Nat} (hV : 0 < V) (width : Nat) (frames : List FrameIn)
    (fs : List Ctc.Frame) (hg : GoodRun V width initState frames fs) :
    WF V (runAll V width initState frames) ∧
      Rep (Ctc.beamRun V fs (keepsOf V width initState frames) Ctc.beamInit)
        (runAll V width initState frames) :=
  rep_run hV width frames fs initState Ctc.beamInit (wf_init V) rep_init hg

/-- **C05_topk_link**: the model's executable `isTopK` (a legitimate `torch.topk` answer on the array
of candidate totals) gives the specification-level `IsTopK` used by `C05_shape`: on a well-formed
state standing for the map `bm`, the prefixes of the real output slots of a step are a legitimate
choice of the best `width` candidate prefixes of `bm` — distinct, all candidates, as many as the width
and the number of distinct candidates allow, listed by non-increasing candidate mass, and no dropped
candidate beats a kept one. -/
theorem C05_topk_link {V : Nat} (hV : 0 < V) (width : Nat) (hw : 0 < width) {f : Ctc.Frame}
    {ext : List (List XR)} {nonext : List XR} {blank : XR} {st : State} (h : WF V st)
    (hf : FrameLink V f ext nonext blank st) {bm : Ctc.Beam} (hr : Rep bm st) (s : List Nat)
    (hk : isTopK (advance true V width ext nonext blank st (some s)).cand
            (min width (st.nb.length * (V + 1))) s = true)
    (hext : ∀ r ∈ ext, ∀ x ∈ r, x.isFin = true) (hne : ∀ x ∈ nonext, x.isFin = true) :
    Ctc.IsTopK V f width bm (validPrefixes (advance true V width ext nonext blank st (some s)).st) :=
  isTopK_to_spec hV width hw h hf hr s hk hext hne

/-- **C05_valid_run**: a good run of the array code (legitimate `topk` answers on the candidate
totals) is a `ValidRun` of the map recursion: the survivors `keepsOf` are, at every frame, a
legitimate best-`width` choice.  So `C05_shape` applies to the map the array code stands for, and
"the prefix-beam recursion with the array code's survivors" IS the standard prefix-beam recursion of
that width (up to the tie-breaking `topk` is free to do). -/
theorem C05_valid_run {V : Nat} (hV : 0 < V) (width : Nat) (hw : 0 < width) (frames : List FrameIn)
    (fs : List Ctc.Frame) (hg : GoodRun V width initState frames fs) :
    Ctc.ValidRun V width fs (keepsOf V width initState frames) Ctc.beamInit :=
  goodRun_validRun hV width hw frames fs initState Ctc.beamInit (wf_init V) rep_init hg

/-- **C05_module** — the property for one batch element of `CTCPrefixSearch` (repaired code), every
element length included (`own = []`: `T = 0`, or an element of length 0 inside a longer batch).
`own` are the element's valid frames, `extra` the frames of the batch beyond its length (anything).
If `own` is a good run for the specification frames `fs` (finite probabilities, extension scores =
fused scores of each slot's prefix, legitimate `topk` answers), then for the element's result `r`
(see `ElementOK`):

* the recursion it is compared with is the standard prefix-beam recursion of width `width`
  (`ValidRun`: legitimate best-`width` survivors at every frame);
* every slot with a numeric probability `q` holds a blank-free prefix of that recursion's final map,
  no longer than `T`, different from the prefix of every other numeric slot, and
  `q` = the recursion's mass of the prefix, `0 ≤ q ≤` its true mass (sum over all alignments);
* every prefix the recursion keeps is reported in some slot with the recursion's mass;
* there are `width` probabilities, each a rational or `-inf` (never NaN / `+inf`), non-increasing in
  torch's order, so the slots without a prefix (`-inf`) sit behind the real ones;
* if nothing was pruned, `q` is exactly the true mass. -/
theorem C05_module {V : Nat} (hV : 0 < V) (width : Nat) (hw : 0 < width) (own extra : List FrameIn)
    (fs : List Ctc.Frame) (hg : GoodRun V width initState own fs) (hnn : ∀ f ∈ fs, f.Nonneg) :
    ElementOK V width own.length fs (keepsOf V width initState own)
      (search true V width own.length (own ++ extra)).1 := by
  rw [C05_batch true V width hw own extra]
  by_cases hne : own = []
  · subst hne
    have : fs = [] := by
      cases fs with
      | nil => rfl
      | cons f fs => simp [GoodRun] at hg
    subst this
    exact elementOK_nil V width hw
  · exact elementOK_cons hV width hw own fs hne hg hnn

/-- **C05_array_sub**: what `CTCPrefixSearch` (repaired) reports, for every element length (also 0)
and whatever the batch holds beyond the element's length: every slot `k` whose reported probability
is a number `q` (not `-inf`) holds a blank-free prefix, different from the prefix of every other such
slot, and `0 ≤ q ≤` the true mass of that prefix (the sum over all alignments collapsing to it);
`q` equals the mass the prefix-beam recursion with the array code's survivors assigns to it. -/
theorem C05_array_sub {V : Nat} (hV : 0 < V) (width : Nat) (hw : 0 < width) (frames extra : List FrameIn)
    (fs : List Ctc.Frame) (hg : GoodRun V width initState frames fs)
    (hnn : ∀ f ∈ fs, f.Nonneg)
    (k : Nat) (hk : k < width) (q : Rat)
    (hq : getX (search true V width frames.length (frames ++ extra)).1.probs k = XR.fin q) :
    let r := (search true V width frames.length (frames ++ extra)).1
    let p := r.prefixes.getD k []
    q = (Ctc.beamRun V fs (keepsOf V width initState frames) Ctc.beamInit).total p ∧
    0 ≤ q ∧ q ≤ Ctc.mass V fs p ∧ (∀ x ∈ p, x < V) ∧
    (∀ k' q', k' < width → getX r.probs k' = XR.fin q' → r.prefixes.getD k' [] = p → k' = k) := by
  intro r p
  obtain ⟨_, a, b, c, d, _, e⟩ := (C05_module hV width hw frames extra fs hg hnn).real k q hk hq
  exact ⟨a, b, c, d, e⟩

/-- **C05_array_exact_unpruned**: if, at every frame, every candidate prefix stayed in a real slot
(the width never forced a prefix out), the reported probability of every real slot is exactly
the true mass of its prefix — again for every element length and any padding. -/
theorem C05_array_exact_unpruned {V : Nat} (hV : 0 < V) (width : Nat) (hw : 0 < width)
    (frames extra : List FrameIn) (fs : List Ctc.Frame) (hg : GoodRun V width initState frames fs)
    (hnn : ∀ f ∈ fs, f.Nonneg)
    (hu : Ctc.Unpruned V fs (keepsOf V width initState frames) Ctc.beamInit)
    (k : Nat) (hk : k < width) (q : Rat)
    (hq : getX (search true V width frames.length (frames ++ extra)).1.probs k = XR.fin q) :
    q = Ctc.mass V fs ((search true V width frames.length (frames ++ extra)).1.prefixes.getD k []) :=
  (C05_module hV width hw frames extra fs hg hnn).exact hu k q hk hq

/-- **C05_array_len**: the prefix of every reported real slot is no longer than the element's number of
valid frames (`y_lens[n, k] <= logit_lens[n]`), whatever the batch length. -/
theorem C05_array_len {V : Nat} (hV : 0 < V) (width : Nat) (hw : 0 < width) (frames extra : List FrameIn)
    (fs : List Ctc.Frame) (hg : GoodRun V width initState frames fs) (hnn : ∀ f ∈ fs, f.Nonneg)
    (k : Nat) (hk : k < width) (q : Rat)
    (hq : getX (search true V width frames.length (frames ++ extra)).1.probs k = XR.fin q) :
    ((search true V width frames.length (frames ++ extra)).1.prefixes.getD k []).length ≤ frames.length :=
  ((C05_module hV width hw frames extra fs hg hnn).real k q hk hq).2.2.2.2.2.1

/-! Non-vacuity of `GoodRun` (and hence of `C05_refines`, `C05_array_sub`). -/

/-- two frames over one token, all probabilities 1/2, width 2: at the second frame the extension
of the empty prefix is merged into the slot already holding `[0]` -/
def exFrames : List FrameIn := [
  { ext := [[h2]], nonext := [h2], blank := h2, sel := some [0, 1] },
  { ext := [[h2], [h2]], nonext := [h2], blank := h2, sel := some [2, 3] }]

theorem exFrames_good : GoodRun 1 2 initState exFrames [halfFrame, halfFrame] := by
  refine ⟨[0, 1], rfl, ⟨rfl, ?_, ?_⟩, ?_, ?_, by decide +kernel, ?_⟩
  · intro v hv
    match v, hv with
    | 0, _ => rfl
  · intro k hk v hv
    rw [(validB_init k).1 hk]
    match v, hv with
    | 0, _ => rfl
  · intro r hr x hx
    simp only [List.mem_singleton] at hr
    subst hr
    simp only [List.mem_singleton] at hx
    subst hx; rfl
  · intro x hx
    simp only [List.mem_singleton] at hx
    subst hx; rfl
  · refine ⟨[2, 3], rfl, ⟨rfl, ?_, ?_⟩, ?_, ?_, by decide +kernel, trivial⟩
    · intro v hv
      match v, hv with
      | 0, _ => rfl
    · intro k hk v hv
      have hk2 : k < 2 := by
        have := (validB_iff.1 hk).1
        rw [(advance_sized true 1 2 _ _ _ _ _).1] at this
        exact this
      match k, hk2, v, hv with
      | 0, _, 0, _ => rfl
      | 1, _, 0, _ => rfl
    · intro r hr x hx
      simp only [List.mem_cons, List.mem_nil_iff, or_false] at hr
      rcases hr with rfl | rfl <;> (simp only [List.mem_singleton] at hx; subst hx; rfl)
    · intro x hx
      simp only [List.mem_singleton] at hx
      subst hx; rfl

example : (search true 1 2 2 exFrames).1.probs = [.fin (3/4), .fin (1/4)] := by decide +kernel
example : (search true 1 2 2 exFrames).1.prefixes = [[0], []] := by decide +kernel

theorem halfFrame_nonneg : halfFrame.Nonneg := ⟨Ctc.half_nonneg, fun _ => Ctc.half_nonneg, fun _ _ => Ctc.half_nonneg⟩

/-- `C05_module` on the example run, padded by one more frame of the batch: all clauses at once -/
example : ElementOK 1 2 2 [halfFrame, halfFrame] (keepsOf 1 2 initState exFrames)
    (search true 1 2 2 (exFrames ++ [{ ext := [[h2], [h2]], nonext := [h2], blank := h2, sel := none }])).1 :=
  C05_module (by decide) 2 (by decide) exFrames _ _ exFrames_good (by
    intro f hf
    simp only [List.mem_cons, List.mem_nil_iff, or_false] at hf
    rcases hf with rfl | rfl <;> exact halfFrame_nonneg)

/-- ... and on an element of length 0 inside a batch of two frames (`GoodRun` of no frames is `True`) -/
example : ElementOK 1 2 0 [] [] (search true 1 2 0 exFrames).1 :=
  C05_module (by decide) 2 (by decide) [] exFrames [] trivial (by simp)



/-! ## The module's language-model plumbing (shallow fusion)

`Model/CtcFusion.lean`: per slot `k` the module calls the LM on column `k` (`y_prev[:, k]`, index
`y_prev_lens[k]`, state `prev[k]`), fuses the row with the token probabilities (`fuse`), and after the
step gives slot `j` the state `prev[src j]` if its prefix was not extended and `in_next[src j]` if it
was (`extract_by_src` / `mix_by_mask`, `routeStates`).  `LMC` is the language model's state contract
(same shape as C04's `LMOK`). -/

/-- **C05_lm_states** — which state each slot gets: if before the call every real slot carries an LM
state that is valid for its own prefix, then so does every real slot after the call (for any LM that
meets the contract, any legitimate `topk` answer). -/
theorem C05_lm_states {σ : Type} {V : Nat} (hV : 0 < V) (width : Nat) (mix : Option Rat) {lm : LM σ}
    (dflt : σ) {spec : List Nat → Nat → Rat} {R : List Nat → σ → Prop} (hlm : LMC V lm spec R)
    {st : State} {sts : List σ} (h : WF V st) (hst : StatesOK R dflt st sts)
    {f : Ctc.Frame} {nonext : List XR} {blank : XR} (s : List Nat)
    (hb : blank = XR.fin f.blank) (ht : ∀ v, v < V → getX nonext v = XR.fin (f.tok v))
    (hx : ∀ q v, f.ext q v = fuseQ mix (spec q v) (f.tok v) f.blank)
    (hk : isTopK (advance true V width (lmExt V mix lm dflt nonext blank st sts) nonext blank st (some s)).cand
            (min width (st.nb.length * (V + 1))) s = true) :
    StatesOK R dflt (advance true V width (lmExt V mix lm dflt nonext blank st sts) nonext blank st (some s)).st
      (routeStates dflt sts (lmInNext lm dflt st sts)
        (advance true V width (lmExt V mix lm dflt nonext blank st sts) nonext blank st (some s)).src
        (advance true V width (lmExt V mix lm dflt nonext blank st sts) nonext blank st (some s)).isNon) :=
  lm_states_step hV width mix dflt hlm h hst s hb ht hx hk

/-- **C05_lm_plumbing** — the hypothesis "`ext[k]` is the fused score of slot `k`'s prefix" of
`C05_refines` / `C05_module`, discharged: for every language model meeting the state contract, started
in a state valid for the empty history (`update_input`'s result or the caller's initial state), the
frames the module hands to `ctc_prefix_search_advance` form a `GoodRun` for the specification frames
whose extension score after prefix `q` is `fuse (spec q v) (tok v) blank`. -/
theorem C05_lm_plumbing {σ : Type} {V : Nat} (hV : 0 < V) (width : Nat) (mix : Option Rat) {lm : LM σ}
    (dflt st0 : σ) {spec : List Nat → Nat → Rat} {R : List Nat → σ → Prop} (hlm : LMC V lm spec R)
    (h0 : R [] st0) (ins : List AcIn) (fs : List Ctc.Frame)
    (hg : LMGood V width mix lm dflt spec (initState, [st0]) ins fs) :
    GoodRun V width initState (lmFrames V width mix lm dflt (initState, [st0]) ins) fs := by
  refine lm_goodRun hV width mix dflt hlm ins fs (initState, [st0]) (wf_init V) ?_ hg
  intro k hk
  rw [(validB_init k).1 hk]
  simpa [preOf, initState, getN] using h0

/-- **C05_module_lm** — `C05_module` for the module with a fused language model: all clauses of the
property for one batch element, the only assumptions being the LM's state contract, finite token /
blank probabilities, legitimate `topk` answers. -/
theorem C05_module_lm {σ : Type} {V : Nat} (hV : 0 < V) (width : Nat) (hw : 0 < width) (mix : Option Rat)
    {lm : LM σ} (dflt st0 : σ) {spec : List Nat → Nat → Rat} {R : List Nat → σ → Prop}
    (hlm : LMC V lm spec R) (h0 : R [] st0) (ins : List AcIn) (extra : List FrameIn) (fs : List Ctc.Frame)
    (hg : LMGood V width mix lm dflt spec (initState, [st0]) ins fs) (hnn : ∀ f ∈ fs, f.Nonneg) :
    ElementOK V width (lmFrames V width mix lm dflt (initState, [st0]) ins).length fs
      (keepsOf V width initState (lmFrames V width mix lm dflt (initState, [st0]) ins))
      (search true V width (lmFrames V width mix lm dflt (initState, [st0]) ins).length
        (lmFrames V width mix lm dflt (initState, [st0]) ins ++ extra)).1 :=
  C05_module hV width hw _ extra fs (C05_lm_plumbing hV width mix dflt st0 hlm h0 ins fs hg) hnn

/-! Non-vacuity: a stateful LM (its state is the consumed history) whose factor is 1/2 after the empty
history and 1/4 afterwards; two frames over one token, width 2, shallow fusion. -/
def exF : List Nat → Nat → Rat := fun h _ => if h = [] then 1/2 else 1/4
def exIns : List AcIn := [⟨[h2], h2, some [1, 0]⟩, ⟨[h2], h2, some [3, 2]⟩]
def exLmFrame : Ctc.Frame :=
  { blank := 1/2, tok := fun _ => 1/2, ext := fun q v => fuseQ none (exF q v) (1/2) (1/2) }

example : LMC 1 (histLM 1 exF) exF (fun h st => st = h.dropLast) := histLM_ok 1 exF

theorem exIns_good : LMGood 1 2 none (histLM 1 exF) [] exF (initState, [[]]) exIns [exLmFrame, exLmFrame] := by
  refine ⟨[1, 0], rfl, rfl, ?_, fun _ _ => rfl, ?_, by decide +kernel,
    [3, 2], rfl, rfl, ?_, fun _ _ => rfl, ?_, by decide +kernel, trivial⟩
  · intro v hv
    match v, hv with
    | 0, _ => rfl
  · intro x hx
    simp only [List.mem_singleton] at hx
    subst hx; rfl
  · intro v hv
    match v, hv with
    | 0, _ => rfl
  · intro x hx
    simp only [List.mem_singleton] at hx
    subst hx; rfl

/-- the fused run: `[0]` = 1/4·1/2 (stay) + 1/2·1/4 (extension of `[]`, merged) + 1/4·1/2 (blank) -/
example : (search true 1 2 2 (lmFrames 1 2 none (histLM 1 exF) [] (initState, [[]]) exIns)).1.prefixes
    = [[0], []] := by decide +kernel
example : (search true 1 2 2 (lmFrames 1 2 none (histLM 1 exF) [] (initState, [[]]) exIns)).1.probs
    = [.fin (3/8), .fin (1/4)] := by decide +kernel

/-! ## Audit: the hypotheses on an instance with TWO tokens, a merge and a pruning in the same frame

The instances above have `V = 1`, where the flat candidate index `k·V + v`, `ind / V`, `ind % V` and the
token comparisons are degenerate. `au*`: `V = 2` (token 0: 1/2, token 1: 1/4, blank 1/4), width 3, two frames.
At the second frame the 3 slots `[0]`, `[1]`, `[]` have 9 candidates: the two extensions of `[]` are MERGED into
the slots holding `[0]` and `[1]` (their own entries become `-inf`), and of the 7 distinct candidate prefixes
only 3 survive (`[0]` 1/2, `[1]` 3/16 and one of the tied `[0,1]` / `[1,0]` at 1/8): `[1,0]`, `[]`, `[0,0]`,
`[1,1]` are PRUNED. -/

def auH : XR := .fin (1/2)
def auQ : XR := .fin (1/4)

def auFrames : List FrameIn := [
  { ext := [[auH, auQ]], nonext := [auH, auQ], blank := auQ, sel := some [0, 1, 2] },
  { ext := List.replicate 3 [auH, auQ], nonext := [auH, auQ], blank := auQ, sel := some [6, 7, 1] }]

def auSpec : Ctc.Frame :=
  { blank := 1/4, tok := fun v => if v = 0 then 1/2 else 1/4, ext := fun _ v => if v = 0 then 1/2 else 1/4 }

-- the candidate totals of the second call: -inf at the two merged extensions (flat indices 4, 5)
example : (advance true 2 3 (List.replicate 3 [auH, auQ]) [auH, auQ] auQ
      (advance true 2 3 [[auH, auQ]] [auH, auQ] auQ initState (some [0, 1, 2])).st (some [6, 7, 1])).cand
    = [.fin 0, .fin (1/8), .fin (1/8), .fin 0, .negInf, .negInf, .fin (1/2), .fin (3/16), .fin (1/16)] := by
  decide +kernel

theorem auFrames_good : GoodRun 2 3 initState auFrames [auSpec, auSpec] := by
  refine ⟨[0, 1, 2], rfl, ⟨rfl, ?_, ?_⟩, ?_, ?_, by decide +kernel, ?_⟩
  · intro v hv
    match v, hv with
    | 0, _ => rfl
    | 1, _ => rfl
  · intro k hk v hv
    rw [(validB_init k).1 hk]
    match v, hv with
    | 0, _ => rfl
    | 1, _ => rfl
  · intro r hr x hx
    simp only [List.mem_singleton] at hr
    subst hr
    simp only [List.mem_cons, List.mem_nil_iff, or_false] at hx
    rcases hx with rfl | rfl <;> rfl
  · intro x hx
    simp only [List.mem_cons, List.mem_nil_iff, or_false] at hx
    rcases hx with rfl | rfl <;> rfl
  · refine ⟨[6, 7, 1], rfl, ⟨rfl, ?_, ?_⟩, ?_, ?_, by decide +kernel, trivial⟩
    · intro v hv
      match v, hv with
      | 0, _ => rfl
      | 1, _ => rfl
    · intro k hk v hv
      have hk3 : k < 3 := by
        have := (validB_iff.1 hk).1
        rw [(advance_sized true 2 3 _ _ _ _ _).1] at this
        exact this
      match k, hk3, v, hv with
      | 0, _, 0, _ => rfl
      | 0, _, 1, _ => rfl
      | 1, _, 0, _ => rfl
      | 1, _, 1, _ => rfl
      | 2, _, 0, _ => rfl
      | 2, _, 1, _ => rfl
    · intro r hr x hx
      simp only [List.replicate, List.mem_cons, List.mem_nil_iff, or_false, or_self] at hr
      subst hr
      simp only [List.mem_cons, List.mem_nil_iff, or_false] at hx
      rcases hx with rfl | rfl <;> rfl
    · intro x hx
      simp only [List.mem_cons, List.mem_nil_iff, or_false] at hx
      rcases hx with rfl | rfl <;> rfl

theorem auSpec_nonneg : auSpec.Nonneg := by
  refine ⟨by decide +kernel, fun v => ?_, fun _ v => ?_⟩ <;>
    (show (0 : Rat) ≤ if v = 0 then 1/2 else 1/4; split <;> decide +kernel)

theorem auSpecs_nonneg : ∀ f ∈ [auSpec, auSpec], f.Nonneg := by
  intro f hf
  simp only [List.mem_cons, List.mem_nil_iff, or_false] at hf
  rcases hf with rfl | rfl <;> exact auSpec_nonneg

example : (search true 2 3 2 auFrames).1.prefixes = [[0], [1], [0, 1]] := by decide +kernel
example : (search true 2 3 2 auFrames).1.probs = [.fin (1/2), .fin (3/16), .fin (1/8)] := by decide +kernel
-- the survivors per frame
example : keepsOf 2 3 initState auFrames = [[[0], [1], []], [[0], [1], [0, 1]]] := by decide +kernel
-- pruning is real: `[1,0]` has the same true mass 1/8 as the surviving `[0,1]` (a tie `topk` broke) and is not
-- reported, nor is `[]` (1/16); after two frames the three survivors still carry their full true mass
example : Ctc.mass 2 [auSpec, auSpec] [1, 0] = 1/8 ∧ Ctc.mass 2 [auSpec, auSpec] [0, 1] = 1/8
    ∧ Ctc.mass 2 [auSpec, auSpec] [0] = 1/2 ∧ Ctc.mass 2 [auSpec, auSpec] [] = 1/16 := by decide +kernel

/-! A third frame makes "never more" STRICT: `[]` was pruned at frame 2, so the alignments `blank blank 0`
(mass 1/32) no longer reach `[0]`: reported 5/16 < true mass 11/32. -/

theorem auLink (st : State) (h3 : st.nb.length = 3) :
    FrameLink 2 auSpec (List.replicate 3 [auH, auQ]) [auH, auQ] auQ st := by
  refine ⟨rfl, ?_, ?_⟩
  · intro v hv
    match v, hv with
    | 0, _ => rfl
    | 1, _ => rfl
  · intro k hk v hv
    have hk3 : k < 3 := h3 ▸ (validB_iff.1 hk).1
    match k, hk3, v, hv with
    | 0, _, 0, _ => rfl
    | 0, _, 1, _ => rfl
    | 1, _, 0, _ => rfl
    | 1, _, 1, _ => rfl
    | 2, _, 0, _ => rfl
    | 2, _, 1, _ => rfl

theorem auFin3 : (∀ r ∈ List.replicate 3 [auH, auQ], ∀ x ∈ r, x.isFin = true) ∧ (∀ x ∈ [auH, auQ], x.isFin = true) := by
  constructor
  · intro r hr x hx
    simp only [List.replicate, List.mem_cons, List.mem_nil_iff, or_false, or_self] at hr
    subst hr
    simp only [List.mem_cons, List.mem_nil_iff, or_false] at hx
    rcases hx with rfl | rfl <;> rfl
  · intro x hx
    simp only [List.mem_cons, List.mem_nil_iff, or_false] at hx
    rcases hx with rfl | rfl <;> rfl

def auFrames3 : List FrameIn := auFrames ++
  [{ ext := List.replicate 3 [auH, auQ], nonext := [auH, auQ], blank := auQ, sel := some [6, 8, 2] }]

theorem auFrames3_good : GoodRun 2 3 initState auFrames3 [auSpec, auSpec, auSpec] := by
  obtain ⟨s, hs, hl, he, hn, hk, _⟩ := auFrames_good
  simp only [Option.some.injEq] at hs
  subst hs
  refine ⟨[0, 1, 2], rfl, hl, he, hn, hk, [6, 7, 1], rfl, auLink _ ?_, auFin3.1, auFin3.2, by decide +kernel,
    [6, 8, 2], rfl, auLink _ ?_, auFin3.1, auFin3.2, by decide +kernel, trivial⟩
  · exact (advance_sized true 2 3 _ _ _ _ _).1
  · exact (advance_sized true 2 3 _ _ _ _ _).1

example : (search true 2 3 3 auFrames3).1.prefixes = [[0], [0, 1], [1, 0]]
    ∧ (search true 2 3 3 auFrames3).1.probs = [.fin (5/16), .fin (3/16), .fin (3/32)] := by decide +kernel
example : Ctc.mass 2 [auSpec, auSpec, auSpec] [0] = 11/32 ∧ Ctc.mass 2 [auSpec, auSpec, auSpec] [0, 1] = 3/16 := by
  decide +kernel
-- C05_array_sub on slot 0: q = 5/16 ≤ mass = 11/32, and the inequality is strict
example : (5/16 : Rat) ≤ Ctc.mass 2 [auSpec, auSpec, auSpec] ((search true 2 3 3 (auFrames3 ++ [])).1.prefixes.getD 0 []) :=
  (C05_array_sub (V := 2) (by decide) 3 (by decide) auFrames3 [] [auSpec, auSpec, auSpec] auFrames3_good
    (by intro f hf
        simp only [List.mem_cons, List.mem_nil_iff, or_false] at hf
        rcases hf with rfl | rfl | rfl <;> exact auSpec_nonneg)
    0 (by decide) (5/16) (by decide +kernel)).2.2.1

-- C05_refines / C05_valid_run / C05_module / C05_array_sub / C05_array_len on this run (+ one padding frame)
example := C05_refines (V := 2) (by decide) 3 auFrames [auSpec, auSpec] auFrames_good
example := C05_valid_run (V := 2) (by decide) 3 (by decide) auFrames [auSpec, auSpec] auFrames_good
example := C05_module (V := 2) (by decide) 3 (by decide) auFrames
  [{ ext := List.replicate 3 [auH, auQ], nonext := [auH, auQ], blank := auQ, sel := none }] [auSpec, auSpec]
  auFrames_good auSpecs_nonneg
example := C05_array_sub (V := 2) (by decide) 3 (by decide) auFrames [] [auSpec, auSpec] auFrames_good auSpecs_nonneg
  2 (by decide) (1/8) (by decide +kernel)
example := C05_array_len (V := 2) (by decide) 3 (by decide) auFrames [] [auSpec, auSpec] auFrames_good auSpecs_nonneg
  2 (by decide) (1/8) (by decide +kernel)
-- C05_shape on the map recursion the array code stands for
example := Ctc.C05_shape 2 3 (by decide) [auSpec, auSpec] _
  (C05_valid_run (V := 2) (by decide) 3 (by decide) auFrames [auSpec, auSpec] auFrames_good)
-- C05_sub with these survivors (hlen: one survivor list per frame)
example := Ctc.C05_sub 2 [auSpec, auSpec] (keepsOf 2 3 initState auFrames) auSpecs_nonneg (by decide +kernel) [0]

/-- the state after the first frame, as a `WF` state standing for the map after one frame: the step-level
theorems (`C05_isprefix_inv`, `C05_refines_step`, `C05_topk_link`) applied to the SECOND call (merge + pruning) -/
def auSt1 : State := (advance true 2 3 [[auH, auQ]] [auH, auQ] auQ initState (some [0, 1, 2])).st

theorem auStep1 : WF 2 auSt1 ∧ Rep (Ctc.beamRun 2 [auSpec] [[[0], [1], []]] Ctc.beamInit) auSt1 := by
  have h := C05_refines (V := 2) (by decide) 3 (auFrames.take 1) [auSpec] (by
    obtain ⟨s, hs, hl, he, hn, hk, _⟩ := auFrames_good
    exact ⟨s, hs, hl, he, hn, hk, trivial⟩)
  exact h

theorem auLink2 : FrameLink 2 auSpec (List.replicate 3 [auH, auQ]) [auH, auQ] auQ auSt1 := by
  obtain ⟨_, hs, _, _, _, _, hrest⟩ := auFrames_good
  obtain ⟨_, _, hl, _⟩ := hrest
  simp only [Option.some.injEq] at hs
  subst hs
  exact hl

example := C05_isprefix_inv (V := 2) (by decide) 3 auStep1.1 auLink2 [6, 7, 1] (by decide +kernel)
  (by intro r hr x hx
      simp only [List.replicate, List.mem_cons, List.mem_nil_iff, or_false, or_self] at hr
      subst hr
      simp only [List.mem_cons, List.mem_nil_iff, or_false] at hx
      rcases hx with rfl | rfl <;> rfl)
  (by intro x hx
      simp only [List.mem_cons, List.mem_nil_iff, or_false] at hx
      rcases hx with rfl | rfl <;> rfl)
example := C05_refines_step (V := 2) (by decide) 3 auStep1.1 auLink2 [6, 7, 1] (by decide +kernel)
  (by intro r hr x hx
      simp only [List.replicate, List.mem_cons, List.mem_nil_iff, or_false, or_self] at hr
      subst hr
      simp only [List.mem_cons, List.mem_nil_iff, or_false] at hx
      rcases hx with rfl | rfl <;> rfl)
  (by intro x hx
      simp only [List.mem_cons, List.mem_nil_iff, or_false] at hx
      rcases hx with rfl | rfl <;> rfl) auStep1.2
example := C05_topk_link (V := 2) (by decide) 3 (by decide) auStep1.1 auLink2 auStep1.2 [6, 7, 1] (by decide +kernel)
  (by intro r hr x hx
      simp only [List.replicate, List.mem_cons, List.mem_nil_iff, or_false, or_self] at hr
      subst hr
      simp only [List.mem_cons, List.mem_nil_iff, or_false] at hx
      rcases hx with rfl | rfl <;> rfl)
  (by intro x hx
      simp only [List.mem_cons, List.mem_nil_iff, or_false] at hx
      rcases hx with rfl | rfl <;> rfl)
-- C05_slot_total / C05_sorted_step / C05_no_nan_step on the second call
example := C05_slot_total 2 3 (List.replicate 3 [auH, auQ]) [auH, auQ] auQ auSt1 [6, 7, 1]
  auStep1.1.clean.1 auStep1.1.clean.2 rfl 2 (by decide +kernel) (by decide +kernel)
example := C05_sorted_step 2 3 (List.replicate 3 [auH, auQ]) [auH, auQ] auQ auSt1 [6, 7, 1]
  auStep1.1.clean.1 auStep1.1.clean.2 rfl (by decide +kernel)
-- C05_filler: width 5 > 3 candidates at the first frame: slots 3, 4 are filler
example := C05_filler true 2 5 [[auH, auQ]] [auH, auQ] auQ initState none 4 (by decide) (by decide)
-- C05_sorted_array
example := C05_sorted_array 2 3 (auFrames.take 1) (auFrames.getD 1 ⟨[], [], .nan, none⟩) [6, 7, 1]
  (by intro g hg
      simp only [auFrames, List.take, List.mem_cons, List.mem_nil_iff, or_false] at hg
      subst hg
      refine ⟨?_, ?_, rfl⟩
      · intro r hr x hx
        simp only [List.mem_singleton] at hr
        subst hr
        simp only [List.mem_cons, List.mem_nil_iff, or_false] at hx
        rcases hx with rfl | rfl <;> rfl
      · intro x hx
        simp only [List.mem_cons, List.mem_nil_iff, or_false] at hx
        rcases hx with rfl | rfl <;> rfl)
  (by refine ⟨?_, ?_, rfl⟩
      · intro r hr x hx
        simp only [auFrames, List.getD, List.getElem?_cons_succ, List.getElem?_cons_zero, Option.getD_some,
          List.replicate, List.mem_cons, List.mem_nil_iff, or_false, or_self] at hr
        subst hr
        simp only [List.mem_cons, List.mem_nil_iff, or_false] at hx
        rcases hx with rfl | rfl <;> rfl
      · intro x hx
        simp only [auFrames, List.getD, List.getElem?_cons_succ, List.getElem?_cons_zero, Option.getD_some,
          List.mem_cons, List.mem_nil_iff, or_false] at hx
        rcases hx with rfl | rfl <;> rfl)
  rfl (by decide +kernel)

/-! ### The LM plumbing with two tokens: a history-dependent fused model, a state routed through `in_next`

`auF h v`: the LM factor of `v` after history `h` is 1/8 when `v` repeats the last token of `h`, else 1 — it
depends on the history's last token and on `v`. At the second frame slot 2 is an EXTENSION (`[0,1]` from slot 0),
so its state comes from `in_next` of slot 0; slots 0 and 1 did not extend and keep their states. -/

def auF : List Nat → Nat → Rat := fun h v => if h.getLast? = some v then 1/8 else 1
def auIns : List AcIn := [⟨[auH, auQ], auQ, some [0, 1, 2]⟩, ⟨[auH, auQ], auQ, some [6, 7, 1]⟩]
def auLmSpec : Ctc.Frame :=
  { blank := 1/4, tok := fun v => if v = 0 then 1/2 else 1/4,
    ext := fun q v => fuseQ none (auF q v) (if v = 0 then 1/2 else 1/4) (1/4) }

theorem auIns_good : LMGood 2 3 none (histLM 2 auF) [] auF (initState, [[]]) auIns [auLmSpec, auLmSpec] := by
  refine ⟨[0, 1, 2], rfl, rfl, ?_, fun _ _ => rfl, auFin3.2, by decide +kernel,
    [6, 7, 1], rfl, rfl, ?_, fun _ _ => rfl, auFin3.2, by decide +kernel, trivial⟩
  · intro v hv
    match v, hv with
    | 0, _ => rfl
    | 1, _ => rfl
  · intro v hv
    match v, hv with
    | 0, _ => rfl
    | 1, _ => rfl

example : (search true 2 3 2 (lmFrames 2 3 none (histLM 2 auF) [] (initState, [[]]) auIns)).1.prefixes
    = [[0], [1], [0, 1]] := by decide +kernel
-- the states after the two frames: `[]` under `[0]` and `[1]` (kept), `[0]` under `[0,1]` (from `in_next` of slot 0):
-- each is its prefix minus the newest token, i.e. valid for its own prefix
example : (lmStep true 2 3 none (histLM 2 auF) []
      (lmStep true 2 3 none (histLM 2 auF) [] (initState, [[]]) (auIns.getD 0 ⟨[], .nan, none⟩)).1
      (auIns.getD 1 ⟨[], .nan, none⟩)).1.2 = [[], [], [0]] := by decide +kernel

example := C05_lm_plumbing (V := 2) (by decide) 3 none [] [] (histLM_ok 2 auF) rfl auIns [auLmSpec, auLmSpec] auIns_good
example := C05_module_lm (V := 2) (by decide) 3 (by decide) none [] [] (histLM_ok 2 auF) rfl auIns [] [auLmSpec, auLmSpec]
  auIns_good (by
    intro f hf
    simp only [List.mem_cons, List.mem_nil_iff, or_false] at hf
    have hn : auLmSpec.Nonneg := by
      refine ⟨by decide +kernel, fun v => ?_, fun q v => ?_⟩
      · show (0 : Rat) ≤ if v = 0 then 1/2 else 1/4
        split <;> decide +kernel
      · show (0 : Rat) ≤ auF q v * (if v = 0 then 1/2 else 1/4)
        have h1 : (0 : Rat) ≤ auF q v := by unfold auF; split <;> decide +kernel
        have h2 : (0 : Rat) ≤ (if v = 0 then 1/2 else 1/4) := by split <;> decide +kernel
        exact Rat.mul_nonneg h1 h2
    rcases hf with rfl | rfl <;> exact hn)
-- C05_lm_states on the first call (all its hypotheses: contract, WF, StatesOK, frame link, legitimate topk)
example := C05_lm_states (V := 2) (by decide) 3 none ([] : List Nat) (histLM_ok 2 auF) (wf_init 2)
  (st := initState) (sts := [[]])
  (by intro k hk; rw [(validB_init k).1 hk]; rfl)
  (f := auLmSpec) (nonext := [auH, auQ]) (blank := auQ) [0, 1, 2] rfl
  (by intro v hv
      match v, hv with
      | 0, _ => rfl
      | 1, _ => rfl)
  (fun _ _ => rfl) (by decide +kernel)

/-- nothing pruned: the same frames with width 9 ≥ 7 distinct candidates … `C05_array_exact_unpruned` needs
`Unpruned`; one frame, width 3 = number of candidates (`[]`, `[0]`, `[1]`). -/
theorem auOne_good : GoodRun 2 3 initState (auFrames.take 1) [auSpec] := by
  obtain ⟨s, hs, hl, he, hn, hk, _⟩ := auFrames_good
  exact ⟨s, hs, hl, he, hn, hk, trivial⟩

theorem auOne_unpruned : Ctc.Unpruned 2 [auSpec] (keepsOf 2 3 initState (auFrames.take 1)) Ctc.beamInit := by
  have hk : keepsOf 2 3 initState (auFrames.take 1) = [[[0], [1], []]] := by decide +kernel
  rw [hk]
  refine ⟨?_, trivial⟩
  intro p hp
  have : p ∈ [[], [0], [1]] := by simpa [Ctc.cands, Ctc.Beam.keys, Ctc.beamInit, List.range_succ] using hp
  simp only [List.mem_cons, List.mem_nil_iff, or_false] at this
  rcases this with rfl | rfl | rfl <;> simp

example := C05_array_exact_unpruned (V := 2) (by decide) 3 (by decide) (auFrames.take 1) (auFrames.drop 1) [auSpec]
  auOne_good (by intro f hf; simp only [List.mem_singleton] at hf; subst hf; exact auSpec_nonneg)
  auOne_unpruned 1 (by decide) (1/4) (by decide +kernel)
example := Ctc.C05_exact_unpruned 2 [auSpec] _ auOne_unpruned [1]

/-! ## What one element reports, added up (improvement round 3) -/

/-- **C05_reported_total** — what `CTCPrefixSearch` (repaired) reports for one batch element, added up:
under the hypotheses of `C05_module` (any element length, any padding) the probabilities of the slots that
hold a prefix (`-inf` slots count nothing) are non-negative and add up to at most the total weight of all
alignments; with sub-stochastic frames — in particular the softmax frames of a search without language
model — to at most ONE: the module never reports more probability than there is, also in aggregate.
`reportedTotal` counts every entry that is not a number as 0 (`XR.val`); the last two conjuncts (audit,
round e) say that this hides nothing: there are exactly `width` entries and each is a number or `-inf`,
never NaN / `+inf`. -/
theorem C05_reported_total {V : Nat} (hV : 0 < V) (width : Nat) (hw : 0 < width) (own extra : List FrameIn)
    (fs : List Ctc.Frame) (hg : GoodRun V width initState own fs) (hss : ∀ f ∈ fs, f.SubStoch V) :
    0 ≤ reportedTotal (search true V width own.length (own ++ extra)).1 ∧
    reportedTotal (search true V width own.length (own ++ extra)).1 ≤ 1 ∧
    (search true V width own.length (own ++ extra)).1.probs.length = width ∧
    ∀ x ∈ (search true V width own.length (own ++ extra)).1.probs, (∃ q, x = XR.fin q) ∨ x = XR.negInf := by
  have hnn : ∀ f ∈ fs, f.Nonneg := fun f h => (hss f h).nonneg
  have hm := C05_module hV width hw own extra fs hg hnn
  have h := reportedTotal_bounds hm hnn
  exact ⟨h.1, le_trans h.2 (Ctc.totalW_le_one V fs hss), hm.count, hm.clean⟩

/-! Non-vacuity: the audit's three-frame run (V = 2, width 3, merges and pruning); its frames are stochastic -/
theorem auSpec_stoch : auSpec.Stoch 2 := by
  refine Ctc.stoch_plain ⟨by decide +kernel, fun v => ?_, fun _ v => ?_⟩ (fun _ _ => rfl) (by decide +kernel)
  all_goals (simp only [auSpec]; split <;> decide +kernel)

example := C05_reported_total (V := 2) (by decide) 3 (by decide) auFrames3 [] [auSpec, auSpec, auSpec] auFrames3_good
    (fun f hf => by
      simp only [List.mem_cons, List.mem_nil_iff, or_false, or_self] at hf
      subst hf
      exact auSpec_stoch.sub)

/-- … strictly less than one here: four of seven candidate prefixes were pruned on the way -/
example : reportedTotal (search true 2 3 3 auFrames3).1 = 19/32 := by decide +kernel

/-! Audit (round e): `C05_reported_total` on a FUSED run. The harness applies the aggregate bound
(`C05.exact.total`) to plain-fusion cases as well, on the ground that an LM factor `exp(β·log_softmax) ≤ 1`
keeps the frames sub-stochastic; that step is `Ctc.subStoch_of_ext_le`. Instance: the history-dependent
plain-fusion run `auIns` (V = 2, width 3, a state routed through `in_next`), `GoodRun` from `C05_lm_plumbing`. -/

theorem auLmSpec_nonneg : auLmSpec.Nonneg := by
  refine ⟨by decide +kernel, fun v => ?_, fun q v => ?_⟩
  · show (0 : Rat) ≤ if v = 0 then 1/2 else 1/4
    split <;> decide +kernel
  · show (0 : Rat) ≤ auF q v * (if v = 0 then 1/2 else 1/4)
    have h1 : (0 : Rat) ≤ auF q v := by unfold auF; split <;> decide +kernel
    have h2 : (0 : Rat) ≤ (if v = 0 then 1/2 else 1/4) := by split <;> decide +kernel
    exact Rat.mul_nonneg h1 h2

theorem auLmSpec_sub : auLmSpec.SubStoch 2 := by
  refine Ctc.subStoch_of_ext_le auLmSpec_nonneg (fun q v => ?_) (by decide +kernel)
  show auF q v * (if v = 0 then 1/2 else 1/4) ≤ (if v = 0 then (1/2 : Rat) else 1/4)
  have h1 : auF q v ≤ 1 := by unfold auF; split <;> decide +kernel
  have h2 : (0 : Rat) ≤ (if v = 0 then 1/2 else 1/4) := by split <;> decide +kernel
  calc auF q v * (if v = 0 then 1/2 else 1/4) ≤ 1 * (if v = 0 then 1/2 else 1/4) :=
        mul_le_mul_of_nonneg_right h1 h2
    _ = _ := one_mul _

/-- the fused frame is NOT stochastic (after reading token 0 the outgoing weight is 1/4 + 1/2 + 1/4 = 1, but
after the prefix `[0]` and a blank it is 1/4 + 1/16 + 1/4 = 9/16): the bound is used in its `≤` form -/
example : Ctc.outW 2 auLmSpec [0] (some 2) = 9/16 := by decide +kernel

example := C05_reported_total (V := 2) (by decide) 3 (by decide)
  (lmFrames 2 3 none (histLM 2 auF) [] (initState, [[]]) auIns) [] [auLmSpec, auLmSpec]
  (C05_lm_plumbing (V := 2) (by decide) 3 none [] [] (histLM_ok 2 auF) rfl auIns [auLmSpec, auLmSpec] auIns_good)
  (fun f hf => by
    simp only [List.mem_cons, List.mem_nil_iff, or_false, or_self] at hf
    subst hf; exact auLmSpec_sub)

example : reportedTotal (search true 2 3 2 (lmFrames 2 3 none (histLM 2 auF) [] (initState, [[]]) auIns)).1 = 13/16 := by
  decide +kernel

/-! ### Size classes (improvement round f): the one-pass evaluation of the `topk` legitimacy test -/

theorem all_range_getX (cand : List XR) (P : Nat → XR → Bool) :
    (List.range cand.length).all (fun i => P i (getX cand i)) = cand.zipIdx.all (fun xi => P xi.2 xi.1) := by
  rw [Bool.eq_iff_iff]
  simp only [List.all_eq_true, List.mem_range]
  constructor
  · intro h xi hxi
    obtain ⟨x, i⟩ := xi
    have hx := List.mem_zipIdx_iff_getElem?.mp hxi
    simp at hx
    have hi : i < cand.length := by
      rcases Nat.lt_or_ge i cand.length with h' | h'
      · exact h'
      · rw [List.getElem?_eq_none h'] at hx; cases hx
    have h2 := h i hi
    have e : getX cand i = x := by
      unfold getX; rw [List.getD_eq_getElem?_getD, hx]; rfl
    rw [e] at h2; exact h2
  · intro h i hi
    have hm : (cand[i], i) ∈ cand.zipIdx := by
      apply List.mem_zipIdx_iff_getElem?.mpr
      simp [hi]
    have h2 := h _ hm
    have e : getX cand i = cand[i] := by
      unfold getX; simp [hi]
    rw [e]; exact h2

/-- **C05_topk_fast**: the test the driver evaluates on the candidate totals of every call
(`isTopKFast`: one pass over the candidates, selected values read once) is the model's `isTopK` — for every
candidate list, `K` and selection.  (`isTopK` itself is quadratic in the number of candidates `K' · (V + 1)`,
thousands in the size classes; `C05_topk_link` etc. are about `isTopK`.) -/
theorem C05_topk_fast (cand : List XR) (K : Nat) (sel : List Nat) :
    isTopKFast cand K sel = isTopK cand K sel := by
  unfold isTopKFast isTopK
  simp only
  congr 1
  rw [all_range_getX cand (fun i x => sel.contains i || sel.all (fun j => XR.le x (getX cand j)))]
  simp only [List.all_map]
  rfl

example : isTopKFast [.fin (1/2), .negInf, .fin (3/4), .fin (1/2)] 2 [2, 3] = true ∧
    isTopKFast [.fin (1/2), .negInf, .fin (3/4), .fin (1/2)] 2 [2, 1] = false := by decide +kernel

end PdtVerif.CtcPrefix
