import PdtVerif.Lemmas.SeqScore
import PdtVerif.Lemmas.SeqScoreGreedy
import PdtVerif.Lemmas.SeqScoreWalk
import PdtVerif.Lemmas.SeqScoreSupport
import PdtVerif.Lemmas.SeqScorePacked
import PdtVerif.Lemmas.SeqScorePackedLens
import PdtVerif.Lemmas.SeqScoreFill
import PdtVerif.Lemmas.SeqScoreEnum
import PdtVerif.Lemmas.SeqScoreSample
import PdtVerif.Lemmas.SeqScoreCheck
import PdtVerif.Lemmas.SeqScoreCheckMem
import PdtVerif.Lemmas.SeqScoreCheckNone
import PdtVerif.Lemmas.SeqScoreCache
/-!
# C07 — sequence scores, random walks and greedy CTC decoding match their definitions

Property theorems only (helper lemmas live in `Lemmas/SeqScore*.lean`). Every statement is for
all sizes, vocabularies, tokens (in or out of vocabulary), `eos` values, log-softmax values and
language models of the model. Every theorem with hypotheses is followed (audit) by a
`…_nonvacuous` theorem that applies it to a concrete, non-trivial instance on which ALL its
hypotheses hold together; those are tests, not counted as obligations.
-/
namespace PdtVerif.SeqScore

/-! ## `sequence_log_probs` on a padded tensor -/

/-- `_lens_from_eos` (cumulative-sum construction) is the position of the first `eos`. -/
theorem C07_lens_from_eos (tok : List Int) (eos : Int) :
    lensFromEos tok eos = tok.idxOf eos := lensFromEos_eq_idxOf tok eos

example : lensFromEos [3, 1, 2, 1] 1 = 1 ∧ lensFromEos [3, 2] 1 = 2 ∧ lensFromEos [] 1 = 0 := by
  decide

/-- One sequence: the mask / fill / gather / fill / sum pipeline equals the sum of the
log-softmax values of the chosen tokens up to and including the first `eos`, ignoring
out-of-vocabulary positions. -/
theorem C07_seq_col (V : Nat) (eos : Option Int) (f : Nat → Nat → Rat) (col : List Int) :
    colScore V eos f col = Spec.seqScore V eos f col := colScore_eq_spec V eos f col

example : colScore 2 (some 1) (fun t v => -(t : Rat) - v) [0, 5, 1, 0] = -3 := by decide +kernel
example : Spec.seqScore 2 (some 1) (fun t v => -(t : Rat) - v) [0, 5, 1, 0] = -3 := by decide +kernel

theorem flat_index (B a b : Nat) (hb : b < B) : (a * B + b) / B = a ∧ (a * B + b) % B = b := by
  have hB : 0 < B := by omega
  constructor
  · rw [Nat.add_comm, Nat.add_mul_div_right _ _ hB, Nat.div_eq_of_lt hb, Nat.zero_add]
  · rw [Nat.add_comm, Nat.add_mul_mod_self_right, Nat.mod_eq_of_lt hb]

/-- **C07_seq**: for a `hyp` tensor of sizes `(A, T, B)` (sequence dimension anywhere: `A`, `B` are
the products of the sizes before / after it) the output cell `(a, b)` is the spec's score of the
sequence `t ↦ hyp[a, t, b]` against the rows `t ↦ lsm[a, t, b, ·]`. -/
theorem C07_seq (A T B V : Nat) (eos : Option Int) (lsm : Nat → Rat) (hyp : Nat → Int)
    (a b : Nat) (ha : a < A) (hb : b < B) :
    (seqLogProbsFlat A T B V eos lsm hyp)[a * B + b]? =
      some (Spec.seqScore V eos (fun t v => lsm (((a * T + t) * B + b) * V + v))
        ((List.range T).map (fun t => hyp ((a * T + t) * B + b)))) := by
  have hlt : a * B + b < A * B := by
    calc a * B + b < a * B + B := by omega
      _ = (a + 1) * B := by rw [Nat.add_mul, Nat.one_mul]
      _ ≤ A * B := Nat.mul_le_mul_right B ha
  obtain ⟨h1, h2⟩ := flat_index B a b hb
  unfold seqLogProbsFlat
  rw [List.getElem?_map, List.getElem?_range hlt]
  have hf : lsmCol T B V lsm (a * B + b) = fun t v => lsm (((a * T + t) * B + b) * V + v) := by
    funext t v; simp only [lsmCol, hypIdx, h1, h2]
  simp only [Option.map_some, colScore_eq_spec, hypCol, hypIdx, h1, h2, hf]

/-- `C07_seq` on a `(2, 2, 2)` tensor with the sequence dimension in the middle, cell
`(a, b) = (1, 1)`: the sequence is `[hyp[5], hyp[7]] = [1, 0]` with `eos = 1`, so only its first
token counts: `lsm[5 * 2 + 1] = -11`. -/
theorem C07_seq_nonvacuous :
    (seqLogProbsFlat 2 2 2 2 (some 1) (fun i : Nat => -(i : Rat))
      (fun i : Nat => if i = 5 then (1 : Int) else 0))[(1 * 2 + 1 : Nat)]? = some (-11 : Rat) := by
  rw [C07_seq 2 2 2 2 (some 1) _ _ 1 1 (by omega) (by omega)]
  decide +kernel

/-- The result has one cell per position outside the sequence dimension. **Definitional** (the
model is a `map` over `range (A * B)`): kept for documentation, not counted as an obligation; the
shape of the implementation's result is checked by the harness (`pred_seq`). -/
theorem C07_seq_length (A T B V : Nat) (eos : Option Int) (lsm : Nat → Rat) (hyp : Nat → Int) :
    (seqLogProbsFlat A T B V eos lsm hyp).length = A * B := by
  simp [seqLogProbsFlat]

/-- The entry point: an error exactly when `dim` is outside `[-nd, nd - 1]` or there is no class
(`V = 0`) while `hyp` has cells (`gather` on an empty class dimension raises; audit: the model
used to return the empty sums there); otherwise the sequence dimension is `dim` modulo the
rank. -/
theorem C07_seq_dim (shape : List Nat) (V : Nat) (dim : Int) (eos : Option Int) (lsm : Nat → Rat)
    (hyp : Nat → Int) :
    (seqLogProbs shape V dim eos lsm hyp = none ↔
        ((dim < -(shape.length : Int) ∨ dim > (shape.length : Int) - 1) ∨
          (V = 0 ∧ prod shape ≠ 0))) ∧
    (∀ d : Nat, d < shape.length → (dim = d ∨ dim = (d : Int) - shape.length) →
      (0 < V ∨ prod shape = 0) →
      seqLogProbs shape V dim eos lsm hyp =
        some (seqLogProbsFlat (prod (shape.take d)) (shape.getD d 1) (prod (shape.drop (d + 1))) V
          eos lsm hyp)) := by
  constructor
  · unfold seqLogProbs normDim
    by_cases h : dim < -(shape.length : Int) ∨ dim > (shape.length : Int) - 1
    · have : (decide (dim < -(shape.length : Int)) || decide (dim > (shape.length : Int) - 1)) = true := by
        simpa using h
      simp [this, h]
    · have : (decide (dim < -(shape.length : Int)) || decide (dim > (shape.length : Int) - 1)) = false := by
        simpa using h
      by_cases hv : V = 0 ∧ prod shape ≠ 0
      · simp [this, h, hv]
      · simp only [this, Bool.false_eq_true, if_false, hv, h, false_or]
        simp
  · intro d hd hdim hV
    unfold seqLogProbs normDim
    have hr : (decide (dim < -(shape.length : Int)) || decide (dim > (shape.length : Int) - 1)) = false := by
      rcases hdim with h | h <;> simp <;> omega
    have hm : (((shape.length : Int) + dim) % (shape.length : Int)).toNat = d := by
      rcases hdim with h | h
      · subst h
        rw [Int.add_comm, Int.add_emod_right, Int.emod_eq_of_lt (by omega) (by omega)]; simp
      · subst h
        have : (shape.length : Int) + ((d : Int) - shape.length) = d := by omega
        rw [this, Int.emod_eq_of_lt (by omega) (by omega)]; simp
    have hv : ¬ (V = 0 ∧ prod shape ≠ 0) := by
      rintro ⟨h1, h2⟩
      rcases hV with h | h
      · omega
      · exact h2 h
    simp only [hr, Bool.false_eq_true, if_false, hm, hv]

example : seqLogProbs [2, 3] 2 (-1) none (fun _ => 0) (fun _ => 0) ≠ none := by decide

/-- Both parts of `C07_seq_dim` on a rank-2 tensor: `dim = -1` is the last dimension (sizes
`A = 2`, `T = 3`, `B = 1`), `dim = 2` and `dim = -3` are errors. -/
theorem C07_seq_dim_nonvacuous (lsm : Nat → Rat) (hyp : Nat → Int) :
    seqLogProbs [2, 3] 2 (-1) (some 1) lsm hyp = some (seqLogProbsFlat 2 3 1 2 (some 1) lsm hyp) ∧
    seqLogProbs [2, 3] 2 2 (some 1) lsm hyp = none ∧
    seqLogProbs [2, 3] 2 (-3) (some 1) lsm hyp = none :=
  ⟨(C07_seq_dim [2, 3] 2 (-1) (some 1) lsm hyp).2 1 (by decide) (Or.inr (by decide))
      (Or.inl (by decide)),
   (C07_seq_dim [2, 3] 2 2 (some 1) lsm hyp).1.2 (Or.inl (Or.inr (by decide))),
   (C07_seq_dim [2, 3] 2 (-3) (some 1) lsm hyp).1.2 (Or.inl (Or.inl (by decide)))⟩

/-- No class at all: an error as soon as `hyp` has a cell, the empty sums when it has none. -/
example : seqLogProbs [2, 3] 0 1 none (fun _ => 0) (fun _ => 0) = none ∧
    seqLogProbs [2, 0] 0 1 none (fun _ => 0) (fun _ => 0) = some [0, 0] := by decide +kernel
example : seqLogProbs [2, 3] 2 2 none (fun _ => 0) (fun _ => 0) = none := by decide

/-! ## `sequence_log_probs` on a `PackedSequence` -/

/-- One cell of the padded computation: `0` on out-of-vocabulary tokens. -/
def paddedCell (V : Nat) (row : Nat → Rat) (h : Int) : Rat := if oov V h then 0 else row h.toNat

/-- **C07_packed** (packed = padded). If the packed rows hold the padded log-softmax tensor `x`
in `pack_padded_sequence` layout (`data[off(t) + i] = x[sorted i][t]` for `i < batch_sizes[t]`),
then the packed computation returns, for the `i`-th sorted sequence, the sum over the steps `t`
with `i < batch_sizes[t]` (i.e. within that sequence's length) of the padded cell
`x[sorted i][t][hyp[sorted i][t]]` (0 when out of vocabulary), re-ordered by
`unsorted_indices` — the same sum the padded-tensor path computes.
`hbs` says that `pack_padded_sequence(hyp, lens)` reproduces `batch_sizes` from the lengths the
code derives from them (true for every `PackedSequence`: non-increasing positive batch sizes with
`batch_sizes[0] = N`; derived in `C07_packed_valid`). This is the layout-level lemma about the
part of the code after `index_select` (`seqLogProbsPackedCore`, `N` = number of selected
sequences); the gather by `unsorted_indices` is still totalised (`getD`) here — the statements
about the entry point, under the index guards, are `C07_packed_valid` / `C07_packed_seq`. -/
theorem C07_packed (V N T : Nat) (lsm : Nat → Nat → Rat) (bs : List Nat)
    (sidx uidx : Option (List Nat)) (hyp : Nat → Nat → Int) (x : Nat → Nat → Nat → Rat)
    (hguard : (decide (N = 0) || (lensOfBatchSizes N bs).any (· == 0) ||
      decide (T < (lensOfBatchSizes N bs).headD 0)) = false)
    (hbs : batchSizesOfLens (lensOfBatchSizes N bs) = bs)
    (hlayout : ∀ t i, t < bs.length → i < bs.getD t 0 →
      lsm (offs bs t + i) = x (sortIdx sidx i) t) :
    seqLogProbsPackedCore V N T lsm bs sidx uidx hyp =
      some (
        let sums := (List.range (bs.headD 0)).map (fun i =>
          ((bs.zipIdx).map (fun bt =>
            if i < bt.1 then paddedCell V (x (sortIdx sidx i) bt.2) (hyp (sortIdx sidx i) bt.2)
            else 0)).sum)
        match uidx with
        | none => sums
        | some u => u.map (fun j => sums.getD j 0)) := by
  unfold seqLogProbsPackedCore
  simp only [hguard, hbs, Bool.false_eq_true, if_false]
  rw [filled_eq (fun r v => lsm r v) _ _ (by simp)]
  have hcells : ((List.zip ((packFn (fun i t => hyp (sortIdx sidx i) t) 0 bs).map (oov V))
        (packFn (fun i t => hyp (sortIdx sidx i) t) 0 bs)).zipIdx.map
        (fun mht => if mht.1.1 then (0 : Rat) else lsm mht.2 mht.1.2.toNat))
      = packFn (fun i t => paddedCell V (x (sortIdx sidx i) t) (hyp (sortIdx sidx i) t)) 0 bs := by
    rw [← pack_zipIdx (fun i t => hyp (sortIdx sidx i) t) _
      (fun r h => if oov V h then (0 : Rat) else lsm r h.toNat) bs 0 0]
    · apply List.ext_getElem
      · simp
      · intro i h1 h2
        simp
    · intro t i ht hi
      simp only [Nat.zero_add, paddedCell]
      rw [hlayout t i ht hi]
  rw [hcells]
  have hun : ∀ i, unpackRow (0 : Rat) i bs
      (packFn (fun i t => paddedCell V (x (sortIdx sidx i) t) (hyp (sortIdx sidx i) t)) 0 bs)
      = (bs.zipIdx 0).map (fun bt =>
          if i < bt.1 then paddedCell V (x (sortIdx sidx i) bt.2) (hyp (sortIdx sidx i) bt.2)
          else 0) := by
    intro i
    have := unpackRow_pack (0 : Rat) i
      (fun i t => paddedCell V (x (sortIdx sidx i) t) (hyp (sortIdx sidx i) t)) bs 0 []
    simpa using this
  simp only [hun]
  cases uidx <;> rfl

/-- `hguard`, `hbs` and the layout hypothesis are satisfiable: lengths `[2, 1]` packed as
`batch_sizes = [2, 1]`. -/
example : (decide ((2 : Nat) = 0) || (lensOfBatchSizes 2 [2, 1]).any (· == 0) ||
      decide (2 < (lensOfBatchSizes 2 [2, 1]).headD 0)) = false ∧
    batchSizesOfLens (lensOfBatchSizes 2 [2, 1]) = [2, 1] := by decide

/-- Length of the `i`-th sequence of the packed batch: the number of steps whose batch size
exceeds `i` (`lens = (arange(N).unsqueeze(1) < batch_sizes).sum(1)`). -/
def packedLen (bs : List Nat) (i : Nat) : Nat := (bs.filter (fun b => decide (i < b))).length

/-- The index tensors fit the batch of `N` sequences: `sorted_indices` holds one index per
sequence of `hyp`, each `< N` (otherwise `index_select` raises `IndexError`, or it selects another
number of sequences), and `unsorted_indices` addresses rows of the `N` results (otherwise
`logits[unsorted_indices]` raises `IndexError`). The `PackedSequence` constructor does not check
this. -/
def IndicesInRange (N : Nat) (sidx uidx : Option (List Nat)) : Prop :=
  (∀ s, sidx = some s → s.length = N ∧ ∀ i ∈ s, i < N) ∧ (∀ u, uidx = some u → ∀ j ∈ u, j < N)

/-- **C07_packed_valid** — `C07_packed` for the entry point, without the `hbs` and guard
hypotheses, for every valid `PackedSequence`: batch sizes non-increasing (`hmono`), positive
(`hpos`), starting at the number of sequences `N` (`hN`), index tensors that fit the batch
(`hidx`; the model raises otherwise, as the code does), and a `hyp` with at least as many steps as
the longest sequence (`hT`). The result for the `i`-th sorted sequence is the spec's score (no
`eos`) of its first `packedLen bs i` tokens against the padded rows — "`i < batch_sizes[t]`" is
"`t <` its length". (`sums.getD j 0` never falls back on its default: `j < N` by `hidx`.) -/
theorem C07_packed_valid (V N T : Nat) (lsm : Nat → Nat → Rat) (bs : List Nat)
    (sidx uidx : Option (List Nat)) (hyp : Nat → Nat → Int) (x : Nat → Nat → Nat → Rat)
    (hmono : bs.Pairwise (fun a b => b ≤ a)) (hpos : ∀ b ∈ bs, 0 < b) (hN : bs.head? = some N)
    (hT : bs.length ≤ T) (hidx : IndicesInRange N sidx uidx)
    (hlayout : ∀ t i, t < bs.length → i < bs.getD t 0 →
      lsm (offs bs t + i) = x (sortIdx sidx i) t) :
    seqLogProbsPacked V N T lsm bs sidx uidx hyp =
      some (
        let sums := (List.range N).map (fun i =>
          Spec.seqScore V none (x (sortIdx sidx i))
            ((List.range (packedLen bs i)).map (hyp (sortIdx sidx i))))
        match uidx with
        | none => sums
        | some u => u.map (fun j => sums.getD j 0)) := by
  rw [packed_entry V N T lsm bs sidx uidx hyp hN hidx.1 hidx.2,
    C07_packed V N T lsm bs sidx uidx hyp x (packed_guard N T bs hmono hpos hN hT)
    (batchSizes_roundtrip N bs hmono hpos hN) hlayout]
  have hhead : bs.headD 0 = N := by
    cases bs with
    | nil => simp at hN
    | cons b r => simpa using hN
  have hsums : (List.range (bs.headD 0)).map (fun i =>
        ((bs.zipIdx).map (fun bt =>
          if i < bt.1 then paddedCell V (x (sortIdx sidx i) bt.2) (hyp (sortIdx sidx i) bt.2)
          else 0)).sum)
      = (List.range N).map (fun i =>
          Spec.seqScore V none (x (sortIdx sidx i))
            ((List.range (packedLen bs i)).map (hyp (sortIdx sidx i)))) := by
    rw [hhead]
    apply List.map_congr_left
    intro i _
    rw [sum_steps_eq bs hmono i
      (fun t => paddedCell V (x (sortIdx sidx i) t) (hyp (sortIdx sidx i) t))]
    exact padded_cells_eq_spec V (packedLen bs i) (x (sortIdx sidx i)) (hyp (sortIdx sidx i))
  simp only [hsums]
  cases uidx <;> rfl

/-- `sorted_indices` / `unsorted_indices` of a `PackedSequence`: both absent, or both hold one
in-range index per sequence, `u` sends every sequence to its position in the sorted batch and `s`
sends it back. (Audit: `s.length = N` and `∀ i ∈ s, i < N` were missing — with a shorter `s` the
equation `s.getD (u.getD j 0) 0 = j` could hold for `j = 0` through the default of `getD`, a
`PackedSequence` on which the code raises.) -/
def InversePerm (N : Nat) (sidx uidx : Option (List Nat)) : Prop :=
  match sidx, uidx with
  | none, none => True
  | some s, some u => s.length = N ∧ u.length = N ∧ (∀ i ∈ s, i < N) ∧
      ∀ j, j < N → u.getD j 0 < N ∧ s.getD (u.getD j 0) 0 = j
  | _, _ => False

theorem InversePerm.inRange {N : Nat} {sidx uidx : Option (List Nat)}
    (h : InversePerm N sidx uidx) : IndicesInRange N sidx uidx := by
  unfold IndicesInRange
  cases sidx with
  | none =>
    cases uidx with
    | none => exact ⟨fun s hs => (by cases hs), fun u hu => (by cases hu)⟩
    | some u => simp [InversePerm] at h
  | some s =>
    cases uidx with
    | none => simp [InversePerm] at h
    | some u =>
      obtain ⟨hs, hu, hsr, hinv⟩ := h
      refine ⟨fun s' hs' => ?_, fun u' hu' => ?_⟩
      · cases hs'; exact ⟨hs, hsr⟩
      · cases hu'
        intro j hj
        obtain ⟨k, hk, rfl⟩ := List.getElem_of_mem hj
        have := (hinv k (by omega)).1
        simpa [List.getD_eq_getElem?_getD, List.getElem?_eq_getElem hk] using this

/-- Position of sequence `j` (caller's order) in the sorted batch. -/
def sortedPos (uidx : Option (List Nat)) (j : Nat) : Nat :=
  match uidx with
  | none => j
  | some u => u.getD j 0

/-- **C07_packed_seq** (packed = the definition, per sequence of the caller): for every valid
`PackedSequence` holding the padded rows `x` (caller's order), with `unsorted_indices` the inverse
of `sorted_indices`, entry `j` of the result is the sequence log-probability (spec, no `eos`) of
the first `len j` tokens of `hyp[j]` against `x[j]`, where `len j` is the packed length of
sequence `j`. -/
theorem C07_packed_seq (V N T : Nat) (lsm : Nat → Nat → Rat) (bs : List Nat)
    (sidx uidx : Option (List Nat)) (hyp : Nat → Nat → Int) (x : Nat → Nat → Nat → Rat)
    (hmono : bs.Pairwise (fun a b => b ≤ a)) (hpos : ∀ b ∈ bs, 0 < b) (hN : bs.head? = some N)
    (hT : bs.length ≤ T) (hperm : InversePerm N sidx uidx)
    (hlayout : ∀ t i, t < bs.length → i < bs.getD t 0 →
      lsm (offs bs t + i) = x (sortIdx sidx i) t) :
    seqLogProbsPacked V N T lsm bs sidx uidx hyp =
      some ((List.range N).map (fun j =>
        Spec.seqScore V none (x j)
          ((List.range (packedLen bs (sortedPos uidx j))).map (hyp j)))) := by
  rw [C07_packed_valid V N T lsm bs sidx uidx hyp x hmono hpos hN hT hperm.inRange hlayout]
  cases sidx with
  | none =>
    cases uidx with
    | none => simp [sortIdx, sortedPos]
    | some u => simp [InversePerm] at hperm
  | some s =>
    cases uidx with
    | none => simp [InversePerm] at hperm
    | some u =>
      obtain ⟨_, hlen, _, hinv⟩ := hperm
      simp only [sortedPos]
      congr 1
      rw [range_form u N 0 hlen, List.map_map]
      apply List.map_congr_left
      intro j hj
      have hjN : j < N := List.mem_range.1 hj
      obtain ⟨h1, h2⟩ := hinv j hjN
      simp only [Function.comp, ← range_form u N 0 hlen]
      rw [List.getD_eq_getElem?_getD, List.getElem?_map, List.getElem?_range h1]
      simp only [Option.map_some, Option.getD_some, sortIdx, h2]

/-! ### a concrete `PackedSequence` on which ALL hypotheses hold (non-vacuity)

Two sequences of lengths `[1, 2]` (caller's order), packed unsorted: `batch_sizes = [2, 1]`,
`sorted_indices = unsorted_indices = [1, 0]`; `hyp[0] = [1, 5]` (the `5` is beyond the packed
length), `hyp[1] = [0, 1]`; padded rows `x[j][t][v] = -(1 + j + 2t + 4v)`; the packed rows hold
`x[1][0], x[0][0], x[1][1]`. Expected: `[x[0][0][1], x[1][0][0] + x[1][1][1]] = [-5, -10]`. -/

def exX (j t v : Nat) : Rat := -((1 + j + 2 * t + 4 * v : Nat) : Rat)
def exLsm (r v : Nat) : Rat :=
  match r with
  | 0 => exX 1 0 v
  | 1 => exX 0 0 v
  | _ => exX 1 1 v
def exHyp (n t : Nat) : Int :=
  if n = 0 then (if t = 0 then 1 else 5) else (if t = 0 then 0 else 1)

theorem exLayout : ∀ t i, t < [2, 1].length → i < [2, 1].getD t 0 →
    exLsm (offs [2, 1] t + i) = exX (sortIdx (some [1, 0]) i) t := by
  intro t i ht hi
  match t, i, ht, hi with
  | 0, 0, _, _ => rfl
  | 0, 1, _, _ => rfl
  | 1, 0, _, _ => rfl
  | 0, i + 2, _, hi => simp at hi; omega
  | 1, i + 1, _, hi => simp at hi
  | t + 2, _, ht, _ => simp at ht; omega

theorem exPerm : InversePerm 2 (some [1, 0]) (some [1, 0]) := by
  refine ⟨rfl, rfl, by decide, ?_⟩
  intro j hj
  have : j = 0 ∨ j = 1 := by omega
  rcases this with rfl | rfl <;> decide

/-- All hypotheses of `C07_packed` hold together on the instance, and the conclusion is the
expected pair of sums. -/
theorem C07_packed_nonvacuous :
    seqLogProbsPackedCore 2 2 2 exLsm [2, 1] (some [1, 0]) (some [1, 0]) exHyp
      = some [-5, -10] := by
  rw [C07_packed 2 2 2 exLsm [2, 1] (some [1, 0]) (some [1, 0]) exHyp exX (by decide) (by decide)
    exLayout]
  decide +kernel

/-- All hypotheses of `C07_packed_valid` hold together on the instance. -/
theorem C07_packed_valid_nonvacuous :
    seqLogProbsPacked 2 2 2 exLsm [2, 1] (some [1, 0]) (some [1, 0]) exHyp = some [-5, -10] := by
  rw [C07_packed_valid 2 2 2 exLsm [2, 1] (some [1, 0]) (some [1, 0]) exHyp exX (by decide)
    (by decide) rfl (by decide) exPerm.inRange exLayout]
  decide +kernel

/-- All hypotheses of `C07_packed_seq` hold together on the instance (lengths `[1, 2]`, a token
beyond the packed length that is not counted, a re-ordering that is not the identity). -/
theorem C07_packed_seq_nonvacuous :
    seqLogProbsPacked 2 2 2 exLsm [2, 1] (some [1, 0]) (some [1, 0]) exHyp = some [-5, -10] ∧
    packedLen [2, 1] (sortedPos (some [1, 0]) 0) = 1 ∧
    packedLen [2, 1] (sortedPos (some [1, 0]) 1) = 2 := by
  refine ⟨?_, by decide, by decide⟩
  rw [C07_packed_seq 2 2 2 exLsm [2, 1] (some [1, 0]) (some [1, 0]) exHyp exX (by decide)
    (by decide) rfl (by decide) exPerm exLayout]
  decide +kernel

/-- The model itself computes the same on the instance (no theorem involved). -/
example : seqLogProbsPacked 2 2 2 exLsm [2, 1] (some [1, 0]) (some [1, 0]) exHyp
    = some [-5, -10] := by decide +kernel

/-- Malformed index tensors are rejected by the model, as `index_select` / `logits[idx]` /
`pad_packed_sequence` reject them (the situations `hidx` excludes): a sorted index outside `hyp`,
fewer selected sequences than the packed batch, an unsorted index outside the result; more
selected sequences than the packed batch give a zero length (`pack_padded_sequence` raises). -/
example : seqLogProbsPacked 2 2 2 exLsm [2, 1] (some [2, 0]) (some [1, 0]) exHyp = none := by decide
example : seqLogProbsPacked 2 2 2 exLsm [2, 1] (some [1]) (some [1, 0]) exHyp = none := by decide
example : seqLogProbsPacked 2 2 2 exLsm [2, 1] (some [1, 0]) (some [2, 0]) exHyp = none := by decide
example : seqLogProbsPacked 2 3 2 exLsm [2, 1] none none exHyp = none := by decide
example : seqLogProbsPacked 2 1 2 exLsm [2, 1] none none exHyp = none := by decide

/-! ## greedy CTC decoding -/

/-- `max(2)` returns a largest entry of the frame and a position holding it ("frame-wise best
label"); which one among equal maxima is not specified. -/
theorem C07_greedy_best (row : List Rat) (hne : row ≠ []) :
    row[(frameMax row).2]? = some (frameMax row).1 ∧ ∀ x ∈ row, x ≤ (frameMax row).1 :=
  frameMax_spec row hne

/-- **C07_greedy_filler**: lowering entries of a frame while one maximal entry keeps its value
(e.g. replacing the `-inf` of masked classes by any finite value below the rest) does not change
the frame maximum, and with a strict maximum not its index either — so the finite filler the
harness hands the model for `-inf` classes cannot change the model's answer. -/
theorem C07_greedy_filler (row row' : List Rat) (hne : row ≠ []) (hlen : row'.length = row.length)
    (hle : ∀ (i : Nat) x x', row[i]? = some x → row'[i]? = some x' → x' ≤ x)
    (hkeep : row'[(frameMax row).2]? = some (frameMax row).1) :
    (frameMax row').1 = (frameMax row).1 ∧
      ((∀ (i : Nat) x, row[i]? = some x → i ≠ (frameMax row).2 → x < (frameMax row).1) →
        frameMax row' = frameMax row) :=
  frameMax_lower row row' hne hlen hle hkeep

/-- All hypotheses of `C07_greedy_best` / `C07_greedy_filler` together: the frame `[-1, -3, -2]`
(strict maximum at index 0) with its two losing classes lowered to `[-1, -7, -5]` (what the
harness's finite filler does to `-inf` classes). -/
theorem C07_greedy_best_nonvacuous :
    ([-3, -1, -2] : List Rat)[(1 : Nat)]? = some (-1 : Rat) ∧
      ∀ x ∈ ([-3, -1, -2] : List Rat), x ≤ -1 := by
  have h := C07_greedy_best [-3, -1, -2] (by simp)
  have e : frameMax [-3, -1, -2] = (-1, 1) := by decide +kernel
  rw [e] at h
  exact h

theorem C07_greedy_filler_nonvacuous :
    frameMax ([-1, -7, -5] : List Rat) = frameMax [-1, -3, -2] := by
  have e : frameMax ([-1, -3, -2] : List Rat) = (-1, 0) := by decide +kernel
  have h := C07_greedy_filler [-1, -3, -2] [-1, -7, -5] (by simp) rfl
    (by
      intro i x x' h1 h2
      match i, h1, h2 with
      | 0, h1, h2 => simp at h1 h2; subst h1 h2; decide +kernel
      | 1, h1, h2 => simp at h1 h2; subst h1 h2; decide +kernel
      | 2, h1, h2 => simp at h1 h2; subst h1 h2; decide +kernel
      | n + 3, h1, _ => simp at h1)
    (by decide +kernel)
  apply h.2
  rw [e]
  intro i x h1 hne
  match i, h1, hne with
  | 0, _, hne => exact absurd rfl hne
  | 1, h1, _ => simp at h1; subst h1; decide +kernel
  | 2, h1, _ => simp at h1; subst h1; decide +kernel
  | n + 3, h1, _ => simp at h1

/-- Frames without classes (`V = 0`, where `frameMax []` is a totalisation) are unreachable: as in
the code (`blank_idx < -V or blank_idx > V - 1`), every blank index is rejected when `V = 0`. -/
theorem normBlank_zero (b : Int) : normBlank 0 b = none := by
  simp only [normBlank, ite_eq_left_iff, Bool.not_eq_true, reduceCtorEq, imp_false,
    Bool.not_eq_false, Bool.or_eq_true, decide_eq_true_eq]
  omega

/-- Valid length of batch element `n` with `T` frames. -/
def lenOf (lens : Option (List Nat)) (n T : Nat) : Nat :=
  match lens with
  | none => T
  | some ls => ls.getD n T

/-- **C07_greedy**: for every batch element `n`, `out_lens[n]` is the number of labels,
`paths[n, :out_lens[n]]` are the frame-wise best labels within the valid length with adjacent
repeats and then blanks removed, and the score is the sum (product) of the frame maxima within
the valid length — although selection and compaction go through batch-flattened buffers. -/
theorem C07_greedy (frames : List (List (List Rat))) (lens : Option (List Nat)) (blank : Nat)
    (isProbs : Bool) (hl : ∀ ls, lens = some ls → ls.length = frames.length)
    (n : Nat) (hn : n < frames.length) :
    let out := ctcGreedy frames lens blank isProbs
    let am := frames[n].map (fun row => (frameMax row).2)
    let mx := frames[n].map (fun row => (frameMax row).1)
    let labels := Spec.greedyLabels blank (lenOf lens n frames[n].length) am
    out.outLens[n]? = some labels.length ∧
    (out.paths[n]?).map (List.take labels.length) = some labels ∧
    out.score[n]? = some (Spec.greedyScore isProbs (lenOf lens n frames[n].length) mx) := by
  intro out am mx labels
  cases lens with
  | none =>
    have hout : out = ctcGreedy frames none blank isProbs := rfl
    simp only [ctcGreedy, keeps_none] at hout
    rw [scatter_select _ _ (aligned_map blank _)] at hout
    have hlab : labelsOf am (keepOf blank am none) = labels := by
      rw [labelsOf_keepOf]; simp [labels, lenOf, am]
    refine ⟨?_, ?_, ?_⟩
    · rw [hout]
      simp only [List.getElem?_map, List.getElem?_eq_getElem hn, Option.map_some]
      rw [count_eq_labelsOf_length _ _ (keepOf_length _ _ _)]
      exact congrArg some (congrArg List.length hlab)
    · rw [hout]
      simp only [List.getElem?_zipWith, List.getElem?_map, List.getElem?_eq_getElem hn,
        Option.map_some]
      simp only [am] at hlab
      rw [hlab]
      simp
    · rw [hout]
      simp only [List.getElem?_map, List.getElem?_eq_getElem hn, Option.map_some]
      have := score_row isProbs mx none
      simp only [Option.getD_none] at this
      simp only [mx, List.length_map] at this
      simp only [lenOf, mx, List.length_map]
      exact congrArg some this
  | some ls =>
    have hls : ls.length = frames.length := hl ls rfl
    have hn' : n < ls.length := by omega
    have hout : out = ctcGreedy frames (some ls) blank isProbs := rfl
    simp only [ctcGreedy, keeps_some] at hout
    rw [scatter_select _ _ (aligned_zipWith blank _ ls (by simpa using hls))] at hout
    have hlen : lenOf (some ls) n frames[n].length = ls[n] := by
      simp [lenOf, List.getD_eq_getElem?_getD, List.getElem?_eq_getElem hn']
    have hlab : labelsOf am (keepOf blank am (some ls[n])) = labels := by
      rw [labelsOf_keepOf]; simp [labels, hlen]
    refine ⟨?_, ?_, ?_⟩
    · rw [hout]
      simp only [List.getElem?_map, List.getElem?_zipWith, List.getElem?_eq_getElem hn,
        List.getElem?_eq_getElem hn', Option.map_some]
      rw [count_eq_labelsOf_length _ _ (keepOf_length _ _ _)]
      exact congrArg some (congrArg List.length hlab)
    · rw [hout]
      simp only [List.getElem?_zipWith, List.getElem?_map, List.getElem?_eq_getElem hn,
        List.getElem?_eq_getElem hn', Option.map_some]
      simp only [am] at hlab
      rw [hlab]
      simp
    · rw [hout]
      simp only [List.getElem?_map, List.getElem?_zipWith, List.getElem?_eq_getElem hn,
        List.getElem?_eq_getElem hn', Option.map_some]
      have := score_row isProbs mx (some ls[n])
      simp only [Option.getD_some] at this
      simp only [mx, List.length_map] at this
      rw [hlen]
      simp only [mx, List.length_map]
      exact congrArg some this

/-- Two batch elements of five frames, valid lengths `[4, 1]`, blank `0`. Element 0: frame-wise
best labels `[1, 1, 0, 2 | 2]` → within the length `[1, 1, 0, 2]` → repeats removed `[1, 0, 2]` →
blanks removed `[1, 2]`; score `2 + 3 + 5 + 7`. -/
def exFrames : List (List (List Rat)) :=
  [[[1, 2, 0], [0, 3, 1], [5, 0, 0], [0, 0, 7], [0, 0, 9]],
   [[0, 1, 0], [0, 2, 0], [1, 0, 0], [1, 0, 0], [1, 0, 0]]]

/-- The hypothesis of `C07_greedy` holds (one length per batch element) and the theorem yields the
concrete labels, count and score of element 0 — a repeat and a blank are removed, one frame lies
beyond the length, and the flat `masked_select` buffer also holds element 1's label. -/
theorem C07_greedy_nonvacuous :
    (ctcGreedy exFrames (some [4, 1]) 0 false).outLens[0]? = some 2 ∧
    ((ctcGreedy exFrames (some [4, 1]) 0 false).paths[0]?).map (List.take 2) = some [1, 2] ∧
    (ctcGreedy exFrames (some [4, 1]) 0 false).score[0]? = some 17 := by
  have h := C07_greedy exFrames (some [4, 1]) 0 false (by intro ls h; cases h; rfl) 0 (by decide)
  have e1 : Spec.greedyLabels 0 (lenOf (some [4, 1]) 0 exFrames[0].length)
      (exFrames[0].map (fun row => (frameMax row).2)) = [1, 2] := by decide +kernel
  have e2 : Spec.greedyScore false (lenOf (some [4, 1]) 0 exFrames[0].length)
      (exFrames[0].map (fun row => (frameMax row).1)) = 17 := by decide +kernel
  simp only [e1, e2] at h
  exact h

example : (ctcGreedy [[[1, 2, 0], [0, 3, 1], [5, 0, 0], [0, 0, 7], [0, 0, 9]]] (some [4]) 0 false).paths
    = [[1, 2, 0, 2, 2]] := by decide
example : Spec.greedyLabels 0 4 [1, 1, 0, 2, 2] = [1, 2] := by decide

/-! ## the random walk -/

/-- **C07_walk_state**: for every language model, vocabulary, `eos`, batch size, step limit and
every replayed draw matrix `D` (rows of `N` in-vocabulary tokens; a path that has ended can only
draw `eos`), the walk stops after some `t ≤ |D|` draws in the state described by `D.take t`:
`y` is exactly those rows, and it stops before the step limit only when every path has ended. -/
theorem C07_walk_state (lm : LM) (V : Nat) (eos : Option Nat) (N maxIters : Nat)
    (draws : List (List Nat)) (heos : ∀ e, eos = some e → e < V)
    (hrows : Rows N V (draws.take maxIters)) (hf : Forced eos N (draws.take maxIters)) :
    ∃ t, t ≤ (draws.take maxIters).length ∧
      Inv lm eos N ((draws.take maxIters).take t) (walk lm V eos N maxIters draws) ∧
      (t = (draws.take maxIters).length ∨ AllDone eos N ((draws.take maxIters).take t)) := by
  have := walkLoop_inv lm V eos N heos (draws.take maxIters) [] (initState N)
    (by simpa using hrows) (by simpa using hf) (inv_init lm eos N)
  simpa [walk] using this

/-- **C07_walk**: every path `n` of the walk
* is the drawn tokens up to and including its first `eos` (`len` counts that `eos`), or — when
  it never drew `eos` — all draws up to the step limit;
* its reported score is the chained score `Σ_t lm(path[:t])[path[t]]`;
* and that is what the distribution wrapper's `log_prob`, i.e. `sequence_log_probs` applied to
  the language model's outputs on `y[:-1]`, gives for column `n` of `y`. -/
theorem C07_walk (lm : LM) (V : Nat) (eos : Option Nat) (N maxIters : Nat)
    (draws : List (List Nat)) (heos : ∀ e, eos = some e → e < V)
    (hrows : Rows N V (draws.take maxIters)) (hf : Forced eos N (draws.take maxIters))
    (n : Nat) (hn : n < N) :
    let s := walk lm V eos N maxIters draws
    let col := column s.y n
    let path := Spec.pathOf eos col
    s.lens[n]? = some path.length ∧
    col.take path.length = path ∧
    ((∃ e, eos = some e ∧ path.getLast? = some e ∧ e ∉ path.dropLast) ∨
      (path = col ∧ col.length = (draws.take maxIters).length ∧ ∀ e, eos = some e → e ∉ path)) ∧
    s.lp[n]? = some (some (Spec.chained (lm n) [] path)) ∧
    distLogProb lm V eos n (col.map Int.ofNat) = Spec.chained (lm n) [] path := by
  intro s col path
  obtain ⟨t, ht, hinv, hend⟩ := C07_walk_state lm V eos N maxIters draws heos hrows hf
  have hy : s.y = (draws.take maxIters).take t := hinv.y
  have hcolv : ∀ x ∈ col, x < V := by
    intro x hx
    simp only [col, column, hy, List.mem_map] at hx
    obtain ⟨row, hrow, rfl⟩ := hx
    have hrowD : row ∈ draws.take maxIters := List.mem_of_mem_take hrow
    have hl : row.length = N := hrows.len row hrowD
    have : row.getD n 0 = row[n] := by
      simp [List.getD_eq_getElem?_getD, List.getElem?_eq_getElem (by omega : n < row.length)]
    rw [this]
    exact hrows.vocab row hrowD _ (List.getElem_mem _)
  refine ⟨?_, ?_, ?_, ?_, ?_⟩
  · rw [hinv.lens]
    simp [List.getElem?_map, List.getElem?_range hn, pathLen, path, col, hy]
  · obtain ⟨m, hm, hp⟩ := pathOf_prefix eos col
    simp only [path]
    rw [hp, List.length_take]
    congr 1
    omega
  · by_cases hd : isDone eos col = true
    · left
      cases heq : eos with
      | none => rw [heq] at hd; simp [isDone] at hd
      | some e =>
        rw [heq] at hd
        have hm : e ∈ col := by simpa [isDone] using hd
        have := path_done e col hm
        refine ⟨e, rfl, ?_, ?_⟩
        · simpa [path, heq] using this.2.1
        · simpa [path, heq] using this.2.2
    · right
      have hd' : isDone eos col = false := by simpa using hd
      have hpc : path = col := pathOf_of_not_done eos col hd'
      refine ⟨hpc, ?_, ?_⟩
      · rcases hend with h | h
        · simp only [col, column_length, hy, h]; simp
        · have := h n hn
          simp only [col, hy] at hd'
          rw [this] at hd'; cases hd'
      · intro e he hmem
        rw [hpc] at hmem
        rw [he] at hd'
        simp [isDone] at hd'
        exact hd' hmem
  · rw [hinv.lp]
    simp [List.getElem?_map, List.getElem?_range hn, path, col, hy]
  · exact distLogProb_eq_chained lm V eos n col hcolv

/-! ### a concrete walk on which ALL hypotheses hold (non-vacuity)

Vocabulary `{0, 1, 2}`, `eos = 0`, two paths, step limit 3, language model
`lm n hist v = -(1 + n + |hist| + v)`. Path 0 draws `1, 2, 1` (runs to the step limit), path 1
draws `eos` at once and is then forced onto `eos`. -/

def exDraws : List (List Nat) := [[1, 0], [2, 0], [1, 0]]
def exLm : LM := fun n hist v => -((1 + n + hist.length + v : Nat) : Rat)

theorem exRows : Rows 2 3 (exDraws.take 3) := ⟨by decide, by decide⟩

theorem exForced : Forced (some 0) 2 (exDraws.take 3) := by
  intro e he n hn i j hij hj hi
  cases he
  have hn' : n = 0 ∨ n = 1 := by omega
  have hj' : j = 1 ∨ j = 2 := by simp [exDraws] at hj; omega
  rcases hn' with rfl | rfl <;> rcases hj' with rfl | rfl <;>
    (have hi' : i = 0 ∨ i = 1 := by omega) <;> rcases hi' with rfl | rfl <;>
    simp_all [column, exDraws]

theorem exEos : ∀ e, some 0 = some e → e < 3 := by
  intro e he; cases he; decide

/-- `C07_walk_state` applied to the instance: the walk consumed all three rows (`t = 3`): path 0
never ended. -/
theorem C07_walk_state_nonvacuous :
    ∃ t, t ≤ 3 ∧ (walk exLm 3 (some 0) 2 3 exDraws).y = exDraws.take t ∧
      (t = 3 ∨ AllDone (some 0) 2 (exDraws.take t)) := by
  obtain ⟨t, ht, hinv, hend⟩ := C07_walk_state exLm 3 (some 0) 2 3 exDraws exEos exRows exForced
  exact ⟨t, ht, hinv.y, hend⟩

/-- `C07_walk` applied to both paths of the instance: path 1 is `[eos]` (length 1, although three
rows were consumed), path 0 the three draws; reported score = chained score = `log_prob`:
`-2` and `-2 - 4 - 4 = -10`. -/
theorem C07_walk_nonvacuous :
    (walk exLm 3 (some 0) 2 3 exDraws).lens = [3, 1] ∧
    (walk exLm 3 (some 0) 2 3 exDraws).lp[1]? = some (some (-2 : Rat)) ∧
    distLogProb exLm 3 (some 0) 1 [0, 0, 0] = -2 ∧
    (walk exLm 3 (some 0) 2 3 exDraws).lp[0]? = some (some (-10 : Rat)) ∧
    distLogProb exLm 3 (some 0) 0 [1, 2, 1] = -10 := by
  have h1 := C07_walk exLm 3 (some 0) 2 3 exDraws exEos exRows exForced 1 (by decide)
  have h0 := C07_walk exLm 3 (some 0) 2 3 exDraws exEos exRows exForced 0 (by decide)
  have c1 : column (walk exLm 3 (some 0) 2 3 exDraws).y 1 = [0, 0, 0] := by decide +kernel
  have c0 : column (walk exLm 3 (some 0) 2 3 exDraws).y 0 = [1, 2, 1] := by decide +kernel
  simp only [c1, c0] at h1 h0
  have p1 : Spec.chained (exLm 1) [] (Spec.pathOf (some 0) [0, 0, 0]) = -2 := by decide +kernel
  have p0 : Spec.chained (exLm 0) [] (Spec.pathOf (some 0) [1, 2, 1]) = -10 := by decide +kernel
  obtain ⟨_, _, _, a4, a5⟩ := h1
  obtain ⟨_, _, _, b4, b5⟩ := h0
  rw [p1] at a4 a5
  rw [p0] at b4 b5
  exact ⟨by decide +kernel, a4, a5, b4, b5⟩

example : (walk (fun _ _ _ => -1) 3 (some 0) 2 3 [[1, 0], [2, 0], [1, 0]]).lens = [3, 1] := by
  decide +kernel

/-! ## the distribution wrapper -/

/-- **C07_support_sums_to_one** (over `Rat`; `exp`/`log` are not modelled): for any language
model whose conditional probabilities `p hist ·` sum to one over the vocabulary, the
eos-truncated sequences of length `≤ T` (the rows of `Spec.support`, the padded form of
`enumerate_support()`) carry total probability one. -/
theorem C07_support_sums_to_one (V : Nat) (eos : Option Nat) (p : List Nat → Nat → Rat)
    (hnorm : ∀ h, ((List.range V).map (p h)).sum = 1) (T : Nat) :
    ((Spec.support V eos T).map (Spec.seqProb eos p [])).sum = 1 :=
  support_mass V eos p hnorm T []

/-- A history-dependent language model with normalised conditional probabilities over `{0, 1}`:
after an even number of tokens `(1/4, 3/4)`, after an odd number `(2/3, 1/3)`. -/
def exP (hist : List Nat) (v : Nat) : Rat :=
  if hist.length % 2 = 0 then (if v = 0 then 1 / 4 else 3 / 4) else (if v = 0 then 2 / 3 else 1 / 3)

theorem exP_norm : ∀ h, ((List.range 2).map (exP h)).sum = 1 := by
  intro h
  have e : List.range 2 = [0, 1] := by decide
  rcases Nat.mod_two_eq_zero_or_one h.length with hm | hm
  · simp only [e, exP, hm, List.map_cons, List.map_nil]; decide +kernel
  · simp only [e, exP, hm, List.map_cons, List.map_nil]; decide +kernel

/-- `hnorm` holds for `exP`, and the three rows of the support of `eos = 0`, `T = 2` carry
`1/4 + 3/4 * 2/3 + 3/4 * 1/3 = 1`. -/
theorem C07_support_sums_to_one_nonvacuous :
    ((Spec.support 2 (some 0) 2).map (Spec.seqProb (some 0) exP [])).sum = 1 ∧
    (Spec.support 2 (some 0) 2).map (Spec.seqProb (some 0) exP []) = [1 / 4, 1 / 2, 1 / 4] :=
  ⟨C07_support_sums_to_one 2 (some 0) exP exP_norm 2, by decide +kernel⟩

example : Spec.support 2 (some 0) 2 = [[0, 0], [1, 0], [1, 1]] := by decide

/-- **C07_fill_after_eos**: `_string.py::fill_after_eos` (`(tok == eos).cumsum.clamp_max(1).cumsum > 1`)
keeps the tokens up to and including the first `eos` and writes `fill` into every later cell —
for any token type, any `eos`, any `fill`. -/
theorem C07_fill_after_eos {α} [BEq α] [LawfulBEq α] (tok : List α) (eos fill : α) :
    fillAfterEos tok eos fill =
      tok.take (tok.idxOf eos + 1) ++ List.replicate (tok.length - (tok.idxOf eos + 1)) fill :=
  fillAfterEos_eq tok eos fill

/-- … in particular `fill_after_eos(s, eos, fill=eos)` is the spec `fillSpec`. -/
theorem C07_fill_after_eos_spec (s : List Nat) (e : Nat) :
    fillAfterEos s e e = Spec.fillSpec e s := fillAfterEos_eq_spec s e

example : fillAfterEos [2, 0, 1, 0, 2] 0 7 = [2, 0, 7, 7, 7] := by decide

/-- **C07_enumerate_support**: `enumerate_support()` (`enumerate_vocab_sequences` →
`fill_after_eos` → `torch.unique(dim=0)`) lists exactly the rows of `Spec.support`, each once;
with `eos` set it is the same list in the same (lexicographic) order.
`_hT` marks the domain on which the model is faithful (the property quantifies over step limits
`≥ 1`): with `max_iters = 0` the implementation's `enumerate_support()` raises (`torch.unique` on a
zero-sized dimension when `eos` is set, a `view` error with a batch shape) while the model returns
the single empty row; the proof does not need the hypothesis. -/
theorem C07_enumerate_support (V T : Nat) (eos : Option Nat) (_hT : 0 < T) :
    (∀ r, r ∈ enumerateSupport V T eos ↔ r ∈ Spec.support V eos T) ∧
    (enumerateSupport V T eos).Nodup ∧
    (enumerateSupport V T eos).Perm (Spec.support V eos T) ∧
    (∀ e, eos = some e → enumerateSupport V T eos = Spec.support V eos T) := by
  refine ⟨mem_enumerateSupport V T eos, ?_, enumerateSupport_perm V T eos, ?_⟩
  · exact (enumerateSupport_perm V T eos).symm.nodup (sorted_support V eos T).nodup
  · intro e he
    subst he
    exact enumerateSupport_eq V T e

example : enumerateSupport 2 2 (some 0) = [[0, 0], [1, 0], [1, 1]] := by decide
example : enumerateSupport 2 2 none = [[0, 0], [1, 0], [0, 1], [1, 1]] := by decide

/-- **C07_enumerated_support_sums_to_one**: the probabilities of the rows the implementation
enumerates (model of `enumerate_support()`) sum to one, for any language model with normalised
conditional probabilities (over `Rat`; `exp`/`log` not modelled); `_hT`: see
`C07_enumerate_support`. -/
theorem C07_enumerated_support_sums_to_one (V : Nat) (eos : Option Nat) (p : List Nat → Nat → Rat)
    (hnorm : ∀ h, ((List.range V).map (p h)).sum = 1) (T : Nat) (_hT : 0 < T) :
    ((enumerateSupport V T eos).map (Spec.seqProb eos p [])).sum = 1 := by
  rw [rat_sum_perm ((enumerateSupport_perm V T eos).map _)]
  exact support_mass V eos p hnorm T []

theorem C07_enumerated_support_sums_to_one_nonvacuous :
    ((enumerateSupport 2 2 (some 0)).map (Spec.seqProb (some 0) exP [])).sum = 1 ∧
    ((enumerateSupport 2 3 none).map (Spec.seqProb none exP [])).sum = 1 :=
  ⟨C07_enumerated_support_sums_to_one 2 (some 0) exP exP_norm 2 (by decide),
   C07_enumerated_support_sums_to_one 2 none exP exP_norm 3 (by decide)⟩

/-- **C07_sample_in_support** (no batch shape): every row `sample()` returns — a column of the
single walk's `y` — is, once padded with `eos` to the step limit, a row of `enumerate_support()`.
Same draw hypotheses as `C07_walk`; `henough`: without `eos` the replay supplies `max_iters` draw
rows; `_hT`: see `C07_enumerate_support`. (`eos.getD 0`: without `eos` every row has `T` tokens,
`walk_columns`, so nothing is padded and the default is never used.) -/
theorem C07_sample_in_support (lm : LM) (V : Nat) (eos : Option Nat) (M T : Nat)
    (draws : List (List Nat)) (heos : ∀ e, eos = some e → e < V)
    (hrows : Rows M V (draws.take T)) (hf : Forced eos M (draws.take T))
    (henough : eos = none → T ≤ draws.length) (_hT : 0 < T)
    (r : List Nat) (hr : r ∈ sampleFlat lm V eos M T draws) :
    r.length ≤ T ∧ padTo T (eos.getD 0) r ∈ enumerateSupport V T eos := by
  simp only [sampleFlat, List.mem_map, List.mem_range] at hr
  obtain ⟨n, hn, rfl⟩ := hr
  exact ⟨(walk_columns lm V eos M T draws heos hrows hf henough n hn).1,
    mem_enumerate_of_column lm V eos M T draws heos hrows hf henough n hn⟩

/-- **C07_sample_batched_in_support** (batch shape `N`, one walk per draw): every row of the
stacked and `eos`-padded sample tensor is, once padded with `eos` to the step limit, a row of
`enumerate_support()`. -/
theorem C07_sample_batched_in_support (lm : LM) (V : Nat) (eos : Option Nat) (N T : Nat)
    (draws : List (List (List Nat))) (heos : ∀ e, eos = some e → e < V)
    (h : ∀ d ∈ draws, Rows N V (d.take T) ∧ Forced eos N (d.take T) ∧
      (eos = none → T ≤ d.length)) (_hT : 0 < T)
    (r : List Nat) (hr : r ∈ sampleBatched lm V eos N T draws) :
    r.length ≤ T ∧ padTo T (eos.getD 0) r ∈ enumerateSupport V T eos := by
  simp only [sampleBatched, List.mem_flatMap, List.mem_map, List.mem_range] at hr
  obtain ⟨y, ⟨d, hd, rfl⟩, n, hn, rfl⟩ := hr
  obtain ⟨hR, hF, hE⟩ := h d hd
  have hcol := walk_columns lm V eos N T d heos hR hF hE n hn
  have hS : (List.map List.length (List.map (fun d => (walk lm V eos N T d).y) draws)).foldl max 0 ≤ T := by
    apply foldl_max_le _ 0 T (Nat.zero_le _)
    intro x hx
    simp only [List.mem_map] at hx
    obtain ⟨_, ⟨d', hd', rfl⟩, rfl⟩ := hx
    obtain ⟨hR', hF', hE'⟩ := h d' hd'
    have := (walk_columns lm V eos N T d' heos hR' hF' hE' n hn).1
    rwa [column_length] at this
  have hle : (column (walk lm V eos N T d).y n).length ≤
      (List.map List.length (List.map (fun d => (walk lm V eos N T d).y) draws)).foldl max 0 := by
    rw [column_length]
    apply le_foldl_max
    simp only [List.mem_map]
    exact ⟨_, ⟨d, hd, rfl⟩, rfl⟩
  refine ⟨?_, ?_⟩
  · simp only [padTo, List.length_append, List.length_replicate]; omega
  · rw [padTo_padTo _ T _ _ hle hS]
    exact mem_enumerate_of_column lm V eos N T d heos hR hF hE n hn

example : sampleBatched (fun _ _ _ => -1) 3 (some 2) 1 3 [[[2]], [[0], [1], [2]]]
    = [[2, 2, 2], [0, 1, 2]] := by decide +kernel

/-- `C07_sample_in_support` on the walk instance of `C07_walk_nonvacuous` (all hypotheses
together): both sampled rows, `[1, 2, 1]` and the forced `[0, 0, 0]`, are rows of
`enumerate_support()`. -/
theorem C07_sample_in_support_nonvacuous :
    sampleFlat exLm 3 (some 0) 2 3 exDraws = [[1, 2, 1], [0, 0, 0]] ∧
    ∀ r ∈ sampleFlat exLm 3 (some 0) 2 3 exDraws,
      r.length ≤ 3 ∧ padTo 3 0 r ∈ enumerateSupport 3 3 (some 0) :=
  ⟨by decide +kernel, fun r hr =>
    C07_sample_in_support exLm 3 (some 0) 2 3 exDraws exEos exRows exForced (by intro h; cases h)
      (by decide) r hr⟩

/-- Draw matrices of two walks with batch size 2: in the first both paths end at step 0 (the walk
stops after one row; its rows are padded with `eos` to the length of the longer walk), the second
is the walk of `C07_walk_nonvacuous`. -/
def exDrawsB : List (List (List Nat)) := [[[0, 0]], exDraws]

theorem exBatchedHyps : ∀ d ∈ exDrawsB, Rows 2 3 (d.take 3) ∧ Forced (some 0) 2 (d.take 3) ∧
    ((some 0 : Option Nat) = none → 3 ≤ d.length) := by
  intro d hd
  simp only [exDrawsB, List.mem_cons, List.not_mem_nil, or_false] at hd
  rcases hd with rfl | rfl
  · refine ⟨⟨by decide, by decide⟩, ?_, by intro h; cases h⟩
    intro e he n hn i j hij hj hi
    simp at hj
    omega
  · exact ⟨exRows, exForced, by intro h; cases h⟩

/-- `C07_sample_batched_in_support` with all hypotheses together; the sample tensor has the rows
`[0,0,0], [0,0,0]` (padded) and `[1,2,1], [0,0,0]`. -/
theorem C07_sample_batched_in_support_nonvacuous :
    sampleBatched exLm 3 (some 0) 2 3 exDrawsB = [[0, 0, 0], [0, 0, 0], [1, 2, 1], [0, 0, 0]] ∧
    ∀ r ∈ sampleBatched exLm 3 (some 0) 2 3 exDrawsB,
      r.length ≤ 3 ∧ padTo 3 0 r ∈ enumerateSupport 3 3 (some 0) :=
  ⟨by decide +kernel, fun r hr =>
    C07_sample_batched_in_support exLm 3 (some 0) 2 3 exDrawsB exEos exBatchedHyps (by decide) r hr⟩

/-- `_validate_sample` of the repaired code is `TokenSequenceConstraint.check` on the event
dimension (**definitional**: with `pinned = false` the shape test of the model is `true`; helper,
not counted). -/
theorem validateSample_repaired (V : Nat) (eos : Option Int) (maxIters : Option Nat)
    (value : List Int) :
    validateSample false V eos maxIters value = supportCheck V eos maxIters value := by
  simp [validateSample, eventDimOk]

/-- **C07_support_check**: `TokenSequenceConstraint.check` (with `max_iters = T`) accepts a value
exactly when it is complete — `T` tokens, or at most `T` tokens one of which is `eos` — and every
token up to and including its first `eos` is in the vocabulary; whatever follows the first `eos`
is ignored. Together with `C07_validate` this is what `log_prob` accepts. -/
theorem C07_support_check (V : Nat) (eos : Option Int) (T : Nat) (value : List Int) :
    supportCheck V eos (some T) value = true ↔
      Complete eos T value ∧ ∀ x ∈ Spec.cutAtEos eos value, 0 ≤ x ∧ x < (V : Int) :=
  supportCheck_iff V eos T value

/-- **C07_support_check_mem** (check ⇔ membership): on a row of natural-number tokens the
constraint accepts exactly the complete rows which, cut at their first `eos` and padded with
`eos` to the step limit, are rows of `Spec.support` (= of `enumerate_support()`,
`C07_enumerate_support`). -/
theorem C07_support_check_mem (V : Nat) (eos : Option Nat) (T : Nat) (r : List Nat) :
    supportCheck V (eos.map Int.ofNat) (some T) (r.map Int.ofNat) = true ↔
      CompleteNat eos T r ∧ padTo T (eos.getD 0) (fillOpt eos r) ∈ Spec.support V eos T :=
  check_iff_mem V eos T r

example : supportCheck 2 (some 0) (some 3) [1, 0, 7] = true := by decide
example : supportCheck 2 (some 0) (some 3) [1, 7, 0] = false := by decide
example : supportCheck 2 (some 0) (some 3) [1, 1] = false := by decide

/-- **C07_validate** (what `log_prob` accepts, repaired `_validate_sample`; restated by the audit
against the declarative conditions — it used to be the definitional `validateSample false =
supportCheck`): a value passes exactly when it is complete and in the vocabulary up to and
including its first `eos` — with a step limit: `T` tokens, or at most `T` tokens one of which is
`eos`; without: it holds `eos`. Its length is not compared with `max_iters` otherwise. -/
theorem C07_validate (V : Nat) (eos : Option Int) (value : List Int) :
    (∀ T, validateSample false V eos (some T) value = true ↔
      Complete eos T value ∧ ∀ x ∈ Spec.cutAtEos eos value, 0 ≤ x ∧ x < (V : Int)) ∧
    (validateSample false V eos none value = true ↔
      (∃ e, eos = some e ∧ e ∈ value) ∧ ∀ x ∈ Spec.cutAtEos eos value, 0 ≤ x ∧ x < (V : Int)) := by
  refine ⟨fun T => ?_, ?_⟩
  · rw [validateSample_repaired]; exact supportCheck_iff V eos T value
  · rw [validateSample_repaired]; exact supportCheck_none_iff V eos value

/-- Both sides of `C07_validate` occur: `[1, 0, 7]` passes (`7` is after the first `eos`),
`[1, 7, 0]` and the incomplete `[1, 1]` do not. -/
example : validateSample false 2 (some 0) (some 3) [1, 0, 7] = true ∧
    validateSample false 2 (some 0) (some 3) [1, 7, 0] = false ∧
    validateSample false 2 (some 0) (some 3) [1, 1] = false ∧
    validateSample false 2 (some 0) none [1, 1, 0] = true := by decide

/-- The tree as pinned rejects a sample that the support check accepts: `[1, eos]` with
`max_iters = 3` (every path hit `eos` early, so the sample has 2 < 3 columns). Replayed on the
implementation by `corpus/C07/validate-intermediate-length.json`. -/
theorem C07_validate_pinned_counterexample :
    validateSample true 2 (some 0) (some 3) [1, 0] = false ∧
      supportCheck 2 (some 0) (some 3) [1, 0] = true := by decide

/-- What the pinned shape test does establish: samples of full length, of length one, or any
sample when `max_iters = 1` (`broadcast_shapes` accepts a 1 on either side) are validated by the
support check alone. (The code under test now carries the repair; this documents the finding.) -/
theorem C07_validate_pinned_partial (V : Nat) (eos : Option Int) (m : Nat) (value : List Int)
    (h : value.length = m ∨ value.length = 1 ∨ m = 1) :
    validateSample true V eos (some m) value = supportCheck V eos (some m) value := by
  rcases h with h | h | h <;> simp [validateSample, eventDimOk, h]

/-- … and outside those cases the pinned shape test rejects everything (so the `_partial`
hypothesis is exactly the domain on which the pinned code is right for accepted values). -/
theorem validateSample_pinned_rejects (V : Nat) (eos : Option Int) (m : Nat) (value : List Int)
    (h1 : value.length ≠ m) (h2 : value.length ≠ 1) (h3 : m ≠ 1) :
    validateSample true V eos (some m) value = false := by
  simp [validateSample, eventDimOk, h1, h2, h3]

example : validateSample true 2 (some 0) (some 3) [1, 1, 0] = true ∧
    validateSample true 2 (some 0) (some 3) [0] = true := by decide

/-! ## `TokenSequenceConstraint.check` without a step limit -/

/-- **C07_support_check_no_limit**: with `max_iters = None` (stored as `inf`) the constraint
accepts a value exactly when `eos` is set and occurs in it and every token up to and including
the first `eos` is in the vocabulary (in particular nothing is accepted when `eos` is unset). -/
theorem C07_support_check_no_limit (V : Nat) (eos : Option Int) (value : List Int) :
    supportCheck V eos none value = true ↔
      (∃ e, eos = some e ∧ e ∈ value) ∧ ∀ x ∈ Spec.cutAtEos eos value, 0 ≤ x ∧ x < (V : Int) :=
  supportCheck_none_iff V eos value

/-- **C07_support_check_no_limit_mem**: on a row of natural-number tokens, accepted without a
step limit ⇔ the row holds `eos` and, with everything after its first `eos` replaced by `eos`,
is a row of the support for the row's own length. -/
theorem C07_support_check_no_limit_mem (V : Nat) (eos : Option Nat) (r : List Nat) :
    supportCheck V (eos.map Int.ofNat) none (r.map Int.ofNat) = true ↔
      (∃ e, eos = some e ∧ e ∈ r) ∧ fillOpt eos r ∈ Spec.support V eos r.length :=
  check_none_iff_mem V eos r

example : supportCheck 2 (some 0) none [1, 1, 0, 7] = true := by decide
example : supportCheck 2 (some 0) none [1, 1, 1] = false := by decide
example : supportCheck 2 none none [1, 1] = false := by decide

/-! ## the cache and `validate_args` plumbing of `log_prob` -/

/-- **C07_log_prob_cache** (the cache is transparent; repaired write order, both caches written
after the scores exist): for every configuration (`cache_samples`, `validate_args`, any
validation / scoring functions, a scorer that may raise) and every sequence of `sample` /
`log_prob` / `clear_cache` calls on a fresh distribution in which each `sample` caches the scores
`log_prob` computes for what it drew, every `log_prob` returns exactly what a distribution that
never caches returns (`refLogProb`, errors included); in particular the
`assert self._log_probs_cache is not None` never fires. For the code as pinned see
`C07_log_prob_cache_pinned_counterexample` / `C07_log_prob_cache_pinned_partial`. -/
theorem C07_log_prob_cache {Value Scores : Type} [DecidableEq Value] (cfg : DistCfg Value Scores)
    (ops : List (DistOp Value Scores)) (hs : SamplesScored cfg ops) :
    runDist false cfg DistCache.empty ops = (logProbArgs ops).map (refLogProb cfg) :=
  runDist_eq_ref false cfg ops DistCache.empty (cacheOk_empty cfg) hs (fun h => by cases h)

/-- Outcome of a `log_prob` call in a comparable form. -/
def outcome {α} (r : Except DistErr α) : Option DistErr × Option α :=
  match r with
  | .ok a => (none, some a)
  | .error e => (some e, none)

/-- A configuration whose scorer raises on the value `1` (validation off, caching on, the score of
`v` is `10 + v`). -/
def exRaisingCfg : DistCfg Nat Nat :=
  ⟨true, some false, fun _ => true, fun _ => false, fun _ => 0, fun v => 10 + v, fun v => v == 1⟩

/-- **The code as pinned is not exception safe** (found by the audit; reproduced on the
implementation by `corpus/C07/log-prob-cache-after-exception.json`): `_samples_cache = value` is
executed before the language model runs. When the model raises on `value`, a second
`log_prob(value)` finds `value` in the cache and answers with the scores of the value scored
before (`.ok 10` instead of raising again), or — on an empty cache — trips
`assert self._log_probs_cache is not None`. A never-caching distribution raises both times, and
so does the repaired write order. -/
theorem C07_log_prob_cache_pinned_counterexample :
    (runDist true exRaisingCfg DistCache.empty [.logProb 0, .logProb 1, .logProb 1]).map outcome
      = [(none, some 10), (some .scoring, none), (none, some 10)] ∧
    ((logProbArgs [DistOp.logProb 0, .logProb 1, .logProb (Scores := Nat) 1]).map
        (refLogProb exRaisingCfg)).map outcome
      = [(none, some 10), (some .scoring, none), (some .scoring, none)] ∧
    (runDist true exRaisingCfg DistCache.empty [.logProb 1, .logProb 1]).map outcome
      = [(some .scoring, none), (some .assertion, none)] ∧
    (runDist false exRaisingCfg DistCache.empty [.logProb 0, .logProb 1, .logProb 1]).map outcome
      = [(none, some 10), (some .scoring, none), (some .scoring, none)] := by decide

/-- **C07_log_prob_cache_pinned_partial**: what the pinned write order does establish — the cache
is transparent when caching is off, or when no `log_prob` of the sequence reaches a raising scorer
(`Scorable`: rejected by validation, empty, or scored without an exception). -/
theorem C07_log_prob_cache_pinned_partial {Value Scores : Type} [DecidableEq Value]
    (cfg : DistCfg Value Scores) (ops : List (DistOp Value Scores)) (hs : SamplesScored cfg ops)
    (hsc : cfg.cacheSamples = true → ∀ v ∈ logProbArgs ops, Scorable cfg v) :
    runDist true cfg DistCache.empty ops = (logProbArgs ops).map (refLogProb cfg) :=
  runDist_eq_ref true cfg ops DistCache.empty (cacheOk_empty cfg) hs (fun _ => hsc)

/-- The hypotheses of `C07_log_prob_cache_pinned_partial` hold on a sequence with a cache hit, a
miss, a `clear_cache`, a sample and a value rejected by validation (the scorer raises on `1`,
which validation rejects here, so the call never reaches it). -/
theorem C07_log_prob_cache_pinned_partial_nonvacuous :
    let cfg : DistCfg Nat Nat :=
      ⟨true, none, fun v => v != 1, fun _ => false, fun _ => 0, fun v => 10 + v, fun v => v == 1⟩
    let ops : List (DistOp Nat Nat) :=
      [.sample false 2 12, .logProb 2, .logProb 1, .logProb 3, .logProb 3, .clearCache, .logProb 2]
    (runDist true cfg DistCache.empty ops).map outcome
      = [(none, some 12), (some .valueError, none), (none, some 13), (none, some 13),
         (none, some 12)] := by
  intro cfg ops
  have hs : SamplesScored cfg ops := by
    refine ⟨fun _ => ⟨rfl, rfl⟩, trivial⟩
  have hsc : cfg.cacheSamples = true → ∀ v ∈ logProbArgs ops, Scorable cfg v := by
    intro _ v hv
    have : v = 2 ∨ v = 1 ∨ v = 3 := by
      simp only [ops, logProbArgs, List.mem_cons, List.not_mem_nil, or_false] at hv
      omega
    rcases this with rfl | rfl | rfl
    · exact Or.inr (Or.inr rfl)
    · exact Or.inl rfl
    · exact Or.inr (Or.inr rfl)
  rw [C07_log_prob_cache_pinned_partial cfg ops hs hsc]
  decide

/-- **C07_log_prob_validation** (what the reference, hence by `C07_log_prob_cache` every
`log_prob`, fails with): the `ValueError` of `_validate_sample`, exactly when validation is on —
`validate_args` `True` or `None` (the class default `__debug__`) — and the value is rejected; or
whatever the scorer raises, exactly when the value passed (or validation is off), is not the empty
sample, and the scorer raises on it. Never the internal `AssertionError`. (A case analysis of
`refLogProb`; its content is `validate_args=None` ⇒ validation on, and the order of the tests.) -/
theorem C07_log_prob_validation {Value Scores : Type} (cfg : DistCfg Value Scores) (v : Value)
    (e : DistErr) :
    refLogProb cfg v = .error e ↔
      (e = .valueError ∧ cfg.validateArgs ≠ some false ∧ cfg.valid v = false) ∨
      (e = .scoring ∧ (cfg.validateArgs = some false ∨ cfg.valid v = true) ∧
        cfg.isEmpty v = false ∧ cfg.raises v = true) :=
  refLogProb_error_iff cfg v e

/-- **C07_sample_flat_scored**: the hypothesis of `C07_log_prob_cache` holds for `sample()`
without a batch shape: the scores it caches (the walk's reported log-probabilities) are the
scores `log_prob` computes for the sampled rows. Same draw hypotheses as `C07_walk`. -/
theorem C07_sample_flat_scored (lm : LM) (V : Nat) (eos : Option Nat) (M T : Nat)
    (draws : List (List Nat)) (heos : ∀ e, eos = some e → e < V)
    (hrows : Rows M V (draws.take T)) (hf : Forced eos M (draws.take T)) :
    sampleFlatLp lm V eos M T draws = scoreRows lm V eos none (sampleFlat lm V eos M T draws) := by
  unfold scoreRows
  apply List.ext_getElem?
  intro n
  obtain ⟨t, ht, hinv, hend⟩ := C07_walk_state lm V eos M T draws heos hrows hf
  by_cases hn : n < M
  · have hw := C07_walk lm V eos M T draws heos hrows hf n hn
    simp only at hw
    obtain ⟨_, _, _, hlp, hd⟩ := hw
    simp only [sampleFlatLp, sampleFlat]
    rw [hlp]
    simp [List.getElem?_zipIdx, List.getElem?_range hn, hd, elemOf]
  · have hlen : (walk lm V eos M T draws).lp.length = M := by rw [hinv.lp]; simp
    have h1 : (sampleFlatLp lm V eos M T draws)[n]? = none := by
      apply List.getElem?_eq_none
      simp only [sampleFlatLp, hlen]; omega
    rw [h1]
    symm
    apply List.getElem?_eq_none
    simp [sampleFlat]; omega

/-- **C07_sample_scored_shape**: what `sample(sample_shape)` caches next to the sample carries the
shape `log_prob` answers with: `log_probs.view(shape[:-1])` with `shape = sample_shape +
batch_shape + (S,)` is a tensor of shape `sample_shape + batch_shape`, which is the sampled
value's shape without its event dimension; and whenever the walks' scores are the scores of the
sampled rows (`C07_sample_flat_scored` without a batch shape), the cached tensor *is*
`log_prob(sample)` of the model distribution, shape included. -/
theorem C07_sample_scored_shape (lm : LM) (V : Nat) (eos : Option Nat) (maxIters : Option Nat)
    (N : Option Nat) (cache : Bool) (va : Option Bool) (raises : List (List Nat) → Bool)
    (sampleShape : List Nat) (rows : List (List Nat)) (walkLp : List (Option Rat)) :
    (sampleScores sampleShape N rows walkLp).shape = sampleShape ++ batchShape N ∧
    (sampleScores sampleShape N rows walkLp).shape = (sampleValue sampleShape N rows).shape.dropLast ∧
    (walkLp = scoreRows lm V eos N rows →
      sampleScores sampleShape N rows walkLp =
        (distCfg lm V eos maxIters N cache va raises).score (sampleValue sampleShape N rows)) := by
  refine ⟨?_, rfl, ?_⟩
  · simp [sampleScores, sampleValue, List.dropLast_concat]
  · intro h
    simp [sampleScores, distCfg, sampleValue, h]

example : (sampleScores [2, 3] (some 2) [[1, 0]] []).shape = [2, 3, 2] ∧
    (sampleValue [2, 3] (some 2) [[1, 0]]).shape = [2, 3, 2, 2] ∧
    (sampleScores [] none [[1, 0]] []).shape = [] := by decide

/-- **C07_log_prob_cache_flat**: the model's distribution without a batch shape, either write
order, a language model that may raise in `log_prob` on the values `raises` names (not on the
sample itself): after a `sample()` (any `cache_samples`, `validate_args`), every later `log_prob`
/ `clear_cache` sequence answers as the cache-free reference: rejected values raise `ValueError`,
every other value gets `scoreRows`, i.e. `distLogProb` of each of its rows — with the pinned write
order provided no call reaches a raising scorer while caching is on. -/
theorem C07_log_prob_cache_flat (pinned : Bool) (lm : LM) (V : Nat) (eos : Option Nat)
    (maxIters : Option Nat) (cache : Bool) (va : Option Bool)
    (raises : List (List Nat) → Bool) (sampleShape : List Nat) (M T : Nat) (draws : List (List Nat))
    (heos : ∀ e, eos = some e → e < V)
    (hrows : Rows M V (draws.take T)) (hf : Forced eos M (draws.take T))
    (hr : raises (sampleFlat lm V eos M T draws) = false)
    (ops : List (DistOp (Shaped (List Nat)) (Shaped (Option Rat))))
    (hs : SamplesScored (distCfg lm V eos maxIters none cache va raises) ops)
    (hsc : pinned = true → cache = true →
      ∀ v ∈ logProbArgs ops, Scorable (distCfg lm V eos maxIters none cache va raises) v) :
    runDist pinned (distCfg lm V eos maxIters none cache va raises) DistCache.empty
        (.sample (M == 0) (sampleValue sampleShape none (sampleFlat lm V eos M T draws))
          (sampleScores sampleShape none (sampleFlat lm V eos M T draws)
            (sampleFlatLp lm V eos M T draws)) :: ops) =
      (logProbArgs ops).map (refLogProb (distCfg lm V eos maxIters none cache va raises)) := by
  have := runDist_eq_ref pinned (distCfg lm V eos maxIters none cache va raises)
    (.sample (M == 0) (sampleValue sampleShape none (sampleFlat lm V eos M T draws))
      (sampleScores sampleShape none (sampleFlat lm V eos M T draws)
        (sampleFlatLp lm V eos M T draws)) :: ops)
    DistCache.empty (cacheOk_empty _)
    ⟨fun _ => ⟨(C07_sample_scored_shape lm V eos maxIters none cache va raises sampleShape _ _).2.2
      (C07_sample_flat_scored lm V eos M T draws heos hrows hf), hr⟩, hs⟩
    (fun h1 h2 v hv => hsc h1 h2 v (by simpa [logProbArgs] using hv))
  simpa [logProbArgs] using this

/-- `C07_sample_flat_scored` on the walk instance (all hypotheses together): the scores
`sample()` caches for `[1, 2, 1]` and `[0, 0, 0]` are the scores `log_prob` computes. -/
theorem C07_sample_flat_scored_nonvacuous :
    sampleFlatLp exLm 3 (some 0) 2 3 exDraws = [some (-10), some (-2)] ∧
    scoreRows exLm 3 (some 0) none (sampleFlat exLm 3 (some 0) 2 3 exDraws)
      = [some (-10), some (-2)] := by
  have h := C07_sample_flat_scored exLm 3 (some 0) 2 3 exDraws exEos exRows exForced
  have e : sampleFlatLp exLm 3 (some 0) 2 3 exDraws = [some (-10), some (-2)] := by decide +kernel
  exact ⟨e, by rw [← h]; exact e⟩

/-- `C07_log_prob_cache_flat` with all hypotheses together, pinned write order, caching on, a
language model that raises on out-of-vocabulary history tokens: after `sample([2])`, a hit, another
value, the same rows as a `(1, 2, 3)` tensor (a miss: other shape, answered with shape `(1, 2)`),
a value validation rejects (too short), `clear_cache`, the sample again. No call reaches the
raising scorer (`hsc`), so every answer is the reference's. -/
theorem C07_log_prob_cache_flat_nonvacuous :
    (runDist true (distCfg exLm 3 (some 0) (some 3) none true none (oovInHistory 3))
      DistCache.empty
      [.sample false (sampleValue [2] none (sampleFlat exLm 3 (some 0) 2 3 exDraws))
        (sampleScores [2] none (sampleFlat exLm 3 (some 0) 2 3 exDraws)
          (sampleFlatLp exLm 3 (some 0) 2 3 exDraws)),
       .logProb ⟨[2, 3], [[1, 2, 1], [0, 0, 0]]⟩, .logProb ⟨[2, 3], [[0, 0, 0], [1, 2, 1]]⟩,
       .logProb ⟨[1, 2, 3], [[1, 2, 1], [0, 0, 0]]⟩, .logProb ⟨[1, 2], [[1, 2]]⟩,
       .clearCache, .logProb ⟨[2, 3], [[1, 2, 1], [0, 0, 0]]⟩]).map outcome
    = [(none, some ⟨[2], [some (-10), some (-2)]⟩), (none, some ⟨[2], [some (-1), some (-13)]⟩),
       (none, some ⟨[1, 2], [some (-10), some (-2)]⟩),
       (some DistErr.valueError, none), (none, some ⟨[2], [some (-10), some (-2)]⟩)] := by
  have hops : ∀ v ∈ logProbArgs (Scores := Shaped (Option Rat))
      [.logProb ⟨[2, 3], [[1, 2, 1], [0, 0, 0]]⟩, .logProb ⟨[2, 3], [[0, 0, 0], [1, 2, 1]]⟩,
       .logProb ⟨[1, 2, 3], [[1, 2, 1], [0, 0, 0]]⟩, .logProb ⟨[1, 2], [[1, 2]]⟩,
       .clearCache, .logProb ⟨[2, 3], [[1, 2, 1], [0, 0, 0]]⟩],
      Scorable (distCfg exLm 3 (some 0) (some 3) none true none (oovInHistory 3)) v := by
    intro v hv
    simp only [logProbArgs, List.mem_cons, List.not_mem_nil, or_false] at hv
    rcases hv with rfl | rfl | rfl | rfl | rfl
    · exact Or.inr (Or.inr (by decide))
    · exact Or.inr (Or.inr (by decide))
    · exact Or.inr (Or.inr (by decide))
    · exact Or.inl (by decide)
    · exact Or.inr (Or.inr (by decide))
  have h := C07_log_prob_cache_flat true exLm 3 (some 0) (some 3) true none (oovInHistory 3) [2] 2 3
    exDraws exEos exRows exForced (by decide +kernel) _ (by simp [SamplesScored]) (fun _ _ => hops)
  have e : ((2 : Nat) == 0) = false := by decide
  rw [e] at h
  rw [h]
  decide +kernel

/-- `C07_log_prob_cache` (repaired write order) with a scorer that raises in the middle of the
sequence: the answers are the reference's, the second call on the raising value raises again. -/
theorem C07_log_prob_cache_nonvacuous :
    (runDist false exRaisingCfg DistCache.empty
      [.sample false 5 15, .logProb 5, .logProb 1, .logProb 1, .logProb 0, .logProb 0]).map outcome
    = [(none, some 15), (some .scoring, none), (some .scoring, none), (none, some 10),
       (none, some 10)] := by
  have h := C07_log_prob_cache exRaisingCfg
    [.sample false 5 15, .logProb 5, .logProb 1, .logProb 1, .logProb 0, .logProb 0]
    (by simp [SamplesScored, exRaisingCfg])
  rw [h]
  decide

/-- The model's state machine on a call sequence of the harness (sample, hit, other value of the
same shape, the sample again, a single path - sample shape `()` - twice: the second answer comes
from the entry `log_prob` wrote and has shape `()`, a rejected value, clear, recompute), pinned
write order. -/
example :
    (runDist true (distCfg (fun _ _ v => -(v : Rat)) 2 (some 0) (some 2) none true none)
      DistCache.empty
      [.sample false ⟨[1, 2], [[1, 0]]⟩ ⟨[1], [some (-1)]⟩, .logProb ⟨[1, 2], [[1, 0]]⟩,
       .logProb ⟨[1, 2], [[1, 1]]⟩, .logProb ⟨[1, 2], [[1, 0]]⟩, .logProb ⟨[2], [[1, 0]]⟩,
       .logProb ⟨[2], [[1, 0]]⟩, .logProb ⟨[1, 1], [[1]]⟩, .clearCache,
       .logProb ⟨[1, 2], [[1, 0]]⟩]).map outcome
    = [(none, some ⟨[1], [some (-1)]⟩), (none, some ⟨[1], [some (-2)]⟩),
       (none, some ⟨[1], [some (-1)]⟩), (none, some ⟨[], [some (-1)]⟩),
       (none, some ⟨[], [some (-1)]⟩),
       (some DistErr.valueError, none), (none, some ⟨[1], [some (-1)]⟩)] := by
  decide +kernel

/-- The write-order defect on the concrete model distribution: vocabulary `{0, 1}`, `eos = 0`,
three steps; `[0, 7, 1]` passes `_validate_sample` (the `7` sits after the first `eos`) but a
language model with an embedding table raises on it (`oovInHistory`). After
`log_prob([[1, 1, 0]])` the second `log_prob([[0, 7, 1]])` answers with the scores of
`[[1, 1, 0]]`. -/
example :
    (runDist true (distCfg (fun _ _ v => -(v : Rat)) 2 (some 0) (some 3) none true none
        (oovInHistory 2)) DistCache.empty
      [.logProb ⟨[1, 3], [[1, 1, 0]]⟩, .logProb ⟨[1, 3], [[0, 7, 1]]⟩,
       .logProb ⟨[1, 3], [[0, 7, 1]]⟩]).map outcome
    = [(none, some ⟨[1], [some (-2)]⟩), (some DistErr.scoring, none),
       (none, some ⟨[1], [some (-2)]⟩)] ∧
    (runDist false (distCfg (fun _ _ v => -(v : Rat)) 2 (some 0) (some 3) none true none
        (oovInHistory 2)) DistCache.empty
      [.logProb ⟨[1, 3], [[1, 1, 0]]⟩, .logProb ⟨[1, 3], [[0, 7, 1]]⟩,
       .logProb ⟨[1, 3], [[0, 7, 1]]⟩]).map outcome
    = [(none, some ⟨[1], [some (-2)]⟩), (some DistErr.scoring, none),
       (some DistErr.scoring, none)] := by
  decide +kernel

/-! ## shapes of the answers; tensors the caller edits in place -/

/-- **C07_log_prob_shape** (what the reference answers, shape included): when `log_prob(value)` of
the model distribution does not raise, the answer has the shape of `value` without its event
dimension, whatever the sample shape (`()`, `(M,)`, `(M1, M2)`, …) and with or without a batch
shape; unless `value` is the empty sample its cells are `distLogProb` of the rows (`scoreRows`),
and the empty sample's answer has no cells. -/
theorem C07_log_prob_shape (lm : LM) (V : Nat) (eos : Option Nat) (maxIters : Option Nat)
    (N : Option Nat) (cache : Bool) (va : Option Bool) (raises : List (List Nat) → Bool)
    (v : Shaped (List Nat)) (s : Shaped (Option Rat))
    (h : refLogProb (distCfg lm V eos maxIters N cache va raises) v = .ok s) :
    s.shape = v.shape.dropLast ∧
      (numSamples N v.shape ≠ 0 → s.cells = scoreRows lm V eos N v.cells) ∧
      (numSamples N v.shape = 0 → s.cells = []) := by
  unfold refLogProb at h
  split at h
  · cases h
  · split at h
    · next he =>
      have he' : numSamples N v.shape = 0 := by simpa [distCfg] using he
      injection h with h
      subst h
      exact ⟨rfl, fun hne => absurd he' hne, fun _ => rfl⟩
    · next he =>
      have he' : numSamples N v.shape ≠ 0 := by simpa [distCfg] using he
      split at h
      · cases h
      · injection h with h
        subst h
        exact ⟨rfl, fun _ => rfl, fun h0 => absurd h0 he'⟩

/-- **C07_log_prob_cache_shape** (`C07_log_prob_cache` read on the model distribution: shape
equality of the cached answers): on a fresh model distribution - any sample shapes, batch shape set
or not, `cache_samples` on or off - every `log_prob` of a `sample` / `log_prob` / `clear_cache`
sequence that does not raise answers with a tensor whose shape is the shape of the value it was
handed without the event dimension and whose cells are the scores of that value's rows: a cached
answer is never handed out in another layout (e.g. the flattened one the scores are computed in). -/
theorem C07_log_prob_cache_shape (lm : LM) (V : Nat) (eos : Option Nat) (maxIters : Option Nat)
    (N : Option Nat) (cache : Bool) (va : Option Bool) (raises : List (List Nat) → Bool)
    (ops : List (DistOp (Shaped (List Nat)) (Shaped (Option Rat))))
    (hs : SamplesScored (distCfg lm V eos maxIters N cache va raises) ops)
    (i : Nat) (v : Shaped (List Nat)) (s : Shaped (Option Rat))
    (hv : (logProbArgs ops)[i]? = some v)
    (ho : (runDist false (distCfg lm V eos maxIters N cache va raises) DistCache.empty ops)[i]?
      = some (.ok s)) :
    s.shape = v.shape.dropLast ∧
      (numSamples N v.shape ≠ 0 → s.cells = scoreRows lm V eos N v.cells) ∧
      (numSamples N v.shape = 0 → s.cells = []) := by
  rw [C07_log_prob_cache _ ops hs, List.getElem?_map, hv] at ho
  simp only [Option.map_some, Option.some.injEq] at ho
  exact C07_log_prob_shape lm V eos maxIters N cache va raises v s ho

/-- `C07_log_prob_cache_shape` applied (all hypotheses together): batch shape `(2,)`, a sampled
`(1, 2)` block of paths whose cached scores are the scores of its rows (`SamplesScored`), a hit on
it, then one draw per batch element (sample shape `()`) scored twice - call 3 is answered from the
entry call 2 wrote, and the theorem gives it the shape `(2,)` and the rows' scores. -/
theorem C07_log_prob_cache_shape_nonvacuous (s : Shaped (Option Rat))
    (h : (runDist false
        (distCfg (fun n _ v => -((n + v : Nat) : Rat)) 2 (some 0) (some 2) (some 2) true none)
        DistCache.empty
        [.sample false ⟨[1, 2, 2], [[1, 0], [1, 1]]⟩ ⟨[1, 2], [some (-1), some (-4)]⟩,
         .logProb ⟨[1, 2, 2], [[1, 0], [1, 1]]⟩, .logProb ⟨[2, 2], [[1, 0], [1, 1]]⟩,
         .logProb ⟨[2, 2], [[1, 0], [1, 1]]⟩])[2]? = some (.ok s)) :
    s.shape = [2] ∧ s.cells = [some (-1), some (-4)] := by
  have hs : SamplesScored
      (distCfg (fun n _ v => -((n + v : Nat) : Rat)) 2 (some 0) (some 2) (some 2) true none)
      [.sample false ⟨[1, 2, 2], [[1, 0], [1, 1]]⟩ ⟨[1, 2], [some (-1), some (-4)]⟩,
       .logProb ⟨[1, 2, 2], [[1, 0], [1, 1]]⟩, .logProb ⟨[2, 2], [[1, 0], [1, 1]]⟩,
       .logProb ⟨[2, 2], [[1, 0], [1, 1]]⟩] := by
    refine ⟨fun _ => ⟨by decide +kernel, rfl⟩, trivial⟩
  have := C07_log_prob_cache_shape _ 2 (some 0) (some 2) (some 2) true none _ _ hs 2
    ⟨[2, 2], [[1, 0], [1, 1]]⟩ s rfl h
  refine ⟨this.1, ?_⟩
  rw [this.2.1 (by decide)]
  decide +kernel

/-- `C07_log_prob_cache_shape` on a sequence with a batch shape `(2,)`: a `(1, 2)`-shaped block of
paths (sample shape `(1,)`), scored twice (the second answer comes from the cache), then the same
rows as a `(1, 1, 2, S)` tensor: every answer has the value's shape without the event dimension. -/
example :
    (runDist false (distCfg (fun n _ v => -((n + v : Nat) : Rat)) 2 (some 0) (some 2) (some 2) true none)
      DistCache.empty
      [.logProb ⟨[1, 2, 2], [[1, 0], [1, 1]]⟩, .logProb ⟨[1, 2, 2], [[1, 0], [1, 1]]⟩,
       .logProb ⟨[1, 1, 2, 2], [[1, 0], [1, 1]]⟩, .logProb ⟨[2, 2], [[1, 0], [1, 1]]⟩,
       .logProb ⟨[2, 2], [[1, 0], [1, 1]]⟩]).map outcome
    = [(none, some ⟨[1, 2], [some (-1), some (-4)]⟩), (none, some ⟨[1, 2], [some (-1), some (-4)]⟩),
       (none, some ⟨[1, 1, 2], [some (-1), some (-4)]⟩), (none, some ⟨[2], [some (-1), some (-4)]⟩),
       (none, some ⟨[2], [some (-1), some (-4)]⟩)] := by
  decide +kernel

/-- **C07_log_prob_cache_calls** (the repaired object: caches clones, returns a clone on a hit):
for every script of the caller - tensors created, edited in place, sampled, scored; returned
scores edited in place; `clear_cache` - every `log_prob` answers what a never-caching distribution
answers for the content its argument has at the time of the call. (The cache is a value store, so
this is `C07_log_prob_cache` on the resolved script; its content is that edits cannot reach it.) -/
theorem C07_log_prob_cache_calls {Value Scores : Type} [DecidableEq Value]
    (cfg : DistCfg Value Scores) (ops : List (CallOp Value Scores))
    (hs : SamplesScored cfg (resolveCalls [] ops)) :
    runCalls cfg ops = refCalls cfg ops :=
  C07_log_prob_cache cfg (resolveCalls [] ops) hs

/-- Caching on, validation off, the score of `v` is `10 + v`, nothing raises. -/
def exAliasCfg : DistCfg Nat Nat :=
  ⟨true, some false, fun _ => true, fun _ => false, fun _ => 0, fun v => 10 + v, fun _ => false⟩
/-- `t0 = 5; log_prob(t0); t0.copy_(6); log_prob(t0)` -/
def exEditValue : List (CallOp Nat Nat) := [.setValue 0 5, .logProb 0, .setValue 0 6, .logProb 0]
/-- `t0 = sample()` (content `5`, the walk reports `15`); `t0.copy_(6); log_prob(t0)` -/
def exEditSample : List (CallOp Nat Nat) := [.sample 0 false 5 15, .setValue 0 6, .logProb 0]
/-- `t0 = 5; out0 = log_prob(t0); out0 += 100; log_prob(t0)` -/
def exEditScores : List (CallOp Nat Nat) :=
  [.setValue 0 5, .logProb 0, .editScores 0 (· + 100), .logProb 0]

/-- **The code as pinned shares its cache with the caller** (reproduced on the implementation by
`corpus/C07/log-prob-cache-aliases-*.json`): `log_prob(value)` stores `value` itself, `sample()`
stores the tensor it returns, and a hit returns the cached score tensor itself. On the scorer
`v ↦ 10 + v`: (1) the caller scores its tensor (content `5`), overwrites it in place with `6` and
scores it again - the hit test compares the tensor with itself and the answer is `15`, the score of
the content before the edit, where a never-caching object answers `16`; (2) the same with the
tensor `sample()` returned; (3) the caller edits the returned scores in place (`+100`) - the next
`log_prob` of the same value answers `115`. The copying object (`runCalls`) answers as the
reference in all three. -/
theorem C07_log_prob_cache_aliased_counterexample :
    (runAliased exAliasCfg AliasState.init exEditValue).map outcome = [(none, some 15), (none, some 15)] ∧
    (refCalls exAliasCfg exEditValue).map outcome = [(none, some 15), (none, some 16)] ∧
    (runCalls exAliasCfg exEditValue).map outcome = [(none, some 15), (none, some 16)] ∧
    (runAliased exAliasCfg AliasState.init exEditSample).map outcome = [(none, some 15)] ∧
    (refCalls exAliasCfg exEditSample).map outcome = [(none, some 16)] ∧
    (runCalls exAliasCfg exEditSample).map outcome = [(none, some 16)] ∧
    (runAliased exAliasCfg AliasState.init exEditScores).map outcome
      = [(none, some 15), (none, some 115)] ∧
    (refCalls exAliasCfg exEditScores).map outcome = [(none, some 15), (none, some 15)] ∧
    (runCalls exAliasCfg exEditScores).map outcome = [(none, some 15), (none, some 15)] := by
  refine ⟨by decide, by decide, by decide, by decide, by decide, by decide, by decide, by decide,
    by decide⟩

/-- `C07_log_prob_cache_calls` applied to the three scripts with in-place edits (the sample of
`exEditSample` caches `15`, the score of what it drew): the copying object answers as the
reference. -/
theorem C07_log_prob_cache_calls_nonvacuous :
    runCalls exAliasCfg exEditValue = refCalls exAliasCfg exEditValue ∧
    runCalls exAliasCfg exEditSample = refCalls exAliasCfg exEditSample ∧
    runCalls exAliasCfg exEditScores = refCalls exAliasCfg exEditScores ∧
    (refCalls exAliasCfg exEditSample).map outcome = [(none, some 16)] :=
  ⟨C07_log_prob_cache_calls _ _ (by simp [exEditValue, resolveCalls, SamplesScored, List.lookup]),
   C07_log_prob_cache_calls _ _
     (by simp [exEditSample, exAliasCfg, resolveCalls, SamplesScored, List.lookup]),
   C07_log_prob_cache_calls _ _ (by simp [exEditScores, resolveCalls, SamplesScored, List.lookup]),
   by decide⟩

/-- **C07_log_prob_cache_aliased_partial**: what the aliasing object does establish - when the
caller never edits a tensor in place (`NoInPlace`: every tensor number is bound once, no edit of
returned scores) it is the value store: every `log_prob` answers as a never-caching distribution. -/
theorem C07_log_prob_cache_aliased_partial {Value Scores : Type} [DecidableEq Value]
    (cfg : DistCfg Value Scores) (ops : List (CallOp Value Scores))
    (hn : NoInPlace [] ops) (hs : SamplesScored cfg (resolveCalls [] ops)) :
    runAliased cfg AliasState.init ops = refCalls cfg ops := by
  rw [runAliased_eq_runDist cfg ops AliasState.init (by intro c hc; cases hc) hn]
  exact C07_log_prob_cache cfg (resolveCalls [] ops) hs

/-- The hypotheses of `C07_log_prob_cache_aliased_partial` on a script with a sample, a hit, two
equal tensors (hit through equality of content), a miss, `clear_cache`. -/
theorem C07_log_prob_cache_aliased_partial_nonvacuous :
    let cfg : DistCfg Nat Nat :=
      ⟨true, none, fun _ => true, fun _ => false, fun _ => 0, fun v => 10 + v, fun _ => false⟩
    let ops : List (CallOp Nat Nat) :=
      [.sample 0 false 5 15, .logProb 0, .setValue 1 7, .setValue 2 7, .logProb 1, .logProb 2,
       .logProb 0, .clearCache, .logProb 2]
    (runAliased cfg AliasState.init ops).map outcome
      = [(none, some 15), (none, some 17), (none, some 17), (none, some 15), (none, some 17)] := by
  intro cfg ops
  have hn : NoInPlace (Value := Nat) (Scores := Nat) [] ops := by
    simp [ops, NoInPlace, List.lookup]
  have hs : SamplesScored cfg (resolveCalls [] ops) := by
    simp [ops, resolveCalls, SamplesScored, List.lookup, cfg]
  rw [C07_log_prob_cache_aliased_partial cfg ops hn hs]
  decide

end PdtVerif.SeqScore
