import PdtVerif.Lemmas.Transcripts
import PdtVerif.Lemmas.TranscriptsText
/-!
# C11 — transcript files read back exactly what was written

Property theorems only (helper lemmas live in `Lemmas/Transcripts.lean`).
-/
namespace PdtVerif.Transcripts

/-- **C11_workers**: reading with a pool (ordered `imap` over chunks of any size `≥ 1`) returns what
the single-process loop returns — same list, same first error. The guard is the pool's own:
`Pool.imap(f, it, 0)` raises `ValueError("Chunksize must be 1+")` before a line is parsed; the model
returns `TrnErr.badChunk` there (see the `example` below), it does NOT behave like chunk size 1. -/
theorem C11_workers (chunkSize : Nat) (hc : 0 < chunkSize) (lines : List (List Char)) :
    readTrnPool chunkSize lines = readTrnSeq lines := by
  unfold readTrnPool readTrnSeq
  rw [if_neg (by omega), ← List.map_flatten, chunks_flatten]

example : readTrnPool 2 ["a (u)\n".toList, "\n".toList, "{ b / c } (v)\n".toList] =
    readTrnSeq ["a (u)\n".toList, "\n".toList, "{ b / c } (v)\n".toList] := C11_workers _ (by decide) _

/-- Non-trivial instance: three chunks (sizes 2, 2, 1), a blank line skipped, and the value. -/
example : readTrnPool 2 ["a (u)\n".toList, "\n".toList, "{ b / c } (v)\n".toList, "d (w)\n".toList, "(x)".toList]
    = .ok [("u".toList, [.tok ['a']], false), ("v".toList, [.alt [[.tok ['b']], [.tok ['c']]]], true),
           ("w".toList, [.tok ['d']], false), ("x".toList, [], false)] := by
  rw [C11_workers _ (by decide)]; rfl

/-- "Errors included": the first malformed line decides, whichever chunk it is in. -/
example : readTrnPool 2 ["a (u)\n".toList, "b (v)\n".toList, "{ } (w)\n".toList, "no id\n".toList]
    = .error .emptyAlt := by
  rw [C11_workers _ (by decide)]; rfl

/-- Outside the guard the pool refuses — also for an empty file, also before a malformed first line. -/
example : readTrnPool 0 [] = .error .badChunk ∧ readTrnPool 0 ["{ } (w)\n".toList] = .error .badChunk ∧
    readTrnSeq ["{ } (w)\n".toList] = .error .emptyAlt := ⟨rfl, rfl, rfl⟩

/-! ## trn -/

/-- **C11_trn**: for every utterance id without parentheses (spaces allowed) and every transcript
tree whose tokens are non-empty and free of white space and `{` — and, inside alternates, of `/`
and `}` (outside they are ordinary words) — with alternates nested to ANY depth, each alternate
having at least one branch and a non-empty last branch: reading the line `write_trn` writes gives
back exactly the id and the tree (start/end times of timed top-level tokens dropped, as
documented), and reports an alternate iff the transcript has one. Structural induction over the
tree (`run_item` / `run_seq` / `run_branches` in `Lemmas/Transcripts.lean`). -/
theorem C11_trn (utt : List Char) (t : List Top)
    (hu : uttOk utt = true) (ht : seqOk false (t.map Top.item) = true) :
    readTrnLine (writeTrnLine utt t)
      = .ok (some (utt, t.map Top.item, (t.map Top.item).any Item.isAlt)) :=
  readTrnLine_writeTrnLine utt (t.map Top.item) hu ht

/-- Non-vacuity: depth 3, an empty middle branch, `/` and `}` as top-level words, an id with
spaces, parentheses inside tokens, a timed token. -/
example : uttOk " utt 1 ".toList = true ∧
    seqOk false ([Top.plain (.tok "abc".toList),
      .plain (.alt [[.tok "x".toList, .alt [[.tok "p".toList], [.tok "q".toList, .alt [[.tok "r".toList], [], [.tok "12".toList]]]]], [], [.tok "z".toList]]),
      .plain (.tok "}".toList), .plain (.tok "/".toList), .plain (.tok "a(b".toList),
      .timed "k".toList (1/2) 1].map Top.item) = true := by decide

/-- A file is a sequence of such lines: the whole-file reader returns them in order (lines are
independent; blank lines are skipped). -/
theorem C11_trn_file (utts : List (List Char × List Top))
    (h : ∀ ut ∈ utts, uttOk ut.1 = true ∧ seqOk false (ut.2.map Top.item) = true) :
    readTrnSeq (utts.map (fun ut => writeTrnLine ut.1 ut.2))
      = .ok (utts.map (fun ut => (ut.1, ut.2.map Top.item, (ut.2.map Top.item).any Item.isAlt))) := by
  unfold readTrnSeq
  have : (utts.map (fun ut => writeTrnLine ut.1 ut.2)).map readTrnLine
      = utts.map (fun ut => .ok (some (ut.1, ut.2.map Top.item, (ut.2.map Top.item).any Item.isAlt))) := by
    rw [List.map_map]
    apply List.map_congr_left
    intro ut hut
    exact C11_trn ut.1 ut.2 (h ut hut).1 (h ut hut).2
  rw [this]
  have hc : ∀ (l : List (List Char × List Item × Bool)),
      collect (l.map (fun r => (Except.ok (some r) : Except TrnErr _))) = .ok (l.map some) := by
    intro l
    induction l with
    | nil => rfl
    | cons r rs ih => simp [collect, ih]
  have := hc (utts.map (fun ut => (ut.1, ut.2.map Top.item, (ut.2.map Top.item).any Item.isAlt)))
  rw [List.map_map] at this
  simp only [Function.comp_def] at this
  rw [this]
  simp [List.filterMap_map]

/-- Non-vacuity of `C11_trn_file`: two lines — an id with spaces, an alternate with an empty middle branch nested
in a branch, a timed token (its times dropped) — come back in order, alternate flags `true` / `false`. -/
def exTrnUtts : List (List Char × List Top) :=
  [(" utt 1 ".toList, [.plain (.tok "a".toList),
      .plain (.alt [[.tok "x".toList, .alt [[.tok "p".toList], [], [.tok "q".toList]]], [.tok "y".toList]])]),
   ("v".toList, [.timed "k".toList (1/2) 1, .plain (.tok "}".toList)])]

example : readTrnSeq (exTrnUtts.map (fun ut => writeTrnLine ut.1 ut.2))
    = .ok (exTrnUtts.map (fun ut => (ut.1, ut.2.map Top.item, (ut.2.map Top.item).any Item.isAlt))) :=
  C11_trn_file exTrnUtts (by
    intro ut h
    simp only [exTrnUtts, List.mem_cons, List.not_mem_nil, or_false] at h
    rcases h with rfl | rfl <;> decide)

example : (exTrnUtts.map (fun ut => (ut.2.map Top.item).any Item.isAlt)) = [true, false] := by decide

/-- The recursive writer is literally `"{ " + "/ ".join(elem of each branch) + "} "`. -/
theorem C11_trn_writer_join (bs : List (List Item)) :
    handle (.alt bs) = ['{', ' '] ++ ['/', ' '].intercalate (bs.map handleSeq) ++ ['}', ' '] := by
  have h : ∀ bs : List (List Item), handleBranches bs = ['/', ' '].intercalate (bs.map handleSeq) := by
    intro bs
    induction bs with
    | nil => simp [handleBranches, List.intercalate]
    | cons b bs ih =>
      cases bs with
      | nil => simp [handleBranches, List.intercalate]
      | cons b' bs =>
        rw [handleBranches, ih]
        simp [List.intercalate]
  rw [handle, h]

/-! ## frames -/

def TElem.tok : TElem → Tok
  | .plain t => t
  | .timed t _ _ => t

/-- Elements the conversion is specified for: non-negative start, `start ≤ end`. -/
def TElem.Ok : TElem → Prop
  | .plain _ => True
  | .timed _ s e => 0 ≤ s ∧ s ≤ e

/-- "Came back the same": same token, same shape, the start recovered within one frame shift
from below, the end strictly within one frame shift. -/
def Close (shift : Rat) : TElem → TElem → Prop
  | .plain a, .plain b => a = b
  | .timed a s e, .timed b s' e' =>
      a = b ∧ s - shift < s' ∧ s' ≤ s ∧ e - shift < e' ∧ e' < e + shift
  | _, _ => False

/-- One element: the row is produced and converts back to something `Close`. -/
theorem frames_elem (token2id : List (Tok × Int)) (id2token : List (Int × Tok)) (unk : Option Tok)
    (f : Rat) (hf : 0 < f) (x : TElem) (hx : x.Ok)
    (hinv : ∃ id, token2id.lookup x.tok = some id ∧ id2token.lookup id = some x.tok) :
    ∃ row, rowOf (some token2id) (some f) unk x = .ok row ∧
      Close (f / 1000) x (backOf (some id2token) (some f) row) := by
  obtain ⟨id, h1, h2⟩ := hinv
  cases x with
  | plain tk =>
    simp only [TElem.tok] at h1 h2
    refine ⟨(id, -1, -1), ?_, ?_⟩
    · simp [rowOf, lookupId, h1, Except.map]
    · simp [backOf, h2, Close]
  | timed tk s e =>
    simp only [TElem.tok] at h1 h2
    obtain ⟨hs, hse⟩ := hx
    obtain ⟨a0, b0, c1, c2, c3, c4⟩ := toFrames_bounds f s e hf hs hse
    refine ⟨(id, (toFrames (some f) s e).1, (toFrames (some f) s e).2), ?_, ?_⟩
    · simp [rowOf, lookupId, h1, Except.map]
    · have ha : ((toFrames (some f) s e).1 == -1) = false := by
        rw [beq_eq_false_iff_ne]; omega
      have hb : ((toFrames (some f) s e).2 == -1) = false := by
        rw [beq_eq_false_iff_ne]; omega
      simp only [backOf, h2, Option.getD_some, ha, hb, Bool.or_self, Bool.false_eq_true, if_false, Close]
      exact ⟨trivial, c1, c2, c3, c4⟩

/-- **C11_frames**: for every frame shift `f > 0` ms, every `token2id` with an `id2token` that
inverts it on the tokens present (any bijective vocabulary), every `unk` setting and every
transcript of plain tokens and segments with `0 ≤ start ≤ end`: `transcript_to_token` succeeds and
`token_to_transcript` returns the same tokens in the same shape, every recovered start in
`(start - shift, start]` and every recovered end in `(end - shift, end + shift)`,
`shift = f / 1000` s — also for zero-length and same-frame segments. -/
theorem C11_frames (token2id : List (Tok × Int)) (id2token : List (Int × Tok)) (unk : Option Tok)
    (f : Rat) (hf : 0 < f) (t : List TElem)
    (hinv : ∀ x ∈ t, ∃ id, token2id.lookup x.tok = some id ∧ id2token.lookup id = some x.tok)
    (hok : ∀ x ∈ t, x.Ok) :
    ∃ rows, transcriptToTokenPy (some token2id) (some f) unk t = .ok rows ∧
      List.Forall₂ (Close (f / 1000)) t (tokenToTranscriptPy (some id2token) (some f) rows) := by
  unfold transcriptToTokenPy tokenToTranscriptPy transcriptToToken tokenToTranscript
  have htr : truthy (some f) = some f := by simp [truthy, hf.ne']
  rw [htr]
  induction t with
  | nil => exact ⟨[], by simp [pure, Except.pure], by simp⟩
  | cons x xs ih =>
    obtain ⟨rows, hr, hc⟩ := ih (fun y hy => hinv y (List.mem_cons_of_mem _ hy))
      (fun y hy => hok y (List.mem_cons_of_mem _ hy))
    obtain ⟨row, h1, h2⟩ := frames_elem token2id id2token (resolveUnk (some token2id) unk) f hf x
      (hok x List.mem_cons_self) (hinv x List.mem_cons_self)
    exact ⟨row :: rows, mapM_except_cons _ _ _ _ _ h1 hr, List.Forall₂.cons h2 hc⟩

/-- The hypotheses are satisfiable: a segment shorter than half a frame (end forced to
`start + 1`), a zero-length one, and a plain token; vocabulary `a ↦ 0, b ↦ 5`, 10 ms shift. -/
example : ∃ rows, transcriptToTokenPy (some [(.s "a", 0), (.s "b", 5)]) (some 10) none
      [.timed (.s "a") (1/64) (1/32), .timed (.s "b") (1/2) (1/2), .plain (.s "b")] = .ok rows ∧
    List.Forall₂ (Close (10 / 1000))
      [.timed (.s "a") (1/64) (1/32), .timed (.s "b") (1/2) (1/2), .plain (.s "b")]
      (tokenToTranscriptPy (some [(0, .s "a"), (5, .s "b")]) (some 10) rows) := by
  apply C11_frames _ _ none 10 (by norm_num)
  · intro x hx
    simp only [List.mem_cons, List.not_mem_nil, or_false] at hx
    rcases hx with rfl | rfl | rfl
    · exact ⟨0, by decide, by decide⟩
    · exact ⟨5, by decide, by decide⟩
    · exact ⟨5, by decide, by decide⟩
  · intro x hx
    simp only [List.mem_cons, List.not_mem_nil, or_false] at hx
    rcases hx with rfl | rfl | rfl <;> simp [TElem.Ok]; norm_num

/-- Without a frame shift the times are frame indices already: integers (other than `-1`, the
"unknown" marker) round-trip exactly. -/
theorem C11_frames_noshift (token2id : List (Tok × Int)) (id2token : List (Int × Tok))
    (unk : Option Tok) (tk : Tok) (id a b : Int)
    (h1 : token2id.lookup tk = some id) (h2 : id2token.lookup id = some tk)
    (ha : 0 ≤ a) (hb : 0 ≤ b) :
    (rowOf (some token2id) none unk (.timed tk a b)).map (backOf (some id2token) none)
      = .ok (.timed tk a b) := by
  have ta : truncInt (a : Rat) = a := by
    have : (0 : Rat) ≤ (a : Rat) := by exact_mod_cast ha
    simp [truncInt, this, Rat.floor_intCast]
  have tb : truncInt (b : Rat) = b := by
    have : (0 : Rat) ≤ (b : Rat) := by exact_mod_cast hb
    simp [truncInt, this, Rat.floor_intCast]
  have na : (a == -1) = false := by rw [beq_eq_false_iff_ne]; omega
  have nb : (b == -1) = false := by rw [beq_eq_false_iff_ne]; omega
  simp [rowOf, lookupId, h1, Except.map, backOf, h2, toFrames, ta, tb, na, nb]

/-- Non-vacuity: frame indices 0 and 7 through the vocabulary `a ↦ 3`. -/
example : (rowOf (some [(.s "a", 3), (.s "b", 4)]) none none (.timed (.s "a") 0 7)).map
      (backOf (some [(4, .s "b"), (3, .s "a")]) none) = .ok (.timed (.s "a") 0 7) :=
  C11_frames_noshift _ _ none (.s "a") 3 0 7 (by decide) (by decide) (by decide) (by decide)

/-- **C11_frames_unk**: the ids `transcript_to_token` writes are the documented ones (`specId`) for EVERY
`token2id` / `unk` setting — no vocabulary ("`unk` has no effect"), an EMPTY vocabulary (every token unknown),
`unk` a key of `token2id`, `unk` already an id (`0` included), no `unk` (the token itself) — and the times are
those of `toFrames` under the shift that counts (`truthy`: a frame shift of `0` is "none", as `if frame_shift_ms:`); resolving `unk` once before the loop (as the code does) is the same as the per-token rule.
A string that ends up as an id is refused (`badId`). -/
theorem C11_frames_unk (token2id : Option (List (Tok × Int))) (unk : Option Tok) (f : Option Rat) (t : List TElem) :
    transcriptToTokenPy token2id f unk t =
      t.mapM (fun x => match x with
        | .plain tk => (idOfTok (specId token2id unk tk)).map (fun id => (id, -1, -1))
        | .timed tk s e => (idOfTok (specId token2id unk tk)).map
            (fun id => (id, (toFrames (truthy f) s e).1, (toFrames (truthy f) s e).2))) := by
  have key : ∀ tk, lookupId token2id (resolveUnk token2id unk) tk = idOfTok (specId token2id unk tk) := by
    intro tk
    unfold lookupId resolveUnk specId
    cases token2id with
    | none => cases tk <;> rfl
    | some m =>
      cases unk with
      | none =>
        simp only
        cases h1 : List.lookup tk m <;> cases tk <;> rfl
      | some u =>
        simp only
        cases h1 : List.lookup tk m <;> cases h2 : List.lookup u m <;> cases u <;> rfl
  unfold transcriptToTokenPy transcriptToToken
  congr 1
  funext x
  cases x <;> simp [rowOf, key]

/-- Falsy but legal settings: an empty vocabulary with `unk = 0` maps every token to id 0; without a vocabulary
`unk` has no effect; `""` is a key like any other. -/
example : transcriptToTokenPy (some []) none (some (.i 0)) [.plain (.s "a"), .plain (.i 7)]
    = .ok [(0, -1, -1), (0, -1, -1)] := by decide +kernel
example : transcriptToTokenPy none none (some (.i 0)) [.plain (.i 7)] = .ok [(7, -1, -1)] := by decide +kernel
/-- `frame_shift_ms=0` is falsy: the times are truncated as frame indices, exactly as with `None` — no division. -/
example : transcriptToTokenPy none (some 0) none [.timed (.i 1) (5/2) 7] = .ok [(1, 2, 7)] ∧
    transcriptToTokenPy none none none [.timed (.i 1) (5/2) 7] = .ok [(1, 2, 7)] ∧
    tokenToTranscriptPy none (some 0) [(1, 2, 7)] = [.timed (.i 1) 2 7] := by decide +kernel
example : transcriptToTokenPy (some [(.s "", 0), (.s "u", 5)]) none (some (.s "u")) [.plain (.s ""), .plain (.s "zz")]
    = .ok [(0, -1, -1), (5, -1, -1)] := by decide +kernel

/-! ## ctm -/

/-- **C11_ctm**: for every collection of utterances with distinct ids, every mapping
`utt ↦ (wfn, chan)` (channel string or dict) that `wc2utt` inverts on those ids (so: any injective
mapping), and all times with `0 ≤ start ≤ end` (rationals): `write_ctm` succeeds and `read_ctm` of
what it wrote is exactly `specCtm`: the utterances that have tokens, ordered by `(wfn, chan)`,
each with its tokens ordered by `(start, end, token)`, every token and time unchanged. -/
theorem C11_ctm (m : Utt2Wc) (w2u : Option (String × String → Option String)) (ts : Transcripts)
    (wc : String → String × String)
    (hwc : ∀ ut ∈ ts, m.get ut.1 = some (wc ut.1))
    (hinv : ∀ ut ∈ ts, (match w2u with | none => some (wc ut.1).1 | some g => g (wc ut.1)) = some ut.1)
    (hnd : (ts.map (·.1)).Nodup)
    (hok : ∀ ut ∈ ts, ∀ x ∈ ut.2, timedOk x = true) :
    ∃ segs, writeCtm m ts = .ok segs ∧ readCtm w2u segs = .ok (specCtm wc ts) := by
  -- the writer
  let segsU : String × List Timed → List Seg := fun ut => ut.2.map (mkSeg (wc ut.1))
  have hA : ts.mapM (fun (ut : String × List Timed) => segsOfUtt m ut.1 ut.2) = .ok (ts.map segsU) :=
    mapM_except_ok _ _ _ (fun ut hut => segsOfUtt_ok m ut.1 ut.2 _ (hwc ut hut) (hok ut hut))
  have hW : writeCtm m ts = .ok ((ts.map segsU).flatten.mergeSort Seg.le) := by
    unfold writeCtm
    rw [show (fun x : String × List Timed => match x with | (u, t) => segsOfUtt m u t)
          = (fun ut => segsOfUtt m ut.1 ut.2) from rfl, hA]
  refine ⟨_, hW, ?_⟩
  -- the blocks of the spec
  set F := ts.filter (fun ut => !ut.2.isEmpty) with hF
  set sortedTs := F.mergeSort (wcLe wc) with hS
  have hB : specCtm wc ts = sortedTs.map (fun ut => (ut.1, ut.2.mergeSort timedLe)) := rfl
  set B := sortedTs.map (fun ut => (ut.1, ut.2.mergeSort timedLe)) with hBdef
  have memTs : ∀ ut ∈ sortedTs, ut ∈ ts ∧ ut.2 ≠ [] := by
    intro ut hut
    rw [hS, List.mem_mergeSort, hF, List.mem_filter] at hut
    exact ⟨hut.1, by intro h; simp [h] at hut⟩
  -- injectivity of wc on the ids present
  have hinj : ∀ a ∈ ts, ∀ b ∈ ts, wc a.1 = wc b.1 → a.1 = b.1 := by
    intro a ha b hb h
    have h1 := hinv a ha
    have h2 := hinv b hb
    rw [h] at h1
    exact Option.some.inj (h1.symm.trans h2)
  have keysNd : (sortedTs.map (·.1)).Nodup := by
    have h1 : (F.map (·.1)).Nodup := List.Nodup.sublist (List.filter_sublist.map _) hnd
    exact ((List.mergeSort_perm F (wcLe wc)).map _).nodup_iff.mpr h1
  -- S = R
  let R := B.flatMap (fun b => b.2.map (mkSeg (wc b.1)))
  have hSR : (ts.map segsU).flatten.mergeSort Seg.le = R := by
    apply List.Perm.eq_of_pairwise (le := fun a b => Seg.le a b = true)
    · intro a b _ _ h1 h2
      exact SegR.antisymm ((Seg.le_iff a b).mp h1) ((Seg.le_iff b a).mp h2)
    · exact List.pairwise_mergeSort Seg.le_trans Seg.le_total _
    · rw [List.pairwise_flatMap]
      constructor
      · intro b hb
        rw [hBdef, List.mem_map] at hb
        obtain ⟨ut, _, rfl⟩ := hb
        rw [List.pairwise_map]
        exact (List.pairwise_mergeSort timedLe_trans timedLe_total ut.2).imp (mkSeg_le _ _ _)
      · rw [hBdef, List.pairwise_map]
        have p1 : sortedTs.Pairwise (fun a b => wcLe wc a b = true) :=
          List.pairwise_mergeSort (wcLe_trans wc) (wcLe_total wc) F
        have p2 : sortedTs.Pairwise (fun a b => a.1 ≠ b.1) := by
          have := keysNd
          rwa [List.Nodup, List.pairwise_map] at this
        refine (List.Pairwise.and_mem.mp (p1.and p2)).imp ?_
        intro a b ⟨ha, hb, hle, hne⟩ x hx y hy
        simp only [List.mem_map] at hx hy
        obtain ⟨x', _, rfl⟩ := hx
        obtain ⟨y', _, rfl⟩ := hy
        apply mkSeg_le_of_wc_lt
        have hwne : wc a.1 ≠ wc b.1 := fun h => hne (hinj a (memTs a ha).1 b (memTs b hb).1 h)
        rcases (wcLe_iff wc a b).mp hle with h | ⟨h1, h2⟩
        · exact .inl h
        · refine .inr ⟨h1, lt_of_le_of_ne h2 (fun h => hwne (Prod.ext h1 h))⟩
    · -- both are rearrangements of all the segments
      have q1 : ((ts.map segsU).flatten.mergeSort Seg.le).Perm (ts.flatMap segsU) := by
        rw [List.flatMap_def]; exact List.mergeSort_perm _ _
      have q2 : R = sortedTs.flatMap (fun ut => (ut.2.mergeSort timedLe).map (mkSeg (wc ut.1))) := by
        simp only [R, hBdef, List.flatMap_map]
      have q3 : (sortedTs.flatMap (fun ut => (ut.2.mergeSort timedLe).map (mkSeg (wc ut.1)))).Perm
          (sortedTs.flatMap segsU) :=
        List.Perm.flatMap_left _ (fun ut _ => (List.mergeSort_perm ut.2 timedLe).map _)
      have q4 : (sortedTs.flatMap segsU).Perm (F.flatMap segsU) :=
        List.Perm.flatMap_right _ (List.mergeSort_perm F (wcLe wc))
      have q5 : F.flatMap segsU = ts.flatMap segsU :=
        flatMap_filter_nonempty ts (fun ut x => mkSeg (wc ut.1) x)
      rw [q2]
      exact q1.trans ((q3.trans (q4.trans (q5 ▸ List.Perm.refl _))).symm)
  rw [hSR, hB]
  -- the reader, line by line
  let h : Seg → String × Timed := fun seg => match readSeg w2u seg with
    | .ok r => r
    | .error _ => ("", ("", 0, 0))
  have hBmem : ∀ b ∈ B, (∃ ut ∈ ts, ut.1 = b.1 ∧ ∀ x ∈ b.2, x ∈ ut.2) ∧ b.2 ≠ [] ∧
      b.2.Pairwise (fun a b => timedLe a b = true) := by
    intro b hb
    rw [hBdef, List.mem_map] at hb
    obtain ⟨ut, hut, rfl⟩ := hb
    refine ⟨⟨ut, (memTs ut hut).1, rfl, fun x hx => List.mem_mergeSort.mp hx⟩, ?_,
      List.pairwise_mergeSort timedLe_trans timedLe_total ut.2⟩
    intro hnil
    have := congrArg List.length hnil
    rw [List.length_mergeSort] at this
    exact (memTs ut hut).2 (List.length_eq_zero_iff.mp this)
  have hread : ∀ b ∈ B, ∀ x ∈ b.2, readSeg w2u (mkSeg (wc b.1) x) = .ok (b.1, x) := by
    intro b hb x hx
    obtain ⟨⟨ut, hut, e, hsub⟩, _, _⟩ := hBmem b hb
    rw [← e]
    exact readSeg_mkSeg w2u (wc ut.1) ut.1 x (hinv ut hut) (hok ut hut x (hsub x hx))
  have hM : R.mapM (readSeg w2u) = .ok (B.flatMap (fun b => b.2.map (fun v => (b.1, v)))) := by
    have e1 : R.mapM (readSeg w2u) = .ok (R.map h) := by
      apply mapM_except_ok
      intro seg hseg
      simp only [R, List.mem_flatMap, List.mem_map] at hseg
      obtain ⟨b, hb, x, hx, rfl⟩ := hseg
      simp only [h, hread b hb x hx]
    rw [e1]
    congr 1
    simp only [R, List.map_flatMap, List.map_map]
    apply List.flatMap_congr
    intro b hb
    apply List.map_congr_left
    intro x hx
    simp only [Function.comp, h, hread b hb x hx]
  unfold readCtm
  rw [hM]
  have hG : group (B.flatMap (fun b => b.2.map (fun v => (b.1, v)))) = B := by
    apply group_blocks
    · rw [hBdef, List.map_map]; exact keysNd
    · exact fun b hb => (hBmem b hb).2.1
  simp only [hG]
  congr 1
  conv => rhs; rw [← List.map_id B]
  apply List.map_congr_left
  intro b hb
  obtain ⟨u, t⟩ := b
  simp only [id]
  congr 1
  exact List.mergeSort_of_pairwise (((hBmem (u, t) hb).2.2).imp (startLe_of_timedLe _ _))



/-- Hypotheses are satisfiable: two utterances whose `(wfn, chan)` order reverses their order,
start times 9 and 10 (which order differently as strings), an utterance without tokens. -/
example : ∃ segs, writeCtm (.dict [("u1", ("w9", "B")), ("u2", ("w10", "A")), ("u3", ("w0", "A"))])
      [("u1", [("b", 10, 11), ("a", 9, 10)]), ("u2", [("z", 100, 100)]), ("u3", [])] = .ok segs ∧
    readCtm (some (fun k => [(("w9", "B"), "u1"), (("w10", "A"), "u2"), (("w0", "A"), "u3")].lookup k)) segs
      = .ok (specCtm (fun u => ([("u1", ("w9", "B")), ("u2", ("w10", "A")), ("u3", ("w0", "A"))].lookup u).getD ("", ""))
          [("u1", [("b", 10, 11), ("a", 9, 10)]), ("u2", [("z", 100, 100)]), ("u3", [])]) := by
  apply C11_ctm
  · decide
  · decide
  · decide
  · intro ut hut x hx
    simp only [List.mem_cons, List.not_mem_nil, or_false] at hut
    rcases hut with rfl | rfl | rfl <;> simp only [List.mem_cons, List.not_mem_nil, or_false] at hx
    · rcases hx with rfl | rfl <;> simp [timedOk] <;> norm_num
    · subst hx; simp [timedOk]

/-- What `specCtm` is, relationally: every returned utterance is one of the given ones with its
tokens rearranged into the mandated order. -/
theorem C11_ctm_spec_mem (wc : String → String × String) (ts : Transcripts) :
    ∀ ut' ∈ specCtm wc ts, ∃ ut ∈ ts, ut'.1 = ut.1 ∧ ut'.2.Perm ut.2 ∧ ut.2 ≠ [] ∧
      ut'.2.Pairwise (fun a b => timedLe a b = true) := by
  intro ut' h
  simp only [specCtm, List.mem_map, List.mem_mergeSort, List.mem_filter] at h
  obtain ⟨ut, ⟨hut, hne⟩, rfl⟩ := h
  refine ⟨ut, hut, rfl, List.mergeSort_perm _ _, ?_, List.pairwise_mergeSort timedLe_trans timedLe_total _⟩
  intro h0; simp [h0] at hne

/-- … and the utterances come in `(wfn, chan)` order, none lost, none invented. -/
theorem C11_ctm_spec_order (wc : String → String × String) (ts : Transcripts) :
    ((specCtm wc ts).map (·.1)).Perm ((ts.filter (fun ut => !ut.2.isEmpty)).map (·.1)) ∧
    ((ts.filter (fun ut => !ut.2.isEmpty)).mergeSort (wcLe wc)).Pairwise (fun a b => wcLe wc a b = true) := by
  refine ⟨?_, List.pairwise_mergeSort (wcLe_trans wc) (wcLe_total wc) _⟩
  simp only [specCtm, List.map_map]
  exact (List.mergeSort_perm _ _).map _

/-! ## TextGrid -/

/-- What an entry looks like after a round trip at precision `p`. -/
def readBack (p : Nat) (point : Bool) (x : Timed) : Timed :=
  (x.1, (fmt p x.2.1).val, if point then (fmt p x.2.1).val else (fmt p x.2.2).val)

/-- **C11_textgrid_fill**: reading with a fill token is reading without one and then putting a
fill interval exactly where `prev_end < next_start` (starting from the tier's xmin) and a last
one up to the tier's xmax (`specFill`) — for every file, every tier selector, both sort variants;
the index-juggling `transcript.insert(i, …)` loop is `specFill`. -/
theorem C11_textgrid_fill (srt : TgSort) (f : TgFile) (tier : TierId) (ft : String) :
    readTextGrid srt f tier (some ft) =
      (readTextGrid srt f tier none).map (fun r => (specFill ft r.2.2 r.2.1 r.1, r.2.1, r.2.2)) := by
  unfold readTextGrid
  cases tierFound f tier with
  | error e => rfl
  | ok u => simp [Except.map, fillAll_some, fillAll_none]

/-- **C11_textgrid_roundtrip**: for every non-empty transcript in tier order (non-decreasing
start), every precision, tier name, admissible `start_time`/`end_time` and every `point_tier`
setting, `write_textgrid` succeeds, the tier type written is the one asked for / inferred, and
`read_textgrid` (by index 0, -1 or by the tier's name) returns the entries in the order written,
tokens unchanged, each time replaced by its `p`-digit rounding; the tier bounds are the rounded
minimum start / maximum end. -/
theorem C11_textgrid_roundtrip (t : List Timed) (o : TgWriteOpts) (tier : TierId)
    (hne : t ≠ [])
    (hsorted : t.Pairwise (fun a b => a.2.1 ≤ b.2.1))
    (hst : ∀ s, o.startTime = some s → s ≤ minList (t.map (·.2.1)))
    (hen : ∀ e, o.endTime = some e → maxList (t.map (·.2.2)) ≤ e)
    (htier : tier = .idx 0 ∨ tier = .idx (-1) ∨ tier = .name o.tierName) :
    ∃ f, writeTextGrid t o = .ok f ∧
      ((∃ l, f.body = .points l) ↔ isPointTier t o = true) ∧
      readTextGrid .byStart f tier none = .ok (t.map (readBack o.precision (isPointTier t o)),
        (fmt o.precision (minList (t.map (·.2.1)))).val,
        (fmt o.precision (maxList (t.map (·.2.2)))).val) := by
  have hemp : t.isEmpty = false := by cases t <;> simp_all
  have e1 : checkStart o.startTime (minList (t.map (·.2.1)))
      = .ok (o.startTime.getD (minList (t.map (·.2.1)))) := by
    unfold checkStart
    cases h : o.startTime with
    | none => rfl
    | some s => simp [not_lt.mpr (hst s h)]
  have e2 : checkEnd o.endTime (maxList (t.map (·.2.2)))
      = .ok (o.endTime.getD (maxList (t.map (·.2.2)))) := by
    unfold checkEnd
    cases h : o.endTime with
    | none => rfl
    | some e => simp [not_lt.mpr (hen e h)]
  simp only [writeTextGrid, hemp, Bool.false_eq_true, if_false, e1, e2]
  refine ⟨_, rfl, ?_, ?_⟩
  · simp only [tgBody]
    split_ifs with c <;> simp [c]
  · have hfound : tierFound ⟨fmt o.precision (o.startTime.getD (minList (t.map (·.2.1)))),
        fmt o.precision (o.endTime.getD (maxList (t.map (·.2.2)))),
        o.tierName, fmt o.precision (minList (t.map (·.2.1))), fmt o.precision (maxList (t.map (·.2.2))),
        tgBody t o⟩ tier = .ok () := by
      rcases htier with rfl | rfl | rfl <;> simp [tierFound]
    simp only [readTextGrid, hfound, fillAll_none]
    congr 2
    rw [sortedTimes_of_sorted]
    · simp only [tgBody]
      split_ifs with c <;> simp [TgBody.entries, readBack, c, Function.comp_def]
    · simp only [tgBody]
      split_ifs with c
      · simp only [TgBody.entries, List.pairwise_map]
        exact hsorted.imp (fun h => by simpa [startLe] using fmt_mono o.precision h)
      · simp only [TgBody.entries, List.pairwise_map]
        exact hsorted.imp (fun h => by simpa [startLe] using fmt_mono o.precision h)

/-- **C11_textgrid**: the times read back are within half a unit of the last printed digit of
the times written — starts always; ends whenever the tier can hold them (interval tier, inferred
point tier, or a requested point tier whose segments have `start = end`). -/
theorem C11_textgrid (t : List Timed) (o : TgWriteOpts)
    (hpt : o.pointTier = some true → ∀ x ∈ t, x.2.1 = x.2.2) :
    ∀ x ∈ t,
      (readBack o.precision (isPointTier t o) x).1 = x.1 ∧
      x.2.1 - (1/2) / ((10 ^ o.precision : Nat) : Rat) ≤ (readBack o.precision (isPointTier t o) x).2.1 ∧
      (readBack o.precision (isPointTier t o) x).2.1 ≤ x.2.1 + (1/2) / ((10 ^ o.precision : Nat) : Rat) ∧
      x.2.2 - (1/2) / ((10 ^ o.precision : Nat) : Rat) ≤ (readBack o.precision (isPointTier t o) x).2.2 ∧
      (readBack o.precision (isPointTier t o) x).2.2 ≤ x.2.2 + (1/2) / ((10 ^ o.precision : Nat) : Rat) := by
  intro x hx
  obtain ⟨s1, s2⟩ := fmt_bounds o.precision x.2.1
  obtain ⟨e1, e2⟩ := fmt_bounds o.precision x.2.2
  refine ⟨rfl, s1, s2, ?_⟩
  simp only [readBack]
  by_cases c : isPointTier t o = true
  · simp only [c, if_true]
    have hval : (fmt o.precision x.2.1).val = (fmt o.precision x.2.2).val := by
      unfold isPointTier at c
      cases h : o.pointTier with
      | none =>
        simp only [h, List.all_eq_true, beq_iff_eq] at c
        rw [c x hx]
      | some b =>
        simp only [h] at c
        subst c
        rw [hpt h x hx]
    rw [hval]; exact ⟨e1, e2⟩
  · simp only [c, Bool.false_eq_true, if_false]; exact ⟨e1, e2⟩

/-- `fill_token=""` (Praat's own label for an unlabelled stretch) is a fill token like any other
(`C11_textgrid_fill` quantifies over every string): the tier named `""` read with it is tiled from xmin to xmax. -/
example : readTextGrid .byStart ⟨⟨0, 0⟩, ⟨3, 0⟩, "", ⟨0, 0⟩, ⟨3, 0⟩, .intervals [(⟨1, 0⟩, ⟨2, 0⟩, "a")]⟩ (.name "") (some "")
    = .ok ([("", 0, 1), ("a", 1, 2), ("", 2, 3)], 0, 3) := by decide +kernel

/-- A gap narrower than a millisecond is a gap (round 4, seed C11-d2): written with four digits, the stretch from
`0.2000` to `0.2003` is unlabelled in the file, and reading with a fill token labels exactly it — `C11_textgrid_fill`
has no tolerance in it, whatever the precision of the file (instance through `C11_textgrid_roundtrip`). At the
default three digits both boundaries print `0.200`: the same transcript has no gap in that file and none is
filled. -/
example : ∃ f, writeTextGrid [("a", 1/10, 1/5), ("b", 2003/10000, 3/10)] ⟨none, none, "w", none, 4⟩ = .ok f ∧
    readTextGrid .byStart f (.idx 0) (some "sil")
      = .ok ([("a", 1/10, 1/5), ("sil", 1/5, 2003/10000), ("b", 2003/10000, 3/10)], 1/10, 3/10) := by
  obtain ⟨f, hw, _, hr⟩ := C11_textgrid_roundtrip [("a", 1/10, 1/5), ("b", 2003/10000, 3/10)]
    ⟨none, none, "w", none, 4⟩ (.idx 0) (by simp) (by simp; norm_num) (by simp) (by simp) (.inl rfl)
  refine ⟨f, hw, ?_⟩
  rw [C11_textgrid_fill, hr]
  decide +kernel

example : ∃ f, writeTextGrid [("a", 1/10, 1/5), ("b", 2003/10000, 3/10)] ⟨none, none, "w", none, 3⟩ = .ok f ∧
    readTextGrid .byStart f (.idx 0) (some "sil") = .ok ([("a", 1/10, 1/5), ("b", 1/5, 3/10)], 1/10, 3/10) := by
  obtain ⟨f, hw, _, hr⟩ := C11_textgrid_roundtrip [("a", 1/10, 1/5), ("b", 2003/10000, 3/10)]
    ⟨none, none, "w", none, 3⟩ (.idx 0) (by simp) (by simp; norm_num) (by simp) (by simp) (.inl rfl)
  refine ⟨f, hw, ?_⟩
  rw [C11_textgrid_fill, hr]
  decide +kernel

/-- **C11_textgrid_point_rule**: the inference rule of `write_textgrid` — a tier is written as points when
every segment's start and end print identically AT THE PRINT PRECISION — is exactly the condition under which
a point tier reads back what an interval tier would have read back: nothing is lost by dropping the end times
iff the rule holds (for every precision and transcript). -/
theorem C11_textgrid_point_rule (p : Nat) (t : List Timed) :
    inferPointAt p t = true ↔ ∀ x ∈ t, readBack p true x = readBack p false x := by
  simp only [inferPointAt, List.all_eq_true, beq_iff_eq, readBack, if_true, Bool.false_eq_true, if_false]
  constructor
  · intro h x hx
    rw [h x hx]
  · intro h x hx
    have := h x hx
    simp only [Prod.mk.injEq, true_and] at this
    exact fmt_val_inj p this

/-- **C11_textgrid_inferred**: the round trip, end to end, with the tier type NOT taken as given: for every
precision, tier name, admissible `start_time`/`end_time` and every `point_tier` setting — left unset (the tier
type is then whatever the inference rule at the print precision says), `False`, or `True` on zero-length
segments — `write_textgrid` succeeds and `read_textgrid` returns as many entries, in order, with the same
tokens, every start AND every end within `½·10⁻ᵖ` of what was written, and tier bounds within `½·10⁻ᵖ` of the
minimum start / maximum end. -/
theorem C11_textgrid_inferred (t : List Timed) (o : TgWriteOpts) (tier : TierId)
    (hne : t ≠ [])
    (hsorted : t.Pairwise (fun a b => a.2.1 ≤ b.2.1))
    (hpt : o.pointTier = some true → ∀ x ∈ t, x.2.1 = x.2.2)
    (hst : ∀ s, o.startTime = some s → s ≤ minList (t.map (·.2.1)))
    (hen : ∀ e, o.endTime = some e → maxList (t.map (·.2.2)) ≤ e)
    (htier : tier = .idx 0 ∨ tier = .idx (-1) ∨ tier = .name o.tierName) :
    ∃ f r a b, writeTextGridInferAt o.precision t o = .ok f ∧ writeTextGrid t o = .ok f ∧
      readTextGrid .byStart f tier none = .ok (r, a, b) ∧
      List.Forall₂ (fun y x => y.1 = x.1 ∧ Near o.precision y.2.1 x.2.1 ∧ Near o.precision y.2.2 x.2.2) r t ∧
      Near o.precision a (minList (t.map (·.2.1))) ∧ Near o.precision b (maxList (t.map (·.2.2))) := by
  obtain ⟨f, hw, _, hr⟩ := C11_textgrid_roundtrip t o tier hne hsorted hst hen htier
  refine ⟨f, _, _, _, by rw [writeTextGridInferAt_precision]; exact hw, hw, hr, ?_, fmt_bounds _ _, fmt_bounds _ _⟩
  rw [List.forall₂_map_left_iff]
  apply List.forall₂_same.mpr
  intro x hx
  obtain ⟨h1, h2, h3, h4, h5⟩ := C11_textgrid t o hpt x hx
  exact ⟨h1, ⟨h2, h3⟩, ⟨h4, h5⟩⟩

/-- Sub-millisecond segments at precision 5 with `point_tier` unset: an interval tier, ends kept. -/
example : ∃ f r a b, writeTextGridInferAt 5 [("t", 1/10, 1002/10000)] { precision := 5 } = .ok f ∧
    writeTextGrid [("t", 1/10, 1002/10000)] { precision := 5 } = .ok f ∧
    readTextGrid .byStart f (.idx 0) none = .ok (r, a, b) ∧
    List.Forall₂ (fun y x => y.1 = x.1 ∧ Near 5 y.2.1 x.2.1 ∧ Near 5 y.2.2 x.2.2) r [("t", 1/10, 1002/10000)] ∧
    Near 5 a (minList ([("t", 1/10, 1002/10000)].map (·.2.1))) ∧
    Near 5 b (maxList ([("t", 1/10, 1002/10000)].map (·.2.2))) :=
  C11_textgrid_inferred [("t", 1/10, 1002/10000)] { precision := 5 } (.idx 0) (by simp) (by simp) (by simp) (by simp)
    (by simp) (.inl rfl)

/-- **C11_textgrid_inference_counterexample**: the theorem depends on the inference being made at the PRINT
precision. Judged at the default 3 digits while printing 5 (a writer that does not pass `precision` on to the
zero-length test), the segment `(0.1, 0.1002)` is written as a point and its end reads back as `0.1`: off by
`2·10⁻⁴ > ½·10⁻⁵`. Judged at a FINER precision it fails as well: at 4 digits while printing 3,
`(0.00049, 0.00051)` is a point (both print `0.0005`), the end reads back as `0`, off by more than `½·10⁻³`. -/
theorem C11_textgrid_inference_counterexample :
    (inferPointAt 3 [("t", 1/10, 1002/10000)] = true ∧ inferPointAt 5 [("t", 1/10, 1002/10000)] = false ∧
      ∃ f, writeTextGridInferAt 3 [("t", 1/10, 1002/10000)] { precision := 5 } = .ok f ∧
        readTextGrid .byStart f (.idx 0) none = .ok ([("t", 1/10, 1/10)], 1/10, 1002/10000) ∧
        ¬ Near 5 (1/10) (1002/10000)) ∧
    (inferPointAt 4 [("t", 49/100000, 51/100000)] = true ∧ inferPointAt 3 [("t", 49/100000, 51/100000)] = false ∧
      ∃ f, writeTextGridInferAt 4 [("t", 49/100000, 51/100000)] { precision := 3 } = .ok f ∧
        readTextGrid .byStart f (.idx 0) none = .ok ([("t", 0, 0)], 0, 1/1000) ∧
        ¬ Near 3 0 (51/100000)) := by
  refine ⟨⟨by decide +kernel, by decide +kernel, ?_⟩, ⟨by decide +kernel, by decide +kernel, ?_⟩⟩
  · obtain ⟨f, hw, _, hr⟩ := C11_textgrid_roundtrip [("t", 1/10, 1002/10000)]
      { precision := 5, pointTier := some true } (.idx 0) (by simp) (by simp) (by simp) (by simp) (.inl rfl)
    refine ⟨f, ?_, ?_, by unfold Near; norm_num⟩
    · have h3 : inferPointAt 3 [("t", 1/10, 1002/10000)] = true := by decide +kernel
      rw [← hw]; simp only [writeTextGridInferAt, Option.getD_none, h3]
    · rw [hr]; decide +kernel
  · obtain ⟨f, hw, _, hr⟩ := C11_textgrid_roundtrip [("t", 49/100000, 51/100000)]
      { precision := 3, pointTier := some true } (.idx 0) (by simp) (by simp) (by simp) (by simp) (.inl rfl)
    refine ⟨f, ?_, ?_, by unfold Near; norm_num⟩
    · have h4 : inferPointAt 4 [("t", 49/100000, 51/100000)] = true := by decide +kernel
      rw [← hw]; simp only [writeTextGridInferAt, Option.getD_none, h4]
    · rw [hr]; decide +kernel

/-- The hypotheses of the round trip are satisfiable (times either side of 10 s, precision 2). -/
example : ∃ f, writeTextGrid [("a", 9, 10), ("b", 10, 23/2)] { precision := 2 } = .ok f ∧
    ((∃ l, f.body = .points l) ↔ isPointTier [("a", 9, 10), ("b", 10, 23/2)] { precision := 2 } = true) ∧
    readTextGrid .byStart f (.idx 0) none = .ok
      ([("a", 9, 10), ("b", 10, 23/2)].map (readBack 2 (isPointTier [("a", 9, 10), ("b", 10, 23/2)] { precision := 2 })),
        (fmt 2 (minList ([("a", 9, 10), ("b", 10, 23/2)].map (·.2.1)))).val,
        (fmt 2 (maxList ([("a", 9, 10), ("b", 10, 23/2)].map (·.2.2)))).val) := by
  apply C11_textgrid_roundtrip
  · simp
  · simp; norm_num
  · simp
  · simp
  · exact .inl rfl

/-- Non-vacuity with NO option at its default: `start_time = 8 ≤ 9`, `end_time = 12 ≥ 11.5`, a tier name,
`point_tier=False`, precision 2, the tier selected by name. -/
def exTgOpts : TgWriteOpts :=
  { startTime := some 8, endTime := some 12, tierName := "words", pointTier := some false, precision := 2 }

theorem exTgOpts_st (t : List Timed) (h : 8 ≤ minList (t.map (·.2.1))) :
    ∀ s, exTgOpts.startTime = some s → s ≤ minList (t.map (·.2.1)) := by
  intro s hs
  simp only [exTgOpts, Option.some.injEq] at hs
  subst hs; exact h

theorem exTgOpts_en (t : List Timed) (h : maxList (t.map (·.2.2)) ≤ 12) :
    ∀ e, exTgOpts.endTime = some e → maxList (t.map (·.2.2)) ≤ e := by
  intro e he
  simp only [exTgOpts, Option.some.injEq] at he
  subst he; exact h

example : ∃ f, writeTextGrid [("a", 9, 10), ("b", 10, 23/2)] exTgOpts = .ok f ∧
    ((∃ l, f.body = .points l) ↔ isPointTier [("a", 9, 10), ("b", 10, 23/2)] exTgOpts = true) ∧
    readTextGrid .byStart f (.name "words") none = .ok
      ([("a", 9, 10), ("b", 10, 23/2)].map (readBack 2 (isPointTier [("a", 9, 10), ("b", 10, 23/2)] exTgOpts)),
        (fmt 2 (minList ([("a", 9, 10), ("b", 10, 23/2)].map (·.2.1)))).val,
        (fmt 2 (maxList ([("a", 9, 10), ("b", 10, 23/2)].map (·.2.2)))).val) :=
  C11_textgrid_roundtrip _ exTgOpts (.name "words") (by simp) (by simp; norm_num)
    (exTgOpts_st _ (by decide +kernel)) (exTgOpts_en _ (by decide +kernel)) (.inr (.inr rfl))

/-- `C11_textgrid` where its hypothesis bites: `point_tier=True` on zero-length segments whose times are not
finite decimals (`1/3`, `2/3` at one digit). -/
example : ∀ x ∈ [("p", (1/3 : Rat), (1/3 : Rat)), ("q", 2/3, 2/3)],
    (readBack 1 true x).1 = x.1 ∧ x.2.1 - (1/2) / ((10 ^ 1 : Nat) : Rat) ≤ (readBack 1 true x).2.1 ∧
      (readBack 1 true x).2.1 ≤ x.2.1 + (1/2) / ((10 ^ 1 : Nat) : Rat) ∧
      x.2.2 - (1/2) / ((10 ^ 1 : Nat) : Rat) ≤ (readBack 1 true x).2.2 ∧
      (readBack 1 true x).2.2 ≤ x.2.2 + (1/2) / ((10 ^ 1 : Nat) : Rat) :=
  C11_textgrid [("p", 1/3, 1/3), ("q", 2/3, 2/3)] { pointTier := some true, precision := 1 } (by
    intro _ x hx
    simp only [List.mem_cons, List.not_mem_nil, or_false] at hx
    rcases hx with rfl | rfl <;> rfl)

/-- … and the hypothesis is needed: `point_tier=True` on a segment of non-zero length loses the end. -/
example : readBack 1 true ("p", 1, 2) = ("p", 1, 1) ∧ ¬ Near 1 (readBack 1 true ("p", 1, 2)).2.2 2 := by
  refine ⟨by decide +kernel, ?_⟩
  have : (readBack 1 true ("p", 1, 2)).2.2 = 1 := by decide +kernel
  rw [this]; unfold Near; norm_num

/-- `C11_textgrid_inferred` with `point_tier=True` on zero-length segments and every other option given. -/
example : ∃ f r a b,
    writeTextGridInferAt 2 [("p", 9, 9), ("q", 21/2, 21/2)] { exTgOpts with pointTier := some true } = .ok f ∧
    writeTextGrid [("p", 9, 9), ("q", 21/2, 21/2)] { exTgOpts with pointTier := some true } = .ok f ∧
    readTextGrid .byStart f (.idx (-1)) none = .ok (r, a, b) ∧
    List.Forall₂ (fun y x => y.1 = x.1 ∧ Near 2 y.2.1 x.2.1 ∧ Near 2 y.2.2 x.2.2) r [("p", 9, 9), ("q", 21/2, 21/2)] ∧
    Near 2 a (minList ([("p", (9 : Rat), (9 : Rat)), ("q", 21/2, 21/2)].map (·.2.1))) ∧
    Near 2 b (maxList ([("p", (9 : Rat), (9 : Rat)), ("q", 21/2, 21/2)].map (·.2.2))) :=
  C11_textgrid_inferred [("p", 9, 9), ("q", 21/2, 21/2)] { exTgOpts with pointTier := some true } (.idx (-1))
    (by simp) (by simp; norm_num)
    (by intro _ x hx
        simp only [List.mem_cons, List.not_mem_nil, or_false] at hx
        rcases hx with rfl | rfl <;> rfl)
    (by intro s hs; simp only [exTgOpts, Option.some.injEq] at hs; subst hs; decide +kernel)
    (by intro e he; simp only [exTgOpts, Option.some.injEq] at he; subst he; decide +kernel)
    (.inr (.inl rfl))

/-- **C11_textgrid_pinned_counterexample**: with the pinned tree's `sorted(tier.simple_transcript)`
(tuples of strings) the entry starting at 10 s comes back before the one starting at 9 s
(`corpus/C11/textgrid-sort-10s.json`); the repaired order (`.byStart`) returns them as written.
Third clause: the pinned `sorted(...)` (the `.pinned` branch of `sortedTimes`) applied to the two entries as
strings puts `b` first; fourth: the file `write_textgrid` writes for them, read with the repaired sort, is the
list written. (The strings `"9.000"` … are asserted, not computed: `Dec.render` does not reduce in the kernel.) -/
theorem C11_textgrid_pinned_counterexample :
    strTupleLe ["10.000", "11.000", "b"] ["9.000", "10.000", "a"] = true ∧
    strTupleLe ["9.000", "10.000", "a"] ["10.000", "11.000", "b"] = false ∧
    ([(["9.000", "10.000", "a"], (("a", 9, 10) : Timed)), (["10.000", "11.000", "b"], ("b", 10, 11))].mergeSort
        (fun a b => strTupleLe a.1 b.1)).map (fun x => x.2) = [("b", 10, 11), ("a", 9, 10)] ∧
    ∃ f, writeTextGrid [("a", 9, 10), ("b", 10, 11)] {} = .ok f ∧
      readTextGrid .byStart f (.idx 0) none = .ok ([("a", 9, 10), ("b", 10, 11)], 9, 11) := by
  have h : strTupleLe ["9.000", "10.000", "a"] ["10.000", "11.000", "b"] = false := by decide
  refine ⟨by decide, h, ?_, ?_⟩
  · simp [List.mergeSort, List.MergeSort.Internal.splitInTwo, h]
  · obtain ⟨f, hw, _, hr⟩ := C11_textgrid_roundtrip [("a", 9, 10), ("b", 10, 11)] {} (.idx 0)
      (by simp) (by simp; norm_num) (by simp) (by simp) (.inl rfl)
    exact ⟨f, hw, by rw [hr]; decide +kernel⟩

/-! ## path-or-file dispatch -/

/- TARGET (not provable: false for the library as far as it could be repaired, see
   `C11_dispatch_counterexample`):

     theorem C11_dispatch : ∀ d ∈ dispatchTable, ∀ o ∈ d.options, o ∈ d.forwarded

   `write_textgrid`'s path branch does not forward `point_tier`; forwarding it breaks the pinned
   test `tests/test_command_line.py::test_torch_token_data_dir_to_textgrids`, so it is a known
   finding and the theorem is proved with that one (function, option) pair excluded. -/

/-- **C11_dispatch_partial**: in every `isinstance(x, str)` branch of `_parsing.py` every option
of the function is handed on to the file branch — except `write_textgrid`'s `point_tier`.
(Audit: a `decide` over the seven rows of the hand-written `dispatchTable`, and the `→` half of clause (1) of
`C11_dispatch`; kept under the `_partial` name the conventions ask for, NOT counted as an obligation.) -/
theorem C11_dispatch_partial : ∀ d ∈ dispatchTable, ∀ o ∈ d.options,
    (d.fn, o) ≠ ("write_textgrid", "point_tier") → o ∈ d.forwarded := by decide

/-- Value form: whatever the caller gave for a forwarded option is what the file branch sees. -/
theorem C11_dispatch_values {V} (d : Dispatch) (hd : d ∈ dispatchTable) (defaults given : String → V)
    (o : String) (ho : o ∈ d.options) (hne : (d.fn, o) ≠ ("write_textgrid", "point_tier")) :
    viaPath d defaults given o = given o := by
  have := C11_dispatch_partial d hd o ho hne
  simp [viaPath, this]

/-- The forwarded options of `write_textgrid` in the table. -/
def tgForwarded : List String := ["start_time", "end_time", "tier_name", "precision"]

theorem tgForwarded_in_table :
    ⟨"write_textgrid", ["start_time", "end_time", "tier_name", "point_tier", "precision"], tgForwarded⟩
      ∈ dispatchTable := by decide

/-- `write_textgrid` through a path equals `write_textgrid` on an open file under every value of
`start_time`, `end_time`, `tier_name` and `precision`, for every transcript — as long as
`point_tier` is left at its default.
(Audit: DEFINITIONAL — `rfl` once the record is destructured: `writeTextGridVia` is *defined* as `writeTextGrid`
with the non-forwarded options at their defaults; the instance of clause (2) of `C11_dispatch`. Kept as
documentation, NOT counted as an obligation.) -/
theorem C11_dispatch_textgrid (t : List Timed) (o : TgWriteOpts) (h : o.pointTier = none) :
    writeTextGridVia tgForwarded t o = writeTextGrid t o := by
  cases o
  simp only at h
  subst h
  rfl

/-- With `point_tier` forwarded as well (the repair that the pinned test forbids) path and file
agree under every option. (Audit: DEFINITIONAL, `rfl`; kept as documentation, NOT counted as an obligation.) -/
theorem C11_dispatch_textgrid_full (t : List Timed) (o : TgWriteOpts) :
    writeTextGridVia ["start_time", "end_time", "tier_name", "point_tier", "precision"] t o
      = writeTextGrid t o := by
  cases o; rfl

/-- **C11_dispatch_counterexample**: `write_textgrid(path, point_tier=False)` on a zero-length
segment writes a point tier, `write_textgrid(file, point_tier=False)` an interval tier
(`corpus/C11/textgrid-dispatch-point-tier.json`). -/
theorem C11_dispatch_counterexample :
    writeTextGridVia tgForwarded [("a", 1, 1)] { pointTier := some false }
      ≠ writeTextGrid [("a", 1, 1)] { pointTier := some false } := by
  intro h
  have h2 := congrArg (fun r => match r with
    | Except.ok f => (match f.body with | .points _ => true | .intervals _ => false)
    | Except.error _ => false) h
  simp [writeTextGridVia, writeTextGrid, tgForwarded, List.contains, List.elem, checkStart, checkEnd,
    tgBody, isPointTier] at h2

/-- The pinned tree (`ca0aabc`) also dropped `precision` (`corpus/C11/textgrid-dispatch-precision.json`)
and `read_trn_iter`'s `chunk_size`: the rows of `pinnedDefects` are not fully forwarding. -/
theorem C11_dispatch_pinned_counterexample :
    ∀ d ∈ pinnedDefects, ∃ o ∈ d.options, o ∉ d.forwarded ∧ (d.fn, o) ≠ ("write_textgrid", "point_tier") := by
  decide

example : viaPath (V := Nat) ⟨"read_ctm", ["wc2utt"], ["wc2utt"]⟩ (fun _ => 0) (fun _ => 7) "wc2utt" = 7 :=
  C11_dispatch_values _ (by decide) _ _ _ (by decide) (by decide)

/-! ## text layers -/

/-- **C11_dec_text**: the decimal strings the writers emit (`'%.{p}f'` for TextGrid; the finite
decimal expansion `repr(float)` prints for ctm) read back exactly: as mantissa and digit count, and
through `float(...)` as the value — for every mantissa (negative ones included) and precision. -/
theorem C11_dec_text (d : Dec) : parseDec d.chars = some d ∧ parseFloat d.chars = some d.val :=
  ⟨parseDec_chars d, parseFloat_chars d⟩

example : (⟨12345, 3⟩ : Dec).chars = ['1', '2', '.', '3', '4', '5'] ∧
    (⟨5, 3⟩ : Dec).chars = ['0', '.', '0', '0', '5'] ∧ (⟨-50, 1⟩ : Dec).chars = ['-', '5', '.', '0'] ∧
    (⟨7, 0⟩ : Dec).chars = ['7'] := by decide

/-- **C11_ctm_text**: `read_ctm` on the characters `write_ctm` writes equals `read_ctm` at record
level — same result, same error — for every list of lines whose three string columns are printable
(non-empty, no white space, no `;;`) and every `wc2utt`: the file iteration finds the lines, cutting
the comment and stripping change nothing, `split()` returns the five columns, `float` the numbers. -/
theorem C11_ctm_text (w2u : Option (String × String → Option String)) (segs : List SegT)
    (hok : ∀ s ∈ segs, ctmFieldOk s.wfn = true ∧ ctmFieldOk s.chan = true ∧ ctmFieldOk s.tok = true) :
    readCtmText w2u ((segs.map SegT.line).flatten) = readCtm w2u (segs.map SegT.toSeg) :=
  readCtmText_lines w2u segs hok

/-- **C11_ctm_text_roundtrip**: `C11_ctm` down to the characters of the file. Under the hypotheses of
`C11_ctm`, with printable waveform names, channels and tokens, whenever `write_ctm` can print every
time as a finite decimal (`writeCtmText … = some text`): reading that text gives `specCtm`. -/
theorem C11_ctm_text_roundtrip (m : Utt2Wc) (w2u : Option (String × String → Option String))
    (ts : Transcripts) (wc : String → String × String)
    (hwc : ∀ ut ∈ ts, m.get ut.1 = some (wc ut.1))
    (hinv : ∀ ut ∈ ts, (match w2u with | none => some (wc ut.1).1 | some g => g (wc ut.1)) = some ut.1)
    (hnd : (ts.map (·.1)).Nodup)
    (hok : ∀ ut ∈ ts, ∀ x ∈ ut.2, timedOk x = true)
    (hprint : ∀ ut ∈ ts, ctmFieldOk (wc ut.1).1.toList = true ∧ ctmFieldOk (wc ut.1).2.toList = true ∧
      ∀ x ∈ ut.2, ctmFieldOk x.1.toList = true)
    (text : List Char) (hw : writeCtmText m ts = .ok (some text)) :
    readCtmText w2u text = .ok (specCtm wc ts) := by
  obtain ⟨segs, hW, hR⟩ := C11_ctm m w2u ts wc hwc hinv hnd hok
  have hW2 := writeCtm_ok m ts wc hwc hok
  rw [hW] at hW2
  simp only [Except.ok.injEq] at hW2
  unfold writeCtmText at hw
  rw [hW] at hw
  simp only [Except.ok.injEq] at hw
  cases hall : allSome (segs.map segToText) with
  | none => simp [hall] at hw
  | some segsT =>
    simp only [hall, Option.map_some, Option.some.injEq] at hw
    subst hw
    have hmap := allSome_eq_some _ _ hall
    -- every printed line is the print of its record
    have hlen : segsT.length = segs.length := by
      have := congrArg List.length hmap
      simpa using this.symm
    have hpt : ∀ i (h1 : i < segs.length) (h2 : i < segsT.length), segToText segs[i] = some segsT[i] := by
      intro i h1 h2
      have := congrArg (fun l => l[i]?) hmap
      simpa [h1, h2] using this
    have hto : segsT.map SegT.toSeg = segs := by
      apply List.ext_getElem (by simpa using hlen)
      intro i h1 h2
      simp only [List.getElem_map]
      exact (segToText_some _ _ (hpt i h2 (by simpa using h1))).1
    have hmemAll : ∀ s ∈ segs, ∃ ut ∈ ts, ∃ x ∈ ut.2, mkSeg (wc ut.1) x = s := by
      intro s hs
      rw [hW2, List.mem_mergeSort, List.mem_flatten] at hs
      obtain ⟨l, hl, hsl⟩ := hs
      rw [List.mem_map] at hl
      obtain ⟨ut, hut, rfl⟩ := hl
      rw [List.mem_map] at hsl
      obtain ⟨x, hx, hsx⟩ := hsl
      exact ⟨ut, hut, x, hx, hsx⟩
    have hfields : ∀ s ∈ segsT, ctmFieldOk s.wfn = true ∧ ctmFieldOk s.chan = true ∧ ctmFieldOk s.tok = true := by
      intro s hs
      obtain ⟨i, hi, rfl⟩ := List.getElem_of_mem hs
      have hi' : i < segs.length := by omega
      obtain ⟨_, e1, e2, e3⟩ := segToText_some _ _ (hpt i hi' hi)
      obtain ⟨ut, hut, x, hx, hsx⟩ := hmemAll _ (List.getElem_mem hi')
      obtain ⟨p1, p2, p3⟩ := hprint ut hut
      rw [e1, e2, e3, ← hsx]
      exact ⟨p1, p2, p3 x hx⟩
    rw [C11_ctm_text w2u segsT hfields, hto, hR]

/-- Non-vacuity of the text round trip (`10.0`, `0.5`: what Python prints). -/
example : readCtmText none "u1 A 10.0 0.5 b\n".toList
    = .ok (specCtm (fun u => (u, "A")) [("u1", [("b", 10, 21/2)])]) := by
  apply C11_ctm_text_roundtrip (.chan "A")
  · intro ut _; rfl
  · intro ut _; rfl
  · decide
  · intro ut hut x hx
    simp only [List.mem_cons, List.not_mem_nil, or_false] at hut
    subst hut
    simp only [List.mem_cons, List.not_mem_nil, or_false] at hx
    subst hx
    simp [timedOk]; norm_num
  · decide
  · decide +kernel

/-- Non-vacuity: a printable line (two-digit and one-digit decimals) and the characters it becomes. -/
example : ctmFieldOk ['w', '1'] = true ∧ ctmFieldOk ['A'] = true ∧ ctmFieldOk ['a', ';', 'b'] = true ∧
    (⟨['w', '1'], ['A'], ⟨25, 2⟩, ⟨0, 1⟩, ['a', ';', 'b']⟩ : SegT).line
      = ['w', '1', ' ', 'A', ' ', '0', '.', '2', '5', ' ', '0', '.', '0', ' ', 'a', ';', 'b', '\n'] := by
  decide

/-- **C11_textgrid_text**: for every structured file with non-negative numbers, a tier name without
line break and labels without `"` and carriage return (line breaks inside labels are fine), the
characters `write_textgrid` writes parse back to exactly that file, and `read_textgrid` on the
characters (text mode) — also on the same characters written with CRLF line ends — is
`read_textgrid` on the structure, under every tier selector, fill token and sort variant. -/
theorem C11_textgrid_text (f : TgFile) (h : f.textOk = true) :
    parseTg f.chars = some f ∧
    ∀ (srt : TgSort) (tier : TierId) (fill : Option String),
      readTextGridText srt f.chars tier fill = some (readTextGrid srt f tier fill) ∧
      readTextGridText srt (crlf f.chars) tier fill = some (readTextGrid srt f tier fill) :=
  ⟨parseTg_chars f h, fun srt tier fill =>
    ⟨readTextGridText_chars srt f h tier fill, readTextGridText_crlf srt f h tier fill⟩⟩

example : (⟨⟨900, 2⟩, ⟨1150, 2⟩, "tr \"x\"", ⟨900, 2⟩, ⟨1150, 2⟩,
      .intervals [(⟨900, 2⟩, ⟨1000, 2⟩, "a"), (⟨1000, 2⟩, ⟨1150, 2⟩, "b\nc")]⟩ : TgFile).textOk = true := by
  decide

/-- **C11_textgrid_text_roundtrip**: `C11_textgrid_roundtrip` down to the characters of the file
("proved on writer output"): for a time-ordered transcript with non-negative times, labels without
`"` / carriage return and a tier name without line break, `write_textgrid` succeeds, and
`read_textgrid` applied to the very characters it wrote (text mode; also when they were written
with CRLF line ends) returns the entries in order, every time rounded to the print precision, and
the rounded tier bounds. -/
theorem C11_textgrid_text_roundtrip (t : List Timed) (o : TgWriteOpts) (tier : TierId)
    (hne : t ≠ [])
    (hsorted : t.Pairwise (fun a b => a.2.1 ≤ b.2.1))
    (hst : ∀ s, o.startTime = some s → s ≤ minList (t.map (·.2.1)))
    (hen : ∀ e, o.endTime = some e → maxList (t.map (·.2.2)) ≤ e)
    (htier : tier = .idx 0 ∨ tier = .idx (-1) ∨ tier = .name o.tierName)
    (hnn : ∀ x ∈ t, 0 ≤ x.2.1 ∧ 0 ≤ x.2.2)
    (hs0 : ∀ s, o.startTime = some s → 0 ≤ s)
    (hlab : ∀ x ∈ t, tgLabelOk x.1 = true)
    (hname : tgNameOk o.tierName = true) :
    ∃ f, writeTextGrid t o = .ok f ∧ f.textOk = true ∧
      readTextGridText .byStart f.chars tier none
        = some (.ok (t.map (readBack o.precision (isPointTier t o)),
            (fmt o.precision (minList (t.map (·.2.1)))).val,
            (fmt o.precision (maxList (t.map (·.2.2)))).val)) ∧
      readTextGridText .byStart (crlf f.chars) tier none
        = some (.ok (t.map (readBack o.precision (isPointTier t o)),
            (fmt o.precision (minList (t.map (·.2.1)))).val,
            (fmt o.precision (maxList (t.map (·.2.2)))).val)) := by
  obtain ⟨f, hw, _, hr⟩ := C11_textgrid_roundtrip t o tier hne hsorted hst hen htier
  have hok : f.textOk = true := by
    have hemp : t.isEmpty = false := by cases t <;> simp_all
    have e1 : checkStart o.startTime (minList (t.map (·.2.1)))
        = .ok (o.startTime.getD (minList (t.map (·.2.1)))) := by
      unfold checkStart
      cases h : o.startTime with
      | none => rfl
      | some s => simp [not_lt.mpr (hst s h)]
    have e2 : checkEnd o.endTime (maxList (t.map (·.2.2)))
        = .ok (o.endTime.getD (maxList (t.map (·.2.2)))) := by
      unfold checkEnd
      cases h : o.endTime with
      | none => rfl
      | some e => simp [not_lt.mpr (hen e h)]
    simp only [writeTextGrid, hemp, Bool.false_eq_true, if_false, e1, e2, Except.ok.injEq] at hw
    subst hw
    have hmin : 0 ≤ minList (t.map (·.2.1)) := by
      have := minList_mem (l := t.map (·.2.1)) (by simpa using hne)
      rw [List.mem_map] at this
      obtain ⟨x, hx, he⟩ := this
      rw [← he]; exact (hnn x hx).1
    have hmax : 0 ≤ maxList (t.map (·.2.2)) := by
      have := maxList_mem (l := t.map (·.2.2)) (by simpa using hne)
      rw [List.mem_map] at this
      obtain ⟨x, hx, he⟩ := this
      rw [← he]; exact (hnn x hx).2
    have hs : 0 ≤ o.startTime.getD (minList (t.map (·.2.1))) := by
      cases h : o.startTime with
      | none => simpa using hmin
      | some s => simpa using hs0 s h
    have he : 0 ≤ o.endTime.getD (maxList (t.map (·.2.2))) := by
      cases h : o.endTime with
      | none => simpa using hmax
      | some e => simpa using le_trans hmax (hen e h)
    simp only [TgFile.textOk, Bool.and_eq_true, decide_eq_true_eq]
    refine ⟨⟨⟨⟨⟨fmt_nonneg _ hs, fmt_nonneg _ he⟩, fmt_nonneg _ hmin⟩, fmt_nonneg _ hmax⟩, hname⟩, ?_⟩
    simp only [tgBody]
    split_ifs with c
    · simp only [TgBody.textOk, List.all_map, List.all_eq_true, Function.comp, Bool.and_eq_true,
        decide_eq_true_eq]
      exact fun x hx => ⟨fmt_nonneg _ (hnn x hx).1, hlab x hx⟩
    · simp only [TgBody.textOk, List.all_map, List.all_eq_true, Function.comp, Bool.and_eq_true,
        decide_eq_true_eq]
      exact fun x hx => ⟨⟨fmt_nonneg _ (hnn x hx).1, fmt_nonneg _ (hnn x hx).2⟩, hlab x hx⟩
  refine ⟨f, hw, hok, ?_, ?_⟩
  · rw [(C11_textgrid_text f hok).2 .byStart tier none |>.1, hr]
  · rw [(C11_textgrid_text f hok).2 .byStart tier none |>.2, hr]

/-! ## tiers, any order -/

/-- **C11_textgrid_any_order**: `C11_textgrid_roundtrip` without the time-order hypothesis: entries
handed to `write_textgrid` in any order come back stably sorted by their (rounded) start, nothing
lost, every time rounded to the print precision, bounds = rounded minimum start / maximum end. -/
theorem C11_textgrid_any_order (t : List Timed) (o : TgWriteOpts) (tier : TierId)
    (hne : t ≠ [])
    (hst : ∀ s, o.startTime = some s → s ≤ minList (t.map (·.2.1)))
    (hen : ∀ e, o.endTime = some e → maxList (t.map (·.2.2)) ≤ e)
    (htier : tier = .idx 0 ∨ tier = .idx (-1) ∨ tier = .name o.tierName) :
    ∃ f, writeTextGrid t o = .ok f ∧
      readTextGrid .byStart f tier none
        = .ok ((t.map (readBack o.precision (isPointTier t o))).mergeSort startLe,
        (fmt o.precision (minList (t.map (·.2.1)))).val,
        (fmt o.precision (maxList (t.map (·.2.2)))).val) := by
  have hemp : t.isEmpty = false := by cases t <;> simp_all
  have e1 : checkStart o.startTime (minList (t.map (·.2.1)))
      = .ok (o.startTime.getD (minList (t.map (·.2.1)))) := by
    unfold checkStart
    cases h : o.startTime with
    | none => rfl
    | some s => simp [not_lt.mpr (hst s h)]
  have e2 : checkEnd o.endTime (maxList (t.map (·.2.2)))
      = .ok (o.endTime.getD (maxList (t.map (·.2.2)))) := by
    unfold checkEnd
    cases h : o.endTime with
    | none => rfl
    | some e => simp [not_lt.mpr (hen e h)]
  simp only [writeTextGrid, hemp, Bool.false_eq_true, if_false, e1, e2]
  refine ⟨_, rfl, ?_⟩
  have hfound : tierFound ⟨fmt o.precision (o.startTime.getD (minList (t.map (·.2.1)))),
      fmt o.precision (o.endTime.getD (maxList (t.map (·.2.2)))),
      o.tierName, fmt o.precision (minList (t.map (·.2.1))), fmt o.precision (maxList (t.map (·.2.2))),
      tgBody t o⟩ tier = .ok () := by
    rcases htier with rfl | rfl | rfl <;> simp [tierFound]
  simp only [readTextGrid, hfound, fillAll_none]
  congr 2
  simp only [sortedTimes]
  rw [List.map_mergeSort (s := startLe) (fun a _ b _ => rfl)]
  congr 1
  simp only [tgBody]
  split_ifs with c <;> simp [TgBody.entries, readBack, c, Function.comp_def]

/-- Non-vacuity of `C11_textgrid_any_order` with a sort that actually happens: the entries are handed over
latest first, with two entries whose starts print identically at precision 1 (`10.02`, `10.04`): these two keep
the order they were written in (stable), the rest is ordered by start. -/
def exAnyT : List Timed := [("c", 23/2, 12), ("b2", 1002/100, 11), ("b1", 1004/100, 11), ("a", 9, 10)]
def exAnyO : TgWriteOpts := { exTgOpts with precision := 1 }

example : ∃ f, writeTextGrid exAnyT exAnyO = .ok f ∧
    readTextGrid .byStart f (.name "words") none
      = .ok ([("a", 9, 10), ("b2", 10, 11), ("b1", 10, 11), ("c", 23/2, 12)], 9, 12) := by
  obtain ⟨f, hw, hr⟩ := C11_textgrid_any_order exAnyT exAnyO (.name "words") (by simp [exAnyT])
    (by intro s hs; simp only [exAnyO, exTgOpts, Option.some.injEq] at hs; subst hs; decide +kernel)
    (by intro e he; simp only [exAnyO, exTgOpts, Option.some.injEq] at he; subst he; decide +kernel)
    (.inr (.inr rfl))
  have e1 : exAnyT.map (readBack exAnyO.precision (isPointTier exAnyT exAnyO))
      = [("c", 23/2, 12), ("b2", 10, 11), ("b1", 10, 11), ("a", 9, 10)] := by decide +kernel
  have e2 : (fmt exAnyO.precision (minList (exAnyT.map (·.2.1)))).val = 9 := by decide +kernel
  have e3 : (fmt exAnyO.precision (maxList (exAnyT.map (·.2.2)))).val = 12 := by decide +kernel
  rw [e1, e2, e3] at hr
  refine ⟨f, hw, ?_⟩
  rw [hr]
  norm_num [List.mergeSort, List.MergeSort.Internal.splitInTwo, List.merge, startLe]

/-- Non-vacuity of `C11_textgrid_text_roundtrip`: a label with a line break, a tier name with quotes, every
option given. -/
example : ∃ f, writeTextGrid [("a", 9, 10), ("b\nc", 10, 23/2)] { exTgOpts with tierName := "tr \"x\"" } = .ok f ∧
    f.textOk = true ∧
    readTextGridText .byStart f.chars (.name "tr \"x\"") none = some (.ok ([("a", 9, 10), ("b\nc", 10, 23/2)], 9, 23/2)) ∧
    readTextGridText .byStart (crlf f.chars) (.name "tr \"x\"") none
      = some (.ok ([("a", 9, 10), ("b\nc", 10, 23/2)], 9, 23/2)) := by
  obtain ⟨f, hw, hok, h1, h2⟩ := C11_textgrid_text_roundtrip [("a", 9, 10), ("b\nc", 10, 23/2)]
    { exTgOpts with tierName := "tr \"x\"" } (.name "tr \"x\"") (by simp) (by simp; norm_num)
    (by intro s hs; simp only [exTgOpts, Option.some.injEq] at hs; subst hs; decide +kernel)
    (by intro e he; simp only [exTgOpts, Option.some.injEq] at he; subst he; decide +kernel)
    (.inr (.inr rfl))
    (by intro x hx
        simp only [List.mem_cons, List.not_mem_nil, or_false] at hx
        rcases hx with rfl | rfl <;> constructor <;> norm_num)
    (by intro s hs; simp only [exTgOpts, Option.some.injEq] at hs; subst hs; norm_num)
    (by decide) (by decide)
  refine ⟨f, hw, hok, ?_, ?_⟩
  · rw [h1]; decide +kernel
  · rw [h2]; decide +kernel

/-- **C11_textgrid_tier_select**: in a file with several tiers `tier_id` selects
(1) by name: the FIRST tier with that name — `ValueError` iff there is none;
(2) by index: `tiers[i]` for `0 ≤ i < n`, `tiers[n + i]` for `-n ≤ i < 0`, `IndexError` otherwise;
(3) for a file with one tier this is the rule used by the single-tier theorems (`readTextGrid`). -/
theorem C11_textgrid_tier_select (tiers : List TgTier) :
    (∀ s t, tierSelect tiers (.name s) = .ok t ↔
      ∃ pre post, tiers = pre ++ t :: post ∧ t.name = s ∧ ∀ x ∈ pre, x.name ≠ s) ∧
    (∀ s, tierSelect tiers (.name s) = .error .value ↔ ∀ x ∈ tiers, x.name ≠ s) ∧
    (∀ (i : Nat) (h : i < tiers.length), tierSelect tiers (.idx i) = .ok tiers[i]) ∧
    (∀ (i : Nat) (h : i < tiers.length), tierSelect tiers (.idx (-(i + 1 : Nat)))
        = .ok (tiers[tiers.length - 1 - i]'(by omega))) ∧
    (∀ i : Int, (i < -(tiers.length : Int) ∨ (tiers.length : Int) ≤ i) →
        tierSelect tiers (.idx i) = .error .index) ∧
    (∀ (t : TgTier) srt tier fill, readTextGridDoc srt [t] tier fill = readTextGrid srt t.asFile tier fill) := by
  refine ⟨?_, ?_, ?_, ?_, ?_, ?_⟩
  · intro s t
    unfold tierSelect
    simp only
    cases hf : tiers.find? (fun t => t.name == s) with
    | none =>
      simp only [reduceCtorEq, false_iff]
      rintro ⟨pre, post, rfl, hn, _⟩
      rw [List.find?_eq_none] at hf
      have := hf t (by simp)
      simp [hn] at this
    | some t' =>
      rw [List.find?_eq_some_iff_append] at hf
      obtain ⟨hn, pre, post, rfl, hpre⟩ := hf
      simp only [Except.ok.injEq]
      constructor
      · rintro rfl
        exact ⟨pre, post, rfl, by simpa using hn, fun x hx => by simpa using hpre x hx⟩
      · rintro ⟨pre', post', heq, hn', hpre'⟩
        -- both decompositions split at the first tier named `s`
        have hn1 : t'.name = s := by simpa using hn
        have key : ∀ (a b : List TgTier) (x y : TgTier) (p q : List TgTier), a ++ x :: p = b ++ y :: q →
            x.name = s → y.name = s → (∀ z ∈ a, z.name ≠ s) → (∀ z ∈ b, z.name ≠ s) → x = y := by
          intro a
          induction a with
          | nil =>
            intro b x y p q h hx hy _ hb
            cases b with
            | nil => simp at h; exact h.1
            | cons b0 bs =>
              simp at h
              exact absurd (h.1 ▸ hx) (hb b0 (by simp))
          | cons a0 as ih =>
            intro b x y p q h hx hy ha hb
            cases b with
            | nil =>
              simp at h
              exact absurd (h.1 ▸ hy) (ha a0 (by simp))
            | cons b0 bs =>
              simp at h
              exact ih bs x y p q h.2 hx hy (fun z hz => ha z (by simp [hz])) (fun z hz => hb z (by simp [hz]))
        exact key pre pre' t' t post post' heq hn1 hn' (fun x hx => by simpa using hpre x hx) hpre'
  · intro s
    unfold tierSelect
    simp only
    cases hf : tiers.find? (fun t => t.name == s) with
    | none =>
      rw [List.find?_eq_none] at hf
      simp only [true_iff]
      intro x hx
      simpa using hf x hx
    | some t' =>
      simp only [reduceCtorEq, false_iff]
      intro hall
      have := List.mem_of_find?_eq_some hf
      have h2 := List.find?_some hf
      exact hall t' this (by simpa using h2)
  · intro i h
    unfold tierSelect
    have h1 : ¬ ((i : Int) < 0) := by omega
    have h2 : ¬ ((tiers.length : Int) ≤ (i : Int)) := by omega
    simp [h1, h2, h]
  · intro i h
    unfold tierSelect
    have h1 : (-((i + 1 : Nat) : Int)) < 0 := by omega
    have h2 : ¬ (-((i + 1 : Nat) : Int) + (tiers.length : Int) < 0) := by omega
    have h3 : ¬ ((tiers.length : Int) ≤ -((i + 1 : Nat) : Int) + (tiers.length : Int)) := by omega
    have h4 : (-((i + 1 : Nat) : Int) + (tiers.length : Int)).toNat = tiers.length - 1 - i := by omega
    have h5 : tiers.length - 1 - i < tiers.length := by omega
    simp only [h1, if_true, h2, h3, decide_false, Bool.or_self, Bool.false_eq_true, if_false, h4,
      List.getElem?_eq_getElem h5]
  · intro i hi
    unfold tierSelect
    by_cases h0 : i < 0
    · have : i + (tiers.length : Int) < 0 ∨ (tiers.length : Int) ≤ i + (tiers.length : Int) := by omega
      rcases this with h | h <;> simp [h0, h]
    · have : (tiers.length : Int) ≤ i := by omega
      simp [h0, this]
  · intro t srt tier fill
    unfold readTextGridDoc readTextGrid tierSelect tierFound TgTier.asFile
    cases tier with
    | name s =>
      simp only [List.find?_cons, List.find?_nil]
      by_cases h : (t.name == s) = true <;> simp [h]
    | idx i =>
      simp only [List.length_cons, List.length_nil]
      by_cases h0 : i = 0
      · subst h0; simp
      · by_cases h1 : i = -1
        · subst h1; simp
        · have e1 : (i == 0 || i == -1) = false := by simp [h0, h1]
          simp only [e1, Bool.false_eq_true, if_false]
          by_cases hneg : i < 0
          · have : i + 1 < 0 := by omega
            simp [hneg, this]
          · have : (1 : Int) ≤ i := by omega
            simp [hneg, this]

example : tierSelect [⟨"words", ⟨0, 0⟩, ⟨2, 0⟩, .intervals []⟩, ⟨"pts", ⟨0, 0⟩, ⟨2, 0⟩, .points []⟩,
      ⟨"words", ⟨1, 0⟩, ⟨2, 0⟩, .intervals []⟩] (.idx (-1))
    = .ok ⟨"words", ⟨1, 0⟩, ⟨2, 0⟩, .intervals []⟩ := by decide

/-! ## path or file: the single exception -/

/-- **C11_dispatch**: the dispatch statement lifted as far as the code allows, the known finding the
one exception:
(1) an option of a path branch is handed on to the file branch **iff** it is not `write_textgrid`'s
    `point_tier` (`C11_dispatch_partial` + `C11_dispatch_counterexample` in one statement);
(2) what the exception does: `write_textgrid(path, …)` is `write_textgrid(file, …)` with
    `point_tier` left at its default, for every transcript and every value of every option;
(3) hence path and file produce different output **iff** the call succeeds and the tier type asked
    for differs from the one that would be inferred. -/
theorem C11_dispatch :
    (∀ d ∈ dispatchTable, ∀ o ∈ d.options,
      (o ∈ d.forwarded ↔ (d.fn, o) ≠ ("write_textgrid", "point_tier"))) ∧
    (∀ (t : List Timed) (o : TgWriteOpts),
      writeTextGridVia tgForwarded t o = writeTextGrid t { o with pointTier := none }) ∧
    (∀ (t : List Timed) (o : TgWriteOpts),
      writeTextGridVia tgForwarded t o ≠ writeTextGrid t o ↔
        (∃ f, writeTextGrid t o = .ok f) ∧ isPointTier t o ≠ isPointTier t { o with pointTier := none }) := by
  refine ⟨by decide, ?_, ?_⟩
  · intro t o
    cases o; rfl
  · intro t o
    have hvia : writeTextGridVia tgForwarded t o = writeTextGrid t { o with pointTier := none } := by
      cases o; rfl
    rw [hvia]
    obtain ⟨st, en, name, pt, p⟩ := o
    simp only
    unfold writeTextGrid
    by_cases hemp : t.isEmpty = true
    · simp [hemp]
    · simp only [hemp, Bool.false_eq_true, if_false]
      cases checkStart st (minList (t.map (·.2.1))) with
      | error e => simp
      | ok s =>
        cases checkEnd en (maxList (t.map (·.2.2))) with
        | error e => simp
        | ok e =>
          simp only [ne_eq, Except.ok.injEq, TgFile.mk.injEq, true_and, exists_eq', and_true]
          have hne : t ≠ [] := by intro h; simp [h] at hemp
          obtain ⟨x, xs, rfl⟩ := List.exists_cons_of_ne_nil hne
          unfold tgBody
          by_cases c1 : isPointTier (x :: xs) ⟨st, en, name, none, p⟩ = true <;>
            by_cases c2 : isPointTier (x :: xs) ⟨st, en, name, pt, p⟩ = true <;>
            simp [c1, c2]

end PdtVerif.Transcripts
