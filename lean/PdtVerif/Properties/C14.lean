import PdtVerif.Lemmas.Batching
import PdtVerif.Properties.C13
/-!
# C14 — batching loses nothing: buckets, loaders and collation preserve every utterance

Property theorems only (helper lemmas live in `Lemmas/Batching.lean`). All statements are
for every sampler order (any length, repeats allowed), every `idx2bucket` / `bucket2size`
map, both values of `drop_incomplete`.

`iter i2b b2s drop order = (bs, none)` reads: iterating the sampler over `order` ended
without an exception and yielded the batches `bs`. `C14_wellformed_ok` shows this happens
for all well-formed maps (every index has a bucket, every bucket a positive size).
-/
namespace PdtVerif.Batching
open Spec

/-- A successful iteration is a successful run of the loop followed by the flush. -/
theorem iter_ok {i2b b2s drop order bs} (h : iter i2b b2s drop order = (bs, none)) :
    ∃ s, run i2b b2s St.init order = (s, none) ∧
      bs = if drop then s.out else s.out ++ flush s.pend := by
  unfold iter at h
  cases hr : run i2b b2s St.init order with
  | mk s e =>
    cases e with
    | some e => simp [hr] at h
    | none =>
      simp only [hr] at h
      exact ⟨s, rfl, by cases h; rfl⟩

/-- Every index has a bucket and every such bucket a positive size. -/
def WellFormed (i2b b2s : Nat → Option Nat) (order : List Nat) : Prop :=
  ∀ x ∈ order, ∃ h n, i2b x = some h ∧ b2s h = some n ∧ 0 < n

theorem run_total {i2b b2s} : ∀ {xs pre s}, Inv i2b b2s pre s → WellFormed i2b b2s xs →
    ∃ s', run i2b b2s s xs = (s', none) := by
  intro xs
  induction xs with
  | nil => intro pre s _ _; exact ⟨s, rfl⟩
  | cons x xs ih =>
    intro pre s inv wf
    obtain ⟨h, n, hb, hn, hpos⟩ := wf x (by simp)
    have hlt : (pendOf s.pend h).length < n := by
      unfold pendOf
      cases hg : dget s.pend h with
      | none => simpa using hpos
      | some l =>
        obtain ⟨n', q1, _, q3, _⟩ := inv.pend h l (dget_some_mem hg)
        rw [hn] at q1; cases q1
        simpa using q3
    have : ∃ s₁, step i2b b2s s x = .ok s₁ := by
      unfold step
      simp only [hb, hn]
      by_cases h1 : n = (pendOf s.pend h ++ [x]).length
      · exact ⟨_, if_pos h1⟩
      · have h2 : ¬ n < (pendOf s.pend h ++ [x]).length := by
          simp only [List.length_append, List.length_singleton] at h1 ⊢
          omega
        exact ⟨_, by rw [if_neg h1, if_neg h2]⟩
    obtain ⟨s₁, hs⟩ := this
    obtain ⟨s', hs'⟩ := ih (step_inv inv hs) (fun y hy => wf y (List.mem_cons_of_mem _ hy))
    exact ⟨s', by simp [run, hs, hs']⟩

/-- **Non-vacuity for all theorems below**: on well-formed maps the iteration never raises. -/
theorem C14_wellformed_ok (i2b b2s : Nat → Option Nat) (drop : Bool) (order : List Nat)
    (wf : WellFormed i2b b2s order) : ∃ bs, iter i2b b2s drop order = (bs, none) := by
  obtain ⟨s, hs⟩ := run_total (Inv.init i2b b2s) wf
  exact ⟨if drop then s.out else s.out ++ flush s.pend, by simp [iter, hs]⟩

/-- **C14_batches**: the batches yielded are `full ++ trail` where every batch of `full` holds
indices of ONE bucket, in sampler order (a sublist of the sampler output), and has exactly that
bucket's size; `trail` (the flush) holds at most one batch per bucket, in increasing bucket id,
each non-empty, strictly shorter than its bucket's size, again of one bucket and in sampler
order; with `drop_incomplete` there is no `trail`. -/
theorem C14_batches (i2b b2s : Nat → Option Nat) (drop : Bool) (order : List Nat)
    (bs : List (List Nat)) (h : iter i2b b2s drop order = (bs, none)) :
    ∃ (full : List (List Nat)) (trail : List (Nat × List Nat)),
      bs = full ++ trail.map Prod.snd ∧
      (∀ b ∈ full, ∃ h n, b2s h = some n ∧ b.length = n ∧
        (∀ x ∈ b, i2b x = some h) ∧ b.Sublist order) ∧
      (∀ e ∈ trail, ∃ n, b2s e.1 = some n ∧ 0 < e.2.length ∧ e.2.length < n ∧
        (∀ x ∈ e.2, i2b x = some e.1) ∧ e.2.Sublist order) ∧
      (keys trail).Pairwise (· < ·) ∧
      (drop = true → trail = []) := by
  obtain ⟨s, hr, hbs⟩ := iter_ok h
  have inv : Inv i2b b2s order s := by simpa using run_inv (Inv.init i2b b2s) hr
  refine ⟨s.out, if drop then [] else sortKey s.pend, ?_, ?_, ?_, ?_, ?_⟩
  · cases drop <;> simp [hbs, flush]
  · intro b hb
    obtain ⟨h', n, q1, q2, _, q4, q5⟩ := inv.full b hb
    exact ⟨h', n, q1, q2, q4, q5⟩
  · intro e he
    cases drop with
    | true => simp at he
    | false =>
      simp only [Bool.false_eq_true, if_false] at he
      have : e ∈ s.pend := (sortKey_perm s.pend).subset he
      exact inv.pend e.1 e.2 this
  · cases drop with
    | true => simp
    | false => simpa using sortKey_strict s.pend inv.nodup
  · intro hd; simp [hd]

/-- **C14_cover (incomplete batches kept)**: the concatenation of all batches is a
rearrangement of the sampler output — every index the sampler produced appears in exactly one
batch (with its multiplicity, should the sampler repeat an index). -/
theorem C14_cover_keep (i2b b2s : Nat → Option Nat) (order : List Nat) (bs : List (List Nat))
    (h : iter i2b b2s false order = (bs, none)) : bs.flatten.Perm order := by
  obtain ⟨s, hr, hbs⟩ := iter_ok h
  have inv : Inv i2b b2s order s := by simpa using run_inv (Inv.init i2b b2s) hr
  simp only [Bool.false_eq_true, if_false] at hbs
  subst hbs
  rw [List.flatten_append]
  refine (List.Perm.append_left _ ?_).trans inv.cover
  exact ((sortKey_perm s.pend).map Prod.snd).flatten

theorem dget_perm {β} {d d' : List (Nat × β)} (hp : d.Perm d') (hn : (keys d).Nodup) (k : Nat) :
    dget d k = dget d' k := by
  have hn' : (keys d').Nodup := (hp.map Prod.fst).nodup_iff.1 hn
  cases hg : dget d k with
  | none =>
    have : k ∉ keys d' := fun hk => (dget_eq_none_iff d k).1 hg ((hp.map Prod.fst).symm.subset hk)
    exact ((dget_eq_none_iff d' k).2 this).symm
  | some v => exact (mem_dget hn' (hp.subset (dget_some_mem hg))).symm

theorem remainder_append {α} {n : Nat} {pre p : List α} (hn : 0 < n) (hd : n ∣ pre.length)
    (hp : p.length < n) : remainder n (pre ++ p) = p := by
  obtain ⟨k, hk⟩ := hd
  unfold remainder
  have : (pre ++ p).length / n = k := by
    rw [List.length_append, hk, Nat.add_comm, Nat.add_mul_div_left _ _ hn, Nat.div_eq_of_lt hp]
    omega
  rw [this]
  have : k * n = pre.length := by rw [hk, Nat.mul_comm]
  rw [this]
  exact List.drop_left

/-- **C14_cover (incomplete batches dropped)**: the batches yielded with `drop_incomplete`
are those yielded without it minus a list `dropped` with at most one entry per bucket; batches
and `dropped` together are a rearrangement of the sampler output; and for every bucket `h` of
size `n` the dropped entry is exactly `remainder n (proj h order)` — the last
`|bucket| mod n` indices of that bucket in sampler order (nothing when `n` divides the count). -/
theorem C14_cover_drop (i2b b2s : Nat → Option Nat) (order : List Nat) (bs : List (List Nat))
    (h : iter i2b b2s true order = (bs, none)) :
    ∃ dropped : List (Nat × List Nat),
      iter i2b b2s false order = (bs ++ dropped.map Prod.snd, none) ∧
      (bs.flatten ++ (dropped.map Prod.snd).flatten).Perm order ∧
      (keys dropped).Pairwise (· < ·) ∧
      (∀ e ∈ dropped, e.2 ≠ []) ∧
      (∀ h n, b2s h = some n → 0 < n →
        pendOf dropped h = remainder n (proj i2b h order)) := by
  obtain ⟨s, hr, hbs⟩ := iter_ok h
  have inv : Inv i2b b2s order s := by simpa using run_inv (Inv.init i2b b2s) hr
  simp only [if_true] at hbs
  subst hbs
  refine ⟨sortKey s.pend, by simp [iter, hr, flush], ?_, sortKey_strict s.pend inv.nodup, ?_, ?_⟩
  · refine (List.Perm.append_left _ ?_).trans inv.cover
    exact ((sortKey_perm s.pend).map Prod.snd).flatten
  · intro e he
    obtain ⟨n, _, q2, _⟩ := inv.pend e.1 e.2 ((sortKey_perm s.pend).subset he)
    intro h0; simp [h0] at q2
  · intro h' n hn hpos
    have e0 : pendOf (sortKey s.pend) h' = pendOf s.pend h' := by
      unfold pendOf
      rw [dget_perm (sortKey_perm s.pend).symm inv.nodup h']
    obtain ⟨pre, e1, e2⟩ := inv.suffix h' n hn
    have hlt : (pendOf s.pend h').length < n := by
      unfold pendOf
      cases hg : dget s.pend h' with
      | none => simpa using hpos
      | some l =>
        obtain ⟨n', q1, _, q3, _⟩ := inv.pend h' l (dget_some_mem hg)
        rw [hn] at q1; cases q1
        simpa using q3
    rw [e0, e1, remainder_append hpos e2 hlt]

/-- **C14_len**: the length `_get_batch_sampler_len` predicts from the epoch's samples is the
number of batches the sampler yields over those samples. -/
theorem C14_len (i2b b2s : Nat → Option Nat) (drop : Bool) (order : List Nat)
    (bs : List (List Nat)) (h : iter i2b b2s drop order = (bs, none)) :
    samplerLen i2b b2s drop order = .ok bs.length := by
  obtain ⟨s, hr, hbs⟩ := iter_ok h
  obtain ⟨c, hc, inv⟩ := run_linv (LInv.init b2s) hr
  unfold samplerLen
  rw [hc]
  simp only []
  rw [sumCounts_ok b2s drop c inv.sizes]
  cases drop with
  | true =>
    simp only [if_true] at hbs
    subst hbs
    rw [inv.outLen]
    rfl
  | false =>
    simp only [Bool.false_eq_true, if_false] at hbs
    subst hbs
    rw [List.length_append, flush_length, inv.outLen, inv.pendLen, ← sumG_add]
    congr 1
    apply sumG_congr
    intro e he
    obtain ⟨n, hn, hpos⟩ := inv.sizes e he
    simp [perBucket, gDiv, gRem, szOf, hn, ceil_div hpos]

/-! ### the hypotheses are satisfiable: the docstring example of `BucketBatchSampler` -/

def exI2b : Nat → Option Nat := fun n => if n < 14 then some (if n % 3 = 0 then 1 else 0) else none
def exB2s : Nat → Option Nat := fun h => if h < 2 then some 2 else none

example : iter exI2b exB2s false (List.range 14)
    = ([[1, 2], [0, 3], [4, 5], [7, 8], [6, 9], [10, 11], [13], [12]], none) := by decide
example : iter exI2b exB2s true (List.range 14)
    = ([[1, 2], [0, 3], [4, 5], [7, 8], [6, 9], [10, 11]], none) := by decide
example : samplerLen exI2b exB2s false (List.range 14) = .ok 8 := by rfl
example : samplerLen exI2b exB2s true (List.range 14) = .ok 6 := by rfl
example : WellFormed exI2b exB2s (List.range 14) := by
  intro x hx
  have : x < 14 := by simpa using hx
  refine ⟨if x % 3 = 0 then 1 else 0, 2, by simp [exI2b, this], ?_, by omega⟩
  by_cases h3 : x % 3 = 0 <;> simp [exB2s, h3]
/-- Ill-formed maps end the iteration with the documented exception. -/
example : iter exI2b (fun _ => some 0) false [0, 1] = ([], some .size) := by decide
example : iter exI2b exB2s false [0, 20] = ([], some .key) := by decide

/-! ## collation -/

/-- **C14_collate (lang_seq_to_batch)**: there is an arrangement `s` of the input items
(the items themselves without sorting; a rearrangement with non-increasing lengths with
sorting) such that the reported sizes, the ids and the rows cut back to their sizes are the
lengths, ids and sequences of `s` position by position — so id `n` and size `n` belong to row
`n` — every cell beyond a row's size holds the pad value and all rows have one length. -/
theorem C14_collate_lang {β ι : Type} [DecidableEq β] (pad : β) (sort : Bool) (items : List (List β × ι)) :
    ∃ s : List (List β × ι),
      s.Perm items ∧ (sort = false → s = items) ∧
      (sort = true → s.Pairwise (fun a b => b.1.length ≤ a.1.length)) ∧
      (langCollate pad sort items).2.1 = s.map (·.1.length) ∧
      (langCollate pad sort items).2.2 = s.map (·.2) ∧
      cutBack (langCollate pad sort items).1 (langCollate pad sort items).2.1 = s.map (·.1) ∧
      List.zip (cutBack (langCollate pad sort items).1 (langCollate pad sort items).2.1)
        (langCollate pad sort items).2.2 = s ∧
      padCellsOk pad (langCollate pad sort items).1 (langCollate pad sort items).2.1 = true ∧
      (∀ r ∈ (langCollate pad sort items).1, r.length = maxLen (s.map (·.1))) := by
  refine ⟨if sort then sortDesc (fun it => it.1.length) items else items, ?_, ?_, ?_, ?_, ?_, ?_, ?_, ?_, ?_⟩
  · cases sort
    · simp
    · simpa using sortDesc_perm _ items
  · intro h; simp [h]
  · intro h; subst h; simpa using sortDesc_sorted (fun it : List β × ι => it.1.length) items
  · simp [langCollate]
  · simp [langCollate]
  · exact cutBack_padSequence_map pad (fun it : List β × ι => it.1) _
  · have := cutBack_padSequence_map pad (fun it : List β × ι => it.1)
      (if sort then sortDesc (fun it => it.1.length) items else items)
    simp only [langCollate] at this ⊢
    rw [this, List.zip_map']
    simp
  · exact padCellsOk_padSequence_map pad (fun it : List β × ι => it.1) _
  · intro r hr
    exact padSequence_row_length pad _ r (by simpa [langCollate] using hr)

example : langCollate (-100 : Int) true [([1], "a"), ([2, 3], "b"), ([4], "c")]
    = ([[2, 3], [1, -100], [4, -100]], [2, 1, 1], ["b", "a", "c"]) := by decide

/-- **C14_collate (spect_seq_to_batch)**: as `C14_collate_lang`, for every member of the batch
tuple. All members are laid out along the SAME arrangement `s` of the utterances (sorted by
feature length if asked), so row `n` of `feats`, `alis`, `refs`, entry `n` of both size
vectors and id `n` belong to one utterance; `alis` / `refs` are `None` exactly when some
utterance lacks one. -/
theorem C14_collate_spect {φ α ρ ι : Type} [DecidableEq φ] [DecidableEq α] [DecidableEq ρ]
    (padF : φ) (padA : α) (padR : ρ) (sort : Bool) (items : List (SpectItem φ α ρ ι)) :
    ∃ s : List (SpectItem φ α ρ ι),
      s.Perm items ∧ (sort = false → s = items) ∧
      (sort = true → s.Pairwise (fun a b => b.feat.length ≤ a.feat.length)) ∧
      (spectCollate padF padA padR sort items).featSizes = s.map (·.feat.length) ∧
      (spectCollate padF padA padR sort items).uttids = s.map (·.uttid) ∧
      cutBack (spectCollate padF padA padR sort items).feats
        (spectCollate padF padA padR sort items).featSizes = s.map (·.feat) ∧
      padCellsOk padF (spectCollate padF padA padR sort items).feats
        (spectCollate padF padA padR sort items).featSizes = true ∧
      (∀ a, (spectCollate padF padA padR sort items).alis = some a →
        ∃ al : List (List α), s.map (·.ali) = al.map some ∧
          cutBack a (al.map List.length) = al ∧ padCellsOk padA a (al.map List.length) = true) ∧
      ((spectCollate padF padA padR sort items).alis = none → ∃ it ∈ items, it.ali = none) ∧
      (∀ r, (spectCollate padF padA padR sort items).refs = some r →
        ∃ rl : List (List ρ), s.map (·.ref) = rl.map some ∧
          (spectCollate padF padA padR sort items).refSizes = some (rl.map List.length) ∧
          cutBack r (rl.map List.length) = rl ∧ padCellsOk padR r (rl.map List.length) = true) ∧
      ((spectCollate padF padA padR sort items).refs = none →
        (spectCollate padF padA padR sort items).refSizes = none ∧ ∃ it ∈ items, it.ref = none) := by
  have hperm : (if sort then sortDesc (fun it : SpectItem φ α ρ ι => it.feat.length) items else items).Perm items := by
    cases sort
    · simp
    · simpa using sortDesc_perm _ items
  refine ⟨if sort then sortDesc (fun it => it.feat.length) items else items, hperm, ?_, ?_, ?_, ?_, ?_, ?_, ?_, ?_, ?_, ?_⟩
  · intro h; simp [h]
  · intro h; subst h
    simpa using sortDesc_sorted (fun it : SpectItem φ α ρ ι => it.feat.length) items
  · simp [spectCollate]
  · simp [spectCollate]
  · exact cutBack_padSequence_map padF (fun it : SpectItem φ α ρ ι => it.feat) _
  · exact padCellsOk_padSequence_map padF (fun it : SpectItem φ α ρ ι => it.feat) _
  · intro a ha
    simp only [spectCollate, Option.map_eq_some_iff] at ha
    obtain ⟨al, h1, rfl⟩ := ha
    exact ⟨al, allSome_eq_some h1, cutBack_padSequence padA al, padCellsOk_padSequence padA al⟩
  · intro ha
    simp only [spectCollate, Option.map_eq_none_iff] at ha
    obtain ⟨it, hit, hn⟩ := List.mem_map.1 (allSome_eq_none ha)
    exact ⟨it, hperm.subset hit, hn⟩
  · intro r hr
    simp only [spectCollate, Option.map_eq_some_iff] at hr
    obtain ⟨rl, h1, rfl⟩ := hr
    refine ⟨rl, allSome_eq_some h1, ?_, cutBack_padSequence padR rl, padCellsOk_padSequence padR rl⟩
    simp [spectCollate, h1]
  · intro hr
    simp only [spectCollate, Option.map_eq_none_iff] at hr
    obtain ⟨it, hit, hn⟩ := List.mem_map.1 (allSome_eq_none hr)
    exact ⟨by simp [spectCollate, hr], it, hperm.subset hit, hn⟩

example :
    let b := spectCollate (0 : Int) (-100 : Int) (-100 : Int) true
      [⟨[1], some [7], some [5, 6], "a"⟩, ⟨[2, 3], some [8, 9], some [4], "b"⟩]
    b.feats = [[2, 3], [1, 0]] ∧ b.alis = some [[8, 9], [7, -100]] ∧ b.refs = some [[4, -100], [5, 6]]
      ∧ b.featSizes = [2, 1] ∧ b.refSizes = some [1, 2] ∧ b.uttids = ["b", "a"] := by decide

theorem map_length_of_map_some {σ κ : Type} (f : σ → Option (List κ)) (g : σ → Nat) :
    ∀ (s : List σ) (al : List (List κ)), s.map f = al.map some →
      (∀ it ∈ s, ∀ x, f it = some x → x.length = g it) → al.map List.length = s.map g := by
  intro s
  induction s with
  | nil => intro al h _; cases al <;> simp_all
  | cons it s ih =>
    intro al h hl
    cases al with
    | nil => simp at h
    | cons a al =>
      simp only [List.map_cons, List.cons.injEq] at h ⊢
      exact ⟨hl it (by simp) a h.1, ih al h.2 (fun it' hi => hl it' (by simp [hi]))⟩

/-- **C14_collate_spect_reported** (audit): `spect_seq_to_batch` reports NO size vector for `alis`; the size a
reader has for them is `feat_sizes`. `C14_collate_spect` cuts `alis` back to the alignments' own lengths (which
the batch does not contain). For a data set in which every alignment is as long as its feature matrix (what
`validate_spect_data_set` demands) the reported `feat_sizes` do the job: `alis` cut back to `feat_sizes` are the
utterances' alignments along the same arrangement `s` as the ids, and every cell beyond holds the pad value. -/
theorem C14_collate_spect_reported {φ α ρ ι : Type} [DecidableEq φ] [DecidableEq α] [DecidableEq ρ]
    (padF : φ) (padA : α) (padR : ρ) (sort : Bool) (items : List (SpectItem φ α ρ ι))
    (hali : ∀ it ∈ items, ∀ x, it.ali = some x → x.length = it.feat.length)
    (a : List (List α)) (ha : (spectCollate padF padA padR sort items).alis = some a) :
    ∃ s : List (SpectItem φ α ρ ι), s.Perm items ∧
      (spectCollate padF padA padR sort items).uttids = s.map (·.uttid) ∧
      (cutBack a (spectCollate padF padA padR sort items).featSizes).map some = s.map (·.ali) ∧
      padCellsOk padA a (spectCollate padF padA padR sort items).featSizes = true := by
  obtain ⟨s, hperm, _, _, hfs, hid, _, _, hal, _⟩ := C14_collate_spect padF padA padR sort items
  obtain ⟨al, h1, h2, h3⟩ := hal a ha
  have hlen : al.map List.length = s.map (·.feat.length) :=
    map_length_of_map_some (fun it : SpectItem φ α ρ ι => it.ali) (fun it => it.feat.length) s al h1
      (fun it hi x hx => hali it (hperm.subset hi) x hx)
  refine ⟨s, hperm, hid, ?_, ?_⟩
  · rw [hfs, ← hlen, h2, h1]
  · rw [hfs, ← hlen]; exact h3

/-- Non-vacuity: two utterances, alignments as long as the features, sorted. -/
example : ∃ s : List (SpectItem Int Int Int String), s.Perm [⟨[1], some [7], none, "a"⟩, ⟨[2, 3], some [8, 9], some [4], "b"⟩] ∧
    (spectCollate (0 : Int) (-100 : Int) (-100 : Int) true
      [⟨[1], some [7], none, "a"⟩, ⟨[2, 3], some [8, 9], some [4], "b"⟩]).uttids = s.map (·.uttid) ∧
    (cutBack [[8, 9], [7, -100]] (spectCollate (0 : Int) (-100 : Int) (-100 : Int) true
      [⟨[1], some [7], none, "a"⟩, ⟨[2, 3], some [8, 9], some [4], "b"⟩]).featSizes).map some = s.map (·.ali) ∧
    padCellsOk (-100 : Int) [[8, 9], [7, -100]] (spectCollate (0 : Int) (-100 : Int) (-100 : Int) true
      [⟨[1], some [7], none, "a"⟩, ⟨[2, 3], some [8, 9], some [4], "b"⟩]).featSizes = true :=
  C14_collate_spect_reported 0 (-100) (-100) true _ (by
    intro it hit x hx
    simp only [List.mem_cons, List.not_mem_nil, or_false] at hit
    rcases hit with rfl | rfl <;> simp at hx <;> subst hx <;> rfl) _ (by decide)

/-- **C14_collate (context_window_seq_to_batch)**: splitting the concatenated windows (and
alignments) by the reported sizes returns every utterance's windows, ids in order. -/
theorem C14_collate_cw {ω α ι : Type} (items : List (List ω × Option (List α) × ι)) :
    (cwCollate items).2.2.1 = items.map (·.1.length) ∧
    (cwCollate items).2.2.2 = items.map (·.2.2) ∧
    splitBySizes (cwCollate items).2.2.1 (cwCollate items).1 = items.map (·.1) ∧
    (∀ a, (cwCollate items).2.1 = some a → ∃ al : List (List α),
      items.map (·.2.1) = al.map some ∧ splitBySizes (al.map List.length) a = al) ∧
    ((cwCollate items).2.1 = none → ∃ it ∈ items, it.2.1 = none) := by
  refine ⟨rfl, rfl, ?_, ?_, ?_⟩
  · have := splitBySizes_flatten (items.map (·.1))
    rw [List.map_map] at this
    exact this
  · intro a ha
    simp only [cwCollate, Option.map_eq_some_iff] at ha
    obtain ⟨al, h1, rfl⟩ := ha
    exact ⟨al, allSome_eq_some h1, splitBySizes_flatten al⟩
  · intro ha
    simp only [cwCollate, Option.map_eq_none_iff] at ha
    obtain ⟨it, hit, hn⟩ := List.mem_map.1 (allSome_eq_none ha)
    exact ⟨it, hit, hn⟩

/-! ## collation: the optional sort is THE stable descending sort; the time-first layout -/

/-- **C14_sort_stable**: Python's `sorted(seq, key=len, reverse=True)` as modelled (`sortDesc`)
meets the specification of a stable descending sort - non-increasing keys, every class of equal
keys in its input order - and is the ONLY list that does. -/
theorem C14_sort_stable {α : Type} (key : α → Nat) (l : List α) :
    IsStableDescSort key l (sortDesc key l) ∧
    ∀ s, IsStableDescSort key l s → s = sortDesc key l :=
  ⟨sortDesc_isStable key l, stableDescSort_unique key l⟩

/-- **C14_collate_lang_stable**: with `sort=True` the (sequence, id) pairs read off the batch -
row `n` cut to `ref_sizes[n]`, paired with `uttids[n]` - are the stable descending sort of the
input by length: ties keep the order they had in `seq`, and no other arrangement qualifies. -/
theorem C14_collate_lang_stable {β ι : Type} (pad : β) (items : List (List β × ι)) :
    let out := langCollate pad true items
    let s := List.zip (cutBack out.1 out.2.1) out.2.2
    IsStableDescSort (fun it : List β × ι => it.1.length) items s ∧
    ∀ s', IsStableDescSort (fun it : List β × ι => it.1.length) items s' → s' = s := by
  intro out s
  have hs : s = sortDesc (fun it : List β × ι => it.1.length) items := by
    have := cutBack_padSequence_map pad (fun it : List β × ι => it.1)
      (sortDesc (fun it => it.1.length) items)
    show List.zip (cutBack (langCollate pad true items).1 (langCollate pad true items).2.1)
      (langCollate pad true items).2.2 = _
    simp only [langCollate, if_true] at this ⊢
    rw [this, List.zip_map']
    simp
  rw [hs]
  exact C14_sort_stable _ items

/-- **C14_collate_spect_stable**: with `sort=True` every member of the batch follows ONE
arrangement `s` of the utterances, and `s` is the stable descending sort by feature length (the
only list meeting that specification): sizes, ids, feature rows cut to their sizes, and - where
present - alignment and reference rows cut to their sizes are those of `s`, position by position. -/
theorem C14_collate_spect_stable {φ α ρ ι : Type} (padF : φ) (padA : α) (padR : ρ)
    (items : List (SpectItem φ α ρ ι)) :
    ∃ s : List (SpectItem φ α ρ ι),
      IsStableDescSort (fun it : SpectItem φ α ρ ι => it.feat.length) items s ∧
      (∀ s', IsStableDescSort (fun it : SpectItem φ α ρ ι => it.feat.length) items s' → s' = s) ∧
      (spectCollate padF padA padR true items).featSizes = s.map (·.feat.length) ∧
      (spectCollate padF padA padR true items).uttids = s.map (·.uttid) ∧
      cutBack (spectCollate padF padA padR true items).feats
        (spectCollate padF padA padR true items).featSizes = s.map (·.feat) ∧
      (∀ a, (spectCollate padF padA padR true items).alis = some a →
        ∃ al : List (List α), s.map (·.ali) = al.map some ∧ cutBack a (al.map List.length) = al) ∧
      (∀ r, (spectCollate padF padA padR true items).refs = some r →
        ∃ rl : List (List ρ), s.map (·.ref) = rl.map some ∧ cutBack r (rl.map List.length) = rl) := by
  refine ⟨sortDesc (fun it => it.feat.length) items, (C14_sort_stable _ items).1,
    (C14_sort_stable _ items).2, ?_, ?_, ?_, ?_, ?_⟩
  · simp [spectCollate]
  · simp [spectCollate]
  · exact cutBack_padSequence_map padF (fun it : SpectItem φ α ρ ι => it.feat) _
  · intro a ha
    simp only [spectCollate, if_true, Option.map_eq_some_iff] at ha
    obtain ⟨al, h1, rfl⟩ := ha
    exact ⟨al, allSome_eq_some h1, cutBack_padSequence padA al⟩
  · intro r hr
    simp only [spectCollate, if_true, Option.map_eq_some_iff] at hr
    obtain ⟨rl, h1, rfl⟩ := hr
    exact ⟨rl, allSome_eq_some h1, cutBack_padSequence padR rl⟩

/-- ties keep their input order: "a" before "c" -/
example : (langCollate (-100 : Int) true [([1], "a"), ([2, 3], "b"), ([4], "c")]).2.2
    = ["b", "a", "c"] := by decide
example : IsStableDescSort (fun it : List Nat × String => it.1.length)
    [([1], "a"), ([2, 3], "b"), ([4], "c")] [([2, 3], "b"), ([1], "a"), ([4], "c")] := by
  refine ⟨by decide, ?_⟩
  intro k
  match k with
  | 0 => decide
  | 1 => decide
  | 2 => decide
  | k + 3 => simp

/-- **C14_collate_lang_tf**: `lang_seq_to_batch(.., batch_first=False)` reports the same sizes and
ids as the batch-first call, its `refs` has `max_n R_n` time steps of `N` cells each, and read
entry by entry (`columns`) it IS the batch-first `refs` - so every statement of
`C14_collate_lang` / `C14_collate_lang_stable` holds of the columns of the time-first batch. -/
theorem C14_collate_lang_tf {β ι : Type} (pad : β) (sort : Bool) (items : List (List β × ι)) :
    (langCollateTF pad sort items).2 = (langCollate pad sort items).2 ∧
    columns items.length (langCollateTF pad sort items).1 = (langCollate pad sort items).1 ∧
    (∀ row ∈ (langCollateTF pad sort items).1, row.length = items.length) ∧
    (langCollateTF pad sort items).1.length
      = maxLen ((if sort then sortDesc (fun it => it.1.length) items else items).map (·.1)) := by
  have hlen : ((if sort then sortDesc (fun it : List β × ι => it.1.length) items else items).map
      (·.1)).length = items.length := by
    cases sort
    · simp
    · simpa using (sortDesc_perm (fun it : List β × ι => it.1.length) items).length_eq
  refine ⟨rfl, ?_, ?_, ?_⟩
  · show columns items.length (padSequenceTF pad _) = padSequence pad _
    rw [← hlen]
    exact columns_padSequenceTF pad _
  · intro row hr
    rw [← hlen]
    exact (padSequenceTF_shape pad _).2 row hr
  · exact (padSequenceTF_shape pad _).1

/-- Cut-back and padding statements directly on the time-first layout. -/
theorem C14_collate_lang_tf_lossless {β ι : Type} [DecidableEq β] (pad : β) (sort : Bool)
    (items : List (List β × ι)) :
    ∃ s : List (List β × ι),
      s.Perm items ∧ (sort = false → s = items) ∧
      (sort = true → IsStableDescSort (fun it : List β × ι => it.1.length) items s) ∧
      (langCollateTF pad sort items).2.1 = s.map (·.1.length) ∧
      (langCollateTF pad sort items).2.2 = s.map (·.2) ∧
      cutBack (columns items.length (langCollateTF pad sort items).1)
        (langCollateTF pad sort items).2.1 = s.map (·.1) ∧
      padCellsOk pad (columns items.length (langCollateTF pad sort items).1)
        (langCollateTF pad sort items).2.1 = true := by
  obtain ⟨h2, hc, _, _⟩ := C14_collate_lang_tf pad sort items
  rw [hc, h2]
  refine ⟨if sort then sortDesc (fun it => it.1.length) items else items, ?_, ?_, ?_, ?_, ?_, ?_, ?_⟩
  · cases sort
    · simp
    · simpa using sortDesc_perm _ items
  · intro h; simp [h]
  · intro h; subst h; simpa using sortDesc_isStable (fun it : List β × ι => it.1.length) items
  · simp [langCollate]
  · simp [langCollate]
  · exact cutBack_padSequence_map pad (fun it : List β × ι => it.1) _
  · exact padCellsOk_padSequence_map pad (fun it : List β × ι => it.1) _

example : langCollateTF (-100 : Int) true [([1], "a"), ([2, 3], "b"), ([4], "c")]
    = ([[2, 1, 4], [3, -100, -100]], [2, 1, 1], ["b", "a", "c"]) := by decide
example : columns 3 [[2, 1, 4], [3, -100, -100]] = [[2, 3], [1, -100], [4, -100]] := by decide

/-- **C14_collate_spect_tf**: `spect_seq_to_batch(.., batch_first=False)` reports the same sizes
and ids as the batch-first call and each padded member (`feats`, `alis`, `refs`), read entry by
entry, is the batch-first member; `alis` / `refs` are `None` in one layout iff in the other. -/
theorem C14_collate_spect_tf {φ α ρ ι : Type} (padF : φ) (padA : α) (padR : ρ) (sort : Bool)
    (items : List (SpectItem φ α ρ ι)) :
    let tf := spectCollateTF padF padA padR sort items
    let bf := spectCollate padF padA padR sort items
    tf.featSizes = bf.featSizes ∧ tf.refSizes = bf.refSizes ∧ tf.uttids = bf.uttids ∧
    columns items.length tf.feats = bf.feats ∧
    tf.alis.map (columns items.length) = bf.alis ∧
    tf.refs.map (columns items.length) = bf.refs ∧
    (∀ row ∈ tf.feats, row.length = items.length) := by
  intro tf bf
  have hlen : (if sort then sortDesc (fun it : SpectItem φ α ρ ι => it.feat.length) items
      else items).length = items.length := by
    cases sort
    · simp
    · simpa using (sortDesc_perm (fun it : SpectItem φ α ρ ι => it.feat.length) items).length_eq
  have hopt : ∀ {γ κ : Type} (pad : κ) (f : SpectItem φ α ρ ι → Option (List κ))
      (l : List (SpectItem φ α ρ ι)),
      ((allSome (l.map f)).map (padSequenceTF pad)).map (columns l.length)
        = (allSome (l.map f)).map (padSequence pad) := by
    intro γ κ pad f l
    cases h : allSome (l.map f) with
    | none => rfl
    | some v =>
      have hv : v.length = l.length := by
        have := congrArg List.length (allSome_eq_some h)
        simpa using this.symm
      simp only [Option.map_some]
      rw [← hv, columns_padSequenceTF]
  refine ⟨rfl, rfl, rfl, ?_, ?_, ?_, ?_⟩
  · show columns items.length (padSequenceTF padF _) = padSequence padF _
    have := columns_padSequenceTF padF
      ((if sort then sortDesc (fun it : SpectItem φ α ρ ι => it.feat.length) items else items).map (·.feat))
    rw [List.length_map, hlen] at this
    exact this
  · have := @hopt Unit α padA (·.ali)
      (if sort then sortDesc (fun it : SpectItem φ α ρ ι => it.feat.length) items else items)
    rw [hlen] at this
    exact this
  · have := @hopt Unit ρ padR (·.ref)
      (if sort then sortDesc (fun it : SpectItem φ α ρ ι => it.feat.length) items else items)
    rw [hlen] at this
    exact this
  · intro row hr
    have hr' : row ∈ padSequenceTF padF
        ((if sort then sortDesc (fun it : SpectItem φ α ρ ι => it.feat.length) items else items).map
          (fun it => it.feat)) := hr
    have := (padSequenceTF_shape padF _).2 row hr'
    rw [List.length_map, hlen] at this
    exact this

/-! ## context windows -/

/-- Every window index is a valid frame. -/
theorem clampIdx_lt {T frame left i : Nat} (hf : frame < T) : clampIdx T frame left i < T := by
  unfold clampIdx; omega

/-- **C14_window**: for every feature matrix, centre frame `0 ≤ frame < T`, context sizes and
flip flag, `extract_window` returns `feat[clamp(frame - left + i, 0, T - 1)]`, `i = 0..left+right`
(reversed if asked). -/
theorem C14_window {α : Type} (dflt : α) (feat : List α) (frame left right : Nat) (reverse : Bool)
    (hf : frame < feat.length) :
    extractWindow dflt feat frame left right reverse = window dflt feat frame left right reverse := by
  rw [extractWindow_eq]
  simp only [window, window_core dflt feat frame left right hf]

/-- Cell-wise form, without the place-holder `dflt` (it is never read inside the domain). -/
theorem C14_window_cells {α : Type} (dflt : α) (feat : List α) (frame left right : Nat)
    (hf : frame < feat.length) (i : Nat) (hi : i < left + right + 1) :
    (extractWindow dflt feat frame left right false)[i]?
        = some (feat[clampIdx feat.length frame left i]'(clampIdx_lt hf)) ∧
    (extractWindow dflt feat frame left right true)[i]?
        = some (feat[clampIdx feat.length frame left (left + right - i)]'(clampIdx_lt hf)) := by
  have hget : ∀ j, (feat[clampIdx feat.length frame left j]?).getD dflt
      = feat[clampIdx feat.length frame left j]'(clampIdx_lt hf) := by
    intro j
    rw [List.getElem?_eq_getElem (clampIdx_lt hf)]
    rfl
  constructor
  · rw [C14_window dflt feat frame left right false hf]
    simp [window, hi, hget]
  · rw [C14_window dflt feat frame left right true hf]
    simp only [window, if_true]
    rw [List.getElem?_reverse (by simpa using hi)]
    have : left + right - i < left + right + 1 := by omega
    simp [this, hget]

example : extractWindow 0 [10, 20, 30] 0 2 1 false = [10, 10, 10, 20] := by decide
example : extractWindow 0 [10, 20, 30] 2 1 2 true = [30, 30, 30, 20] := by decide
example : window 0 [10, 20, 30] 2 1 2 true = [30, 30, 30, 20] := by decide


/-! ## length classes -/

/-- **C14_pure**: for every non-empty data set, bucket count, batch size and sizing flag, if
`_get_bucket_batch_sampler_params` returns: the bounds are strictly increasing; utterance `i`
of length `l` is put in the bucket `j` with `bound_{j-1} < l ≤ bound_j` (so no batch mixes
utterances of different length classes); every bucket has a size, at least `batch_size`; and
with `size_batch_by_length` the size of bucket `j` is the greatest `x` with
`x · bound_j ≤ Y · batch_size`, `Y` the longest length. -/
theorem C14_pure (lens : List Nat) (nb B : Nat) (dynamic : Bool) (p : BucketParams)
    (h : bucketParams lens nb B dynamic = .ok p) (hN : lens ≠ []) :
    p.bounds.Pairwise (· < ·) ∧
    (∀ (i l : Nat), lens[i]? = some l → ∃ j : Nat, p.idx2bucket[i]? = some j ∧ j < p.bounds.length ∧
        (∀ b : Nat, p.bounds[j]? = some b → l ≤ b) ∧
        (∀ (k b : Nat), k < j → p.bounds[k]? = some b → b < l)) ∧
    p.sizes.length = p.bounds.length ∧
    (∀ (j n : Nat), p.sizes[j]? = some n → B ≤ n) ∧
    (dynamic = true → ∃ Y, (∀ l ∈ lens, l ≤ Y) ∧ p.bounds.getLast? = some Y ∧
      ∀ (j n y : Nat), p.sizes[j]? = some n → p.bounds[j]? = some y →
        n * y ≤ Y * B ∧ Y * B < (n + 1) * y) := by
  obtain ⟨⟨hstrict, M, hM, hub⟩, hi2b, hstat, hdyn⟩ := bucketParams_good h hN
  have hle : ∀ b ∈ p.bounds, b ≤ M :=
    le_getLast_of_sorted (hstrict.imp (fun h => Nat.le_of_lt h)) hM
  have hlastD : p.bounds.getLastD 0 = M := by
    rw [List.getLastD_eq_getLast?, hM]; rfl
  refine ⟨hstrict, ?_, ?_, ?_, ?_⟩
  · intro i l hl
    refine ⟨bucketOfLen p.bounds l, by simp [hi2b, hl], ?_⟩
    exact bucket_interval p.bounds hstrict l ⟨M, hM, hub l (List.mem_of_getElem? hl)⟩
  · cases dynamic with
    | false => simp [hstat rfl]
    | true => simp [(hdyn rfl).2]
  · intro j n hn
    cases dynamic with
    | false =>
      rw [hstat rfl, List.getElem?_map] at hn
      cases hb : p.bounds[j]? with
      | none => simp [hb] at hn
      | some b => simp [hb] at hn; omega
    | true =>
      obtain ⟨hpos, hsz⟩ := hdyn rfl
      rw [hsz, List.getElem?_map] at hn
      cases hb : p.bounds[j]? with
      | none => simp [hb] at hn
      | some b =>
        simp only [hb, Option.map_some, Option.some.injEq] at hn
        have hbm := List.mem_of_getElem? hb
        rw [← hn, hlastD]
        exact (dyn_size (hpos b hbm) (hle b hbm)).1
  · intro hd
    subst hd
    obtain ⟨hpos, hsz⟩ := hdyn rfl
    refine ⟨M, hub, hM, ?_⟩
    intro j n y hn hy
    rw [hsz, List.getElem?_map, hy] at hn
    simp only [Option.map_some, Option.some.injEq] at hn
    have hbm := List.mem_of_getElem? hy
    rw [← hn, hlastD]
    exact (dyn_size (hpos y hbm) (hle y hbm)).2

example : bucketParams [3, 1, 4, 1, 5, 9, 2] 2 2 true = .ok ⟨[2, 9], [1, 0, 1, 0, 1, 1, 0], [9, 2]⟩ := by
  rfl
/-- ties at a boundary collapse buckets (`sorted(set(..))`) -/
example : bucketParams [2, 2, 2, 5] 3 1 false = .ok ⟨[2, 5], [0, 0, 0, 1], [1, 1]⟩ := by rfl

/-! ## loaders: reported length = number of batches of the epoch -/

/-- **C14_loader_len**: for every data set, bucket count (`nb = 1`: torch's `BatchSampler`;
`nb > 1`: length buckets), batch size `B ≥ 1`, sizing flag, `drop_last` and epoch order: if the
epoch's iteration ends without an exception, the value `len(loader)` computes while the sampler
stands at that epoch is the number of batches the epoch yields. -/
theorem C14_loader_len (lens : List Nat) (nb B : Nat) (dynamic drop : Bool) (order : List Nat)
    (bs : List (List Nat)) (hB : 0 < B)
    (h : loaderBatches lens nb B dynamic drop order = .ok (bs, none)) :
    loaderLen lens nb B dynamic drop order = .ok bs.length := by
  unfold loaderBatches at h
  unfold loaderLen
  by_cases hnb : nb > 1
  · simp only [hnb, if_true] at h ⊢
    cases hp : bucketParams lens nb B dynamic with
    | error e => simp [hp] at h
    | ok p =>
      simp only [hp] at h ⊢
      have h' : iter (fun i => p.idx2bucket[i]?) (fun h => p.sizes[h]?) drop order = (bs, none) :=
        Except.ok.inj h
      exact C14_len _ _ drop order bs h'
  · simp only [hnb, if_false] at h ⊢
    have : bs = plainIter B drop order := (congrArg Prod.fst (Except.ok.inj h)).symm
    rw [this, plain_len hB]

example : loaderBatches [3, 1, 4, 1, 5, 9, 2] 2 2 false false [0, 1, 2, 3, 4, 5, 6]
    = .ok ([[0, 2], [1, 3], [4, 5], [6]], none) := by rfl
example : loaderLen [3, 1, 4, 1, 5, 9, 2] 2 2 false false [0, 1, 2, 3, 4, 5, 6] = .ok 4 := by rfl
example : loaderBatches [3, 1, 4, 1, 5, 9, 2] 1 3 false true [6, 5, 4, 3, 2, 1, 0]
    = .ok ([[6, 5, 4], [3, 2, 1]], none) := by rfl

/-- **C14_loader_ok** (audit; non-vacuity of every loader-level hypothesis `… = .ok (bs, none)`): with length
buckets, a non-empty data set, `batch_size ≥ 1` and bucket parameters that could be computed (no zero-length bound
under dynamic sizing), the pass over ANY order of valid data-set indices ends without an exception: the maps
`_get_bucket_batch_sampler_params` returns are well-formed for the sampler (`C14_pure` feeds `C14_wellformed_ok`). -/
theorem C14_loader_ok (lens : List Nat) (nb B : Nat) (dynamic drop : Bool) (order : List Nat)
    (p : BucketParams) (hB : 0 < B) (hN : lens ≠ []) (hnb : nb > 1)
    (hp : bucketParams lens nb B dynamic = .ok p) (hord : ∀ x ∈ order, x < lens.length) :
    ∃ bs, loaderBatches lens nb B dynamic drop order = .ok (bs, none) := by
  obtain ⟨_, hi2b, hsz, hge, _⟩ := C14_pure lens nb B dynamic p hp hN
  have wf : WellFormed (fun i => p.idx2bucket[i]?) (fun h => p.sizes[h]?) order := by
    intro x hx
    have hlt := hord x hx
    obtain ⟨j, hj, hjlt, _, _⟩ := hi2b x lens[x] (List.getElem?_eq_getElem hlt)
    have hjs : j < p.sizes.length := by rw [hsz]; exact hjlt
    refine ⟨j, p.sizes[j], hj, List.getElem?_eq_getElem hjs, ?_⟩
    have := hge j p.sizes[j] (List.getElem?_eq_getElem hjs)
    omega
  obtain ⟨bs, hbs⟩ := C14_wellformed_ok _ _ drop order wf
  exact ⟨bs, by simp [loaderBatches, hnb, hp, hbs]⟩

example : ∃ bs, loaderBatches [3, 1, 4, 1, 5, 9, 2] 2 2 true false [6, 0, 5, 5, 1] = .ok (bs, none) :=
  C14_loader_ok _ _ _ _ _ _ ⟨[2, 9], [1, 0, 1, 0, 1, 1, 0], [9, 2]⟩ (by decide) (by simp) (by decide) rfl (by decide)

/-! ### no batch is empty (audit E: the guard under which the collation theorems speak about the code)

`lang_seq_to_batch`, `spect_seq_to_batch`, `context_window_seq_to_batch` RAISE on an empty batch
(`zip(*seq)` cannot be unpacked / `pad_sequence` refuses an empty list); the models `langCollate`,
`spectCollate`, `cwCollate` are total there (they return an empty batch), so for `items = []` the
collation theorems are true of the model only. The two theorems below show that this input never
arises from a loader: every batch a batch sampler yields holds at least one index. -/

theorem chunksAux_ne_nil {α} {n : Nat} (hn : 0 < n) : ∀ (fuel : Nat) (l : List α),
    ∀ b ∈ chunksAux n fuel l, b ≠ [] := by
  intro fuel
  induction fuel with
  | zero => intro l b hb; simp [chunksAux] at hb
  | succ fuel ih =>
    intro l b hb
    unfold chunksAux at hb
    cases l with
    | nil => simp at hb
    | cons x xs =>
      simp only [List.isEmpty_cons, Bool.false_eq_true, if_false, List.mem_cons] at hb
      rcases hb with rfl | hb
      · obtain ⟨m, rfl⟩ : ∃ m, n = m + 1 := ⟨n - 1, by omega⟩
        simp
      · exact ih _ b hb

/-- **C14_batches_nonempty**: a `BucketBatchSampler` pass that ends without an exception yields no
empty batch - full batches have the (positive) size of their bucket, the flushed ones are the
non-empty pending lists. -/
theorem C14_batches_nonempty (i2b b2s : Nat → Option Nat) (drop : Bool) (order : List Nat)
    (bs : List (List Nat)) (h : iter i2b b2s drop order = (bs, none)) : ∀ b ∈ bs, b ≠ [] := by
  obtain ⟨s, hr, hbs⟩ := iter_ok h
  have inv : Inv i2b b2s order s := by simpa using run_inv (Inv.init i2b b2s) hr
  have hout : ∀ b ∈ s.out, b ≠ [] := by
    intro b hb h0
    obtain ⟨_, n, _, q2, q3, _⟩ := inv.full b hb
    rw [h0] at q2
    simp at q2
    omega
  intro b hb
  cases drop with
  | true =>
    simp only [if_true] at hbs
    exact hout b (hbs ▸ hb)
  | false =>
    simp only [Bool.false_eq_true, if_false] at hbs
    rw [hbs, List.mem_append] at hb
    rcases hb with hb | hb
    · exact hout b hb
    · unfold flush at hb
      obtain ⟨e, he, rfl⟩ := List.mem_map.1 hb
      obtain ⟨n, _, q2, _⟩ := inv.pend e.1 e.2 ((sortKey_perm s.pend).subset he)
      intro h0
      simp [h0] at q2

/-- **C14_loader_batches_nonempty**: no batch of a loader's epoch is empty (length buckets or torch's
`BatchSampler`, `batch_size ≥ 1`), so `collate_fn` is never called on an empty list - the one input
on which the collation models are total and the code is not. -/
theorem C14_loader_batches_nonempty (lens : List Nat) (nb B : Nat) (dynamic drop : Bool)
    (order : List Nat) (bs : List (List Nat)) (hB : 0 < B)
    (h : loaderBatches lens nb B dynamic drop order = .ok (bs, none)) : ∀ b ∈ bs, b ≠ [] := by
  unfold loaderBatches at h
  by_cases hnb : nb > 1
  · simp only [hnb, if_true] at h
    cases hp : bucketParams lens nb B dynamic with
    | error e => simp [hp] at h
    | ok p =>
      simp only [hp] at h
      exact C14_batches_nonempty _ _ drop order bs (Except.ok.inj h)
  · simp only [hnb, if_false] at h
    have hb : bs = plainIter B drop order := (congrArg Prod.fst (Except.ok.inj h)).symm
    intro b hmem
    rw [hb] at hmem
    have hc : b ∈ chunks B order := by
      unfold plainIter at hmem
      cases drop with
      | true => simp only [if_true] at hmem; exact (List.mem_filter.1 hmem).1
      | false => simpa using hmem
    exact chunksAux_ne_nil hB _ _ b hc

/-- all hypotheses together, both paths (a trailing short batch in each) -/
example := C14_loader_batches_nonempty [3, 1, 4, 1, 5, 9, 2] 2 2 false false [0, 1, 2, 3, 4, 5, 6]
  [[0, 2], [1, 3], [4, 5], [6]] (by decide) (by rfl)
example := C14_loader_batches_nonempty [3, 1, 4, 1, 5, 9, 2] 1 3 false false [6, 5, 4, 3, 2, 1, 0]
  [[6, 5, 4], [3, 2, 1], [0]] (by decide) (by rfl)
/-- the totalised input: the model collates an empty batch, the code raises `ValueError` / `RuntimeError` -/
example : langCollate (-100 : Int) true ([] : List (List Int × String)) = ([], [], []) := by rfl

/-! ## loaders: identical (seed, epoch) ⇒ identical batches; which epoch `len(loader)` refers to

The loader object (`Loader`, in `Model/Batching.lean`) holds its constructor arguments and C13's
sampler object; `serve` = one full `for batch in loader`, `setEpoch e` = `loader.epoch = e`,
`exec` = any sequence of the two. The ordering source is `perm : epoch ↦ ordering`; for a shuffled
loader `perm = src seed` with `src seed epoch = RandomState((seed, epoch)).permutation(N)`, so
"depends on `perm e` only" reads "depends on (seed, epoch) only". -/

/-- What a pass over an epoch with whole-data-set ordering `ordering` delivers: a function of the
constructor arguments and that ordering alone. -/
def epochBatches (cfg : LoaderCfg) (sc : EpochSampler.Config) (ordering : List Nat) :
    Except Err (List (List Nat) × Option Err) :=
  loaderBatches cfg.lens cfg.nb cfg.B cfg.dynamic cfg.drop (EpochSampler.samples sc ordering)

/-- One pass: the batches are `epochBatches` of the CURRENT epoch's ordering (C13_history: what the
sampler yields is `samples cfg (perm epoch)`), and the epoch counter moves on by one. -/
theorem Loader.serve_spec (perm : Nat → List Nat) (l : Loader) :
    (l.serve perm).1 = epochBatches l.cfg l.sampler.cfg (perm l.epoch) ∧
    (l.serve perm).2 = l.setEpoch (l.epoch + 1) := by
  have h := (EpochSampler.C13_history perm l.sampler.cfg l.sampler.epoch 0).2
  simp only [Nat.add_zero] at h
  refine ⟨?_, rfl⟩
  show loaderBatches _ _ _ _ _ (EpochSampler.iter perm l.sampler).1 = _
  have e : l.sampler = ⟨l.sampler.cfg, l.sampler.epoch⟩ := rfl
  rw [e, h]
  rfl

/-- No operation touches the constructor arguments or the sampler's configuration. -/
theorem Loader.exec_fixed (perm : Nat → List Nat) : ∀ (ops : List Op) (l : Loader),
    (Loader.exec perm ops l).2.cfg = l.cfg ∧ (Loader.exec perm ops l).2.sampler.cfg = l.sampler.cfg := by
  intro ops
  induction ops with
  | nil => intro l; exact ⟨rfl, rfl⟩
  | cons op ops ih =>
    intro l
    cases op with
    | serve => exact ih (l.serve perm).2
    | setEpoch e => exact ih (l.setEpoch e)

/-- **C14_seed_epoch**: take two loader objects built from the same arguments (same data, same
parameters, same place in the process group, same ordering source = same seed), started at ANY two
epochs and put through ANY two histories of passes and `loader.epoch = ..` assignments. Once both
stand at epoch `e` (`loader.epoch = e`; for a loader constructed with `init_epoch = e` and not used
yet this assignment changes nothing) their next pass delivers identical batches, namely
`epochBatches` of the ordering of `e` - a function of (seed, epoch) and the constructor arguments,
of nothing else. In particular rewinding `loader.epoch` replays an epoch exactly. -/
theorem C14_seed_epoch (perm : Nat → List Nat) (cfg : LoaderCfg) (sc : EpochSampler.Config)
    (ops₁ ops₂ : List Op) (e₁ e₂ e : Nat) :
    let l₁ := ((Loader.exec perm ops₁ ⟨cfg, ⟨sc, e₁⟩⟩).2).setEpoch e
    let l₂ := ((Loader.exec perm ops₂ ⟨cfg, ⟨sc, e₂⟩⟩).2).setEpoch e
    (l₁.serve perm).1 = epochBatches cfg sc (perm e) ∧ (l₂.serve perm).1 = (l₁.serve perm).1 := by
  intro l₁ l₂
  have key : ∀ (ops : List Op) (e₀ : Nat),
      ((((Loader.exec perm ops ⟨cfg, ⟨sc, e₀⟩⟩).2).setEpoch e).serve perm).1
        = epochBatches cfg sc (perm e) := by
    intro ops e₀
    obtain ⟨h1, h2⟩ := Loader.exec_fixed perm ops ⟨cfg, ⟨sc, e₀⟩⟩
    rw [(Loader.serve_spec perm _).1]
    show epochBatches (Loader.exec perm ops _).2.cfg (Loader.exec perm ops _).2.sampler.cfg (perm e) = _
    rw [h1, h2]
  exact ⟨key ops₁ e₁, (key ops₂ e₂).trans (key ops₁ e₁).symm⟩

/-- The same with the seed explicit: `src seed epoch` is the ordering drawn for (seed, epoch).
(Audit: the second conjunct of `C14_seed_epoch` at `perm := src seed`, nothing more - kept as a reading aid,
NOT counted as an obligation.) -/
theorem C14_seed_epoch_src (src : Nat → Nat → List Nat) (seed : Nat) (cfg : LoaderCfg)
    (sc : EpochSampler.Config) (ops₁ ops₂ : List Op) (e₁ e₂ e : Nat) :
    ((((Loader.exec (src seed) ops₂ ⟨cfg, ⟨sc, e₂⟩⟩).2).setEpoch e).serve (src seed)).1
      = ((((Loader.exec (src seed) ops₁ ⟨cfg, ⟨sc, e₁⟩⟩).2).setEpoch e).serve (src seed)).1 :=
  (C14_seed_epoch (src seed) cfg sc ops₁ ops₂ e₁ e₂ e).2

/-- A loader constructed at `init_epoch = e` needs no assignment: it delivers epoch `e`. -/
theorem C14_init_epoch (perm : Nat → List Nat) (cfg : LoaderCfg) (sc : EpochSampler.Config) (e : Nat) :
    ((⟨cfg, ⟨sc, e⟩⟩ : Loader).serve perm).1 = epochBatches cfg sc (perm e) :=
  (Loader.serve_spec perm _).1

/-- **C14_consecutive_epochs**: `k` passes in a row from `init_epoch = e₀` deliver the epochs
`e₀, e₀+1, .., e₀+k-1` (the sampler's lists are C13's `iterMany`, identified by
`C13_history_lists`), and leave `loader.epoch = e₀ + k`. -/
theorem C14_consecutive_epochs (perm : Nat → List Nat) (cfg : LoaderCfg) (sc : EpochSampler.Config)
    (k e₀ : Nat) :
    (Loader.exec perm (List.replicate k Op.serve) ⟨cfg, ⟨sc, e₀⟩⟩).1
      = (List.range k).map (fun j => epochBatches cfg sc (perm (e₀ + j))) ∧
    (Loader.exec perm (List.replicate k Op.serve) ⟨cfg, ⟨sc, e₀⟩⟩).2.epoch = e₀ + k := by
  have h : ∀ (k e₀ : Nat),
      (Loader.exec perm (List.replicate k Op.serve) ⟨cfg, ⟨sc, e₀⟩⟩).1
        = (EpochSampler.iterMany perm k ⟨sc, e₀⟩).1.map
            (fun o => loaderBatches cfg.lens cfg.nb cfg.B cfg.dynamic cfg.drop o) ∧
      (Loader.exec perm (List.replicate k Op.serve) ⟨cfg, ⟨sc, e₀⟩⟩).2.epoch = e₀ + k := by
    intro k
    induction k with
    | zero => intro e₀; exact ⟨rfl, rfl⟩
    | succ k ih =>
      intro e₀
      obtain ⟨i1, i2⟩ := ih (e₀ + 1)
      refine ⟨?_, ?_⟩
      · show (Loader.serve perm ⟨cfg, ⟨sc, e₀⟩⟩).1
            :: (Loader.exec perm (List.replicate k Op.serve) (Loader.serve perm ⟨cfg, ⟨sc, e₀⟩⟩).2).1 = _
        have hs : (Loader.serve perm ⟨cfg, ⟨sc, e₀⟩⟩).2 = ⟨cfg, ⟨sc, e₀ + 1⟩⟩ := rfl
        rw [hs, i1]
        rfl
      · show (Loader.exec perm (List.replicate k Op.serve) (Loader.serve perm ⟨cfg, ⟨sc, e₀⟩⟩).2).2.epoch = _
        have hs : (Loader.serve perm ⟨cfg, ⟨sc, e₀⟩⟩).2 = ⟨cfg, ⟨sc, e₀ + 1⟩⟩ := rfl
        rw [hs, i2]
        omega
  obtain ⟨h1, h2⟩ := h k e₀
  refine ⟨?_, h2⟩
  rw [h1, EpochSampler.C13_history_lists, List.map_map]
  rfl

/-- **C14_len_epoch**: `len(loader)` refers to the epoch the sampler stands at, i.e. to the pass
that would start NOW: if that pass runs without an exception and yields `bs`, then `len(loader)`
evaluated before it is `bs.length`. (With length buckets the count comes from a `Counter` over
`get_samples_for_epoch(sampler.epoch)`, `C14_len`; with one bucket from `len(sampler)`, which is
the number of samples by `C13_len`.) Hypotheses: a positive batch size, a sampler configuration
`init` can produce, an ordering of the whole data set. -/
theorem C14_len_epoch (perm : Nat → List Nat) (l : Loader) (bs : List (List Nat))
    (hB : 0 < l.cfg.B) (hwf : l.sampler.cfg.Wf)
    (hp : (perm l.epoch).length = l.sampler.cfg.total)
    (h : (l.serve perm).1 = .ok (bs, none)) : l.len perm = .ok bs.length := by
  rw [(Loader.serve_spec perm l).1] at h
  unfold epochBatches at h
  unfold Loader.len
  by_cases hnb : l.cfg.nb > 1
  · have hl := C14_loader_len l.cfg.lens l.cfg.nb l.cfg.B l.cfg.dynamic l.cfg.drop _ bs hB h
    unfold loaderLen at hl
    simp only [hnb, if_true] at hl ⊢
    exact hl
  · have hl := C14_loader_len l.cfg.lens l.cfg.nb l.cfg.B l.cfg.dynamic l.cfg.drop _ bs hB h
    unfold loaderLen at hl
    simp only [hnb, if_false] at hl ⊢
    have hc := EpochSampler.C13_len l.sampler.cfg (perm l.epoch) hwf hp
    have : (EpochSampler.len l.sampler.cfg).toNat
        = (EpochSampler.samples l.sampler.cfg (perm l.epoch)).length := by
      rw [← hc]; rfl
    rw [this]
    exact hl

/-- **C14_len_tracks_epoch** (nothing is cached): after ANY history of passes and epoch
assignments, `len(loader)` is the number of batches of the pass that starts next - so after a
pass over epoch `e` it already speaks about epoch `e + 1`, after `loader.epoch = e'` about `e'`. -/
theorem C14_len_tracks_epoch (perm : Nat → List Nat) (l : Loader) (ops : List Op)
    (bs : List (List Nat)) (hB : 0 < l.cfg.B) (hwf : l.sampler.cfg.Wf)
    (hp : ∀ e, (perm e).length = l.sampler.cfg.total)
    (h : ((Loader.exec perm ops l).2.serve perm).1 = .ok (bs, none)) :
    (Loader.exec perm ops l).2.len perm = .ok bs.length := by
  obtain ⟨h1, h2⟩ := Loader.exec_fixed perm ops l
  apply C14_len_epoch perm _ bs
  · rw [h1]; exact hB
  · rw [h2]; exact hwf
  · rw [h2]; exact hp _
  · exact h

/-! ### the hypotheses are satisfiable, and the epoch matters: lengths `[1,1,5,5,5]`, 4 buckets,
batch size 2, rank 1 of 3. Epoch 0 (ordering `0..4`) gives this rank `[1, 4]`: two batches;
epoch 1 (ordering `[0,2,1,4,3]`) gives it `[2, 3]`: one batch. -/
def exCfg : LoaderCfg := ⟨[1, 1, 5, 5, 5], 4, 2, false, false⟩
def exPerm : Nat → List Nat := fun e => if e = 0 then [0, 1, 2, 3, 4] else [0, 2, 1, 4, 3]
def exLoader : Loader := ⟨exCfg, ⟨⟨5, 5, 1, 3⟩, 0⟩⟩

example : Loader.new exCfg (samplerMode false false .uneven) (some (1, 3)) 0 = some exLoader := by rfl
example : Loader.new exCfg (samplerMode false false .raise) (some (1, 3)) 0 = none := by rfl
example : exLoader.sampler.cfg.Wf := by simp [exLoader, EpochSampler.Config.Wf]
example : (exLoader.serve exPerm).1 = .ok ([[1], [4]], none) := by
  simp [Loader.serve, EpochSampler.iter, EpochSampler.samples, EpochSampler.islice,
    EpochSampler.everyNth, exLoader, exPerm, exCfg]
  rfl
example : exLoader.len exPerm = .ok 2 := by
  simp [Loader.len, EpochSampler.samples, EpochSampler.islice, EpochSampler.everyNth, exLoader,
    exPerm, exCfg]
  rfl
example : ((exLoader.serve exPerm).2.serve exPerm).1 = .ok ([[2, 3]], none) := by
  simp [Loader.serve, EpochSampler.iter, EpochSampler.samples, EpochSampler.islice,
    EpochSampler.everyNth, exLoader, exPerm, exCfg]
  rfl
example : (exLoader.serve exPerm).2.len exPerm = .ok 1 := by
  simp [Loader.len, Loader.serve, EpochSampler.iter, EpochSampler.samples, EpochSampler.islice,
    EpochSampler.everyNth, exLoader, exPerm, exCfg]
  rfl

/-! all hypotheses of the `len` theorems together, on `exLoader` -/
theorem exLoader_serve0 : (exLoader.serve exPerm).1 = .ok ([[1], [4]], none) := by
  simp [Loader.serve, EpochSampler.iter, EpochSampler.samples, EpochSampler.islice,
    EpochSampler.everyNth, exLoader, exPerm, exCfg]
  rfl

theorem exPerm_len : ∀ e, (exPerm e).length = exLoader.sampler.cfg.total := by
  intro e; unfold exPerm; split <;> rfl

/-- all four hypotheses of `C14_len_epoch` together -/
example : exLoader.len exPerm = .ok 2 :=
  C14_len_epoch exPerm exLoader [[1], [4]] (by decide) (by simp [exLoader, EpochSampler.Config.Wf])
    (exPerm_len _) exLoader_serve0

/-- `C14_len_tracks_epoch` after one pass: `len` speaks about epoch 1 (one batch), not epoch 0 (two) -/
example : (Loader.exec exPerm [.serve] exLoader).2.len exPerm = .ok 1 :=
  C14_len_tracks_epoch exPerm exLoader [.serve] [[2, 3]] (by decide) (by simp [exLoader, EpochSampler.Config.Wf])
    exPerm_len (by
      simp [Loader.exec, Loader.serve, EpochSampler.iter, EpochSampler.samples, EpochSampler.islice,
        EpochSampler.everyNth, exLoader, exPerm, exCfg]
      rfl)

/-! ## loaders: several live iterators, `len()` and look-ups in between (value semantics)

`Session` (in `Model/Batching.lean`) = the loader object + the `iter(loader)` objects created so
far. A script is any sequence of: a full pass, `loader.epoch = e`, `it_k = iter(loader)`,
`next(it_k)`, `len(loader)`, `sampler.get_samples_for_epoch(e)`. In the model an iterator is a
VALUE: the list of batches the pass had at the moment its first batch was requested (that is when
the batch sampler's generator asks the epoch sampler and `sampler.epoch` is bumped), plus a cursor.
The theorems below say that nothing another operation does can change what an iterator delivers.
That the real objects behave like this (a fresh permutation per request, no buffer shared between
requests) is what the correspondence checks, it is not proved. -/

/-- **C14_live_iter_value**: once iterator `k` has started with value `v` (`j` batches handed out),
then after ANY script - other iterators created / advanced / exhausted, `len()`, look-ups of other
epochs, epoch assignments, full passes - the calls `next(it_k)` in that script return
`nextOf v j, nextOf v (j+1), ..` in order, and the iterator still holds `v`; its cursor moved by
exactly the number of its own `next` calls. -/
theorem C14_live_iter_value (perm : Nat → List Nat) : ∀ (ops : List IOp) (s : Session) (k : Nat)
    (v : PassVal) (j : Nat), s.iters[k]? = some ⟨some v, j⟩ →
    deliveredBy k (Session.exec perm ops s).1
      = (List.range (ops.count (.next k))).map (fun i => Out.batch (nextOf v (j + i))) ∧
    (Session.exec perm ops s).2.iters[k]? = some ⟨some v, j + ops.count (.next k)⟩ := by
  intro ops
  induction ops with
  | nil => intro s k v j hk; exact ⟨rfl, hk⟩
  | cons op ops ih =>
    intro s k v j hk
    by_cases hop : op = .next k
    · subst hop
      have hlt : k < s.iters.length := by
        rcases List.getElem?_eq_some_iff.mp hk with ⟨h, _⟩; exact h
      have hs := Session.step_next_started perm s k v j hk
      have hk' : (Session.step perm (.next k) s).2.iters[k]? = some ⟨some v, j + 1⟩ := by
        rw [hs]; show (s.iters.set k _)[k]? = _
        rw [List.getElem?_set_self hlt]
      obtain ⟨i1, i2⟩ := ih (Session.step perm (.next k) s).2 k v (j + 1) hk'
      refine ⟨?_, ?_⟩
      · show deliveredBy k ((IOp.next k, (Session.step perm (.next k) s).1)
            :: (Session.exec perm ops (Session.step perm (.next k) s).2).1) = _
        rw [deliveredBy_cons_self, i1, hs, List.count_cons_self, List.range_succ_eq_map]
        simp only [List.map_cons, List.map_map, Nat.add_zero]
        congr 1
        apply List.map_congr_left
        intro i _
        simp only [Function.comp]
        congr 2
        omega
      · show (Session.exec perm ops (Session.step perm (.next k) s).2).2.iters[k]? = _
        rw [i2, List.count_cons_self]
        have e : j + 1 + List.count (IOp.next k) ops = j + (List.count (IOp.next k) ops + 1) := by omega
        rw [e]
    · have hk' := Session.step_other perm op s k _ hk hop
      obtain ⟨i1, i2⟩ := ih (Session.step perm op s).2 k v j hk'
      have hc : (op :: ops).count (.next k) = ops.count (.next k) := by
        rw [List.count_cons_of_ne]; exact fun h => hop h
      refine ⟨?_, ?_⟩
      · show deliveredBy k ((op, (Session.step perm op s).1)
            :: (Session.exec perm ops (Session.step perm op s).2).1) = _
        rw [deliveredBy_cons_other k op _ _ hop, i1, hc]
      · show (Session.exec perm ops (Session.step perm op s).2).2.iters[k]? = _
        rw [i2, hc]



/-- **C14_session_epoch** (which operation touches the loader, and how): `loader.epoch = e` sets the
counter; a full pass and the FIRST `next` of an iterator advance it by one; `iter(loader)`, `len()`,
`get_samples_for_epoch`, a `next` on a started (or exhausted) iterator leave the loader exactly as
it was - `len()` and the look-up leave the whole session as it was.
(Audit: DEFINITIONAL - five of the eight clauses are `rfl`, the other three unfold `Session.step` under the
stated look-up; this is the definition of `Session.step` read aloud, whether the CODE moves its counter there is
correspondence. Kept as documentation of the model, NOT counted as an obligation.) -/
theorem C14_session_epoch (perm : Nat → List Nat) (s : Session) :
    (∀ e, (Session.step perm (.setEpoch e) s).2.loader = s.loader.setEpoch e) ∧
    (Session.step perm .serve s).2.loader = s.loader.setEpoch (s.loader.epoch + 1) ∧
    (Session.step perm .newIter s).2.loader = s.loader ∧
    Session.step perm .len s = (.len (s.loader.len perm), s) ∧
    (∀ e, Session.step perm (.peek e) s
        = (.samples (EpochSampler.samples s.loader.sampler.cfg (perm e)), s)) ∧
    (∀ k, s.iters[k]? = none → Session.step perm (.next k) s = (.noIter, s)) ∧
    (∀ k v j, s.iters[k]? = some ⟨some v, j⟩ → (Session.step perm (.next k) s).2.loader = s.loader) ∧
    (∀ k p, s.iters[k]? = some ⟨none, p⟩ →
        (Session.step perm (.next k) s).2.loader = s.loader.setEpoch (s.loader.epoch + 1)) := by
  refine ⟨fun _ => rfl, rfl, rfl, rfl, fun _ => rfl, ?_, ?_, ?_⟩
  · intro k hk
    unfold Session.step
    simp only [hk]
  · intro k v j hk
    rw [Session.step_next_started perm s k v j hk]
  · intro k p hk
    rw [Session.step_next_fresh perm s k p hk]
    rfl


/-- **C14_iter_epoch**: an iterator created at any time and not yet asked for a batch during `pre`
delivers - over the whole rest of the script, whatever else happens in `pre` and `post` - exactly
the batches of the epoch the loader stands at when its first batch is requested:
`nextOf (epochBatches cfg samplerCfg (perm e)) 0, 1, 2, ..`, one per `next` call; and that first
request moves `loader.epoch` to `e + 1`. -/
theorem C14_iter_epoch (perm : Nat → List Nat) (s : Session) (k p : Nat) (pre post : List IOp)
    (hk : s.iters[k]? = some ⟨none, p⟩) (hpre : IOp.next k ∉ pre) :
    let l := (Session.exec perm pre s).2.loader
    deliveredBy k (Session.exec perm (pre ++ IOp.next k :: post) s).1
      = (List.range (1 + post.count (.next k))).map
          (fun i => Out.batch (nextOf (epochBatches s.loader.cfg s.loader.sampler.cfg (perm l.epoch)) i)) ∧
    (Session.exec perm (pre ++ [IOp.next k]) s).2.loader.epoch = l.epoch + 1 := by
  intro l
  obtain ⟨f1, f2⟩ := Session.exec_fresh perm pre s k _ hk hpre
  obtain ⟨c1, c2⟩ := Session.exec_fixed perm pre s
  let s' := (Session.exec perm pre s).2
  have hlt : k < s'.iters.length := by
    rcases List.getElem?_eq_some_iff.mp f2 with ⟨h, _⟩; exact h
  have hs := Session.step_next_fresh perm s' k p f2
  have hv : (s'.loader.serve perm).1 = epochBatches s.loader.cfg s.loader.sampler.cfg (perm l.epoch) := by
    rw [(Loader.serve_spec perm s'.loader).1, c1, c2]
  refine ⟨?_, ?_⟩
  · rw [Session.exec_append, deliveredBy_append, f1, List.nil_append]
    show deliveredBy k ((IOp.next k, (Session.step perm (.next k) s').1)
        :: (Session.exec perm post (Session.step perm (.next k) s').2).1) = _
    have hk' : (Session.step perm (.next k) s').2.iters[k]? = some ⟨some (s'.loader.serve perm).1, 1⟩ := by
      rw [hs]; show (s'.iters.set k _)[k]? = _
      rw [List.getElem?_set_self hlt]
    rw [deliveredBy_cons_self, (C14_live_iter_value perm post _ k _ 1 hk').1, hs, hv,
      Nat.add_comm 1, List.range_succ_eq_map]
    simp only [List.map_cons, List.map_map]
    congr 1
    apply List.map_congr_left
    intro i _
    simp only [Function.comp]
    congr 2
    omega
  · rw [Session.exec_append]
    show (Session.step perm (.next k) s').2.loader.epoch = _
    rw [hs]
    rfl


/-- **C14_seed_epoch_interleaved** (`C14_seed_epoch` for interleaved scripts): after ANY script `pre`
on a loader started at ANY epoch - with any number of iterators still alive -, `loader.epoch = e;
it = iter(loader); next(it)` followed by ANY script `post` makes `it` deliver the batches of
`epochBatches cfg samplerCfg (perm e)`, one per `next(it)`: a function of the constructor
arguments, (seed, epoch) and the number of calls, of nothing else. Two runs with different `pre`,
`post`, `e₀` therefore see identical batches for identical (seed, epoch). -/
theorem C14_seed_epoch_interleaved (perm : Nat → List Nat) (cfg : LoaderCfg) (sc : EpochSampler.Config)
    (pre post : List IOp) (e₀ e : Nat) :
    let s := (Session.exec perm pre (Session.new ⟨cfg, ⟨sc, e₀⟩⟩)).2
    let k := s.iters.length
    deliveredBy k (Session.exec perm (.setEpoch e :: .newIter :: .next k :: post) s).1
      = (List.range (1 + post.count (.next k))).map
          (fun i => Out.batch (nextOf (epochBatches cfg sc (perm e)) i)) := by
  intro s k
  obtain ⟨c1, c2⟩ := Session.exec_fixed perm pre (Session.new ⟨cfg, ⟨sc, e₀⟩⟩)
  let s2 : Session := ⟨s.loader.setEpoch e, s.iters ++ [⟨none, 0⟩]⟩
  have hk : s2.iters[k]? = some ⟨none, 0⟩ := by
    show (s.iters ++ [_])[s.iters.length]? = _
    simp
  have h := (C14_iter_epoch perm s2 k 0 [] post hk (by simp)).1
  simp only [List.nil_append] at h
  show deliveredBy k ((IOp.setEpoch e, _) :: (IOp.newIter, _) :: (Session.exec perm (.next k :: post) s2).1) = _
  rw [deliveredBy_cons_other _ _ _ _ (by simp), deliveredBy_cons_other _ _ _ _ (by simp), h]
  have e1 : s2.loader.cfg = cfg := c1
  have e2 : s2.loader.sampler.cfg = sc := c2
  rw [e1, e2]
  rfl


/-- **C14_pass_complete**: a pass with `n` batches consumed to its end: `n + 1` calls of `next` hand
out the `n` batches in order, then `StopIteration` (so with `C14_seed_epoch_interleaved` an
iterator advanced at least `n + 1` times has delivered the whole epoch, however the calls were
interleaved with other operations). -/
theorem C14_pass_complete (bs : List (List Nat)) :
    (List.range (bs.length + 1)).map (nextOf (.ok (bs, none)))
      = bs.map (fun b => .ok (some b)) ++ [.ok none] := by
  apply List.ext_getElem?
  intro i
  simp only [List.getElem?_map, List.getElem?_append]
  by_cases h : i < bs.length
  · have h' : i < bs.length + 1 := by omega
    simp [h, h', nextOf]
  · by_cases h2 : i = bs.length
    · subst h2
      simp [nextOf]
    · have h' : ¬ i < bs.length + 1 := by omega
      have h3 : bs.length + 1 ≤ i := by omega
      simp [h, h']
      omega


/-- **C14_loader_cover**: with incomplete batches kept, the batches of an epoch - length buckets
(`C14_cover_keep` composed with the bucket parameters) or torch's `BatchSampler` - are a
rearrangement of the samples the epoch sampler produced for this rank: every index in exactly one
batch. -/
theorem C14_loader_cover (lens : List Nat) (nb B : Nat) (dynamic : Bool) (order : List Nat)
    (bs : List (List Nat)) (hB : 0 < B)
    (h : loaderBatches lens nb B dynamic false order = .ok (bs, none)) : bs.flatten.Perm order := by
  unfold loaderBatches at h
  by_cases hnb : nb > 1
  · simp only [hnb, if_true] at h
    cases hp : bucketParams lens nb B dynamic with
    | error e => simp [hp] at h
    | ok p =>
      simp only [hp] at h
      exact C14_cover_keep _ _ order bs (Except.ok.inj h)
  · simp only [hnb, if_false] at h
    have : bs = plainIter B false order := (congrArg Prod.fst (Except.ok.inj h)).symm
    rw [this]
    simp only [plainIter, Bool.false_eq_true, if_false, chunks]
    rw [chunksAux_flatten hB _ _ (Nat.le_refl _)]


/-- **C14_interleaved_cover** (the property's cover clause for a pass that was interleaved with
anything): after any script `pre`, `loader.epoch = e; it = iter(loader); next(it)` and any script
`post` that advances `it` at least as often as the epoch has batches: what `it` delivered is the
epoch's batches `bs` in order followed by StopIteration only, and `bs` holds every sample of the
epoch exactly once (`drop_last` off) - no index repeated, none lost, whatever was interleaved. -/
theorem C14_interleaved_cover (perm : Nat → List Nat) (cfg : LoaderCfg) (sc : EpochSampler.Config)
    (pre post : List IOp) (e₀ e : Nat) (bs : List (List Nat)) (hB : 0 < cfg.B)
    (hdrop : cfg.drop = false) (h : epochBatches cfg sc (perm e) = .ok (bs, none)) :
    let s := (Session.exec perm pre (Session.new ⟨cfg, ⟨sc, e₀⟩⟩)).2
    let k := s.iters.length
    bs.length ≤ 1 + post.count (.next k) →
    deliveredBy k (Session.exec perm (.setEpoch e :: .newIter :: .next k :: post) s).1
      = bs.map (fun b => Out.batch (.ok (some b)))
        ++ List.replicate (1 + post.count (.next k) - bs.length) (Out.batch (.ok none)) ∧
    bs.flatten.Perm (EpochSampler.samples sc (perm e)) := by
  intro s k hn
  refine ⟨?_, ?_⟩
  · have := C14_seed_epoch_interleaved perm cfg sc pre post e₀ e
    simp only at this
    rw [this, h]
    exact nextOf_range bs _ hn
  · unfold epochBatches at h
    rw [hdrop] at h
    exact C14_loader_cover _ _ _ _ _ bs hB h

/-- **C14_len_interleaved** (`C14_len_tracks_epoch` for interleaved scripts): at ANY point of ANY
script - iterators alive and half consumed - `len(loader)` is the number of batches of the pass
that would start now, and asking leaves no trace (the session is returned unchanged). -/
theorem C14_len_interleaved (perm : Nat → List Nat) (l : Loader) (pre : List IOp)
    (bs : List (List Nat)) (hB : 0 < l.cfg.B) (hwf : l.sampler.cfg.Wf)
    (hp : ∀ e, (perm e).length = l.sampler.cfg.total) :
    let s := (Session.exec perm pre (Session.new l)).2
    (s.loader.serve perm).1 = .ok (bs, none) →
    Session.step perm .len s = (.len (.ok bs.length), s) := by
  intro s h
  obtain ⟨h1, h2⟩ := Session.exec_fixed perm pre (Session.new l)
  have : s.loader.len perm = .ok bs.length := by
    apply C14_len_epoch perm _ bs
    · rw [h1]; exact hB
    · rw [h2]; exact hwf
    · rw [h2]; exact hp _
    · exact h
  show (Out.len (s.loader.len perm), s) = _
  rw [this]


/-- **C14_session_refines_exec**: a script of full passes and epoch assignments only is the
`Loader.exec` the earlier theorems speak about (same final loader, same passes; iterators that are
alive are not touched). -/
theorem C14_session_refines_exec (perm : Nat → List Nat) : ∀ (ops : List Op) (l : Loader) (its : List LiveIter),
    (Session.exec perm (ops.map IOp.ofOp) ⟨l, its⟩).2 = ⟨(Loader.exec perm ops l).2, its⟩ ∧
    passesOf (Session.exec perm (ops.map IOp.ofOp) ⟨l, its⟩).1 = (Loader.exec perm ops l).1 := by
  intro ops
  induction ops with
  | nil => intro l its; exact ⟨rfl, rfl⟩
  | cons op ops ih =>
    intro l its
    cases op with
    | serve =>
      obtain ⟨i1, i2⟩ := ih (l.serve perm).2 its
      refine ⟨i1, ?_⟩
      show passesOf ((IOp.serve, Out.pass (l.serve perm).1)
          :: (Session.exec perm (ops.map IOp.ofOp) ⟨(l.serve perm).2, its⟩).1)
        = (l.serve perm).1 :: (Loader.exec perm ops (l.serve perm).2).1
      rw [← i2]
      rfl
    | setEpoch e =>
      obtain ⟨i1, i2⟩ := ih (l.setEpoch e) its
      refine ⟨i1, ?_⟩
      show passesOf ((IOp.setEpoch e, Out.unit)
          :: (Session.exec perm (ops.map IOp.ofOp) ⟨l.setEpoch e, its⟩).1)
        = (Loader.exec perm ops (l.setEpoch e)).1
      rw [← i2]
      rfl


/-! ### the hypotheses are satisfiable: the loader of the previous example (rank 1 of 3; epoch 0
has the batches `[[1], [4]]`, epoch 1 has `[[2, 3]]`), two iterators advanced alternately with
`len()`, a look-up and an epoch assignment in between. -/
def exScript : List IOp :=
  [.newIter, .next 0, .len, .peek 1, .newIter, .next 1, .setEpoch 0, .next 0, .next 1, .next 0, .len]

/-- iterator 0 started at epoch 0: its two batches, then StopIteration -/
example : deliveredBy 0 (Session.exec exPerm exScript (Session.new exLoader)).1
    = [.batch (.ok (some [1])), .batch (.ok (some [4])), .batch (.ok none)] := by
  simp [exScript, Session.exec, Session.step, Session.new, deliveredBy, Loader.serve, Loader.setEpoch,
    EpochSampler.iter, EpochSampler.samples, EpochSampler.islice, EpochSampler.everyNth, exLoader,
    exPerm, exCfg]
  decide
/-- iterator 1 started when the loader stood at epoch 1 -/
example : deliveredBy 1 (Session.exec exPerm exScript (Session.new exLoader)).1
    = [.batch (.ok (some [2, 3])), .batch (.ok none)] := by
  simp [exScript, Session.exec, Session.step, Session.new, deliveredBy, Loader.serve, Loader.setEpoch,
    EpochSampler.iter, EpochSampler.samples, EpochSampler.islice, EpochSampler.everyNth, exLoader,
    exPerm, exCfg]
  decide
/-- the hypotheses of `C14_interleaved_cover` on this loader: epoch 0 has two batches, `drop_last` is off -/
example : epochBatches exCfg ⟨5, 5, 1, 3⟩ (exPerm 0) = .ok ([[1], [4]], none) := by
  simp [epochBatches, EpochSampler.samples, EpochSampler.islice, EpochSampler.everyNth, exPerm, exCfg]
  rfl
example : exCfg.drop = false ∧ 0 < exCfg.B := by decide
example : (Session.new exLoader).iters[0]? = none := rfl
example : IOp.next 0 ∉ [IOp.len, IOp.peek 1, IOp.newIter, IOp.next 1] := by decide

/-! the interleaving theorems applied (all hypotheses together) -/
/-- `C14_len_interleaved`: an iterator alive and half consumed (it took epoch 0), `len()` speaks about epoch 1 -/
example : Session.step exPerm .len (Session.exec exPerm [.newIter, .next 0, .peek 0] (Session.new exLoader)).2
    = (.len (.ok 1), (Session.exec exPerm [.newIter, .next 0, .peek 0] (Session.new exLoader)).2) :=
  C14_len_interleaved exPerm exLoader [.newIter, .next 0, .peek 0] [[2, 3]] (by decide)
    (by simp [exLoader, EpochSampler.Config.Wf]) exPerm_len (by
      simp [Session.exec, Session.step, Session.new, Loader.serve, EpochSampler.iter, EpochSampler.samples,
        EpochSampler.islice, EpochSampler.everyNth, exLoader, exPerm, exCfg]
      rfl)

/-- `C14_iter_epoch`: iterator 0 exists, has not been asked yet; a `len()` and a look-up come first -/
example := C14_iter_epoch exPerm ⟨exLoader, [⟨none, 0⟩]⟩ 0 0 [.len, .peek 1, .setEpoch 1] [.next 0, .newIter, .next 0]
  rfl (by decide)

/-- `C14_live_iter_value`: iterator 0 started with the value of epoch 0 and one batch handed out -/
example := C14_live_iter_value exPerm [.next 0, .serve, .setEpoch 0, .newIter, .next 1, .next 0]
  ⟨exLoader, [⟨some (.ok ([[1], [4]], none)), 1⟩]⟩ 0 (.ok ([[1], [4]], none)) 1 rfl

/-- `C14_interleaved_cover` with a non-empty `pre` (an older iterator alive), `post` advancing both -/
example := C14_interleaved_cover exPerm exCfg ⟨5, 5, 1, 3⟩ [.newIter, .next 0] [.next 1, .next 0, .len, .next 1] 3 0
  [[1], [4]] (by decide) rfl (by
    simp [epochBatches, EpochSampler.samples, EpochSampler.islice, EpochSampler.everyNth, exPerm, exCfg]
    rfl) (by decide)

/-! ## loaders: public attributes assigned after construction; collation = a function of the items
and the options AT THE TIME OF THE CALL

`View` (in `Model/Batching.lean`) = a `Session` + the flags stored on the loader (`batch_first`,
`sort_batch`) and on its data set (`suppress_alis`, `suppress_uttids`, `tokens_only`). A script may
assign any of them at any point (`VOp.assign`), also between two `next` calls of a live iterator.
In the model `collate_fn` is a bound method reading the stored flags at every call. The theorems:
what a call shows is (the index batch the session hands out, the flags as last assigned before the
call); assignments never touch the session; assigning after construction is constructing with the
value; hence every batch is `lang_seq_to_batch` / `spect_seq_to_batch` of its utterances under the
flags in force at that call, and the lossless statements hold for it in the layout the loader
reports. That the real classes read the attributes at every call (and did not freeze them into a
closure at construction) is what the correspondence checks. -/

/-- The trace entries of the `Session` operations of a script. -/
def ioTrace (tr : List (VOp × Out × Present)) : List (IOp × Out) :=
  tr.filterMap (fun e => match e.1 with | .io o => some (o, e.2.1) | _ => none)

/-- **C14_attr_frame**: assignments to `batch_first`, `sort_batch`, `suppress_alis`, `suppress_uttids`,
`tokens_only` - anywhere in a script, any number of them - change nothing of what the `Session`
theorems speak about: every operation shows the same index batches / `len()` / samples / epoch it
shows in the script with the assignments removed, and the loader, its sampler and all live iterators
end in the same state. (So `C14_seed_epoch_interleaved`, `C14_interleaved_cover`, `C14_len_interleaved`,
.. apply verbatim to scripts with assignments.) -/
theorem C14_attr_frame (perm : Nat → List Nat) : ∀ (script : List VOp) (v : View),
    (∀ d, VOp.setDrop d ∉ script) →
    ioTrace (View.exec perm script v).1 = (Session.exec perm (ioOps script) v.session).1 ∧
    (View.exec perm script v).2.session = (Session.exec perm (ioOps script) v.session).2 := by
  intro script
  induction script with
  | nil => intro v _; exact ⟨rfl, rfl⟩
  | cons op ops ih =>
    intro v h
    have h' : ∀ d, VOp.setDrop d ∉ ops := fun d hd => h d (List.mem_cons_of_mem _ hd)
    cases op with
    | io o =>
      obtain ⟨i1, i2⟩ := ih (View.step perm (.io o) v).2 h'
      refine ⟨?_, i2⟩
      have i1' : ioTrace (View.exec perm ops (View.step perm (.io o) v).2).1
          = (Session.exec perm (ioOps ops) (Session.step perm o v.session).2).1 := i1
      show ioTrace ((VOp.io o, (Session.step perm o v.session).1, v.present)
          :: (View.exec perm ops (View.step perm (.io o) v).2).1)
        = (o, (Session.step perm o v.session).1) :: (Session.exec perm (ioOps ops) (Session.step perm o v.session).2).1
      rw [← i1']
      rfl
    | assign a b =>
      obtain ⟨i1, i2⟩ := ih (View.step perm (.assign a b) v).2 h'
      exact ⟨i1, i2⟩
    | setDrop d => exact absurd List.mem_cons_self (h d)

/-- **C14_collate_call_time** (collation is a function of the items and the options at the time of
the call): in ANY script `pre ++ op :: post` run on a loader constructed with ANY flags, the
operation `op` (a `next(it_k)`, a full pass, ..) shows
* the index-level output the session gives after the `Session` operations of `pre` - by
  `C14_attr_frame` / the `Session` theorems a function of the constructor arguments and (seed, epoch),
  untouched by any assignment -, paired with
* the flags as last assigned in `pre` (the constructor's value for an attribute never assigned) -
  not the flags at construction, not those at `iter(loader)` or at the iterator's first batch, and
  nothing that is assigned in `post`.
So with any collate function `deliver flags batch`, what the caller sees is
`deliver (presentAfter flags₀ pre) batch`. -/
theorem C14_collate_call_time (perm : Nat → List Nat) (pre post : List VOp) (o : IOp) (v : View)
    (hpre : ∀ d, VOp.setDrop d ∉ pre) :
    (View.exec perm (pre ++ VOp.io o :: post) v).1[pre.length]?
      = some (VOp.io o, (Session.step perm o (Session.exec perm (ioOps pre) v.session).2).1,
              presentAfter v.present pre) := by
  rw [View.exec_append]
  have hl := View.exec_length perm pre v
  rw [List.getElem?_append_right (by omega), hl, Nat.sub_self]
  show some (VOp.io o, (Session.step perm o (View.exec perm pre v).2.session).1,
      (View.exec perm pre v).2.present) = _
  rw [View.exec_session perm pre v hpre, View.exec_present]

/-- `C14_collate_call_time` read through a collate function: a `next` that hands out the index batch
`b` shows `deliver (flags as last assigned before the call) b`. -/
theorem C14_shown_at_call {β : Type} (deliver : Present → List Nat → β) (perm : Nat → List Nat)
    (pre post : List VOp) (o : IOp) (v : View) (hpre : ∀ d, VOp.setDrop d ∉ pre) (b : List Nat)
    (hb : (Session.step perm o (Session.exec perm (ioOps pre) v.session).2).1 = .batch (.ok (some b))) :
    ((View.exec perm (pre ++ VOp.io o :: post) v).1[pre.length]?).map (fun e => shown deliver e.2)
      = some (Shown.batch (.ok (some (deliver (presentAfter v.present pre) b)))) := by
  rw [C14_collate_call_time perm pre post o v hpre]
  simp only [Option.map_some, hb]
  rfl

/-- **C14_assign_eq_construct** (an attribute assigned after construction = the object constructed
with that value): running assignments `asg` and then any script on a loader constructed with flags
`p` shows, after the assignments' own (empty) outputs, exactly what the script shows on the loader
constructed with `asg` folded into `p` - same outputs, same flags at every call, same final state. -/
theorem C14_assign_eq_construct (perm : Nat → List Nat) (script : List VOp) :
    ∀ (asg : List (Attr × Bool)) (s : Session) (p : Present),
    let p' := asg.foldl (fun q x => q.set x.1 x.2) p
    ((View.exec perm (asg.map (fun x => VOp.assign x.1 x.2) ++ script) ⟨s, p⟩).1.drop asg.length
        = (View.exec perm script ⟨s, p'⟩).1) ∧
    (View.exec perm (asg.map (fun x => VOp.assign x.1 x.2) ++ script) ⟨s, p⟩).2
        = (View.exec perm script ⟨s, p'⟩).2 := by
  intro asg
  induction asg with
  | nil => intro s p; exact ⟨rfl, rfl⟩
  | cons x asg ih =>
    intro s p
    obtain ⟨i1, i2⟩ := ih s (p.set x.1 x.2)
    exact ⟨i1, i2⟩

/-- `loader.batch_sampler.drop_incomplete = d` (`drop_last` for torch's `BatchSampler`) followed by
any script = the script on the loader whose configuration has `drop := d` and the SAME epoch sampler
(the constructor derives the sampler's `on_uneven_distributed` mode from `params.drop_last`; the
assignment does not, so under a process group this is not the loader `Loader.new` builds for `d`).
Definitional (`rfl`): documentation of the model, NOT counted as an obligation. -/
theorem C14_drop_assign (perm : Nat → List Nat) (script : List VOp) (d : Bool) (cfg : LoaderCfg)
    (smp : EpochSampler.State) (its : List LiveIter) (p : Present) :
    (View.exec perm (.setDrop d :: script) ⟨⟨⟨cfg, smp⟩, its⟩, p⟩).1.drop 1
      = (View.exec perm script ⟨⟨⟨{ cfg with drop := d }, smp⟩, its⟩, p⟩).1 := rfl

/-- Batch-first counterpart of `C14_collate_lang_tf_lossless` with the stable-sort clause. -/
theorem collate_lang_bf_lossless {β ι : Type} [DecidableEq β] (pad : β) (sort : Bool)
    (items : List (List β × ι)) :
    ∃ s : List (List β × ι),
      s.Perm items ∧ (sort = false → s = items) ∧
      (sort = true → IsStableDescSort (fun it : List β × ι => it.1.length) items s) ∧
      (langCollate pad sort items).2.1 = s.map (·.1.length) ∧
      (langCollate pad sort items).2.2 = s.map (·.2) ∧
      cutBack (langCollate pad sort items).1 (langCollate pad sort items).2.1 = s.map (·.1) ∧
      padCellsOk pad (langCollate pad sort items).1 (langCollate pad sort items).2.1 = true := by
  refine ⟨if sort then sortDesc (fun it => it.1.length) items else items, ?_, ?_, ?_, ?_, ?_, ?_, ?_⟩
  · cases sort
    · simp
    · simpa using sortDesc_perm _ items
  · intro h; simp [h]
  · intro h; subst h; simpa using sortDesc_isStable (fun it : List β × ι => it.1.length) items
  · simp [langCollate]
  · simp [langCollate]
  · exact cutBack_padSequence_map pad (fun it : List β × ι => it.1) _
  · exact padCellsOk_padSequence_map pad (fun it : List β × ι => it.1) _

/-- **C14_lang_loader_lossless**: what `LangDataLoader.collate_fn` hands back for an index batch `b`
under the flags `p` in force at the call (`langDeliver`): with `items` = the data set's elements for
`b` as the data set presents them under `p` (`tokens_only`), there is ONE arrangement `s` of `items`
(`items` itself when `sort_batch` is off, THE stable descending sort by length when it is on) such
that the reported sizes and ids are those of `s` and `refs`, read entry by entry in the layout the
loader reports at that call (`batch_first` of `p`), cut back to the reported sizes is `s`'s
sequences, every cell beyond holding the pad value; the tuple carries ids iff `suppress_uttids` is
off at that call. -/
theorem C14_lang_loader_lossless {β ι : Type} [DecidableEq β] (pad : β) (tok : β → β)
    (data : Nat → List β × ι) (p : Present) (b : List Nat) :
    let items := b.map (fun i => langItemUnder tok p (data i))
    let out := langDeliver pad tok data p b
    let rows := readRows out.2.1 items.length out.1.1
    out.2.1 = p.batchFirst ∧ out.2.2 = (!p.suppressUttids) ∧
    ∃ s : List (List β × ι),
      s.Perm items ∧ (p.sortBatch = false → s = items) ∧
      (p.sortBatch = true → IsStableDescSort (fun it : List β × ι => it.1.length) items s) ∧
      out.1.2.1 = s.map (·.1.length) ∧ out.1.2.2 = s.map (·.2) ∧
      cutBack rows out.1.2.1 = s.map (·.1) ∧ padCellsOk pad rows out.1.2.1 = true := by
  intro items out rows
  refine ⟨rfl, rfl, ?_⟩
  cases hbf : p.batchFirst with
  | true =>
    have ho : out.1 = langCollate pad p.sortBatch items := by
      show (langDeliver pad tok data p b).1 = _
      simp only [langDeliver, hbf, ↓reduceIte]
      rfl
    have hr : rows = (langCollate pad p.sortBatch items).1 := by
      show readRows (langDeliver pad tok data p b).2.1 _ (langDeliver pad tok data p b).1.1 = _
      simp only [langDeliver, hbf, readRows, ↓reduceIte]
      rfl
    rw [hr, ho]
    exact collate_lang_bf_lossless pad p.sortBatch items
  | false =>
    have ho : out.1 = langCollateTF pad p.sortBatch items := by
      show (langDeliver pad tok data p b).1 = _
      simp only [langDeliver, hbf, Bool.false_eq_true, ↓reduceIte]
      rfl
    have hr : rows = columns items.length (langCollateTF pad p.sortBatch items).1 := by
      show readRows (langDeliver pad tok data p b).2.1 _ (langDeliver pad tok data p b).1.1 = _
      simp only [langDeliver, hbf, readRows, Bool.false_eq_true, ↓reduceIte]
      rfl
    rw [hr, ho]
    exact C14_collate_lang_tf_lossless pad p.sortBatch items

/-- **C14_collate_spect_tf_lossless** (was: only obtainable by rewriting): the statements of
`C14_collate_spect` directly on the time-first layout - every padded member of
`spect_seq_to_batch(.., batch_first=False)` read entry by entry (`columns`). -/
theorem C14_collate_spect_tf_lossless {φ α ρ ι : Type} [DecidableEq φ] [DecidableEq α] [DecidableEq ρ]
    (padF : φ) (padA : α) (padR : ρ) (sort : Bool) (items : List (SpectItem φ α ρ ι)) :
    let tf := spectCollateTF padF padA padR sort items
    ∃ s : List (SpectItem φ α ρ ι),
      s.Perm items ∧ (sort = false → s = items) ∧
      (sort = true → IsStableDescSort (fun it : SpectItem φ α ρ ι => it.feat.length) items s) ∧
      tf.featSizes = s.map (·.feat.length) ∧ tf.uttids = s.map (·.uttid) ∧
      cutBack (columns items.length tf.feats) tf.featSizes = s.map (·.feat) ∧
      padCellsOk padF (columns items.length tf.feats) tf.featSizes = true ∧
      (∀ a, tf.alis = some a →
        ∃ al : List (List α), s.map (·.ali) = al.map some ∧
          cutBack (columns items.length a) (al.map List.length) = al ∧
          padCellsOk padA (columns items.length a) (al.map List.length) = true) ∧
      (tf.alis = none → ∃ it ∈ items, it.ali = none) ∧
      (∀ r, tf.refs = some r →
        ∃ rl : List (List ρ), s.map (·.ref) = rl.map some ∧ tf.refSizes = some (rl.map List.length) ∧
          cutBack (columns items.length r) (rl.map List.length) = rl ∧
          padCellsOk padR (columns items.length r) (rl.map List.length) = true) ∧
      (tf.refs = none → tf.refSizes = none ∧ ∃ it ∈ items, it.ref = none) := by
  intro tf
  have htf := C14_collate_spect_tf padF padA padR sort items
  simp only at htf
  obtain ⟨t1, t2, _, t4, t5, t6, _⟩ := htf
  have hperm : (if sort then sortDesc (fun it : SpectItem φ α ρ ι => it.feat.length) items else items).Perm items := by
    cases sort
    · simp
    · simpa using sortDesc_perm _ items
  refine ⟨if sort then sortDesc (fun it => it.feat.length) items else items, hperm, ?_, ?_, ?_, ?_, ?_, ?_, ?_, ?_, ?_, ?_⟩
  · intro h; simp [h]
  · intro h; subst h
    simpa using sortDesc_isStable (fun it : SpectItem φ α ρ ι => it.feat.length) items
  · show (spectCollateTF padF padA padR sort items).featSizes = _
    simp [spectCollateTF]
  · show (spectCollateTF padF padA padR sort items).uttids = _
    simp [spectCollateTF]
  · show cutBack (columns items.length (spectCollateTF padF padA padR sort items).feats)
      (spectCollateTF padF padA padR sort items).featSizes = _
    rw [t4, t1]
    exact cutBack_padSequence_map padF (fun it : SpectItem φ α ρ ι => it.feat) _
  · show padCellsOk padF (columns items.length (spectCollateTF padF padA padR sort items).feats)
      (spectCollateTF padF padA padR sort items).featSizes = true
    rw [t4, t1]
    exact padCellsOk_padSequence_map padF (fun it : SpectItem φ α ρ ι => it.feat) _
  · intro a ha
    have ha' : (spectCollateTF padF padA padR sort items).alis = some a := ha
    rw [ha'] at t5
    have hb : (spectCollate padF padA padR sort items).alis = some (columns items.length a) := t5.symm
    simp only [spectCollate, Option.map_eq_some_iff] at hb
    obtain ⟨al, h1, h2⟩ := hb
    refine ⟨al, allSome_eq_some h1, ?_, ?_⟩
    · rw [← h2]; exact cutBack_padSequence padA al
    · rw [← h2]; exact padCellsOk_padSequence padA al
  · intro ha
    have ha' : (spectCollateTF padF padA padR sort items).alis = none := ha
    rw [ha'] at t5
    have hb : (spectCollate padF padA padR sort items).alis = none := t5.symm
    simp only [spectCollate, Option.map_eq_none_iff] at hb
    obtain ⟨it, hit, hn⟩ := List.mem_map.1 (allSome_eq_none hb)
    exact ⟨it, hperm.subset hit, hn⟩
  · intro r hr
    have hr' : (spectCollateTF padF padA padR sort items).refs = some r := hr
    rw [hr'] at t6
    have hb : (spectCollate padF padA padR sort items).refs = some (columns items.length r) := t6.symm
    simp only [spectCollate, Option.map_eq_some_iff] at hb
    obtain ⟨rl, h1, h2⟩ := hb
    refine ⟨rl, allSome_eq_some h1, ?_, ?_, ?_⟩
    · show (spectCollateTF padF padA padR sort items).refSizes = _
      rw [t2]
      simp [spectCollate, h1]
    · rw [← h2]; exact cutBack_padSequence padR rl
    · rw [← h2]; exact padCellsOk_padSequence padR rl
  · intro hr
    have hr' : (spectCollateTF padF padA padR sort items).refs = none := hr
    rw [hr'] at t6
    have hb : (spectCollate padF padA padR sort items).refs = none := t6.symm
    simp only [spectCollate, Option.map_eq_none_iff] at hb
    obtain ⟨it, hit, hn⟩ := List.mem_map.1 (allSome_eq_none hb)
    refine ⟨?_, it, hperm.subset hit, hn⟩
    show (spectCollateTF padF padA padR sort items).refSizes = none
    rw [t2]
    simp [spectCollate, hb]


/-- Batch-first counterpart of `C14_collate_spect_tf_lossless` (`C14_collate_spect` with the
stable-sort clause and the explicit arrangement). -/
theorem collate_spect_bf_lossless {φ α ρ ι : Type} [DecidableEq φ] [DecidableEq α] [DecidableEq ρ]
    (padF : φ) (padA : α) (padR : ρ) (sort : Bool) (items : List (SpectItem φ α ρ ι)) :
    let bf := spectCollate padF padA padR sort items
    ∃ s : List (SpectItem φ α ρ ι),
      s.Perm items ∧ (sort = false → s = items) ∧
      (sort = true → IsStableDescSort (fun it : SpectItem φ α ρ ι => it.feat.length) items s) ∧
      bf.featSizes = s.map (·.feat.length) ∧ bf.uttids = s.map (·.uttid) ∧
      cutBack bf.feats bf.featSizes = s.map (·.feat) ∧
      padCellsOk padF bf.feats bf.featSizes = true ∧
      (∀ a, bf.alis = some a →
        ∃ al : List (List α), s.map (·.ali) = al.map some ∧
          cutBack a (al.map List.length) = al ∧ padCellsOk padA a (al.map List.length) = true) ∧
      (bf.alis = none → ∃ it ∈ items, it.ali = none) ∧
      (∀ r, bf.refs = some r →
        ∃ rl : List (List ρ), s.map (·.ref) = rl.map some ∧ bf.refSizes = some (rl.map List.length) ∧
          cutBack r (rl.map List.length) = rl ∧ padCellsOk padR r (rl.map List.length) = true) ∧
      (bf.refs = none → bf.refSizes = none ∧ ∃ it ∈ items, it.ref = none) := by
  intro bf
  have hperm : (if sort then sortDesc (fun it : SpectItem φ α ρ ι => it.feat.length) items else items).Perm items := by
    cases sort
    · simp
    · simpa using sortDesc_perm _ items
  refine ⟨if sort then sortDesc (fun it => it.feat.length) items else items, hperm, ?_, ?_, ?_, ?_, ?_, ?_, ?_, ?_, ?_, ?_⟩
  · intro h; simp [h]
  · intro h; subst h
    simpa using sortDesc_isStable (fun it : SpectItem φ α ρ ι => it.feat.length) items
  · show (spectCollate padF padA padR sort items).featSizes = _
    simp [spectCollate]
  · show (spectCollate padF padA padR sort items).uttids = _
    simp [spectCollate]
  · exact cutBack_padSequence_map padF (fun it : SpectItem φ α ρ ι => it.feat) _
  · exact padCellsOk_padSequence_map padF (fun it : SpectItem φ α ρ ι => it.feat) _
  · intro a ha
    have ha' : (spectCollate padF padA padR sort items).alis = some a := ha
    simp only [spectCollate, Option.map_eq_some_iff] at ha'
    obtain ⟨al, h1, rfl⟩ := ha'
    exact ⟨al, allSome_eq_some h1, cutBack_padSequence padA al, padCellsOk_padSequence padA al⟩
  · intro ha
    have ha' : (spectCollate padF padA padR sort items).alis = none := ha
    simp only [spectCollate, Option.map_eq_none_iff] at ha'
    obtain ⟨it, hit, hn⟩ := List.mem_map.1 (allSome_eq_none ha')
    exact ⟨it, hperm.subset hit, hn⟩
  · intro r hr
    have hr' : (spectCollate padF padA padR sort items).refs = some r := hr
    simp only [spectCollate, Option.map_eq_some_iff] at hr'
    obtain ⟨rl, h1, rfl⟩ := hr'
    refine ⟨rl, allSome_eq_some h1, ?_, cutBack_padSequence padR rl, padCellsOk_padSequence padR rl⟩
    show (spectCollate padF padA padR sort items).refSizes = _
    simp [spectCollate, h1]
  · intro hr
    have hr' : (spectCollate padF padA padR sort items).refs = none := hr
    simp only [spectCollate, Option.map_eq_none_iff] at hr'
    obtain ⟨it, hit, hn⟩ := List.mem_map.1 (allSome_eq_none hr')
    refine ⟨?_, it, hperm.subset hit, hn⟩
    show (spectCollate padF padA padR sort items).refSizes = none
    simp [spectCollate, hr']

/-- **C14_spect_loader_lossless**: what `SpectDataLoader.collate_fn` hands back for an index batch
`b` under the flags `p` in force at the call (`spectDeliver`). `items` = the data set's elements for
`b` as presented under `p` (`suppress_alis`: no alignment; `tokens_only`: references without their
segment columns). ALL members follow ONE arrangement `s` of `items` (`items` itself, or THE stable
descending sort by feature length when `sort_batch` is on at the call); read entry by entry in the
layout the loader reports at the call, `feats`, `alis`, `refs` cut back to their sizes are the
tensors of `s`, padding cells hold the pad values; `alis` / `refs` are `None` only if an element
lacks one; the tuple carries `alis` / `uttids` iff the `suppress_*` flag is off at the call. -/
theorem C14_spect_loader_lossless {φ α ρ ι : Type} [DecidableEq φ] [DecidableEq α] [DecidableEq ρ]
    (padF : φ) (padA : α) (padR : ρ) (tok : ρ → ρ) (data : Nat → SpectItem φ α ρ ι) (p : Present)
    (b : List Nat) :
    let items := b.map (fun i => spectItemUnder tok p (data i))
    let out := spectDeliver padF padA padR tok data p b
    out.batchFirst = p.batchFirst ∧ out.hasAlis = (!p.suppressAlis) ∧ out.hasUttids = (!p.suppressUttids) ∧
    ∃ s : List (SpectItem φ α ρ ι),
      s.Perm items ∧ (p.sortBatch = false → s = items) ∧
      (p.sortBatch = true → IsStableDescSort (fun it : SpectItem φ α ρ ι => it.feat.length) items s) ∧
      out.batch.featSizes = s.map (·.feat.length) ∧ out.batch.uttids = s.map (·.uttid) ∧
      cutBack (readRows out.batchFirst items.length out.batch.feats) out.batch.featSizes = s.map (·.feat) ∧
      padCellsOk padF (readRows out.batchFirst items.length out.batch.feats) out.batch.featSizes = true ∧
      (∀ a, out.batch.alis = some a →
        ∃ al : List (List α), s.map (·.ali) = al.map some ∧
          cutBack (readRows out.batchFirst items.length a) (al.map List.length) = al ∧
          padCellsOk padA (readRows out.batchFirst items.length a) (al.map List.length) = true) ∧
      (out.batch.alis = none → ∃ it ∈ items, it.ali = none) ∧
      (∀ r, out.batch.refs = some r →
        ∃ rl : List (List ρ), s.map (·.ref) = rl.map some ∧
          out.batch.refSizes = some (rl.map List.length) ∧
          cutBack (readRows out.batchFirst items.length r) (rl.map List.length) = rl ∧
          padCellsOk padR (readRows out.batchFirst items.length r) (rl.map List.length) = true) ∧
      (out.batch.refs = none → out.batch.refSizes = none ∧ ∃ it ∈ items, it.ref = none) := by
  intro items out
  refine ⟨rfl, rfl, rfl, ?_⟩
  cases hbf : p.batchFirst with
  | true =>
    have ho : out = ⟨spectCollate padF padA padR p.sortBatch items, true, !p.suppressAlis, !p.suppressUttids⟩ := by
      show spectDeliver padF padA padR tok data p b = _
      simp only [spectDeliver, hbf, ↓reduceIte]
      rfl
    rw [ho]
    simp only [readRows, ↓reduceIte]
    exact collate_spect_bf_lossless padF padA padR p.sortBatch items
  | false =>
    have ho : out = ⟨spectCollateTF padF padA padR p.sortBatch items, false, !p.suppressAlis, !p.suppressUttids⟩ := by
      show spectDeliver padF padA padR tok data p b = _
      simp only [spectDeliver, hbf, Bool.false_eq_true, ↓reduceIte]
      rfl
    rw [ho]
    simp only [readRows, Bool.false_eq_true, ↓reduceIte]
    exact C14_collate_spect_tf_lossless padF padA padR p.sortBatch items

/-! ### the hypotheses are satisfiable; the flags at the call decide: the loader of the previous
examples (rank 1 of 3: epoch 0 has the batches `[[1], [4]]`, epoch 1 has `[[2, 3]]`), constructed
time-first / unsorted; `sort_batch` is switched on BETWEEN the two batches of a live iterator,
`batch_first` after it. -/
def exFlags : Present := ⟨false, false, true, false, true⟩
def exView : List VOp :=
  [.io .newIter, .io (.next 0), .assign .sortBatch true, .io (.next 0), .assign .batchFirst true,
   .io (.setEpoch 1), .io .newIter, .io (.next 1)]

/-- the flags paired with the three `next` calls: as constructed; `sort_batch` on; both on -/
example : ((View.exec exPerm exView (View.new exLoader exFlags)).1.map (fun e => e.2.2)).map
      (fun q => (q.batchFirst, q.sortBatch))
    = [(false, false), (false, false), (false, true), (false, true), (true, true), (true, true), (true, true),
       (true, true)] := by
  simp [exView, View.exec, View.step, View.new, Present.set, exFlags]

/-- `C14_collate_call_time` applied: the second `next(it_0)` (position 3) hands out the index batch
`[4]` under the flags with `sort_batch` on - although the iterator was created and started before
the assignment -, the later assignment of `batch_first` is not seen. -/
example : (View.exec exPerm exView (View.new exLoader exFlags)).1[3]?
    = some (VOp.io (.next 0),
        (Session.step exPerm (.next 0)
          (Session.exec exPerm (ioOps [.io .newIter, .io (.next 0), .assign .sortBatch true]) (Session.new exLoader)).2).1,
        presentAfter exFlags [.io .newIter, .io (.next 0), .assign .sortBatch true]) :=
  C14_collate_call_time exPerm [.io .newIter, .io (.next 0), .assign .sortBatch true]
    [.assign .batchFirst true, .io (.setEpoch 1), .io .newIter, .io (.next 1)] (.next 0)
    (View.new exLoader exFlags) (by decide)
example : presentAfter exFlags [.io .newIter, .io (.next 0), .assign .sortBatch true]
    = ⟨false, true, true, false, true⟩ := rfl

/-- `C14_assign_eq_construct` applied: two assignments right after construction = constructed with them -/
example := C14_assign_eq_construct exPerm [.io .newIter, .io (.next 0), .io .len]
  [(.batchFirst, true), (.suppressUttids, true)] (Session.new exLoader) exFlags
example : ([(Attr.batchFirst, true), (Attr.suppressUttids, true)].foldl (fun q x => q.set x.1 x.2) exFlags)
    = ⟨true, false, true, true, true⟩ := rfl

/-- `C14_attr_frame` applied: `exView` without its assignments is a `Session` script -/
example : ioOps exView = [.newIter, .next 0, .next 0, .setEpoch 1, .newIter, .next 1] := rfl
example := C14_attr_frame exPerm exView (View.new exLoader exFlags) (by decide)

/-- `C14_lang_loader_lossless` / `langDeliver` on a concrete batch: three utterances (ids 0, 1, 2 with
lengths 1, 2, 1), `sort_batch` on, time-first: the columns of `refs` are the sorted sequences, ties
(utterances 0 and 2) in sampler order. -/
def exLang : Nat → List Int × Nat := fun i => (if i = 1 then [21, 22] else [10 * (i + 1 : Nat)], i)
example : langDeliver (-100 : Int) id exLang ⟨false, true, true, false, true⟩ [0, 1, 2]
    = (([[21, 10, 30], [22, -100, -100]], [2, 1, 1], [1, 0, 2]), false, true) := by decide
example : readRows false 3 [[21, 10, 30], [22, -100, -100]] = [[21, 22], [10, -100], [30, -100]] := by decide
/-- the same batch with the flags as constructed (`exFlags` but batch-first): input order, `[n][t]` -/
example : langDeliver (-100 : Int) id exLang ⟨true, false, true, true, true⟩ [0, 1, 2]
    = (([[10, -100], [21, 22], [30, -100]], [1, 2, 1], [0, 1, 2]), true, false) := by decide

/-- `spectDeliver` with `suppress_alis` off and `tokens_only` on (`tok` keeps the first column):
time-first, sorted by feature length -/
def exSpect : Nat → SpectItem Int Int (List Int) Nat := fun i =>
  if i = 0 then ⟨[1], some [7], some [[5, 0, 1], [6, 1, 2]], 0⟩ else ⟨[2, 3], some [8, 9], some [[4, 0, 2]], 1⟩
example :
    let out := spectDeliver (0 : Int) (-100 : Int) ([-100] : List Int) (fun r => r.take 1) exSpect
      ⟨false, true, false, false, true⟩ [0, 1]
    out.batch.feats = [[2, 1], [3, 0]] ∧ out.batch.alis = some [[8, 7], [9, -100]] ∧
    out.batch.refs = some [[[4], [5]], [[-100], [6]]] ∧ out.batch.featSizes = [2, 1] ∧
    out.batch.refSizes = some [1, 2] ∧ out.batch.uttids = [1, 0] ∧ out.batchFirst = false ∧
    out.hasAlis = true ∧ out.hasUttids = true := by decide

/-! ## `sampler.base_seed` reassigned after construction (`Seeded`: improvement round 4)

The ordering source of a shuffled loader is `src : base_seed → epoch → ordering`; the `Seeded` layer
runs every `View` operation on the orderings of the seed stored AT THAT MOMENT. -/

/-- **C14_reseed_call_time**: in any script `pre ++ op :: post` (operations of the `View` language and
assignments `sampler.base_seed = s` in any order, iterators alive or not), operation `op` shows what
`View.step` shows on the orderings of the seed AS LAST ASSIGNED in `pre` (the constructor's where
never assigned): nothing derived from an earlier seed - by a pass, a `len()`, a look-up of the very
same epoch - takes part, nor anything assigned later. -/
theorem C14_reseed_call_time (src : Nat → Nat → List Nat) (pre post : List SOp) (o : VOp) (z : Seeded) :
    (Seeded.exec src (pre ++ .v o :: post) z).1[pre.length]?
      = some (.v o, some (View.step (src (seedAfter z.seed pre)) o (Seeded.exec src pre z).2.view).1) := by
  rw [Seeded.exec_append]
  have hl := Seeded.exec_length src pre z
  rw [List.getElem?_append_right (by omega), hl, Nat.sub_self, ← Seeded.exec_seed]
  rfl

/-- **C14_reseed_seed_epoch** (identical (seed, epoch) ⇒ identical batches, with the seed a mutable
attribute): after ANY script `pre` on ANY loader - whatever seeds were stored before, whichever
epochs were materialised under them, by passes, `len()` or look-ups -, `sampler.base_seed = s;
loader.epoch = e; for batch in loader` delivers exactly the pass of the loader `⟨cfg', sampler
configuration, epoch e⟩` on the ordering `src s e`, where the sampler configuration, `lens`, `nb`,
`B`, `dynamic` are the constructor's and `cfg'.drop` is the drop flag AS LAST ASSIGNED in `pre`
(`dropAfter`; audit F: this clause was claimed in the text but not stated), collated under the
presentation flags as last assigned in `pre` (`presentAfterS`): a function of the constructor
arguments, the drop / presentation flags in force and (s, e), of nothing else. -/
theorem C14_reseed_seed_epoch (src : Nat → Nat → List Nat) (pre : List SOp) (z : Seeded) (s e : Nat) :
    let z' := (Seeded.exec src pre z).2
    let l := z'.view.session.loader
    let c0 := z.view.session.loader.cfg
    (Seeded.exec src [.setSeed s, .v (.io (.setEpoch e)), .v (.io .serve)] z').1.getLast?
        = some (.v (.io .serve),
            some (.pass (Loader.serve (src s)
                    ⟨⟨c0.lens, c0.nb, c0.B, c0.dynamic, dropAfter c0.drop pre⟩,
                     ⟨z.view.session.loader.sampler.cfg, e⟩⟩).1,
                  presentAfterS z.view.present pre)) ∧
    l.sampler.cfg = z.view.session.loader.sampler.cfg ∧
    l.cfg = { c0 with drop := dropAfter c0.drop pre } := by
  intro z' l c0
  obtain ⟨h1, h2, h3, h4, h5⟩ := Seeded.exec_fixed src pre z
  have h6 : l.cfg.drop = dropAfter c0.drop pre := Seeded.exec_drop src pre z
  have h7 : z'.view.present = presentAfterS z.view.present pre := Seeded.exec_present src pre z
  have hc : l.cfg = ⟨c0.lens, c0.nb, c0.B, c0.dynamic, dropAfter c0.drop pre⟩ := by
    have e2 : l.cfg.lens = c0.lens := h2
    have e3 : l.cfg.nb = c0.nb := h3
    have e4 : l.cfg.B = c0.B := h4
    have e5 : l.cfg.dynamic = c0.dynamic := h5
    rw [← e2, ← e3, ← e4, ← e5, ← h6]
  have hs : l.sampler.cfg = z.view.session.loader.sampler.cfg := h1
  refine ⟨?_, hs, hc⟩
  rw [← hc, ← hs, ← h7]
  rfl

/-- `C14_reseed_call_time` / `C14_reseed_seed_epoch` applied: two orderings per seed, epoch 0 served
under seed 1, the seed reassigned, epoch 0 again: the second pass is seed 2's ordering. -/
def exSrc : Nat → Nat → List Nat := fun s e => if s = 1 then (if e = 0 then [0, 1, 2] else [2, 1, 0]) else [1, 2, 0]
def exSeededLoader : Loader := ⟨⟨[3, 3, 3], 1, 2, false, false⟩, ⟨⟨3, 3, 0, 1⟩, 0⟩⟩
example : Loader.new ⟨[3, 3, 3], 1, 2, false, false⟩ .ignore none 0 = some exSeededLoader := by rfl
example :
    (Seeded.exec exSrc [.v (.io .serve), .setSeed 2, .v (.io (.setEpoch 0)), .v (.io .serve)]
        ⟨View.new exSeededLoader ⟨true, false, true, true, true⟩, 1⟩).1.filterMap
          (fun p => match p.2 with | some (.pass (.ok (bs, _)), _) => some bs | _ => none)
      = [[[0, 1], [2]], [[1, 2], [0]]] := by
  simp [Seeded.exec, Seeded.step, View.step, View.new, Session.step, Session.new, Loader.serve, Loader.setEpoch,
    EpochSampler.iter, EpochSampler.samples, EpochSampler.islice, EpochSampler.everyNth, exSeededLoader, exSrc]
  rfl

/-! audit F: both theorems APPLIED to a script in which everything the statements speak about happens -
an iterator started under seed 1 and still alive, `len()` and a look-up of epoch 0 under seed 1, the
drop flag and a presentation flag assigned, the seed assigned twice. -/
def exSeededPre : List SOp :=
  [.v (.io .newIter), .v (.io (.next 0)), .v (.io .len), .v (.io (.peek 0)), .setSeed 5,
   .v (.setDrop true), .v (.assign .batchFirst false), .setSeed 2]
def exSeeded0 : Seeded := ⟨View.new exSeededLoader ⟨true, false, true, true, true⟩, 1⟩

example : seedAfter 1 exSeededPre = 2 ∧ dropAfter false exSeededPre = true ∧
    presentAfterS ⟨true, false, true, true, true⟩ exSeededPre = ⟨false, false, true, true, true⟩ := by decide

/-- the live iterator goes on with seed 1's epoch-0 batches (`[2]` after `[0, 1]`) although the seed
in force is 2 by then: `C14_reseed_call_time` with `o = next(it_0)` -/
example : (Seeded.exec exSrc (exSeededPre ++ .v (.io (.next 0)) :: [.v (.io .serve)]) exSeeded0).1[exSeededPre.length]?
    = some (.v (.io (.next 0)),
        some (View.step (exSrc 2) (.io (.next 0)) (Seeded.exec exSrc exSeededPre exSeeded0).2.view).1) := by
  have h := C14_reseed_call_time exSrc exSeededPre [.v (.io .serve)] (.io (.next 0)) exSeeded0
  rw [show seedAfter exSeeded0.seed exSeededPre = 2 by decide] at h
  exact h

/-- epoch 0 again under seed 2 with the drop flag assigned: one full batch of seed 2's ordering, the
incomplete one dropped - not seed 1's `[[0, 1], [2]]` (`C14_reseed_seed_epoch`) -/
example : (Seeded.exec exSrc [.setSeed 2, .v (.io (.setEpoch 0)), .v (.io .serve)]
      (Seeded.exec exSrc exSeededPre exSeeded0).2).1.getLast?
    = some (.v (.io .serve), some (.pass (.ok ([[1, 2]], none)), ⟨false, false, true, true, true⟩)) := by
  rw [(C14_reseed_seed_epoch exSrc exSeededPre exSeeded0 2 0).1]
  simp [exSeeded0, exSeededPre, dropAfter, SOp.dropOf, presentAfterS, SOp.presentOf, VOp.apply, Present.set,
    View.new, Session.new, Loader.serve, EpochSampler.iter, EpochSampler.samples, EpochSampler.islice,
    EpochSampler.everyNth, exSeededLoader, exSrc]
  rfl

end PdtVerif.Batching
