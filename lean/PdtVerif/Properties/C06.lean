import PdtVerif.Lemmas.NgramTrie
import PdtVerif.Lemmas.NgramWindow
import PdtVerif.Lemmas.NgramLayout
import PdtVerif.Lemmas.NgramFlatCheck
import PdtVerif.Lemmas.NgramRemap
import PdtVerif.Lemmas.NgramShape
import PdtVerif.Lemmas.NgramLevel
import PdtVerif.Lemmas.NgramFlat
import PdtVerif.Lemmas.NgramBuildMem
import PdtVerif.Lemmas.NgramArpa
/-!
# C06 — the n-gram lookup model computes Katz back-off on any table

Property theorems only. Model: `Model/NgramTrie.lean` (follows `_lm.py`), spec:
`Spec/Backoff.lean` (`bo`, `context`).

Layers:

* `C06_tree`, `C06_tree_table` – the two-path descent of `_lookup_calc_idx_log_probs`
  (`descend`, the very function the driver runs on the flat buffers) computes the Katz
  recursion on every navigation structure that represents the table; the abstract reverse
  trie of an arbitrary finite table (listed n-grams + all their suffixes as implicit
  `(-inf, 0)` nodes) is such a structure, for every table, order, sparsity and window.
* `C06_idx_scalar`, `C06_idx_vec`, `C06_chunk`, `C06_full_eq_idx` – every evaluation route
  (scalar index, per-element indices, all positions in chunks of any size, one index at a
  time) evaluates the same row for the spec's left-padded context.
* `C06_lookup_partial` / `C06_lookup_checked` – the two combined *given* that the flat buffers
  represent the table / pass the executable layout check.
* `C06_flat` – they always do: for every table `buildTrie` accepts, the buffers it lays out pass
  the check (`C06_closure`, `C06_levels_layout`, `C06_child_scan` are its pieces), hence
  `C06_lookup` / `C06_model`: rows of the model = Katz recursion on the raw table, unconditionally.
* `C06_build_result`, `C06_build_pure`, `C06_build_reuse`, `C06_reuse_model` – construction as a
  procedure on the caller's objects (`Model/NgramBuildMem.lean`: a heap of list and dict objects,
  `destructive` decides whether the code edits copies or the caller's own table): the buffers are a
  function of the table's contents at call time only, a non-destructive construction leaves every
  existing object unchanged (table' = table), so any number of models built from one table object –
  with any start symbols – are each the model of the ORIGINAL table and evaluate its Katz recursion.
  (Destructive constructions are covered for tables whose dict objects are pairwise distinct only – audit E.)
* `*_nonvacuous`, `*_witness` and the `example`s instantiate the hypotheses on concrete inputs through the
  theorems; they are tests and are not counted as obligations.
-/
namespace PdtVerif.NgramTrie
open PdtVerif.Backoff

/-- **C06_tree.** On any navigation structure that represents the table `tbl` (a node
reached along a reversed key carries the table's values, an unreachable key is not listed),
the two-path descent returns the Katz back-off value, for every window (= every order)
and every candidate token. -/
theorem C06_tree {ν : Type} (nav : Nav ν) (tbl : Table) (D : Int → Prop)
    (H : Represents nav tbl D) (win : List Int) (w : Int) (hw : D w) (hwin : ∀ t ∈ win, D t) :
    descend nav win.reverse w = LogP.ofOption (bo tbl w win) :=
  descend_eq_bo nav tbl D H win w hw hwin

/-- **C06_tree for the abstract reverse trie of any table**: no assumption on the table
(any order, arbitrarily sparse, lower-order suffixes and unigrams missing, `-inf`
entries), on the window or on the token. -/
theorem C06_tree_table (items : List (List Int × Entry)) (win : List Int) (w : Int) :
    descend (trieNav items) win.reverse w = LogP.ofOption (bo (ofList items) w win) :=
  descend_eq_bo (trieNav items) (ofList items) (fun _ => True) (trieNav_represents items) win w
    trivial (fun _ _ => trivial)

/-- **Scalar index**: `calc_idx_log_probs(hist, idx=i)` evaluates, for every batch element,
the row of the context "last `N-1` tokens of `hist[:i]`, left-padded with `sos`". -/
theorem C06_idx_scalar (b : Buffers) (V : Nat) (sos : Int) (B : Nat) (hist : List (List Int))
    (i : Nat) (hi : i ≤ hist.length) :
    calcIdxScalar b V sos B hist i =
      (List.range B).map (fun bb => rowOf b V sos (context b.N sos (col hist bb) i)) :=
  calcIdxScalar_eq b V sos B hist i hi

/-- **Per-element indices** (`masked_select` / `view` branch): element `bb` gets the row of
its own context at `hidx[bb]`, although the padding is shared by the whole batch. -/
theorem C06_idx_vec (b : Buffers) (hN : 1 ≤ b.N) (V : Nat) (sos : Int) (B : Nat)
    (hist : List (List Int)) (hidx : List Nat) (hlen : hidx.length = B)
    (hle : ∀ x ∈ hidx, x ≤ hist.length) :
    calcIdxVec b V sos B hist hidx =
      (List.range B).map (fun bb => rowOf b V sos (context b.N sos (col hist bb) (hidx.getD bb 0))) :=
  calcIdxVec_eq b hN V sos B hist hidx hlen hle

/-- **C06_chunk.** `calc_full_log_probs_chunked` returns the same `(T+1) × B` rows for every
chunk size `≥ 1`: position `t`, element `bb` is the row of the spec's context. -/
theorem C06_chunk (b : Buffers) (V : Nat) (sos : Int) (B : Nat) (hist : List (List Int))
    (hrows : ∀ r ∈ hist, r.length = B) (chunk : Nat) (hchunk : 1 ≤ chunk) :
    fullChunked b V sos B hist chunk =
      (List.range (hist.length + 1)).map (fun t =>
        (List.range B).map (fun bb => rowOf b V sos (context b.N sos (col hist bb) t))) :=
  fullChunked_eq b V sos B hist hrows chunk hchunk

/-- Any two chunk sizes agree. -/
theorem C06_chunk_indep (b : Buffers) (V : Nat) (sos : Int) (B : Nat) (hist : List (List Int))
    (hrows : ∀ r ∈ hist, r.length = B) (c₁ c₂ : Nat) (h₁ : 1 ≤ c₁) (h₂ : 1 ≤ c₂) :
    fullChunked b V sos B hist c₁ = fullChunked b V sos B hist c₂ := by
  rw [C06_chunk b V sos B hist hrows c₁ h₁, C06_chunk b V sos B hist hrows c₂ h₂]

/-- **C06_chunk_layout.** The chunked evaluation does not depend on how the `(T, B)` history
tensor is laid out in memory: for every view (any storage, storage offset, strides – a
transposed batch-first tensor, a slice `longer[k:]`, every second row, a column block …)
`hist.contiguous()` followed by `as_strided` at `storage_offset() + B*(t - Nm1)` yields, for
every chunk size, the rows of the spec's contexts of the *logical* content `v.rows`.
(The pinned code passed `B*(t - Nm1)` alone – see `C06_chunk_layout_counterexample`.) -/
theorem C06_chunk_layout (b : Buffers) (V : Nat) (sos : Int) (v : View) (chunk : Nat)
    (hchunk : 1 ≤ chunk) :
    fullChunkedView b V sos v chunk =
      (List.range (v.T + 1)).map (fun t =>
        (List.range v.B).map (fun bb => rowOf b V sos (context b.N sos (col v.rows bb) t))) := by
  rw [fullChunkedView_eq b V sos v chunk hchunk,
    fullChunked_eq b V sos v.B v.rows v.rows_row_length chunk hchunk, View.rows_length]
  rfl

/-- **C06_full_eq_idx.** All positions at once (any chunk size) = one index at a time on the
whole history (`SequentialLanguageModel.calc_full_log_probs`). -/
theorem C06_full_eq_idx (b : Buffers) (V : Nat) (sos : Int) (B : Nat) (hist : List (List Int))
    (hrows : ∀ r ∈ hist, r.length = B) (chunk : Nat) (hchunk : 1 ≤ chunk) :
    fullChunked b V sos B hist chunk = fullByIdx b V sos B hist := by
  rw [fullChunked_eq b V sos B hist hrows chunk hchunk, fullByIdx_eq]

/-- … and position `i` of the full result is what a scalar index returns. -/
theorem C06_full_get_scalar (b : Buffers) (V : Nat) (sos : Int) (B : Nat) (hist : List (List Int))
    (hrows : ∀ r ∈ hist, r.length = B) (chunk : Nat) (hchunk : 1 ≤ chunk) (i : Nat)
    (hi : i ≤ hist.length) :
    (fullChunked b V sos B hist chunk)[i]? = some (calcIdxScalar b V sos B hist i) := by
  rw [fullChunked_eq b V sos B hist hrows chunk hchunk, calcIdxScalar_eq_posRows _ _ _ _ _ _ hi]
  simp [List.getElem?_range, Nat.lt_succ_of_le hi]

/-- … and a per-element index vector picks, for element `bb`, entry `[hidx[bb]][bb]` of the
full result. -/
theorem C06_full_get_vec (b : Buffers) (hN : 1 ≤ b.N) (V : Nat) (sos : Int) (B : Nat)
    (hist : List (List Int)) (hrows : ∀ r ∈ hist, r.length = B) (chunk : Nat) (hchunk : 1 ≤ chunk)
    (hidx : List Nat) (hlen : hidx.length = B) (hle : ∀ x ∈ hidx, x ≤ hist.length)
    (bb : Nat) (hbb : bb < B) :
    (calcIdxVec b V sos B hist hidx)[bb]? =
      ((fullChunked b V sos B hist chunk)[hidx.getD bb 0]?).bind (·[bb]?) := by
  have hmem : hidx.getD bb 0 ∈ hidx := by
    rw [List.getD_eq_getElem?_getD, List.getElem?_eq_getElem (by omega)]
    simp
  have hi := hle _ hmem
  rw [fullChunked_eq b V sos B hist hrows chunk hchunk, calcIdxVec_eq b hN V sos B hist hidx hlen hle]
  have h1 : ((List.range (hist.length + 1)).map (posRows b V sos B hist))[hidx.getD bb 0]? =
      some (posRows b V sos B hist (hidx.getD bb 0)) := by
    rw [List.getElem?_map, List.getElem?_range (by omega)]; rfl
  rw [h1, Option.bind_some]
  unfold posRows
  rw [List.getElem?_map, List.getElem?_map, List.getElem?_range hbb]; rfl

/-- The pinned code's windows: `as_strided(…, B*(t - Nm1))` without `storage_offset()`. -/
def fullChunkedViewPinned (b : Buffers) (V : Nat) (sos : Int) (v : View) (chunk : Nat) :
    List (List (List LogP)) :=
  let c := v.contiguous
  let Nm1 := min c.T (b.N - 1)
  (List.range Nm1).map (fun i => calcIdxScalar b V sos c.B (c.rows.take i) i) ++
    chunkLoop b V sos c.B c.T Nm1 chunk c.storage (c.T + 1) Nm1

/-- A bigram model over `{0, 1}` whose unigram buffers are all that matters here. -/
def exBuf : Buffers :=
  { N := 2, G := 1, S := 1, offsets := #[3, 3, 2, 2], ids := #[0],
    logps := #[.fin (-1), .fin (-2), .nan, .fin (-3)], logbs := #[.fin 0, .fin 0, .nan],
    offBits := 8, idBits := 8 }

/-- `hist = longer[1:]` with `longer = [[1], [0]]`: one row `[0]`, storage offset 1. -/
def exView : View := ⟨[1, 0], 1, 1, 1, 1, 1⟩

/-- **Counterexample for the pinned code** (fixes/C06-chunked-storage-offset.diff): on the
slice `longer[1:]` – contiguous for torch, storage offset 1 – the pinned windows show the
row that was sliced away, the result differs from the evaluation on the logical content. -/
theorem C06_chunk_layout_counterexample :
    exView.isContig = true ∧ exView.rows = [[0]] ∧
    fullChunkedViewPinned exBuf 2 0 exView 1 ≠ fullChunked exBuf 2 0 1 exView.rows 1 ∧
    fullChunkedView exBuf 2 0 exView 1 = fullChunked exBuf 2 0 1 exView.rows 1 := by
  decide +kernel

/-! ## the flat-buffer layer -/

/-- **C06_lookup_partial.** (Superseded by `C06_lookup`, kept as the bridge.) Given the flat-buffer layer as a hypothesis (`hflat`: the buffers
navigate as a reverse trie of `tbl`, up to what a model of order `b.N` looks at), a row of
the model is the Katz recursion on the table for the remapped window. (An earlier version
asked for the unrestricted `Represents`, which real buffers cannot satisfy: the nodes of the
highest order have no back-off slot.) -/
theorem C06_lookup_partial (b : Buffers) (V : Nat) (sos : Int) (tbl : Table) (D : Int → Prop)
    (hflat : RepresentsN (flatNav b (uOf V sos b.N)) tbl D b.N)
    (win : List Int) (hlen : win.length + 1 ≤ b.N)
    (hwin : ∀ t ∈ win, D (remapTok V sos t)) (hV : ∀ w, w < V → D (Int.ofNat w)) :
    rowOf b V sos win =
      (List.range V).map (fun w => LogP.ofOption (bo tbl (Int.ofNat w) (win.map (remapTok V sos)))) := by
  unfold rowOf
  by_cases hN : b.N = 1
  · rw [if_pos hN]
    have hw0 : win = [] := List.eq_nil_of_length_eq_zero (by omega)
    subst hw0
    apply List.map_congr_left
    intro w hw
    have hD := hV w (List.mem_range.mp hw)
    have hr : reach (flatNav b (uOf V sos b.N)) [Int.ofNat w].reverse = some w := by
      simp [reach, walkSt, flatNav]
    have := hflat.logp_some [Int.ofNat w] w (by simpa using hD) (by simp; omega) hr
    simp only [flatNav] at this
    rw [this]; simp [bo]
  · rw [if_neg hN]
    apply List.map_congr_left
    intro w hw
    exact descend_eq_boN _ tbl D b.N hflat _ (by simpa using hlen) _ (hV w (List.mem_range.mp hw))
      (by intro t ht; simp at ht; obtain ⟨a, ha, rfl⟩ := ht; exact hwin a ha)

/-- **C06_flat_checked.** Soundness of the executable layout check: buffers that pass
`checkFlat` for a table navigate as a reverse trie of that table – every node the lookup can
reach (following the `offsets`/`ids` scan of the lookup itself) carries the table's values,
and every listed key is reachable. This is `C06_flat` with "the buffers built by
`buildTrie`" replaced by "any buffers that pass the check"; the driver evaluates the check on
the buffers built for every generated case. -/
theorem C06_flat_checked (b : Buffers) (V : Nat) (sos : Int) (items : List (List Int × Entry))
    (hchk : checkFlat b (uOf V sos b.N) (V + shiftOf V sos) items = true) :
    RepresentsN (flatNav b (uOf V sos b.N)) (ofList items)
      (fun t => 0 ≤ t ∧ t < ((V + shiftOf V sos : Nat) : Int)) b.N :=
  checkFlat_sound b _ _ items hchk

/-- **C06_lookup_checked.** End to end for checked buffers: if the buffers `b` pass the
layout check for the (remapped) table of `dicts`, then every row the lookup model computes
for a window of valid tokens is the Katz recursion **on the raw table with the raw window**
– no hypothesis about the layout left, only the decidable check. -/
theorem C06_lookup_checked (V : Nat) (sos : Int) (dicts : List (List Item)) (b : Buffers)
    (hchk : checkBuilt V sos dicts b = true)
    (hkeys : ∀ e ∈ tableOf dicts, ∀ t ∈ e.1, validTok V sos t)
    (win : List Int) (hlen : win.length + 1 ≤ b.N) (hwin : ∀ t ∈ win, validTok V sos t) :
    rowOf b V sos win =
      (List.range V).map (fun w => LogP.ofOption (bo (ofList (tableOf dicts)) (Int.ofNat w) win)) := by
  have H := C06_flat_checked b V sos _ hchk
  rw [C06_lookup_partial b V sos _ _ H win hlen
    (fun t ht => remapTok_dom V sos t (hwin t ht)) (fun w hw => ofNat_dom V sos w hw)]
  apply List.map_congr_left
  intro w hw
  have hwV : w < V := List.mem_range.mp hw
  have := bo_remap V sos (tableOf dicts) hkeys (Int.ofNat w)
    (Or.inl ⟨Int.natCast_nonneg w, by show (w : Int) < V; exact_mod_cast hwV⟩) win hwin
  rw [remapTok_ofNat V sos w hwV] at this
  rw [this]

/-- **C06_shape_roundtrip.** What `load_state_dict` of a freshly constructed
`LookupLanguageModel(V, sos)` infers from the buffers that `_build_trie` produced: for every
accepted table (any order, any sparsity; the unigram keys pairwise distinct, as the keys of a
Python dict are) it recovers `max_ngram` = the order of the table, `max_ngram_nodes` = the
number of n-grams of the highest order (for a unigram table: all `V + shift` unigram nodes)
and `max_direct_descendants` = the value the constructor computed. Proof: the dummy cell in
front of every level holds `len(level) + 1` and no later write (walk-back over childless
parents, trailing fill, later levels) touches a non-zero cell; the loop of `load_state_dict`
hops exactly along these cells. -/
theorem C06_shape_roundtrip (V : Nat) (sos : Int) (dicts : List (List Item)) (b : Buffers)
    (hb : buildTrie V sos dicts = some b) (hnd : keysNodup (dicts.headD [])) :
    inferShape V sos b.offsets b.ids.size b.logps.size = some (b.N, b.G, b.S) ∧
    b.N = dicts.length ∧
    b.G = if dicts.length = 1 then V + shiftOf V sos else (dicts.getLastD []).length :=
  inferShape_buildTrie V sos dicts b hb hnd

/-- **C06_level_offsets** (the offsets invariant of one level of `_build_trie`, a part of
`C06_flat`). For the literal `fillLevel` of the model – dummy write, one walk-back over
childless parents per allocated n-gram, trailing fill: if the parent level occupies the
cells `[lo, start)` (`start = f.allocated`), still all zero, the cell below it (if any) not,
and the parents' indices `ps` that the `parents` dictionary returns for the sorted n-grams
are non-decreasing and inside the parent level, then afterwards

* `q + offsets[q] = start + 1 + #{k | ps[k] < q}` for every parent `q`: the children of `q`
  are exactly the cells `[q + offsets[q], q+1 + offsets[q+1])`, childless parents in the
  middle point to the next parent's first child, trailing ones one past the level;
* the dummy cell holds `len(level) + 1` and no cell outside `[lo, start]` changed.

Values are unbounded naturals: the integer width is not part of this statement (the two
`uint8` defects of the pinned code lived exactly there). -/
theorem C06_level_offsets (U : Nat) (isTop : Bool) (d : List Item) (f : Fill) (lo : Nat)
    (hlo : lo ≤ f.allocated) (hd : d ≠ [])
    (hmono : Mono ((sortLevel d).map
      (fun e => (f.parents.lookup e.key.dropLast).getD 0 + f.lastStart)))
    (hrange : ∀ p ∈ (sortLevel d).map
      (fun e => (f.parents.lookup e.key.dropLast).getD 0 + f.lastStart), lo ≤ p ∧ p < f.allocated)
    (hsz : f.allocated < f.offsets.size)
    (hzero : ∀ q, lo ≤ q → q < f.allocated → f.offsets.getD q 0 = 0)
    (hguard : lo = 0 ∨ f.offsets.getD (lo - 1) 0 ≠ 0) :
    (∀ q, lo ≤ q → q < f.allocated →
      (fillLevel U isTop d f).offsets.getD q 0 + q = f.allocated + 1 +
        ((sortLevel d).map (fun e => (f.parents.lookup e.key.dropLast).getD 0 + f.lastStart)).countP
          (fun x => decide (x < q))) ∧
    (fillLevel U isTop d f).offsets.getD f.allocated 0 = d.length + 1 ∧
    (∀ q, q < lo ∨ f.allocated < q →
      (fillLevel U isTop d f).offsets.getD q 0 = f.offsets.getD q 0) := by
  have hlen : ((sortLevel d).map
      (fun e => (f.parents.lookup e.key.dropLast).getD 0 + f.lastStart)).length = d.length := by
    rw [List.length_map, sortLevel_length]
  have hne : (sortLevel d).map
      (fun e => (f.parents.lookup e.key.dropLast).getD 0 + f.lastStart) ≠ [] := by
    intro e
    have := congrArg List.length e
    rw [hlen] at this
    exact hd (List.eq_nil_of_length_eq_zero this)
  have h := level_offsets f.offsets lo f.allocated hlo _ hne hmono hrange hsz hzero hguard
  rw [hlen] at h
  rw [fillLevel_offsets]
  exact ⟨h.1, h.2.1, h.2.2.1⟩

/-! ### `C06_flat`: the flat-buffer layer, proved

The former TARGET. Pieces: (a) the level sorted by reversed key has non-decreasing parent
indices, (b) every node's cells are written once and never again – both in `C06_levels_layout`;
(c) the scan over `max_direct_descendants` slots finds the unique child – `C06_child_scan`;
(d) the closed table differs from the raw one only by `(-inf, 0)` entries – `C06_closure`. -/

/-- **C06_child_scan** (piece c). On a laid-out level (`LevelOK`: parents `K` at `lo, lo+1, …`,
their children `S` behind the dummy cell, `ps` the non-decreasing parents' indices) the scan of
`_lookup_calc_idx_log_probs` over `S = max_direct_descendants` slots – matches *summed* – from
the parent with reversed key `r` and the token `t` returns the node with key `r ++ [t]`, or
nothing when there is none: sibling ids are pairwise distinct and no block is wider than `b.S`. -/
theorem C06_child_scan (b : Buffers) (U lo : Nat) (K : List (List Int)) (S : List Item) (ps : List Nat)
    (isTop : Bool) (L : LevelOK b.offsets b.ids b.logps b.logbs U lo K S ps isTop) (hK : K.Nodup)
    (hS : ∀ q, lo ≤ q → q < lo + K.length →
      ps.countP (fun x => decide (x < q + 1)) - ps.countP (fun x => decide (x < q)) ≤ b.S)
    (j : Nat) (r : List Int) (hj : K[j]? = some r) (t : Int) :
    (∀ k (hk : k < S.length), S[k].key = r ++ [t] →
      (flatNav b U).child (lo + j) t = some (lo + K.length + 1 + k)) ∧
    ((∀ e ∈ S, e.key ≠ r ++ [t]) → (flatNav b U).child (lo + j) t = none) :=
  child_level b U lo K S ps isTop L hK hS j r hj t

/-- **C06_levels_layout** (pieces a and b). The literal allocation loop of `_build_trie`
(`fillLevels`: dummy write, `children` dictionary, one walk-back per node, trailing fill) on
levels that are suffix-closed with pairwise distinct keys (`LevelsOK`) leaves every level laid
out (`Layout`: offsets delimit the blocks of children – the parents' indices of a level sorted
by reversed key are non-decreasing –, ids / log-probabilities / back-off weights of node `k` of
a level sit at `start + 1 + k`), and never touches a cell below the first level again. -/
theorem C06_levels_layout (U : Nat) (Ls : List (List Item)) (f : Fill) (lo : Nat) (K : List (List Int))
    (m : Nat) (R : Ready f U lo K) (hL : LevelsOK m K Ls) (hne : Ls ≠ [])
    (hO : f.offsets.size = f.allocated + need Ls)
    (hP : f.logps.size = f.offsets.size + (Ls.getLastD []).length)
    (hI : f.logps.size ≤ f.ids.size + U) (hB : f.logbs.size = f.offsets.size) :
    Layout (fillLevels U Ls f).offsets (fillLevels U Ls f).ids (fillLevels U Ls f).logps
      (fillLevels U Ls f).logbs U lo K (Ls.map sortLevel) ∧
    (∀ q, q < lo → (fillLevels U Ls f).offsets.getD q 0 = f.offsets.getD q 0) ∧
    (∀ i, i + U < f.allocated + 1 → (fillLevels U Ls f).ids.getD i 0 = f.ids.getD i 0) ∧
    (∀ i, i < f.allocated →
      (fillLevels U Ls f).logps.getD i LogP.nan = f.logps.getD i LogP.nan ∧
      (fillLevels U Ls f).logbs.getD i LogP.nan = f.logbs.getD i LogP.nan) :=
  fillLevels_layout U Ls f lo K m R hL hne hO hP hI hB

/-- **C06_closure** (piece d). The closed, renamed levels against the raw table: an item of a
closed level carries exactly what the raw table lists for its key – `(-inf, 0)` for the implicit
suffix / unigram entries, whose keys the table does not list – and a key that no level holds is
not listed. -/
theorem C06_closure (V : Nat) (sos : Int) (dicts C : List (List Item)) (H : ClosedLv V sos dicts C)
    (hnd : ∀ d ∈ dicts, keysNodup d) (hv : valsOK dicts = true) (k' : List Int) :
    (∀ (j : Nat) (l : List Item) (e : Item),
      (C.map (fun d => d.map (remapItem V sos)))[j]? = some l → e ∈ l → e.key = k' →
      e.logp = LogP.ofOption (finiteP (ofList (remapTable V sos (tableOf dicts))) k') ∧
      (k'.length < dicts.length →
        e.logb = LogP.fin (beta (ofList (remapTable V sos (tableOf dicts))) k'))) ∧
    ((∀ (j : Nat) (l : List Item) (e : Item),
      (C.map (fun d => d.map (remapItem V sos)))[j]? = some l → e ∈ l → e.key ≠ k') →
      ofList (remapTable V sos (tableOf dicts)) k' = none) :=
  table_lemma V sos dicts C H hnd hv k'

/-- **C06_flat.** For every table that `buildTrie` accepts – any order, any sparsity; the keys
of one order pairwise distinct (they are the keys of a Python dict), no NaN log-probability
and finite back-off weights below the highest order (`valsOK`) – the buffers it lays out pass
the layout check: every node the lookup can reach carries the table's values and every listed
key is reachable. (The driver still evaluates the check on every case; it can no longer fail.) -/
theorem C06_flat (V : Nat) (sos : Int) (dicts : List (List Item)) (b : Buffers)
    (hb : buildTrie V sos dicts = some b) (hnd : ∀ d ∈ dicts, keysNodup d)
    (hv : valsOK dicts = true) : checkBuilt V sos dicts b = true :=
  buildTrie_checkBuilt V sos dicts b hb hnd hv

/-- **C06_lookup** – unconditional. Every row that the lookup model computes on the buffers
built from a table is the Katz recursion on the **raw** table with the **raw** window, for
every accepted table and every window of valid tokens (vocabulary ids and the start symbol). -/
theorem C06_lookup (V : Nat) (sos : Int) (dicts : List (List Item)) (b : Buffers)
    (hb : buildTrie V sos dicts = some b) (hnd : ∀ d ∈ dicts, keysNodup d)
    (hv : valsOK dicts = true)
    (win : List Int) (hlen : win.length + 1 ≤ b.N) (hwin : ∀ t ∈ win, validTok V sos t) :
    rowOf b V sos win =
      (List.range V).map (fun w => LogP.ofOption (bo (ofList (tableOf dicts)) (Int.ofNat w) win)) :=
  C06_lookup_checked V sos dicts b (C06_flat V sos dicts b hb hnd hv)
    (buildTrie_keys_valid V sos dicts b hb hnd) win hlen hwin

/-- **C06_model.** End to end for the model: construct from a table, evaluate all positions of
a batch of histories in chunks of any size – every entry `[t][b][w]` is the Katz recursion on
the raw table for the spec's left-padded context of history `b` at position `t`. -/
theorem C06_model (V : Nat) (sos : Int) (dicts : List (List Item)) (b : Buffers)
    (hb : buildTrie V sos dicts = some b) (hnd : ∀ d ∈ dicts, keysNodup d)
    (hv : valsOK dicts = true) (B : Nat) (hist : List (List Int))
    (hrows : ∀ r ∈ hist, r.length = B) (htok : ∀ r ∈ hist, ∀ t ∈ r, validTok V sos t)
    (chunk : Nat) (hchunk : 1 ≤ chunk) :
    fullChunked b V sos B hist chunk =
      (List.range (hist.length + 1)).map (fun t =>
        (List.range B).map (fun bb =>
          (List.range V).map (fun w => LogP.ofOption
            (bo (ofList (tableOf dicts)) (Int.ofNat w) (context b.N sos (col hist bb) t))))) := by
  rw [C06_chunk b V sos B hist hrows chunk hchunk]
  have hN : 1 ≤ b.N := by
    have h := (buildTrie_nodes V sos dicts b hb hnd hv).1
    rw [buildTrie_eq] at hb
    split at hb
    · cases hb
    · rename_i h0; omega
  apply List.map_congr_left
  intro t _
  apply List.map_congr_left
  intro bb hbb
  have hbb' : bb < B := List.mem_range.mp hbb
  apply C06_lookup V sos dicts b hb hnd hv
  · unfold context lastN
    simp only [List.length_drop, List.length_append, List.length_replicate]
    omega
  · intro x hx
    unfold context lastN at hx
    have hx' := List.mem_of_mem_drop hx
    rcases List.mem_append.mp hx' with h | h
    · rw [List.mem_replicate] at h
      rw [h.2]; exact Or.inr rfl
    · have h2 := List.mem_of_mem_take h
      unfold col at h2
      obtain ⟨r, hr, rfl⟩ := List.mem_map.mp h2
      have hl := hrows r hr
      apply htok r hr
      rw [List.getD_eq_getElem?_getD, List.getElem?_eq_getElem (by omega)]
      exact List.getElem_mem _

/-! ## non-vacuity: the hypotheses are satisfiable on concrete, non-trivial inputs -/

/-- A sparse trigram table with the start symbol outside the vocabulary (`V = 2`, `sos = -1`):
the bigram `(1, 0)` and the unigram `1` are missing although `(-1, 1, 0)` is listed. -/
def exDicts : List (List Item) :=
  [[⟨[0], .fin (-1), .fin (-1/2)⟩, ⟨[-1], .fin (-8), .fin (-1/4)⟩],
   [⟨[0, 1], .fin (-2), .fin (-1/8)⟩, ⟨[-1, 0], .negInf, .fin (-3)⟩],
   [⟨[-1, 1, 0], .fin (-3), .fin 0⟩, ⟨[0, 0, 1], .fin (-1/4), .fin 0⟩]]

-- `buildTrie` accepts it, the built buffers pass the layout check (hypothesis of
-- `C06_lookup_checked`), the keys are valid and the unigram keys distinct
example : (buildTrie 2 (-1) exDicts).map (checkBuilt 2 (-1) exDicts) = some true := by decide +kernel
example : ∀ e ∈ tableOf exDicts, ∀ t ∈ e.1, validTok 2 (-1) t := by decide
example : keysNodup (exDicts.headD []) := by unfold keysNodup; decide
/-- The state before the bigram level of a model with three unigram nodes is allocated. -/
def exFill : Fill :=
  { offsets := Array.replicate 8 0, ids := Array.replicate 4 0, logps := Array.replicate 8 (.fin 0),
    logbs := Array.replicate 8 (.fin 0), allocated := 3, lastStart := 0,
    parents := [([0], 0), ([1], 1), ([2], 2)] }

/-- Bigrams `(0,1)`, `(2,0)`, `(1,1)`: sorted by reversed key `(0,2) < (1,0) < (1,1)`; unigram
`2` has no child. -/
def exLevel : List Item := [⟨[0, 1], .fin (-1), .fin 0⟩, ⟨[2, 0], .fin (-2), .fin 0⟩, ⟨[1, 1], .fin (-3), .fin 0⟩]

-- hypotheses of `C06_level_offsets` on it (parents' indices 0, 1, 1), and what it yields:
-- children of 0: [4, 5), of 1: [5, 7), of the childless 2: [7, 7)
example : (sortLevel exLevel).map
    (fun e => (exFill.parents.lookup e.key.dropLast).getD 0 + exFill.lastStart) = [0, 1, 1] := by decide
example : Mono ((sortLevel exLevel).map
    (fun e => (exFill.parents.lookup e.key.dropLast).getD 0 + exFill.lastStart)) := by decide
example : ∀ q, q < exFill.allocated → exFill.offsets.getD q 0 = 0 := by decide
example : (fillLevel 4 true exLevel exFill).offsets.toList = [4, 4, 5, 4, 0, 0, 0, 0] := by decide

-- what `load_state_dict` recovers for it: order 3, two trigrams
example : (buildTrie 2 (-1) exDicts).map (fun b =>
    decide (inferShape 2 (-1) b.offsets b.ids.size b.logps.size = some (3, 2, b.S))) = some true := by
  decide +kernel
-- and the end-to-end statement on it: P(0 | <s> 1) backs off twice (trigram listed: -3)
example : (buildTrie 2 (-1) exDicts).map (fun b => rowOf b 2 (-1) [-1, 1]) =
    some [LogP.fin (-3), LogP.negInf] := by decide +kernel

/-- **All hypotheses of `C06_lookup_checked` and `C06_shape_roundtrip` together** on the sparse
trigram table `exDicts` (start symbol outside the vocabulary, a missing bigram and unigram, a
`-inf` entry): `buildTrie` accepts it, the built buffers pass `checkBuilt`, keys and window are
valid, and the theorem (not an evaluation) gives the row for the window `<s> 1` as the Katz
recursion on the raw table; the recursion really backs off there (`P(1 | <s> 1) = -inf`:
nothing listed) and takes the listed trigram for token `0`. -/
theorem C06_lookup_checked_nonvacuous :
    ∃ b, buildTrie 2 (-1) exDicts = some b ∧ b.N = 3 ∧ b.G = 2 ∧
      inferShape 2 (-1) b.offsets b.ids.size b.logps.size = some (3, 2, b.S) ∧
      rowOf b 2 (-1) [-1, 1] =
        (List.range 2).map (fun w => LogP.ofOption (bo (ofList (tableOf exDicts)) (Int.ofNat w) [-1, 1])) ∧
      (List.range 2).map (fun w => LogP.ofOption (bo (ofList (tableOf exDicts)) (Int.ofNat w) [-1, 1])) =
        [LogP.fin (-3), LogP.negInf] := by
  have h : (buildTrie 2 (-1) exDicts).map (checkBuilt 2 (-1) exDicts) = some true := by decide +kernel
  cases hb : buildTrie 2 (-1) exDicts with
  | none => rw [hb] at h; cases h
  | some b =>
    rw [hb] at h
    have hchk : checkBuilt 2 (-1) exDicts b = true := by simpa using h
    have hs := C06_shape_roundtrip 2 (-1) exDicts b hb (by unfold keysNodup; decide)
    have hN : b.N = 3 := hs.2.1
    have hG : b.G = 2 := hs.2.2
    refine ⟨b, rfl, hN, hG, ?_, ?_, by decide +kernel⟩
    · have h1 := hs.1
      rw [hN, hG] at h1
      exact h1
    · exact C06_lookup_checked 2 (-1) exDicts b hchk (by decide) [-1, 1] (by rw [hN]; decide) (by decide)

/-- **All hypotheses of `C06_flat` / `C06_lookup` / `C06_model` together** on `exDicts`: the keys of
every order are pairwise distinct, the values pass `valsOK`, `buildTrie` accepts the table – and
the *theorem* (no evaluation of the check) gives the row of the window `<s> 1`, and all
positions of the one-history batch `[1]` in one chunk. -/
theorem C06_lookup_nonvacuous :
    (∀ d ∈ exDicts, keysNodup d) ∧ valsOK exDicts = true ∧
    ∃ b, buildTrie 2 (-1) exDicts = some b ∧ checkBuilt 2 (-1) exDicts b = true ∧
      rowOf b 2 (-1) [-1, 1] = [LogP.fin (-3), LogP.negInf] ∧
      (fullChunked b 2 (-1) 1 [[1]] 2).length = 2 := by
  have hnd : ∀ d ∈ exDicts, keysNodup d := by
    intro d hd
    simp only [exDicts, List.mem_cons, List.mem_nil_iff, or_false] at hd
    rcases hd with rfl | rfl | rfl <;> (unfold keysNodup; decide)
  have hv : valsOK exDicts = true := by decide
  refine ⟨hnd, hv, ?_⟩
  cases hb : buildTrie 2 (-1) exDicts with
  | none =>
    have : (buildTrie 2 (-1) exDicts).isSome = true := by decide +kernel
    rw [hb] at this; cases this
  | some b =>
    refine ⟨b, rfl, C06_flat 2 (-1) exDicts b hb hnd hv, ?_, ?_⟩
    · have hN : b.N = 3 := (C06_shape_roundtrip 2 (-1) exDicts b hb (hnd _ (by simp [exDicts]))).2.1
      rw [C06_lookup 2 (-1) exDicts b hb hnd hv [-1, 1] (by rw [hN]; decide) (by decide)]
      decide +kernel
    · rw [C06_model 2 (-1) exDicts b hb hnd hv 1 [[1]] (by decide) (by decide) 2 (by decide)]
      simp

/-! ### the pieces of `C06_flat` on `exDicts` (audit E): `C06_closure`, `C06_levels_layout`, `C06_child_scan`
are stated over the internal predicates `ClosedLv`, `Ready`, `LevelsOK`, `LevelOK`; the instances below
establish every one of them for the intermediate states of `buildTrie 2 (-1) exDicts` and go THROUGH the
theorems (the general derivation for every accepted table is `buildTrie_nodes` in `Lemmas/NgramFlat.lean`). -/

theorem exDicts_nodup : ∀ d ∈ exDicts, keysNodup d := by
  intro d hd
  simp only [exDicts, List.mem_cons, List.mem_nil_iff, or_false] at hd
  rcases hd with rfl | rfl | rfl <;> (unfold keysNodup; decide)

/-- What the checking loop of `_build_trie` leaves of `exDicts` (highest order first): the implicit bigram
`(1, 0)` (suffix of `(-1, 1, 0)`) and the implicit unigram `1`, both `(-inf, 0)`. -/
def exClosedRev : List (List Item) :=
  [[⟨[-1, 1, 0], .fin (-3), .fin 0⟩, ⟨[0, 0, 1], .fin (-1/4), .fin 0⟩],
   [⟨[0, 1], .fin (-2), .fin (-1/8)⟩, ⟨[-1, 0], .negInf, .fin (-3)⟩, ⟨[1, 0], .negInf, .fin 0⟩],
   [⟨[0], .fin (-1), .fin (-1/2)⟩, ⟨[-1], .fin (-8), .fin (-1/4)⟩, ⟨[1], .negInf, .fin 0⟩]]

theorem exDicts_closeDown :
    closeDown 2 (-1) (exDicts.getLastD []) exDicts.reverse.tail = some exClosedRev := by decide +kernel

/-- The hypothesis `ClosedLv` of `C06_closure` holds for what `closeDown` returns on `exDicts`. -/
theorem exDicts_closedLv : ClosedLv 2 (-1) exDicts exClosedRev.reverse :=
  closedLv_of_closeDown 2 (-1) exDicts exClosedRev (by decide) (by decide) exDicts_closeDown exDicts_nodup

/-- The closed levels, lowest order first, `sos = -1` renamed to `V = 2`. -/
def exLevels : List (List Item) := exClosedRev.reverse.map (fun d => d.map (remapItem 2 (-1)))

/-- The buffers `buildTrie` lays out for `exDicts`: offsets `[4, 5, 5, 4 | 4, 4, 3, 3]` – unigram node `0`
owns the two bigram nodes `4, 5` (ids `1`, `2`), node `1` owns `6`, the start symbol's node `2` is childless. -/
def exBuilt : Buffers := assemble 2 (-1) 3 exClosedRev

theorem exDicts_built : buildTrie 2 (-1) exDicts = some exBuilt := by
  rw [buildTrie_eq, if_neg (by decide), if_neg (by decide), exDicts_closeDown]
  rfl

/-- **All hypotheses of `C06_closure` together** (`ClosedLv` for the closure of `exDicts`, distinct keys,
`valsOK`), through the theorem: the implicit bigram `(1, 0)` that the suffix pass inserted carries
`(-inf, 0)` – what the Katz recursion reads for a key the table does not list –, the listed bigram
`(<s>, 0)` (renamed `(2, 0)`; `-inf` with back-off `-3`) keeps its back-off weight, and the key `(1, 1)`, which
no level holds, is not listed. -/
theorem C06_closure_nonvacuous :
    (∀ l e, exLevels[1]? = some l → e ∈ l → e.key = [1, 0] → e.logp = LogP.negInf ∧ e.logb = LogP.fin 0) ∧
    (∀ l e, exLevels[1]? = some l → e ∈ l → e.key = [2, 0] → e.logp = LogP.negInf ∧ e.logb = LogP.fin (-3)) ∧
    ofList (remapTable 2 (-1) (tableOf exDicts)) [1, 1] = none := by
  have hv : valsOK exDicts = true := by decide
  refine ⟨?_, ?_, ?_⟩
  · intro l e hl he hk
    have h := (C06_closure 2 (-1) exDicts exClosedRev.reverse exDicts_closedLv exDicts_nodup hv [1, 0]).1
      1 l e hl he hk
    have h1 : finiteP (ofList (remapTable 2 (-1) (tableOf exDicts))) [1, 0] = none := by decide +kernel
    have h2 : beta (ofList (remapTable 2 (-1) (tableOf exDicts))) [1, 0] = 0 := by decide +kernel
    rw [h1] at h
    exact ⟨h.1, by rw [h.2 (by decide), h2]⟩
  · intro l e hl he hk
    have h := (C06_closure 2 (-1) exDicts exClosedRev.reverse exDicts_closedLv exDicts_nodup hv [2, 0]).1
      1 l e hl he hk
    have h1 : finiteP (ofList (remapTable 2 (-1) (tableOf exDicts))) [2, 0] = none := by decide +kernel
    have h2 : beta (ofList (remapTable 2 (-1) (tableOf exDicts))) [2, 0] = -3 := by decide +kernel
    rw [h1] at h
    exact ⟨h.1, by rw [h.2 (by decide), h2]⟩
  · apply (C06_closure 2 (-1) exDicts exClosedRev.reverse exDicts_closedLv exDicts_nodup hv [1, 1]).2
    have hall : ∀ l ∈ exLevels, ∀ e ∈ l, e.key ≠ [1, 1] := by decide
    intro j l e hl he
    exact hall l (List.mem_of_getElem? hl) e he

/-- `LevelsOK` (hypothesis of `C06_levels_layout`) for the bigram and trigram levels of `exDicts` above the
three unigram nodes: non-empty, distinct keys of the right length, every reversed prefix a node below. -/
theorem exLevelsOK : LevelsOK 1 (uniKeys 3) exLevels.tail := by
  refine ⟨by decide, by decide, by decide, by decide, by decide, by decide, by decide, by decide, trivial⟩

/-- **All hypotheses of `C06_levels_layout` together** (`Ready` for the state after the unigram fill,
`LevelsOK`, the four buffer sizes), through the theorem, on the two levels above the unigrams of `exDicts`:
the buffers of `exBuilt` are laid out (`Layout`), with a leading parent that has TWO children, a parent
with one and a trailing childless one on the bigram level, and a walk-back + trailing fill on the trigram level. -/
theorem C06_levels_layout_nonvacuous :
    Layout exBuilt.offsets exBuilt.ids exBuilt.logps exBuilt.logbs 4 0 (uniKeys 3) (exLevels.tail.map sortLevel) ∧
    exBuilt.offsets.toList = [4, 5, 5, 4, 4, 4, 3, 3] := by
  have R : Ready (initFill 2 (-1) 3 exLevels) 4 0 (uniKeys 3) := initFill_ready 2 (-1) 3 (by decide) exLevels
  have h := C06_levels_layout 4 exLevels.tail (initFill 2 (-1) 3 exLevels) 0 (uniKeys 3) 1 R exLevelsOK
    (by decide) (by decide) (by decide) (by decide) (by decide)
  exact ⟨h.1, by decide⟩

/-- **All hypotheses of `C06_child_scan` together** (`LevelOK` taken from the layout above, distinct parent
keys, the width bound from `_infer_max_direct_descendants` = `maxDirect_layout`), through the theorem, on
`exBuilt` (`S = 2` slots scanned): from the unigram node `0` the tokens `1` and `2` (the renamed start
symbol) lead to the bigram nodes `4` and `5` – two siblings, the matches are summed over both slots –, from
the childless node `2` nothing is found, and on the next level `(0, 1)` + token `2` leads to the trigram node `8`. -/
theorem C06_child_scan_nonvacuous :
    exBuilt.S = 2 ∧
    (flatNav exBuilt 4).child 0 1 = some 4 ∧ (flatNav exBuilt 4).child 0 2 = some 5 ∧
    (flatNav exBuilt 4).child 2 0 = none ∧ (flatNav exBuilt 4).child 4 2 = some 8 := by
  have hlay := C06_levels_layout_nonvacuous.1
  have hwide := maxDirect_layout (uniKeys 3) _ _ hlay
  obtain ⟨⟨ps, L⟩, _, ⟨⟨ps2, L2⟩, _, _⟩⟩ := hlay
  have hS : ∀ q, 0 ≤ q → q < 0 + (uniKeys 3).length →
      ps.countP (fun x => decide (x < q + 1)) - ps.countP (fun x => decide (x < q)) ≤ exBuilt.S := by
    intro q h1 h2
    rw [L.width q h1 h2]
    exact hwide.1 q h1 h2
  have hS2 : ∀ q, 4 ≤ q → q < 4 + 3 →
      ps2.countP (fun x => decide (x < q + 1)) - ps2.countP (fun x => decide (x < q)) ≤ exBuilt.S := by
    intro q h1 h2
    rw [L2.width q h1 h2]
    exact hwide.2.1 q h1 h2
  have c0 := C06_child_scan exBuilt 4 0 (uniKeys 3) _ ps _ L (uniKeys_nodup 3) hS 0 [0] (by decide)
  have c2 := C06_child_scan exBuilt 4 0 (uniKeys 3) _ ps _ L (uniKeys_nodup 3) hS 2 [2] (by decide) 0
  have c4 := C06_child_scan exBuilt 4 4 _ _ ps2 _ L2 L.keysS hS2 0 [0, 1] (by decide) 2
  refine ⟨by decide, ?_, ?_, ?_, ?_⟩
  · exact (c0 1).1 0 (by decide) (by decide)
  · exact (c0 2).1 1 (by decide) (by decide)
  · exact c2.2 (by decide)
  · exact c4.1 0 (by decide) (by decide)

/-- A bigram window in which two back-offs are actually taken, through the theorem:
`P(0 | 0 0)`: `(0,0,0)` and `(0,0)` are not listed, `β(0,0) = 0` (implicit suffix node of
`(0,0,1)`), `β(0) = -1/2`, `P(0) = -1`. -/
example : (List.range 2).map (fun w => LogP.ofOption (bo (ofList (tableOf exDicts)) (Int.ofNat w) [0, 0])) =
    [LogP.fin (-3/2), LogP.fin (-1/4)] := by decide +kernel

/-- The state before the bigram level of a *trigram* model with three unigram nodes
(`O = 3 + 1 + 3 + 1`, `G = 2`, `U = 4`). -/
def exFill3 : Fill :=
  { offsets := Array.replicate 8 0, ids := Array.replicate 6 0, logps := Array.replicate 10 (.fin 0),
    logbs := Array.replicate 8 (.fin 0), allocated := 3, lastStart := 0,
    parents := [([0], 0), ([1], 1), ([2], 2)] }

/-- … and after it: the bigram nodes occupy the cells `4, 5, 6` (reversed keys `(0,2)`,
`(1,0)`, `(1,1)`), the dummy cell `3` in front of them is non-zero. -/
def exFillB : Fill := fillLevel 4 false exLevel exFill3

/-- Trigrams `(2,0,1)` and `(0,0,1)`: both children of the bigram node `5` (reversed key
`(1,0)`); the bigram node `4` in front of it and the trailing node `6` are childless. -/
def exTri : List Item := [⟨[2, 0, 1], .fin (-1), .fin 0⟩, ⟨[0, 0, 1], .fin (-2), .fin 0⟩]

/-- **All hypotheses of `C06_level_offsets` together**, on a level that is *not* the first one
(`lo = 4 > 0`: the guard is the non-zero dummy cell, the walk-back over the childless node `4`
stops there; the trailing childless node `6` is filled by the trailing loop): the theorem
yields `q + offsets[q] = 8 + #{children of earlier parents}` for `q = 4, 5, 6`. -/
theorem C06_level_offsets_nonvacuous :
    (∀ q, 4 ≤ q → q < 7 →
      (fillLevel 4 true exTri exFillB).offsets.getD q 0 + q = 8 + ([5, 5] : List Nat).countP (fun x => decide (x < q))) ∧
    (fillLevel 4 true exTri exFillB).offsets.getD 7 0 = 3 ∧
    (fillLevel 4 true exTri exFillB).offsets.toList = [4, 4, 5, 4, 4, 3, 4, 3] := by
  have hps : (sortLevel exTri).map
      (fun e => (exFillB.parents.lookup e.key.dropLast).getD 0 + exFillB.lastStart) = [5, 5] := by decide
  have halloc : exFillB.allocated = 7 := by decide
  have h := C06_level_offsets 4 true exTri exFillB 4 (by decide) (by decide)
    (by rw [hps]; decide) (by rw [hps, halloc]; decide) (by decide)
    (by
      intro q h1 h2
      rw [halloc] at h2
      have : q = 4 ∨ q = 5 ∨ q = 6 := by omega
      rcases this with rfl | rfl | rfl <;> decide)
    (Or.inr (by decide))
  rw [hps, halloc] at h
  exact ⟨h.1, h.2.1, by decide⟩


/-- A sparse trigram table: the bigram `(2,0)` and the unigram `2` are not listed although
`(2,2,0)` is; `(0,1)` has a back-off weight. -/
def exItems : List (List Int × Entry) :=
  [([0], (some (-1), -1/2)), ([1], (some (-2), -1/4)),
   ([0, 1], (some (-1/2), -1/8)),
   ([1, 0, 1], (some (-1/4), 0)), ([2, 2, 0], (some (-3), 0))]

-- the trigram (1,0,1) is listed: taken as is
example : descend (trieNav exItems) [1, 0].reverse 1 = LogP.fin (-1/4) := by decide +kernel
-- (0,1,0) is not listed, (1,0) is not listed: β(0,1) + β(1) + P(0) = -1/8 - 1/4 - 1
example : bo (ofList exItems) 0 [0, 1] = some (-11/8) := by decide +kernel
example : descend (trieNav exItems) [0, 1].reverse 0 = LogP.fin (-11/8) := by decide +kernel
-- an unlisted unigram is -∞ however long the context
example : descend (trieNav exItems) [2, 2].reverse 2 = LogP.negInf := by decide +kernel

-- views: a transposed batch-first tensor and a slice with storage offset show the same rows
example : (⟨[1, 0, 1, 0, 2, 2], 0, 1, 3, 3, 2⟩ : View).rows = [[1, 0], [0, 2], [1, 2]] := by decide
example : (⟨[9, 9, 1, 0, 0, 2, 1, 2], 2, 2, 1, 3, 2⟩ : View).rows = [[1, 0], [0, 2], [1, 2]] := by decide
example : (⟨[1, 0, 1, 0, 2, 2], 0, 1, 3, 3, 2⟩ : View).isContig = false := by decide
example : (⟨[9, 9, 1, 0, 0, 2, 1, 2], 2, 2, 1, 3, 2⟩ : View).isContig = true := by decide

-- hypotheses of the window theorems on a concrete history (T = 3, B = 2) and index vector
example : ∀ r ∈ ([[1, 0], [0, 2], [1, 2]] : List (List Int)), r.length = 2 := by decide
example : ([3, 1] : List Nat).length = 2 ∧ ∀ x ∈ ([3, 1] : List Nat), x ≤ 3 := by decide
-- the spec's context: order 4, position 1 of column 0 is `sos sos 1`
example : context 4 (-1) (col [[1, 0], [0, 2], [1, 2]] 0) 1 = [-1, -1, 1] := by decide
-- per-element windows share one padding but differ per element
example : windowsVec 3 7 2 [[1, 0], [0, 2], [1, 2]] [3, 1] = [[0, 1], [7, 0]] := by decide

-- all hypotheses of the window / chunk theorems together, on the bigram buffers `exBuf`
-- (order 2, `B = 2`, `T = 3`, per-element indices 3 and 1, chunk size 2 – the last chunk is short):
example := C06_idx_scalar exBuf 2 0 2 [[1, 0], [0, 1], [1, 1]] 2 (by decide)
example := C06_idx_vec exBuf (by decide) 2 0 2 [[1, 0], [0, 1], [1, 1]] [3, 1] (by decide) (by decide)
example := C06_chunk exBuf 2 0 2 [[1, 0], [0, 1], [1, 1]] (by decide) 2 (by decide)
example := C06_full_get_vec exBuf (by decide) 2 0 2 [[1, 0], [0, 1], [1, 1]] (by decide) 2 (by decide)
  [3, 1] (by decide) (by decide) 1 (by decide)
-- … and on a non-contiguous view (transposed batch-first tensor), chunk size 2
example := C06_chunk_layout exBuf 2 0 ⟨[1, 0, 1, 0, 1, 1], 0, 1, 3, 3, 2⟩ 2 (by decide)

/-! ## construction and the caller's table (`Model/NgramBuildMem.lean`) -/

/-- **C06_build_result.** The buffers that the procedure `buildTrieMem` (heap in, heap out; it edits
the caller's own list and dict objects when `destructive`, fresh copies otherwise) returns are the pure
function `buildTrie` of what the table reference shows at call time – independent of `destructive`
and of everything else in the heap. (All theorems about `buildTrie` are theorems about the
procedure the driver runs.)

Guard (audit E): a destructive construction is only covered for a table whose dict objects are pairwise
DISTINCT objects (`hdistinct`). With the same dict object at two positions – only an EMPTY dict can stand
for two orders, e.g. `d = {}; [d, d, trigrams]` – the real code edits the object while it iterates over it
(`RuntimeError: dictionary changed size during iteration`), whereas the heap model, which reads the table
once, would still return `buildTrie` of it; the un-guarded statement was true there for the wrong reason.
A non-destructive construction copies first (`[d.copy() for d in prob_dicts]` – the copies are distinct
objects), so it needs no guard: see `C06_build_aliased_witness`. -/
theorem C06_build_result (d : Bool) (V : Nat) (sos : Int) (m : Mem) (l : Nat)
    (_hdistinct : d = true → (m.list l).Nodup) :
    (buildTrieMem d V sos m l).1 = buildTrie V sos (m.table l) :=
  buildTrieMem_fst d V sos m l

/-- **C06_build_pure.** A non-destructive construction – successful or rejected with `ValueError` –
leaves every object that existed before the call unchanged (the heap only grows by the copies), so
every valid table reference of the caller, the one handed over included, shows the same table
afterwards: table' = table. -/
theorem C06_build_pure (V : Nat) (sos : Int) (m : Mem) (l : Nat) :
    ((buildTrieMem false V sos m l).2.dicts.take m.dicts.length = m.dicts ∧
     (buildTrieMem false V sos m l).2.lists.take m.lists.length = m.lists) ∧
    ∀ k, k < m.lists.length → (∀ a ∈ m.list k, a < m.dicts.length) →
      (buildTrieMem false V sos m l).2.table k = m.table k :=
  ⟨buildTrieMem_frame V sos m l, fun k hk ha => (buildTrieMem_frame V sos m l).table k hk ha⟩

/-- **C06_build_reuse.** Any sequence of non-destructive constructions from the same table
reference, each with its own vocabulary size and start symbol (outside, then inside the vocabulary,
…): step `k` returns exactly `buildTrie V_k sos_k` of the ORIGINAL table, and the table is still the
original one at the end. -/
theorem C06_build_reuse (l : Nat) (steps : List (Bool × Nat × Int)) (m : Mem)
    (hkeep : ∀ s ∈ steps, s.1 = false) (hl : l < m.lists.length)
    (ha : ∀ a ∈ m.list l, a < m.dicts.length) :
    (buildSession m l steps).1 = steps.map (fun s => buildTrie s.2.1 s.2.2 (m.table l)) ∧
    (buildSession m l steps).2.table l = m.table l :=
  ⟨(buildSession_pure l steps m hkeep hl ha).1, (buildSession_pure l steps m hkeep hl ha).2.table l hl ha⟩

/-- **C06_reuse_model.** A caller who holds one table `dicts` builds any number of models from it,
non-destructively: every model that gets built evaluates – all positions, chunks of any size – the
Katz recursion on `dicts` itself, for its own start symbol. -/
theorem C06_reuse_model (dicts : List (List Item)) (steps : List (Bool × Nat × Int))
    (hkeep : ∀ s ∈ steps, s.1 = false) (hnd : ∀ d ∈ dicts, keysNodup d) (hv : valsOK dicts = true)
    (i : Nat) (d : Bool) (V : Nat) (sos : Int) (hi : steps[i]? = some (d, V, sos)) (b : Buffers)
    (hb : (buildSession (Mem.ofTable dicts) 0 steps).1[i]? = some (some b))
    (B : Nat) (hist : List (List Int))
    (hrows : ∀ r ∈ hist, r.length = B) (htok : ∀ r ∈ hist, ∀ t ∈ r, validTok V sos t)
    (chunk : Nat) (hchunk : 1 ≤ chunk) :
    fullChunked b V sos B hist chunk =
      (List.range (hist.length + 1)).map (fun t =>
        (List.range B).map (fun bb =>
          (List.range V).map (fun w => LogP.ofOption
            (bo (ofList (tableOf dicts)) (Int.ofNat w) (context b.N sos (col hist bb) t))))) := by
  have hval := Mem.ofTable_valid dicts
  have h := (buildSession_pure 0 steps (Mem.ofTable dicts) hkeep hval.1 hval.2).1
  rw [h, Mem.ofTable_table, List.getElem?_map, hi] at hb
  simp only [Option.map_some, Option.some.injEq] at hb
  exact C06_model V sos dicts b hb hnd hv B hist hrows htok chunk hchunk

/-- **C06_build_consumed.** What `destructive=True` is documented to allow: after a successful
destructive construction the caller's list object is empty (every dict was popped off it). Stated, like
the destructive case of `C06_build_result`, for tables whose dict objects are pairwise distinct. -/
theorem C06_build_consumed (V : Nat) (sos : Int) (m : Mem) (l : Nat) (hl : l < m.lists.length)
    (_hdistinct : (m.list l).Nodup)
    (hb : (buildTrieMem true V sos m l).1.isSome = true) :
    (buildTrieMem true V sos m l).2.list l = [] :=
  buildTrieMem_consumed V sos m l hl hb

/-- **C06_offset_width.** The integer type that `_build_trie` finally gives `offsets` (uint8 / int16 /
int32 / int64, `offBits`) holds every offset it wrote – no wrap-around in the stored buffer – and is
the narrowest one that does (given that the offsets fit into 64 bits at all: the model counts in
unbounded naturals). The type of the *working* buffer during construction is not modelled (the
two width defects of the pinned tree lived there; corpus 01, 02 keep them). -/
theorem C06_offset_width (V : Nat) (sos : Int) (dicts : List (List Item)) (b : Buffers)
    (hb : buildTrie V sos dicts = some b)
    (h64 : ∀ i, b.offsets.getD i 0 ≤ 9223372036854775807) :
    (∀ i, b.offsets.getD i 0 ≤ intMax b.offBits) ∧
    (b.offsets.size ≠ 0 →
      (b.offBits = 16 → ∃ i, 255 < b.offsets.getD i 0) ∧
      (b.offBits = 32 → ∃ i, 32767 < b.offsets.getD i 0) ∧
      (b.offBits = 64 → ∃ i, 2147483647 < b.offsets.getD i 0)) :=
  ⟨buildTrie_offsets_fit V sos dicts b hb h64, buildTrie_offsets_least V sos dicts b hb⟩

-- on `exDicts`: five offsets cells … all below 256, stored as uint8
example : (buildTrie 2 (-1) exDicts).map (fun b => (b.offBits, decide (∀ i < b.offsets.size, b.offsets.getD i 0 ≤ 255))) =
    some (8, true) := by decide +kernel

/-- A table that is rejected half-way through the checking loop (`V = 2`, `sos = 0`): the trigram
`(0, 0, 0)` is fine and makes the loop insert the implicit bigram `(0, 0)`, the next one mentions
the unknown token `5`. -/
def exBadDicts : List (List Item) :=
  [[⟨[0], .fin (-1), .fin 0⟩], [], [⟨[0, 0, 0], .fin (-1), .fin 0⟩, ⟨[0, 5, 0], .fin (-2), .fin 0⟩]]

/-- **Witness** (kernel evaluation): on the sparse trigram table `exDicts` the non-destructive
construction returns the caller's table as it was, the destructive one does not (list emptied,
unigram dict completed and re-keyed `-1 → 2`, bigram dict emptied) – the heap model can tell the
two apart, `C06_build_pure` is not true by construction. Also: a non-destructive construction that
is REJECTED leaves the table alone (`exBadDicts`; `exDicts` with `sos = 0`, which then mentions the
unknown token `-1`), whereas the rejected destructive one has already inserted the implicit bigram
`(0, 0)` into the caller's (empty) bigram dict. -/
theorem C06_build_destructive_witness :
    (buildTrieMem false 2 (-1) (Mem.ofTable exDicts) 0).2.table 0 = exDicts ∧
    (buildTrieMem true 2 (-1) (Mem.ofTable exDicts) 0).2.table 0 = [] ∧
    ((buildTrieMem true 2 (-1) (Mem.ofTable exDicts) 0).2.dict 0).map (·.key) = [[0], [2], [1]] ∧
    (buildTrieMem true 2 (-1) (Mem.ofTable exDicts) 0).2.dict 1 = [] ∧
    (buildTrieMem false 2 0 (Mem.ofTable exDicts) 0).1.isNone = true ∧
    (buildTrieMem false 2 0 (Mem.ofTable exDicts) 0).2.table 0 = exDicts ∧
    (buildTrieMem false 2 0 (Mem.ofTable exBadDicts) 0).1.isNone = true ∧
    (buildTrieMem false 2 0 (Mem.ofTable exBadDicts) 0).2.table 0 = exBadDicts ∧
    (buildTrieMem true 2 0 (Mem.ofTable exBadDicts) 0).1.isNone = true ∧
    ((buildTrieMem true 2 0 (Mem.ofTable exBadDicts) 0).2.dict 1).map (·.key) = [[0, 0]] := by
  decide +kernel

-- all hypotheses of `C06_build_result` (destructive, distinct dict objects), `C06_build_consumed` and
-- `C06_build_pure` (a REJECTED non-destructive construction) together, through the theorems
example : (buildTrieMem true 2 (-1) (Mem.ofTable exDicts) 0).1 = buildTrie 2 (-1) exDicts :=
  C06_build_result true 2 (-1) (Mem.ofTable exDicts) 0 (fun _ => by decide)
example : (buildTrieMem true 2 (-1) (Mem.ofTable exDicts) 0).2.list 0 = [] :=
  C06_build_consumed 2 (-1) (Mem.ofTable exDicts) 0 (by decide) (by decide) (by decide +kernel)
example : (buildTrieMem false 2 0 (Mem.ofTable exBadDicts) 0).2.table 0 = exBadDicts :=
  (C06_build_pure 2 0 (Mem.ofTable exBadDicts) 0).2 0 (by decide) (by decide)

/-- A caller's heap in which ONE empty dict object (address 0) stands for the unigrams and the bigrams of
a trigram table: `d = {}; table = [d, d, {(0,0,0): -1, (1,0,1): -2}]`. -/
def exAliasMem : Mem :=
  ⟨[[], [⟨[0, 0, 0], .fin (-1), .fin 0⟩, ⟨[1, 0, 1], .fin (-2), .fin 0⟩]], [[0, 0, 1]]⟩

/-- **Witness** (kernel evaluation) for the guard of `C06_build_result`: the table of `exAliasMem` is not
a list of distinct objects; the NON-destructive construction (no guard needed) copies it into three distinct
dict objects, returns `buildTrie` of what the table shows – accepted: offsets `[3,3,3,3,3,3]`, as the real
code returns for this table – and leaves the shared object empty; the destructive procedure of the model
would ALSO return buffers, where the real code raises `RuntimeError` (the implicit bigrams `(0,0)`, `(0,1)`
land in the very dict the next pass iterates over) – which is why `C06_build_result` / `C06_build_consumed`
carry `hdistinct`. -/
theorem C06_build_aliased_witness :
    ¬ (exAliasMem.list 0).Nodup ∧
    (buildTrieMem false 2 0 exAliasMem 0).1 = buildTrie 2 0 (exAliasMem.table 0) ∧
    ((buildTrieMem false 2 0 exAliasMem 0).1.map (·.offsets.toList)) = some [3, 3, 3, 3, 3, 3] ∧
    (buildTrieMem false 2 0 exAliasMem 0).2.dict 0 = [] ∧
    (buildTrieMem false 2 0 exAliasMem 0).2.table 0 = exAliasMem.table 0 ∧
    (buildTrieMem true 2 0 exAliasMem 0).1.isSome = true := by
  refine ⟨by decide, C06_build_result false 2 0 exAliasMem 0 (fun h => by cases h), by decide +kernel,
    by decide +kernel, (C06_build_pure 2 0 exAliasMem 0).2 0 (by decide) (by decide), by decide +kernel⟩

-- a session through the theorems: sos outside the vocabulary, the same again, then (rejected: the
-- table mentions -1) sos = 0 – every step is `buildTrie` of `exDicts`, which is still there at the end
example := C06_build_reuse 0 [(false, 2, -1), (false, 2, -1), (false, 2, 0)] (Mem.ofTable exDicts)
  (by decide) (by decide) (by decide)
example : ((buildSession (Mem.ofTable exDicts) 0 [(false, 2, -1), (false, 2, -1), (false, 2, 0)]).1.map
    Option.isSome) = [true, true, false] := by decide +kernel

/-- **All hypotheses of `C06_reuse_model` together**, through the theorem: the second of three
non-destructive constructions from the one table object `exDicts` (start symbol `-1`, `-1`, then the rejected
`0`) evaluates, on a batch of two histories in chunks of two, the Katz recursion on `exDicts` – e.g.
`P(0 | <s> 0) = β(<s> 0) + β(0) + P(0) = -3 - 1/2 - 1`, `P(1 | <s> 0) = β(<s> 0) + P(1 | 0) = -3 - 2`. -/
theorem C06_reuse_model_nonvacuous :
    ∃ b, (buildSession (Mem.ofTable exDicts) 0 [(false, 2, -1), (false, 2, -1), (false, 2, 0)]).1[1]? =
        some (some b) ∧
      fullChunked b 2 (-1) 2 [[1, 0], [0, 0]] 2 =
        [[[.fin (-5/4), .negInf], [.fin (-5/4), .negInf]],
         [[.fin (-3), .negInf], [.fin (-9/2), .fin (-5)]],
         [[.fin (-3/2), .fin (-2)], [.fin (-3/2), .fin (-1/4)]]] := by
  have hs := (C06_build_reuse 0 [(false, 2, -1), (false, 2, -1), (false, 2, 0)] (Mem.ofTable exDicts)
    (by decide) (by decide) (by decide)).1
  rw [Mem.ofTable_table] at hs
  have hb1 : (buildSession (Mem.ofTable exDicts) 0 [(false, 2, -1), (false, 2, -1), (false, 2, 0)]).1[1]? =
      some (some exBuilt) := by
    rw [hs]; simp [exDicts_built]
  refine ⟨exBuilt, hb1, ?_⟩
  rw [C06_reuse_model exDicts [(false, 2, -1), (false, 2, -1), (false, 2, 0)] (by decide) exDicts_nodup
    (by decide) 1 false 2 (-1) rfl exBuilt hb1 2 [[1, 0], [0, 0]] (by decide) (by decide) 2 (by decide)]
  decide +kernel

/-- `V = 255` with the start symbol outside: 256 unigram nodes (all implicit) and one bigram. -/
def exWide : List (List Item) := [[], [⟨[0, 0], .fin (-1), .fin 0⟩]]

theorem getD_le_of_all (a : Array Nat) (M : Nat)
    (h : a.toList.all (fun x => decide (x ≤ M)) = true) (i : Nat) : a.getD i 0 ≤ M := by
  rw [Array.getD_eq_getD_getElem?]
  by_cases hi : i < a.size
  · rw [Array.getElem?_eq_getElem hi]
    simp only [Option.getD_some]
    have := List.all_eq_true.mp h a[i] (by simp)
    simpa using this
  · rw [Array.getElem?_eq_none (by omega)]
    simp

/-- **All hypotheses of `C06_offset_width` together, on a table where the width is NOT the smallest one**
(on `exDicts` the "narrowest" half of the theorem has nothing to say: `offBits = 8`): the unigram node `0`
of `exWide` points 257 cells ahead, the recorded type is int16, every offset fits it and – through the
theorem – some offset exceeds 255. -/
theorem C06_offset_width_nonvacuous :
    ∃ b, buildTrie 255 (-1) exWide = some b ∧ b.offBits = 16 ∧
      (∀ i, b.offsets.getD i 0 ≤ 32767) ∧ ∃ i, 255 < b.offsets.getD i 0 := by
  have h : (buildTrie 255 (-1) exWide).map (fun b =>
      (b.offBits, b.offsets.size, b.offsets.toList.all (fun x => decide (x ≤ 9223372036854775807)))) =
      some (16, 257, true) := by decide +kernel
  cases hb : buildTrie 255 (-1) exWide with
  | none => rw [hb] at h; cases h
  | some b =>
    rw [hb] at h
    simp only [Option.map_some, Option.some.injEq, Prod.mk.injEq] at h
    obtain ⟨h16, hsz, hall⟩ := h
    have w := C06_offset_width 255 (-1) exWide b hb (getD_le_of_all _ _ hall)
    refine ⟨b, rfl, h16, ?_, ?_⟩
    · intro i
      have := w.1 i
      rw [h16] at this
      exact this
    · exact (w.2 (by omega)).1 h16

end PdtVerif.NgramTrie

namespace PdtVerif.NgramArpa

/-- **C06_arpa_entry.** One printed entry line is read back as the entry, whatever the
tokens look like: the implicit back-off rule (`float()` on the last of `n+1` fields) can
never mistake a token for a back-off weight, because it only fires when there is one field
too many. -/
theorem C06_arpa_entry (implicit : Bool) (tok : String → Field) (htok : ∀ x, (tok x).s = x)
    (N n : Nat) (hnN : n ≤ N) (e : PEntry) (hwf : EntryWf N n e) (ds : List (List PEntry)) :
    ∃ p fs, printEntry implicit (n == N) tok e = .entry p fs ∧
      addEntry N n ds p fs = some (ds.modify (n - 1) (fun d => insert d e)) :=
  addEntry_printEntry implicit tok htok N n hnN e hwf ds

/-- **C06_arpa.** The line-level reader inverts the writer on every well-formed table (any
number of orders, any number of entries, tokens that read as numbers included, zero
back-off weights written or omitted). The regular expressions / `float()` that turn a text
line into a `Line` are not part of this statement (correspondence only). -/
theorem C06_arpa (implicit : Bool) (tok : String → Field) (htok : ∀ x, (tok x).s = x)
    (t : List (List PEntry)) (hwf : TableWf t) :
    parseArpa (printArpa implicit tok t) = .ok t :=
  parseArpa_printArpa implicit tok htok t hwf

/-- Tokens "7", "10": every token reads as a number. -/
def exTok (x : String) : Field := ⟨x, some 7⟩

def exTable : List (List PEntry) :=
  [[⟨["7"], -1, some (-2)⟩, ⟨["10"], -3, some 0⟩], [⟨["7", "10"], -4, none⟩, ⟨["10", "10"], -5, none⟩]]

theorem exTable_wf : TableWf exTable := by
  intro i d h
  match i, h with
  | 0, h => cases h; exact ⟨by intro e he; simp at he; rcases he with rfl | rfl <;> constructor <;> simp [exTable], by decide⟩
  | 1, h => cases h; exact ⟨by intro e he; simp at he; rcases he with rfl | rfl <;> constructor <;> simp [exTable], by decide⟩
  | n + 2, h => simp [exTable] at h

example : (parseArpa (printArpa true exTok exTable)).toOption = some exTable := by decide +kernel

/-- **All hypotheses of `C06_arpa` together**: a two-order table all of whose tokens read as
numbers, one zero back-off left out by the writer (`implicit = true`) – through the theorem. -/
theorem C06_arpa_nonvacuous : parseArpa (printArpa true exTok exTable) = .ok exTable :=
  C06_arpa true exTok (fun _ => rfl) exTable exTable_wf

/-- **All hypotheses of `C06_arpa_entry` together**: a unigram line of a bigram file whose
token `"10"` reads as a number and whose zero back-off is left out – the one line on which the
implicit back-off rule could be suspected to eat the token (it has `n` fields, the rule needs `n+1`). -/
example : ∃ p fs, printEntry true (1 == 2) exTok ⟨["10"], -3, some 0⟩ = .entry p fs ∧
    addEntry 2 1 [[], []] p fs = some ([[], []].modify (1 - 1) (fun d => insert d ⟨["10"], -3, some 0⟩)) :=
  C06_arpa_entry true exTok (fun _ => rfl) 2 1 (by decide) ⟨["10"], -3, some 0⟩
    ⟨rfl, by simp⟩ [[], []]

end PdtVerif.NgramArpa
