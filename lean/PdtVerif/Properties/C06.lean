import PdtVerif.Lemmas.NgramTrie
import PdtVerif.Lemmas.NgramWindow
import PdtVerif.Lemmas.NgramArpa
/-!
# C06 — the n-gram lookup model computes Katz back-off on any table

Property theorems only. Model: `Model/NgramTrie.lean` (follows `_lm.py`), spec:
`Spec/Backoff.lean` (`bo`, `context`).

Layers:

* `C06_tree`, `C06_tree_table` – the two-path descent of `_lookup_calc_idx_log_probs`
  (`descend`, the very function the driver runs on the flat buffers) computes the Katz
  recursion on every navigation structure that represents the table; the abstract reverse
  trie of an arbitrary finite table (listed n-grams + all their suffixes as implicit
  `(-inf, 0)` nodes) is such a structure, for every table, order, sparsity and window.
* `C06_idx_scalar`, `C06_idx_vec`, `C06_chunk`, `C06_full_eq_idx` – every evaluation route
  (scalar index, per-element indices, all positions in chunks of any size, one index at a
  time) evaluates the same row for the spec's left-padded context.
* `C06_lookup_partial` – the two combined *given* that the flat buffers represent the
  table (`C06_flat`, not proved: that layer is carried by the element-by-element buffer
  correspondence).
-/
namespace PdtVerif.NgramTrie
open PdtVerif.Backoff

/-- **C06_tree.** On any navigation structure that represents the table `tbl` (a node
reached along a reversed key carries the table's values, an unreachable key is not listed),
the two-path descent returns the Katz back-off value, for every window (= every order)
and every candidate token. -/
theorem C06_tree {ν : Type} (nav : Nav ν) (tbl : Table) (D : Int → Prop)
    (H : Represents nav tbl D) (win : List Int) (w : Int) (hw : D w) (hwin : ∀ t ∈ win, D t) :
    descend nav win.reverse w = LogP.ofOption (bo tbl w win) :=
  descend_eq_bo nav tbl D H win w hw hwin

/-- **C06_tree for the abstract reverse trie of any table**: no assumption on the table
(any order, arbitrarily sparse, lower-order suffixes and unigrams missing, `-inf`
entries), on the window or on the token. -/
theorem C06_tree_table (items : List (List Int × Entry)) (win : List Int) (w : Int) :
    descend (trieNav items) win.reverse w = LogP.ofOption (bo (ofList items) w win) :=
  descend_eq_bo (trieNav items) (ofList items) (fun _ => True) (trieNav_represents items) win w
    trivial (fun _ _ => trivial)

/-- **Scalar index**: `calc_idx_log_probs(hist, idx=i)` evaluates, for every batch element,
the row of the context "last `N-1` tokens of `hist[:i]`, left-padded with `sos`". -/
theorem C06_idx_scalar (b : Buffers) (V : Nat) (sos : Int) (B : Nat) (hist : List (List Int))
    (i : Nat) (hi : i ≤ hist.length) :
    calcIdxScalar b V sos B hist i =
      (List.range B).map (fun bb => rowOf b V sos (context b.N sos (col hist bb) i)) :=
  calcIdxScalar_eq b V sos B hist i hi

/-- **Per-element indices** (`masked_select` / `view` branch): element `bb` gets the row of
its own context at `hidx[bb]`, although the padding is shared by the whole batch. -/
theorem C06_idx_vec (b : Buffers) (hN : 1 ≤ b.N) (V : Nat) (sos : Int) (B : Nat)
    (hist : List (List Int)) (hidx : List Nat) (hlen : hidx.length = B)
    (hle : ∀ x ∈ hidx, x ≤ hist.length) :
    calcIdxVec b V sos B hist hidx =
      (List.range B).map (fun bb => rowOf b V sos (context b.N sos (col hist bb) (hidx.getD bb 0))) :=
  calcIdxVec_eq b hN V sos B hist hidx hlen hle

/-- **C06_chunk.** `calc_full_log_probs_chunked` returns the same `(T+1) × B` rows for every
chunk size `≥ 1`: position `t`, element `bb` is the row of the spec's context. -/
theorem C06_chunk (b : Buffers) (V : Nat) (sos : Int) (B : Nat) (hist : List (List Int))
    (hrows : ∀ r ∈ hist, r.length = B) (chunk : Nat) (hchunk : 1 ≤ chunk) :
    fullChunked b V sos B hist chunk =
      (List.range (hist.length + 1)).map (fun t =>
        (List.range B).map (fun bb => rowOf b V sos (context b.N sos (col hist bb) t))) :=
  fullChunked_eq b V sos B hist hrows chunk hchunk

/-- Any two chunk sizes agree. -/
theorem C06_chunk_indep (b : Buffers) (V : Nat) (sos : Int) (B : Nat) (hist : List (List Int))
    (hrows : ∀ r ∈ hist, r.length = B) (c₁ c₂ : Nat) (h₁ : 1 ≤ c₁) (h₂ : 1 ≤ c₂) :
    fullChunked b V sos B hist c₁ = fullChunked b V sos B hist c₂ := by
  rw [C06_chunk b V sos B hist hrows c₁ h₁, C06_chunk b V sos B hist hrows c₂ h₂]

/-- **C06_full_eq_idx.** All positions at once (any chunk size) = one index at a time on the
whole history (`SequentialLanguageModel.calc_full_log_probs`). -/
theorem C06_full_eq_idx (b : Buffers) (V : Nat) (sos : Int) (B : Nat) (hist : List (List Int))
    (hrows : ∀ r ∈ hist, r.length = B) (chunk : Nat) (hchunk : 1 ≤ chunk) :
    fullChunked b V sos B hist chunk = fullByIdx b V sos B hist := by
  rw [fullChunked_eq b V sos B hist hrows chunk hchunk, fullByIdx_eq]

/-- … and position `i` of the full result is what a scalar index returns. -/
theorem C06_full_get_scalar (b : Buffers) (V : Nat) (sos : Int) (B : Nat) (hist : List (List Int))
    (hrows : ∀ r ∈ hist, r.length = B) (chunk : Nat) (hchunk : 1 ≤ chunk) (i : Nat)
    (hi : i ≤ hist.length) :
    (fullChunked b V sos B hist chunk)[i]? = some (calcIdxScalar b V sos B hist i) := by
  rw [fullChunked_eq b V sos B hist hrows chunk hchunk, calcIdxScalar_eq_posRows _ _ _ _ _ _ hi]
  simp [List.getElem?_range, Nat.lt_succ_of_le hi]

/-- … and a per-element index vector picks, for element `bb`, entry `[hidx[bb]][bb]` of the
full result. -/
theorem C06_full_get_vec (b : Buffers) (hN : 1 ≤ b.N) (V : Nat) (sos : Int) (B : Nat)
    (hist : List (List Int)) (hrows : ∀ r ∈ hist, r.length = B) (chunk : Nat) (hchunk : 1 ≤ chunk)
    (hidx : List Nat) (hlen : hidx.length = B) (hle : ∀ x ∈ hidx, x ≤ hist.length)
    (bb : Nat) (hbb : bb < B) :
    (calcIdxVec b V sos B hist hidx)[bb]? =
      ((fullChunked b V sos B hist chunk)[hidx.getD bb 0]?).bind (·[bb]?) := by
  have hmem : hidx.getD bb 0 ∈ hidx := by
    rw [List.getD_eq_getElem?_getD, List.getElem?_eq_getElem (by omega)]
    simp
  have hi := hle _ hmem
  rw [fullChunked_eq b V sos B hist hrows chunk hchunk, calcIdxVec_eq b hN V sos B hist hidx hlen hle]
  have h1 : ((List.range (hist.length + 1)).map (posRows b V sos B hist))[hidx.getD bb 0]? =
      some (posRows b V sos B hist (hidx.getD bb 0)) := by
    rw [List.getElem?_map, List.getElem?_range (by omega)]; rfl
  rw [h1, Option.bind_some]
  unfold posRows
  rw [List.getElem?_map, List.getElem?_map, List.getElem?_range hbb]; rfl

/-- `sos → V` (when the start symbol is outside the vocabulary), as applied to every key of
the table by `_build_trie` and to the window by the lookup. -/
def remapTable (V : Nat) (sos : Int) (items : List (List Int × Entry)) : List (List Int × Entry) :=
  items.map (fun e => (e.1.map (remapTok V sos), e.2))

/-
TARGET (not proved): C06_flat —
  for every table `dicts` accepted by `buildTrie V sos dicts = some b`,
  `Represents (flatNav b (uOf V sos b.N)) (ofList (remapTable V sos (entries dicts))) (fun t => 0 ≤ t ∧ t < V + shiftOf V sos)`
i.e. the flat buffers (children of node `i` are `[i + offsets[i], i + 1 + offsets[i+1])`,
sorted by id, at most `S` of them) are a reverse trie of the closed, remapped table.
This layer is carried by correspondence: the model's four buffers, `S`, `G`, `N` and both
integer widths are compared element by element with the implementation's on every case,
and the driver checks `rowOf = bo` on every generated case.
-/

/-- **C06_lookup_partial.** Given the flat-buffer layer (`hflat`, the statement of the
unproved `C06_flat`), a row of the model is the Katz recursion on the table for the
remapped window; with `C06_chunk` / `C06_idx_*` this is the whole property for every
evaluation route. -/
theorem C06_lookup_partial (b : Buffers) (V : Nat) (sos : Int) (tbl : Table) (D : Int → Prop)
    (hflat : Represents (flatNav b (uOf V sos b.N)) tbl D) (hN : b.N ≠ 1)
    (win : List Int) (hwin : ∀ t ∈ win, D (remapTok V sos t)) (hV : ∀ w, w < V → D (Int.ofNat w)) :
    rowOf b V sos win =
      (List.range V).map (fun w => LogP.ofOption (bo tbl (Int.ofNat w) (win.map (remapTok V sos)))) := by
  unfold rowOf
  rw [if_neg hN]
  apply List.map_congr_left
  intro w hw
  exact descend_eq_bo _ tbl D hflat _ _ (hV w (List.mem_range.mp hw))
    (by intro t ht; simp at ht; obtain ⟨a, ha, rfl⟩ := ht; exact hwin a ha)

/-! ## non-vacuity: the hypotheses are satisfiable on concrete, non-trivial inputs -/

/-- A sparse trigram table: the bigram `(2,0)` and the unigram `2` are not listed although
`(2,2,0)` is; `(0,1)` has a back-off weight. -/
def exItems : List (List Int × Entry) :=
  [([0], (some (-1), -1/2)), ([1], (some (-2), -1/4)),
   ([0, 1], (some (-1/2), -1/8)),
   ([1, 0, 1], (some (-1/4), 0)), ([2, 2, 0], (some (-3), 0))]

-- the trigram (1,0,1) is listed: taken as is
example : descend (trieNav exItems) [1, 0].reverse 1 = LogP.fin (-1/4) := by decide +kernel
-- (0,1,0) is not listed, (1,0) is not listed: β(0,1) + β(1) + P(0) = -1/8 - 1/4 - 1
example : bo (ofList exItems) 0 [0, 1] = some (-11/8) := by decide +kernel
example : descend (trieNav exItems) [0, 1].reverse 0 = LogP.fin (-11/8) := by decide +kernel
-- an unlisted unigram is -∞ however long the context
example : descend (trieNav exItems) [2, 2].reverse 2 = LogP.negInf := by decide +kernel

-- hypotheses of the window theorems on a concrete history (T = 3, B = 2) and index vector
example : ∀ r ∈ ([[1, 0], [0, 2], [1, 2]] : List (List Int)), r.length = 2 := by decide
example : ([3, 1] : List Nat).length = 2 ∧ ∀ x ∈ ([3, 1] : List Nat), x ≤ 3 := by decide
-- the spec's context: order 4, position 1 of column 0 is `sos sos 1`
example : context 4 (-1) (col [[1, 0], [0, 2], [1, 2]] 0) 1 = [-1, -1, 1] := by decide
-- per-element windows share one padding but differ per element
example : windowsVec 3 7 2 [[1, 0], [0, 2], [1, 2]] [3, 1] = [[0, 1], [7, 0]] := by decide

end PdtVerif.NgramTrie

namespace PdtVerif.NgramArpa

/-- **C06_arpa_entry.** One printed entry line is read back as the entry, whatever the
tokens look like: the implicit back-off rule (`float()` on the last of `n+1` fields) can
never mistake a token for a back-off weight, because it only fires when there is one field
too many. -/
theorem C06_arpa_entry (implicit : Bool) (tok : String → Field) (htok : ∀ x, (tok x).s = x)
    (N n : Nat) (hnN : n ≤ N) (e : PEntry) (hwf : EntryWf N n e) (ds : List (List PEntry)) :
    ∃ p fs, printEntry implicit (n == N) tok e = .entry p fs ∧
      addEntry N n ds p fs = some (ds.modify (n - 1) (fun d => insert d e)) :=
  addEntry_printEntry implicit tok htok N n hnN e hwf ds

/-- **C06_arpa.** The line-level reader inverts the writer on every well-formed table (any
number of orders, any number of entries, tokens that read as numbers included, zero
back-off weights written or omitted). The regular expressions / `float()` that turn a text
line into a `Line` are not part of this statement (correspondence only). -/
theorem C06_arpa (implicit : Bool) (tok : String → Field) (htok : ∀ x, (tok x).s = x)
    (t : List (List PEntry)) (hwf : TableWf t) :
    parseArpa (printArpa implicit tok t) = .ok t :=
  parseArpa_printArpa implicit tok htok t hwf

/-- Tokens "7", "10": every token reads as a number. -/
def exTok (x : String) : Field := ⟨x, some 7⟩

def exTable : List (List PEntry) :=
  [[⟨["7"], -1, some (-2)⟩, ⟨["10"], -3, some 0⟩], [⟨["7", "10"], -4, none⟩, ⟨["10", "10"], -5, none⟩]]

example : TableWf exTable := by
  intro i d h
  match i, h with
  | 0, h => cases h; exact ⟨by intro e he; simp at he; rcases he with rfl | rfl <;> constructor <;> simp [exTable], by decide⟩
  | 1, h => cases h; exact ⟨by intro e he; simp at he; rcases he with rfl | rfl <;> constructor <;> simp [exTable], by decide⟩
  | n + 2, h => simp [exTable] at h

example : (parseArpa (printArpa true exTok exTable)).toOption = some exTable := by decide +kernel

end PdtVerif.NgramArpa
