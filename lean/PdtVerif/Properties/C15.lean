import PdtVerif.Lemmas.Controller
import PdtVerif.Lemmas.ControllerLoop
import PdtVerif.Lemmas.ControllerText
/-!
# C15 — training control decisions follow the stated rules and survive restarts

Property theorems only (helper lemmas: `Lemmas/Controller.lean`; model of the code:
`Model/Controller.lean`; the stated rules: `Spec/TrainingRules.lean`).

Every statement about the code is for **every** parameter setting allowed by `TrainingStateParams`
(`Params.WF`: patiences ≥ 1, thresholds ≥ 0), every float rounding function `rnd`, every list of
initial optimizer rates and every sequence of `(train_met, val_met)` pairs, of any length.

Sections: decisions (`C15_no_keyerror` … `C15_continue_at`), the documented training loops
(`C15_loop` …: the side condition `liveRun` holds on them), the rules' state on the raw sequence
(`C15_spec_window`), the text of the history file (`C15_int_text`, `C15_float_text`,
`C15_csv_roundtrip`, `C15_file_reread`, `C15_restart_text`, `C15_entries`, `C15_repr_text`; helper
lemmas `Lemmas/ControllerText.lean`, model `Model/ControllerText.lean`), restarts.
-/
namespace PdtVerif.Controller
open PdtVerif.TrainingRules

/-- the validation metrics of a metric sequence -/
abbrev vals (ms : List (Rat × Rat)) : List Rat := ms.map (·.2)

theorem specRun_epoch (P : Params) : ∀ (vs : List Rat) (T : SpecState),
    (specRun P T vs).1.epoch = T.epoch + vs.length := by
  intro vs
  induction vs with
  | nil => intro T; rfl
  | cons v vs ih => intro T; rw [specRun_cons]; simp only [ih, specStep_epoch, List.length_cons]; omega

/-- **No `KeyError`**: on consecutive epochs the three history lookups of `update_for_epoch`
(previous epoch, both reference epochs computed by `epoch - patience + countdown - 1`) always
hit a recorded epoch — for every history, also when training continues after a stop. -/
theorem C15_no_keyerror (P : Params) (hP : P.WF) (g : List Rat) (ms : List (Rat × Rat)) :
    ∃ S outs, run P (init P g) ms = .ok (S, outs) ∧ outs.length = ms.length ∧
      S.hist = row0 P :: outs.map (·.row) := by
  obtain ⟨S, outs, hr, _, _, _, h3, _, h5⟩ := run_simU hP ms _ _ (init_invU P hP g)
  refine ⟨S, outs, hr, ?_, by simpa [init] using h5⟩
  simpa using congrArg List.length h3

/-- **C15_ref_epoch** (appendix A8).  After any number of epochs (early stopping not having fired
before the last of them), with `L` the newest history row and `T` the state of the rules:

* the index the code will compute for its next early-stopping lookup,
  `epoch - patience + es_patience_cd - 1`, **is** the epoch at which the rules last reset the
  patience count; the row stored there holds the rules' reference value; the stored countdown is
  `patience - consecutive failures`, the stored resume countdown is the remaining burn-in;
* the same for the learning-rate criterion (reset = improvement, burn-in/cool-down epoch, or the
  criterion firing). -/
theorem C15_ref_epoch (P : Params) (hP : P.WF) (g : List Rat) (ms : List (Rat × Rat))
    (hlive : liveRun P (specInit P g) (vals ms)) :
    ∃ S outs L, run P (init P g) ms = .ok (S, outs) ∧
      S.hist.length = ms.length + 1 ∧ S.hist[ms.length]? = some L ∧
      let T := (specRun P (specInit P g) (vals ms)).1
      -- early stopping
      esEpochOf P (ms.length + 1) L = (T.es.refEpoch : Int) ∧
      (∃ r, S.hist[T.es.refEpoch]? = some r ∧ r.val = T.es.ref) ∧
      L.esCd = (P.esPat : Int) - (T.es.fails : Int) ∧ T.es.fails ≤ P.esPat ∧
      L.esResume = (T.es.wait : Int) ∧ T.es.refEpoch + T.es.fails = ms.length ∧
      -- learning rate
      rlrEpochOf P (ms.length + 1) L = (T.rlr.refEpoch : Int) ∧
      (∃ r, S.hist[T.rlr.refEpoch]? = some r ∧ r.val = T.rlr.ref) ∧
      L.rlrCd = (P.rlrPat : Int) - (T.rlr.fails : Int) ∧ T.rlr.fails < P.rlrPat ∧
      L.rlrResume = (T.rlr.wait : Int) ∧ T.rlr.refEpoch + T.rlr.fails = ms.length := by
  obtain ⟨S, outs, hr, hU, _⟩ := run_simU hP ms _ _ (init_invU P hP g)
  obtain ⟨hE, _⟩ := run_simEs hP ms _ _ (init_invU P hP g) (init_invEs P g) hlive S outs hr
  have hep : (specRun P (specInit P g) (vals ms)).1.epoch = ms.length := by
    rw [specRun_epoch]; simp [specInit]
  have hidxE := fun L hL => esEpochOf_eq hE (L := L) hL
  have hidxR := fun L hL => rlrEpochOf_eq hU (L := L) hL
  obtain ⟨hlen, _, L, hL, hrlr, hlt, _⟩ := hU
  obtain ⟨L', hL', hes⟩ := hE
  have : L' = L := by rw [hL] at hL'; exact (Option.some.inj hL').symm
  subst this
  rw [hep] at hL hlen hidxE hidxR
  refine ⟨S, outs, L', hr, hlen, hL, ?_⟩
  simp only
  refine ⟨hidxE L' hL, hes.ref, hes.cd, hes.le, hes.wait, ?_, hidxR L' hL, hrlr.ref, hrlr.cd, hlt,
    hrlr.wait, ?_⟩
  · rw [← hep]; exact hes.refE
  · rw [← hep]; exact hrlr.refE

/-- **C15_stop**: for every metric sequence and parameter setting the value returned by
`update_for_epoch` at every epoch is "continue" exactly when the rules do not say stop — stop ⇔
the epoch budget is reached or (early stopping enabled and `patience` consecutive post-burn-in
epochs failed to undercut, by the threshold, the value recorded when the count was last reset) —
for all epochs up to and including the one at which early stopping fires. -/
theorem C15_stop (P : Params) (hP : P.WF) (g : List Rat) (ms : List (Rat × Rat))
    (hlive : liveRun P (specInit P g) (vals ms)) :
    ∃ S outs, run P (init P g) ms = .ok (S, outs) ∧
      outs.map (·.cont) = (specRun P (specInit P g) (vals ms)).2.map (fun o => !o.stop) := by
  obtain ⟨S, outs, hr, _⟩ := run_simU hP ms _ _ (init_invU P hP g)
  exact ⟨S, outs, hr,
    (run_simEs hP ms _ _ (init_invU P hP g) (init_invEs P g) hlive S outs hr).2⟩

/-- **C15_lr**: for every metric sequence (no side condition: also after a stop), at every epoch
the code multiplies the rate and writes it into every optimizer group exactly when the rules'
criterion fires outside burn-in/cool-down and the change exceeds epsilon (`lrAction = some new`),
and leaves the optimizer alone otherwise (`none`); the recorded rate and the optimizer groups are
those of the rules. -/
theorem C15_lr (P : Params) (hP : P.WF) (g : List Rat) (ms : List (Rat × Rat)) :
    ∃ S outs, run P (init P g) ms = .ok (S, outs) ∧
      outs.map (·.setLr) = (specRun P (specInit P g) (vals ms)).2.map lrAction ∧
      outs.map (·.row.lr) = (specRun P (specInit P g) (vals ms)).2.map (fun o => some o.lr) ∧
      S.groups = (specRun P (specInit P g) (vals ms)).1.groups := by
  obtain ⟨S, outs, hr, hU, h1, h2, _⟩ := run_simU hP ms _ _ (init_invU P hP g)
  exact ⟨S, outs, hr, h1, h2, hU.groups⟩

/-- what `lrAction` means, spelled out: the optimizer is written iff the criterion fired and the
change is not negligible; firing needs: not waiting, a failure, and the patience-th in a row.
(Audit: this is the definition of the rules' `specStep` unfolded — a reading aid about the SPEC, it
says nothing about the code and is not counted as an obligation.  The statement about the code is
`C15_lr_epoch` below.) -/
theorem C15_lr_iff (P : Params) (T : SpecState) (v : Rat) :
    let o := (specStep P T v).2
    ((lrAction o).isSome ↔ (o.fire = true ∧ P.rlrEps < P.rnd (T.lr - P.rnd (T.lr * P.rlrFactor)))) ∧
    (o.fire = true ↔ (T.rlr.wait = 0 ∧ undercutFails P P.rlrThr T.rlr.ref v = true ∧
      P.rlrPat ≤ T.rlr.fails + 1)) ∧
    (lrAction o = some (P.rnd (T.lr * P.rlrFactor)) ∨ lrAction o = none) := by
  simp only [lrAction, specStep]
  refine ⟨?_, ?_, ?_⟩
  · split <;> simp_all
  · simp [and_assoc]
  · split <;> simp_all

/-- `continue_training()` right after an update agrees with the value the update returned. -/
theorem C15_continue (P : Params) (S S' : State) (tr v : Rat) (o : Out)
    (h : step P S tr v = .ok (S', o)) : continueTraining P S' = .ok o.cont :=
  continue_after_step P S S' tr v o h

/-- **C15_continue_at**: `continue_training(e)` with an explicit epoch, asked at any later time of an
uninterrupted run: for every recorded epoch `e ≥ 1` it is the value `update_for_epoch` returned at
epoch `e`; for `e = 0` (nothing recorded yet) it is `True`. -/
theorem C15_continue_at (P : Params) (hP : P.WF) (g : List Rat) (ms : List (Rat × Rat)) :
    ∃ S outs, run P (init P g) ms = .ok (S, outs) ∧
      continueTrainingAt P S 0 = .ok true ∧
      ∀ (i : Nat) (o : Out), outs[i]? = some o → continueTrainingAt P S (i + 1) = .ok o.cont := by
  obtain ⟨S, outs, hr, _, hh⟩ := C15_no_keyerror P hP g ms
  obtain ⟨_, hrows⟩ := run_rows ms _ S outs hr
  refine ⟨S, outs, hr, ?_, ?_⟩
  · have h0 : S.hist[0]? = some (row0 P) := by rw [hh]; rfl
    rw [continueTrainingAt_row h0 rfl]
    have h1 : (row0 P).esCd ≠ 0 := by
      have := hP.esPat
      simp only [row0]
      omega
    have h2 : budgetCont P (row0 P).epoch = true := by
      unfold budgetCont
      cases P.numEpochs with
      | none => rfl
      | some n =>
        by_cases hn : n = 0
        · simp [hn]
        · simp only [hn, if_false]
          exact decide_eq_true (Nat.pos_of_ne_zero hn)
    simp [contOfRow, h1, h2]
  · intro i o hi
    obtain ⟨hc, he⟩ := hrows i o hi
    have hrow : S.hist[i + 1]? = some o.row := by
      rw [hh, List.getElem?_cons_succ, List.getElem?_map, hi]; rfl
    rw [continueTrainingAt_row hrow (by rw [he]; simp [init]; omega), hc]

/-! ### the hypotheses are satisfiable, the statements are not vacuous -/

/-- a setting with early stopping (threshold 1/2, patience 2, burn-in 1) and rate reduction
(threshold 1/2, factor 1/2, patience 1, cool-down 1), exact arithmetic -/
def exP : Params :=
  { numEpochs := some 10, esThr := 1/2, esPat := 2, esBurn := 1, rlrThr := 1/2, rlrFactor := 1/2,
    rlrPat := 1, rlrCool := 1, rlrBurn := 0, rlrEps := 1/100000000, initLr := none,
    optDefault := 1, rnd := id }

def exMs : List (Rat × Rat) := [(2, 2), (2, 1), (2, 1), (2, 1), (2, 1)]

example : exP.WF := ⟨by decide, by decide, by decide +kernel, by decide +kernel⟩

/-- early stopping has not fired before the 4th epoch of `exMs` … -/
example : liveRun exP (specInit exP [1]) (vals (exMs.take 4)) := by
  simp only [exMs, vals, List.take, List.map, liveRun]; decide +kernel

/-- … it fires at the 4th (two failures after the burn-in epoch and the improvement), the rate is
halved at epochs 3 (fired) and, after one epoch of cool-down, 5. -/
example : ((specRun exP (specInit exP [1]) (vals exMs)).2.map (fun o => (o.stop, o.reduce, o.lr)))
    = [(false, false, 1), (false, false, 1), (false, true, 1/2), (true, false, 1/2), (true, true, 1/4)] := by
  decide +kernel

example : (match run exP (init exP [1]) exMs with
    | .ok (S, outs) => some (outs.map (fun o => (o.cont, o.setLr)), S.groups)
    | .error _ => none)
    = some ([(true, none), (true, none), (true, some (1/2)), (false, none), (false, some (1/4))], [1/4]) := by
  decide +kernel

/-! ## the documented training loops: `liveRun` is not a restriction on them -/

/-- **C15_until_stop**: what "the rules up to the first stop" (`specUntilStop`) is: the rules' outputs
on the first `k` epochs, where no epoch before the `k`-th says stop and, unless the metric stream
ran out, the `k`-th does. -/
theorem C15_until_stop (P : Params) (T : SpecState) (vs : List Rat) :
    specUntilStop P T vs = (specRun P T (vs.take (specUntilStop P T vs).length)).2 ∧
    (specUntilStop P T vs).length ≤ vs.length ∧
    (∀ o ∈ (specUntilStop P T vs).dropLast, o.stop = false) ∧
    ((specUntilStop P T vs).length < vs.length →
      ∃ o, (specUntilStop P T vs).getLast? = some o ∧ o.stop = true) :=
  specUntilStop_spec P vs T

/-- **C15_loop** — no side condition.  For every parameter setting and every stream `ms` of metrics
the epochs would produce, the two documented loops
`for …: if not controller.update_for_epoch(…): break` (`breakLoop`) and
`while controller.continue_training(): …; controller.update_for_epoch(…)` (`whileLoop`)

* never raise, run the same epochs and end in the same state;
* run exactly the epochs the rules allow: the returned values are those of the rules up to and
  including the first epoch at which the rules say stop (budget reached, or early stopping enabled
  and `patience` consecutive post-burn-in epochs failed to undercut the reference by the threshold);
* are a prefix of the unconditional run, and that prefix satisfies `liveRun` — the hypothesis of
  `C15_stop` and `C15_ref_epoch` holds for everything a caller following the documented protocol
  can do.  Calling `update_for_epoch` again after it returned `False` is outside the protocol (the
  code then clamps the countdown and slides the reference: modelled and compared, not specified). -/
theorem C15_loop (P : Params) (hP : P.WF) (g : List Rat) (ms : List (Rat × Rat)) :
    ∃ S outs, breakLoop P (init P g) ms = .ok (S, outs) ∧
      whileLoop P (init P g) ms = .ok (S, outs) ∧
      outs.length ≤ ms.length ∧
      run P (init P g) (ms.take outs.length) = .ok (S, outs) ∧
      liveRun P (specInit P g) (vals (ms.take outs.length)) ∧
      outs.map (·.cont) = (specUntilStop P (specInit P g) (vals ms)).map (fun o => !o.stop) := by
  have hl : (specInit P g).es.fails < P.esPat := by
    have := hP.esPat
    simp only [specInit]
    omega
  obtain ⟨S, outs, hb, hlen, hr, hlive, hc⟩ :=
    breakLoop_sim hP ms _ _ (init_invU P hP g) (init_invEs P g) hl
  refine ⟨S, outs, hb, ?_, hlen, hr, hlive, hc⟩
  rw [whileLoop_eq_breakLoop ms _ (continueTraining_init P hP g)]
  exact hb

/-- **C15_stop_loop**: `C15_stop` and the early-stopping half of `C15_ref_epoch` for the loops,
with the `liveRun` hypothesis discharged: after the loop has run `k` epochs (for any stream),
the returned values are `¬ stop` of the rules on those `k` epochs, and the index the code would
compute next, `epoch - patience + es_patience_cd - 1`, is the epoch at which the rules last reset
the early-stopping patience count. -/
theorem C15_stop_loop (P : Params) (hP : P.WF) (g : List Rat) (ms : List (Rat × Rat)) :
    ∃ S outs L, whileLoop P (init P g) ms = .ok (S, outs) ∧
      let k := outs.length
      let T := (specRun P (specInit P g) (vals (ms.take k))).1
      outs.map (·.cont) = (specRun P (specInit P g) (vals (ms.take k))).2.map (fun o => !o.stop) ∧
      S.hist[k]? = some L ∧
      esEpochOf P (k + 1) L = (T.es.refEpoch : Int) ∧
      (∃ r, S.hist[T.es.refEpoch]? = some r ∧ r.val = T.es.ref) ∧
      L.esCd = (P.esPat : Int) - (T.es.fails : Int) := by
  obtain ⟨S, outs, _, hw, hlen, hr, hlive, _⟩ := C15_loop P hP g ms
  obtain ⟨S1, outs1, hr1, hstop⟩ := C15_stop P hP g (ms.take outs.length) hlive
  obtain ⟨S2, outs2, L, hr2, _, hL, hfacts⟩ := C15_ref_epoch P hP g (ms.take outs.length) hlive
  rw [hr] at hr1 hr2
  simp only [Except.ok.injEq, Prod.mk.injEq] at hr1 hr2
  obtain ⟨rfl, rfl⟩ := hr1
  obtain ⟨rfl, rfl⟩ := hr2
  have hk : (ms.take outs.length).length = outs.length := by
    rw [List.length_take]; omega
  rw [hk] at hL hfacts
  simp only at hfacts
  exact ⟨S, outs, L, hw, hstop, hL, hfacts.1, hfacts.2.1, hfacts.2.2.1⟩

/-- **C15_live_of_obeyed** — the side condition `liveRun` of `C15_stop` / `C15_ref_epoch`, stated
on the code's own return values instead of the rules: it holds for every call sequence in which
`update_for_epoch` was never called again after it had returned `False` (all returned values
except possibly the last are `True`). -/
theorem C15_live_of_obeyed (P : Params) (hP : P.WF) (g : List Rat) (ms : List (Rat × Rat))
    (S : State) (outs : List Out) (h : run P (init P g) ms = .ok (S, outs))
    (hob : ∀ o ∈ outs.dropLast, o.cont = true) :
    liveRun P (specInit P g) (vals ms) := by
  have hb := breakLoop_of_obeyed ms _ S outs h hob
  obtain ⟨S', outs', hb', _, _, _, hlive, _⟩ := C15_loop P hP g ms
  rw [hb] at hb'
  simp only [Except.ok.injEq, Prod.mk.injEq] at hb'
  obtain ⟨rfl, rfl⟩ := hb'
  obtain ⟨_, _, hr2, hl2, _⟩ := C15_no_keyerror P hP g ms
  rw [h] at hr2
  simp only [Except.ok.injEq, Prod.mk.injEq] at hr2
  obtain ⟨_, rfl⟩ := hr2
  have : ms.take outs.length = ms := by rw [hl2]; exact List.take_length
  rw [this] at hlive
  exact hlive

/-- on the example: the loop runs 4 of the 5 epochs (early stopping fires at the 4th) -/
example : (match whileLoop exP (init exP [1]) exMs with
    | .ok (_, outs) => some (outs.map (·.cont))
    | .error _ => none) = some [true, true, true, false] := by decide +kernel

example : ((specUntilStop exP (specInit exP [1]) (vals exMs)).map (·.stop))
    = [false, false, false, true] := by decide +kernel

/-- **C15_lr_unsynced**: `C15_lr` for an optimizer that was never synchronised with
`log10_learning_rate` (no `load_model_and_optimizer_for_epoch` on the fresh controller, any rates in
the param groups): the rate the code multiplies is the recorded one, and at every reduction every
group is overwritten with the new recorded rate — before the first reduction the groups keep their
own rates. -/
theorem C15_lr_unsynced (P : Params) (hP : P.WF) (g : List Rat) (ms : List (Rat × Rat)) :
    ∃ S outs, run P (initRaw P g) ms = .ok (S, outs) ∧
      outs.map (·.setLr) = (specRun P (specInitRaw P g) (vals ms)).2.map lrAction ∧
      outs.map (·.row.lr) = (specRun P (specInitRaw P g) (vals ms)).2.map (fun o => some o.lr) ∧
      S.groups = (specRun P (specInitRaw P g) (vals ms)).1.groups := by
  obtain ⟨S, outs, hr, hU, h1, h2, _⟩ := run_simU hP ms _ _ (initRaw_invU P hP g)
  exact ⟨S, outs, hr, h1, h2, hU.groups⟩

/-! ## what the rules' state means on the raw metric sequence -/

/-- **C15_spec_window**: the state of the rules after the validation metrics `vs` is what the
property's wording says, for both criteria: the reference value is the metric of the reference
epoch (`+∞` before the first epoch), each of the `fails` epochs after it failed to undercut it by
the threshold, and there are no other epochs after it.  Together with `C15_ref_epoch` this
pins the code's `epoch - patience + countdown - 1` to "the epoch since which every recorded
validation metric failed to undercut that epoch's value". -/
theorem C15_spec_window (P : Params) (g : List Rat) (vs : List Rat) :
    Window P P.esThr vs (specRun P (specInit P g) vs).1.es ∧
    Window P P.rlrThr vs (specRun P (specInit P g) vs).1.rlr := by
  have h0 : ∀ thr w, Window P thr [] { refEpoch := 0, ref := none, fails := 0, wait := w } := by
    intro thr w
    refine ⟨rfl, rfl, ?_⟩
    intro j h1 h2
    simp only [List.length_nil] at h2
    omega
  have := window_specRun P vs [] (specInit P g) rfl (h0 _ _) (h0 _ _)
  simpa using this

example : (specRun exP (specInit exP [1]) (vals exMs)).1.es.refEpoch = 2 ∧
    (specRun exP (specInit exP [1]) (vals exMs)).1.es.fails = 3 ∧
    (specRun exP (specInit exP [1]) (vals exMs)).1.rlr.refEpoch = 5 := by decide +kernel

/-! ## the decisions of one epoch, stated on the code's own records and the raw metric sequence

(audit round) `C15_lr` / `C15_stop` equate two lists; what the entries of the rules' list *mean* was
only available as the unfolded definition of the rules (`C15_lr_iff`).  The two theorems below say
it about the **code**, epoch by epoch, with the rules' state pinned to the raw sequence by
`Window` (`C15_spec_window`). -/

/-- **C15_lr_epoch** — no side condition.  After any metric sequence `ms`, at the next epoch (metrics
`m`) the code writes a new rate into the optimizer **iff** all of: the criterion is not in
burn-in/cool-down (the stored `rlr_resume_cd` of the previous row `L` is 0), the validation metric
fails to undercut, by the threshold, the reference value, this is the `patience`-th such epoch in
a row, and the change `old - rnd(old·factor)` exceeds epsilon; the value written is
`rnd(old·factor)` where `old` is the rate recorded in the previous row (the optimizer's default
at epoch 1 when `log10_learning_rate` is unset); otherwise nothing is written and the recorded
rate stays `old`.  `Window`: the reference value is the validation metric of epoch `refEpoch`
(`+∞` for 0), exactly the `fails` epochs after it are recorded and each of them failed to undercut
it by the threshold. -/
theorem C15_lr_epoch (P : Params) (hP : P.WF) (g : List Rat) (ms : List (Rat × Rat)) (m : Rat × Rat) :
    ∃ S outs o L, run P (init P g) (ms ++ [m]) = .ok (S, outs ++ [o]) ∧ outs.length = ms.length ∧
      S.hist[ms.length]? = some L ∧
      let T := (specRun P (specInit P g) (vals ms)).1
      let new := P.rnd (T.lr * P.rlrFactor)
      let crit := T.rlr.wait = 0 ∧ undercutFails P P.rlrThr T.rlr.ref m.2 = true ∧
        P.rlrPat ≤ T.rlr.fails + 1 ∧ P.rlrEps < P.rnd (T.lr - new)
      L.lr.getD P.optDefault = T.lr ∧ L.rlrResume = (T.rlr.wait : Int) ∧
      Window P P.rlrThr (vals ms) T.rlr ∧
      (o.setLr = some new ↔ crit) ∧ (o.setLr = none ↔ ¬ crit) ∧
      o.row.lr = some (if crit then new else T.lr) := by
  obtain ⟨S1, outs, hr, hU, _, _, h3, _, _⟩ := run_simU hP ms _ _ (init_invU P hP g)
  obtain ⟨S2, o, hs, hSU⟩ := step_invU hP hU m.1 m.2
  have hrun : run P (init P g) (ms ++ [m]) = .ok (S2, outs ++ [o]) :=
    run_append_ok ms _ S1 S2 outs [o] [m] hr (run_cons_ok hs rfl)
  have hlen : outs.length = ms.length := by simpa using congrArg List.length h3
  have hep : (specRun P (specInit P g) (vals ms)).1.epoch = ms.length := by
    rw [specRun_epoch]; simp [specInit]
  obtain ⟨hl, _, L, hL, hrlr, _, hlr, _⟩ := hU
  rw [hep] at hL hl
  have hL2 : S2.hist[ms.length]? = some L := by
    rw [hSU.hist, List.getElem?_append_left (by omega)]; exact hL
  refine ⟨S2, outs, o, L, hrun, hlen, hL2, ?_⟩
  have hset := hSU.setLr
  have hrow := hSU.rowLr
  simp only [specStep] at hset hrow
  refine ⟨hlr, hrlr.wait, (C15_spec_window P g (vals ms)).2, ?_, ?_, ?_⟩
  · rw [hset]; split <;> simp_all [and_assoc]
  · rw [hset]; split <;> simp_all [and_assoc]
  · rw [hrow]; split <;> simp_all [and_assoc]

/-- **C15_stop_epoch** — `C15_stop` for one epoch, on the raw sequence: for a call sequence on which
early stopping has not fired before (`liveRun`; discharged for the documented loops by `C15_loop`,
from the code's own return values by `C15_live_of_obeyed`), the value returned at the last epoch is
`False` **iff** the epoch budget is reached or early stopping is enabled and at least `patience`
consecutive epochs — all the epochs after the reference epoch, none of them in burn-in — failed
to undercut, by the threshold, the validation metric of the reference epoch (`Window`). -/
theorem C15_stop_epoch (P : Params) (hP : P.WF) (g : List Rat) (ms : List (Rat × Rat)) (m : Rat × Rat)
    (hlive : liveRun P (specInit P g) (vals (ms ++ [m]))) :
    ∃ S outs o, run P (init P g) (ms ++ [m]) = .ok (S, outs ++ [o]) ∧ outs.length = ms.length ∧
      let T' := (specRun P (specInit P g) (vals (ms ++ [m]))).1
      Window P P.esThr (vals (ms ++ [m])) T'.es ∧
      (o.cont = false ↔ (budgetReached P (ms.length + 1) = true ∨
        (P.esThr ≠ 0 ∧ P.esPat ≤ T'.es.fails))) := by
  have hv : vals (ms ++ [m]) = vals ms ++ [m.2] := by simp [vals]
  rw [hv] at hlive
  obtain ⟨hl1, hl2⟩ := (liveRun_snoc P (vals ms) (specInit P g) m.2).1 hlive
  obtain ⟨S1, outs, hr, hU, _, _, h3, _, _⟩ := run_simU hP ms _ _ (init_invU P hP g)
  obtain ⟨hE, _⟩ := run_simEs hP ms _ _ (init_invU P hP g) (init_invEs P g) hl1 S1 outs hr
  obtain ⟨S2, o, hs, _⟩ := step_invU hP hU m.1 m.2
  obtain ⟨_, hc⟩ := step_invEs hP hU hE hl2 m.1 m.2 hs
  have hrun : run P (init P g) (ms ++ [m]) = .ok (S2, outs ++ [o]) :=
    run_append_ok ms _ S1 S2 outs [o] [m] hr (run_cons_ok hs rfl)
  have hlen : outs.length = ms.length := by simpa using congrArg List.length h3
  have hep : (specRun P (specInit P g) (vals ms)).1.epoch = ms.length := by
    rw [specRun_epoch]; simp [specInit]
  refine ⟨S2, outs, o, hrun, hlen, ?_⟩
  simp only
  refine ⟨(C15_spec_window P g (vals (ms ++ [m]))).1, ?_⟩
  rw [hv, specRun_snoc, hc]
  simp only [specStep, SpecOut.stop, hep]
  cases hb : budgetReached P (ms.length + 1) <;> simp

/-! ## the text of the history file -/

/-- **C15_int_roundtrip**: an epoch number / countdown / integer user entry printed with
`"{:0wd}"` (any width) and read back with `int(...)` is the same number. -/
theorem C15_int_roundtrip (w n : Nat) : parseNat (fmtNat w n) = some n := parseNat_fmtNat w n

/-- … and so is every (possibly negative) integer: `int("{:0wd}".format(n)) = n`. -/
theorem C15_int_text (w : Nat) (n : Int) : parseInt (fmtInt w n) = some n := parseInt_fmtInt w n

example : fmtNat 3 7 = ['0', '0', '7'] ∧ fmtNat 2 1234 = ['1', '2', '3', '4'] ∧
    fmtInt 5 (-42) = ['-', '0', '0', '4', '2'] := by decide

/-- **C15_float_text** — the text layer of the float columns, for **all** values and every
precision `sig ≥ 1`: `float(...)` applied to the characters `[-]d.dddde±XX` that
`"{:.{sig-1}e}".format(x)` writes is `rt x` — the value of the printed record `fmtSci`, rounded.
(Inside: `exp10` really is the decimal exponent, so the mantissa has exactly `sig` digits, and the
characters denote `±mantissa · 10^(exp - (sig - 1))`.) -/
theorem C15_float_text (P : Params) (hsig : 1 ≤ P.sig) (x : Rat) :
    parseFloat P (fmtFloat P.sig x) = some (rt P x) := by
  unfold parseFloat
  rw [decValue_fmtFloat P.sig hsig x]
  rfl

/-- on the printed grid (`rt x = x`) write-then-read of the text is the identity
(audit: a one-line corollary of `C15_float_text`, kept for reading, not counted as an obligation) -/
theorem C15_float_text_grid (P : Params) (hsig : 1 ≤ P.sig) (x : Rat) (hx : rt P x = x) :
    parseFloat P (fmtFloat P.sig x) = some x := by
  rw [C15_float_text P hsig x, hx]

example : fmtFloat 5 (117649 / 1000000) = "1.1765e-01".toList ∧
    fmtFloat 5 (-25 / 2) = "-1.2500e+01".toList ∧ fmtFloat 1 7 = "7e+00".toList := by decide +kernel

/-- **C15_csv_roundtrip** — the csv layer, for all records and **all** field contents (commas,
double quotes, carriage returns and line feeds included): what `csv.reader` reads from the file
(opened with `newline=""`, i.e. the tree with `fixes/C15-csv-newline.diff`) is exactly the list of
records `csv.writer` was given. -/
theorem C15_csv_roundtrip (recs : List (List (List Char))) :
    csvRead (recs.flatMap csvRecord) = recs := csvRead_csvWrite recs

example : csvRecord ["a,b".toList, "x\"y".toList, [], "c\rd\ne".toList]
    = "\"a,b\",\"x\"\"y\",,\"c\rd\ne\"\r\n".toList := by decide

/-- **C15_file_reread** — the whole file.  Rows written one by one by `save_info_to_hist` (format
strings of the controller's columns and of the declared user entries, `csv.writer`) and read back
by `update_cache` (`csv.DictReader`, column lookup by name, `int` / `float` / declared type) are,
row by row, the record-level re-read used in all restart theorems: `rtRow` on the controller's
columns (integers exact, floats through `rt`) and `rtEntry = typ ∘ fmt.format` on every user
entry.  The re-read raises exactly when a user-entry conversion raises. -/
theorem C15_file_reread (P : Params) (decls : List EntryDecl) (rows : List RowE)
    (hwf : FileWF P decls rows) (text : List Char) (ht : fileText P decls rows = some text) :
    readHist P decls text = optAll (rows.map (rtRowE P decls)) :=
  readHist_fileText P decls rows hwf text ht

/-- **C15_restart_text**: the `restart` of the restart theorems *is* the restart through the
characters of the file (`restartText`: write every recorded row, read the file back, rebuild row 0):
same controller state, and every user entry went through `rtEntry` once. -/
theorem C15_restart_text (P : Params) (decls : List EntryDecl) (S : State) (users : List (List EVal))
    (hlen : users.length = (S.hist.drop 1).length)
    (hwf : FileWF P decls
      (List.zipWith (fun r u => ({ row := r, user := u } : RowE)) (S.hist.drop 1) users))
    (text : List Char)
    (ht : fileText P decls
      (List.zipWith (fun r u => ({ row := r, user := u } : RowE)) (S.hist.drop 1) users) = some text)
    (S' : State) (users' : List (List EVal))
    (h : restartText P decls S users = some (S', users')) :
    S' = restart P S ∧ users'.length = users.length ∧
    ∀ (i : Nat) (us us' : List EVal), users[i]? = some us → users'[i]? = some us' →
      rtUsers P.rnd decls us = some us' :=
  restartText_eq P decls S users hlen hwf text ht S' users' h

/-- **C15_entries** — user-defined entries are stored and returned with their declared types.
For one entry declared `add_entry(name, typ, fmt)` and a value `v` handed to `update_for_epoch`,
`rtEntry = typ(fmt.format(v))` is what any later `get_info` returns once the row has been re-read
from the file (`C15_file_reread`, `C15_restart_text`); then

* whatever comes back has the declared type (for every format, faithful or not) — audit: in the
  model this holds by construction (`parseEntry typ` builds a value of that type, as `typ(text)`
  does in Python for `int`/`float`/`str`); the content is in the three round-trip clauses;
* an `int` entry with `"{}"`, `"{:d}"`, `"{:0wd}"` or `"{!r}"` comes back as the same integer
  (every integer, every width);
* a `str` entry with `"{}"` or `"{:s}"` comes back as the same string (every string: the csv layer
  is `C15_csv_roundtrip`);
* a `float` entry with `"{:.{sig-1}e}"` comes back as `float` of its `sig`-digit print — the same
  value exactly when it is on that grid. -/
theorem C15_entries (rnd : Rat → Rat) (name : List Char) :
    (∀ (d : EntryDecl) (v v' : EVal), rtEntry rnd d v = some v' → v'.typ = d.typ) ∧
    (∀ (f : EFmt) (n : Int), (f = .plain ∨ (∃ w, f = .dec w) ∨ f = .r) →
      rtEntry rnd ⟨name, .int, f⟩ (.int n) = some (.int n)) ∧
    (∀ (f : EFmt) (t : List Char), (f = .plain ∨ f = .s) →
      rtEntry rnd ⟨name, .str, f⟩ (.str t) = some (.str t)) ∧
    (∀ (sig : Nat) (x : Rat), 1 ≤ sig →
      rtEntry rnd ⟨name, .flt, .sci sig⟩ (.flt x) = some (.flt (rnd (sciValue sig (fmtSci sig x))))) :=
  ⟨fun _ _ _ h => rtEntry_typ h, fun f n hf => rtEntry_int rnd name f n hf,
   fun f t hf => rtEntry_str rnd name f t hf, fun sig x hs => rtEntry_sci rnd name sig hs x⟩

/-- **C15_repr_text** — `float` entries with the default format `"{}"` (or `"{!r}"`): `repr(x)` is
modelled as the shortest digit string (1…17 digits, the closer neighbour first) that reads back as
`x`, laid out in fixed notation for `1e-4 ≤ |x| < 1e16` and exponent notation otherwise
(`reprText`; compared character by character with Python on every run).  Whenever such a digit
string exists, `float(repr(x)) = x` through the characters — in particular for binary64
(`roundF64` is odd: `roundBits_neg`).  That a digit string of at most 17 digits exists for every
binary64 value is not proved (`reprText = none` never occurred). -/
theorem C15_repr_text (rnd : Rat → Rat) (hodd : ∀ v, rnd (-v) = -(rnd v)) (x : Rat) (t : List Char)
    (h : reprText rnd x = some t) :
    (decValue t).map rnd = some x ∧
    ∀ (name : List Char) (f : EFmt), (f = .plain ∨ f = .r) →
      rtEntry rnd ⟨name, .flt, f⟩ (.flt x) = some (.flt x) :=
  ⟨reprText_reads_back rnd hodd x t h, fun name f hf => rtEntry_repr rnd hodd name f hf x t h⟩

theorem C15_roundF64_odd (q : Rat) : roundF64 (-q) = -(roundF64 q) := roundBits_neg 53 q

example : (reprText roundF64 (roundF64 (1 / 10))).map String.ofList = some "0.1" ∧
    (reprText roundF64 (-(987654321 / 8))).map String.ofList = some "-123456790.125" ∧
    (reprText roundF64 (roundF64 (1 / 100000))).map String.ofList = some "1e-05" ∧
    (reprText roundF64 (10 ^ 16)).map String.ofList = some "1e+16" ∧
    (reprText roundF64 1500).map String.ofList = some "1500.0" := by decide +kernel

/-- a file with two user entries (a string with a comma, a quote, a carriage return and a line
feed; a zero-padded negative integer), written and re-read: same rows, same entries -/
def exDecls : List EntryDecl :=
  [⟨"note".toList, .str, .plain⟩, ⟨"count".toList, .int, .dec 3⟩]

def exRowsE : List RowE :=
  [⟨{ epoch := 1, esResume := 0, esCd := 2, rlrResume := 0, rlrCd := 1, lr := some (1/2),
      train := some 2, val := some (3/4) }, [.str "a,\"b\"\rc\n".toList, .int (-7)]⟩]

example : (fileText exP exDecls exRowsE).map String.ofList
    = some ("epoch,es_resume_cd,es_patience_cd,rlr_resume_cd,rlr_patience_cd,lr,train_met,val_met," ++
        "note,count\r\n01,0,2,0,1,5.0000e-01,2.0000e+00,7.5000e-01,\"a,\"\"b\"\"\rc\n\",-07\r\n") := by
  decide +kernel

example : ((fileText exP exDecls exRowsE).bind (readHist exP exDecls)) = some exRowsE := by
  decide +kernel

/-! ## restarts -/

/-- **C15_restart_decisions** (no restriction on the learning rates).  For metrics that the
history file reproduces exactly (`rt = float ∘ "{:.4e}".format` fixes them), discarding the
controller after any subset of epochs (`fl`) and rebuilding it from the file yields, from then
on, the same return values and the same rows in every column except `lr`: decisions and
countdowns never depend on the persisted rate. -/
theorem C15_restart_decisions (P : Params) (g : List Rat) (ms : List (Rat × Rat)) (fl : List Bool)
    (hgrid : ∀ m ∈ ms, rt P m.1 = m.1 ∧ rt P m.2 = m.2) (S : State) (outs : List Out)
    (h : run P (init P g) ms = .ok (S, outs)) :
    ∃ S' outs', runR P (init P g) ms fl = .ok (S', outs') ∧
      outs'.map (·.cont) = outs.map (·.cont) ∧
      outs'.map (fun o => eraseLr o.row) = outs.map (fun o => eraseLr o.row) ∧
      S'.hist.map eraseLr = S.hist.map eraseLr := by
  obtain ⟨R', outs', hr, hl, hc, he⟩ := runR_decisions ms fl (init P g) (init P g) S outs rfl
    ⟨row0 P, [], rfl, rfl, by simp⟩ hgrid h
  exact ⟨R', outs', hr, hc, he, hl.symm⟩

/- TARGET (not provable — false of the code, see `C15_lr_double_rounding_counterexample`):
   for metrics fixed by `rt`, for every `fl`,
     run P (init P g) ms = .ok (S, outs) → runR P (init P g) ms fl = .ok (S, outs)
   i.e. also the learning rates, the `lr` column and the optimizer groups are reproduced. -/

/-- **C15_restart_partial**: if in addition every row the uninterrupted run writes is reproduced
exactly by the file — i.e. the learning rate, too, is on the printed five-significant-digit grid
after every epoch — then restarting after any subset of epochs reproduces the uninterrupted run
completely: same return values, rates, optimizer groups, rows, final state. -/
theorem C15_restart_partial (P : Params) (g : List Rat) (ms : List (Rat × Rat)) (fl : List Bool)
    (S : State) (outs : List Out) (h : run P (init P g) ms = .ok (S, outs))
    (hgrid : ∀ o ∈ outs, RowOnGrid P o.row) :
    runR P (init P g) ms fl = .ok (S, outs) :=
  runR_eq_run_of_grid ms fl (init P g) S [] outs rfl (by simp) h hgrid

/-- **C15_restart_lr_exact** — what a restarted run computes *instead*, for all inputs: exactly
the rules with the current rate replaced by its printed-and-reparsed value (`reread`:
`lr := float("{:.4e}".format(lr))`) after every epoch at which the controller was rebuilt.  The
rate actions, the recorded rates and the optimizer groups of the restarted run are those of
`specRunR`; so the only way a restart can change anything is this re-rounding of the rate (the
known finding `C15.restart.lr_double_rounding` is the whole defect). -/
theorem C15_restart_lr_exact (P : Params) (hP : P.WF) (g : List Rat) (ms : List (Rat × Rat))
    (fl : List Bool) (hgrid : ∀ m ∈ ms, rt P m.2 = m.2) :
    ∃ R outs, runR P (init P g) ms fl = .ok (R, outs) ∧
      outs.map (·.setLr) = (specRunR P (specInit P g) (vals ms) fl).2.map lrAction ∧
      outs.map (·.row.lr) = (specRunR P (specInit P g) (vals ms) fl).2.map (fun o => some o.lr) ∧
      R.groups = (specRunR P (specInit P g) (vals ms) fl).1.groups := by
  have hf : FileOK P (init P g) := by
    refine ⟨rfl, ?_, ?_⟩
    · intro i r hi hr
      cases i with
      | zero => omega
      | succ k => simp [init] at hr
    · intro i r hr
      cases i with
      | zero =>
        have : r = row0 P := by simpa [init] using hr.symm
        rw [this]; rfl
      | succ k => simp [init] at hr
  obtain ⟨R, outs, hr, hI, h1, h2⟩ := runR_simU hP ms fl _ _ (init_invU P hP g) hf hgrid
  exact ⟨R, outs, hr, h1, h2, hI.groups⟩

/-- the hypotheses of `C15_restart_partial` hold on the earlier example (rates 1, 1/2, 1/4) -/
example : (match run exP (init exP [1]) exMs with
    | .ok (_, outs) => outs.all (fun o => decide (rtRow exP o.row = o.row))  -- `RowOnGrid`
    | .error _ => false) = true := by
  decide +kernel

/-- The witness of the known finding `C15.restart.lr_double_rounding`: factor 0.7, initial rate 1,
patience 1, a constant validation metric (so the criterion fires at every epoch from the 2nd on);
exact arithmetic (`rnd = id`), so the only rounding is the five-digit history file. -/
def crP : Params :=
  { numEpochs := none, esThr := 0, esPat := 1, esBurn := 0, rlrThr := 1/2, rlrFactor := 7/10,
    rlrPat := 1, rlrCool := 0, rlrBurn := 0, rlrEps := 1/100000000, initLr := none,
    optDefault := 1, rnd := id }

def crMs : List (Rat × Rat) := List.replicate 9 (1, 1)

/-- restart once, after epoch 7 -/
def crFl : List Bool := [false, false, false, false, false, false, true, false, false]

def lrColumn (r : Except Err (State × List Out)) : List (Option Rat) :=
  match r with
  | .ok (_, outs) => outs.map (·.row.lr)
  | .error _ => []

def groupsOf (r : Except Err (State × List Out)) : List Rat :=
  match r with
  | .ok (S, _) => S.groups
  | .error _ => []

/-- **C15_lr_double_rounding_counterexample**: the metrics are on the printed grid, yet the run
restarted after epoch 7 differs from the uninterrupted one: at epoch 8 the uninterrupted rate is
`0.7^7 = 0.0823543` (printed `8.2354e-02`), the restarted controller re-read `0.7^6 = 0.117649`
as `0.11765` and multiplies *that*: `0.082355` (printed `8.2355e-02`), and writes it into the
optimizer.  The divergence is exactly the re-rounded value. -/
theorem C15_lr_double_rounding_counterexample :
    (crMs.all fun m => rt crP m.1 == m.1 && rt crP m.2 == m.2) = true ∧
    (lrColumn (run crP (init crP [1]) crMs))[6]? = some (some (117649 / 1000000)) ∧
    (lrColumn (run crP (init crP [1]) crMs))[7]? = some (some (823543 / 10000000)) ∧
    rt crP (117649 / 1000000) = 11765 / 100000 ∧
    (lrColumn (runR crP (init crP [1]) crMs crFl))[7]?
      = some (some (rt crP (117649 / 1000000) * (7 / 10))) ∧
    fmtSci 5 (823543 / 10000000) = ⟨false, 82354, -2⟩ ∧
    fmtSci 5 (rt crP (117649 / 1000000) * (7 / 10)) = ⟨false, 82355, -2⟩ ∧
    lrColumn (runR crP (init crP [1]) crMs crFl) ≠ lrColumn (run crP (init crP [1]) crMs) ∧
    groupsOf (runR crP (init crP [1]) crMs crFl) ≠ groupsOf (run crP (init crP [1]) crMs) := by
  decide +kernel

/-- on the witness above the re-reading rules give exactly the diverging rate -/
example : ((specRunR crP (specInit crP [1]) (List.replicate 9 1)
      [false, false, false, false, false, false, true, false, false]).2.map (·.lr))[7]?
    = some (82355 / 1000000) := by decide +kernel

/-! ## audit round: every hypothesis set instantiated together on a non-trivial instance -/

theorem C15_exP_wf : exP.WF := ⟨by decide, by decide, by decide +kernel, by decide +kernel⟩

theorem C15_crP_wf : crP.WF := ⟨by decide, by decide, by decide +kernel, by decide +kernel⟩

/-- 4 epochs of `exMs` (burn-in, improvement, two failures: early stopping fires at the 4th, the rate
was halved at the 3rd) satisfy `liveRun` -/
theorem C15_ex_live : liveRun exP (specInit exP [1]) (vals (exMs.take 4)) := by
  simp only [exMs, vals, List.take, List.map, liveRun]; decide +kernel

/-- `C15_ref_epoch` and `C15_stop` applied to that instance -/
example := C15_ref_epoch exP C15_exP_wf [1] (exMs.take 4) C15_ex_live
example := C15_stop exP C15_exP_wf [1] (exMs.take 4) C15_ex_live

/-- `C15_stop_epoch` at the epoch where early stopping fires (epoch 4: `fails = 2 = patience`) and
`C15_lr_epoch` at an epoch where the rate is written (epoch 3) -/
example := C15_stop_epoch exP C15_exP_wf [1] (exMs.take 3) (2, 1)
  (by simp only [exMs, vals, List.take, List.map, liveRun, List.cons_append,
        List.nil_append]; decide +kernel)

example : (specRun exP (specInit exP [1]) (vals (exMs.take 3 ++ [(2, 1)]))).1.es.fails = 2 ∧
    budgetReached exP 4 = false ∧
    (specRun exP (specInit exP [1]) (vals (exMs.take 2))).1.rlr.wait = 0 ∧
    undercutFails exP exP.rlrThr (specRun exP (specInit exP [1]) (vals (exMs.take 2))).1.rlr.ref 1 = true
    := by decide +kernel

example := C15_lr_epoch exP C15_exP_wf [1] (exMs.take 2) (2, 1)

/-- `C15_live_of_obeyed`: its two hypotheses (the run, and "no call after a returned `False`") hold
together on the 4-epoch instance, whose last returned value IS `False` -/
theorem C15_live_of_obeyed_nonvacuous : liveRun exP (specInit exP [1]) (vals (exMs.take 4)) := by
  obtain ⟨S, outs, hr, _, _⟩ := C15_no_keyerror exP C15_exP_wf [1] (exMs.take 4)
  have hb : (match run exP (init exP [1]) (exMs.take 4) with
    | .ok (_, outs) => outs.dropLast.all (·.cont) && !(outs.all (·.cont))
    | .error _ => false) = true := by decide +kernel
  rw [hr] at hb
  simp only [Bool.and_eq_true, List.all_eq_true] at hb
  exact C15_live_of_obeyed exP C15_exP_wf [1] _ S outs hr hb.1

/-- `C15_continue` on the first update of the example -/
example : ∃ S' o, step exP (init exP [1]) 2 2 = .ok (S', o) ∧ continueTraining exP S' = .ok o.cont := by
  obtain ⟨S, outs, hr, _, _⟩ := C15_no_keyerror exP C15_exP_wf [1] [(2, 2)]
  obtain ⟨S', o, _, hs, _, _⟩ := run_cons_inv hr
  exact ⟨S', o, hs, C15_continue exP _ S' 2 2 o hs⟩

/-- an unsynchronised optimizer (`log10_learning_rate` set, no load at epoch 0, two groups with own
rates): the groups keep their rates until the first reduction, then carry the recorded rate -/
example : (match run { exP with initLr := some (1/8) } (initRaw { exP with initLr := some (1/8) } [1, 2])
      (exMs.take 2) with
    | .ok (S, _) => some S.groups | .error _ => none) = some [1, 2] ∧
    (match run { exP with initLr := some (1/8) } (initRaw { exP with initLr := some (1/8) } [1, 2]) exMs with
    | .ok (S, outs) => some (outs.map (·.setLr), S.groups)
    | .error _ => none) = some ([none, none, some (1/16), none, some (1/32)], [1/32, 1/32]) := by
  decide +kernel

/-! ### restarts -/

theorem C15_crMs_grid : ∀ m ∈ crMs, rt crP m.1 = m.1 ∧ rt crP m.2 = m.2 := by
  intro m hm
  have : m = (1, 1) := by
    simp only [crMs] at hm
    exact List.eq_of_mem_replicate hm
  subst this
  decide +kernel

/-- `C15_restart_decisions` on the double-rounding witness (restart after epoch 7; the `lr` column
and the optimizer groups of the two runs DIFFER there, see the counterexample): all hypotheses hold,
decisions, countdowns and metric columns are those of the uninterrupted run -/
theorem C15_restart_decisions_nonvacuous :
    ∃ S outs S' outs', run crP (init crP [1]) crMs = .ok (S, outs) ∧
      runR crP (init crP [1]) crMs crFl = .ok (S', outs') ∧
      outs'.map (·.cont) = outs.map (·.cont) ∧
      S'.hist.map eraseLr = S.hist.map eraseLr ∧ S'.groups ≠ S.groups := by
  obtain ⟨S, outs, hr, _, _⟩ := C15_no_keyerror crP C15_crP_wf [1] crMs
  obtain ⟨S', outs', hr', hc, _, hh⟩ := C15_restart_decisions crP [1] crMs crFl C15_crMs_grid S outs hr
  refine ⟨S, outs, S', outs', hr, hr', hc, hh, ?_⟩
  have := C15_lr_double_rounding_counterexample.2.2.2.2.2.2.2.2
  rw [hr, hr'] at this
  exact this

/-- `C15_restart_lr_exact` on the same witness -/
example := C15_restart_lr_exact crP C15_crP_wf [1] crMs crFl (fun m hm => (C15_crMs_grid m hm).2)

/-- `C15_restart_partial` on `exMs` (rates 1, 1/2, 1/4: on the grid), restarts after epochs 1, 3, 4 -/
theorem C15_restart_partial_nonvacuous :
    ∃ S outs, run exP (init exP [1]) exMs = .ok (S, outs) ∧
      runR exP (init exP [1]) exMs [true, false, true, true, false] = .ok (S, outs) := by
  obtain ⟨S, outs, hr, _, _⟩ := C15_no_keyerror exP C15_exP_wf [1] exMs
  have hb : (match run exP (init exP [1]) exMs with
    | .ok (_, outs) => outs.all (fun o => decide (rtRow exP o.row = o.row))
    | .error _ => false) = true := by decide +kernel
  rw [hr] at hb
  simp only [List.all_eq_true, decide_eq_true_eq] at hb
  exact ⟨S, outs, hr, C15_restart_partial exP [1] exMs _ S outs hr hb⟩

/-! ### text of the file -/

/-- `C15_float_text_grid`: `1/2` is on the printed grid -/
example : parseFloat exP (fmtFloat exP.sig (1/2)) = some (1/2) :=
  C15_float_text_grid exP (by decide) (1/2) (by decide +kernel)

/-- … and `C15_float_text` off the grid: `0.117649` is printed `1.1765e-01` and read back as `0.11765` -/
example : parseFloat exP (fmtFloat exP.sig (117649 / 1000000)) = some (11765 / 100000) := by
  rw [C15_float_text exP (by decide)]; decide +kernel

theorem C15_exFileWF : FileWF exP exDecls exRowsE := by
  refine ⟨by decide, by decide, by decide, ?_⟩
  intro r hr
  simp only [exRowsE, List.mem_singleton] at hr
  subst hr
  exact ⟨_, _, _, rfl, rfl, rfl⟩

/-- `C15_file_reread`: all hypotheses hold on the example file (two user entries, a string with
comma, quote, CR and LF) -/
theorem C15_file_reread_nonvacuous : ∃ text, fileText exP exDecls exRowsE = some text ∧
    readHist exP exDecls text = optAll (exRowsE.map (rtRowE exP exDecls)) := by
  have h : (fileText exP exDecls exRowsE).isSome = true := by decide +kernel
  obtain ⟨text, ht⟩ := Option.isSome_iff_exists.1 h
  exact ⟨text, ht, C15_file_reread exP exDecls exRowsE C15_exFileWF text ht⟩

def exRow1 : Row :=
  { epoch := 1, esResume := 0, esCd := 2, rlrResume := 0, rlrCd := 1, lr := some (1/2),
    train := some 2, val := some (3/4) }

def exS : State := { hist := [row0 exP, exRow1], groups := [1/2] }

/-- `C15_restart_text`: all hypotheses hold on a state with one recorded epoch and two user entries -/
theorem C15_restart_text_nonvacuous :
    ∃ S' users', restartText exP exDecls exS [[.str "a,\"b\"\rc\n".toList, .int (-7)]] = some (S', users') ∧
      S' = restart exP exS := by
  have h : (restartText exP exDecls exS [[.str "a,\"b\"\rc\n".toList, .int (-7)]]).isSome = true := by
    decide +kernel
  obtain ⟨⟨S', users'⟩, hS⟩ := Option.isSome_iff_exists.1 h
  have hz : List.zipWith (fun r u => ({ row := r, user := u } : RowE)) (exS.hist.drop 1)
      [[.str "a,\"b\"\rc\n".toList, .int (-7)]] = exRowsE := by decide +kernel
  have ht : (fileText exP exDecls exRowsE).isSome = true := by decide +kernel
  obtain ⟨text, ht⟩ := Option.isSome_iff_exists.1 ht
  exact ⟨S', users', hS, (C15_restart_text exP exDecls exS _ (by decide) (by rw [hz]; exact C15_exFileWF)
    text (by rw [hz]; exact ht) S' users' hS).1⟩

/-- `C15_repr_text` with binary64 rounding on `0.1` -/
example := C15_repr_text roundF64 C15_roundF64_odd (roundF64 (1 / 10)) "0.1".toList (by decide +kernel)


end PdtVerif.Controller
