import PdtVerif.Lemmas.Controller
/-!
# C15 — training control decisions follow the stated rules and survive restarts

Property theorems only (helper lemmas: `Lemmas/Controller.lean`; model of the code:
`Model/Controller.lean`; the stated rules: `Spec/TrainingRules.lean`).

Every statement is for **every** parameter setting allowed by `TrainingStateParams`
(`Params.WF`: patiences ≥ 1, thresholds ≥ 0), every float rounding function `rnd`, every list of
initial optimizer rates and every sequence of `(train_met, val_met)` pairs, of any length.
-/
namespace PdtVerif.Controller
open PdtVerif.TrainingRules

/-- the validation metrics of a metric sequence -/
abbrev vals (ms : List (Rat × Rat)) : List Rat := ms.map (·.2)

theorem specRun_epoch (P : Params) : ∀ (vs : List Rat) (T : SpecState),
    (specRun P T vs).1.epoch = T.epoch + vs.length := by
  intro vs
  induction vs with
  | nil => intro T; rfl
  | cons v vs ih => intro T; rw [specRun_cons]; simp only [ih, specStep_epoch, List.length_cons]; omega

/-- **No `KeyError`**: on consecutive epochs the three history lookups of `update_for_epoch`
(previous epoch, both reference epochs computed by `epoch - patience + countdown - 1`) always
hit a recorded epoch — for every history, also when training continues after a stop. -/
theorem C15_no_keyerror (P : Params) (hP : P.WF) (g : List Rat) (ms : List (Rat × Rat)) :
    ∃ S outs, run P (init P g) ms = .ok (S, outs) ∧ outs.length = ms.length ∧
      S.hist = row0 P :: outs.map (·.row) := by
  obtain ⟨S, outs, hr, _, _, _, h3, _, h5⟩ := run_simU hP ms _ _ (init_invU P hP g)
  refine ⟨S, outs, hr, ?_, by simpa [init] using h5⟩
  simpa using congrArg List.length h3

/-- **C15_ref_epoch** (appendix A8).  After any number of epochs (early stopping not having fired
before the last of them), with `L` the newest history row and `T` the state of the rules:

* the index the code will compute for its next early-stopping lookup,
  `epoch - patience + es_patience_cd - 1`, **is** the epoch at which the rules last reset the
  patience count; the row stored there holds the rules' reference value; the stored countdown is
  `patience - consecutive failures`, the stored resume countdown is the remaining burn-in;
* the same for the learning-rate criterion (reset = improvement, burn-in/cool-down epoch, or the
  criterion firing). -/
theorem C15_ref_epoch (P : Params) (hP : P.WF) (g : List Rat) (ms : List (Rat × Rat))
    (hlive : liveRun P (specInit P g) (vals ms)) :
    ∃ S outs L, run P (init P g) ms = .ok (S, outs) ∧
      S.hist.length = ms.length + 1 ∧ S.hist[ms.length]? = some L ∧
      let T := (specRun P (specInit P g) (vals ms)).1
      -- early stopping
      esEpochOf P (ms.length + 1) L = (T.es.refEpoch : Int) ∧
      (∃ r, S.hist[T.es.refEpoch]? = some r ∧ r.val = T.es.ref) ∧
      L.esCd = (P.esPat : Int) - (T.es.fails : Int) ∧ T.es.fails ≤ P.esPat ∧
      L.esResume = (T.es.wait : Int) ∧ T.es.refEpoch + T.es.fails = ms.length ∧
      -- learning rate
      rlrEpochOf P (ms.length + 1) L = (T.rlr.refEpoch : Int) ∧
      (∃ r, S.hist[T.rlr.refEpoch]? = some r ∧ r.val = T.rlr.ref) ∧
      L.rlrCd = (P.rlrPat : Int) - (T.rlr.fails : Int) ∧ T.rlr.fails < P.rlrPat ∧
      L.rlrResume = (T.rlr.wait : Int) ∧ T.rlr.refEpoch + T.rlr.fails = ms.length := by
  obtain ⟨S, outs, hr, hU, _⟩ := run_simU hP ms _ _ (init_invU P hP g)
  obtain ⟨hE, _⟩ := run_simEs hP ms _ _ (init_invU P hP g) (init_invEs P g) hlive S outs hr
  have hep : (specRun P (specInit P g) (vals ms)).1.epoch = ms.length := by
    rw [specRun_epoch]; simp [specInit]
  have hidxE := fun L hL => esEpochOf_eq hE (L := L) hL
  have hidxR := fun L hL => rlrEpochOf_eq hU (L := L) hL
  obtain ⟨hlen, _, L, hL, hrlr, hlt, _⟩ := hU
  obtain ⟨L', hL', hes⟩ := hE
  have : L' = L := by rw [hL] at hL'; exact (Option.some.inj hL').symm
  subst this
  rw [hep] at hL hlen hidxE hidxR
  refine ⟨S, outs, L', hr, hlen, hL, ?_⟩
  simp only
  refine ⟨hidxE L' hL, hes.ref, hes.cd, hes.le, hes.wait, ?_, hidxR L' hL, hrlr.ref, hrlr.cd, hlt,
    hrlr.wait, ?_⟩
  · rw [← hep]; exact hes.refE
  · rw [← hep]; exact hrlr.refE

/-- **C15_stop**: for every metric sequence and parameter setting the value returned by
`update_for_epoch` at every epoch is "continue" exactly when the rules do not say stop — stop ⇔
the epoch budget is reached or (early stopping enabled and `patience` consecutive post-burn-in
epochs failed to undercut, by the threshold, the value recorded when the count was last reset) —
for all epochs up to and including the one at which early stopping fires. -/
theorem C15_stop (P : Params) (hP : P.WF) (g : List Rat) (ms : List (Rat × Rat))
    (hlive : liveRun P (specInit P g) (vals ms)) :
    ∃ S outs, run P (init P g) ms = .ok (S, outs) ∧
      outs.map (·.cont) = (specRun P (specInit P g) (vals ms)).2.map (fun o => !o.stop) := by
  obtain ⟨S, outs, hr, _⟩ := run_simU hP ms _ _ (init_invU P hP g)
  exact ⟨S, outs, hr,
    (run_simEs hP ms _ _ (init_invU P hP g) (init_invEs P g) hlive S outs hr).2⟩

/-- **C15_lr**: for every metric sequence (no side condition: also after a stop), at every epoch
the code multiplies the rate and writes it into every optimizer group exactly when the rules'
criterion fires outside burn-in/cool-down and the change exceeds epsilon (`lrAction = some new`),
and leaves the optimizer alone otherwise (`none`); the recorded rate and the optimizer groups are
those of the rules. -/
theorem C15_lr (P : Params) (hP : P.WF) (g : List Rat) (ms : List (Rat × Rat)) :
    ∃ S outs, run P (init P g) ms = .ok (S, outs) ∧
      outs.map (·.setLr) = (specRun P (specInit P g) (vals ms)).2.map lrAction ∧
      outs.map (·.row.lr) = (specRun P (specInit P g) (vals ms)).2.map (fun o => some o.lr) ∧
      S.groups = (specRun P (specInit P g) (vals ms)).1.groups := by
  obtain ⟨S, outs, hr, hU, h1, h2, _⟩ := run_simU hP ms _ _ (init_invU P hP g)
  exact ⟨S, outs, hr, h1, h2, hU.groups⟩

/-- what `lrAction` means, spelled out: the optimizer is written iff the criterion fired and the
change is not negligible; firing needs: not waiting, a failure, and the patience-th in a row. -/
theorem C15_lr_iff (P : Params) (T : SpecState) (v : Rat) :
    let o := (specStep P T v).2
    ((lrAction o).isSome ↔ (o.fire = true ∧ P.rlrEps < P.rnd (T.lr - P.rnd (T.lr * P.rlrFactor)))) ∧
    (o.fire = true ↔ (T.rlr.wait = 0 ∧ undercutFails P P.rlrThr T.rlr.ref v = true ∧
      P.rlrPat ≤ T.rlr.fails + 1)) ∧
    (lrAction o = some (P.rnd (T.lr * P.rlrFactor)) ∨ lrAction o = none) := by
  simp only [lrAction, specStep]
  refine ⟨?_, ?_, ?_⟩
  · split <;> simp_all
  · simp [and_assoc]
  · split <;> simp_all

/-- `continue_training()` right after an update agrees with the value the update returned. -/
theorem C15_continue (P : Params) (S S' : State) (tr v : Rat) (o : Out)
    (h : step P S tr v = .ok (S', o)) : continueTraining P S' = .ok o.cont := by
  unfold step at h
  simp only at h
  split at h
  · cases h
  rename_i _ info _
  split at h
  · cases h
  rename_i _ esInfo _
  split at h
  · cases h
  rename_i _ rlrInfo _
  have h' := Except.ok.inj h
  have hS : S' = (stepCore P S S.hist.length info esInfo rlrInfo tr v).1 := by rw [h']
  have ho : o = (stepCore P S S.hist.length info esInfo rlrInfo tr v).2 := by rw [h']
  subst hS ho
  unfold continueTraining
  have hl : (stepCore P S S.hist.length info esInfo rlrInfo tr v).1.hist.length - 1
      = S.hist.length := by simp [stepCore]
  rw [hl]
  have hg : getInfo (stepCore P S S.hist.length info esInfo rlrInfo tr v).1.hist
      (S.hist.length : Int)
      = .ok (stepCore P S S.hist.length info esInfo rlrInfo tr v).2.row := by
    apply getInfo_ok
    simp [stepCore]
  simp only [hg]
  simp only [stepCore]
  congr

/-! ### the hypotheses are satisfiable, the statements are not vacuous -/

/-- a setting with early stopping (threshold 1/2, patience 2, burn-in 1) and rate reduction
(threshold 1/2, factor 1/2, patience 1, cool-down 1), exact arithmetic -/
def exP : Params :=
  { numEpochs := some 10, esThr := 1/2, esPat := 2, esBurn := 1, rlrThr := 1/2, rlrFactor := 1/2,
    rlrPat := 1, rlrCool := 1, rlrBurn := 0, rlrEps := 1/100000000, initLr := none,
    optDefault := 1, rnd := id }

def exMs : List (Rat × Rat) := [(2, 2), (2, 1), (2, 1), (2, 1), (2, 1)]

example : exP.WF := ⟨by decide, by decide, by decide +kernel, by decide +kernel⟩

/-- early stopping has not fired before the 4th epoch of `exMs` … -/
example : liveRun exP (specInit exP [1]) (vals (exMs.take 4)) := by
  simp only [exMs, vals, List.take, List.map, liveRun]; decide +kernel

/-- … it fires at the 4th (two failures after the burn-in epoch and the improvement), the rate is
halved at epochs 3 (fired) and, after one epoch of cool-down, 5. -/
example : ((specRun exP (specInit exP [1]) (vals exMs)).2.map (fun o => (o.stop, o.reduce, o.lr)))
    = [(false, false, 1), (false, false, 1), (false, true, 1/2), (true, false, 1/2), (true, true, 1/4)] := by
  decide +kernel

example : (match run exP (init exP [1]) exMs with
    | .ok (S, outs) => some (outs.map (fun o => (o.cont, o.setLr)), S.groups)
    | .error _ => none)
    = some ([(true, none), (true, none), (true, some (1/2)), (false, none), (false, some (1/4))], [1/4]) := by
  decide +kernel

/-! ## what the rules' state means on the raw metric sequence -/

/-- **C15_spec_window**: the state of the rules after the validation metrics `vs` is what the
property's wording says, for both criteria: the reference value is the metric of the reference
epoch (`+∞` before the first epoch), each of the `fails` epochs after it failed to undercut it by
the threshold, and there are no other epochs after it.  Together with `C15_ref_epoch` this
pins the code's `epoch - patience + countdown - 1` to "the epoch since which every recorded
validation metric failed to undercut that epoch's value". -/
theorem C15_spec_window (P : Params) (g : List Rat) (vs : List Rat) :
    Window P P.esThr vs (specRun P (specInit P g) vs).1.es ∧
    Window P P.rlrThr vs (specRun P (specInit P g) vs).1.rlr := by
  have h0 : ∀ thr w, Window P thr [] { refEpoch := 0, ref := none, fails := 0, wait := w } := by
    intro thr w
    refine ⟨rfl, rfl, ?_⟩
    intro j h1 h2
    simp only [List.length_nil] at h2
    omega
  have := window_specRun P vs [] (specInit P g) rfl (h0 _ _) (h0 _ _)
  simpa using this

example : (specRun exP (specInit exP [1]) (vals exMs)).1.es.refEpoch = 2 ∧
    (specRun exP (specInit exP [1]) (vals exMs)).1.es.fails = 3 ∧
    (specRun exP (specInit exP [1]) (vals exMs)).1.rlr.refEpoch = 5 := by decide +kernel

/-! ## the integer columns of the history file -/

/-- **C15_int_roundtrip**: an epoch number / countdown / integer user entry printed with
`"{:0wd}"` (any width) and read back with `int(...)` is the same number. -/
theorem C15_int_roundtrip (w n : Nat) : parseNat (fmtNat w n) = some n := by
  rw [parseNat_eq]
  unfold fmtNat
  simp only [List.foldl_append, parse_zeros, parse_natDigits]

example : fmtNat 3 7 = ['0', '0', '7'] ∧ fmtNat 2 1234 = ['1', '2', '3', '4'] := by decide

/-! ## restarts -/

/-- **C15_restart_decisions** (no restriction on the learning rates).  For metrics that the
history file reproduces exactly (`rt = float ∘ "{:.4e}".format` fixes them), discarding the
controller after any subset of epochs (`fl`) and rebuilding it from the file yields, from then
on, the same return values and the same rows in every column except `lr`: decisions and
countdowns never depend on the persisted rate. -/
theorem C15_restart_decisions (P : Params) (g : List Rat) (ms : List (Rat × Rat)) (fl : List Bool)
    (hgrid : ∀ m ∈ ms, rt P m.1 = m.1 ∧ rt P m.2 = m.2) (S : State) (outs : List Out)
    (h : run P (init P g) ms = .ok (S, outs)) :
    ∃ S' outs', runR P (init P g) ms fl = .ok (S', outs') ∧
      outs'.map (·.cont) = outs.map (·.cont) ∧
      outs'.map (fun o => eraseLr o.row) = outs.map (fun o => eraseLr o.row) ∧
      S'.hist.map eraseLr = S.hist.map eraseLr := by
  obtain ⟨R', outs', hr, hl, hc, he⟩ := runR_decisions ms fl (init P g) (init P g) S outs rfl
    ⟨row0 P, [], rfl, rfl, by simp⟩ hgrid h
  exact ⟨R', outs', hr, hc, he, hl.symm⟩

/- TARGET (not provable — false of the code, see `C15_lr_double_rounding_counterexample`):
   for metrics fixed by `rt`, for every `fl`,
     run P (init P g) ms = .ok (S, outs) → runR P (init P g) ms fl = .ok (S, outs)
   i.e. also the learning rates, the `lr` column and the optimizer groups are reproduced. -/

/-- **C15_restart_partial**: if in addition every row the uninterrupted run writes is reproduced
exactly by the file — i.e. the learning rate, too, is on the printed five-significant-digit grid
after every epoch — then restarting after any subset of epochs reproduces the uninterrupted run
completely: same return values, rates, optimizer groups, rows, final state. -/
theorem C15_restart_partial (P : Params) (g : List Rat) (ms : List (Rat × Rat)) (fl : List Bool)
    (S : State) (outs : List Out) (h : run P (init P g) ms = .ok (S, outs))
    (hgrid : ∀ o ∈ outs, RowOnGrid P o.row) :
    runR P (init P g) ms fl = .ok (S, outs) :=
  runR_eq_run_of_grid ms fl (init P g) S [] outs rfl (by simp) h hgrid

/-- **C15_restart_lr_exact** — what a restarted run computes *instead*, for all inputs: exactly
the rules with the current rate replaced by its printed-and-reparsed value (`reread`:
`lr := float("{:.4e}".format(lr))`) after every epoch at which the controller was rebuilt.  The
rate actions, the recorded rates and the optimizer groups of the restarted run are those of
`specRunR`; so the only way a restart can change anything is this re-rounding of the rate (the
known finding `C15.restart.lr_double_rounding` is the whole defect). -/
theorem C15_restart_lr_exact (P : Params) (hP : P.WF) (g : List Rat) (ms : List (Rat × Rat))
    (fl : List Bool) (hgrid : ∀ m ∈ ms, rt P m.2 = m.2) :
    ∃ R outs, runR P (init P g) ms fl = .ok (R, outs) ∧
      outs.map (·.setLr) = (specRunR P (specInit P g) (vals ms) fl).2.map lrAction ∧
      outs.map (·.row.lr) = (specRunR P (specInit P g) (vals ms) fl).2.map (fun o => some o.lr) ∧
      R.groups = (specRunR P (specInit P g) (vals ms) fl).1.groups := by
  have hf : FileOK P (init P g) := by
    refine ⟨rfl, ?_, ?_⟩
    · intro i r hi hr
      cases i with
      | zero => omega
      | succ k => simp [init] at hr
    · intro i r hr
      cases i with
      | zero =>
        have : r = row0 P := by simpa [init] using hr.symm
        rw [this]; rfl
      | succ k => simp [init] at hr
  obtain ⟨R, outs, hr, hI, h1, h2⟩ := runR_simU hP ms fl _ _ (init_invU P hP g) hf hgrid
  exact ⟨R, outs, hr, h1, h2, hI.groups⟩

/-- the hypotheses of `C15_restart_partial` hold on the earlier example (rates 1, 1/2, 1/4) -/
example : (match run exP (init exP [1]) exMs with
    | .ok (_, outs) => outs.all (fun o => decide (rtRow exP o.row = o.row))  -- `RowOnGrid`
    | .error _ => false) = true := by
  decide +kernel

/-- The witness of the known finding `C15.restart.lr_double_rounding`: factor 0.7, initial rate 1,
patience 1, a constant validation metric (so the criterion fires at every epoch from the 2nd on);
exact arithmetic (`rnd = id`), so the only rounding is the five-digit history file. -/
def crP : Params :=
  { numEpochs := none, esThr := 0, esPat := 1, esBurn := 0, rlrThr := 1/2, rlrFactor := 7/10,
    rlrPat := 1, rlrCool := 0, rlrBurn := 0, rlrEps := 1/100000000, initLr := none,
    optDefault := 1, rnd := id }

def crMs : List (Rat × Rat) := List.replicate 9 (1, 1)

/-- restart once, after epoch 7 -/
def crFl : List Bool := [false, false, false, false, false, false, true, false, false]

def lrColumn (r : Except Err (State × List Out)) : List (Option Rat) :=
  match r with
  | .ok (_, outs) => outs.map (·.row.lr)
  | .error _ => []

def groupsOf (r : Except Err (State × List Out)) : List Rat :=
  match r with
  | .ok (S, _) => S.groups
  | .error _ => []

/-- **C15_lr_double_rounding_counterexample**: the metrics are on the printed grid, yet the run
restarted after epoch 7 differs from the uninterrupted one: at epoch 8 the uninterrupted rate is
`0.7^7 = 0.0823543` (printed `8.2354e-02`), the restarted controller re-read `0.7^6 = 0.117649`
as `0.11765` and multiplies *that*: `0.082355` (printed `8.2355e-02`), and writes it into the
optimizer.  The divergence is exactly the re-rounded value. -/
theorem C15_lr_double_rounding_counterexample :
    (crMs.all fun m => rt crP m.1 == m.1 && rt crP m.2 == m.2) = true ∧
    (lrColumn (run crP (init crP [1]) crMs))[6]? = some (some (117649 / 1000000)) ∧
    (lrColumn (run crP (init crP [1]) crMs))[7]? = some (some (823543 / 10000000)) ∧
    rt crP (117649 / 1000000) = 11765 / 100000 ∧
    (lrColumn (runR crP (init crP [1]) crMs crFl))[7]?
      = some (some (rt crP (117649 / 1000000) * (7 / 10))) ∧
    fmtSci 5 (823543 / 10000000) = ⟨false, 82354, -2⟩ ∧
    fmtSci 5 (rt crP (117649 / 1000000) * (7 / 10)) = ⟨false, 82355, -2⟩ ∧
    lrColumn (runR crP (init crP [1]) crMs crFl) ≠ lrColumn (run crP (init crP [1]) crMs) ∧
    groupsOf (runR crP (init crP [1]) crMs crFl) ≠ groupsOf (run crP (init crP [1]) crMs) := by
  decide +kernel

/-- on the witness above the re-reading rules give exactly the diverging rate -/
example : ((specRunR crP (specInit crP [1]) (List.replicate 9 1)
      [false, false, false, false, false, false, true, false, false]).2.map (·.lr))[7]?
    = some (82355 / 1000000) := by decide +kernel

end PdtVerif.Controller
