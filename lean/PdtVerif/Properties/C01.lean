import PdtVerif.Lemmas.StringMatch
/-!
# C01 — edit distance is the weighted Levenshtein distance, per pair and per prefix

Property theorems only. The model (`Model/StringMatch.lean`) is the per-column behaviour of
`_string.py::_string_matching` on the *padded* columns `ref` (`R = ref.length` entries) and
`hyp` (`H = hyp.length`), whatever sits after the end-of-sequence token included. The spec is
`Spec/Levenshtein.lean`: `IsLevDist c r h d` — `d` is the cost of some edit script turning
`r` into `h` and no script is cheaper; `lev` is the textbook recursion, proved to be that
minimum in `Lemmas/Levenshtein.lean`.

`cut eos include_eos col` is the part of a padded column that counts: everything before the
first eos, the eos itself kept iff `include_eos` (`C01_cut_*` pin this down on explicit
`content ++ eos :: garbage` columns).

All statements hold for every cost triple (no sign condition is needed: the uniform-cost
shortcut carries its own `> 0` test), every token type, every `R`, `H`, and every eos setting.
-/
namespace PdtVerif.StringMatch
open PdtVerif.Lev

variable {α : Type} [DecidableEq α]

/-! ### What "cut at the first eos" means -/

theorem firstEos_append_eos (e : α) (s g : List α) (hs : e ∉ s) : firstEos e (s ++ e :: g) = s.length := by
  induction s with
  | nil => simp [firstEos]
  | cons x xs ih =>
    have hx : ¬ x = e := fun h => hs (by simp [h])
    have : e ∉ xs := fun h => hs (by simp [h])
    simp [firstEos, hx, ih this]

theorem firstEos_absent (e : α) (s : List α) (hs : e ∉ s) : firstEos e s = s.length := by
  induction s with
  | nil => simp [firstEos]
  | cons x xs ih =>
    have hx : ¬ x = e := fun h => hs (by simp [h])
    have : e ∉ xs := fun h => hs (by simp [h])
    simp [firstEos, hx, ih this]

/-- eos unset: the whole padded column counts. -/
theorem C01_cut_unset (inc : Bool) (s : List α) : cut none inc s = s := by
  simp [cut, seqLen]

/-- `content ++ eos :: garbage` with eos-free content is cut to `content`
(`content ++ [eos]` under `include_eos`), whatever the garbage and its length. -/
theorem C01_cut_eos (e : α) (inc : Bool) (s g : List α) (hs : e ∉ s) :
    cut (some e) inc (s ++ e :: g) = if inc then s ++ [e] else s := by
  unfold cut seqLen
  simp only [firstEos_append_eos e s g hs]
  cases inc
  · simp
  · have : ¬ s.length = (s ++ e :: g).length := by simp
    simp only [if_true, if_neg this]
    simp [List.take_append]
    exact List.take_of_length_le (by omega)

/-- A column without any eos counts entirely, and `include_eos` adds nothing to it. -/
theorem C01_cut_no_eos (e : α) (inc : Bool) (s : List α) (hs : e ∉ s) : cut (some e) inc s = s := by
  unfold cut seqLen
  simp only [firstEos_absent e s hs]
  cases inc <;> simp

/-! ### The row update -/

/-- **delmat_eq_sweep** (restated): the vectorised deletion `(del_mat + v).min(1)` equals the
sequential loop `v[i] = min(v[i], v[i-1] + d)`, for every row and every `d`. -/
theorem C01_delmat_eq_sweep (d : Rat) (v : List Rat) : delMatStep d v = seqSweep d v :=
  delmat_eq_sweep d v

/-- One loop iteration of the code: while the hypothesis is not exhausted it is exactly the
shared textbook row step `Lev.stepRow` over the full padded reference; afterwards the row is
frozen. -/
theorem C01_step (c : Costs) (ref : List α) (hypLen : Nat) (excl : Bool) (idx : Nat) (y : α)
    (last : List Rat) :
    stepCol c ref hypLen excl idx y last
      = if idx < hypLen + exclOff excl then stepRow c ref y last else last := by
  split
  · exact stepCol_notDone _ _ _ _ _ _ _ ‹_›
  · exact stepCol_done _ _ _ _ _ _ _ ‹_›

/-- The padded row only looks left: entries `j ≤ n` of the DP row over the padded reference
column equal those of the DP row over the column cut to `n` tokens. -/
theorem C01_padded_row (c : Costs) (ref h : List α) (n j : Nat) (hj : j ≤ n) (hn : n ≤ ref.length) :
    (dpRow c ref h)[j]? = (dpRow c (ref.take n) h)[j]? := dpRow_take c ref h n j hj hn

/-- Row `i` of the code's loop (after iteration `hyp_idx = i + 1`, freeze included) is the
sequential DP row of the padded reference against the first `min (i+1) (hypLen + e − 1)`
hypothesis tokens (`e = 0` under `exclude_last`, else `1`). -/
theorem C01_loop_rows (c : Costs) (ref hyp : List α) (hypLen : Nat) (excl : Bool)
    (hl : hypLen ≤ hyp.length) (i : Nat) (hi : i + 1 < hyp.length + exclOff excl) :
    (loopRows c ref hyp hypLen excl)[i]?
      = some (dpRow c ref (hyp.take (min (i + 1) (hypLen + exclOff excl - 1)))) := by
  rw [loopRows_getElem? c ref hyp hypLen excl hl i hi, dpRow_eq]

/-! ### Per pair -/

/-- The reported distance is `lev` of the cut sequences. -/
theorem C01_pair_lev (c : Costs) (eos : Option α) (inc : Bool) (ref hyp : List α) :
    editDistance c eos inc false ref hyp = lev c (cut eos inc ref) (cut eos inc hyp) := by
  rw [editDistance_eq]; simp [cutDistance]

/-- **C01_pair**: for every padded reference and hypothesis column (any `R`, `H`, any garbage
after the eos), every cost triple and every eos setting, the value reported by the model of
`edit_distance` is the weighted edit distance of the cut sequences: some edit script turning
`ref'` into `hyp'` costs exactly that much, and no script costs less. -/
theorem C01_pair (c : Costs) (eos : Option α) (inc : Bool) (ref hyp : List α) :
    IsLevDist c (cut eos inc ref) (cut eos inc hyp) (editDistance c eos inc false ref hyp) := by
  rw [C01_pair_lev]; exact lev_isLevDist c _ _

/-- `C01_pair` on explicit columns `content ++ eos :: garbage`. -/
theorem C01_pair_explicit (c : Costs) (e : α) (inc : Bool) (r' h' g₁ g₂ : List α)
    (hr : e ∉ r') (hh : e ∉ h') :
    IsLevDist c (if inc then r' ++ [e] else r') (if inc then h' ++ [e] else h')
      (editDistance c (some e) inc false (r' ++ e :: g₁) (h' ++ e :: g₂)) := by
  have := C01_pair c (some e) inc (r' ++ e :: g₁) (h' ++ e :: g₂)
  rwa [C01_cut_eos e inc r' g₁ hr, C01_cut_eos e inc h' g₂ hh] at this

/-- **C01_norm**: with `norm` the distance is divided by the reference length (non-empty
reference; for an empty one the property is silent, see `C01_norm_empty_ref`). -/
theorem C01_norm (c : Costs) (eos : Option α) (inc : Bool) (ref hyp : List α)
    (hne : cut eos inc ref ≠ []) :
    editDistance c eos inc true ref hyp
      = lev c (cut eos inc ref) (cut eos inc hyp) / ((cut eos inc ref).length : Rat) := by
  rw [editDistance_eq]
  have : (cut eos inc ref).length ≠ 0 := fun h => hne (List.eq_nil_of_length_eq_zero h)
  simp [cutDistance, this]

/-- What the code substitutes for `0/0` and `x/0` (documented behaviour of the model, not a
clause of the property): 1 if the hypothesis is non-empty, else 0. -/
theorem C01_norm_empty_ref (c : Costs) (eos : Option α) (inc : Bool) (ref hyp : List α)
    (he : cut eos inc ref = []) :
    editDistance c eos inc true ref hyp = if cut eos inc hyp ≠ [] then 1 else 0 := by
  rw [editDistance_eq]
  simp only [cutDistance, he, List.length_nil, if_true]
  by_cases h : cut eos inc hyp = []
  · simp [h]
  · have : 0 < (cut eos inc hyp).length := List.length_pos_iff.mpr h
    simp [h, this]

/-! ### Uniform costs -/

/-- **C01_uniform_scale**: equal non-negative costs scale the unit-cost distance… -/
theorem C01_uniform_scale (k : Rat) (hk : 0 ≤ k) (r h : List α) :
    lev ⟨k, k, k⟩ r h = k * lev unitCosts r h := lev_uniform_scale k hk r h

/-- …so the code's shortcut (`ins == del == sub > 0` ⇒ compute with unit costs, multiply by
`mult`) returns the same number as the computation with the given costs; when the test
fails nothing is changed. -/
theorem C01_shortcut (c : Costs) (r h : List α) :
    lev (shortcut c).1 r h * (shortcut c).2 = lev c r h := shortcut_scale c r h

theorem C01_shortcut_taken (k : Rat) (hk : 0 < k) : shortcut ⟨k, k, k⟩ = (unitCosts, k) := by
  simp [shortcut, hk]

theorem C01_shortcut_not_taken (c : Costs) (h : ¬ (c.ins = c.del ∧ c.del = c.sub ∧ 0 < c.sub)) :
    shortcut c = (c, 1) := by
  simp only [shortcut, if_neg h]

/-! ### Per prefix -/

/-- The table has `H + 1` entries, `H` under `exclude_last`. -/
theorem C01_prefix_length (c : Costs) (eos : Option α) (inc norm excl : Bool) (padding : Int)
    (ref hyp : List α) :
    (prefixEditDistances c eos inc norm excl padding ref hyp).length
      = hyp.length + (if excl then 0 else 1) :=
  prefixEditDistances_length c eos inc norm excl padding ref hyp

theorem cut_length_le (eos : Option α) (inc : Bool) (l : List α) : (cut eos inc l).length ≤ l.length := by
  rw [cut_length]; exact seqLen_le eos inc l

/-- **C01_prefix**: entry `k` of the table is the weighted edit distance between the cut
reference and the length-`k` prefix of the cut hypothesis, for every `k ≤ |hyp'|`
(`k < |hyp'|` under `exclude_last`: the full hypothesis is omitted). -/
theorem C01_prefix (c : Costs) (eos : Option α) (inc excl : Bool) (padding : Int) (ref hyp : List α)
    (k : Nat) (hk : k < (cut eos inc hyp).length + (if excl then 0 else 1)) :
    (prefixEditDistances c eos inc false excl padding ref hyp)[k]?
      = some (lev c (cut eos inc ref) ((cut eos inc hyp).take k)) := by
  have hk' : k < (cut eos inc hyp).length + exclOff excl := hk
  have hle := cut_length_le eos inc hyp
  rw [prefixEditDistances_eq, List.getElem?_map, List.getElem?_range (by omega)]
  have : ¬ k ≥ (cut eos inc hyp).length + exclOff excl := by omega
  simp [cutPrefixEntry, this]

/-- The same as a statement about edit scripts. -/
theorem C01_prefix_isLevDist (c : Costs) (eos : Option α) (inc excl : Bool) (padding : Int)
    (ref hyp : List α) (k : Nat) (hk : k < (cut eos inc hyp).length + (if excl then 0 else 1)) :
    ∃ d, (prefixEditDistances c eos inc false excl padding ref hyp)[k]? = some d
      ∧ IsLevDist c (cut eos inc ref) ((cut eos inc hyp).take k) d :=
  ⟨_, C01_prefix c eos inc excl padding ref hyp k hk, lev_isLevDist c _ _⟩

/-- With `norm`, every such entry is divided by the reference length (non-empty reference). -/
theorem C01_prefix_norm (c : Costs) (eos : Option α) (inc excl : Bool) (padding : Int) (ref hyp : List α)
    (hne : cut eos inc ref ≠ [])
    (k : Nat) (hk : k < (cut eos inc hyp).length + (if excl then 0 else 1)) :
    (prefixEditDistances c eos inc true excl padding ref hyp)[k]?
      = some (lev c (cut eos inc ref) ((cut eos inc hyp).take k) / ((cut eos inc ref).length : Rat)) := by
  have hk' : k < (cut eos inc hyp).length + exclOff excl := hk
  have hle := cut_length_le eos inc hyp
  rw [prefixEditDistances_eq, List.getElem?_map, List.getElem?_range (by omega)]
  have h1 : ¬ k ≥ (cut eos inc hyp).length + exclOff excl := by omega
  have h2 : (cut eos inc ref).length ≠ 0 := fun h => hne (List.eq_nil_of_length_eq_zero h)
  simp [cutPrefixEntry, h1, h2]

/-- Positions past the hypothesis's own length hold the padding value (in every mode). -/
theorem C01_prefix_padding (c : Costs) (eos : Option α) (inc norm excl : Bool) (padding : Int)
    (ref hyp : List α) (k : Nat)
    (hk : (cut eos inc hyp).length + (if excl then 0 else 1) ≤ k)
    (hH : k < hyp.length + (if excl then 0 else 1)) :
    (prefixEditDistances c eos inc norm excl padding ref hyp)[k]? = some (padding : Rat) := by
  have hk' : (cut eos inc hyp).length + exclOff excl ≤ k := hk
  have hH' : k < hyp.length + exclOff excl := hH
  rw [prefixEditDistances_eq, List.getElem?_map, List.getElem?_range hH']
  simp [cutPrefixEntry, hk']

/-! ### Independence -/

/-- **C01_independent**: a column's result is a function of the cut sequences only — it does
not depend on the padded sizes `R`, `H` nor on any token after the first eos. (The model is
per column; that the real batched code keeps columns apart is what the correspondence checks.) -/
theorem C01_independent (c : Costs) (eos : Option α) (inc norm : Bool) (ref₁ hyp₁ ref₂ hyp₂ : List α)
    (hr : cut eos inc ref₁ = cut eos inc ref₂) (hh : cut eos inc hyp₁ = cut eos inc hyp₂) :
    editDistance c eos inc norm ref₁ hyp₁ = editDistance c eos inc norm ref₂ hyp₂ := by
  rw [editDistance_eq, editDistance_eq, hr, hh]

/-- Explicit form: change the garbage after the eos and its length at will. -/
theorem C01_independent_garbage (c : Costs) (e : α) (inc norm : Bool) (r' h' g₁ g₂ g₃ g₄ : List α)
    (hr : e ∉ r') (hh : e ∉ h') :
    editDistance c (some e) inc norm (r' ++ e :: g₁) (h' ++ e :: g₂)
      = editDistance c (some e) inc norm (r' ++ e :: g₃) (h' ++ e :: g₄) := by
  apply C01_independent
  · rw [C01_cut_eos e inc r' g₁ hr, C01_cut_eos e inc r' g₃ hr]
  · rw [C01_cut_eos e inc h' g₂ hh, C01_cut_eos e inc h' g₄ hh]

/-- Without `include_eos`, a sequence that fills its column (no eos) and the same sequence
followed by eos and garbage give the same result. -/
theorem C01_independent_fill (c : Costs) (e : α) (norm : Bool) (r' h' g₁ g₂ : List α)
    (hr : e ∉ r') (hh : e ∉ h') :
    editDistance c (some e) false norm r' h'
      = editDistance c (some e) false norm (r' ++ e :: g₁) (h' ++ e :: g₂) := by
  apply C01_independent
  · rw [C01_cut_eos e false r' g₁ hr, C01_cut_no_eos e false r' hr]; rfl
  · rw [C01_cut_eos e false h' g₂ hh, C01_cut_no_eos e false h' hh]; rfl

/-- The per-prefix table: entries at common positions agree whenever the cut sequences agree. -/
theorem C01_prefix_independent (c : Costs) (eos : Option α) (inc norm excl : Bool) (padding : Int)
    (ref₁ hyp₁ ref₂ hyp₂ : List α)
    (hr : cut eos inc ref₁ = cut eos inc ref₂) (hh : cut eos inc hyp₁ = cut eos inc hyp₂)
    (k : Nat) (h₁ : k < hyp₁.length + (if excl then 0 else 1))
    (h₂ : k < hyp₂.length + (if excl then 0 else 1)) :
    (prefixEditDistances c eos inc norm excl padding ref₁ hyp₁)[k]?
      = (prefixEditDistances c eos inc norm excl padding ref₂ hyp₂)[k]? := by
  have h₁' : k < hyp₁.length + exclOff excl := h₁
  have h₂' : k < hyp₂.length + exclOff excl := h₂
  rw [prefixEditDistances_eq, prefixEditDistances_eq, List.getElem?_map, List.getElem?_map,
    List.getElem?_range h₁', List.getElem?_range h₂', hr, hh]

/-! ### Non-vacuity: the hypotheses above are satisfiable on concrete, non-trivial inputs -/

-- `ref = [7,7,2,9]`, `hyp = [7,2,2]`, eos `2`, include_eos: `ref' = [7,7,2]`, `hyp' = [7,2]`
example : cut (some (2 : Int)) true [7, 7, 2, 9] = [7, 7, 2] := by decide
example : cut (some (2 : Int)) false [7, 2, 2] = [7] := by decide
example : (2 : Int) ∉ [7, 7] := by decide
example : cut (some (2 : Int)) true [7, 7, 2, 9] ≠ [] := by decide
example : 1 < (cut (some (2 : Int)) true [7, 2, 2]).length + (if false then 0 else 1) := by decide
example : (cut (some (2 : Int)) true [7, 2, 2]).length + (if true then 0 else 1) ≤ 2
    ∧ 2 < [7, 2, 2].length + (if true then 0 else 1) := by decide
example : cut (some (2 : Int)) false [7, 7, 2, 9] = cut (some 2) false [7, 7, 2, 0, 0, 2] := by decide

/-- `C01_pair` instantiated: padded columns `[7,7,2,9]`, `[7,2,2]`, eos `2` counted, costs
(1/2, 1, 3/2): the model's value is the weighted distance between `[7,7,2]` and `[7,2]`. -/
example : IsLevDist ⟨1/2, 1, 3/2⟩ [(7 : Int), 7, 2] [7, 2]
    (editDistance ⟨1/2, 1, 3/2⟩ (some (2 : Int)) true false [7, 7, 2, 9] [7, 2, 2]) := by
  have h := C01_pair ⟨1/2, 1, 3/2⟩ (some (2 : Int)) true [7, 7, 2, 9] [7, 2, 2]
  rw [show cut (some (2 : Int)) true [7, 7, 2, 9] = [7, 7, 2] by decide,
    show cut (some (2 : Int)) true [7, 2, 2] = [7, 2] by decide] at h
  exact h

/-- The shortcut is taken for (2,2,2) and not for (1/2,1,3/2). -/
example : shortcut ⟨2, 2, 2⟩ = (unitCosts, 2) := C01_shortcut_taken 2 (by norm_num)
example : shortcut ⟨1/2, 1, 3/2⟩ = (⟨1/2, 1, 3/2⟩, 1) :=
  C01_shortcut_not_taken _ (by norm_num)

end PdtVerif.StringMatch
